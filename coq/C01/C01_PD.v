(** C01: M is positive DEFINITE.  For every tree whose bodies have non-negative mass and positive semi-definite central
    inertia and whose elimination pivots (of each body's D = ~H P H block) are non-zero:  u^T M u = 0  implies  u = 0.
    Route: u^T M u = sum_b <Mk V_b, V_b> with every term >= 0, so every term vanishes; a PSD symmetric operator with
    <Mk V, V> = 0 has Mk V = 0 (discriminant argument on the spatial vectors); hence M u = J^T (Mk V) = 0 at every
    mobility; multiplyByMInv is a left inverse of multiplyByM (C02_Proofs.mulMInv_mulM_id), and M 0 = 0, so u = 0. *)
From Coq Require Import List Reals Lra Lia.
Import ListNotations.
Require Import Num Vec Tactics Tree MB MB_Proofs Spatial Spatial_Proofs C01_Proofs C02_Model C02_Proofs C02_Concrete C02_GJ.
Local Open Scope R_scope.

(** ** a quadratic that is non-negative for every s and has no constant term has no linear term *)
Lemma quad_no_linear b c : (forall s, 0 <= 2 * s * b + s * s * c) -> b = 0.
Proof. intros H. destruct (Req_dec b 0) as [|Hb]; [assumption|exfalso].
  assert (Hc : 0 <= c). { destruct (Rle_or_lt 0 c) as [|Hn]; [assumption|]. exfalso.
    (* c < 0: a large s makes the form negative *)
    pose proof (H ((2 * Rabs b + 1) / (- c))) as H1.
    assert (Hp : 0 < - c) by lra.
    set (s := (2 * Rabs b + 1) / - c) in *.
    assert (Hs : 0 < s) by (unfold s; apply Rdiv_lt_0_compat; [pose proof (Rabs_pos b); lra | lra]).
    assert (Esc : s * c = - (2 * Rabs b + 1)) by (unfold s; field; lra).
    assert (Hb' : b <= Rabs b) by apply Rle_abs.
    assert (E : 2 * s * b + s * s * c = s * (2 * b + s * c)) by ring. rewrite E, Esc in H1. nra. }
  pose proof (H (- b / (c + 1))) as H1.
  assert (E : 2 * (- b / (c + 1)) * b + (- b / (c + 1)) * (- b / (c + 1)) * c = b * b * ((c - 2 * (c + 1)) / ((c + 1) * (c + 1)))) by (field; lra).
  rewrite E in H1. assert (Hq : (c - 2 * (c + 1)) / ((c + 1) * (c + 1)) < 0).
  { apply Rmult_lt_reg_r with ((c + 1) * (c + 1)); [nra|]. unfold Rdiv. rewrite Rmult_assoc, Rinv_l by nra. nra. }
  assert (0 < b * b) by nra. nra. Qed.

Notation KR := (svK ROps).

(** ** body level: a PSD spatial inertia annihilates the vectors of zero energy *)
Lemma sv_M_lin (i : SpInertia (T:=R)) a b s :
  mapply KR i (vadd KR a (vscale KR s b)) = vadd KR (mapply KR i a) (vscale KR s (mapply KR i b)).
Proof. destruct i as [[m p] [[[? ?] ?] [[? ?] ?]]]. d3 p; dsv a; dsv b. sunf. teq; ring. Qed.
Lemma sv_dot_scale_l s a b : dot KR (vscale KR s a) b = s * dot KR a b.
Proof. rewrite sv_dot_sym, sv_dot_scale_r, sv_dot_sym. reflexivity. Qed.

Lemma sv_M_zero_energy (i : SpInertia (T:=R)) a :
  (forall w, 0 <= dot KR (mapply KR i w) w) -> dot KR (mapply KR i a) a = 0 -> mapply KR i a = vzero KR.
Proof. intros Hpsd H0. apply sv_dot_ext. intros y. rewrite sv_dot_zero_l.
  apply (quad_no_linear _ (dot KR (mapply KR i y) y)). intros s.
  pose proof (Hpsd (vadd KR a (vscale KR s y))) as Hs.
  rewrite sv_M_lin, sv_dot_add_l, !sv_dot_add_r, !sv_dot_scale_r, !sv_dot_scale_l, H0 in Hs.
  rewrite (sv_M_sym i y a), (sv_dot_sym y (mapply KR i a)) in Hs. lra. Qed.

(** ** small concrete facts *)
Lemma sv_vadd_zero_l a : vadd KR (vzero KR) a = a. Proof. dsv a. sunf. teq; ring. Qed.
Lemma sv_phi_zero l : phi KR l (vzero KR) = vzero KR. Proof. d3 l. sunf. teq; ring. Qed.
Lemma sv_phiT_zero l : phiT KR l (vzero KR) = vzero KR. Proof. d3 l. sunf. teq; ring. Qed.
Lemma sv_M_of_zero (i : SpInertia (T:=R)) : mapply KR i (vzero KR) = vzero KR.
Proof. destruct i as [[m p] [[[? ?] ?] [[? ?] ?]]]. d3 p. sunf. teq; ring. Qed.
Lemma Hmul_zeros (H : list (SpatialVec R)) : Hmul KR H (map (fun _ => 0) H) = vzero KR.
Proof. induction H as [|h H IH]; cbn [map Hmul]; [reflexivity|]. rewrite IH. dsv h. sunf. teq; ring. Qed.
Lemma Htmul_zero (H : list (SpatialVec R)) : Htmul KR H (vzero KR) = map (fun _ => 0) H.
Proof. unfold Htmul. apply map_ext. intros h. apply sv_dot_zero_l. Qed.

Lemma lsum_zero_each {A} (f : A -> R) (l : list A) :
  (forall x, In x l -> 0 <= f x) -> lsum (map f l) = 0 -> forall x, In x l -> f x = 0.
Proof. induction l as [|a l IH]; intros Hn Hs x Hx; [destruct Hx|]. cbn [map] in Hs. rewrite lsum_cons in Hs.
  assert (H1 : 0 <= f a) by (apply Hn; left; reflexivity).
  assert (H2 : 0 <= lsum (map f l)) by (apply lsum_nonneg; intros y Hy; apply Hn; right; exact Hy).
  destruct Hx as [<-|Hx]; [lra|]. apply IH; auto. - intros y Hy; apply Hn; right; exact Hy. - lra. Qed.

Section PD.
Context {X : Type} (nd : X -> node (SpatialVec R) (Vec3 R) (SpInertia (T:=R))).

(** inward accumulation of a force field that vanishes on the tree vanishes *)
Lemma accum_zero {Y} (ndy : Y -> node (SpatialVec R) (Vec3 R) (SpInertia (T:=R))) (F : Y -> SpatialVec R) (t : tree Y) :
  (forall y, In y (flatten t) -> F y = vzero KR) ->
  Forall (fun r => snd r = vzero KR) (flatten (accum KR ndy F t)).
Proof. induction t as [y cs IH] using tree_ind'. intros HF. unfold accum. cbn [inward flatten].
  assert (Hk : Forall (fun c => Forall (fun r => snd r = vzero KR) (flatten (accum KR ndy F c))) cs).
  { rewrite Forall_forall in *. intros c Hc. apply IH; [exact Hc|]. intros z Hz. apply HF. cbn [flatten]. right.
    apply in_flat_map. exists c. split; assumption. }
  constructor.
  - cbn [snd]. unfold gather. rewrite (HF y) by (cbn [flatten]; left; reflexivity). rewrite sv_vadd_zero_l.
    rewrite map_map. clear IH HF. induction cs as [|c r IHr]; cbn [map fold_right]; [reflexivity|].
    inversion Hk as [|? ? Hc Hr]; subst. rewrite (IHr Hr).
    assert (E : snd (root (inward (gather KR ndy F) c)) = vzero KR).
    { destruct c as [z zs]. cbn [inward root flatten] in *. inversion Hc; subst. assumption. }
    unfold gather in E. rewrite E, sv_phi_zero. apply sv_vadd_zero_l.
  - clear HF IH. induction cs as [|c r IHr]; cbn [map flat_map]; [constructor|]. inversion Hk; subst. apply Forall_app. split; auto. Qed.

(** M u = 0 at every mobility whenever every body has zero energy under u *)
Lemma mulM_zero_of_zero_energy (u : X -> list R) (t : tree X) :
  (forall xv, In xv (flatten (mulJ KR nd u t)) -> mapply KR (n_M (nd (fst xv))) (snd xv) = vzero KR) ->
  Forall (fun r => snd r = map (fun _ => 0) (n_H (nd (fst (fst r))))) (flatten (mulM KR nd u t)).
Proof. intros Hz. unfold mulM, mulJt. rewrite flatten_tmap. apply Forall_map. cbn [fst snd].
  pose proof (accum_zero (fun xv : X * SpatialVec R => nd (fst xv)) (fun xv => mapply KR (n_M (nd (fst xv))) (snd xv)) (mulJ KR nd u t) Hz) as Ha.
  eapply Forall_impl; [|exact Ha]. intros r Hr. cbn beta. rewrite Hr. apply Htmul_zero. Qed.

(** the velocities produced by zero speeds vanish, so M 0 = 0 *)
Definition uzero (x : X) : list R := map (fun _ => 0) (n_H (nd x)).
Lemma mulJ_zero (t : tree X) : forall Vp, Vp = vzero KR ->
  Forall (fun xv => snd xv = vzero KR) (flatten (kin KR nd uzero (fun _ => vzero KR) Vp t)).
Proof. induction t as [x cs IH] using tree_ind'. intros Vp ->. unfold kin. cbn [outward flatten].
  assert (E : vadd KR (vadd KR (phiT KR (n_l (nd x)) (vzero KR)) (Hmul KR (n_H (nd x)) (uzero x))) (vzero KR) = vzero KR).
  { unfold uzero. rewrite sv_phiT_zero, Hmul_zeros. sunf. teq; ring. }
  rewrite E. constructor; [reflexivity|]. rewrite Forall_forall in IH.
  clear E. induction cs as [|c r IHr]; cbn [map flat_map]; [constructor|]. apply Forall_app. split.
  - apply (IH c); [left; reflexivity | reflexivity].
  - apply IHr. intros c' Hc'. apply IH. right. exact Hc'. Qed.
Lemma mulM_zero (t : tree X) :
  Forall (fun r => snd r = map (fun _ => 0) (n_H (nd (fst (fst r))))) (flatten (mulM KR nd uzero t)).
Proof. apply mulM_zero_of_zero_energy. intros xv Hin. pose proof (mulJ_zero t (vzero KR) eq_refl) as Hz.
  rewrite Forall_forall in Hz. unfold mulJ in Hin. rewrite (Hz xv Hin). apply sv_M_of_zero. Qed.

(** forces: zero at every mobility *)
Definition dy0 (x : X) : dyn R (SpatialVec R) := mkDyn (vzero KR) (vzero KR) (vzero KR) (map (fun _ => 0) (n_H (nd x))).

Lemma tmap_id' {A} (t : tree A) : tmap (fun a => a) t = t.
Proof. induction t as [x cs IH] using tree_ind'. cbn. f_equal.
  induction cs as [|c r IHr]; cbn; [reflexivity|]. inversion IH; subst. f_equal; auto. Qed.
Lemma mulMInv_labels (t : tree X) : map (fun w => w_x w) (flatten (mulMInv KR AR nd dy0 t)) = flatten t.
Proof. rewrite <- flatten_tmap. f_equal. unfold mulMInv.
  lazymatch goal with |- tmap _ (outward ?f ?b ?T1) = _ =>
    transitivity (tmap (fun zw : (X * abi R (SpatialVec R) (ArtInertia (T:=R))) * zrec R (SpatialVec R) => fst (fst zw))
                       (tmap fst (outward f b T1))); [rewrite tmap_tmap; reflexivity|] end.
  rewrite tmap_fst_outward.
  lazymatch goal with |- tmap _ (inward ?g ?T0) = _ =>
    transitivity (tmap (fun y : X * abi R (SpatialVec R) (ArtInertia (T:=R)) => fst y) (tmap fst (inward g T0))); [rewrite tmap_tmap; reflexivity|] end.
  rewrite tmap_fst_inward. unfold abi_pass. apply tmap_fst_inward. Qed.

(** THE THEOREM: zero kinetic energy forces zero speeds *)
Theorem M_positive_definite (u : X -> list R) (t : tree X) :
  (forall x, In x (flatten t) -> (let '(m,_,_) := n_M (nd x) in 0 <= m) /\ (forall w, 0 <= centralForm (n_M (nd x)) w)) ->
  (forall y, In y (flatten (abi_pass KR AR nd t)) -> length (u (fst y)) = length (n_H (nd (fst y))) /\ pivots_ok (a_D (snd y))) ->
  tsum (tmap (fun xt => dotU KR (snd xt) (u (fst (fst xt)))) (mulM KR nd u t)) = 0 ->
  forall x, In x (flatten t) -> u x = map (fun _ => 0) (n_H (nd x)).
Proof. intros Hmass Hpiv H0.
  (* every body's energy term vanishes *)
  assert (Hpsd : forall x, In x (flatten t) -> forall w, 0 <= dot KR (mapply KR (n_M (nd x)) w) w).
  { intros x Hx w. destruct (Hmass x Hx) as [Hm Hc]. apply sv_M_psd; auto. }
  assert (Hlab : forall xv, In xv (flatten (mulJ KR nd u t)) -> In (fst xv) (flatten t)).
  { intros xv Hin. unfold mulJ, kin in Hin. apply (in_map fst) in Hin. rewrite <- flatten_tmap, tmap_fst_outward in Hin. exact Hin. }
  rewrite (uMu_is_twice_KE nd u t) in H0. unfold ke2_terms in H0. rewrite tsum_flatten in H0.
  assert (Hterm : forall xv, In xv (flatten (mulJ KR nd u t)) -> mapply KR (n_M (nd (fst xv))) (snd xv) = vzero KR).
  { intros xv Hin. apply sv_M_zero_energy; [apply Hpsd, Hlab, Hin|].
    apply (lsum_zero_each (fun xv : X * SpatialVec R => dot KR (mapply KR (n_M (nd (fst xv))) (snd xv)) (snd xv)) (flatten (mulJ KR nd u t))); auto. }
  pose proof (mulM_zero_of_zero_energy u t Hterm) as HMu.
  (* M u = 0 and M 0 = 0: both are what M^-1 returns for zero forces *)
  assert (Hn : forall v : X -> list R, (forall y, In y (flatten (abi_pass KR AR nd t)) -> length (v (fst y)) = length (n_H (nd (fst y)))) ->
               forall y, In y (flatten (abi_pass KR AR nd t)) ->
               length (d_f (dy0 (fst y))) = length (n_H (nd (fst y))) /\ length (v (fst y)) = length (n_H (nd (fst y))) /\ pivots_ok (a_D (snd y))).
  { intros v Hv y Hy. split; [cbn; apply map_length|]. split; [apply Hv; exact Hy | apply (Hpiv y Hy)]. }
  pose proof (mulMInv_mulM_id_pivots nd dy0 u t (Hn u (fun y Hy => proj1 (Hpiv y Hy))) HMu) as Eu.
  pose proof (mulMInv_mulM_id_pivots nd dy0 uzero t (Hn uzero (fun y Hy => map_length _ _)) (mulM_zero t)) as E0.
  intros x Hx. rewrite <- (mulMInv_labels t) in Hx. apply in_map_iff in Hx. destruct Hx as [w [<- Hw]].
  rewrite Forall_forall in Eu, E0. rewrite <- (Eu w Hw). apply (E0 w Hw). Qed.

(** in the usual form: a speed assignment that is not zero on the tree has positive energy *)
Corollary M_positive_definite_strict (u : X -> list R) (t : tree X) :
  (forall x, In x (flatten t) -> (let '(m,_,_) := n_M (nd x) in 0 <= m) /\ (forall w, 0 <= centralForm (n_M (nd x)) w)) ->
  (forall y, In y (flatten (abi_pass KR AR nd t)) -> length (u (fst y)) = length (n_H (nd (fst y))) /\ pivots_ok (a_D (snd y))) ->
  (exists x, In x (flatten t) /\ u x <> map (fun _ => 0) (n_H (nd x))) ->
  0 < tsum (tmap (fun xt => dotU KR (snd xt) (u (fst (fst xt)))) (mulM KR nd u t)).
Proof. intros Hmass Hpiv [x [Hx Hne]].
  pose proof (M_positive_semidefinite nd u t Hmass) as Hge.
  destruct (Req_dec (tsum (tmap (fun xt => dotU KR (snd xt) (u (fst (fst xt)))) (mulM KR nd u t))) 0) as [E|E]; [|lra].
  exfalso. apply Hne. exact (M_positive_definite u t Hmass Hpiv E x Hx). Qed.
End PD.

(** non-vacuity: Ground + one slider body (mass 2, unit central inertia) moving with speed 2 has positive energy by the theorem *)
Example pd_example : 0 < tsum (tmap (fun xt => dotU KR (snd xt) (sl_ud (fst (fst xt)))) (mulM KR sl_nd sl_ud sl_t)).
Proof. apply M_positive_definite_strict.
  - intros x Hx. cbn [sl_t flatten flat_map app] in Hx. destruct Hx as [<-|[<-|[]]]; cbn [sl_nd n_M]; (split; [lra|]); intros [[a b] c]; unfold centralForm; vunf; nra.
  - intros y Hy. destruct (sl_piv y Hy) as [_ [H2 H3]]. split; assumption.
  - exists 1%nat. split; [cbn; auto|]. cbn. intros E. injection E as E. lra. Qed.
