(** C01: mass-matrix operators.  M = J^T Mk J as simbody's multiplyByM computes it (outward
    accelerations, inward forces), at the concrete spatial algebra over R, for EVERY tree.
    The inverse operator (articulated-body passes) is not yet in the model: the statements about
    M^-1 are tied by correspondence only (see manifest level_note). *)
From Coq Require Import List Reals Lra.
Import ListNotations.
Require Import Num Vec Tactics Tree MB MB_Proofs Spatial Spatial_Proofs.
Local Open Scope R_scope.

Section C01.
Context {X : Type} (nd : X -> node (SpatialVec R) (Vec3 R) (SpInertia (T:=R))).
Notation KR := (svK ROps).
Let laws_form := mulM_is_form KR sv_s0 sv_sadd sv_smul sv_dot_add_l sv_dot_add_r sv_dot_scale_r sv_dot_zero_r sv_dot_zero_l sv_phi_adj nd.

(** the O(n) product v^T (M u) is the bilinear form  sum_b <Mk_b (J u)_b, (J v)_b> *)
Theorem mulM_is_JtMJ (u v : X -> list R) (t : tree X) :
  tsum (tmap (fun xt => dotU KR (snd xt) (v (fst (fst xt)))) (mulM KR nd u t)) = Mform KR nd u v t.
Proof. apply laws_form. Qed.

(** M is symmetric *)
Theorem M_symmetric (u v : X -> list R) (t : tree X) :
  tsum (tmap (fun xt => dotU KR (snd xt) (v (fst (fst xt)))) (mulM KR nd u t))
  = tsum (tmap (fun xt => dotU KR (snd xt) (u (fst (fst xt)))) (mulM KR nd v t)).
Proof. apply (mulM_symmetric KR sv_s0 sv_sadd sv_smul sv_dot_add_l sv_dot_add_r sv_dot_scale_r sv_dot_zero_r sv_dot_zero_l sv_phi_adj nd sv_M_sym sv_dot_sym). Qed.

(** kinetic energy: u^T M u = sum_b <Mk V_b, V_b> = 2 KE *)
Theorem uMu_is_twice_KE (u : X -> list R) (t : tree X) :
  tsum (tmap (fun xt => dotU KR (snd xt) (u (fst (fst xt)))) (mulM KR nd u t)) = tsum (ke2_terms KR nd u t).
Proof. apply (uMu_is_2ke KR sv_s0 sv_sadd sv_smul sv_dot_add_l sv_dot_add_r sv_dot_scale_r sv_dot_zero_r sv_dot_zero_l sv_phi_adj nd). Qed.

(** M is positive semi-definite whenever every body has non-negative mass and a PSD central inertia
    (which C29 proves for every inertia that is one, i.e. for point-mass clouds) *)
Theorem M_positive_semidefinite (u : X -> list R) (t : tree X) :
  (forall x, In x (flatten t) -> (let '(m,_,_) := n_M (nd x) in 0 <= m) /\ (forall w, 0 <= centralForm (n_M (nd x)) w)) ->
  0 <= tsum (tmap (fun xt => dotU KR (snd xt) (u (fst (fst xt)))) (mulM KR nd u t)).
Proof. intros Hv.
  apply (M_psd KR sv_s0 sv_sadd sv_smul sv_dot_add_l sv_dot_add_r sv_dot_scale_r sv_dot_zero_r sv_dot_zero_l sv_phi_adj nd).
  intros x Hx a. destruct (Hv x Hx) as [Hm Hc]. apply sv_M_psd; auto. Qed.

(** definiteness needs that no non-zero u gives zero velocity to every massive body; stated in full,
    proved under that explicit rank hypothesis (partial: the rank fact per mobilizer type is not proved) *)
Theorem M_positive_definite_partial (u : X -> list R) (t : tree X) :
  (forall xv, In xv (flatten (mulJ KR nd u t)) -> 0 <= dot KR (mapply KR (n_M (nd (fst xv))) (snd xv)) (snd xv)) ->
  (exists xv, In xv (flatten (mulJ KR nd u t)) /\ 0 < dot KR (mapply KR (n_M (nd (fst xv))) (snd xv)) (snd xv)) ->
  0 < tsum (tmap (fun xt => dotU KR (snd xt) (u (fst (fst xt)))) (mulM KR nd u t)).
Proof. intros Hall Hex. rewrite uMu_is_twice_KE. unfold ke2_terms. rewrite tsum_flatten.
  apply lsum_pos; auto. Qed.
End C01.

(** non-vacuity: a concrete inertia (unit point mass at (1,0,0)) meets the PSD hypotheses *)
Example psd_hyp_satisfiable : let i : SpInertia (T:=R) := (1, (1,0,0), ((0,1,1),(0,0,0))) in
  (let '(m,_,_) := i in 0 <= m) /\ forall w, 0 <= centralForm i w.
Proof. cbn. split; [lra|]. intros [[a b] c]. unfold centralForm. vunf. nra. Qed.
