(** C02: the laws the abstract theorems of C02_Proofs.v need, proved for the concrete algebra over R
    (SimTK spatial vectors, shifts, rigid-body spatial inertia from Lib/Spatial.v and the ArticulatedInertia
    model of C02_Model.v with shift() = halfCrossDiff and the symmetrised P+ update), and the instantiated theorems. *)
From Coq Require Import List Reals Lra Psatz.
Import ListNotations.
Require Import Num Vec Tactics Tree MB MB_Proofs Spatial Spatial_Proofs C02_Model C02_Proofs.
Local Open Scope R_scope.

Notation KR := (svK ROps).
Notation AR := (aiK ROps).

Ltac aunf := cbv [aiK sneg pofI padd pshift papply pdown minv ai_apply ai_ofI ai_add ai_sub ai_shift halfCrossDiff
                  ai_down symmetrise half m33_zero]; sunf.
Ltac dm33 m := destruct m as [[[[? ?] ?] [[? ?] ?]] [[? ?] ?]].
Ltac dsym s := destruct s as [[[? ?] ?] [[? ?] ?]].
Ltac dai p := let M := fresh "M" in let F := fresh "F" in let J := fresh "J" in destruct p as [[M F] J]; dsym M; dm33 F; dsym J.

Lemma sv_s1 : s1 KR = 1. Proof. reflexivity. Qed.
Lemma ai_sneg a : sneg AR a = - a. Proof. reflexivity. Qed.

(** spatial vectors are equal when all their pairings agree *)
Lemma sv_dot_ext a b : (forall y, dot KR a y = dot KR b y) -> a = b.
Proof. intros E.
  pose proof (E ((1,0,0),(0,0,0))) as E1. pose proof (E ((0,1,0),(0,0,0))) as E2. pose proof (E ((0,0,1),(0,0,0))) as E3.
  pose proof (E ((0,0,0),(1,0,0))) as E4. pose proof (E ((0,0,0),(0,1,0))) as E5. pose proof (E ((0,0,0),(0,0,1))) as E6.
  clear E. dsv a; dsv b. revert E1 E2 E3 E4 E5 E6. sunf. intros. teq; lra. Qed.

(** an ArticulatedInertia (symmetric mass and inertia blocks, one massMoment block) is a symmetric operator *)
Lemma ai_P_sym (p : ArtInertia (T:=R)) a b : dot KR (papply AR p a) b = dot KR a (papply AR p b).
Proof. dai p; dsv a; dsv b. aunf. ring. Qed.
Lemma ai_pofI_app (i : SpInertia (T:=R)) v : papply AR (pofI AR i) v = mapply KR i v.
Proof. destruct i as [[m p] Io]. d3 p; dsym Io; dsv v. aunf. teq; ring. Qed.
Lemma ai_padd_app (p q : ArtInertia (T:=R)) v : papply AR (padd AR p q) v = vadd KR (papply AR p v) (papply AR q v).
Proof. dai p; dai q; dsv v. aunf. teq; ring. Qed.
(** ArticulatedInertia::shift(l) is  phi(l) P ~phi(l) *)
Lemma ai_pshift_app l (p : ArtInertia (T:=R)) v : papply AR (pshift AR l p) v = phi KR l (papply AR p (phiT KR l v)).
Proof. d3 l; dai p; dsv v. aunf. teq; ring. Qed.

(** ** P+ = P - G ~PH *)
(** the bilinear form of a 6x6 matrix given by four 3x3 blocks: y^T [M11 M12; M21 M22] v *)
Definition bil (M11 M12 M21 M22 : Mat33 R) (v y : SpatialVec R) : R :=
  v3_dot ROps (fst y) (m33_mulv ROps M11 (fst v)) + v3_dot ROps (fst y) (m33_mulv ROps M12 (snd v))
  + v3_dot ROps (snd y) (m33_mulv ROps M21 (fst v)) + v3_dot ROps (snd y) (m33_mulv ROps M22 (snd v)).

Lemma Bf_outer : forall (G PH : list (SpatialVec R)) v y,
  Bf KR G PH v y = bil (outerSum ROps fst fst G PH) (outerSum ROps fst snd G PH) (outerSum ROps snd fst G PH) (outerSum ROps snd snd G PH) v y.
Proof.
  induction G as [|g G IH]; intros [|ph PH] v y; try (dsv v; dsv y; unfold Bf, bil, outerSum; cbn; vunf; ring).
  unfold Bf in *. cbn [Htmul map dotU combine]. unfold outerSum. cbn [combine fold_right]. fold (outerSum ROps fst fst G PH)
    (outerSum ROps fst snd G PH) (outerSum ROps snd fst G PH) (outerSum ROps snd snd G PH).
  change (dotU KR (map (fun h1 => dot KR y h1) G) (map (fun h2 => dot KR v h2) PH)) with (dotU KR (Htmul KR G y) (Htmul KR PH v)).
  rewrite IH. generalize (outerSum ROps fst fst G PH) (outerSum ROps fst snd G PH) (outerSum ROps snd fst G PH) (outerSum ROps snd snd G PH).
  intros A11 A12 A21 A22. dm33 A11; dm33 A12; dm33 A21; dm33 A22. dsv g; dsv ph; dsv v; dsv y.
  unfold bil. sunf. ring.
Qed.

Lemma ai_pdown_app (p : ArtInertia (T:=R)) G PH : (forall v y, Bf KR G PH v y = Bf KR G PH y v) ->
  forall v y, dot KR (papply AR (pdown AR p G PH) v) y = dot KR (papply AR p v) y - Bf KR G PH v y.
Proof.
  intros Hs v y. rewrite Bf_outer.
  assert (Hb : forall v y, bil (outerSum ROps fst fst G PH) (outerSum ROps fst snd G PH) (outerSum ROps snd fst G PH) (outerSum ROps snd snd G PH) v y
                        = bil (outerSum ROps fst fst G PH) (outerSum ROps fst snd G PH) (outerSum ROps snd fst G PH) (outerSum ROps snd snd G PH) y v)
    by (intros; rewrite <- !Bf_outer; apply Hs).
  clear Hs. cbv [aiK pdown ai_down].
  revert Hb. generalize (outerSum ROps fst fst G PH) (outerSum ROps fst snd G PH) (outerSum ROps snd fst G PH) (outerSum ROps snd snd G PH).
  intros A11 A12 A21 A22 Hb.
  destruct A11 as [[[[i00 i01] i02] [[i10 i11] i12]] [[i20 i21] i22]].
  destruct A12 as [[[[f00 f01] f02] [[f10 f11] f12]] [[f20 f21] f22]].
  destruct A21 as [[[[g00 g01] g02] [[g10 g11] g12]] [[g20 g21] g22]].
  destruct A22 as [[[[m00 m01] m02] [[m10 m11] m12]] [[m20 m21] m22]].
  pose (e1 := (1,0,0) : Vec3 R). pose (e2 := (0,1,0) : Vec3 R). pose (e3 := (0,0,1) : Vec3 R). pose (o := (0,0,0) : Vec3 R).
  assert (I01 : i01 = i10) by (generalize (Hb (e1,o) (e2,o)); unfold bil, e1, e2, e3, o; vunf; lra).
  assert (I02 : i02 = i20) by (generalize (Hb (e1,o) (e3,o)); unfold bil, e1, e2, e3, o; vunf; lra).
  assert (I12 : i12 = i21) by (generalize (Hb (e2,o) (e3,o)); unfold bil, e1, e2, e3, o; vunf; lra).
  assert (M01 : m01 = m10) by (generalize (Hb (o,e1) (o,e2)); unfold bil, e1, e2, e3, o; vunf; lra).
  assert (M02 : m02 = m20) by (generalize (Hb (o,e1) (o,e3)); unfold bil, e1, e2, e3, o; vunf; lra).
  assert (M12 : m12 = m21) by (generalize (Hb (o,e2) (o,e3)); unfold bil, e1, e2, e3, o; vunf; lra).
  assert (G00 : g00 = f00) by (generalize (Hb (e1,o) (o,e1)); unfold bil, e1, e2, e3, o; vunf; lra).
  assert (G01 : g01 = f10) by (generalize (Hb (e2,o) (o,e1)); unfold bil, e1, e2, e3, o; vunf; lra).
  assert (G02 : g02 = f20) by (generalize (Hb (e3,o) (o,e1)); unfold bil, e1, e2, e3, o; vunf; lra).
  assert (G10 : g10 = f01) by (generalize (Hb (e1,o) (o,e2)); unfold bil, e1, e2, e3, o; vunf; lra).
  assert (G11 : g11 = f11) by (generalize (Hb (e2,o) (o,e2)); unfold bil, e1, e2, e3, o; vunf; lra).
  assert (G12 : g12 = f21) by (generalize (Hb (e3,o) (o,e2)); unfold bil, e1, e2, e3, o; vunf; lra).
  assert (G20 : g20 = f02) by (generalize (Hb (e1,o) (o,e3)); unfold bil, e1, e2, e3, o; vunf; lra).
  assert (G21 : g21 = f12) by (generalize (Hb (e2,o) (o,e3)); unfold bil, e1, e2, e3, o; vunf; lra).
  assert (G22 : g22 = f22) by (generalize (Hb (e3,o) (o,e3)); unfold bil, e1, e2, e3, o; vunf; lra).
  clear Hb e1 e2 e3 o. subst.
  dai p; dsv v; dsv y. unfold bil. aunf. field.
Qed.

(** ** the abstract theorems at the concrete algebra over R *)
Ltac laws := first [exact sv_s0 | exact sv_s1 | exact sv_sadd | exact sv_smul | exact ai_sneg | exact sv_dot_add_l | exact sv_dot_add_r
  | exact sv_dot_scale_r | exact sv_dot_zero_r | exact sv_dot_zero_l | exact sv_dot_sym | exact sv_phi_adj | exact sv_dot_ext | exact sv_M_sym
  | exact ai_P_sym | exact ai_pofI_app | exact ai_padd_app | exact ai_pshift_app | exact ai_pdown_app].

Section C02R.
Context {X : Type} (nd : X -> node (SpatialVec R) (Vec3 R) (SpInertia (T:=R))) (dy : X -> dyn R (SpatialVec R)).
Notation WTR := (((X * abi R (SpatialVec R) (ArtInertia (T:=R))) * zrec R (SpatialVec R)) * (SpatialVec R * list R))%type.

(** per-body hypothesis: the inverse computed for D = ~H P H is a symmetric inverse, and one mobility force per mobility *)
Definition body_ok (y : X * abi R (SpatialVec R) (ArtInertia (T:=R))) : Prop := node_ok KR nd dy y.

(** weak-form specification of inverse dynamics (see C02_Proofs.rnea_spec) *)
Theorem rnea_spec_R (ud v : X -> list R) (t : tree X) :
  tsum (tmap (fun r => dotU KR (snd r) (v (fst (fst (fst r))))) (rnea KR AR nd dy ud t))
  = tsum (tmap (fun r => dotU KR (snd r) (ud (fst (fst r)))) (mulM KR nd v t))
    + tsum (tmap (fun r => dot KR (snd r) (d_a (dy (fst (fst r))))) (accum KR (fun xv => nd (fst xv)) (MW KR nd) (mulJ KR nd v t)))
    + tsum (tmap (fun xw => dot KR (vsub KR AR (d_g (dy (fst xw))) (d_F (dy (fst xw)))) (snd xw)) (mulJ KR nd v t))
    - tsum (tmap (fun x => dotU KR (d_f (dy x)) (v x)) t).
Proof. eapply rnea_spec; laws. Qed.

Theorem rnea_affine_in_udot_R (ud v : X -> list R) (t : tree X) :
  tsum (tmap (fun r => dotU KR (snd r) (v (fst (fst (fst r))))) (rnea KR AR nd dy ud t))
  = tsum (tmap (fun r => dotU KR (snd r) (ud (fst (fst r)))) (mulM KR nd v t))
    + tsum (tmap (fun r => dotU KR (snd r) (v (fst (fst (fst r))))) (rnea KR AR nd dy (fun _ => []) t)).
Proof. eapply rnea_affine_in_udot; laws. Qed.

(** MAIN: inverse dynamics of the forward-dynamics accelerations gives zero residual, for every tree *)
Theorem fd_then_rnea_zero_R (t : tree X) :
  (forall y, In y (flatten (abi_pass KR AR nd t)) -> body_ok y) ->
  Forall (fun r => snd r = map (fun _ => 0) (n_H (nd (w_x (fst (fst (fst r)))))))
         (flatten (rnea_of_fd KR AR nd dy t)).
Proof. eapply fd_then_rnea_zero; laws. Qed.

(** forward dynamics solves  M udot + C = J^T F + f  with C the zero-acceleration, zero-force value of inverse dynamics *)
Theorem fd_satisfies_eom_R (v : X -> list R) (t : tree X) :
  (forall y, In y (flatten (abi_pass KR AR nd t)) -> body_ok y) ->
  let vw := fun w : WTR => v (w_x w) in
  let ndw := fun w : WTR => nd (w_x w) in
  let dyw := fun w : WTR => dy (w_x w) in
  tsum (tmap (fun r => dotU KR (snd r) (w_ud (fst (fst r)))) (mulM KR ndw vw (fd KR AR nd dy t)))
  + tsum (tmap (fun r => dotU KR (snd r) (vw (fst (fst (fst r))))) (rnea KR AR ndw (dy_bias KR dy) (fun _ => []) (fd KR AR nd dy t)))
  = tsum (tmap (fun xw => dot KR (d_F (dyw (fst xw))) (snd xw)) (mulJ KR ndw vw (fd KR AR nd dy t)))
    + tsum (tmap (fun w => dotU KR (d_f (dyw w)) (vw w)) (fd KR AR nd dy t)).
Proof. intros Hok. eapply (fd_satisfies_eom KR AR); try laws. exact Hok. Qed.

(** M (M^-1 f) = f *)
Theorem mulM_mulMInv_id_R (t : tree X) :
  (forall y, In y (flatten (abi_pass KR AR nd t)) -> body_ok y) ->
  Forall (fun r => snd r = d_f (dy (w_x (fst (fst r))))) (flatten (mulM_of_mulMInv KR AR nd dy t)).
Proof. eapply mulM_mulMInv_id; laws. Qed.
(** the two routes to the mobilizer reaction forces (C14): free-body recursion on the forward-dynamics accelerations
    = P+ (~phi A_parent) + z+ at every body of every tree *)
Theorem reaction_routes_agree_R (t : tree X) :
  (forall y, In y (flatten (abi_pass KR AR nd t)) -> body_ok y) ->
  map (fun r => (fst (fst r), snd r)) (flatten (react_fb KR AR nd dy t))
  = map (fun r => (fst r, snd (snd r))) (flatten (react_art KR AR nd dy t)).
Proof. eapply reaction_routes_agree; laws. Qed.
(** calcTreeEquivalentMobilityForces = J^T (F - F_inertial) = -(zero-acceleration residual + f), in weak form *)
Theorem equiv_weak_R (v : X -> list R) (t : tree X) :
  tsum (tmap (fun r => dotU KR (snd r) (v (fst (fst r)))) (equivf KR AR nd dy t))
  = tsum (tmap (fun xw => dot KR (equiv_force KR AR nd dy (fst xw)) (snd xw))
                (mulJ KR (fun xv => nd (fst xv)) (fun xv => v (fst xv)) (rnea_acc KR nd dy (fun _ => []) t))).
Proof. eapply equiv_weak; laws. Qed.
Theorem equiv_is_minus_bias_residual_R (v : X -> list R) (t : tree X) :
  tsum (tmap (fun r => dotU KR (snd r) (v (fst (fst r)))) (equivf KR AR nd dy t))
  + tsum (tmap (fun r => dotU KR (snd r) (v (fst (fst (fst r))))) (rnea KR AR nd dy (fun _ => []) t))
  = - tsum (tmap (fun xa => dotU KR (d_f (dy (fst xa))) (v (fst xa))) (rnea_acc KR nd dy (fun _ => []) t)).
Proof. eapply equiv_is_minus_bias_residual; laws. Qed.

(** uniqueness: mobility accelerations with zero inverse-dynamics residual are exactly what forward dynamics returns *)
Theorem fd_unique_R (ud : X -> list R) (t : tree X) :
  (forall y, In y (flatten (abi_pass KR AR nd t)) -> node_ok_l KR nd dy ud y) ->
  Forall (fun r => snd r = map (fun _ => 0) (n_H (nd (fst (fst (fst r)))))) (flatten (rnea KR AR nd dy ud t)) ->
  Forall (fun w : WTR => w_ud w = ud (w_x w)) (flatten (fd KR AR nd dy t)).
Proof. eapply fd_unique; laws. Qed.
(** M u = f  implies  M^-1 f = u *)
Theorem mulMInv_mulM_id_R (u : X -> list R) (t : tree X) :
  (forall y, In y (flatten (abi_pass KR AR nd t)) -> node_ok_l KR nd dy u y) ->
  Forall (fun r => snd r = d_f (dy (fst (fst r)))) (flatten (mulM KR nd u t)) ->
  Forall (fun w : WTR => w_ud w = u (w_x w)) (flatten (mulMInv KR AR nd dy t)).
Proof. eapply mulMInv_mulM_id; laws. Qed.
End C02R.

(** ** the per-body hypothesis for small mobility spaces *)
(** the per-body hypothesis discharged for small mobility spaces: the model's Gauss-Jordan inverse of a symmetric D with
    non-zero pivots is a symmetric inverse (dof 0, 1, 2) *)
Lemma gj_sym_inverse_0 : sym_inverse KR 0 [] (gj_inverse ROps []).
Proof. split; intros [|? ?] E; try discriminate; reflexivity. Qed.
Lemma gj_sym_inverse_1 d : d <> 0 -> sym_inverse KR 1 [[d]] (gj_inverse ROps [[d]]).
Proof. intros Hd. split; intros [|e0 [|? ?]] E; try discriminate; cbv - [Rplus Rmult Rminus Rdiv Ropp Rinv IZR]. all: (apply f_equal2; [field; auto | reflexivity]). Qed.
Lemma gj_sym_inverse_2 a b c : a <> 0 -> a * c - b * b <> 0 -> sym_inverse KR 2 [[a; b]; [b; c]] (gj_inverse ROps [[a; b]; [b; c]]).
Proof. intros Ha Hdet.
  split; intros [|e0 [|e1 [|? ?]]] E; try discriminate; cbv - [Rplus Rmult Rminus Rdiv Ropp Rinv IZR].
  all: (apply f_equal2; [field; auto | apply f_equal2; [field; auto | reflexivity]]).
  all: (split; [exact Ha | intro E0; apply Hdet; lra]).
Qed.

(** the inverse stored at every body of the articulated-body pass is the model's inverse of the stored D *)
Lemma abi_pass_DI {X} (nd : X -> node (SpatialVec R) (Vec3 R) (SpInertia (T:=R))) (t : tree X) :
  Forall (fun y => a_DI (snd y) = gj_inverse ROps (a_D (snd y))) (flatten (abi_pass KR AR nd t)).
Proof. induction t as [x cs IH] using tree_ind'. unfold abi_pass. cbn [inward flatten]. constructor; [reflexivity|].
  apply Forall_flat_map_map. exact IH. Qed.

(** hence the per-body hypothesis holds at every body whose D block has at most 2 mobilities and non-zero pivots *)
Theorem body_ok_small {X} (nd : X -> node (SpatialVec R) (Vec3 R) (SpInertia (T:=R))) (dy : X -> dyn R (SpatialVec R)) (t : tree X) y :
  In y (flatten (abi_pass KR AR nd t)) ->
  length (d_f (dy (fst y))) = length (n_H (nd (fst y))) ->
  (length (n_H (nd (fst y))) = 0%nat /\ a_D (snd y) = [])
  \/ (exists d, length (n_H (nd (fst y))) = 1%nat /\ a_D (snd y) = [[d]] /\ d <> 0)
  \/ (exists a b c, length (n_H (nd (fst y))) = 2%nat /\ a_D (snd y) = [[a; b]; [b; c]] /\ a <> 0 /\ a * c - b * b <> 0) ->
  body_ok nd dy y.
Proof. intros Hin Hlen Hd. pose proof (abi_pass_DI nd t) as HDI. rewrite Forall_forall in HDI. specialize (HDI y Hin).
  unfold body_ok, node_ok. split; [|exact Hlen]. rewrite HDI.
  destruct Hd as [[Hn ->]|[[d [Hn [-> Hd]]]|[a [b [c [Hn [-> [Ha Hdet]]]]]]]]; rewrite Hn.
  - apply gj_sym_inverse_0. - apply gj_sym_inverse_1; auto. - apply gj_sym_inverse_2; auto. Qed.

(** ** non-vacuity: a concrete tree (Ground - pin body - welded body) meets the per-body hypotheses with the
    Gauss-Jordan inverse of the model, so the main theorem applies to it *)
Definition ex_nd (x : nat) : node (SpatialVec R) (Vec3 R) (SpInertia (T:=R)) :=
  match x with
  | O => mkNode (0,0,0) [] (0, (0,0,0), ((0,0,0),(0,0,0)))
  | S O => mkNode (0,0,0) [((0,0,1),(0,0,0))] (1, (1,0,0), ((1,2,2),(0,0,0)))
  | _ => mkNode (1,0,0) [] (2, (0,1,0), ((3,1,3),(0,0,0)))
  end.
Definition ex_dy (x : nat) : dyn R (SpatialVec R) :=
  match x with
  | O => mkDyn ((0,0,0),(0,0,0)) ((0,0,0),(0,0,0)) ((1,0,0),(0,0,0)) []
  | S O => mkDyn ((0,0,0),(0,1,0)) ((1,0,0),(0,0,0)) ((0,0,1),(0,1,0)) [1]
  | _ => mkDyn ((0,0,0),(0,0,1)) ((0,1,0),(0,0,0)) ((1,0,0),(0,0,1)) []
  end.
Definition ex_t : tree nat := Node 0%nat [Node 1%nat [Node 2%nat []]].
Example ex_ok : forall y, In y (flatten (abi_pass KR AR ex_nd ex_t)) -> body_ok ex_nd ex_dy y.
Proof.
  intros y Hy. cbn [abi_pass ex_t inward flatten flat_map map app root] in Hy.
  destruct Hy as [<-|[<-|[<-|[]]]]; unfold body_ok, node_ok, sym_inverse; cbn [fst snd ex_nd ex_dy n_H d_f length].
  - split; [split|reflexivity]; intros [|? ?] E; try discriminate; reflexivity.
  - split; [split|reflexivity]; intros [|e0 [|? ?]] E; try discriminate.
    + cbv - [Rplus Rmult Rminus Rdiv Ropp Rinv IZR]. f_equal; field; try lra.
    + cbv - [Rplus Rmult Rminus Rdiv Ropp Rinv IZR]. f_equal; field; try lra.
  - split; [split|reflexivity]; intros [|? ?] E; try discriminate; reflexivity.
Qed.
Example ex_fd_then_rnea_zero :
  Forall (fun r => snd r = map (fun _ => 0) (n_H (ex_nd (w_x (fst (fst (fst r)))))))
         (flatten (rnea_of_fd KR AR ex_nd ex_dy ex_t)).
Proof. exact (fd_then_rnea_zero_R ex_nd ex_dy ex_t ex_ok). Qed.
