(** C02: the model's small dense inverse (Gauss-Jordan elimination without pivoting, [gj_inverse]) is a symmetric
    inverse of EVERY symmetric n x n matrix whose pivots are non-zero, for every n.  This discharges the per-body
    hypothesis [body_ok] of the C02 / C01 main theorems for mobilizers of any number of mobilities (1..6 in simbody).
    Proof idea: every elimination step is an invertible row operation on the augmented matrix [D | I], so it preserves
    the set of vectors annihilated by all rows; the steps turn the left block into the identity column by column; hence
    D x = y  <->  x = DI y, from which D DI = I, and DI symmetric when D is. *)
From Coq Require Import List Reals Lra Lia Arith Field.
Import ListNotations.
Require Import Num Vec Tree MB MB_Proofs Spatial Spatial_Proofs C02_Model C02_Proofs C02_Concrete.
Local Open Scope R_scope.

(** ** plain dot product on lists of reals, and its relation to the model's operators *)
Fixpoint dt (a b : list R) : R := match a, b with x :: a', y :: b' => x * y + dt a' b' | _, _ => 0 end.
Lemma dotU_dt a : forall b, dotU KR a b = dt a b.
Proof. induction a as [|x a IH]; intros [|y b]; reflexivity. Qed.
Lemma dt_nil_r a : dt a [] = 0. Proof. destruct a; reflexivity. Qed.
Lemma dt_app a : forall x b y, length a = length x -> dt (a ++ b) (x ++ y) = dt a x + dt b y.
Proof. induction a as [|a0 a IH]; intros [|x0 x] b y E; try discriminate; cbn [app dt]; [lra|].
  rewrite IH by (cbn in E; lia). lra. Qed.
Lemma dt_opp_r a : forall y, dt a (map Ropp y) = - dt a y.
Proof. induction a as [|a0 a IH]; intros [|y0 y]; cbn [map dt]; try lra. rewrite IH. lra. Qed.
Lemma dt_sym a : forall b, dt a b = dt b a.
Proof. induction a as [|x a IH]; intros [|y b]; cbn [dt]; try lra. rewrite IH. lra. Qed.

Lemma nth_map' {A B} (f : A -> B) (dA : A) (dB : B) : forall l j, (j < length l)%nat -> nth j (map f l) dB = f (nth j l dA).
Proof. induction l as [|a l IH]; intros j Hj; [cbn in Hj; lia|]. destruct j as [|j]; cbn [map nth]; [reflexivity|].
  apply IH. cbn in Hj; lia. Qed.

Definition delta (i j : nat) : R := if Nat.eqb j i then 1 else 0.
Lemma dt_unit m : forall s y i, (s <= i < s + m)%nat -> dt (map (fun j => delta i j) (seq s m)) y = nth (i - s) y 0.
Proof. induction m as [|m IH]; intros s y i Hi; [lia|]. cbn [seq map]. destruct y as [|y0 y].
  - rewrite dt_nil_r. destruct (i - s)%nat; reflexivity.
  - cbn [dt]. unfold delta at 1. destruct (Nat.eqb_spec s i) as [->|Hne].
    + replace (i - i)%nat with 0%nat by lia. cbn [nth].
      assert (Hz : forall m' s' y', (i < s')%nat -> dt (map (fun j => delta i j) (seq s' m')) y' = 0).
      { induction m' as [|m' IH']; intros s' y' Hs; [reflexivity|]. cbn [seq map]. destruct y' as [|q y']; [reflexivity|].
        cbn [dt]. unfold delta at 1. destruct (Nat.eqb_spec s' i); [lia|]. rewrite IH' by lia. lra. }
      rewrite Hz by lia. lra.
    + rewrite IH by lia. replace (i - s)%nat with (S (i - S s)) by lia. cbn [nth]. lra. Qed.
Lemma nth_unit n i j : (j < n)%nat -> nth j (unit_row ROps n i) 0 = delta i j.
Proof. intros Hj. unfold unit_row. change (n0 ROps) with 0. change (n1 ROps) with 1.
  rewrite (nth_map' _ 0%nat) by (rewrite seq_length; exact Hj). rewrite seq_nth by exact Hj. reflexivity. Qed.
Lemma length_unit n i : length (unit_row ROps n i) = n.
Proof. unfold unit_row. rewrite map_length, seq_length. reflexivity. Qed.
Lemma dt_unit_row n i y : (i < n)%nat -> dt (unit_row ROps n i) y = nth i y 0.
Proof. intros Hi. change (dt (map (fun j => delta i j) (seq 0 n)) y = nth i y 0).
  rewrite (dt_unit n 0 y i) by lia. f_equal. lia. Qed.

(** ** one elimination step *)
Lemma dt_zipsub f : forall r pr z, length r = length pr -> dt (zipsub ROps f r pr) z = dt r z - f * dt pr z.
Proof. induction r as [|x r IH]; intros [|y pr] z E; try discriminate; cbn [zipsub].
  - destruct z; cbn [dt]; lra.
  - destruct z as [|z0 z]; cbn [dt]; [lra|]. rewrite IH by (cbn in E; lia).
    change (nsub ROps x (nmul ROps f y)) with (x - f * y). lra. Qed.
Lemma length_zipsub f : forall r pr, length r = length pr -> length (zipsub ROps f r pr) = length r.
Proof. induction r as [|x r IH]; intros [|y pr] E; try discriminate; cbn [zipsub length]; [reflexivity|].
  rewrite IH by (cbn in E; lia). reflexivity. Qed.
Lemma nth_zipsub f j : forall r pr, length r = length pr -> nth j (zipsub ROps f r pr) 0 = nth j r 0 - f * nth j pr 0.
Proof. induction j as [|j IH]; intros [|x r] [|y pr] E; try discriminate; cbn [zipsub nth]; try lra.
  - reflexivity.
  - apply IH. cbn in E; lia. Qed.
Lemma dt_div p : forall pr z, dt (map (fun x => ndiv ROps x p) pr) z = dt pr z / p.
Proof. induction pr as [|x pr IH]; intros [|z0 z]; cbn [map dt]; try (unfold Rdiv; lra).
  rewrite IH. change (ndiv ROps x p) with (x / p). unfold Rdiv. lra. Qed.
Lemma nth_div p j : forall pr, nth j (map (fun x => ndiv ROps x p) pr) 0 = nth j pr 0 / p.
Proof. induction j as [|j IH]; intros [|x pr]; cbn [map nth]; try (unfold Rdiv; lra); try reflexivity. apply IH. Qed.

Lemma nth_imap {A B} (f : nat * A -> B) (dA : A) (dB : B) : forall (l : list A) s i, (i < length l)%nat ->
  nth i (map f (combine (seq s (length l)) l)) dB = f ((s + i)%nat, nth i l dA).
Proof. induction l as [|a l IH]; intros s i Hi; [cbn in Hi; lia|]. cbn [length seq combine map].
  destruct i as [|i]; cbn [nth]; [rewrite Nat.add_0_r; reflexivity|].
  rewrite IH by (cbn in Hi; lia). f_equal. f_equal. lia. Qed.

Definition ent (rows : list (list R)) (i j : nat) : R := nth j (nth i rows []) 0.
Definition wfm (w : nat) (rows : list (list R)) : Prop := forall i, (i < length rows)%nat -> length (nth i rows []) = w.
Definition ann (rows : list (list R)) (z : list R) : Prop := forall i, (i < length rows)%nat -> dt (nth i rows []) z = 0.

Lemma step_length k rows : length (gj_step ROps k rows) = length rows.
Proof. unfold gj_step. rewrite map_length, combine_length, seq_length. lia. Qed.

Section Step.
Variables (k w : nat) (rows : list (list R)).
Hypothesis Hk : (k < length rows)%nat.
Hypothesis Hwf : wfm w rows.
Let pr := nth k rows [].
Let p := nth k pr 0.
Let prn := map (fun x => ndiv ROps x p) pr.


Lemma step_row i : (i < length rows)%nat ->
  nth i (gj_step ROps k rows) [] = if Nat.eqb i k then prn else zipsub ROps (nth k (nth i rows []) 0) (nth i rows []) prn.
Proof. intros Hi. unfold gj_step. rewrite (nth_imap _ [] []) by exact Hi. cbn [fst snd Nat.add]. reflexivity. Qed.

Lemma length_prn : length prn = w.
Proof. unfold prn. rewrite map_length. apply Hwf. exact Hk. Qed.

Lemma step_wf : wfm w (gj_step ROps k rows).
Proof. intros i Hi. rewrite step_length in Hi. rewrite step_row by exact Hi. destruct (Nat.eqb i k).
  - apply length_prn. - rewrite length_zipsub; [apply Hwf; exact Hi|]. rewrite length_prn. apply Hwf; exact Hi. Qed.

Lemma step_ann z : p <> 0 -> (ann rows z <-> ann (gj_step ROps k rows) z).
Proof. intros Hp. unfold ann. rewrite step_length. split; intros H i Hi.
  - rewrite step_row by exact Hi. pose proof (H k Hk) as Hpr. fold pr in Hpr. destruct (Nat.eqb i k).
    + unfold prn. rewrite dt_div, Hpr. unfold Rdiv. lra.
    + rewrite dt_zipsub by (rewrite length_prn; apply Hwf; exact Hi). unfold prn. rewrite dt_div, Hpr, (H i Hi). unfold Rdiv. lra.
  - assert (Hpr : dt pr z = 0).
    { pose proof (H k Hk) as Hkk. rewrite step_row in Hkk by exact Hk. rewrite Nat.eqb_refl in Hkk. unfold prn in Hkk.
      rewrite dt_div in Hkk. unfold Rdiv in Hkk. apply Rmult_integral in Hkk. destruct Hkk as [E|E]; [exact E|].
      exfalso. revert E. apply Rinv_neq_0_compat. exact Hp. }
    destruct (Nat.eqb_spec i k) as [->|Hne]; [exact Hpr|].
    pose proof (H i Hi) as Hii. rewrite step_row in Hii by exact Hi. apply Nat.eqb_neq in Hne. rewrite Hne in Hii.
    rewrite dt_zipsub in Hii by (rewrite length_prn; apply Hwf; exact Hi). unfold prn in Hii. rewrite dt_div, Hpr in Hii.
    unfold Rdiv in Hii. lra. Qed.

Lemma step_ent : p <> 0 -> (k < w)%nat ->
  (forall i j, (i < length rows)%nat -> (j < k)%nat -> ent rows i j = delta i j) ->
  forall i j, (i < length rows)%nat -> (j < S k)%nat -> ent (gj_step ROps k rows) i j = delta i j.
Proof. intros Hp Hkw Hinv i j Hi Hj. unfold ent. rewrite step_row by exact Hi.
  assert (Hprn : nth j prn 0 = if Nat.eqb j k then 1 else 0).
  { unfold prn. rewrite nth_div. destruct (Nat.eqb_spec j k) as [->|Hne].
    - fold p. unfold Rdiv. apply Rinv_r. exact Hp.
    - pose proof (Hinv k j Hk ltac:(lia)) as E. unfold ent in E. fold pr in E. rewrite E. unfold delta.
      apply Nat.eqb_neq in Hne. rewrite Hne. unfold Rdiv. lra. }
  destruct (Nat.eqb_spec i k) as [->|Hik].
  - rewrite Hprn. unfold delta. reflexivity.
  - rewrite nth_zipsub by (rewrite length_prn; apply Hwf; exact Hi). rewrite Hprn. unfold delta.
    destruct (Nat.eqb_spec j k) as [->|Hjk].
    + apply Nat.eqb_neq in Hik. rewrite Nat.eqb_sym in Hik. rewrite Hik. lra.
    + pose proof (Hinv i j Hi ltac:(lia)) as E. unfold ent, delta in E. rewrite E. lra. Qed.
End Step.

(** ** the whole elimination *)
Definition aug_of (D : list (list R)) : list (list R) :=
  map (fun ir => snd ir ++ unit_row ROps (length D) (fst ir)) (combine (seq 0 (length D)) D).
Definition rows_at (D : list (list R)) (k : nat) : list (list R) :=
  fold_left (fun rows k => gj_step ROps k rows) (seq 0 k) (aug_of D).
Lemma gj_inverse_eq D : gj_inverse ROps D = map (skipn (length D)) (rows_at D (length D)).
Proof. reflexivity. Qed.
Lemma rows_at_S D k : rows_at D (S k) = gj_step ROps k (rows_at D k).
Proof. unfold rows_at. rewrite seq_S, fold_left_app. reflexivity. Qed.

(** the pivots met by the elimination are non-zero (true of every symmetric positive definite D: the k-th pivot is the
    ratio of consecutive leading principal minors) *)
Definition pivots_ok (D : list (list R)) : Prop := forall k, (k < length D)%nat -> ent (rows_at D k) k k <> 0.
Definition square (D : list (list R)) : Prop := wfm (length D) D.
(** the same as a statement about the executable pivot list (what the correspondence run measures in floating point) *)
Lemma pivots_ok_iff D : pivots_ok D <-> Forall (fun p => p <> 0) (gj_pivots ROps D).
Proof. unfold pivots_ok, gj_pivots. rewrite Forall_forall. split.
  - intros H p Hp. apply in_map_iff in Hp. destruct Hp as [k [<- Hk]]. apply in_seq in Hk. apply (H k). lia.
  - intros H k Hk. apply H. apply in_map_iff. exists k. split; [reflexivity|]. apply in_seq. lia. Qed.

Section Elim.
Variable D : list (list R).
Let n := length D.
Hypothesis Hsq : square D.
Hypothesis Hpiv : pivots_ok D.

Lemma aug_length : length (aug_of D) = n.
Proof. unfold aug_of. rewrite map_length, combine_length, seq_length. fold n. lia. Qed.
Lemma aug_row i : (i < n)%nat -> nth i (aug_of D) [] = nth i D [] ++ unit_row ROps n i.
Proof. intros Hi. unfold aug_of. rewrite (nth_imap _ [] []) by exact Hi. reflexivity. Qed.
Lemma aug_wf : wfm (n + n) (aug_of D).
Proof. intros i Hi. rewrite aug_length in Hi. rewrite aug_row by exact Hi. rewrite app_length, length_unit.
  rewrite (Hsq i Hi). reflexivity. Qed.

Lemma elim_inv k : (k <= n)%nat ->
  length (rows_at D k) = n /\ wfm (n + n) (rows_at D k)
  /\ (forall z, ann (aug_of D) z <-> ann (rows_at D k) z)
  /\ (forall i j, (i < n)%nat -> (j < k)%nat -> ent (rows_at D k) i j = delta i j).
Proof. induction k as [|k IH]; intros Hk.
  - unfold rows_at. cbn [seq fold_left]. split; [apply aug_length|]. split; [apply aug_wf|]. split; [tauto|]. intros; lia.
  - destruct (IH ltac:(lia)) as [Hl [Hw [Ha He]]]. rewrite rows_at_S.
    assert (Hkl : (k < length (rows_at D k))%nat) by lia.
    assert (Hp : nth k (nth k (rows_at D k) []) 0 <> 0) by (apply Hpiv; fold n; lia).
    split; [rewrite step_length; exact Hl|]. split; [exact (step_wf k (n + n) _ Hkl Hw)|]. split.
    + intros z. rewrite Ha. exact (step_ann k (n + n) _ Hkl Hw z Hp).
    + intros i j Hi Hj. rewrite <- Hl in Hi. apply (step_ent k (n + n) _ Hkl Hw Hp); try lia. rewrite Hl. exact He. Qed.

Lemma final_row i : (i < n)%nat -> nth i (rows_at D n) [] = unit_row ROps n i ++ nth i (gj_inverse ROps D) [].
Proof. intros Hi. destruct (elim_inv n (le_n n)) as [Hl [Hw [_ He]]].
  rewrite gj_inverse_eq. fold n. rewrite (nth_map' _ []) by (rewrite Hl; exact Hi).
  rewrite <- (firstn_skipn n (nth i (rows_at D n) [])) at 1. f_equal.
  assert (Hlen : length (nth i (rows_at D n) []) = (n + n)%nat) by (apply Hw; rewrite Hl; exact Hi).
  apply (nth_ext _ _ 0 0).
  - rewrite firstn_length, Hlen, length_unit. lia.
  - intros j Hj. rewrite firstn_length, Hlen in Hj. rewrite nth_unit by lia.
    rewrite <- (He i j Hi ltac:(lia)). unfold ent.
    rewrite <- (firstn_skipn n (nth i (rows_at D n) [])) at 2. rewrite app_nth1; [reflexivity|].
    rewrite firstn_length, Hlen. lia. Qed.

Lemma DI_length : length (gj_inverse ROps D) = n.
Proof. destruct (elim_inv n (le_n n)) as [Hl _]. rewrite gj_inverse_eq, map_length. exact Hl. Qed.
Lemma DI_row_length i : (i < n)%nat -> length (nth i (gj_inverse ROps D) []) = n.
Proof. intros Hi. destruct (elim_inv n (le_n n)) as [Hl [Hw _]]. rewrite gj_inverse_eq. fold n.
  rewrite (nth_map' _ []) by (rewrite Hl; exact Hi). rewrite skipn_length.
  rewrite Hw by (rewrite Hl; exact Hi). lia. Qed.

Lemma mv_eq_iff (M : list (list R)) x y : length M = n -> length y = n ->
  (mv KR M x = y <-> forall i, (i < n)%nat -> dt (nth i M []) x = nth i y 0).
Proof. intros HM Hy. split.
  - intros <- i Hi. unfold mv. rewrite (nth_map' _ []) by (rewrite HM; exact Hi). reflexivity.
  - intros H. apply (nth_ext _ _ 0 0); [unfold mv; rewrite map_length; lia|]. intros i Hi. unfold mv in Hi |- *.
    rewrite map_length, HM in Hi. rewrite (nth_map' _ []) by (rewrite HM; exact Hi).
    exact (H i Hi). Qed.

(** the heart: D x = y  <->  x = DI y *)
Theorem gj_solves x y : length x = n -> length y = n -> (mv KR D x = y <-> mv KR (gj_inverse ROps D) y = x).
Proof. intros Hx Hy. destruct (elim_inv n (le_n n)) as [Hl [_ [Ha _]]].
  rewrite (mv_eq_iff D x y eq_refl Hy), (mv_eq_iff _ y x DI_length Hx).
  specialize (Ha (x ++ map Ropp y)). unfold ann in Ha. rewrite aug_length, Hl in Ha. split; intros H.
  - assert (H1 : forall i, (i < n)%nat -> dt (nth i (aug_of D) []) (x ++ map Ropp y) = 0).
    { intros i Hi. rewrite aug_row by exact Hi. rewrite dt_app by (rewrite Hx; apply Hsq; exact Hi).
      rewrite dt_opp_r, dt_unit_row by exact Hi. rewrite (H i Hi). lra. }
    intros i Hi. pose proof (proj1 Ha H1 i Hi) as E. rewrite final_row in E by exact Hi.
    rewrite dt_app in E by (rewrite length_unit; lia). rewrite dt_opp_r, dt_unit_row in E by exact Hi. lra.
  - assert (H1 : forall i, (i < n)%nat -> dt (nth i (rows_at D n) []) (x ++ map Ropp y) = 0).
    { intros i Hi. rewrite final_row by exact Hi. rewrite dt_app by (rewrite length_unit; lia).
      rewrite dt_opp_r, dt_unit_row by exact Hi. rewrite (H i Hi). lra. }
    intros i Hi. pose proof (proj2 Ha H1 i Hi) as E. rewrite aug_row in E by exact Hi.
    rewrite dt_app in E by (rewrite Hx; apply Hsq; exact Hi). rewrite dt_opp_r, dt_unit_row in E by exact Hi. lra. Qed.

Lemma mv_length (M : list (list R)) x : length (mv KR M x) = length M.
Proof. unfold mv. apply map_length. Qed.

Theorem gj_right_inverse e : length e = n -> mv KR D (mv KR (gj_inverse ROps D) e) = e.
Proof. intros He. apply gj_solves; [rewrite mv_length; apply DI_length | exact He | reflexivity]. Qed.

Theorem gj_left_inverse e : length e = n -> mv KR (gj_inverse ROps D) (mv KR D e) = e.
Proof. intros He. apply gj_solves; [exact He | rewrite mv_length; reflexivity | reflexivity]. Qed.
End Elim.

(** ** symmetry: the inverse of a symmetric matrix is symmetric *)
Definition bsym (D : list (list R)) : Prop := forall x y, dt (mv KR D x) y = dt x (mv KR D y).

Lemma dt_ext n : forall a b, length a = n -> length b = n -> (forall y, length y = n -> dt a y = dt b y) -> a = b.
Proof. intros a b Ha Hb H. apply (nth_ext _ _ 0 0); [lia|]. intros i Hi. rewrite Ha in Hi.
  rewrite <- (dt_unit_row n i a Hi), <- (dt_unit_row n i b Hi), (dt_sym _ a), (dt_sym _ b). apply H. apply length_unit. Qed.

Lemma ladd_length : forall a b, length (ladd KR a b) = Nat.max (length a) (length b).
Proof. induction a as [|x a IH]; intros [|y b]; cbn [ladd length]; try reflexivity. rewrite IH. reflexivity. Qed.
Lemma lincomb_length c : forall (M : list (list R)) e, (forall i, (i < length M)%nat -> length (nth i M []) = c) -> length e = length M ->
  length (lincomb KR e M) = match M with [] => 0%nat | _ => c end.
Proof. induction M as [|r M IH]; intros [|x e] Hw E; try discriminate; [reflexivity|]. cbn [lincomb].
  rewrite ladd_length, map_length. pose proof (Hw 0%nat ltac:(cbn; lia)) as H0. cbn [nth] in H0. rewrite H0.
  rewrite IH; [|intros i Hi; apply (Hw (S i)); cbn; lia | cbn in E; lia]. destruct M; lia. Qed.

Theorem gj_sym_inverse D : square D -> pivots_ok D -> bsym D -> sym_inverse KR (length D) D (gj_inverse ROps D).
Proof. intros Hsq Hpiv Hsym. set (n := length D). set (DI := gj_inverse ROps D).
  assert (HDIl : length DI = n) by (apply DI_length; assumption).
  assert (Hbs : forall e y, length e = n -> length y = n -> dt (mv KR DI e) y = dt e (mv KR DI y)).
  { intros e y He Hy.
    pose proof (gj_right_inverse D Hsq Hpiv e He) as Ee. pose proof (gj_right_inverse D Hsq Hpiv y Hy) as Ey. fold DI in Ee, Ey.
    transitivity (dt (mv KR DI e) (mv KR D (mv KR DI y))); [rewrite Ey; reflexivity|]. rewrite <- Hsym, Ee. reflexivity. }
  split; [intros e He; apply gj_right_inverse; assumption|].
  intros e He. fold DI. apply (dt_ext n).
  - rewrite (lincomb_length n); [|intros i Hi; apply DI_row_length; try assumption; fold DI; fold n; lia | lia].
    destruct DI as [|r DI'] eqn:EDI; [cbn in HDIl; lia | reflexivity].
  - rewrite mv_length. exact HDIl.
  - intros y Hy. change (dotU KR (lincomb KR e DI) y = dt (mv KR DI e) y).
    rewrite (lincomb_mv KR sv_s0 sv_sadd sv_smul). change (dt e (mv KR DI y) = dt (mv KR DI e) y).
    symmetry. apply Hbs; assumption. Qed.

(** ** the D = ~H P H block of every body is square and symmetric *)

Section DBlock.
Variables (Pb : ArtInertia (T:=R)) (H : list (SpatialVec R)).
Let PH := map (papply AR Pb) H.
Let D := map (fun h => Htmul KR PH h) H.
Let Hadj := Ht_adj KR sv_s0 sv_sadd sv_smul sv_dot_add_r sv_dot_scale_r sv_dot_zero_r.

Lemma D_form x y : dt (mv KR D x) y = dot KR (papply AR Pb (Hmul KR H y)) (Hmul KR H x).
Proof. change (dotU KR (mv KR D x) y = dot KR (papply AR Pb (Hmul KR H y)) (Hmul KR H x)).
  assert (E : mv KR D x = Htmul KR H (Hmul KR PH x)).
  { unfold mv, D, Htmul. rewrite map_map. apply map_ext. intros h.
    change (dotU KR (Htmul KR PH h) x = dot KR (Hmul KR PH x) h). rewrite <- Hadj. apply sv_dot_sym. }
  rewrite E, <- Hadj, sv_dot_sym, Hadj. unfold PH. rewrite <- (Htmul_PH_sym KR AR ai_P_sym), <- Hadj. reflexivity. Qed.

Lemma D_bsym : bsym D.
Proof. intros x y. rewrite (dt_sym x), !D_form, ai_P_sym. apply sv_dot_sym. Qed.

Lemma D_square : square D.
Proof. intros i Hi. unfold D in *. rewrite map_length in *. rewrite (nth_map' _ (vzero KR)) by exact Hi.
  unfold Htmul, PH. rewrite !map_length. reflexivity. Qed.
End DBlock.

(** ** hence the per-body hypothesis of the C02 theorems holds at every body of every tree whose elimination pivots are
    non-zero -- for any number of mobilities *)
Lemma abi_pass_D {X} (nd : X -> node (SpatialVec R) (Vec3 R) (SpInertia (T:=R))) (t : tree X) :
  Forall (fun y => a_D (snd y) = map (fun h => Htmul KR (map (papply AR (a_P (snd y))) (n_H (nd (fst y)))) h) (n_H (nd (fst y))))
         (flatten (abi_pass KR AR nd t)).
Proof. induction t as [x cs IH] using tree_ind'. unfold abi_pass. cbn [inward flatten]. constructor; [reflexivity|].
  apply Forall_flat_map_map. exact IH. Qed.

Theorem body_ok_any_dof {X} (nd : X -> node (SpatialVec R) (Vec3 R) (SpInertia (T:=R))) (dy : X -> dyn R (SpatialVec R)) (t : tree X) y :
  In y (flatten (abi_pass KR AR nd t)) ->
  length (d_f (dy (fst y))) = length (n_H (nd (fst y))) ->
  pivots_ok (a_D (snd y)) ->
  body_ok nd dy y.
Proof. intros Hin Hlen Hpiv.
  pose proof (abi_pass_DI nd t) as HDI. rewrite Forall_forall in HDI. specialize (HDI y Hin).
  pose proof (abi_pass_D nd t) as HD. rewrite Forall_forall in HD. specialize (HD y Hin).
  unfold body_ok, node_ok. split; [|exact Hlen]. rewrite HDI.
  assert (El : length (n_H (nd (fst y))) = length (a_D (snd y))) by (rewrite HD, map_length; reflexivity).
  rewrite El. apply gj_sym_inverse; [| exact Hpiv |]; rewrite HD; [apply D_square | apply D_bsym]. Qed.

(** all-tree corollary: zero inverse-dynamics residual of the forward-dynamics result, hypotheses reduced to
    "one mobility force per mobility" and "non-zero pivots" *)
Theorem fd_then_rnea_zero_pivots {X} (nd : X -> node (SpatialVec R) (Vec3 R) (SpInertia (T:=R))) (dy : X -> dyn R (SpatialVec R)) (t : tree X) :
  (forall y, In y (flatten (abi_pass KR AR nd t)) ->
     length (d_f (dy (fst y))) = length (n_H (nd (fst y))) /\ pivots_ok (a_D (snd y))) ->
  Forall (fun r => snd r = map (fun _ => 0) (n_H (nd (w_x (fst (fst (fst r)))))))
         (flatten (rnea_of_fd KR AR nd dy t)).
Proof. intros H. apply fd_then_rnea_zero_R. intros y Hy. destruct (H y Hy) as [H1 H2]. exact (body_ok_any_dof nd dy t y Hy H1 H2). Qed.

Theorem mulM_mulMInv_id_pivots {X} (nd : X -> node (SpatialVec R) (Vec3 R) (SpInertia (T:=R))) (dy : X -> dyn R (SpatialVec R)) (t : tree X) :
  (forall y, In y (flatten (abi_pass KR AR nd t)) ->
     length (d_f (dy (fst y))) = length (n_H (nd (fst y))) /\ pivots_ok (a_D (snd y))) ->
  Forall (fun r => snd r = d_f (dy (w_x (fst (fst r))))) (flatten (mulM_of_mulMInv KR AR nd dy t)).
Proof. intros H. apply mulM_mulMInv_id_R. intros y Hy. destruct (H y Hy) as [H1 H2]. exact (body_ok_any_dof nd dy t y Hy H1 H2). Qed.

Theorem reaction_routes_agree_pivots {X} (nd : X -> node (SpatialVec R) (Vec3 R) (SpInertia (T:=R))) (dy : X -> dyn R (SpatialVec R)) (t : tree X) :
  (forall y, In y (flatten (abi_pass KR AR nd t)) ->
     length (d_f (dy (fst y))) = length (n_H (nd (fst y))) /\ pivots_ok (a_D (snd y))) ->
  map (fun r => (fst (fst r), snd r)) (flatten (react_fb KR AR nd dy t))
  = map (fun r => (fst r, snd (snd r))) (flatten (react_art KR AR nd dy t)).
Proof. intros H. apply reaction_routes_agree_R. intros y Hy. destruct (H y Hy) as [H1 H2]. exact (body_ok_any_dof nd dy t y Hy H1 H2). Qed.

(** the second direction of "exact inverses": if inverse dynamics of [ud] leaves a zero residual under the applied
    forces, forward dynamics under those forces returns exactly [ud] -- every tree, any number of mobilities per body *)
Theorem fd_unique_pivots {X} (nd : X -> node (SpatialVec R) (Vec3 R) (SpInertia (T:=R))) (dy : X -> dyn R (SpatialVec R))
    (ud : X -> list R) (t : tree X) :
  (forall y, In y (flatten (abi_pass KR AR nd t)) ->
     length (d_f (dy (fst y))) = length (n_H (nd (fst y))) /\ length (ud (fst y)) = length (n_H (nd (fst y))) /\ pivots_ok (a_D (snd y))) ->
  Forall (fun r => snd r = map (fun _ => 0) (n_H (nd (fst (fst (fst r)))))) (flatten (rnea KR AR nd dy ud t)) ->
  Forall (fun w => w_ud w = ud (w_x w)) (flatten (fd KR AR nd dy t)).
Proof. intros H. apply fd_unique_R. intros y Hy. destruct (H y Hy) as [H1 [H2 H3]].
  split; [exact (body_ok_any_dof nd dy t y Hy H1 H3)|]. split; [|exact H2].
  pose proof (abi_pass_DI nd t) as HDI. rewrite Forall_forall in HDI. specialize (HDI y Hy).
  pose proof (abi_pass_D nd t) as HD. rewrite Forall_forall in HD. specialize (HD y Hy).
  assert (El : length (n_H (nd (fst y))) = length (a_D (snd y))) by (rewrite HD, map_length; reflexivity).
  intros e He. rewrite HDI. rewrite El in He. apply gj_left_inverse; [|exact H3|exact He]. rewrite HD. apply D_square. Qed.

Lemma node_ok_l_pivots {X} (nd : X -> node (SpatialVec R) (Vec3 R) (SpInertia (T:=R))) (dy : X -> dyn R (SpatialVec R))
    (ud : X -> list R) (t : tree X) y :
  In y (flatten (abi_pass KR AR nd t)) ->
  length (d_f (dy (fst y))) = length (n_H (nd (fst y))) -> length (ud (fst y)) = length (n_H (nd (fst y))) -> pivots_ok (a_D (snd y)) ->
  node_ok_l KR nd dy ud y.
Proof. intros Hy H1 H2 H3.
  split; [exact (body_ok_any_dof nd dy t y Hy H1 H3)|]. split; [|exact H2].
  pose proof (abi_pass_DI nd t) as HDI. rewrite Forall_forall in HDI. specialize (HDI y Hy).
  pose proof (abi_pass_D nd t) as HD. rewrite Forall_forall in HD. specialize (HD y Hy).
  assert (El : length (n_H (nd (fst y))) = length (a_D (snd y))) by (rewrite HD, map_length; reflexivity).
  intros e He. rewrite HDI. rewrite El in He. apply gj_left_inverse; [|exact H3|exact He]. rewrite HD. apply D_square. Qed.

(** multiplyByMInv is also the LEFT inverse of multiplyByM:  M u = f  implies  M^-1 f = u, every tree, any dof *)
Theorem mulMInv_mulM_id_pivots {X} (nd : X -> node (SpatialVec R) (Vec3 R) (SpInertia (T:=R))) (dy : X -> dyn R (SpatialVec R))
    (u : X -> list R) (t : tree X) :
  (forall y, In y (flatten (abi_pass KR AR nd t)) ->
     length (d_f (dy (fst y))) = length (n_H (nd (fst y))) /\ length (u (fst y)) = length (n_H (nd (fst y))) /\ pivots_ok (a_D (snd y))) ->
  Forall (fun r => snd r = d_f (dy (fst (fst r)))) (flatten (mulM KR nd u t)) ->
  Forall (fun w => w_ud w = u (w_x w)) (flatten (mulMInv KR AR nd dy t)).
Proof. intros H. apply mulMInv_mulM_id_R. intros y Hy. destruct (H y Hy) as [H1 [H2 H3]]. exact (node_ok_l_pivots nd dy u t y Hy H1 H2 H3). Qed.

(** non-vacuity: a 3 x 3 symmetric positive definite block (as a Ball or Translation mobilizer produces) has non-zero pivots *)
Example pivots_ok_example : pivots_ok [[4; 1; 0]; [1; 3; 1]; [0; 1; 2]].
Proof. intros k Hk. cbn [length] in Hk.
  destruct k as [|[|[|k]]]; [| | |lia]; unfold ent; cbv - [Rplus Rmult Rminus Rdiv Ropp Rinv IZR].
  - lra.
  - lra.
  - intro E. assert (E2 : 2 - 0 * (0 / 4) - (1 - 0 * (1 / 4)) * ((1 - 1 * (0 / 4)) / (3 - 1 * (1 / 4))) = 18 / 11) by (field; lra).
    rewrite E2 in E. lra.
Qed.
Example gj_example_inverse :
  sym_inverse KR 3 [[4; 1; 0]; [1; 3; 1]; [0; 1; 2]] (gj_inverse ROps [[4; 1; 0]; [1; 3; 1]; [0; 1; 2]]).
Proof. apply (gj_sym_inverse [[4; 1; 0]; [1; 3; 1]; [0; 1; 2]]).
  - intros i Hi. cbn [length] in Hi. destruct i as [|[|[|i]]]; try reflexivity. lia.
  - exact pivots_ok_example.
  - intros x y. destruct x as [|x0 [|x1 [|x2 x]]], y as [|y0 [|y1 [|y2 y]]]; cbn; try destruct x; try destruct y; cbn [dt]; rewrite ?dt_nil_r; ring.
Qed.

(** explicit form for three mobilities: non-zero leading principal minors suffice *)
Lemma gj_sym_inverse_3 a b c d e f :
  a <> 0 -> a * d - b * b <> 0 ->
  a * (d * f - e * e) - b * (b * f - e * c) + c * (b * e - d * c) <> 0 ->
  sym_inverse KR 3 [[a; b; c]; [b; d; e]; [c; e; f]] (gj_inverse ROps [[a; b; c]; [b; d; e]; [c; e; f]]).
Proof. intros Ha Hm Hdet.
  split; intros [|e0 [|e1 [|e2 [|? ?]]]] E; try discriminate; cbv - [Rplus Rmult Rminus Rdiv Ropp Rinv IZR].
  all: (apply f_equal2; [field | apply f_equal2; [field | apply f_equal2; [field | reflexivity]]]).
  all: try (repeat split; try exact Ha; try (intro E0; apply Hm; lra)).
  all: (intro E0; apply Hdet; apply (Rmult_eq_reg_l a); [|exact Ha]; rewrite Rmult_0_r; rewrite <- E0; ring).
Qed.

(** non-vacuity of the uniqueness theorem: Ground + one slider body (mass 2) pushed with mobility force 4 accelerates with udot = 2 *)
Definition sl_nd (x : nat) : node (SpatialVec R) (Vec3 R) (SpInertia (T:=R)) :=
  match x with
  | O => mkNode (0,0,0) [] (0, (0,0,0), ((0,0,0),(0,0,0)))
  | _ => mkNode (0,0,0) [((0,0,0),(1,0,0))] (2, (0,0,0), ((1,1,1),(0,0,0)))
  end.
Definition sl_dy (x : nat) : dyn R (SpatialVec R) :=
  match x with
  | O => mkDyn ((0,0,0),(0,0,0)) ((0,0,0),(0,0,0)) ((0,0,0),(0,0,0)) []
  | _ => mkDyn ((0,0,0),(0,0,0)) ((0,0,0),(0,0,0)) ((0,0,0),(0,0,0)) [4]
  end.
Definition sl_ud (x : nat) : list R := match x with O => [] | _ => [2] end.
Definition sl_t : tree nat := Node 0%nat [Node 1%nat []].
Example sl_resid : Forall (fun r => snd r = map (fun _ => 0) (n_H (sl_nd (fst (fst (fst r)))))) (flatten (rnea KR AR sl_nd sl_dy sl_ud sl_t)).
Proof. cbv - [Rplus Rmult Rminus Rdiv Ropp Rinv IZR]. repeat constructor. f_equal. lra. Qed.
Example sl_piv : forall y, In y (flatten (abi_pass KR AR sl_nd sl_t)) ->
     length (d_f (sl_dy (fst y))) = length (n_H (sl_nd (fst y))) /\ length (sl_ud (fst y)) = length (n_H (sl_nd (fst y))) /\ pivots_ok (a_D (snd y)).
Proof. intros y Hy. cbn [abi_pass sl_t inward flatten flat_map map app root] in Hy.
  destruct Hy as [<-|[<-|[]]]; (split; [reflexivity|split; [reflexivity|]]).
  - intros k Hk. cbn in Hk. lia.
  - intros k Hk. cbn in Hk. destruct k as [|k]; [|lia]. unfold ent. cbv - [Rplus Rmult Rminus Rdiv Ropp Rinv IZR]. lra.
Qed.
Example sl_unique : Forall (fun w => w_ud w = sl_ud (w_x w)) (flatten (fd KR AR sl_nd sl_dy sl_t)).
Proof. exact (fd_unique_pivots sl_nd sl_dy sl_ud sl_t sl_piv sl_resid). Qed.

