(** C02 model: inverse dynamics (recursive Newton-Euler), articulated-body inertias, articulated-body
    forward dynamics and the M^-1 operator, as Simbody/src/RigidBodyNodeSpec.cpp computes them
      realizeArticulatedBodyInertiasInward, calcUDotPass1Inward, calcUDotPass2Outward,
      multiplyByMInvPass1Inward/Pass2Outward, calcBodyAccelerationsFromUdotOutward, calcInverseDynamicsPass2Inward
    (RigidBodyNode_Weld.cpp's Weld/Ground nodes are the dof = 0 instances: H = [], D = [], G = [], P+ = P),
    driven by SimbodyMatterSubsystemRep.cpp calcTreeAccelerations / calcTreeResidualForces / multiplyByMInv.
    No prescribed motion (all mobilizers free).  Built on the tree library (Lib/Tree, Lib/MB): the algorithms are
    generic in the abstract spatial structure [VSp] extended by articulated-inertia operations [AOps]; the concrete
    instance over a [NumOps T] mirrors SimTK::ArticulatedInertia (mass SymMat33, massMoment Mat33, inertia SymMat33)
    including shift() = halfCrossDiff and the symmetrisation done when P+ is formed.
    No proofs in this file. *)
From Coq Require Import List Arith.
Import ListNotations.
Require Import Num Vec Tree MB Spatial.

(** operations the articulated-body passes need beyond [VSp] *)
Record AOps (S V L I P : Type) := mkAOps {
  sneg : S -> S;
  pofI : I -> P;                    (* ArticulatedInertia(SpatialInertia) *)
  padd : P -> P -> P;               (* operator+= *)
  pshift : L -> P -> P;             (* PPlusChild.shift(phiChild.l()) *)
  papply : P -> V -> V;             (* P * SpatialVec *)
  pdown : P -> list V -> list V -> P;   (* P - G*~PH, formed block-wise and symmetrised as the code does *)
  minv : list (list S) -> list (list S) }.  (* D.invert() *)
Arguments sneg {S V L I P}. Arguments pofI {S V L I P}. Arguments padd {S V L I P}. Arguments pshift {S V L I P}.
Arguments papply {S V L I P}. Arguments pdown {S V L I P}. Arguments minv {S V L I P}.

(** per-body dynamic inputs: mobilizer Coriolis acceleration a_b, gyroscopic force b_b (both taken from the
    velocity cache), applied body force F_b, applied mobility forces f_b *)
Record dyn (S V : Type) := mkDyn { d_a : V; d_g : V; d_F : V; d_f : list S }.
Arguments d_a {S V}. Arguments d_g {S V}. Arguments d_F {S V}. Arguments d_f {S V}. Arguments mkDyn {S V}.

(** results kept per body *)
Record abi (S V P : Type) := mkAbi { a_P : P; a_PH : list V; a_D : list (list S); a_DI : list (list S); a_G : list V; a_Pp : P }.
Arguments a_P {S V P}. Arguments a_PH {S V P}. Arguments a_D {S V P}. Arguments a_DI {S V P}. Arguments a_G {S V P}.
Arguments a_Pp {S V P}. Arguments mkAbi {S V P}.
Record zrec (S V : Type) := mkZ { z_z : V; z_eps : list S; z_zp : V }.
Arguments z_z {S V}. Arguments z_eps {S V}. Arguments z_zp {S V}. Arguments mkZ {S V}.

Section ListAlg.
Context {S V L I P : Type} (K : VSp S V L I) (A : AOps S V L I P).
Definition ssub (a b : S) : S := sadd K a (sneg A b).
Definition vneg (v : V) : V := vscale K (sneg A (s1 K)) v.
Definition vsub (a b : V) : V := vadd K a (vneg b).
(** element-wise list operations; the longer list's tail is kept (lists always have equal length in use) *)
Fixpoint lsub (a b : list S) : list S :=
  match a, b with
  | x :: a', y :: b' => ssub x y :: lsub a' b'
  | _, [] => a
  | [], _ => map (sneg A) b
  end.
Fixpoint ladd (a b : list S) : list S :=
  match a, b with
  | x :: a', y :: b' => sadd K x y :: ladd a' b'
  | _, [] => a
  | [], _ => b
  end.
Fixpoint vladd (a b : list V) : list V :=
  match a, b with
  | x :: a', y :: b' => vadd K x y :: vladd a' b'
  | _, [] => a
  | [], _ => b
  end.
(** matrix (list of rows) times vector *)
Definition mv (M : list (list S)) (w : list S) : list S := map (fun r => dotU K r w) M.
(** row vector times matrix:  sum_i a_i row_i *)
Fixpoint lincomb (a : list S) (M : list (list S)) : list S :=
  match a, M with x :: a', r :: M' => ladd (map (smul K x) r) (lincomb a' M') | _, _ => [] end.
(** G = PH * DI : column j of G is sum_i PH_i DI(i,j) *)
Fixpoint mulPHDI (PH : list V) (DI : list (list S)) : list V :=
  match PH, DI with ph :: PH', r :: DI' => vladd (map (fun s => vscale K s ph) r) (mulPHDI PH' DI') | _, _ => [] end.
End ListAlg.

Section Dyn.
Context {S V L I P X : Type} (K : VSp S V L I) (A : AOps S V L I P) (nd : X -> node V L I) (dy : X -> dyn S V).

(** ** inverse dynamics: calcBodyAccelerationsFromUdotOutward + calcInverseDynamicsPass2Inward
    A_b = ~phi A_parent + H udot_b + a_b ;  F_b = Mk A_b + b_b - Fapplied_b + sum phi F_child ;  tau_b = ~H F_b - f_b *)
Definition rnea_force (xv : X * V) : V :=
  vsub K A (vadd K (mapply K (n_M (nd (fst xv))) (snd xv)) (d_g (dy (fst xv)))) (d_F (dy (fst xv))).
(** calcTreeEquivalentMobilityForces (calcEquivalentJointForces per node): the mobility forces that replace the applied
    body forces and the inertial forces of the current velocities:  z = F - (Mk A_bias + b) + sum phi z_child,  f = ~H z,
    with A_bias the body accelerations at udot = 0 (the accumulated Coriolis accelerations) *)
Definition equiv_force (xv : X * V) : V :=
  vsub K A (d_F (dy (fst xv))) (vadd K (mapply K (n_M (nd (fst xv))) (snd xv)) (d_g (dy (fst xv)))).
Definition equivf (t : tree X) : tree ((X * V) * list S) :=
  mulJt K (fun xv => nd (fst xv)) equiv_force (kin K nd (fun _ => []) (fun x => d_a (dy x)) (vzero K) t).
Definition rnea_acc (ud : X -> list S) (t : tree X) : tree (X * V) := kin K nd ud (fun x => d_a (dy x)) (vzero K) t.
Definition rnea (ud : X -> list S) (t : tree X) : tree (((X * V) * V) * list S) :=
  tmap (fun xz => (xz, lsub K A (Htmul K (n_H (nd (fst (fst xz)))) (snd xz)) (d_f (dy (fst (fst xz))))))
       (accum K (fun xv => nd (fst xv)) rnea_force (rnea_acc ud t)).

(** ** articulated body inertias: realizeArticulatedBodyInertiasInward *)
Definition abi_step (x : X) (rs : list (X * abi S V P)) : abi S V P :=
  let Pb := fold_right (fun r acc => padd A acc (pshift A (n_l (nd (fst r))) (a_Pp (snd r)))) (pofI A (n_M (nd x))) rs in
  let H := n_H (nd x) in
  let PH := map (papply A Pb) H in
  let D := map (fun h => Htmul K PH h) H in
  let DI := minv A D in
  let G := mulPHDI K PH DI in
  mkAbi Pb PH D DI G (pdown A Pb G PH).
Definition abi_pass (t : tree X) : tree (X * abi S V P) := inward abi_step t.

(** ** forward dynamics pass 1 (calcUDotPass1Inward):
    z = (P a + b) - F + sum phi z+_child ; eps = f - ~H z ; z+ = z + G eps *)
Definition fd1_step (y : X * abi S V P) (rs : list ((X * abi S V P) * zrec S V)) : zrec S V :=
  let x := fst y in let ab := snd y in
  let z0 := vsub K A (vadd K (papply A (a_P ab) (d_a (dy x))) (d_g (dy x))) (d_F (dy x)) in
  let z := fold_right (fun r acc => vadd K acc (phi K (n_l (nd (fst (fst r)))) (z_zp (snd r)))) z0 rs in
  let eps := lsub K A (d_f (dy x)) (Htmul K (n_H (nd x)) z) in
  mkZ z eps (vadd K z (Hmul K (a_G ab) eps)).
Definition fd1_pass (t : tree X) : tree ((X * abi S V P) * zrec S V) := inward fd1_step (abi_pass t).

(** ** forward dynamics pass 2 (calcUDotPass2Outward):
    A+ = ~phi A_parent ; udot = DI eps - ~G A+ ; A = A+ + H udot + a *)
Definition fd2_step (Apu : V * list S) (w : (X * abi S V P) * zrec S V) : V * list S :=
  let x := fst (fst w) in let ab := snd (fst w) in
  let Aplus := phiT K (n_l (nd x)) (fst Apu) in
  let udot := lsub K A (mv K (a_DI ab) (z_eps (snd w))) (Htmul K (a_G ab) Aplus) in
  (vadd K (vadd K Aplus (Hmul K (n_H (nd x)) udot)) (d_a (dy x)), udot).
Definition fd2_pass (Ap : V) (T : tree ((X * abi S V P) * zrec S V)) : tree (((X * abi S V P) * zrec S V) * (V * list S)) :=
  outward fd2_step (Ap, []) T.
(** calcTreeAccelerations: node value = (body acceleration A_GB, udot) *)
Definition fd (t : tree X) : tree (((X * abi S V P) * zrec S V) * (V * list S)) := fd2_pass (vzero K) (fd1_pass t).

(** ** M^-1 f (multiplyByMInvPass1Inward / Pass2Outward): velocities ignored, no body forces *)
Definition mi1_step (y : X * abi S V P) (rs : list ((X * abi S V P) * zrec S V)) : zrec S V :=
  let x := fst y in let ab := snd y in
  let z := fold_right (fun r acc => vadd K acc (phi K (n_l (nd (fst (fst r)))) (z_zp (snd r)))) (vzero K) rs in
  let eps := lsub K A (d_f (dy x)) (Htmul K (n_H (nd x)) z) in
  mkZ z eps (vadd K z (Hmul K (a_G ab) eps)).
Definition mi2_step (Apu : V * list S) (w : (X * abi S V P) * zrec S V) : V * list S :=
  let x := fst (fst w) in let ab := snd (fst w) in
  let Aplus := phiT K (n_l (nd x)) (fst Apu) in
  let udot := lsub K A (mv K (a_DI ab) (z_eps (snd w))) (Htmul K (a_G ab) Aplus) in
  (vadd K Aplus (Hmul K (n_H (nd x)) udot), udot).
Definition mulMInv (t : tree X) : tree (((X * abi S V P) * zrec S V) * (V * list S)) :=
  outward mi2_step (vzero K, []) (inward mi1_step (abi_pass t)).
End Dyn.

(** inverse dynamics of the accelerations produced by forward dynamics: the node type of the
    forward-dynamics result carries the udot that the inverse-dynamics recursion reads *)
Section Compose.
Context {S V L I P X : Type} (K : VSp S V L I) (A : AOps S V L I P) (nd : X -> node V L I) (dy : X -> dyn S V).
Definition W := (((X * abi S V P) * zrec S V) * (V * list S))%type.
Definition w_x (w : W) : X := fst (fst (fst w)).
Definition w_ud (w : W) : list S := snd (snd w).
Definition rnea_of_fd (t : tree X) := rnea K A (fun w => nd (w_x w)) (fun w => dy (w_x w)) w_ud (fd K A nd dy t).
(** M * (M^-1 f) *)
Definition mulM_of_mulMInv (t : tree X) := mulM K (fun w => nd (w_x w)) w_ud (mulMInv K A nd dy t).

(** ** mobilizer reaction forces at the body origins, two routes (property C14).
    Articulated route (calcMobilizerReactionForces): F_B = P+ (~phi A_parent) + z+, an outward pass over the
    forward-dynamics result whose state is (acceleration of the parent, reaction). *)
Definition react_step (st : V * V) (w : W) : V * V :=
  (fst (snd w),
   vadd K (papply A (a_Pp (snd (fst (fst w)))) (phiT K (n_l (nd (w_x w))) (fst st))) (z_zp (snd (fst w)))).
Definition react_art (t : tree X) : tree (W * (V * V)) := outward react_step (vzero K, vzero K) (fd K A nd dy t).
(** Free-body route (calcMobilizerReactionForcesUsingFreebodyMethod): the inward force accumulation of inverse dynamics
    run on the body accelerations that forward dynamics produced:  F_B = Mk A_B + b_B - F_B,applied + sum_children phi F_child *)
Definition react_fb (t : tree X) : tree ((W * V) * V) :=
  accum K (fun wv => nd (w_x (fst wv))) (rnea_force K A (fun w => nd (w_x w)) (fun w => dy (w_x w)))
        (tmap (fun w : W => (w, fst (snd w))) (fd K A nd dy t)).
End Compose.

(** ** concrete articulated inertia over a [NumOps]: (mass M, massMoment F, inertia J) as SimTK::ArticulatedInertia *)
Section AI. Context {T : Type} (K : NumOps T).
Definition ArtInertia := (SymMat33 T * Mat33 T * SymMat33 T)%type.
Local Notation "x + y" := (nadd K x y). Local Notation "x * y" := (nmul K x y). Local Notation "x - y" := (nsub K x y).
(** P * v = (J w + F v, ~F w + M v) *)
Definition ai_apply (p : ArtInertia) (v : SpatialVec T) : SpatialVec T :=
  let '(M, F, J) := p in
  (v3_add K (sym_mulv K J (fst v)) (m33_mulv K F (snd v)),
   v3_add K (m33_Tmulv K F (fst v)) (sym_mulv K M (snd v))).
(** ArticulatedInertia(SpatialInertia): M = m 1, J = inertia about the origin, F = crossMat(m p) *)
Definition ai_ofI (i : SpInertia (T:=T)) : ArtInertia :=
  let '(m, p, Io) := i in
  (((m, m, m), v3_zero K), m33_crossMat K (v3_scale K m p), Io).
Definition ai_add (a b : ArtInertia) : ArtInertia :=
  let '(Ma, Fa, Ja) := a in let '(Mb, Fb, Jb) := b in (sym_add K Ma Mb, m33_add K Fa Fb, sym_add K Ja Jb).
Definition ai_sub (a b : ArtInertia) : ArtInertia :=
  let '(Ma, Fa, Ja) := a in let '(Mb, Fb, Jb) := b in (sym_sub K Ma Mb, m33_sub K Fa Fb, sym_sub K Ja Jb).
(** halfCrossDiff(v, F, G): lower half of vx*F - G*vx (MassProperties.cpp), result in SymMat order diag/lower *)
Definition halfCrossDiff (v : Vec3 T) (F G : Mat33 T) : SymMat33 T :=
  let '(v0, v1, v2) := v in
  let f := m33_e F in let g := m33_e G in
  ((v1 * (f 2 0 + g 0 2) - v2 * (f 1 0 + g 0 1),
    v2 * (f 0 1 + g 1 0) - v0 * (f 2 1 + g 1 2),
    v0 * (f 1 2 + g 2 1) - v1 * (f 0 2 + g 2 0)),
   (v2 * (f 0 0 - g 1 1) - v0 * f 2 0 + v1 * g 1 2,
    v0 * f 1 0 - v2 * g 2 1 - v1 * (f 0 0 - g 2 2),
    v0 * (f 1 1 - g 2 2) - v1 * f 0 1 + v2 * g 2 0)).
(** ArticulatedInertia::shift(s):  F' = F + sx*M ; J' = J + halfCrossDiff(s, ~F, F') *)
Definition ai_shift (s : Vec3 T) (p : ArtInertia) : ArtInertia :=
  let '(M, F, J) := p in
  let Fp := m33_add K F (m33_mul K (m33_crossMat K s) (sym_to_m33 M)) in
  (M, Fp, sym_add K J (halfCrossDiff s (m33_T F) Fp)).
(** sum_k a_k (x) b_k over two lists of Vec3 (G.row(i) * ~PH.row(j)) *)
Definition m33_zero : Mat33 T := (v3_zero K, v3_zero K, v3_zero K).
Definition outerSum (sa sb : SpatialVec T -> Vec3 T) (G PH : list (SpatialVec T)) : Mat33 T :=
  fold_right (fun gp acc => m33_add K acc (m33_outer K (sa (fst gp)) (sb (snd gp)))) m33_zero (combine G PH).
Definition half (x : T) : T := ndiv K x (nadd K (n1 K) (n1 K)).
Definition symmetrise (m : Mat33 T) : SymMat33 T :=
  ((m33_e m 0 0, m33_e m 1 1, m33_e m 2 2),
   (half (m33_e m 1 0 + m33_e m 0 1), half (m33_e m 2 0 + m33_e m 0 2), half (m33_e m 2 1 + m33_e m 1 2))).
(** PPlus = P - ArticulatedInertia(symMass, massMoment, symInertia) *)
Definition ai_down (p : ArtInertia) (G PH : list (SpatialVec T)) : ArtInertia :=
  let massMoment := outerSum fst snd G PH in
  let mass := outerSum snd snd G PH in
  let inertia := outerSum fst fst G PH in
  ai_sub p (symmetrise mass, massMoment, symmetrise inertia).

(** ** small dense inverse: Gauss-Jordan without pivoting on lists (D is symmetric positive definite, dof <= 6) *)
Definition unit_row (n k : nat) : list T := map (fun j => if Nat.eqb j k then n1 K else n0 K) (seq 0 n).
Fixpoint zipsub (f : T) (r pr : list T) : list T :=
  match r, pr with x :: r', y :: pr' => (x - f * y) :: zipsub f r' pr' | _, _ => [] end.
Definition gj_step (k : nat) (rows : list (list T)) : list (list T) :=
  let pr := nth k rows [] in
  let p := nth k pr (n0 K) in
  let prn := map (fun x => ndiv K x p) pr in
  map (fun ir => if Nat.eqb (fst ir) k then prn else zipsub (nth k (snd ir) (n0 K)) (snd ir) prn)
      (combine (seq 0 (length rows)) rows).
Definition gj_inverse (D : list (list T)) : list (list T) :=
  let n := length D in
  let aug := map (fun ir => snd ir ++ unit_row n (fst ir)) (combine (seq 0 n) D) in
  map (skipn n) (fold_left (fun rows k => gj_step k rows) (seq 0 n) aug).

(** the pivots met by the elimination (the hypothesis of the inverse theorem C02_GJ.gj_sym_inverse is that none is zero) *)
Definition gj_pivots (D : list (list T)) : list T :=
  let n := length D in
  let aug := map (fun ir => snd ir ++ unit_row n (fst ir)) (combine (seq 0 n) D) in
  map (fun k => nth k (nth k (fold_left (fun rows k => gj_step k rows) (seq 0 k) aug) []) (n0 K)) (seq 0 n).

Definition aiK : AOps T (SpatialVec T) (Vec3 T) (SpInertia (T:=T)) ArtInertia :=
  mkAOps T (SpatialVec T) (Vec3 T) (SpInertia (T:=T)) ArtInertia (nopp K) ai_ofI ai_add ai_shift ai_apply ai_down gj_inverse.
End AI.

(** ** executable entry points for the correspondence runs *)
Section Run. Context {T : Type} (K : NumOps T).
Definition SVt := SpatialVec T.
Record cbx := mkCbx { c_idx : nat; c_par : nat; c_nd : node SVt (Vec3 T) (SpInertia (T:=T));
                      c_ud : list T; c_dy : dyn T SVt }.
Definition svz : SVt := (v3_zero K, v3_zero K).
Definition cground (F0 : SVt) : cbx :=
  mkCbx 0 0 (mkNode (v3_zero K) [] (n0 K, v3_zero K, (v3_zero K, v3_zero K))) [] (mkDyn svz svz F0 []).
Fixpoint cbuildT (fuel : nat) (bodies : list cbx) (x : cbx) : tree cbx :=
  match fuel with
  | O => Node x []
  | S f => Node x (map (cbuildT f bodies) (filter (fun b => andb (Nat.eqb (c_par b) (c_idx x)) (negb (Nat.eqb (c_idx b) 0))) bodies))
  end.
Definition cmkTree (F0 : SVt) (bodies : list cbx) : tree cbx := cbuildT (S (length bodies)) bodies (cground F0).
Definition KKc := svK K.
Definition AAc := aiK K.
(** residual of inverse dynamics, per body *)
Definition out_resid (t : tree cbx) : list (nat * list T) :=
  map (fun r => (c_idx (fst (fst (fst r))), snd r)) (flatten (rnea KKc AAc c_nd c_dy c_ud t)).
Definition out_idacc (t : tree cbx) : list (nat * SVt) :=
  map (fun r => (c_idx (fst r), snd r)) (flatten (rnea_acc KKc c_nd c_dy c_ud t)).
(** articulated body data per body *)
Definition out_abi (t : tree cbx) : list (nat * abi T SVt (ArtInertia (T:=T))) :=
  map (fun r => (c_idx (fst r), snd r)) (flatten (abi_pass KKc AAc c_nd t)).
(** forward dynamics: (index, (z, eps, z+), (A, udot)) *)
Definition out_fd (t : tree cbx) : list (nat * zrec T SVt * (SVt * list T)) :=
  map (fun w => (c_idx (fst (fst (fst w))), snd (fst w), snd w)) (flatten (fd KKc AAc c_nd c_dy t)).
Definition out_minv (t : tree cbx) : list (nat * list T) :=
  map (fun w => (c_idx (fst (fst (fst w))), snd (snd w))) (flatten (mulMInv KKc AAc c_nd c_dy t)).
(** inverse dynamics of the model's own forward dynamics (zero over R by theorem fd_then_rnea_zero) *)
Definition out_rnea_of_fd (t : tree cbx) : list (nat * list T) :=
  map (fun r => (c_idx (w_x (fst (fst (fst r)))), snd r)) (flatten (rnea_of_fd KKc AAc c_nd c_dy t)).
Definition out_equiv (t : tree cbx) : list (nat * list T) :=
  map (fun r => (c_idx (fst (fst r)), snd r)) (flatten (equivf KKc AAc c_nd c_dy t)).
(** elimination pivots of every body's D block *)
Definition out_pivots (t : tree cbx) : list (nat * list T) :=
  map (fun r => (c_idx (fst r), gj_pivots K (a_D (snd r)))) (flatten (abi_pass KKc AAc c_nd t)).
(** mobilizer reactions at the body origins by the two routes (equal over R by theorem reaction_routes_agree) *)
Definition out_react_art (t : tree cbx) : list (nat * SVt) :=
  map (fun r => (c_idx (w_x (fst r)), snd (snd r))) (flatten (react_art KKc AAc c_nd c_dy t)).
Definition out_react_fb (t : tree cbx) : list (nat * SVt) :=
  map (fun r => (c_idx (w_x (fst (fst r))), snd r)) (flatten (react_fb KKc AAc c_nd c_dy t)).
End Run.
