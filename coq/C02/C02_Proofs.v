(** C02: forward and inverse dynamics of trees are exact inverses -- theorems for EVERY tree and all per-node
    data, over real scalars, from the vector-space laws only (abstract Section, in the style of Lib/MB_Proofs.v).
    The concrete instance (SimTK's spatial algebra and ArticulatedInertia over R) is in C02_Concrete.v. *)
From Coq Require Import List Reals Lra.
Import ListNotations.
Require Import Tree MB MB_Proofs C02_Model.
Local Open Scope R_scope.

Section Laws.
Context {V L I P : Type} (K : VSp R V L I) (A : AOps R V L I P).
Hypothesis s0_is : s0 K = 0.
Hypothesis s1_is : s1 K = 1.
Hypothesis sadd_is : forall a b, sadd K a b = a + b.
Hypothesis smul_is : forall a b, smul K a b = a * b.
Hypothesis sneg_is : forall a, sneg A a = - a.
Hypothesis dot_add_l : forall a b c, dot K (vadd K a b) c = dot K a c + dot K b c.
Hypothesis dot_add_r : forall a b c, dot K a (vadd K b c) = dot K a b + dot K a c.
Hypothesis dot_scale_r : forall s a b, dot K a (vscale K s b) = s * dot K a b.
Hypothesis dot_zero_r : forall a, dot K a (vzero K) = 0.
Hypothesis dot_zero_l : forall a, dot K (vzero K) a = 0.
Hypothesis dot_sym : forall a b, dot K a b = dot K b a.
Hypothesis phi_adj : forall l f a, dot K (phi K l f) a = dot K f (phiT K l a).
(** vectors are equal when all their pairings agree *)
Hypothesis dot_ext : forall a b, (forall y, dot K a y = dot K b y) -> a = b.
(** rigid-body and articulated-body inertias are symmetric operators; the articulated operations act as they should *)
Hypothesis M_sym : forall i a b, dot K (mapply K i a) b = dot K a (mapply K i b).
Hypothesis P_sym : forall p a b, dot K (papply A p a) b = dot K a (papply A p b).
Hypothesis pofI_app : forall i v, papply A (pofI A i) v = mapply K i v.
Hypothesis padd_app : forall p q v, papply A (padd A p q) v = vadd K (papply A p v) (papply A q v).
Hypothesis pshift_app : forall l p v, papply A (pshift A l p) v = phi K l (papply A p (phiT K l v)).
(** the bilinear form of G * ~PH *)
Definition Bf (G PH : list V) (v y : V) : R := dotU K (Htmul K G y) (Htmul K PH v).
(** P+ = P - G ~PH acts as such whenever G ~PH is symmetric (the code stores only the symmetrised blocks) *)
Hypothesis pdown_app : forall p G PH, (forall v y, Bf G PH v y = Bf G PH y v) ->
  forall v y, dot K (papply A (pdown A p G PH) v) y = dot K (papply A p v) y - Bf G PH v y.

Let Ht_adj' := Ht_adj K s0_is sadd_is smul_is dot_add_r dot_scale_r dot_zero_r.

(** ** derived vector laws *)
Lemma dot_scale_l s a b : dot K (vscale K s a) b = s * dot K a b.
Proof. rewrite dot_sym, dot_scale_r, dot_sym. reflexivity. Qed.
Lemma dot_vsub_l a b c : dot K (vsub K A a b) c = dot K a c - dot K b c.
Proof. unfold vsub, vneg. rewrite dot_add_l, dot_scale_l, sneg_is, s1_is. lra. Qed.
Lemma dot_vsub_r a b c : dot K c (vsub K A a b) = dot K c a - dot K c b.
Proof. rewrite dot_sym, dot_vsub_l, !(dot_sym c). reflexivity. Qed.
Lemma phiT_adj l a f : dot K (phiT K l a) f = dot K a (phi K l f).
Proof. rewrite dot_sym, <- phi_adj, dot_sym. reflexivity. Qed.
Lemma papply_add p a b : papply A p (vadd K a b) = vadd K (papply A p a) (papply A p b).
Proof. apply dot_ext; intro y. rewrite dot_add_l, !P_sym, dot_add_l. reflexivity. Qed.
Lemma mapply_add i a b : mapply K i (vadd K a b) = vadd K (mapply K i a) (mapply K i b).
Proof. apply dot_ext; intro y. rewrite dot_add_l, !M_sym, dot_add_l. reflexivity. Qed.
Lemma phiT_add l a b : phiT K l (vadd K a b) = vadd K (phiT K l a) (phiT K l b).
Proof. apply dot_ext; intro y. rewrite dot_add_l, !phiT_adj, dot_add_l. reflexivity. Qed.
Lemma phi_add l a b : phi K l (vadd K a b) = vadd K (phi K l a) (phi K l b).
Proof. apply dot_ext; intro y. rewrite dot_add_l, !phi_adj, dot_add_l. reflexivity. Qed.

(** ** list algebra over R *)
Lemma dotU_nil_r a : dotU K a [] = 0.
Proof. destruct a; cbn; auto. Qed.
Lemma dotU_comm a : forall b, dotU K a b = dotU K b a.
Proof. induction a as [|x a IH]; intros [|y b]; cbn; auto. rewrite IH, !sadd_is, !smul_is. ring. Qed.
Lemma dotU_neg_r r : forall b, dotU K r (map (sneg A) b) = - dotU K r b.
Proof. induction r as [|x r IH]; intros [|y b]; cbn; rewrite ?s0_is; try lra.
  rewrite IH, !sadd_is, !smul_is, sneg_is. ring. Qed.
Lemma dotU_lsub_r r : forall a b, dotU K r (lsub K A a b) = dotU K r a - dotU K r b.
Proof. induction r as [|x r IH]; intros [|y a] [|w b]; cbn [lsub dotU map]; rewrite ?s0_is; try lra.
  - rewrite !sadd_is, !smul_is, sneg_is, dotU_neg_r. ring.
  - unfold ssub. rewrite IH, !sadd_is, !smul_is, sneg_is. ring. Qed.
Lemma dotU_ladd_l : forall a b w, dotU K (ladd K a b) w = dotU K a w + dotU K b w.
Proof. induction a as [|x a IH]; intros [|y b] [|z w]; cbn [ladd dotU]; rewrite ?s0_is; try lra.
  rewrite IH, !sadd_is, !smul_is. ring. Qed.
Lemma dotU_scale_l x : forall r w, dotU K (map (smul K x) r) w = x * dotU K r w.
Proof. induction r as [|y r IH]; intros [|z w]; cbn [map dotU]; rewrite ?s0_is; try lra.
  rewrite IH, !sadd_is, !smul_is. ring. Qed.
(** (a^T M) . w = a . (M w) *)
Lemma lincomb_mv : forall a M w, dotU K (lincomb K a M) w = dotU K a (mv K M w).
Proof. induction a as [|x a IH]; intros M w; [reflexivity|]. destruct M as [|r M].
  - cbn [lincomb mv map]. rewrite dotU_nil_r. cbn. apply s0_is.
  - cbn [lincomb mv map dotU]. rewrite dotU_ladd_l, dotU_scale_l. unfold mv in IH. rewrite IH, sadd_is, smul_is. reflexivity. Qed.
Lemma Htmul_vladd y : forall G1 G2, Htmul K (vladd K G1 G2) y = ladd K (Htmul K G1 y) (Htmul K G2 y).
Proof. unfold Htmul. induction G1 as [|g G1 IH]; intros [|h G2]; cbn [vladd map ladd]; auto.
  rewrite IH, dot_add_r, sadd_is. reflexivity. Qed.
(** ~G y = ~(PH DI) y = (~PH y)^T DI *)
Lemma Htmul_mulPHDI y : forall PH DI, Htmul K (mulPHDI K PH DI) y = lincomb K (Htmul K PH y) DI.
Proof. induction PH as [|ph PH IH]; intros [|r DI]; try reflexivity.
  cbn [mulPHDI]. rewrite Htmul_vladd, IH. change (Htmul K (ph :: PH) y) with (dot K y ph :: Htmul K PH y).
  cbn [lincomb]. f_equal. unfold Htmul. rewrite map_map. apply map_ext. intros s.
  rewrite dot_scale_r, smul_is. ring. Qed.
Lemma lsub_map {B} (f g : B -> R) : forall l, lsub K A (map f l) (map g l) = map (fun b => f b - g b) l.
Proof. induction l as [|b l IH]; cbn [map lsub]; auto. rewrite IH. unfold ssub. rewrite sadd_is, sneg_is. reflexivity. Qed.
Lemma mv_lsub M a b : mv K M (lsub K A a b) = lsub K A (mv K M a) (mv K M b).
Proof. unfold mv. rewrite lsub_map. apply map_ext. intros r. apply dotU_lsub_r. Qed.
Lemma lsub_length : forall a b, length a = length b -> length (lsub K A a b) = length a.
Proof. induction a as [|x a IH]; intros [|y b] E; cbn in *; auto; try discriminate. Qed.
Lemma Htmul_length H z : length (Htmul K H z) = length H.
Proof. unfold Htmul. apply map_length. Qed.

(** the cancellation that makes the residual vanish, element by element *)
Lemma list_cancel {B} (ps ze ga : B -> R) : forall (H : list B) (f : list R), length f = length H ->
  map ps H = lsub K A (lsub K A f (map ze H)) (map ga H) ->
  lsub K A (map (fun h => ga h + ps h + ze h) H) f = map (fun _ => 0) H.
Proof. induction H as [|h H IH]; intros [|x f] E Hm; cbn in *; auto; try discriminate.
  injection Hm as Hh Ht. f_equal.
  - unfold ssub in *. rewrite !sadd_is, !sneg_is in *. lra.
  - apply IH; auto. Qed.

(** ** sums over children *)
Lemma lsum_map_plus {B} (f g : B -> R) l : lsum (map (fun b => f b + g b) l) = lsum (map f l) + lsum (map g l).
Proof. induction l as [|b l IH]; cbn [map]; rewrite ?lsum_cons; [unfold lsum; cbn; lra|]. rewrite IH. lra. Qed.
Lemma lsum_map_ext {B} (f g : B -> R) l : Forall (fun b => f b = g b) l -> lsum (map f l) = lsum (map g l).
Proof. induction 1; cbn [map]; auto. rewrite !lsum_cons. congruence. Qed.
(** accumulator + phi(child) folds, as in the articulated-body passes *)
Lemma dot_fold_acc {B} (lf : B -> L) (gf : B -> V) init y : forall rs,
  dot K (fold_right (fun r acc => vadd K acc (phi K (lf r) (gf r))) init rs) y
  = dot K init y + lsum (map (fun r => dot K (gf r) (phiT K (lf r) y)) rs).
Proof. induction rs as [|r rs IH]; cbn [fold_right map]; [unfold lsum; cbn; lra|].
  rewrite lsum_cons, dot_add_l, IH, phi_adj. lra. Qed.
(** phi(child) + accumulator folds, as in MB.gather *)
Lemma dot_fold_gather {B} (lf : B -> L) (gf : B -> V) y : forall rs,
  dot K (fold_right (fun r z => vadd K (phi K (lf r) (gf r)) z) (vzero K) rs) y
  = lsum (map (fun r => dot K (gf r) (phiT K (lf r) y)) rs).
Proof. induction rs as [|r rs IH]; cbn [fold_right map]; [unfold lsum; cbn; apply dot_zero_l|].
  rewrite lsum_cons, dot_add_l, IH, phi_adj. lra. Qed.
(** P = P0 + sum shift(P+_child) acts as the sum *)
Lemma dot_fold_P {B} (lf : B -> L) (pf : B -> P) P0 v y : forall rs,
  dot K (papply A (fold_right (fun r acc => padd A acc (pshift A (lf r) (pf r))) P0 rs) v) y
  = dot K (papply A P0 v) y + lsum (map (fun r => dot K (papply A (pf r) (phiT K (lf r) v)) (phiT K (lf r) y)) rs).
Proof. induction rs as [|r rs IH]; cbn [fold_right map]; [unfold lsum; cbn; lra|].
  rewrite lsum_cons, padd_app, dot_add_l, IH, pshift_app, phi_adj. lra. Qed.

(** the computed small inverse is a symmetric inverse of D on the mobility space (lists of length n) *)
Definition sym_inverse (n : nat) (D DI : list (list R)) : Prop :=
  (forall e, length e = n -> mv K D (mv K DI e) = e) /\ (forall e, length e = n -> lincomb K e DI = mv K DI e).

Lemma Htmul_PH_sym (Pb : P) (H : list V) v : Htmul K H (papply A Pb v) = Htmul K (map (papply A Pb) H) v.
Proof. unfold Htmul. rewrite map_map. apply map_ext. intros h. apply P_sym. Qed.

(** ** the per-node step of the verification-direction proof.
    Children are abstracted: child c has shift [lf c], inboard articulated inertia [pf c], inboard residual [zf c], and the
    inverse-dynamics force [Zf c An] accumulated at its root when this body accelerates with [An]; the induction
    hypothesis says Zf c An = P+_c (~phi_c An) + z+_c. *)
Section Node.
Context {B : Type} (lf : B -> L) (pf : B -> P) (zf : B -> V) (Zf : B -> V -> V) (cs : list B).
Variables (H : list V) (Mk : I) (a g F : V) (f : list R) (Aplus : V) (DI : list (list R)).
Definition nPb := fold_right (fun r acc => padd A acc (pshift A (lf r) (pf r))) (pofI A Mk) cs.
Definition nPH := map (papply A nPb) H.
Definition nD := map (fun h => Htmul K nPH h) H.
Definition nG := mulPHDI K nPH DI.
Definition nPp := pdown A nPb nG nPH.
Definition nz0 := vsub K A (vadd K (papply A nPb a) g) F.
Definition nz := fold_right (fun r acc => vadd K acc (phi K (lf r) (zf r))) nz0 cs.
Definition neps := lsub K A f (Htmul K H nz).
Definition nzp := vadd K nz (Hmul K nG neps).
Definition nudot := lsub K A (mv K DI neps) (Htmul K nG Aplus).
Definition nA' := vadd K Aplus (Hmul K H nudot).
Definition nAn := vadd K nA' a.
Definition nZ := vadd K (vsub K A (vadd K (mapply K Mk nAn) g) F)
              (fold_right (fun r acc => vadd K (phi K (lf r) (Zf r nAn)) acc) (vzero K) cs).
Hypothesis IHc : Forall (fun c => forall An, Zf c An = vadd K (papply A (pf c) (phiT K (lf c) An)) (zf c)) cs.
Notation Pb := nPb. Notation PH := nPH. Notation D := nD. Notation G := nG. Notation Pp := nPp. Notation z0 := nz0.
Notation z := nz. Notation eps := neps. Notation zp := nzp. Notation udot := nudot. Notation A' := nA'. Notation An := nAn.
Notation Z := nZ.
Hypothesis Hinv : sym_inverse (length H) D DI.
Hypothesis Hf : length f = length H.

Lemma node_Z_weak y : dot K Z y = dot K (papply A Pb A') y + dot K z y.
Proof.
  unfold Z. rewrite dot_add_l, dot_vsub_l, dot_add_l, (dot_fold_gather lf (fun r => Zf r An)).
  rewrite (lsum_map_ext (fun r => dot K (Zf r An) (phiT K (lf r) y))
            (fun r => (dot K (papply A (pf r) (phiT K (lf r) A')) (phiT K (lf r) y)
                       + dot K (papply A (pf r) (phiT K (lf r) a)) (phiT K (lf r) y))
                      + dot K (zf r) (phiT K (lf r) y))).
  2:{ eapply Forall_impl; [|exact IHc]. intros c Hc. cbv beta. rewrite Hc. unfold An.
      rewrite dot_add_l, phiT_add, papply_add, dot_add_l. reflexivity. }
  rewrite !lsum_map_plus.
  unfold z. rewrite (dot_fold_acc lf zf). unfold z0. rewrite dot_vsub_l, dot_add_l.
  unfold Pb. rewrite !dot_fold_P, !pofI_app. unfold An. rewrite mapply_add, dot_add_l. lra.
Qed.

Lemma node_lengths : length eps = length H /\ length (Htmul K PH Aplus) = length H.
Proof. split.
  - unfold eps. rewrite lsub_length; auto. rewrite Htmul_length; auto.
  - unfold PH. rewrite Htmul_length, map_length. reflexivity. Qed.

Lemma node_udot : udot = mv K DI (lsub K A eps (Htmul K PH Aplus)).
Proof. destruct Hinv as [_ H2]. destruct node_lengths as [_ L2].
  unfold udot, G. rewrite Htmul_mulPHDI, (H2 _ L2), <- mv_lsub. reflexivity. Qed.

Lemma node_D_udot : mv K D udot = lsub K A eps (Htmul K PH Aplus).
Proof. destruct Hinv as [H1 _]. destruct node_lengths as [L1 L2].
  rewrite node_udot. apply H1. rewrite lsub_length; auto. rewrite L1, L2. reflexivity. Qed.

(** the inverse-dynamics residual of this body vanishes *)
Lemma node_tau_zero : lsub K A (Htmul K H Z) f = map (fun _ => 0) H.
Proof.
  assert (E : Htmul K H Z = map (fun h => dot K Aplus (papply A Pb h) + dotU K (Htmul K PH h) udot + dot K z h) H).
  { unfold Htmul at 1. apply map_ext. intros h. rewrite node_Z_weak. unfold A'.
    rewrite papply_add, dot_add_l, !P_sym, (dot_sym (Hmul K H udot)), Ht_adj', Htmul_PH_sym. reflexivity. }
  rewrite E. apply (list_cancel (fun h => dotU K (Htmul K PH h) udot) (fun h => dot K z h) (fun h => dot K Aplus (papply A Pb h))); auto.
  pose proof node_D_udot as HD. unfold D, mv in HD. rewrite map_map in HD. rewrite HD.
  unfold eps, PH, Htmul. rewrite map_map. reflexivity.
Qed.

Lemma node_Bf_sym v y : Bf G PH v y = Bf G PH y v.
Proof. destruct Hinv as [_ H2]. unfold Bf, G. rewrite !Htmul_mulPHDI, lincomb_mv.
  rewrite (H2 (Htmul K PH v)) by (unfold PH; rewrite Htmul_length, map_length; reflexivity).
  apply dotU_comm. Qed.

(** the force accumulated at this body is  P+ A+ + z+ *)
Lemma node_Z : Z = vadd K (papply A Pp Aplus) zp.
Proof.
  apply dot_ext. intro y. rewrite node_Z_weak, dot_add_l. unfold Pp. rewrite (pdown_app _ _ _ node_Bf_sym).
  unfold zp. rewrite dot_add_l, (dot_sym (Hmul K G eps)), Ht_adj'. unfold A'.
  rewrite papply_add, dot_add_l, (P_sym Pb (Hmul K H udot)), (dot_sym (Hmul K H udot)), Ht_adj', Htmul_PH_sym. fold PH.
  assert (E : dotU K (Htmul K PH y) udot = dotU K (Htmul K G y) eps - Bf G PH Aplus y).
  { unfold Bf. rewrite <- dotU_lsub_r. unfold G. rewrite Htmul_mulPHDI, lincomb_mv, <- node_udot. reflexivity. }
  rewrite E. lra.
Qed.
End Node.

(** ** the tree induction *)
Lemma fold_right_map' {B C D} (f : C -> D -> D) (h : B -> C) i l : fold_right f i (map h l) = fold_right (fun b acc => f (h b) acc) i l.
Proof. induction l; cbn; congruence. Qed.
Lemma fold_right_ext' {B D} (f g : B -> D -> D) i l : (forall b acc, f b acc = g b acc) -> fold_right f i l = fold_right g i l.
Proof. intros E. induction l; cbn; congruence. Qed.
Lemma root_inward_fst {A0 B0} (g : A0 -> list (A0 * B0) -> B0) t : fst (root (inward g t)) = root t.
Proof. destruct t; reflexivity. Qed.

Lemma Forall_flat_map_map {B C} (g : B -> tree C) (Q : C -> Prop) l :
  Forall (fun c => Forall Q (flatten (g c))) l -> Forall Q (flat_map flatten (map g l)).
Proof. induction 1; cbn [map flat_map]; [constructor|]. apply Forall_app. split; auto. Qed.

Section FD.
Context {X : Type} (nd : X -> node V L I) (dy : X -> dyn R V).
Notation F1 := (fd1_pass K A nd dy).
Notation WT := (((X * abi R V P) * zrec R V) * (V * list R))%type.
Let ndw (w : WT) := nd (w_x w).
Let dyw (w : WT) := dy (w_x w).

(** hypotheses carried per body: the inverse computed for D is a symmetric inverse on the mobility space, and
    there is one applied mobility force per mobility *)
Definition node_ok (y : X * abi R V P) : Prop :=
  sym_inverse (length (n_H (nd (fst y)))) (a_D (snd y)) (a_DI (snd y)) /\ length (d_f (dy (fst y))) = length (n_H (nd (fst y))).

Lemma F1_node x cs : F1 (Node x cs) =
  Node ((x, abi_step K A nd x (map (fun c => fst (root (F1 c))) cs)),
        fd1_step K A nd dy (x, abi_step K A nd x (map (fun c => fst (root (F1 c))) cs)) (map (fun c => root (F1 c)) cs))
       (map F1 cs).
Proof. unfold fd1_pass, abi_pass. cbn [inward]. rewrite !map_map.
  replace (map (fun c => root (inward (abi_step K A nd) c)) cs)
    with (map (fun c => fst (root (inward (fd1_step K A nd dy) (inward (abi_step K A nd) c)))) cs)
    by (apply map_ext; intros c; apply root_inward_fst).
  reflexivity. Qed.

Lemma abi_root_F1 c : root (abi_pass K A nd c) = fst (root (F1 c)).
Proof. unfold fd1_pass. rewrite root_inward_fst. reflexivity. Qed.

(** inverse dynamics (inward part) run on the forward-dynamics result of a subtree hanging below a parent that
    accelerates with [fst Apu] *)
Definition Rsub (t : tree X) (Apu : V * list R) : tree ((WT * V) * V) :=
  accum K (fun wv => ndw (fst wv)) (rnea_force K A ndw dyw)
        (tmap (fun w : WT => (w, fst (snd w))) (outward (fd2_step K A nd dy) Apu (F1 t))).

Lemma Rsub_node x cs Apu :
  Rsub (Node x cs) Apu =
  let ab := abi_step K A nd x (map (fun c => fst (root (F1 c))) cs) in
  let zr := fd1_step K A nd dy (x, ab) (map (fun c => root (F1 c)) cs) in
  let b := fd2_step K A nd dy Apu ((x, ab), zr) in
  let w : WT := (((x, ab), zr), b) in
  Node ((w, fst b), gather K (fun wv => ndw (fst wv)) (rnea_force K A ndw dyw) (w, fst b) (map (fun c => root (Rsub c b)) cs))
       (map (fun c => Rsub c b) cs).
Proof. unfold Rsub. rewrite F1_node. cbn [outward tmap]. unfold accum. cbn [inward]. rewrite !map_map. reflexivity. Qed.

Lemma Rsub_root_x c b : w_x (fst (fst (root (Rsub c b)))) = fst (fst (root (F1 c))).
Proof. destruct c as [x cs]. rewrite Rsub_node, F1_node. reflexivity. Qed.

Definition tau_zero (r : (WT * V) * V) : Prop :=
  lsub K A (Htmul K (n_H (ndw (fst (fst r)))) (snd r)) (d_f (dyw (fst (fst r)))) = map (fun _ => 0) (n_H (ndw (fst (fst r)))).

Definition lfT (c : tree X) : L := n_l (nd (fst (fst (root (F1 c))))).
Definition pfT (c : tree X) : P := a_Pp (snd (fst (root (F1 c)))).
Definition zfT (c : tree X) : V := z_zp (snd (root (F1 c))).

(** the three per-node steps of the model, in the shape of the node lemma *)
Lemma abi_step_form x cs : abi_step K A nd x (map (fun c => fst (root (F1 c))) cs) =
  let Mk := n_M (nd x) in let H := n_H (nd x) in
  let DI := minv A (nD lfT pfT cs H Mk) in
  mkAbi (nPb lfT pfT cs Mk) (nPH lfT pfT cs H Mk) (nD lfT pfT cs H Mk) DI (nG lfT pfT cs H Mk DI) (nPp lfT pfT cs H Mk DI).
Proof. unfold abi_step. rewrite fold_right_map'. reflexivity. Qed.

Lemma fd1_step_form x cs DI : let Mk := n_M (nd x) in let H := n_H (nd x) in
  let d := dy x in
  fd1_step K A nd dy (x, mkAbi (nPb lfT pfT cs Mk) (nPH lfT pfT cs H Mk) (nD lfT pfT cs H Mk) DI (nG lfT pfT cs H Mk DI) (nPp lfT pfT cs H Mk DI))
           (map (fun c => root (F1 c)) cs)
  = mkZ (nz lfT pfT zfT cs Mk (d_a d) (d_g d) (d_F d)) (neps lfT pfT zfT cs H Mk (d_a d) (d_g d) (d_F d) (d_f d))
        (nzp lfT pfT zfT cs H Mk (d_a d) (d_g d) (d_F d) (d_f d) DI).
Proof. cbv zeta. unfold fd1_step. cbn [fst snd a_P a_G]. rewrite fold_right_map'. reflexivity. Qed.

Lemma fd_sub : forall t, (forall y, In y (flatten (abi_pass K A nd t)) -> node_ok y) -> forall Apu,
  snd (root (Rsub t Apu)) = vadd K (papply A (pfT t) (phiT K (lfT t) (fst Apu))) (zfT t)
  /\ Forall tau_zero (flatten (Rsub t Apu)).
Proof.
  induction t as [x cs IH] using tree_ind'. intros Hok Apu.
  (* hypotheses for the children and for this node *)
  assert (Hkids : Forall (fun c => forall y, In y (flatten (abi_pass K A nd c)) -> node_ok y) cs).
  { apply Forall_forall. intros c Hc y Hy. apply Hok. unfold abi_pass. cbn [inward flatten]. right.
    apply in_flat_map. exists (inward (abi_step K A nd) c). split; [apply in_map; exact Hc | exact Hy]. }
  assert (Hme : node_ok (x, abi_step K A nd x (map (fun c => fst (root (F1 c))) cs))).
  { apply Hok. unfold abi_pass. cbn [inward flatten]. left. f_equal. f_equal. rewrite map_map. apply map_ext. intros c. apply abi_root_F1. }
  unfold pfT, zfT, lfT. rewrite Rsub_node, F1_node. cbv zeta. cbn [root fst snd flatten].
  rewrite abi_step_form in *. cbv zeta in *.
  rewrite (fd1_step_form x cs (minv A (nD lfT pfT cs (n_H (nd x)) (n_M (nd x))))). cbv zeta.
  set (Mk := n_M (nd x)) in *. set (H := n_H (nd x)) in *.
  set (DI := minv A (nD lfT pfT cs H Mk)) in *.
  set (d := dy x) in *.
  destruct Hme as [Hinv Hf]. cbn [fst snd a_D a_DI] in Hinv, Hf. fold H d in Hinv, Hf.
  unfold fd2_step. cbn [fst snd a_DI a_G z_eps z_zp a_Pp]. fold Mk H d.
  set (Aplus := phiT K (n_l (nd x)) (fst Apu)).
  fold (nudot lfT pfT zfT cs H Mk (d_a d) (d_g d) (d_F d) (d_f d) Aplus DI).
  set (ub := nudot lfT pfT zfT cs H Mk (d_a d) (d_g d) (d_F d) (d_f d) Aplus DI).
  fold (nA' lfT pfT zfT cs H Mk (d_a d) (d_g d) (d_F d) (d_f d) Aplus DI).
  fold (nAn lfT pfT zfT cs H Mk (d_a d) (d_g d) (d_F d) (d_f d) Aplus DI).
  set (An := nAn lfT pfT zfT cs H Mk (d_a d) (d_g d) (d_F d) (d_f d) Aplus DI).
  (* children: induction hypotheses at the acceleration passed down *)
  set (Zf := fun (c : tree X) (A0 : V) => snd (root (Rsub c (A0, ub)))).
  assert (IHZ : Forall (fun c => forall A0, Zf c A0 = vadd K (papply A (pfT c) (phiT K (lfT c) A0)) (zfT c)) cs).
  { apply Forall_forall. intros c Hc A0. rewrite Forall_forall in IH, Hkids. destruct (IH c Hc (Hkids c Hc) (A0, ub)) as [E _]. exact E. }
  assert (IHT : Forall (fun c => Forall tau_zero (flatten (Rsub c (An, ub)))) cs).
  { apply Forall_forall. intros c Hc. rewrite Forall_forall in IH, Hkids. destruct (IH c Hc (Hkids c Hc) (An, ub)) as [_ E]. exact E. }
  change (vadd K (vadd K Aplus (Hmul K H ub)) (d_a d)) with An.
  set (ab := mkAbi (nPb lfT pfT cs Mk) (nPH lfT pfT cs H Mk) (nD lfT pfT cs H Mk) DI (nG lfT pfT cs H Mk DI) (nPp lfT pfT cs H Mk DI)).
  set (zr := mkZ (nz lfT pfT zfT cs Mk (d_a d) (d_g d) (d_F d)) (neps lfT pfT zfT cs H Mk (d_a d) (d_g d) (d_F d) (d_f d))
                 (nzp lfT pfT zfT cs H Mk (d_a d) (d_g d) (d_F d) (d_f d) DI)).
  assert (EG : gather K (fun wv : WT * V => ndw (fst wv)) (rnea_force K A ndw dyw) ((x, ab, zr, (An, ub)), An)
                 (map (fun c => root (Rsub c (An, ub))) cs)
               = nZ lfT pfT zfT Zf cs H Mk (d_a d) (d_g d) (d_F d) (d_f d) Aplus DI).
  { unfold gather, nZ. f_equal. rewrite fold_right_map'. apply fold_right_ext'. intros c acc. cbn beta.
    unfold ndw at 1. rewrite Rsub_root_x. reflexivity. }
  rewrite EG. clear EG. split.
  - apply (node_Z lfT pfT zfT Zf cs H Mk (d_a d) (d_g d) (d_F d) (d_f d) Aplus DI IHZ Hinv Hf).
  - constructor.
    + unfold tau_zero. cbn [fst snd].
      apply (node_tau_zero lfT pfT zfT Zf cs H Mk (d_a d) (d_g d) (d_F d) (d_f d) Aplus DI IHZ Hinv Hf).
    + apply Forall_flat_map_map. exact IHT.
Qed.

(** the outward pass of inverse dynamics, run with the udot that forward dynamics produced, recomputes the
    body accelerations that forward dynamics stored *)
Lemma kin_of_fd2 : forall (T : tree ((X * abi R V P) * zrec R V)) Ap u0,
  kin K ndw w_ud (fun w => d_a (dyw w)) Ap (outward (fd2_step K A nd dy) (Ap, u0) T)
  = tmap (fun w : WT => (w, fst (snd w))) (outward (fd2_step K A nd dy) (Ap, u0) T).
Proof.
  induction T as [zx cs IH] using tree_ind'. intros Ap u0. unfold kin. cbn [outward tmap]. f_equal.
  rewrite !map_map. clear - IH. induction cs as [|c r IHr]; cbn [map]; auto.
  inversion IH as [|? ? Hc Hr]; subst. f_equal; [|apply IHr; exact Hr].
  exact (Hc (fst (fd2_step K A nd dy (Ap, u0) zx)) (snd (fd2_step K A nd dy (Ap, u0) zx))).
Qed.

Lemma rnea_of_fd_is_Rsub t :
  rnea_of_fd K A nd dy t =
  tmap (fun xz => (xz, lsub K A (Htmul K (n_H (ndw (fst (fst xz)))) (snd xz)) (d_f (dyw (fst (fst xz))))))
       (Rsub t (vzero K, [])).
Proof. unfold rnea_of_fd, rnea, rnea_acc, fd, fd2_pass, Rsub. rewrite kin_of_fd2. reflexivity. Qed.

(** THE MAIN THEOREM.  For every tree and all per-body data (shift vectors, hinge matrices, spatial inertias, Coriolis
    accelerations, gyroscopic forces, applied body and mobility forces): feeding the accelerations produced by the
    articulated-body forward-dynamics passes into the inverse-dynamics recursion returns a zero residual at every
    mobility, provided that at each body the small inverse DI computed for D = ~H P H is a symmetric inverse of D. *)
Theorem fd_then_rnea_zero (t : tree X) :
  (forall y, In y (flatten (abi_pass K A nd t)) -> node_ok y) ->
  Forall (fun r => snd r = map (fun _ => 0) (n_H (nd (w_x (fst (fst (fst r)))))))
         (flatten (rnea_of_fd K A nd dy t)).
Proof. intros Hok. rewrite rnea_of_fd_is_Rsub, flatten_tmap. apply Forall_map.
  destruct (fd_sub t Hok (vzero K, [])) as [_ Hz]. exact Hz. Qed.
End FD.
End Laws.
