(** C02: forward and inverse dynamics of trees are exact inverses -- theorems for EVERY tree and all per-node
    data, over real scalars, from the vector-space laws only (abstract Section, in the style of Lib/MB_Proofs.v).
    The concrete instance (SimTK's spatial algebra and ArticulatedInertia over R) is in C02_Concrete.v. *)
From Coq Require Import List Reals Lra Lia.
Import ListNotations.
Require Import Tree MB MB_Proofs C02_Model.
Local Open Scope R_scope.

Section Laws.
Context {V L I P : Type} (K : VSp R V L I) (A : AOps R V L I P).
Hypothesis s0_is : s0 K = 0.
Hypothesis s1_is : s1 K = 1.
Hypothesis sadd_is : forall a b, sadd K a b = a + b.
Hypothesis smul_is : forall a b, smul K a b = a * b.
Hypothesis sneg_is : forall a, sneg A a = - a.
Hypothesis dot_add_l : forall a b c, dot K (vadd K a b) c = dot K a c + dot K b c.
Hypothesis dot_add_r : forall a b c, dot K a (vadd K b c) = dot K a b + dot K a c.
Hypothesis dot_scale_r : forall s a b, dot K a (vscale K s b) = s * dot K a b.
Hypothesis dot_zero_r : forall a, dot K a (vzero K) = 0.
Hypothesis dot_zero_l : forall a, dot K (vzero K) a = 0.
Hypothesis dot_sym : forall a b, dot K a b = dot K b a.
Hypothesis phi_adj : forall l f a, dot K (phi K l f) a = dot K f (phiT K l a).
(** vectors are equal when all their pairings agree *)
Hypothesis dot_ext : forall a b, (forall y, dot K a y = dot K b y) -> a = b.
(** rigid-body and articulated-body inertias are symmetric operators; the articulated operations act as they should *)
Hypothesis M_sym : forall i a b, dot K (mapply K i a) b = dot K a (mapply K i b).
Hypothesis P_sym : forall p a b, dot K (papply A p a) b = dot K a (papply A p b).
Hypothesis pofI_app : forall i v, papply A (pofI A i) v = mapply K i v.
Hypothesis padd_app : forall p q v, papply A (padd A p q) v = vadd K (papply A p v) (papply A q v).
Hypothesis pshift_app : forall l p v, papply A (pshift A l p) v = phi K l (papply A p (phiT K l v)).
(** the bilinear form of G * ~PH *)
Definition Bf (G PH : list V) (v y : V) : R := dotU K (Htmul K G y) (Htmul K PH v).
(** P+ = P - G ~PH acts as such whenever G ~PH is symmetric (the code stores only the symmetrised blocks) *)
Hypothesis pdown_app : forall p G PH, (forall v y, Bf G PH v y = Bf G PH y v) ->
  forall v y, dot K (papply A (pdown A p G PH) v) y = dot K (papply A p v) y - Bf G PH v y.

Let Ht_adj' := Ht_adj K s0_is sadd_is smul_is dot_add_r dot_scale_r dot_zero_r.

(** ** derived vector laws *)
Lemma dot_scale_l s a b : dot K (vscale K s a) b = s * dot K a b.
Proof. rewrite dot_sym, dot_scale_r, dot_sym. reflexivity. Qed.
Lemma dot_vsub_l a b c : dot K (vsub K A a b) c = dot K a c - dot K b c.
Proof. unfold vsub, vneg. rewrite dot_add_l, dot_scale_l, sneg_is, s1_is. lra. Qed.
Lemma dot_vsub_r a b c : dot K c (vsub K A a b) = dot K c a - dot K c b.
Proof. rewrite dot_sym, dot_vsub_l, !(dot_sym c). reflexivity. Qed.
Lemma phiT_adj l a f : dot K (phiT K l a) f = dot K a (phi K l f).
Proof. rewrite dot_sym, <- phi_adj, dot_sym. reflexivity. Qed.
Lemma papply_add p a b : papply A p (vadd K a b) = vadd K (papply A p a) (papply A p b).
Proof. apply dot_ext; intro y. rewrite dot_add_l, !P_sym, dot_add_l. reflexivity. Qed.
Lemma mapply_add i a b : mapply K i (vadd K a b) = vadd K (mapply K i a) (mapply K i b).
Proof. apply dot_ext; intro y. rewrite dot_add_l, !M_sym, dot_add_l. reflexivity. Qed.
Lemma phiT_add l a b : phiT K l (vadd K a b) = vadd K (phiT K l a) (phiT K l b).
Proof. apply dot_ext; intro y. rewrite dot_add_l, !phiT_adj, dot_add_l. reflexivity. Qed.
Lemma phi_add l a b : phi K l (vadd K a b) = vadd K (phi K l a) (phi K l b).
Proof. apply dot_ext; intro y. rewrite dot_add_l, !phi_adj, dot_add_l. reflexivity. Qed.

(** ** list algebra over R *)
Lemma dotU_nil_r a : dotU K a [] = 0.
Proof. destruct a; cbn; auto. Qed.
Lemma dotU_comm a : forall b, dotU K a b = dotU K b a.
Proof. induction a as [|x a IH]; intros [|y b]; cbn; auto. rewrite IH, !sadd_is, !smul_is. ring. Qed.
Lemma dotU_neg_r r : forall b, dotU K r (map (sneg A) b) = - dotU K r b.
Proof. induction r as [|x r IH]; intros [|y b]; cbn; rewrite ?s0_is; try lra.
  rewrite IH, !sadd_is, !smul_is, sneg_is. ring. Qed.
Lemma dotU_lsub_r r : forall a b, dotU K r (lsub K A a b) = dotU K r a - dotU K r b.
Proof. induction r as [|x r IH]; intros [|y a] [|w b]; cbn [lsub dotU map]; rewrite ?s0_is; try lra.
  - rewrite !sadd_is, !smul_is, sneg_is, dotU_neg_r. ring.
  - unfold ssub. rewrite IH, !sadd_is, !smul_is, sneg_is. ring. Qed.
Lemma dotU_ladd_l : forall a b w, dotU K (ladd K a b) w = dotU K a w + dotU K b w.
Proof. induction a as [|x a IH]; intros [|y b] [|z w]; cbn [ladd dotU]; rewrite ?s0_is; try lra.
  rewrite IH, !sadd_is, !smul_is. ring. Qed.
Lemma dotU_scale_l x : forall r w, dotU K (map (smul K x) r) w = x * dotU K r w.
Proof. induction r as [|y r IH]; intros [|z w]; cbn [map dotU]; rewrite ?s0_is; try lra.
  rewrite IH, !sadd_is, !smul_is. ring. Qed.
(** (a^T M) . w = a . (M w) *)
Lemma lincomb_mv : forall a M w, dotU K (lincomb K a M) w = dotU K a (mv K M w).
Proof. induction a as [|x a IH]; intros M w; [reflexivity|]. destruct M as [|r M].
  - cbn [lincomb mv map]. rewrite dotU_nil_r. cbn. apply s0_is.
  - cbn [lincomb mv map dotU]. rewrite dotU_ladd_l, dotU_scale_l. unfold mv in IH. rewrite IH, sadd_is, smul_is. reflexivity. Qed.
Lemma Htmul_vladd y : forall G1 G2, Htmul K (vladd K G1 G2) y = ladd K (Htmul K G1 y) (Htmul K G2 y).
Proof. unfold Htmul. induction G1 as [|g G1 IH]; intros [|h G2]; cbn [vladd map ladd]; auto.
  rewrite IH, dot_add_r, sadd_is. reflexivity. Qed.
(** ~G y = ~(PH DI) y = (~PH y)^T DI *)
Lemma Htmul_mulPHDI y : forall PH DI, Htmul K (mulPHDI K PH DI) y = lincomb K (Htmul K PH y) DI.
Proof. induction PH as [|ph PH IH]; intros [|r DI]; try reflexivity.
  cbn [mulPHDI]. rewrite Htmul_vladd, IH. change (Htmul K (ph :: PH) y) with (dot K y ph :: Htmul K PH y).
  cbn [lincomb]. f_equal. unfold Htmul. rewrite map_map. apply map_ext. intros s.
  rewrite dot_scale_r, smul_is. ring. Qed.
Lemma lsub_map {B} (f g : B -> R) : forall l, lsub K A (map f l) (map g l) = map (fun b => f b - g b) l.
Proof. induction l as [|b l IH]; cbn [map lsub]; auto. rewrite IH. unfold ssub. rewrite sadd_is, sneg_is. reflexivity. Qed.
Lemma mv_lsub M a b : mv K M (lsub K A a b) = lsub K A (mv K M a) (mv K M b).
Proof. unfold mv. rewrite lsub_map. apply map_ext. intros r. apply dotU_lsub_r. Qed.
Lemma lsub_length : forall a b, length a = length b -> length (lsub K A a b) = length a.
Proof. induction a as [|x a IH]; intros [|y b] E; cbn in *; auto; try discriminate. Qed.
Lemma Htmul_length H z : length (Htmul K H z) = length H.
Proof. unfold Htmul. apply map_length. Qed.

(** the cancellation that makes the residual vanish, element by element *)
Lemma list_cancel {B} (ps ze ga : B -> R) : forall (H : list B) (f : list R), length f = length H ->
  map ps H = lsub K A (lsub K A f (map ze H)) (map ga H) ->
  lsub K A (map (fun h => ga h + ps h + ze h) H) f = map (fun _ => 0) H.
Proof. induction H as [|h H IH]; intros [|x f] E Hm; cbn in *; auto; try discriminate.
  injection Hm as Hh Ht. f_equal.
  - unfold ssub in *. rewrite !sadd_is, !sneg_is in *. lra.
  - apply IH; auto. Qed.

(** ** sums over children *)
Lemma lsum_map_plus {B} (f g : B -> R) l : lsum (map (fun b => f b + g b) l) = lsum (map f l) + lsum (map g l).
Proof. induction l as [|b l IH]; cbn [map]; rewrite ?lsum_cons; [unfold lsum; cbn; lra|]. rewrite IH. lra. Qed.
Lemma lsum_map_ext {B} (f g : B -> R) l : Forall (fun b => f b = g b) l -> lsum (map f l) = lsum (map g l).
Proof. induction 1; cbn [map]; auto. rewrite !lsum_cons. congruence. Qed.
(** accumulator + phi(child) folds, as in the articulated-body passes *)
Lemma dot_fold_acc {B} (lf : B -> L) (gf : B -> V) init y : forall rs,
  dot K (fold_right (fun r acc => vadd K acc (phi K (lf r) (gf r))) init rs) y
  = dot K init y + lsum (map (fun r => dot K (gf r) (phiT K (lf r) y)) rs).
Proof. induction rs as [|r rs IH]; cbn [fold_right map]; [unfold lsum; cbn; lra|].
  rewrite lsum_cons, dot_add_l, IH, phi_adj. lra. Qed.
(** phi(child) + accumulator folds, as in MB.gather *)
Lemma dot_fold_gather {B} (lf : B -> L) (gf : B -> V) y : forall rs,
  dot K (fold_right (fun r z => vadd K (phi K (lf r) (gf r)) z) (vzero K) rs) y
  = lsum (map (fun r => dot K (gf r) (phiT K (lf r) y)) rs).
Proof. induction rs as [|r rs IH]; cbn [fold_right map]; [unfold lsum; cbn; apply dot_zero_l|].
  rewrite lsum_cons, dot_add_l, IH, phi_adj. lra. Qed.
(** P = P0 + sum shift(P+_child) acts as the sum *)
Lemma dot_fold_P {B} (lf : B -> L) (pf : B -> P) P0 v y : forall rs,
  dot K (papply A (fold_right (fun r acc => padd A acc (pshift A (lf r) (pf r))) P0 rs) v) y
  = dot K (papply A P0 v) y + lsum (map (fun r => dot K (papply A (pf r) (phiT K (lf r) v)) (phiT K (lf r) y)) rs).
Proof. induction rs as [|r rs IH]; cbn [fold_right map]; [unfold lsum; cbn; lra|].
  rewrite lsum_cons, padd_app, dot_add_l, IH, pshift_app, phi_adj. lra. Qed.

(** the computed small inverse is a symmetric inverse of D on the mobility space (lists of length n) *)
Definition sym_inverse (n : nat) (D DI : list (list R)) : Prop :=
  (forall e, length e = n -> mv K D (mv K DI e) = e) /\ (forall e, length e = n -> lincomb K e DI = mv K DI e).

Lemma Htmul_PH_sym (Pb : P) (H : list V) v : Htmul K H (papply A Pb v) = Htmul K (map (papply A Pb) H) v.
Proof. unfold Htmul. rewrite map_map. apply map_ext. intros h. apply P_sym. Qed.

(** ** the per-node step of the verification-direction proof.
    Children are abstracted: child c has shift [lf c], inboard articulated inertia [pf c], inboard residual [zf c], and the
    inverse-dynamics force [Zf c An] accumulated at its root when this body accelerates with [An]; the induction
    hypothesis says Zf c An = P+_c (~phi_c An) + z+_c. *)
Section Node.
Context {B : Type} (lf : B -> L) (pf : B -> P) (zf : B -> V) (Zf : B -> V -> V) (cs : list B).
Variables (H : list V) (Mk : I) (a g F : V) (f : list R) (Aplus : V) (DI : list (list R)).
Definition nPb := fold_right (fun r acc => padd A acc (pshift A (lf r) (pf r))) (pofI A Mk) cs.
Definition nPH := map (papply A nPb) H.
Definition nD := map (fun h => Htmul K nPH h) H.
Definition nG := mulPHDI K nPH DI.
Definition nPp := pdown A nPb nG nPH.
Definition nz0 := vsub K A (vadd K (papply A nPb a) g) F.
Definition nz := fold_right (fun r acc => vadd K acc (phi K (lf r) (zf r))) nz0 cs.
Definition neps := lsub K A f (Htmul K H nz).
Definition nzp := vadd K nz (Hmul K nG neps).
Definition nudot := lsub K A (mv K DI neps) (Htmul K nG Aplus).
Definition nA' := vadd K Aplus (Hmul K H nudot).
Definition nAn := vadd K nA' a.
Definition nZ := vadd K (vsub K A (vadd K (mapply K Mk nAn) g) F)
              (fold_right (fun r acc => vadd K (phi K (lf r) (Zf r nAn)) acc) (vzero K) cs).
Hypothesis IHc : Forall (fun c => forall An, Zf c An = vadd K (papply A (pf c) (phiT K (lf c) An)) (zf c)) cs.
Notation Pb := nPb. Notation PH := nPH. Notation D := nD. Notation G := nG. Notation Pp := nPp. Notation z0 := nz0.
Notation z := nz. Notation eps := neps. Notation zp := nzp. Notation udot := nudot. Notation A' := nA'. Notation An := nAn.
Notation Z := nZ.
Hypothesis Hinv : sym_inverse (length H) D DI.
Hypothesis Hf : length f = length H.

Lemma node_Z_weak y : dot K Z y = dot K (papply A Pb A') y + dot K z y.
Proof.
  unfold Z. rewrite dot_add_l, dot_vsub_l, dot_add_l, (dot_fold_gather lf (fun r => Zf r An)).
  rewrite (lsum_map_ext (fun r => dot K (Zf r An) (phiT K (lf r) y))
            (fun r => (dot K (papply A (pf r) (phiT K (lf r) A')) (phiT K (lf r) y)
                       + dot K (papply A (pf r) (phiT K (lf r) a)) (phiT K (lf r) y))
                      + dot K (zf r) (phiT K (lf r) y))).
  2:{ eapply Forall_impl; [|exact IHc]. intros c Hc. cbv beta. rewrite Hc. unfold An.
      rewrite dot_add_l, phiT_add, papply_add, dot_add_l. reflexivity. }
  rewrite !lsum_map_plus.
  unfold z. rewrite (dot_fold_acc lf zf). unfold z0. rewrite dot_vsub_l, dot_add_l.
  unfold Pb. rewrite !dot_fold_P, !pofI_app. unfold An. rewrite mapply_add, dot_add_l. lra.
Qed.

Lemma node_lengths : length eps = length H /\ length (Htmul K PH Aplus) = length H.
Proof. split.
  - unfold eps. rewrite lsub_length; auto. rewrite Htmul_length; auto.
  - unfold PH. rewrite Htmul_length, map_length. reflexivity. Qed.

Lemma node_udot : udot = mv K DI (lsub K A eps (Htmul K PH Aplus)).
Proof. destruct Hinv as [_ H2]. destruct node_lengths as [_ L2].
  unfold udot, G. rewrite Htmul_mulPHDI, (H2 _ L2), <- mv_lsub. reflexivity. Qed.

Lemma node_D_udot : mv K D udot = lsub K A eps (Htmul K PH Aplus).
Proof. destruct Hinv as [H1 _]. destruct node_lengths as [L1 L2].
  rewrite node_udot. apply H1. rewrite lsub_length; auto. rewrite L1, L2. reflexivity. Qed.

(** the inverse-dynamics residual of this body vanishes *)
Lemma node_tau_zero : lsub K A (Htmul K H Z) f = map (fun _ => 0) H.
Proof.
  assert (E : Htmul K H Z = map (fun h => dot K Aplus (papply A Pb h) + dotU K (Htmul K PH h) udot + dot K z h) H).
  { unfold Htmul at 1. apply map_ext. intros h. rewrite node_Z_weak. unfold A'.
    rewrite papply_add, dot_add_l, !P_sym, (dot_sym (Hmul K H udot)), Ht_adj', Htmul_PH_sym. reflexivity. }
  rewrite E. apply (list_cancel (fun h => dotU K (Htmul K PH h) udot) (fun h => dot K z h) (fun h => dot K Aplus (papply A Pb h))); auto.
  pose proof node_D_udot as HD. unfold D, mv in HD. rewrite map_map in HD. rewrite HD.
  unfold eps, PH, Htmul. rewrite map_map. reflexivity.
Qed.

Lemma node_Bf_sym v y : Bf G PH v y = Bf G PH y v.
Proof. destruct Hinv as [_ H2]. unfold Bf, G. rewrite !Htmul_mulPHDI, lincomb_mv.
  rewrite (H2 (Htmul K PH v)) by (unfold PH; rewrite Htmul_length, map_length; reflexivity).
  apply dotU_comm. Qed.

(** the force accumulated at this body is  P+ A+ + z+ *)
Lemma node_Z : Z = vadd K (papply A Pp Aplus) zp.
Proof.
  apply dot_ext. intro y. rewrite node_Z_weak, dot_add_l. unfold Pp. rewrite (pdown_app _ _ _ node_Bf_sym).
  unfold zp. rewrite dot_add_l, (dot_sym (Hmul K G eps)), Ht_adj'. unfold A'.
  rewrite papply_add, dot_add_l, (P_sym Pb (Hmul K H udot)), (dot_sym (Hmul K H udot)), Ht_adj', Htmul_PH_sym. fold PH.
  assert (E : dotU K (Htmul K PH y) udot = dotU K (Htmul K G y) eps - Bf G PH Aplus y).
  { unfold Bf. rewrite <- dotU_lsub_r. unfold G. rewrite Htmul_mulPHDI, lincomb_mv, <- node_udot. reflexivity. }
  rewrite E. lra.
Qed.

(** ** the uniqueness direction at one body: if accelerating this body with mobility accelerations [u] (on top of the
    parent's A+) makes the inverse-dynamics force balance the applied mobility forces, ~H Z(u) = f, then the forward-dynamics
    udot of this body IS u, and Z(u) = P+ A+ + z+.  Needs DI to be a left inverse of D as well. *)
Variable u : list R.
Definition uA' := vadd K Aplus (Hmul K H u).
Definition uAn := vadd K uA' a.
Definition uZ := vadd K (vsub K A (vadd K (mapply K Mk uAn) g) F)
               (fold_right (fun r acc => vadd K (phi K (lf r) (Zf r uAn)) acc) (vzero K) cs).
Lemma node_uZ_weak y : dot K uZ y = dot K (papply A Pb uA') y + dot K z y.
Proof.
  unfold uZ. rewrite dot_add_l, dot_vsub_l, dot_add_l, (dot_fold_gather lf (fun r => Zf r uAn)).
  rewrite (lsum_map_ext (fun r => dot K (Zf r uAn) (phiT K (lf r) y))
            (fun r => (dot K (papply A (pf r) (phiT K (lf r) uA')) (phiT K (lf r) y)
                       + dot K (papply A (pf r) (phiT K (lf r) a)) (phiT K (lf r) y))
                      + dot K (zf r) (phiT K (lf r) y))).
  2:{ eapply Forall_impl; [|exact IHc]. intros c Hc. cbv beta. rewrite Hc. unfold uAn.
      rewrite dot_add_l, phiT_add, papply_add, dot_add_l. reflexivity. }
  rewrite !lsum_map_plus.
  unfold z. rewrite (dot_fold_acc lf zf). unfold z0. rewrite dot_vsub_l, dot_add_l.
  unfold Pb. rewrite !dot_fold_P, !pofI_app. unfold uAn. rewrite mapply_add, dot_add_l. lra.
Qed.
Hypothesis Hu : length u = length H.
Hypothesis Hres : Htmul K H uZ = f.
Hypothesis Hleft : forall e, length e = length H -> mv K DI (mv K D e) = e.

Lemma node_u_unique : udot = u.
Proof.
  rewrite node_udot, <- (Hleft u Hu). f_equal.
  unfold eps. rewrite <- Hres. unfold Htmul at 1 2. rewrite lsub_map.
  unfold PH at 1. unfold Htmul. rewrite map_map, lsub_map. unfold D, mv. rewrite map_map.
  apply map_ext. intros h. rewrite node_uZ_weak. unfold uA'. rewrite papply_add, dot_add_l.
  rewrite (P_sym Pb Aplus h), (P_sym Pb (Hmul K H u) h), (dot_sym (Hmul K H u)), Ht_adj', Htmul_PH_sym. fold PH. lra.
Qed.

Lemma node_uZ : uZ = vadd K (papply A Pp Aplus) zp.
Proof. rewrite <- node_Z. unfold uZ, Z, uAn, An, uA', A'. rewrite node_u_unique. reflexivity. Qed.
End Node.

(** ** the tree induction *)
Lemma fold_right_map' {B C D} (f : C -> D -> D) (h : B -> C) i l : fold_right f i (map h l) = fold_right (fun b acc => f (h b) acc) i l.
Proof. induction l; cbn; congruence. Qed.
Lemma fold_right_ext' {B D} (f g : B -> D -> D) i l : (forall b acc, f b acc = g b acc) -> fold_right f i l = fold_right g i l.
Proof. intros E. induction l; cbn; congruence. Qed.
Lemma root_inward_fst {A0 B0} (g : A0 -> list (A0 * B0) -> B0) t : fst (root (inward g t)) = root t.
Proof. destruct t; reflexivity. Qed.

Lemma Forall_flat_map_map {B C} (g : B -> tree C) (Q : C -> Prop) l :
  Forall (fun c => Forall Q (flatten (g c))) l -> Forall Q (flat_map flatten (map g l)).
Proof. induction 1; cbn [map flat_map]; [constructor|]. apply Forall_app. split; auto. Qed.

Section FD.
Context {X : Type} (nd : X -> node V L I) (dy : X -> dyn R V).
Notation F1 := (fd1_pass K A nd dy).
Notation WT := (((X * abi R V P) * zrec R V) * (V * list R))%type.
Let ndw (w : WT) := nd (w_x w).
Let dyw (w : WT) := dy (w_x w).

(** hypotheses carried per body: the inverse computed for D is a symmetric inverse on the mobility space, and
    there is one applied mobility force per mobility *)
Definition node_ok (y : X * abi R V P) : Prop :=
  sym_inverse (length (n_H (nd (fst y)))) (a_D (snd y)) (a_DI (snd y)) /\ length (d_f (dy (fst y))) = length (n_H (nd (fst y))).

Lemma F1_node x cs : F1 (Node x cs) =
  Node ((x, abi_step K A nd x (map (fun c => fst (root (F1 c))) cs)),
        fd1_step K A nd dy (x, abi_step K A nd x (map (fun c => fst (root (F1 c))) cs)) (map (fun c => root (F1 c)) cs))
       (map F1 cs).
Proof. unfold fd1_pass, abi_pass. cbn [inward]. rewrite !map_map.
  replace (map (fun c => root (inward (abi_step K A nd) c)) cs)
    with (map (fun c => fst (root (inward (fd1_step K A nd dy) (inward (abi_step K A nd) c)))) cs)
    by (apply map_ext; intros c; apply root_inward_fst).
  reflexivity. Qed.

Lemma abi_root_F1 c : root (abi_pass K A nd c) = fst (root (F1 c)).
Proof. unfold fd1_pass. rewrite root_inward_fst. reflexivity. Qed.

(** inverse dynamics (inward part) run on the forward-dynamics result of a subtree hanging below a parent that
    accelerates with [fst Apu] *)
Definition Rsub (t : tree X) (Apu : V * list R) : tree ((WT * V) * V) :=
  accum K (fun wv => ndw (fst wv)) (rnea_force K A ndw dyw)
        (tmap (fun w : WT => (w, fst (snd w))) (outward (fd2_step K A nd dy) Apu (F1 t))).

Lemma Rsub_node x cs Apu :
  Rsub (Node x cs) Apu =
  let ab := abi_step K A nd x (map (fun c => fst (root (F1 c))) cs) in
  let zr := fd1_step K A nd dy (x, ab) (map (fun c => root (F1 c)) cs) in
  let b := fd2_step K A nd dy Apu ((x, ab), zr) in
  let w : WT := (((x, ab), zr), b) in
  Node ((w, fst b), gather K (fun wv => ndw (fst wv)) (rnea_force K A ndw dyw) (w, fst b) (map (fun c => root (Rsub c b)) cs))
       (map (fun c => Rsub c b) cs).
Proof. unfold Rsub. rewrite F1_node. cbn [outward tmap]. unfold accum. cbn [inward]. rewrite !map_map. reflexivity. Qed.

Lemma Rsub_root_x c b : w_x (fst (fst (root (Rsub c b)))) = fst (fst (root (F1 c))).
Proof. destruct c as [x cs]. rewrite Rsub_node, F1_node. reflexivity. Qed.

Definition tau_zero (r : (WT * V) * V) : Prop :=
  lsub K A (Htmul K (n_H (ndw (fst (fst r)))) (snd r)) (d_f (dyw (fst (fst r)))) = map (fun _ => 0) (n_H (ndw (fst (fst r)))).

Definition lfT (c : tree X) : L := n_l (nd (fst (fst (root (F1 c))))).
Definition pfT (c : tree X) : P := a_Pp (snd (fst (root (F1 c)))).
Definition zfT (c : tree X) : V := z_zp (snd (root (F1 c))).

(** the three per-node steps of the model, in the shape of the node lemma *)
Lemma abi_step_form x cs : abi_step K A nd x (map (fun c => fst (root (F1 c))) cs) =
  let Mk := n_M (nd x) in let H := n_H (nd x) in
  let DI := minv A (nD lfT pfT cs H Mk) in
  mkAbi (nPb lfT pfT cs Mk) (nPH lfT pfT cs H Mk) (nD lfT pfT cs H Mk) DI (nG lfT pfT cs H Mk DI) (nPp lfT pfT cs H Mk DI).
Proof. unfold abi_step. rewrite fold_right_map'. reflexivity. Qed.

Lemma fd1_step_form x cs DI : let Mk := n_M (nd x) in let H := n_H (nd x) in
  let d := dy x in
  fd1_step K A nd dy (x, mkAbi (nPb lfT pfT cs Mk) (nPH lfT pfT cs H Mk) (nD lfT pfT cs H Mk) DI (nG lfT pfT cs H Mk DI) (nPp lfT pfT cs H Mk DI))
           (map (fun c => root (F1 c)) cs)
  = mkZ (nz lfT pfT zfT cs Mk (d_a d) (d_g d) (d_F d)) (neps lfT pfT zfT cs H Mk (d_a d) (d_g d) (d_F d) (d_f d))
        (nzp lfT pfT zfT cs H Mk (d_a d) (d_g d) (d_F d) (d_f d) DI).
Proof. cbv zeta. unfold fd1_step. cbn [fst snd a_P a_G]. rewrite fold_right_map'. reflexivity. Qed.

Lemma fd_sub : forall t, (forall y, In y (flatten (abi_pass K A nd t)) -> node_ok y) -> forall Apu,
  snd (root (Rsub t Apu)) = vadd K (papply A (pfT t) (phiT K (lfT t) (fst Apu))) (zfT t)
  /\ Forall tau_zero (flatten (Rsub t Apu)).
Proof.
  induction t as [x cs IH] using tree_ind'. intros Hok Apu.
  (* hypotheses for the children and for this node *)
  assert (Hkids : Forall (fun c => forall y, In y (flatten (abi_pass K A nd c)) -> node_ok y) cs).
  { apply Forall_forall. intros c Hc y Hy. apply Hok. unfold abi_pass. cbn [inward flatten]. right.
    apply in_flat_map. exists (inward (abi_step K A nd) c). split; [apply in_map; exact Hc | exact Hy]. }
  assert (Hme : node_ok (x, abi_step K A nd x (map (fun c => fst (root (F1 c))) cs))).
  { apply Hok. unfold abi_pass. cbn [inward flatten]. left. f_equal. f_equal. rewrite map_map. apply map_ext. intros c. apply abi_root_F1. }
  unfold pfT, zfT, lfT. rewrite Rsub_node, F1_node. cbv zeta. cbn [root fst snd flatten].
  rewrite abi_step_form in *. cbv zeta in *.
  rewrite (fd1_step_form x cs (minv A (nD lfT pfT cs (n_H (nd x)) (n_M (nd x))))). cbv zeta.
  set (Mk := n_M (nd x)) in *. set (H := n_H (nd x)) in *.
  set (DI := minv A (nD lfT pfT cs H Mk)) in *.
  set (d := dy x) in *.
  destruct Hme as [Hinv Hf]. cbn [fst snd a_D a_DI] in Hinv, Hf. fold H d in Hinv, Hf.
  unfold fd2_step. cbn [fst snd a_DI a_G z_eps z_zp a_Pp]. fold Mk H d.
  set (Aplus := phiT K (n_l (nd x)) (fst Apu)).
  fold (nudot lfT pfT zfT cs H Mk (d_a d) (d_g d) (d_F d) (d_f d) Aplus DI).
  set (ub := nudot lfT pfT zfT cs H Mk (d_a d) (d_g d) (d_F d) (d_f d) Aplus DI).
  fold (nA' lfT pfT zfT cs H Mk (d_a d) (d_g d) (d_F d) (d_f d) Aplus DI).
  fold (nAn lfT pfT zfT cs H Mk (d_a d) (d_g d) (d_F d) (d_f d) Aplus DI).
  set (An := nAn lfT pfT zfT cs H Mk (d_a d) (d_g d) (d_F d) (d_f d) Aplus DI).
  (* children: induction hypotheses at the acceleration passed down *)
  set (Zf := fun (c : tree X) (A0 : V) => snd (root (Rsub c (A0, ub)))).
  assert (IHZ : Forall (fun c => forall A0, Zf c A0 = vadd K (papply A (pfT c) (phiT K (lfT c) A0)) (zfT c)) cs).
  { apply Forall_forall. intros c Hc A0. rewrite Forall_forall in IH, Hkids. destruct (IH c Hc (Hkids c Hc) (A0, ub)) as [E _]. exact E. }
  assert (IHT : Forall (fun c => Forall tau_zero (flatten (Rsub c (An, ub)))) cs).
  { apply Forall_forall. intros c Hc. rewrite Forall_forall in IH, Hkids. destruct (IH c Hc (Hkids c Hc) (An, ub)) as [_ E]. exact E. }
  change (vadd K (vadd K Aplus (Hmul K H ub)) (d_a d)) with An.
  set (ab := mkAbi (nPb lfT pfT cs Mk) (nPH lfT pfT cs H Mk) (nD lfT pfT cs H Mk) DI (nG lfT pfT cs H Mk DI) (nPp lfT pfT cs H Mk DI)).
  set (zr := mkZ (nz lfT pfT zfT cs Mk (d_a d) (d_g d) (d_F d)) (neps lfT pfT zfT cs H Mk (d_a d) (d_g d) (d_F d) (d_f d))
                 (nzp lfT pfT zfT cs H Mk (d_a d) (d_g d) (d_F d) (d_f d) DI)).
  assert (EG : gather K (fun wv : WT * V => ndw (fst wv)) (rnea_force K A ndw dyw) ((x, ab, zr, (An, ub)), An)
                 (map (fun c => root (Rsub c (An, ub))) cs)
               = nZ lfT pfT zfT Zf cs H Mk (d_a d) (d_g d) (d_F d) (d_f d) Aplus DI).
  { unfold gather, nZ. f_equal. rewrite fold_right_map'. apply fold_right_ext'. intros c acc. cbn beta.
    unfold ndw at 1. rewrite Rsub_root_x. reflexivity. }
  rewrite EG. clear EG. split.
  - apply (node_Z lfT pfT zfT Zf cs H Mk (d_a d) (d_g d) (d_F d) (d_f d) Aplus DI IHZ Hinv Hf).
  - constructor.
    + unfold tau_zero. cbn [fst snd].
      apply (node_tau_zero lfT pfT zfT Zf cs H Mk (d_a d) (d_g d) (d_F d) (d_f d) Aplus DI IHZ Hinv Hf).
    + apply Forall_flat_map_map. exact IHT.
Qed.

(** the outward pass of inverse dynamics, run with the udot that forward dynamics produced, recomputes the
    body accelerations that forward dynamics stored *)
Lemma kin_of_fd2 : forall (T : tree ((X * abi R V P) * zrec R V)) Ap u0,
  kin K ndw w_ud (fun w => d_a (dyw w)) Ap (outward (fd2_step K A nd dy) (Ap, u0) T)
  = tmap (fun w : WT => (w, fst (snd w))) (outward (fd2_step K A nd dy) (Ap, u0) T).
Proof.
  induction T as [zx cs IH] using tree_ind'. intros Ap u0. unfold kin. cbn [outward tmap]. f_equal.
  rewrite !map_map. clear - IH. induction cs as [|c r IHr]; cbn [map]; auto.
  inversion IH as [|? ? Hc Hr]; subst. f_equal; [|apply IHr; exact Hr].
  exact (Hc (fst (fd2_step K A nd dy (Ap, u0) zx)) (snd (fd2_step K A nd dy (Ap, u0) zx))).
Qed.

Lemma rnea_of_fd_is_Rsub t :
  rnea_of_fd K A nd dy t =
  tmap (fun xz => (xz, lsub K A (Htmul K (n_H (ndw (fst (fst xz)))) (snd xz)) (d_f (dyw (fst (fst xz))))))
       (Rsub t (vzero K, [])).
Proof. unfold rnea_of_fd, rnea, rnea_acc, fd, fd2_pass, Rsub. rewrite kin_of_fd2. reflexivity. Qed.

(** THE MAIN THEOREM.  For every tree and all per-body data (shift vectors, hinge matrices, spatial inertias, Coriolis
    accelerations, gyroscopic forces, applied body and mobility forces): feeding the accelerations produced by the
    articulated-body forward-dynamics passes into the inverse-dynamics recursion returns a zero residual at every
    mobility, provided that at each body the small inverse DI computed for D = ~H P H is a symmetric inverse of D. *)
Theorem fd_then_rnea_zero (t : tree X) :
  (forall y, In y (flatten (abi_pass K A nd t)) -> node_ok y) ->
  Forall (fun r => snd r = map (fun _ => 0) (n_H (nd (w_x (fst (fst (fst r)))))))
         (flatten (rnea_of_fd K A nd dy t)).
Proof. intros Hok. rewrite rnea_of_fd_is_Rsub, flatten_tmap. apply Forall_map.
  destruct (fd_sub t Hok (vzero K, [])) as [_ Hz]. exact Hz. Qed.

(** ** the two routes to the mobilizer reaction forces agree (property C14): at EVERY body of every tree the force
    accumulated by the free-body (inverse-dynamics) recursion on the accelerations that forward dynamics produced equals
    P+ (~phi A_parent) + z+, the expression calcMobilizerReactionForces evaluates from the articulated-body pass *)
Lemma route_sub : forall t, (forall y, In y (flatten (abi_pass K A nd t)) -> node_ok y) -> forall Apu (st : V * V), fst st = fst Apu ->
  tmap (fun r : (WT * V) * V => (fst (fst r), snd r)) (Rsub t Apu)
  = tmap (fun r : WT * (V * V) => (fst r, snd (snd r))) (outward (react_step K A nd) st (outward (fd2_step K A nd dy) Apu (F1 t))).
Proof.
  induction t as [x cs IH] using tree_ind'. intros Hok Apu st Hst.
  assert (Hkids : Forall (fun c => forall y, In y (flatten (abi_pass K A nd c)) -> node_ok y) cs).
  { apply Forall_forall. intros c Hc y Hy. apply Hok. unfold abi_pass. cbn [inward flatten]. right.
    apply in_flat_map. exists (inward (abi_step K A nd) c). split; [apply in_map; exact Hc | exact Hy]. }
  destruct (fd_sub (Node x cs) Hok Apu) as [Hroot _]. unfold pfT, zfT, lfT in Hroot.
  rewrite Rsub_node in *. rewrite F1_node in *. cbv zeta in *. cbn [root fst snd outward tmap] in *.
  f_equal.
  - f_equal. rewrite Hroot. unfold react_step, w_x. cbn [fst snd]. rewrite Hst. reflexivity.
  - rewrite !map_map. apply map_ext_in. intros c Hc. rewrite Forall_forall in IH, Hkids.
    apply (IH c Hc (Hkids c Hc)). reflexivity.
Qed.

Theorem reaction_routes_agree (t : tree X) :
  (forall y, In y (flatten (abi_pass K A nd t)) -> node_ok y) ->
  map (fun r => (fst (fst r), snd r)) (flatten (react_fb K A nd dy t))
  = map (fun r => (fst r, snd (snd r))) (flatten (react_art K A nd dy t)).
Proof. intros Hok. rewrite <- !flatten_tmap. f_equal.
  unfold react_fb, react_art, fd, fd2_pass. exact (route_sub t Hok (vzero K, []) (vzero K, vzero K) eq_refl). Qed.

(** ** uniqueness: the other direction of "exact inverses".  If the mobility accelerations [ud] make the inverse-dynamics
    residual vanish at every mobility (i.e. the applied mobility forces are the ones inverse dynamics asks for), then the
    forward-dynamics passes return exactly [ud], at every body of every tree.  Needs the small inverse DI to be a
    two-sided inverse of D. *)
Section Unique.
Variable ud : X -> list R.
Definition UZ (t : tree X) (Ap : V) : tree ((X * V) * V) :=
  accum K (fun xv => nd (fst xv)) (rnea_force K A nd dy) (kin K nd ud (fun x => d_a (dy x)) Ap t).
Definition res_ok (r : (X * V) * V) : Prop := Htmul K (n_H (nd (fst (fst r)))) (snd r) = d_f (dy (fst (fst r))).
Definition node_ok_l (y : X * abi R V P) : Prop :=
  node_ok y
  /\ (forall e, length e = length (n_H (nd (fst y))) -> mv K (a_DI (snd y)) (mv K (a_D (snd y)) e) = e)
  /\ length (ud (fst y)) = length (n_H (nd (fst y))).

Lemma UZ_node x cs Ap :
  UZ (Node x cs) Ap =
  let An := vadd K (vadd K (phiT K (n_l (nd x)) Ap) (Hmul K (n_H (nd x)) (ud x))) (d_a (dy x)) in
  Node ((x, An), gather K (fun xv => nd (fst xv)) (rnea_force K A nd dy) (x, An) (map (fun c => root (UZ c An)) cs))
       (map (fun c => UZ c An) cs).
Proof. unfold UZ, kin, accum. cbn [outward inward]. rewrite !map_map. reflexivity. Qed.
Lemma UZ_root_x c Ap : fst (fst (root (UZ c Ap))) = fst (fst (root (F1 c))).
Proof. destruct c as [x cs]. rewrite UZ_node, F1_node. reflexivity. Qed.
Lemma fold_right_ext_Forall {B D} (f g : B -> D -> D) i l : Forall (fun b => forall acc, f b acc = g b acc) l -> fold_right f i l = fold_right g i l.
Proof. induction 1 as [|b l Hb _ IHl]; cbn; [reflexivity|]. rewrite IHl. apply Hb. Qed.
Lemma Forall_flat_map_inv {B C} (g : B -> tree C) (Q : C -> Prop) l :
  Forall Q (flat_map flatten (map g l)) -> Forall (fun c => Forall Q (flatten (g c))) l.
Proof. induction l as [|b l IHl]; cbn [map flat_map]; intros Hq; [constructor|]. apply Forall_app in Hq. destruct Hq as [H1 H2].
  constructor; auto. Qed.

Lemma uniq_sub : forall t, (forall y, In y (flatten (abi_pass K A nd t)) -> node_ok_l y) -> forall Ap u0,
  Forall res_ok (flatten (UZ t Ap)) ->
  snd (root (UZ t Ap)) = vadd K (papply A (pfT t) (phiT K (lfT t) Ap)) (zfT t)
  /\ Forall (fun w : WT => snd (snd w) = ud (w_x w)) (flatten (outward (fd2_step K A nd dy) (Ap, u0) (F1 t))).
Proof.
  induction t as [x cs IH] using tree_ind'. intros Hok Ap u0 Hres.
  assert (Hkids : Forall (fun c => forall y, In y (flatten (abi_pass K A nd c)) -> node_ok_l y) cs).
  { apply Forall_forall. intros c Hc y Hy. apply Hok. unfold abi_pass. cbn [inward flatten]. right.
    apply in_flat_map. exists (inward (abi_step K A nd) c). split; [apply in_map; exact Hc | exact Hy]. }
  assert (Hme : node_ok_l (x, abi_step K A nd x (map (fun c => fst (root (F1 c))) cs))).
  { apply Hok. unfold abi_pass. cbn [inward flatten]. left. f_equal. f_equal. rewrite map_map. apply map_ext. intros c. apply abi_root_F1. }
  unfold pfT, zfT, lfT. rewrite UZ_node in *. rewrite F1_node. cbv zeta in *. cbn [root fst snd flatten outward] in *.
  rewrite abi_step_form in *. cbv zeta in *.
  rewrite (fd1_step_form x cs (minv A (nD lfT pfT cs (n_H (nd x)) (n_M (nd x))))). cbv zeta.
  set (Mk := n_M (nd x)) in *. set (H := n_H (nd x)) in *.
  set (DI := minv A (nD lfT pfT cs H Mk)) in *.
  set (d := dy x) in *.
  destruct Hme as [[Hinv Hf] [Hleft Hu]]. cbn [fst snd a_D a_DI] in Hinv, Hf, Hleft, Hu. fold H d in Hinv, Hf, Hleft, Hu.
  set (Aplus := phiT K (n_l (nd x)) Ap) in *.
  set (An := vadd K (vadd K Aplus (Hmul K H (ud x))) (d_a d)) in *.
  inversion Hres as [|r0 rest Hres0 HresK]; subst r0 rest. apply Forall_flat_map_inv in HresK.
  set (Zf := fun (c : tree X) (A0 : V) => vadd K (papply A (pfT c) (phiT K (lfT c) A0)) (zfT c)).
  assert (IHc : Forall (fun c => forall A0, Zf c A0 = vadd K (papply A (pfT c) (phiT K (lfT c) A0)) (zfT c)) cs)
    by (apply Forall_forall; intros; reflexivity).
  assert (IHk : Forall (fun c => snd (root (UZ c An)) = Zf c An
                         /\ forall u', Forall (fun w : WT => snd (snd w) = ud (w_x w)) (flatten (outward (fd2_step K A nd dy) (An, u') (F1 c)))) cs).
  { apply Forall_forall. intros c Hc. rewrite Forall_forall in IH, Hkids, HresK.
    split; [destruct (IH c Hc (Hkids c Hc) An u0 (HresK c Hc)) as [E _]; exact E
           | intros u'; destruct (IH c Hc (Hkids c Hc) An u' (HresK c Hc)) as [_ E]; exact E]. }
  assert (EG : gather K (fun xv : X * V => nd (fst xv)) (rnea_force K A nd dy) (x, An) (map (fun c => root (UZ c An)) cs)
               = uZ lfT Zf cs H Mk (d_a d) (d_g d) (d_F d) Aplus (ud x)).
  { unfold gather, uZ, rnea_force, uAn, uA'. cbn [fst snd]. fold Mk d An. f_equal. rewrite fold_right_map'.
    apply fold_right_ext_Forall. eapply Forall_impl; [|exact IHk]. intros c [Hc _] acc. cbn beta.
    rewrite UZ_root_x, Hc. reflexivity. }
  unfold res_ok in Hres0. cbn [fst snd] in Hres0. fold H d in Hres0. rewrite EG in *. clear EG.
  pose proof (node_u_unique lfT pfT zfT Zf cs H Mk (d_a d) (d_g d) (d_F d) (d_f d) Aplus DI IHc Hinv Hf (ud x) Hu Hres0 Hleft) as Eu.
  split.
  - apply (node_uZ lfT pfT zfT Zf cs H Mk (d_a d) (d_g d) (d_F d) (d_f d) Aplus DI IHc Hinv Hf (ud x) Hu Hres0 Hleft).
  - match goal with |- context [fd2_step K A nd dy (Ap, u0) ?w] =>
      assert (Eb : fd2_step K A nd dy (Ap, u0) w = (An, ud x));
      [unfold fd2_step; cbn [fst snd a_DI a_G z_eps z_zp a_Pp]; fold Mk H d Aplus;
       fold (nudot lfT pfT zfT cs H Mk (d_a d) (d_g d) (d_F d) (d_f d) Aplus DI); rewrite Eu; reflexivity|] end.
    rewrite Eb. constructor; [reflexivity|]. rewrite map_map. apply Forall_flat_map_map. eapply Forall_impl; [|exact IHk]. intros c [_ Hc]. apply Hc.
Qed.

Lemma tmap_fst_inward' {A0 B0} (g : A0 -> list (A0 * B0) -> B0) t : tmap fst (inward g t) = t.
Proof. induction t as [a cs IH] using tree_ind'. cbn. f_equal. rewrite map_map.
  induction cs as [|c r IHr]; cbn; auto. inversion IH; subst. f_equal; auto. Qed.
Lemma UZ_labels t Ap : map (fun r : (X * V) * V => fst (fst r)) (flatten (UZ t Ap)) = flatten t.
Proof. rewrite <- flatten_tmap, <- (tmap_tmap fst fst). unfold UZ, accum. rewrite tmap_fst_inward'. unfold kin.
  rewrite tmap_fst_outward. reflexivity. Qed.
Lemma abi_labels t : map fst (flatten (abi_pass K A nd t)) = flatten t.
Proof. rewrite <- flatten_tmap. unfold abi_pass. rewrite tmap_fst_inward'. reflexivity. Qed.
Lemma lsub_zero_eq' : forall (a b : list R) (c : list V), length a = length b -> length a = length c ->
  lsub K A a b = map (fun _ => 0) c -> a = b.
Proof. induction a as [|x a IHa]; intros [|y b] [|z c] E1 E2 E; try discriminate; [reflexivity|].
  cbn [lsub map] in E. injection E as E0 E'. f_equal.
  - unfold ssub in E0. rewrite sadd_is, sneg_is in E0. lra.
  - apply (IHa b c); cbn in *; auto. Qed.

(** THE SECOND MAIN THEOREM (uniqueness). *)
Theorem fd_unique (t : tree X) :
  (forall y, In y (flatten (abi_pass K A nd t)) -> node_ok_l y) ->
  Forall (fun r => snd r = map (fun _ => 0) (n_H (nd (fst (fst (fst r)))))) (flatten (rnea K A nd dy ud t)) ->
  Forall (fun w : WT => w_ud w = ud (w_x w)) (flatten (fd K A nd dy t)).
Proof. intros Hok Hres.
  assert (Hr : Forall res_ok (flatten (UZ t (vzero K)))).
  { unfold rnea, rnea_acc in Hres. rewrite flatten_tmap in Hres. fold (UZ t (vzero K)) in Hres.
    rewrite Forall_map in Hres. cbn [fst snd] in Hres.
    rewrite Forall_forall in *. intros r Hin. unfold res_ok.
    assert (Hx : In (fst (fst r)) (flatten t)) by (rewrite <- (UZ_labels t (vzero K)); apply (in_map (fun r : (X * V) * V => fst (fst r))); exact Hin).
    rewrite <- abi_labels in Hx. apply in_map_iff in Hx. destruct Hx as [y [Ey Hy]].
    destruct (Hok y Hy) as [[_ Hf] _]. rewrite Ey in Hf.
    apply (lsub_zero_eq' _ _ (n_H (nd (fst (fst r))))).
    - rewrite Htmul_length. symmetry. exact Hf.
    - apply Htmul_length.
    - apply Hres. exact Hin. }
  destruct (uniq_sub t Hok (vzero K) [] Hr) as [_ Hu]. exact Hu.
Qed.
End Unique.
End FD.

(** ** weak-form specification of inverse dynamics, from the generalised adjoint identity *)
Lemma dotU_lsub_l a b w : dotU K (lsub K A a b) w = dotU K a w - dotU K b w.
Proof. rewrite dotU_comm, dotU_lsub_r, !(dotU_comm w). reflexivity. Qed.
Lemma tsum_minus {Y} (f g : Y -> R) t : tsum (tmap (fun x => f x - g x) t) = tsum (tmap f t) - tsum (tmap g t).
Proof. rewrite (tmap_ext (fun x => f x - g x) (fun x => f x + (-1) * g x)) by (intros; lra).
  rewrite tsum_plus, tsum_scale. lra. Qed.
Lemma tmap_fst_inward {A0 B0} (g : A0 -> list (A0 * B0) -> B0) t : tmap fst (inward g t) = t.
Proof. induction t as [a cs IH] using tree_ind'. cbn. f_equal. rewrite map_map.
  induction cs as [|c r IHr]; cbn; auto. inversion IH; subst. f_equal; auto. Qed.

(** two outward passes run one after the other may be run in either order *)
Lemma swap_passes {X B C} (f : B -> X -> B) (g : C -> X -> C) (ph : X -> B -> C -> R) (t : tree X) b0 c0 :
  tsum (tmap (fun r => ph (fst (fst r)) (snd (fst r)) (snd r)) (outward (fun c ab => g c (fst ab)) c0 (outward f b0 t)))
  = tsum (tmap (fun r => ph (fst (fst r)) (snd r) (snd (fst r))) (outward (fun b ac => f b (fst ac)) b0 (outward g c0 t))).
Proof.
  transitivity (tsum (tmap (fun r => ph (fst r) (fst (snd r)) (snd (snd r))) (outward (fun bc a => (f (fst bc) a, g (snd bc) a)) (b0, c0) t))).
  - rewrite <- (outward_outward f g t b0 c0), tmap_tmap. reflexivity.
  - pose proof (outward_conj (fun cb a => (g (fst cb) a, f (snd cb) a)) (fun bc a => (f (fst bc) a, g (snd bc) a))
                   (fun p => (snd p, fst p)) (fun b a => eq_refl) t (c0, b0)) as E. cbn [fst snd] in E. rewrite <- E.
    rewrite <- (outward_outward g f t c0 b0), !tmap_tmap. reflexivity.
Qed.
(** a sum that only looks at the second pass does not need the first *)
Lemma drop_first_pass {X B C} (f : B -> X -> B) (g : C -> X -> C) (ph : X -> C -> R) (t : tree X) b0 c0 :
  tsum (tmap (fun r => ph (fst (fst r)) (snd r)) (outward (fun c ab => g c (fst ab)) c0 (outward f b0 t)))
  = tsum (tmap (fun r => ph (fst r) (snd r)) (outward g c0 t)).
Proof.
  transitivity (tsum (tmap (fun r => ph (fst r) (snd (snd r))) (outward (fun bc a => (f (fst bc) a, g (snd bc) a)) (b0, c0) t))).
  - rewrite <- (outward_outward f g t b0 c0), tmap_tmap. reflexivity.
  - pose proof (outward_conj (fun bc a => (f (fst bc) a, g (snd bc) a)) g (fun p => snd p) (fun b a => eq_refl) t (b0, c0)) as E.
    cbn [fst snd] in E. rewrite <- E. rewrite tmap_tmap. reflexivity.
Qed.

Section Spec.
Context {X : Type} (nd : X -> node V L I) (dy : X -> dyn R V).
Let nd1 (xv : X * V) := nd (fst xv).
Notation mulJt_adj := (mulJt_adjoint K s0_is sadd_is smul_is dot_add_l dot_add_r dot_scale_r dot_zero_r dot_zero_l phi_adj).
Notation adj_gen := (adjoint_gen K s0_is sadd_is smul_is dot_add_l dot_add_r dot_scale_r dot_zero_r dot_zero_l phi_adj).

(** for all test speeds v:  v . tau  =  sum_b < Mk A_b + b_b - F_b , (J v)_b >  -  v . f *)
Theorem rnea_weak (ud v : X -> list R) (t : tree X) :
  tsum (tmap (fun r => dotU K (snd r) (v (fst (fst (fst r))))) (rnea K A nd dy ud t))
  = tsum (tmap (fun xw => dot K (rnea_force K A nd dy (fst xw)) (snd xw)) (mulJ K nd1 (fun xv => v (fst xv)) (rnea_acc K nd dy ud t)))
    - tsum (tmap (fun xa => dotU K (d_f (dy (fst xa))) (v (fst xa))) (rnea_acc K nd dy ud t)).
Proof.
  unfold rnea. rewrite tmap_tmap. cbn [fst snd].
  rewrite (tmap_ext _ (fun xz : (X * V) * V => dotU K (Htmul K (n_H (nd (fst (fst xz)))) (snd xz)) (v (fst (fst xz)))
                                               - dotU K (d_f (dy (fst (fst xz)))) (v (fst (fst xz)))))
    by (intros; apply dotU_lsub_l).
  rewrite tsum_minus. f_equal.
  - rewrite (mulJt_adj nd1 (fun xv => v (fst xv)) (rnea_force K A nd dy) (rnea_acc K nd dy ud t)).
    unfold mulJt. rewrite tmap_tmap. reflexivity.
  - rewrite <- (tmap_fst_inward (gather K nd1 (rnea_force K A nd dy)) (rnea_acc K nd dy ud t)) at 2.
    rewrite tmap_tmap. reflexivity.
Qed.

(** the spatial momentum-like field  Mk (J v)_b  on the tree of test velocities *)
Definition MW (xw : X * V) : V := mapply K (n_M (nd (fst xw))) (snd xw).

(** WEAK-FORM SPECIFICATION of inverse dynamics, for every tree: for all test speeds v
      v . tau(udot)  =  udot . (M v)  +  sum_b < Z_b(v), a_b >  +  sum_b < b_b - F_b, (J v)_b >  -  v . f
    with Z(v) the inward accumulation of Mk (J v).  Hence the residual is affine in udot with linear part M
    (M is symmetric: C01), applied body forces enter exactly as -J^T F, mobility forces as -f, and the remaining
    velocity-dependent part is linear in the Coriolis accelerations a_b and gyroscopic forces b_b. *)
Theorem rnea_spec (ud v : X -> list R) (t : tree X) :
  tsum (tmap (fun r => dotU K (snd r) (v (fst (fst (fst r))))) (rnea K A nd dy ud t))
  = tsum (tmap (fun r => dotU K (snd r) (ud (fst (fst r)))) (mulM K nd v t))
    + tsum (tmap (fun r => dot K (snd r) (d_a (dy (fst (fst r))))) (accum K nd1 MW (mulJ K nd v t)))
    + tsum (tmap (fun xw => dot K (vsub K A (d_g (dy (fst xw))) (d_F (dy (fst xw)))) (snd xw)) (mulJ K nd v t))
    - tsum (tmap (fun x => dotU K (d_f (dy x)) (v x)) t).
Proof.
  rewrite rnea_weak. f_equal.
  2:{ rewrite <- (tmap_fst_outward (fun Vpar x => vadd K (vadd K (phiT K (n_l (nd x)) Vpar) (Hmul K (n_H (nd x)) (ud x))) (d_a (dy x))) (vzero K) t) at 2.
      rewrite tmap_tmap. reflexivity. }
  set (stepA := fun Vpar x => vadd K (vadd K (phiT K (n_l (nd x)) Vpar) (Hmul K (n_H (nd x)) (ud x))) (d_a (dy x))).
  set (stepW := fun Vpar x => vadd K (vadd K (phiT K (n_l (nd x)) Vpar) (Hmul K (n_H (nd x)) (v x))) (vzero K)).
  (* split the body force field *)
  rewrite (tmap_ext _ (fun xw : (X * V) * V => dot K (mapply K (n_M (nd (fst (fst xw)))) (snd (fst xw))) (snd xw)
                          + dot K (vsub K A (d_g (dy (fst (fst xw)))) (d_F (dy (fst (fst xw))))) (snd xw))).
  2:{ intros [[x a0] w]. unfold rnea_force. cbn [fst snd]. rewrite !dot_vsub_l, !dot_add_l. lra. }
  rewrite tsum_plus. f_equal.
  2:{ exact (drop_first_pass stepA stepW (fun x w => dot K (vsub K A (d_g (dy x)) (d_F (dy x))) w) t (vzero K) (vzero K)). }
  (* the inertial part: run the two passes in the other order and apply the generalised adjoint identity *)
  transitivity (tsum (tmap (fun r : (X * V) * V => dot K (MW (fst r)) (snd r))
                           (kin K nd1 (fun xw => ud (fst xw)) (fun xw => d_a (dy (fst xw))) (vzero K) (mulJ K nd v t)))).
  { etransitivity; [exact (swap_passes stepA stepW (fun x a0 w => dot K (mapply K (n_M (nd x)) a0) w) t (vzero K) (vzero K))|].
    apply f_equal. apply tmap_ext. intros [[x w] a0]. unfold MW. cbn [fst snd]. rewrite M_sym. apply dot_sym. }
  rewrite (adj_gen nd1 (fun xw => ud (fst xw)) (fun xw => d_a (dy (fst xw))) MW (mulJ K nd v t) (vzero K)).
  rewrite (dot_sym _ (phiT K _ (vzero K))), phiT_adj, dot_zero_l, Rplus_0_l.
  rewrite tsum_plus. f_equal.
  unfold mulM, mulJt. rewrite tmap_tmap. reflexivity.
Qed.

(** calcTreeEquivalentMobilityForces: for all test speeds v,  v . f_equiv = sum_b < F_b - (Mk A_bias,b + b_b), (J v)_b >,
    i.e. f_equiv = J^T (F - F_inertial): applied body forces enter exactly as J^T F *)
Theorem equiv_weak (v : X -> list R) (t : tree X) :
  tsum (tmap (fun r => dotU K (snd r) (v (fst (fst r)))) (equivf K A nd dy t))
  = tsum (tmap (fun xw => dot K (equiv_force K A nd dy (fst xw)) (snd xw)) (mulJ K nd1 (fun xv => v (fst xv)) (rnea_acc K nd dy (fun _ => []) t))).
Proof. unfold equivf, rnea_acc. symmetry. apply (mulJt_adj nd1 (fun xv : X * V => v (fst xv)) (equiv_force K A nd dy)). Qed.

(** ... and it is exactly the negated zero-acceleration residual of inverse dynamics (mobility forces aside):
    v . f_equiv + v . tau(udot = 0) = - v . f   for all v  (the velocity-dependent terms are the same in both) *)
Theorem equiv_is_minus_bias_residual (v : X -> list R) (t : tree X) :
  tsum (tmap (fun r => dotU K (snd r) (v (fst (fst r)))) (equivf K A nd dy t))
  + tsum (tmap (fun r => dotU K (snd r) (v (fst (fst (fst r))))) (rnea K A nd dy (fun _ => []) t))
  = - tsum (tmap (fun xa => dotU K (d_f (dy (fst xa))) (v (fst xa))) (rnea_acc K nd dy (fun _ => []) t)).
Proof. rewrite equiv_weak, rnea_weak.
  set (T := mulJ K nd1 (fun xv : X * V => v (fst xv)) (rnea_acc K nd dy (fun _ => []) t)).
  assert (E : tsum (tmap (fun xw => dot K (equiv_force K A nd dy (fst xw)) (snd xw)) T)
            = - tsum (tmap (fun xw => dot K (rnea_force K A nd dy (fst xw)) (snd xw)) T)).
  { rewrite (tmap_ext (fun xw : (X * V) * V => dot K (equiv_force K A nd dy (fst xw)) (snd xw))
                      (fun xw => (-1) * dot K (rnea_force K A nd dy (fst xw)) (snd xw))).
    - rewrite tsum_scale. lra.
    - intros [xa w]. unfold equiv_force, rnea_force. cbn [fst snd]. rewrite !dot_vsub_l. lra. }
  rewrite E. lra. Qed.

(** the residual is affine in udot: the udot-dependent part is udot . (M v) *)
Corollary rnea_affine_in_udot (ud v : X -> list R) (t : tree X) :
  tsum (tmap (fun r => dotU K (snd r) (v (fst (fst (fst r))))) (rnea K A nd dy ud t))
  = tsum (tmap (fun r => dotU K (snd r) (ud (fst (fst r)))) (mulM K nd v t))
    + tsum (tmap (fun r => dotU K (snd r) (v (fst (fst (fst r))))) (rnea K A nd dy (fun _ => []) t)).
Proof.
  rewrite !rnea_spec.
  assert (E0 : tsum (tmap (fun r : (X * V) * list R => dotU K (snd r) []) (mulM K nd v t)) = 0).
  { rewrite (tmap_ext _ (fun _ => 0 * 0)) by (intros; rewrite dotU_nil_r; lra). rewrite tsum_scale. lra. }
  rewrite E0. lra.
Qed.
End Spec.

(** ** forward dynamics solves the equations of motion, with the same velocity terms as inverse dynamics *)
Lemma dotU_zeros {B} (H : list B) u : dotU K (map (fun _ => 0) H) u = 0.
Proof. revert u. induction H as [|h H IH]; intros [|x u]; cbn [map dotU]; rewrite ?s0_is; auto.
  rewrite IH, sadd_is, smul_is. ring. Qed.
Lemma lsum_zero {B} (f : B -> R) l : Forall (fun b => f b = 0) l -> lsum (map f l) = 0.
Proof. induction 1; cbn [map]; [reflexivity|]. rewrite lsum_cons. lra. Qed.
Lemma tsum_const0 {Y} (t : tree Y) : tsum (tmap (fun _ => 0) t) = 0.
Proof. rewrite (tmap_ext (fun _ : Y => 0) (fun _ => 0 * 0)) by (intros; lra). rewrite tsum_scale. lra. Qed.

Section EOM.
Context {X : Type} (nd : X -> node V L I) (dy : X -> dyn R V).
Notation WT := (((X * abi R V P) * zrec R V) * (V * list R))%type.
Let ndw (w : WT) := nd (w_x w).
Let dyw (w : WT) := dy (w_x w).
(** the same bodies with only their velocity-dependent inputs: no applied forces *)
Definition dy_bias (w : WT) : dyn R V := mkDyn (d_a (dyw w)) (d_g (dyw w)) (vzero K) [].

(** for all test speeds v:   udot_fd . (M v)  +  v . tau(udot=0, F=0, f=0)  =  sum_b <F_b, (J v)_b>  +  v . f
    i.e.  M udot + C(q,u) = J^T F + f  with C the zero-acceleration, zero-force value of inverse dynamics:
    the velocity-dependent terms are the same in both directions and body forces enter as J^T F. *)
Theorem fd_satisfies_eom (v : X -> list R) (t : tree X) :
  (forall y, In y (flatten (abi_pass K A nd t)) -> node_ok nd dy y) ->
  let vw := fun w : WT => v (w_x w) in
  tsum (tmap (fun r => dotU K (snd r) (w_ud (fst (fst r)))) (mulM K ndw vw (fd K A nd dy t)))
  + tsum (tmap (fun r => dotU K (snd r) (vw (fst (fst (fst r))))) (rnea K A ndw dy_bias (fun _ => []) (fd K A nd dy t)))
  = tsum (tmap (fun xw => dot K (d_F (dyw (fst xw))) (snd xw)) (mulJ K ndw vw (fd K A nd dy t)))
    + tsum (tmap (fun w => dotU K (d_f (dyw w)) (vw w)) (fd K A nd dy t)).
Proof.
  intros Hok vw.
  pose proof (rnea_spec ndw dyw w_ud vw (fd K A nd dy t)) as E1.
  assert (Z1 : tsum (tmap (fun r => dotU K (snd r) (vw (fst (fst (fst r))))) (rnea K A ndw dyw w_ud (fd K A nd dy t))) = 0).
  { rewrite tsum_flatten. apply lsum_zero. pose proof (fd_then_rnea_zero nd dy t Hok) as Hz. unfold rnea_of_fd in Hz.
    eapply Forall_impl; [|exact Hz]. intros r Hr. cbv beta in *. etransitivity; [|apply (dotU_zeros (n_H (nd (w_x (fst (fst (fst r))))))) ]. f_equal. exact Hr. }
  rewrite Z1 in E1. clear Z1.
  rewrite (rnea_spec ndw dy_bias (fun _ => []) vw (fd K A nd dy t)).
  rewrite (tmap_ext (fun r : (WT * V) * list R => dotU K (snd r) []) (fun _ => 0)) by (intros; apply dotU_nil_r).
  rewrite tsum_const0.
  rewrite (tmap_ext (fun x : WT => dotU K (d_f (dy_bias x)) (vw x)) (fun _ => 0)) by (intros; cbn; apply s0_is).
  rewrite tsum_const0.
  rewrite (tmap_ext (fun xw : WT * V => dot K (vsub K A (d_g (dy_bias (fst xw))) (d_F (dy_bias (fst xw)))) (snd xw))
                    (fun xw => dot K (d_g (dyw (fst xw))) (snd xw)))
    by (intros; cbn [dy_bias d_g d_F]; rewrite dot_vsub_l, dot_zero_l; lra).
  rewrite (tmap_ext (fun xw : WT * V => dot K (vsub K A (d_g (dyw (fst xw))) (d_F (dyw (fst xw)))) (snd xw))
                    (fun xw => dot K (d_g (dyw (fst xw))) (snd xw) - dot K (d_F (dyw (fst xw))) (snd xw))) in E1
    by (intros; apply dot_vsub_l).
  rewrite tsum_minus in E1. cbn [dy_bias d_a].
  match type of E1 with 0 = ?a + ?b + (?c - ?d) - ?e => enough (G : a + (0 + b + c - 0) = d + e) by exact G; lra end.
Qed.
End EOM.

(** ** the inverse mass matrix operator:  M (M^-1 f) = f *)
Lemma vadd_zero_r a : vadd K a (vzero K) = a.
Proof. apply dot_ext; intro y. rewrite dot_add_l, dot_zero_l. lra. Qed.
Lemma papply_zero p : papply A p (vzero K) = vzero K.
Proof. apply dot_ext; intro y. rewrite P_sym, !dot_zero_l. reflexivity. Qed.
Lemma vsub_zero_r a : vsub K A a (vzero K) = a.
Proof. apply dot_ext; intro y. rewrite dot_vsub_l, dot_zero_l. lra. Qed.
Lemma inward_ext {A0 B0} (g g' : A0 -> list (A0 * B0) -> B0) : (forall a rs, g a rs = g' a rs) -> forall t, inward g t = inward g' t.
Proof. intros E. induction t as [a cs IH] using tree_ind'. cbn.
  assert (Ec : map (inward g) cs = map (inward g') cs).
  { induction cs as [|c r IHr]; cbn; auto. inversion IH; subst. f_equal; auto. }
  rewrite Ec, E. reflexivity. Qed.
Lemma outward_ext {A0 B0} (f f' : B0 -> A0 -> B0) : (forall b a, f b a = f' b a) -> forall t b, outward f b t = outward f' b t.
Proof. intros E. induction t as [a cs IH] using tree_ind'. intros b. cbn. rewrite E. f_equal.
  induction cs as [|c r IHr]; cbn; auto. inversion IH; subst. f_equal; auto. Qed.
Lemma lsub_zero_eq {B} : forall (a f : list R) (H : list B), length a = length f -> lsub K A a f = map (fun _ => 0) H -> a = f.
Proof. induction a as [|x a IH]; intros [|y f] H E Hz; cbn in *; auto; try discriminate.
  destruct H as [|h H]; cbn in Hz; [discriminate|]. injection Hz as Hx Hr. f_equal.
  - unfold ssub in Hx. rewrite sadd_is, sneg_is in Hx. lra.
  - apply (IH f H); auto. Qed.

Lemma Forall_impl2 {B} (P0 Q0 R0 : B -> Prop) l : (forall x, P0 x -> Q0 x -> R0 x) -> Forall P0 l -> Forall Q0 l -> Forall R0 l.
Proof. intros E HP HQ. induction l as [|x l IH]; [constructor|]. inversion HP; inversion HQ; subst. constructor; auto. Qed.

Section MINV.
Context {X : Type} (nd : X -> node V L I) (dy : X -> dyn R V).
Notation WT := (((X * abi R V P) * zrec R V) * (V * list R))%type.
Let ndw (w : WT) := nd (w_x w).
(** only the mobility forces: no velocities, no body forces *)
Definition dy_f (x : X) : dyn R V := mkDyn (vzero K) (vzero K) (vzero K) (d_f (dy x)).

Lemma mulMInv_is_fd t : mulMInv K A nd dy t = fd K A nd dy_f t.
Proof. unfold mulMInv, fd, fd2_pass, fd1_pass.
  rewrite (inward_ext (mi1_step K A nd dy) (fd1_step K A nd dy_f)).
  2:{ intros y rs. unfold mi1_step, fd1_step. cbn [dy_f d_a d_g d_F d_f]. rewrite papply_zero, vadd_zero_r, vsub_zero_r. reflexivity. }
  apply outward_ext. intros b w. unfold mi2_step, fd2_step. cbn [dy_f d_a]. rewrite vadd_zero_r. reflexivity. Qed.

(** M * (M^-1 f) = f at every mobility, for every tree (under the same per-body hypothesis on the computed inverses) *)
Theorem mulM_mulMInv_id (t : tree X) :
  (forall y, In y (flatten (abi_pass K A nd t)) -> node_ok nd dy y) ->
  Forall (fun r => snd r = d_f (dy (w_x (fst (fst r))))) (flatten (mulM_of_mulMInv K A nd dy t)).
Proof.
  intros Hok. unfold mulM_of_mulMInv. rewrite mulMInv_is_fd.
  assert (Hok' : forall y, In y (flatten (abi_pass K A nd t)) -> node_ok nd dy_f y) by (intros y Hy; exact (Hok y Hy)).
  pose proof (fd_then_rnea_zero nd dy_f t Hok') as Hz. unfold rnea_of_fd, rnea, rnea_acc in Hz.
  rewrite flatten_tmap in Hz. apply Forall_map in Hz. cbn [fst snd] in Hz.
  (* the inverse-dynamics accumulation without velocities and body forces is the accumulation of multiplyByM *)
  assert (EA : accum K (fun xv : WT * V => nd (w_x (fst xv))) (rnea_force K A (fun w : WT => nd (w_x w)) (fun w : WT => dy_f (w_x w)))
                 (kin K (fun w : WT => nd (w_x w)) w_ud (fun w : WT => d_a (dy_f (w_x w))) (vzero K) (fd K A nd dy_f t))
             = accum K (fun xv : WT * V => ndw (fst xv)) (fun xv : WT * V => mapply K (n_M (ndw (fst xv))) (snd xv))
                 (mulJ K ndw w_ud (fd K A nd dy_f t))).
  { unfold accum. apply inward_ext. intros xv rs. unfold gather. f_equal.
    unfold rnea_force. cbn [dy_f d_g d_F]. rewrite vadd_zero_r, vsub_zero_r. reflexivity. }
  assert (Hz' : Forall (fun xz : (WT * V) * V => lsub K A (Htmul K (n_H (nd (w_x (fst (fst xz))))) (snd xz)) (d_f (dy (w_x (fst (fst xz)))))
                                          = map (fun _ => 0) (n_H (nd (w_x (fst (fst xz))))))
                      (flatten (accum K (fun xv : WT * V => ndw (fst xv)) (fun xv : WT * V => mapply K (n_M (ndw (fst xv))) (snd xv))
                                      (mulJ K ndw w_ud (fd K A nd dy_f t))))).
  { rewrite <- EA. exact Hz. }
  clear Hz EA. rename Hz' into Hz.
  unfold mulM, mulJt. rewrite flatten_tmap. apply Forall_map.
  (* lengths: one mobility force per mobility at every node of the forward-dynamics tree *)
  assert (HL : Forall (fun xz : (WT * V) * V => length (d_f (dy (w_x (fst (fst xz))))) = length (n_H (nd (w_x (fst (fst xz))))))
                      (flatten (accum K (fun xv : WT * V => ndw (fst xv)) (fun xv : WT * V => mapply K (n_M (ndw (fst xv))) (snd xv))
                                      (mulJ K ndw w_ud (fd K A nd dy_f t))))).
  { apply Forall_forall. intros xz Hin.
    apply (in_map (fun xz : (WT * V) * V => fst (fst (fst (fst xz))))) in Hin.
    rewrite <- flatten_tmap in Hin.
    rewrite <- (tmap_tmap fst (fun xv : WT * V => fst (fst (fst xv)))) in Hin. unfold accum in Hin. rewrite tmap_fst_inward in Hin.
    rewrite <- (tmap_tmap fst (fun w : WT => fst (fst w))) in Hin. unfold mulJ, kin in Hin. rewrite tmap_fst_outward in Hin.
    rewrite <- (tmap_tmap fst (fun zw : (X * abi R V P) * zrec R V => fst zw)) in Hin. unfold fd, fd2_pass in Hin. rewrite tmap_fst_outward in Hin.
    unfold fd1_pass in Hin. rewrite tmap_fst_inward in Hin.
    destruct (Hok _ Hin) as [_ HLen]. exact HLen. }
  refine (Forall_impl2 _ _ _ _ _ Hz HL). intros xz Hz1 HL1. cbn [fst snd] in *.
  apply (lsub_zero_eq _ _ (n_H (nd (w_x (fst (fst xz)))))); [|exact Hz1].
  rewrite Htmul_length. symmetry. exact HL1.
Qed.

(** the other side: M u = f  implies  M^-1 f = u  (with mulM_mulMInv_id: multiplyByMInv is the two-sided inverse of
    multiplyByM on every tree).  From the uniqueness theorem: without velocities and body forces the inverse-dynamics
    residual of u is M u - f. *)
Lemma lsub_self : forall (a : list R) (c : list V), length a = length c -> lsub K A a a = map (fun _ => 0) c.
Proof. induction a as [|x a IHa]; intros [|z c] E; try discriminate; [reflexivity|]. cbn [lsub map]. f_equal.
  - unfold ssub. rewrite sadd_is, sneg_is. lra.
  - apply IHa. cbn in E. lia. Qed.
Theorem mulMInv_mulM_id (u : X -> list R) (t : tree X) :
  (forall y, In y (flatten (abi_pass K A nd t)) -> node_ok_l nd dy u y) ->
  Forall (fun r => snd r = d_f (dy (fst (fst r)))) (flatten (mulM K nd u t)) ->
  Forall (fun w : WT => w_ud w = u (w_x w)) (flatten (mulMInv K A nd dy t)).
Proof.
  intros Hok HM. rewrite mulMInv_is_fd. apply (fd_unique nd dy_f u t).
  - intros y Hy. exact (Hok y Hy).
  - unfold rnea, rnea_acc. rewrite flatten_tmap. apply Forall_map. cbn [fst snd].
    assert (EA : accum K (fun xv : X * V => nd (fst xv)) (rnea_force K A nd dy_f) (kin K nd u (fun x => d_a (dy_f x)) (vzero K) t)
               = accum K (fun xv : X * V => nd (fst xv)) (fun xv : X * V => mapply K (n_M (nd (fst xv))) (snd xv)) (mulJ K nd u t)).
    { unfold accum. apply inward_ext. intros xv rs. unfold gather. f_equal.
      unfold rnea_force. cbn [dy_f d_g d_F]. rewrite vadd_zero_r, vsub_zero_r. reflexivity. }
    rewrite EA. unfold mulM, mulJt in HM. rewrite flatten_tmap in HM. rewrite Forall_map in HM. cbn [fst snd] in HM.
    eapply Forall_impl; [|exact HM]. intros xz E. cbn beta in *. cbn [dy_f d_f]. rewrite E.
    apply lsub_self. rewrite <- E. apply Htmul_length.
Qed.
End MINV.
End Laws.
