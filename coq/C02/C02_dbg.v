Require Import C02_Proofs.
Check @fd_then_rnea_zero. Check @node_ok.
