(** C03: outward composition of the mobilizer catalogue (C05_Model.v) over a tree, generic in [NumOps]:
      X_GB = X_GP . X_PF . X_FM(q) . X_MB                    (RigidBodyNodeSpec::calcBodyTransforms)
      V_GB = shift(V_GP, p_GB - p_GP) + H_PB_G u             (calcParentToChildVelocityJacobianInGround,
                                                              RigidBodyNode::calcJointIndependentKinematicsVel)
    station location / velocity, and the transposes of N, NInv, NDot.  The same step functions are used by the
    theorems (C03_Proofs.v, over R, with time-dependent poses) and by the extracted float runs. *)
From Coq Require Import ZArith List Arith.
Import ListNotations.
Require Import Num Vec C28_Defs rot_gen Tree C05_Model.

Section Comp. Context {T:Type} (K:NumOps T).
Definition SV3 := SpatialVec T.
(** pose of the child body B from the pose of its parent P *)
Definition pose_step (XGP XPF XFM XMB : Transform T) : Transform T :=
  xf_compose K (xf_compose K (xf_compose K XGP XPF) XFM) XMB.
(** spatial velocity of B (angular, linear at Bo; in Ground) from the parent's, as simbody computes it:
    V_PB_G = R_GF (w_FM, v_FM + w_FM x (R_FM r_MB)),  V_GB = (w_P, v_P + w_P x (p_GB - p_GP)) + V_PB_G *)
Definition vel_step (XGP : Transform T) (VGP : SV3) (XPF XFM XMB : Transform T) (VFM : SV3) : SV3 :=
  let RGF := m33_mul K (fst XGP) (fst XPF) in
  let XGB := pose_step XGP XPF XFM XMB in
  let l := v3_sub K (snd XGB) (snd XGP) in
  let r := m33_mulv K (fst XFM) (snd XMB) in
  let w := m33_mulv K RGF (fst VFM) in
  let v := m33_mulv K RGF (v3_add K (snd VFM) (v3_cross K (fst VFM) r)) in
  (v3_add K (fst VGP) w, v3_add K (v3_add K (snd VGP) (v3_cross K (fst VGP) l)) v).
(** a station fixed on the body at pS (in B): location and velocity in Ground *)
Definition station_loc (XGB : Transform T) (pS : Vec3 T) : Vec3 T := xf_apply K XGB pS.
Definition station_vel (XGB : Transform T) (VGB : SV3) (pS : Vec3 T) : Vec3 T :=
  v3_add K (snd VGB) (v3_cross K (fst VGB) (m33_mulv K (fst XGB) pS)).

(** per-body data of the executable pass *)
Record jnode := mkJ { j_idx : nat; j_par : nat; j_XPF : Transform T; j_XMB : Transform T; j_XFM : Transform T; j_VFM : SV3 }.
Definition kstep0 (pv : Transform T * SV3) (j : jnode) : Transform T * SV3 :=
  (pose_step (fst pv) (j_XPF j) (j_XFM j) (j_XMB j), vel_step (fst pv) (snd pv) (j_XPF j) (j_XFM j) (j_XMB j) (j_VFM j)).
Definition sv0 : SV3 := (o3 K, o3 K).
Definition kin0 (t : tree jnode) : tree (jnode * (Transform T * SV3)) := outward kstep0 (xf_id K, sv0) t.

(** a body of a simbody system: mobilizer spec, direction, frames, its q and u *)
Definition mk_jnode (idx par : nat) (m : mspec (T:=T)) (rev : bool) (XPF XBM : Transform T) (q u : list T) : jnode :=
  mkJ idx par XPF (xf_inv K XBM) (rep_X K m rev q) (rep_V K m rev q u).
Definition ground_node : jnode := mkJ 0 0 (xf_id K) (xf_id K) (xf_id K) sv0.
Fixpoint buildJ (fuel : nat) (bodies : list jnode) (x : jnode) : tree jnode :=
  match fuel with
  | O => Node x []
  | S f => Node x (map (buildJ f bodies) (filter (fun b => andb (Nat.eqb (j_par b) (j_idx x)) (negb (Nat.eqb (j_idx b) 0))) bodies))
  end.
Definition run_kin (bodies : list jnode) : list (nat * (Transform T * SV3)) :=
  map (fun jb => (j_idx (fst jb), snd jb)) (flatten (kin0 (buildJ (S (length bodies)) bodies ground_node))).

(** ** transposed coordinate-derivative maps (multiplyByN / NInv / NDot with transpose = true) *)
Definition m43_Tmulv (m : Mat43 T) (f : Vec4 T) : Vec3 T :=
  let '(r0,r1,r2,r3) := m in let '(f0,f1,f2,f3) := f in
  v3_add K (v3_add K (v3_scale K f0 r0) (v3_scale K f1 r1)) (v3_add K (v3_scale K f2 r2) (v3_scale K f3 r3)).
Definition m34_Tmulv (m : Mat34 T) (g : Vec3 T) : Vec4 T :=
  let '(r0,r1,r2) := m in let '(g0,g1,g2) := g in
  v4_add K (v4_add K (v4_scale K g0 r0) (v4_scale K g1 r1)) (v4_scale K g2 r2).
Definition Ball_NTq (e : Vec4 T) (f : Vec4 T) : Vec3 T := m43_Tmulv (cNQ K e) f.
Definition Ball_NTe (a : Vec3 T) (f : Vec3 T) : Vec3 T := m33_Tmulv K (cNP_q K a) f.
Definition Ball_NInvTq (e : Vec4 T) (g : Vec3 T) : Vec4 T := m34_Tmulv (cNInvQ K e) g.
Definition Ball_NInvTe (a : Vec3 T) (g : Vec3 T) : Vec3 T := m33_Tmulv K (cNInvP_q K a) g.
Definition Ball_NDotTq (ed : Vec4 T) (f : Vec4 T) : Vec3 T := m43_Tmulv (cNDotQ K ed) f.
Definition Ball_NDotTe (a ad : Vec3 T) (f : Vec3 T) : Vec3 T := m33_Tmulv K (cNDotP_q K a ad) f.
Definition Line_NTq (e : Vec4 T) (f : Vec4 T) : Vec2 T := dn2 (m33_Tmulv K (quatR K e) (Ball_NTq e f)).
Definition Line_NTe (a : Vec3 T) (f : Vec3 T) : Vec2 T := dn2 (m33_Tmulv K (cNB_q K a) f).
Definition Line_NInvTq (e : Vec4 T) (g : Vec2 T) : Vec4 T := Ball_NInvTq e (m33_mulv K (quatR K e) (up3 K g)).
Definition Line_NInvTe (a : Vec3 T) (g : Vec2 T) : Vec3 T := m33_Tmulv K (cNInvB_q K a) (up3 K g).
(** transpose of Line_NDotq:  P^T R^T N_Q(qdot)^T f  -  P^T ((u,0) x (R^T N_Q(q)^T f)) *)
Definition Line_NDotTq (e ed : Vec4 T) (u : Vec2 T) (f : Vec4 T) : Vec2 T :=
  v2_sub K (dn2 (m33_Tmulv K (quatR K e) (Ball_NDotTq ed f)))
           (dn2 (v3_cross K (up3 K u) (m33_Tmulv K (quatR K e) (Ball_NTq e f)))).
Definition Line_NDotTe (a ad : Vec3 T) (f : Vec3 T) : Vec2 T := dn2 (m33_Tmulv K (cNDotB_q K a ad) f).

(** list dispatch (q-like in, u-like out for NT and NDotT; u-like in, q-like out for NInvT) *)
Definition rotq (m : mspec (T:=T)) (l : list T) : list T := firstn (nrot m) l.
Definition mob_NT (m : mspec (T:=T)) (q f : list T) : list T :=
  match m_type m with
  | MBall | MEllipsoid => if usesQuat m then of3 (Ball_NTq (l4 K q) (l4 K f)) else of3 (Ball_NTe (l3 K q 0) (l3 K f 0))
  | MFree => (if usesQuat m then of3 (Ball_NTq (l4 K q) (l4 K f)) else of3 (Ball_NTe (l3 K q 0) (l3 K f 0))) ++ of3 (l3 K f (nrot m))
  | MLineOrientation => if usesQuat m then of2 (Line_NTq (l4 K q) (l4 K f)) else of2 (Line_NTe (l3 K q 0) (l3 K f 0))
  | MFreeLine => (if usesQuat m then of2 (Line_NTq (l4 K q) (l4 K f)) else of2 (Line_NTe (l3 K q 0) (l3 K f 0))) ++ of3 (l3 K f (nrot m))
  | _ => f
  end.
Definition mob_NInvT (m : mspec (T:=T)) (q g : list T) : list T :=
  match m_type m with
  | MBall | MEllipsoid => if usesQuat m then of4 (Ball_NInvTq (l4 K q) (l3 K g 0)) else of3 (Ball_NInvTe (l3 K q 0) (l3 K g 0))
  | MFree => (if usesQuat m then of4 (Ball_NInvTq (l4 K q) (l3 K g 0)) else of3 (Ball_NInvTe (l3 K q 0) (l3 K g 0))) ++ of3 (l3 K g 3)
  | MLineOrientation => if usesQuat m then of4 (Line_NInvTq (l4 K q) (nth0 K g 0, nth0 K g 1)) else of3 (Line_NInvTe (l3 K q 0) (nth0 K g 0, nth0 K g 1))
  | MFreeLine => (if usesQuat m then of4 (Line_NInvTq (l4 K q) (nth0 K g 0, nth0 K g 1)) else of3 (Line_NInvTe (l3 K q 0) (nth0 K g 0, nth0 K g 1))) ++ of3 (l3 K g 2)
  | _ => g
  end.
Definition mob_NDotT (m : mspec (T:=T)) (q u qd f : list T) : list T :=
  match m_type m with
  | MBall | MEllipsoid => if usesQuat m then of3 (Ball_NDotTq (l4 K qd) (l4 K f)) else of3 (Ball_NDotTe (l3 K q 0) (l3 K qd 0) (l3 K f 0))
  | MFree => (if usesQuat m then of3 (Ball_NDotTq (l4 K qd) (l4 K f)) else of3 (Ball_NDotTe (l3 K q 0) (l3 K qd 0) (l3 K f 0))) ++ zeros K 3
  | MLineOrientation => if usesQuat m then of2 (Line_NDotTq (l4 K q) (l4 K qd) (nth0 K u 0, nth0 K u 1) (l4 K f)) else of2 (Line_NDotTe (l3 K q 0) (l3 K qd 0) (l3 K f 0))
  | MFreeLine => (if usesQuat m then of2 (Line_NDotTq (l4 K q) (l4 K qd) (nth0 K u 0, nth0 K u 1) (l4 K f)) else of2 (Line_NDotTe (l3 K q 0) (l3 K qd 0) (l3 K f 0))) ++ zeros K 3
  | _ => map (fun _ => n0 K) f
  end.
Fixpoint ladd (a b : list T) : list T := match a, b with x :: a', y :: b' => nadd K x y :: ladd a' b' | _, _ => nil end.
(** qdotdot = N udot + NDot u, with NDot evaluated at qdot = N u *)
Definition mob_qdd (m : mspec (T:=T)) (q u ud : list T) : list T :=
  ladd (mob_N K m q ud) (mob_NDot K m q u (mob_N K m q u) u).
End Comp.
