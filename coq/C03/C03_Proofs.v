(** C03 theorems (over the reals): velocity kinematics is the time derivative of position kinematics.
    - [step_jet]: one outward step (X_GB = X_GP X_PF X_FM X_MB with simbody's velocity formula) preserves
      "moves with", by the product rule for Transform composition (C05_Jet.moves_compose);
    - [compose_jet]: for EVERY tree whose joints satisfy their X_FM jet (the C05 theorems for the catalogue),
      every body's spatial velocity is the jet of its pose; [station_jet] for stations;
    - coordinate-derivative maps: N NInv relations, NDot the derivative of N, qdotdot decomposition,
      transposes as exact adjoints.  The Euler / quaternion blocks are those of Gen/rot_gen.v and the facts
      about them are C28's theorems. *)
From Coq Require Import ZArith Reals Lra Lia Psatz Nsatz List.
From Coquelicot Require Import Coquelicot.
Require Import Num Vec Tactics rot_gen C28_Defs C28_Proofs Tree MB Spatial C05_Model C05_Rot C05_Jet C05_Proofs C03_Model.
Local Open Scope R_scope.

Ltac d3v v := destruct v as [[? ?] ?].
Ltac d33 M := destruct M as [[[[? ?] ?] [[? ?] ?]] [[? ?] ?]].
Lemma mulv_assoc A B v : m33_mulv ROps (m33_mul ROps A B) v = m33_mulv ROps A (m33_mulv ROps B v).
Proof. d33 A; d33 B; d3v v. vunf. teq; ring. Qed.
Lemma mulv_add A a b : m33_mulv ROps A (v3_add ROps a b) = v3_add ROps (m33_mulv ROps A a) (m33_mulv ROps A b).
Proof. d33 A; d3v a; d3v b. vunf. teq; ring. Qed.
Lemma mulv_0 A : m33_mulv ROps A (0,0,0) = (0,0,0).
Proof. d33 A. vunf. teq; ring. Qed.
Lemma mulv_I v : m33_mulv ROps I33 v = v.
Proof. d3v v. unfold I33. vunf. teq; ring. Qed.

(** ** one outward step *)
Lemma vel_step_is_compose X0 XPF F0 XMB VGP VFM : is_rot (m33_mul ROps (fst X0) (fst XPF)) ->
  compose_vel (xf_compose ROps (xf_compose ROps X0 XPF) F0) XMB
    (compose_vel (xf_compose ROps X0 XPF) F0 (compose_vel X0 XPF VGP ((0,0,0),(0,0,0))) VFM) ((0,0,0),(0,0,0))
  = vel_step ROps X0 VGP XPF F0 XMB VFM.
Proof. intros HG. destruct X0 as [RP pP]. destruct XPF as [RF pF]. destruct F0 as [RM pM]. destruct XMB as [RB pB].
  destruct VGP as [wP vP]. destruct VFM as [w v]. unfold compose_vel, vel_step, pose_step.
  cbn [fst snd] in HG. repeat progress (cbn [xf_compose fst snd]; unfold xf_apply).
  rewrite !mulv_0, !(mulv_assoc (m33_mul ROps RP RF) RM), (mulv_add (m33_mul ROps RP RF)).
  rewrite (rot_cross_v (m33_mul ROps RP RF) w (m33_mulv ROps RM pB) HG).
  generalize (m33_mul ROps RP RF) (m33_mulv ROps RP pF) (m33_mulv ROps RM pB). intros G a r.
  d33 G; d3v a; d3v r; d3v pP; d3v pM; d3v wP; d3v vP; d3v w; d3v v. vunf. teq; ring. Qed.

Theorem step_jet XGP VGP XPF XFM XMB VFM :
  is_rot (fst (XGP 0)) -> is_rot (fst XPF) -> is_rot (fst (XFM 0)) ->
  moves_with XGP VGP -> moves_with XFM VFM ->
  moves_with (fun t => pose_step ROps (XGP t) XPF (XFM t) XMB) (vel_step ROps (XGP 0) VGP XPF (XFM 0) XMB VFM).
Proof. intros RP RF RM HP HM.
  pose proof (moves_compose XGP (fun _ => XPF) VGP _ RP HP (moves_const XPF)) as H1.
  assert (R1 : is_rot (fst (xf_compose ROps (XGP 0) XPF))) by (cbn [xf_compose fst]; apply rot_mul; auto).
  pose proof (moves_compose (fun t => xf_compose ROps (XGP t) XPF) XFM _ _ R1 H1 HM) as H2.
  assert (R2 : is_rot (fst (xf_compose ROps (xf_compose ROps (XGP 0) XPF) (XFM 0)))) by (cbn [xf_compose fst]; repeat apply rot_mul; auto).
  pose proof (moves_compose (fun t => xf_compose ROps (xf_compose ROps (XGP t) XPF) (XFM t)) (fun _ => XMB) _ _ R2 H2 (moves_const XMB)) as H3.
  cbv beta in H3. rewrite vel_step_is_compose in H3 by (apply rot_mul; auto). exact H3. Qed.

(** ** the velocity step is the row of the tree recursion of Lib/MB.v (the operators of C01/C04):
    V_GB = phiT(l) V_GP + sum_i u_i H_PB_G,i  with l = p_GB - p_GP and H_PB_G,i = toG(H_FM,i) *)
Definition toG (X0 XPF F0 XMB : Transform R) (h : SpatialVec R) : SpatialVec R :=
  let RGF := m33_mul ROps (fst X0) (fst XPF) in let r := m33_mulv ROps (fst F0) (snd XMB) in
  (m33_mulv ROps RGF (fst h), m33_mulv ROps RGF (v3_add ROps (snd h) (v3_cross ROps (fst h) r))).
Lemma toG_linear X0 XPF F0 XMB H u :
  toG X0 XPF F0 XMB (Hu ROps H u) = MB.Hmul (svK ROps) (map (toG X0 XPF F0 XMB) H) u.
Proof. revert u. induction H as [|h H IH]; intros [|x u]; cbn [Hu map MB.Hmul];
  try (unfold toG; cbv [MB.vzero svK]; destruct X0 as [A a]; destruct XPF as [B b]; destruct F0 as [C c]; destruct XMB as [D d]; cbn [fst snd];
       generalize (m33_mul ROps A B) (m33_mulv ROps C d); intros G r; d33 G; d3v r; cunf; teq; ring).
  rewrite <- IH. unfold toG. cbv [MB.vadd MB.vscale svK]. destruct X0 as [A a]; destruct XPF as [B b]; destruct F0 as [C c]; destruct XMB as [D d]; cbn [fst snd].
  generalize (m33_mul ROps A B) (m33_mulv ROps C d) (Hu ROps H u). intros G r [y z]. destruct h as [hw hv].
  d33 G; d3v r; d3v y; d3v z; d3v hw; d3v hv. cunf. teq; ring. Qed.
Theorem vel_step_is_MB_recursion X0 VGP XPF F0 XMB H u :
  vel_step ROps X0 VGP XPF F0 XMB (Hu ROps H u) =
  MB.vadd (svK ROps) (MB.phiT (svK ROps) (v3_sub ROps (snd (pose_step ROps X0 XPF F0 XMB)) (snd X0)) VGP)
                     (MB.Hmul (svK ROps) (map (toG X0 XPF F0 XMB) H) u).
Proof. rewrite <- toG_linear. unfold vel_step, toG. cbv [MB.vadd MB.phiT svK shiftVel sv_add]. cbn [fst snd]. reflexivity. Qed.

(** ** every tree *)
Record tjoint := mkTJ { t_XPF : Transform R; t_XMB : Transform R; t_X : R -> Transform R; t_V : SpatialVec R }.
(** the joint's frames are rigid and its across-joint pose moves with its across-joint velocity
    (for catalogue entries: the C05 jet theorems with t_X t = X_FM(q + t N(q) u), t_V = H_FM(q) u) *)
Definition tjoint_ok (j : tjoint) : Prop :=
  is_rot (fst (t_XPF j)) /\ is_rot (fst (t_XMB j)) /\ is_rot (fst (t_X j 0)) /\ moves_with (t_X j) (t_V j).
Definition gjoint := { j : tjoint | tjoint_ok j }.
Definition PV := ((R -> Transform R) * SpatialVec R)%type.
Definition tstep (pv : PV) (g : gjoint) : PV :=
  let j := proj1_sig g in
  (fun t => pose_step ROps (fst pv t) (t_XPF j) (t_X j t) (t_XMB j),
   vel_step ROps (fst pv 0) (snd pv) (t_XPF j) (t_X j 0) (t_XMB j) (t_V j)).
(** outward pass below a base moving in an arbitrary (rigid, differentiable) way *)
Definition tkin (base : PV) (t : tree gjoint) : tree (gjoint * PV) := outward tstep base t.
Definition pose_ok (pv : PV) : Prop := is_rot (fst (fst pv 0)) /\ moves_with (fst pv) (snd pv).

Theorem compose_jet (t : tree gjoint) (base : PV) : pose_ok base ->
  List.Forall (fun jb => pose_ok (snd jb)) (flatten (tkin base t)).
Proof. unfold tkin. apply (outward_inv tstep pose_ok). intros b [j [A [B [C D]]]] [Hr Hm]. unfold tstep, pose_ok. cbn [proj1_sig fst snd]. split.
  - unfold pose_step. cbn [xf_compose fst]. repeat apply rot_mul; auto.
  - apply step_jet; auto. Qed.
(** the joint hypothesis is closed under MobilizedBody::Reverse: the reversed joint (inverse transform for the same
    coordinates, velocity by calcReverseMobilizerH_FM's formula) satisfies it whenever the forward one does *)
Lemma reversed_joint_ok XPF XMB X V : tjoint_ok (mkTJ XPF XMB X V) ->
  tjoint_ok (mkTJ XPF XMB (fun t => rev_X ROps (X t)) (rev_col ROps (rev_X ROps (X 0)) V)).
Proof. intros [A [B [C D]]]. cbn [t_XPF t_XMB t_X t_V] in *. split; [ exact A | ]. split; [ exact B | ].
  split; [ unfold rev_X, xf_inv; cbn [fst]; apply rot_T; exact C | apply (moves_inv X V C D) ]. Qed.
(** Ground is a legitimate base *)
Lemma ground_ok : pose_ok (fun _ => xf_id ROps, ((0,0,0),(0,0,0))).
Proof. split; [ apply rot_id | apply moves_const ]. Qed.

(** the pass of the theorem, evaluated at t = 0, is the executable pass (C03_Model.kstep0) that the
    correspondence runs against the implementation *)
Definition to_jnode (g : gjoint) : jnode (T:=R) := let j := proj1_sig g in mkJ 0 0 (t_XPF j) (t_XMB j) (t_X j 0) (t_V j).
Theorem tkin_at_0 (t : tree gjoint) (base : PV) :
  tmap (fun jb => (fst jb, (fst (snd jb) 0, snd (snd jb)))) (tkin base t)
  = outward (fun pv g => kstep0 ROps pv (to_jnode g)) (fst base 0, snd base) t.
Proof. unfold tkin. apply (outward_conj tstep (fun pv g => kstep0 ROps pv (to_jnode g)) (fun pv : PV => (fst pv 0, snd pv))).
  intros b a. reflexivity. Qed.

(** ** stations: the station velocity is the jet of the station location *)
Theorem station_jet X V pS : moves_with X V ->
  dV (fun t => station_loc ROps (X t) pS) (station_vel ROps (X 0) V pS).
Proof. intros [HR Hp]. unfold station_loc, xf_apply.
  eapply dV_eq; [ apply dV_add; [ apply Hp | apply (dM_mulv (fun t => fst (X t)) (fun _ => pS) _ _ HR (dV_const pS)) ] | ].
  cbv beta. unfold station_vel. destruct (X 0) as [A a]. destruct V as [w v]. cbn [fst snd]. d33 A; d3v pS; d3v w; d3v v. vunf. teq; ring. Qed.

(** ** N and NInv *)
Lemma Ball_NInv_N_e q0 q1 q2 w : cos q1 <> 0 -> Ball_NInve ROps (q0,q1,q2) (Ball_Ne ROps (q0,q1,q2) w) = w.
Proof. intros Hc. unfold Ball_NInve, Ball_Ne. rewrite <- mulv_assoc, (NInvP_NP_q q0 q1 q2 Hc). apply mulv_I. Qed.
Lemma Ball_N_NInv_e q0 q1 q2 qd : cos q1 <> 0 -> Ball_Ne ROps (q0,q1,q2) (Ball_NInve ROps (q0,q1,q2) qd) = qd.
Proof. intros Hc. sc q0. unfold Ball_NInve, Ball_Ne. rewrite <- mulv_assoc.
  replace (m33_mul ROps (cNP_q ROps (q0, q1, q2)) (cNInvP_q ROps (q0, q1, q2))) with I33; [ apply mulv_I | ].
  symmetry. apply (NP_NInvP (cos q0) (sin q0) (cos q1) (sin q1) 0 0); auto. Qed.
Lemma Ball_NInv_N_q e0 e1 e2 e3' w :
  Ball_NInvq ROps (e0,e1,e2,e3') (Ball_Nq ROps (e0,e1,e2,e3') w) = v3_scale ROps (e0*e0+e1*e1+e2*e2+e3'*e3') w.
Proof. d3v w. apply NInvQ_NQ. Qed.
(** N NInv is the identity on the velocity image (the tangent space of the unit sphere) *)
Lemma Ball_N_NInv_q e0 e1 e2 e3' w : e0*e0+e1*e1+e2*e2+e3'*e3' = 1 ->
  let qd := Ball_Nq ROps (e0,e1,e2,e3') w in Ball_Nq ROps (e0,e1,e2,e3') (Ball_NInvq ROps (e0,e1,e2,e3') qd) = qd.
Proof. intros Hn qd. subst qd. d3v w. unfold Ball_Nq, Ball_NInvq. rewrite (NInvQ_NQ e0 e1 e2 e3'). rewrite Hn. f_equal. vunf. teq; ring. Qed.
Lemma Line_NInv_N_e q0 q1 q2 u0 u1 : cos q1 <> 0 -> Line_NInve ROps (q0,q1,q2) (Line_Ne ROps (q0,q1,q2) (u0,u1)) = (u0,u1).
Proof. intros Hc. unfold Line_NInve, Line_Ne. rewrite <- mulv_assoc, (NInvB_NB_q q0 q1 q2 Hc), mulv_I. reflexivity. Qed.
Lemma Line_NInv_N_q e0 e1 e2 e3' u0 u1 : e0*e0+e1*e1+e2*e2+e3'*e3' = 1 ->
  Line_NInvq ROps (e0,e1,e2,e3') (Line_Nq ROps (e0,e1,e2,e3') (u0,u1)) = (u0,u1).
Proof. intros Hn. unfold Line_NInvq, Line_Nq.
  assert (HR : is_rot (quatR ROps (e0,e1,e2,e3'))) by (apply quatR_rot; cbv [v4_normSqr v4_dot ROps nadd nmul]; lra).
  destruct (m33_mulv ROps (quatR ROps (e0, e1, e2, e3')) (up3 ROps (u0, u1))) as [[y0 y1] y2] eqn:E.
  rewrite Ball_NInv_N_q, Hn. replace (v3_scale ROps 1 (y0,y1,y2)) with (y0,y1,y2) by (vunf; teq; ring).
  rewrite <- E. unfold m33_Tmulv. rewrite <- mulv_assoc, (rot_TM _ HR), mulv_I. reflexivity. Qed.
Lemma Line_N_NInv_q e0 e1 e2 e3' u0 u1 : e0*e0+e1*e1+e2*e2+e3'*e3' = 1 ->
  let qd := Line_Nq ROps (e0,e1,e2,e3') (u0,u1) in Line_Nq ROps (e0,e1,e2,e3') (Line_NInvq ROps (e0,e1,e2,e3') qd) = qd.
Proof. intros Hn qd. subst qd. rewrite Line_NInv_N_q by auto. reflexivity. Qed.

(** ** NDot is the time derivative of N along q(t) = q + t qdot *)
Lemma Ball_NDot_jet_e q0 q1 q2 d0 d1 d2 w : cos q1 <> 0 ->
  dV (fun t => Ball_Ne ROps (q0+t*d0, q1+t*d1, q2+t*d2) w) (Ball_NDote ROps (q0,q1,q2) (d0,d1,d2) w).
Proof. intros Hc. unfold Ball_Ne, Ball_NDote.
  eapply dV_eq; [ apply (dM_mulv (fun t => cNP_q ROps (q0+t*d0, q1+t*d1, q2+t*d2)) (fun _ => w) (cNDotP_q ROps (q0,q1,q2) (d0,d1,d2)) (v3_sub ROps w w)) | ].
  - intros i j Hi Hj. apply NDotP_is_jet; auto.
  - apply dV_const.
  - cbv beta. generalize (cNDotP_q ROps (q0, q1, q2) (d0, d1, d2)) (cNP_q ROps (q0 + 0 * d0, q1 + 0 * d1, q2 + 0 * d2)). intros A B.
    d33 A; d33 B; d3v w. vunf. teq; ring. Qed.
Lemma Line_NDot_jet_e q0 q1 q2 d0 d1 d2 u : cos q1 <> 0 ->
  dV (fun t => Line_Ne ROps (q0+t*d0, q1+t*d1, q2+t*d2) u) (Line_NDote ROps (q0,q1,q2) (d0,d1,d2) u).
Proof. intros Hc. unfold Line_Ne, Line_NDote.
  eapply dV_eq; [ apply (dM_mulv (fun t => cNB_q ROps (q0+t*d0, q1+t*d1, q2+t*d2)) (fun _ => up3 ROps u) (cNDotB_q ROps (q0,q1,q2) (d0,d1,d2)) (v3_sub ROps (up3 ROps u) (up3 ROps u))) | ].
  - intros i j Hi Hj. apply NDotB_is_jet; auto.
  - apply dV_const.
  - cbv beta. generalize (cNDotB_q ROps (q0, q1, q2) (d0, d1, d2)) (cNB_q ROps (q0 + 0 * d0, q1 + 0 * d1, q2 + 0 * d2)) (up3 ROps u). intros A B w.
    d33 A; d33 B; d3v w. vunf. teq; ring. Qed.
(** the quaternion N is linear in q, so N(q + t qd) w = N(q) w + t NDot(qd) w exactly *)
Lemma Ball_NDot_linear_q e0 e1 e2 e3' d0 d1 d2 d3 t w :
  Ball_Nq ROps (e0+t*d0, e1+t*d1, e2+t*d2, e3'+t*d3) w =
  v4_add ROps (Ball_Nq ROps (e0,e1,e2,e3') w) (v4_scale ROps t (Ball_NDotq ROps (d0,d1,d2,d3) w)).
Proof. d3v w. apply NQ_linear. Qed.

(** LineOrientation / FreeLine, quaternion coordinates: N(q) = N_Q(q) R_FM(q) P depends on q also through R_FM.
    multiplyByNDot (after fix a24f10ba; C05_Model.Line_NDotq) IS the time derivative of N as an operator: for every
    fixed vector v, along the motion with speeds u *)
Lemma Line_NDot_jet_q (i : nat) e0 e1 e2 e3' u0 u1 v0 v1 : (i < 4)%nat -> e0*e0+e1*e1+e2*e2+e3'*e3' = 1 ->
  let qd := Line_Nq ROps (e0,e1,e2,e3') (u0,u1) in
  is_derive (fun t => e4 i (Line_Nq ROps (e0 + t*v4_0 qd, e1 + t*v4_1 qd, e2 + t*v4_2 qd, e3' + t*v4_3 qd) (v0,v1))) 0
            (e4 i (Line_NDotq ROps (e0,e1,e2,e3') qd (u0,u1) (v0,v1))).
Proof. intros Hi Hn qd; subst qd. assert (Hz : e0*e0+e1*e1+e2*e2+e3'*e3' <> 0) by lra.
  destruct i as [|[|[|[|i]]]]; try lia; clear Hi; unfold e4; cunf;
  (auto_derive; [ repeat split; rewrite ?Rmult_0_l, ?Rplus_0_r; auto
                | rewrite ?Rmult_0_l, ?Rplus_0_r; field_simplify_eq; auto; cbv [Rpow_def.pow]; nsatz_or_fail ]). Qed.
(** regression lemmas about the expression used before the fix (N_Q(qdot) R only): it agrees with NDot on the current
    speeds (which is why calcQDotDot was right) ... *)
Lemma Line_NDot_prefix_on_u e0 e1 e2 e3' ed u : e0*e0+e1*e1+e2*e2+e3'*e3' <> 0 ->
  Line_NDotq_prefix ROps (e0,e1,e2,e3') ed u = Line_NDotq ROps (e0,e1,e2,e3') ed u u.
Proof. intros Hn. destruct ed as [[[d0 d1] d2] d3]. destruct u as [u0 u1]. cunf. teq; field; auto. Qed.
(** ... but not on other vectors: as an operator it was NOT the time derivative of N.
    Witness: q = identity, u = (1,0), v = (0,1) (run as a fixed regression case by harness/C03_search.cpp). *)
Lemma Line_NDot_prefix_refuted : exists e u v, v4_normSqr ROps e = 1 /\
  let qd := Line_Nq ROps e u in Line_NDotq_prefix ROps e qd v <> Line_NDotq ROps e qd u v.
Proof. exists (1,0,0,0), (1,0), (0,1). split; [ vunf; ring | ]. cbv zeta. cunf. intros C. injection C; intros. lra. Qed.
(** qdotdot for LineOrientation / FreeLine: d/dt (N(q) u) = N udot + NDot u *)
Lemma Line_qdd_jet_q (i : nat) e0 e1 e2 e3' u0 u1 b0 b1 : (i < 4)%nat -> e0*e0+e1*e1+e2*e2+e3'*e3' = 1 ->
  let qd := Line_Nq ROps (e0,e1,e2,e3') (u0,u1) in
  is_derive (fun t => e4 i (Line_Nq ROps (e0 + t*v4_0 qd, e1 + t*v4_1 qd, e2 + t*v4_2 qd, e3' + t*v4_3 qd) (u0 + t*b0, u1 + t*b1))) 0
            (e4 i (v4_add ROps (Line_Nq ROps (e0,e1,e2,e3') (b0,b1)) (Line_NDotq ROps (e0,e1,e2,e3') qd (u0,u1) (u0,u1)))).
Proof. intros Hi Hn qd; subst qd. assert (Hz : e0*e0+e1*e1+e2*e2+e3'*e3' <> 0) by lra.
  destruct i as [|[|[|[|i]]]]; try lia; clear Hi; unfold e4; cunf;
  (auto_derive; [ repeat split; rewrite ?Rmult_0_l, ?Rplus_0_r; auto
                | rewrite ?Rmult_0_l, ?Rplus_0_r; field_simplify_eq; auto; cbv [Rpow_def.pow]; nsatz_or_fail ]). Qed.

(** ** qdotdot = N udot + NDot u is the time derivative of qdot = N(q) u along q' = qdot, u' = udot *)
Lemma dV_affine w b : dV (fun t => (v3_0 w + t * v3_0 b, v3_1 w + t * v3_1 b, v3_2 w + t * v3_2 b)) b.
Proof. d3v w; d3v b. intros i Hi. fin3 i; unfold e3; vunf; (auto_derive; [ auto | ring ]). Qed.
Lemma qdd_jet_e q0 q1 q2 w b : cos q1 <> 0 ->
  let qd := Ball_Ne ROps (q0,q1,q2) w in
  dV (fun t => Ball_Ne ROps (q0 + t*v3_0 qd, q1 + t*v3_1 qd, q2 + t*v3_2 qd) (v3_0 w + t * v3_0 b, v3_1 w + t * v3_1 b, v3_2 w + t * v3_2 b))
     (v3_add ROps (Ball_Ne ROps (q0,q1,q2) b) (Ball_NDote ROps (q0,q1,q2) qd w)).
Proof. intros Hc qd. destruct qd as [[d0 d1] d2]. cbv [v3_0 v3_1 v3_2]. unfold Ball_Ne, Ball_NDote.
  eapply dV_eq; [ apply (dM_mulv (fun t => cNP_q ROps (q0+t*d0, q1+t*d1, q2+t*d2))
                                  (fun t => (v3_0 w + t * v3_0 b, v3_1 w + t * v3_1 b, v3_2 w + t * v3_2 b)) (cNDotP_q ROps (q0,q1,q2) (d0,d1,d2)) b) | ].
  - intros i j Hi Hj. apply NDotP_is_jet; auto.
  - apply (dV_affine w b).
  - cbv beta. rewrite !Rmult_0_l, !Rplus_0_r. generalize (cNDotP_q ROps (q0, q1, q2) (d0, d1, d2)) (cNP_q ROps (q0, q1, q2)). intros A B.
    d33 A; d33 B; d3v w; d3v b. vunf. teq; ring. Qed.
Lemma qdd_jet_q (i : nat) e0 e1 e2 e3' w0 w1 w2 b0 b1 b2 : (i < 4)%nat ->
  let qd := Ball_Nq ROps (e0,e1,e2,e3') (w0,w1,w2) in
  is_derive (fun t => e4 i (Ball_Nq ROps (e0 + t*v4_0 qd, e1 + t*v4_1 qd, e2 + t*v4_2 qd, e3' + t*v4_3 qd) (w0+t*b0, w1+t*b1, w2+t*b2))) 0
            (e4 i (v4_add ROps (Ball_Nq ROps (e0,e1,e2,e3') (b0,b1,b2)) (Ball_NDotq ROps qd (w0,w1,w2)))).
Proof. intros Hi qd; subst qd. destruct i as [|[|[|[|i]]]]; try lia; clear Hi; unfold e4; cunf;
  (auto_derive; [ auto | rewrite ?Rmult_0_l, ?Rplus_0_r; field ]). Qed.
(** the quaternion qdotdot computed this way is what Rotation.h's convertAngVelDotToQuaternionDotDot returns *)
Lemma qdd_q_is_helper e w b : v4_add ROps (Ball_Nq ROps e b) (Ball_NDotq ROps (Ball_Nq ROps e w) w) = angAcc2qddQ ROps e w b.
Proof. destruct e as [[[e0 e1] e2] e3']. d3v w; d3v b. cunf. teq; field. Qed.

(** ** the transposed products are the exact adjoints *)
Lemma NT_adjoint_e a f w : v3_dot ROps f (Ball_Ne ROps a w) = v3_dot ROps (Ball_NTe ROps a f) w.
Proof. unfold Ball_Ne, Ball_NTe. generalize (cNP_q ROps a). intros A. d33 A; d3v f; d3v w. vunf. ring. Qed.
Lemma NT_adjoint_q e f w : v4_dot ROps f (Ball_Nq ROps e w) = v3_dot ROps (Ball_NTq ROps e f) w.
Proof. unfold Ball_Nq, Ball_NTq. generalize (cNQ ROps e). intros [[[r0 r1] r2] r3]. d3v r0; d3v r1; d3v r2; d3v r3. destruct f as [[[f0 f1] f2] f3]. d3v w.
  cbv [m43_Tmulv]. vunf. ring. Qed.
Lemma NInvT_adjoint_e a g qd : v3_dot ROps g (Ball_NInve ROps a qd) = v3_dot ROps (Ball_NInvTe ROps a g) qd.
Proof. unfold Ball_NInve, Ball_NInvTe. generalize (cNInvP_q ROps a). intros A. d33 A; d3v g; d3v qd. vunf. ring. Qed.
Lemma NInvT_adjoint_q e g qd : v3_dot ROps g (Ball_NInvq ROps e qd) = v4_dot ROps (Ball_NInvTq ROps e g) qd.
Proof. unfold Ball_NInvq, Ball_NInvTq. generalize (cNInvQ ROps e). intros [[r0 r1] r2].
  destruct r0 as [[[? ?] ?] ?]; destruct r1 as [[[? ?] ?] ?]; destruct r2 as [[[? ?] ?] ?]. d3v g. destruct qd as [[[? ?] ?] ?].
  cbv [m34_Tmulv]. vunf. ring. Qed.
Lemma NDotT_adjoint_e a ad f w : v3_dot ROps f (Ball_NDote ROps a ad w) = v3_dot ROps (Ball_NDotTe ROps a ad f) w.
Proof. unfold Ball_NDote, Ball_NDotTe. generalize (cNDotP_q ROps a ad). intros A. d33 A; d3v f; d3v w. vunf. ring. Qed.
Lemma NDotT_adjoint_q ed f w : v4_dot ROps f (Ball_NDotq ROps ed w) = v3_dot ROps (Ball_NDotTq ROps ed f) w.
Proof. unfold Ball_NDotq, Ball_NDotTq. generalize (cNDotQ ROps ed). intros [[[r0 r1] r2] r3]. d3v r0; d3v r1; d3v r2; d3v r3. destruct f as [[[f0 f1] f2] f3]. d3v w.
  cbv [m43_Tmulv]. vunf. ring. Qed.
Lemma Line_NT_adjoint_q e f u : v4_dot ROps f (Line_Nq ROps e u) = v2_dot ROps (Line_NTq ROps e f) u.
Proof. unfold Line_Nq, Line_NTq. rewrite NT_adjoint_q. generalize (Ball_NTq ROps e f) (quatR ROps e). intros y A.
  d33 A; d3v y; destruct u. cbv [up3 dn2]. vunf. ring. Qed.
Lemma Line_NT_adjoint_e a f u : v3_dot ROps f (Line_Ne ROps a u) = v2_dot ROps (Line_NTe ROps a f) u.
Proof. unfold Line_Ne, Line_NTe. generalize (cNB_q ROps a). intros A. d33 A; d3v f; destruct u. cbv [up3 dn2]. vunf. ring. Qed.
Lemma Line_NInvT_adjoint_q e g qd : v2_dot ROps g (Line_NInvq ROps e qd) = v4_dot ROps (Line_NInvTq ROps e g) qd.
Proof. unfold Line_NInvq, Line_NInvTq. rewrite <- NInvT_adjoint_q. generalize (Ball_NInvq ROps e qd) (quatR ROps e). intros y A.
  d33 A; d3v y; destruct g. cbv [up3 dn2]. vunf. ring. Qed.
Lemma Line_NDotT_adjoint_q e ed u f v : v4_dot ROps f (Line_NDotq ROps e ed u v) = v2_dot ROps (Line_NDotTq ROps e ed u f) v.
Proof. unfold Line_NDotq, Line_NDotTq. 
  assert (E : forall a b, v4_dot ROps f (v4_add ROps a b) = v4_dot ROps f a + v4_dot ROps f b)
    by (intros [[[? ?] ?] ?] [[[? ?] ?] ?]; destruct f as [[[? ?] ?] ?]; vunf; ring).
  rewrite E, NDotT_adjoint_q, NT_adjoint_q. generalize (Ball_NDotTq ROps ed f) (Ball_NTq ROps e f) (quatR ROps e). intros y z A.
  d33 A; d3v y; d3v z; destruct u; destruct v. cbv [up3 dn2]. vunf. ring. Qed.
Lemma Line_NInvT_adjoint_e a g qd : v2_dot ROps g (Line_NInve ROps a qd) = v3_dot ROps (Line_NInvTe ROps a g) qd.
Proof. unfold Line_NInve, Line_NInvTe. generalize (cNInvB_q ROps a). intros A. d33 A; d3v qd; destruct g. cbv [up3 dn2]. vunf. ring. Qed.

(** non-vacuity: a rigid frame, a moving catalogue joint, a one-joint tree *)
Example C03_joint_exists : exists j : tjoint, tjoint_ok j /\ t_V j <> ((0,0,0),(0,0,0)).
Proof. exists (mkTJ (RotX ROps 1, (1,2,3)) (RotY ROps 2, (0,1,0)) (fun t => Pin_X ROps (1 + t*2)) (Hu ROps (Pin_H ROps) (2 :: nil))).
  split.
  - unfold tjoint_ok. cbn [t_XPF t_XMB t_X t_V fst].
    split; [ apply RotX_rot | ]. split; [ apply RotY_rot | ]. split; [ apply (Pin_rot (1 + 0 * 2)) | apply (Pin_jet 1 2) ].
  - cbn [t_V]. intros C. revert C. cunf. intros C. injection C; intros. lra. Qed.
