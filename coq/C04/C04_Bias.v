(** C04: station and frame tasks at acceleration level.  A station S fixed to a body at offset p (from the body origin,
    expressed in Ground) of a body moving with spatial velocity V = (w, v) and spatial acceleration A = (alpha, a) has
      frame acceleration  (alpha,  a + alpha x p + w x (w x p)).
    calcBiasForStationJacobian / calcBiasForFrameJacobian report this expression evaluated at the body's bias acceleration
    (the acceleration at udot = 0, i.e. calcBiasForSystemJacobian).  Since the body acceleration is J udot + bias, the
    frame acceleration is  (frame Jacobian row) udot + frame bias:  A_task = JF udot + JFdot u, and likewise for stations. *)
From Coq Require Import Reals.
Require Import Num Vec Tactics Spatial.
Local Open Scope R_scope.

Section Def. Context {T : Type} (K : NumOps T).
Definition frame_acc (p : Vec3 T) (V A : SpatialVec T) : SpatialVec T :=
  (fst A, v3_add K (v3_add K (snd A) (v3_cross K (fst A) p)) (v3_cross K (fst V) (v3_cross K (fst V) p))).
Definition station_acc (p : Vec3 T) (V A : SpatialVec T) : Vec3 T := snd (frame_acc p V A).
End Def.

(** A_task = (task Jacobian row) udot + task bias, whenever A_body = (J udot)_body + bias_body *)
Theorem frame_acc_split (p : Vec3 R) (V JUd B : SpatialVec R) :
  frame_acc ROps p V (sv_add ROps JUd B) = sv_add ROps (shiftVel ROps p JUd) (frame_acc ROps p V B).
Proof. destruct p as [[? ?] ?], V as [[[? ?] ?] [[? ?] ?]], JUd as [[[? ?] ?] [[? ?] ?]], B as [[[? ?] ?] [[? ?] ?]].
  cbv [frame_acc sv_add shiftVel v3_add v3_cross fst snd nadd nsub nmul ROps]. teq; ring. Qed.
Theorem station_acc_split (p : Vec3 R) (V JUd B : SpatialVec R) :
  station_acc ROps p V (sv_add ROps JUd B) = v3_add ROps (snd (shiftVel ROps p JUd)) (station_acc ROps p V B).
Proof. unfold station_acc. rewrite frame_acc_split. reflexivity. Qed.
(** at rest the bias of a task is the shifted body bias (no centripetal term) *)
Theorem frame_acc_at_rest (p : Vec3 R) (v : Vec3 R) (B : SpatialVec R) :
  frame_acc ROps p (v3_zero ROps, v) B = shiftVel ROps p B.
Proof. destruct p as [[? ?] ?], v as [[? ?] ?], B as [[[? ?] ?] [[? ?] ?]].
  cbv [frame_acc shiftVel v3_add v3_cross v3_zero fst snd nadd nsub nmul n0 ROps]. teq; ring. Qed.

(** ** the expression is the kinematic truth: the time derivative of the station velocity v + w x p of a station that
    moves with the body (dp/dt = w x p) is  dv + dw x p + w x (w x p) *)
From Coquelicot Require Import Coquelicot.
Definition c0 (a : Vec3 R) : R := fst (fst a).
Definition c1 (a : Vec3 R) : R := snd (fst a).
Definition c2 (a : Vec3 R) : R := snd a.
Definition vderiv (f : R -> Vec3 R) (t : R) (d : Vec3 R) : Prop :=
  is_derive (fun s => c0 (f s)) t (c0 d) /\ is_derive (fun s => c1 (f s)) t (c1 d) /\ is_derive (fun s => c2 (f s)) t (c2 d).

Lemma is_derive_pm (a b c d : R -> R) t a' b' c' d' :
  is_derive a t a' -> is_derive b t b' -> is_derive c t c' -> is_derive d t d' ->
  is_derive (fun s => a s * b s - c s * d s) t (a' * b t + a t * b' - (c' * d t + c t * d')).
Proof. intros Ha Hb Hc Hd.
  apply (is_derive_minus (fun s => a s * b s) (fun s => c s * d s)).
  - apply (is_derive_mult a b t a' b' Ha Hb). intros; apply Rmult_comm.
  - apply (is_derive_mult c d t c' d' Hc Hd). intros; apply Rmult_comm. Qed.

Theorem station_acc_is_derivative_of_station_velocity (w v p : R -> Vec3 R) (t : R) (dw dv : Vec3 R) :
  vderiv w t dw -> vderiv v t dv -> vderiv p t (v3_cross ROps (w t) (p t)) ->
  vderiv (fun s => v3_add ROps (v s) (v3_cross ROps (w s) (p s))) t (station_acc ROps (p t) (w t, v t) (dw, dv)).
Proof.
  intros [Hw0 [Hw1 Hw2]] [Hv0 [Hv1 Hv2]] [Hp0 [Hp1 Hp2]].
  unfold vderiv, station_acc, frame_acc in *. cbn [fst snd].
  assert (E : forall a b : Vec3 R, v3_add ROps a b = (c0 a + c0 b, c1 a + c1 b, c2 a + c2 b)) by (intros [[? ?] ?] [[? ?] ?]; reflexivity).
  assert (X : forall a b : Vec3 R, v3_cross ROps a b = (c1 a * c2 b - c2 a * c1 b, c2 a * c0 b - c0 a * c2 b, c0 a * c1 b - c1 a * c0 b)).
  { intros [[? ?] ?] [[? ?] ?]. cbv [v3_cross c0 c1 c2 fst snd nsub nmul ROps]. reflexivity. }
  split; [|split].
  - eapply is_derive_ext; [intros s; cbv beta; rewrite E, X; cbv [c0 fst snd]; reflexivity|].
    evar_last. { apply (is_derive_plus (fun s => c0 (v s)) _ t _ _ Hv0 (is_derive_pm _ _ _ _ t _ _ _ _ Hw1 Hp2 Hw2 Hp1)). }
    rewrite !E, !X in *. cbv [c0 c1 c2 fst snd plus] in *. cbn. ring.
  - eapply is_derive_ext; [intros s; cbv beta; rewrite E, X; cbv [c1 fst snd]; reflexivity|].
    evar_last. { apply (is_derive_plus (fun s => c1 (v s)) _ t _ _ Hv1 (is_derive_pm _ _ _ _ t _ _ _ _ Hw2 Hp0 Hw0 Hp2)). }
    rewrite !E, !X in *. cbv [c0 c1 c2 fst snd plus] in *. cbn. ring.
  - eapply is_derive_ext; [intros s; cbv beta; rewrite E, X; cbv [c2 fst snd]; reflexivity|].
    evar_last. { apply (is_derive_plus (fun s => c2 (v s)) _ t _ _ Hv2 (is_derive_pm _ _ _ _ t _ _ _ _ Hw0 Hp1 Hw1 Hp0)). }
    rewrite !E, !X in *. cbv [c0 c1 c2 fst snd plus] in *. cbn. ring.
Qed.
