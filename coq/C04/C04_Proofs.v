(** C04: Jacobian operators.  The O(n) operators of coq/Lib/MB.v, instantiated at the concrete spatial
    algebra over R (coq/Lib/Spatial.v).  Statements hold for EVERY tree and every per-body data
    (shift vectors, hinge columns of any number, inertias, speeds, forces). *)
From Coq Require Import List Reals Lra.
Import ListNotations.
Require Import Num Vec Tactics Tree MB MB_Proofs Spatial Spatial_Proofs.
Local Open Scope R_scope.

Section C04.
Context {X : Type} (nd : X -> node (SpatialVec R) (Vec3 R) (SpInertia (T:=R))).
Notation KR := (svK ROps).

(** <F, J u> = <J^T F, u> : the transpose operator is the exact adjoint, for every tree *)
Theorem mulJt_is_adjoint (u : X -> list R) (F : X -> SpatialVec R) (t : tree X) :
  tsum (tmap (fun xv => dot KR (F (fst xv)) (snd xv)) (mulJ KR nd u t))
  = tsum (tmap (fun xt => dotU KR (snd xt) (u (fst xt))) (mulJt KR nd F t)).
Proof. apply (mulJt_adjoint KR sv_s0 sv_sadd sv_smul sv_dot_add_l sv_dot_add_r sv_dot_scale_r sv_dot_zero_r sv_dot_zero_l sv_phi_adj). Qed.

(** station / frame rows are shifts of the body rows, and the corresponding transposes are adjoint:
    <F, shiftVel p V> = <shiftForce p F, V>  (the station Jacobian uses F = (0,f)) *)
Theorem frame_task_adjoint (p : Vec3 R) (F V : SpatialVec R) :
  sv_dot ROps F (shiftVel ROps p V) = sv_dot ROps (shiftForce ROps p F) V.
Proof. symmetry. apply (sv_phi_adj p F V). Qed.
Theorem station_task_adjoint (p f : Vec3 R) (V : SpatialVec R) :
  v3_dot ROps f (snd (shiftVel ROps p V)) = sv_dot ROps (shiftForce ROps p (v3_zero ROps, f)) V.
Proof. destruct p as [[? ?] ?], f as [[? ?] ?], V as [[[? ?] ?] [[? ?] ?]]. sunf. ring. Qed.

(** A = J udot + bias : the acceleration pass is affine in udot with linear part J; the bias
    (udot = 0) is what calcBiasForSystemJacobian reports.  One outward pass computing the three
    quantities side by side keeps the invariant A = Judot + B at every body. *)
Definition triple (ud : X -> list R) (e : X -> SpatialVec R) :
  (SpatialVec R * (SpatialVec R * SpatialVec R)) -> X -> (SpatialVec R * (SpatialVec R * SpatialVec R)) :=
  fun s x => let step (uu : list R) (ex : SpatialVec R) (Vp : SpatialVec R) :=
                 vadd KR (vadd KR (phiT KR (n_l (nd x)) Vp) (Hmul KR (n_H (nd x)) uu)) ex in
             (step (ud x) (e x) (fst s), (step (ud x) (vzero KR) (fst (snd s)), step [] (e x) (snd (snd s)))).
Lemma Hmul_nil_r {S V L I} (K : VSp S V L I) (H : list V) : Hmul K H [] = vzero K.
Proof. destruct H; reflexivity. Qed.
Lemma sv_add_eq (a c d : SpatialVec R) : a = sv_add ROps c d -> forall l h ex,
  vadd KR (vadd KR (phiT KR l a) h) ex =
  sv_add ROps (vadd KR (vadd KR (phiT KR l c) h) (vzero KR)) (vadd KR (vadd KR (phiT KR l d) (vzero KR)) ex).
Proof. intros -> l h ex. destruct l as [[? ?] ?], c as [[[? ?] ?] [[? ?] ?]], d as [[[? ?] ?] [[? ?] ?]],
  h as [[[? ?] ?] [[? ?] ?]], ex as [[[? ?] ?] [[? ?] ?]]. sunf. teq; ring. Qed.
Theorem acc_is_Judot_plus_bias (ud : X -> list R) (e : X -> SpatialVec R) (t : tree X) :
  Forall (fun xs => fst (snd xs) = sv_add ROps (fst (snd (snd xs))) (snd (snd (snd xs))))
         (flatten (outward (triple ud e) (vzero KR, (vzero KR, vzero KR)) t)).
Proof.
  apply (outward_inv (triple ud e) (fun s => fst s = sv_add ROps (fst (snd s)) (snd (snd s)))).
  - intros [a [c d]] x Hinv. cbn [fst snd] in *. unfold triple. cbn [fst snd].
    rewrite Hmul_nil_r. apply (sv_add_eq a c d Hinv).
  - cbn. sunf. teq; ring.
Qed.
(** the three components of that pass are exactly the three public passes *)
Theorem triple_fst ud e t : tmap (fun xs => (fst xs, fst (snd xs))) (outward (triple ud e) (vzero KR, (vzero KR, vzero KR)) t)
  = kin KR nd ud e (vzero KR) t.
Proof. apply (outward_conj (triple ud e) _ fst). reflexivity. Qed.
Theorem triple_J ud e t : tmap (fun xs => (fst xs, fst (snd (snd xs)))) (outward (triple ud e) (vzero KR, (vzero KR, vzero KR)) t)
  = mulJ KR nd ud t.
Proof. apply (outward_conj (triple ud e) _ (fun s => fst (snd s))). reflexivity. Qed.
Theorem triple_bias ud e t : tmap (fun xs => (fst xs, snd (snd (snd xs)))) (outward (triple ud e) (vzero KR, (vzero KR, vzero KR)) t)
  = kin KR nd (fun _ => []) e (vzero KR) t.
Proof. apply (outward_conj (triple ud e) _ (fun s => snd (snd s))). reflexivity. Qed.
End C04.

(** non-vacuity: a two-body chain with one and two mobilities *)
Example adjoint_on_concrete_chain :
  let nd := fun (i:nat) => mkNode (1,2,3) (if Nat.eqb i 0 then [((0,0,1),(1,0,0))] else [((1,0,0),(0,1,0)); ((0,1,0),(0,0,1))]) (2, (0,0,0), ((1,1,1),(0,0,0))) in
  let t := Node 0%nat [Node 1%nat []] in
  tsum (tmap (fun xv => dot (svK ROps) (((1,0,0),(0,2,0)) : SpatialVec R) (snd xv)) (mulJ (svK ROps) nd (fun i => if Nat.eqb i 0 then [3] else [4;5]) t)) = 18.
Proof. cbn. sunf. lra. Qed.
