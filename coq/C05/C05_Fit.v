(** C05 theorems: fit round trips.  The fitters are modelled as implemented (RigidBodyNodeSpec_<Type>.h,
    Rotation.cpp); atan2 is [Ratan2] (built from the stdlib's atan).  Angle extraction is proved on its regular
    branch only (the branch for |cos q1| <= 4 eps of convertRotationToBodyFixedXYZ is not modelled): those
    statements are named [_partial]. *)
From Coq Require Import ZArith Reals Lra Lia Psatz Nsatz List.
From Coquelicot Require Import Coquelicot.
Require Import Num Vec Tactics rot_gen C28_Defs C28_Proofs C05_Model C05_Rot C05_Jet C05_Proofs.
Local Open Scope R_scope.

Ltac funf := cbv [Slider_fitT Slider_fitV Translation_fitT Translation_fitV Screw_fitT Screw_fitV Screw_fitW Pin_fitW
  Planar_fitV Cylinder_fitV Gimbal_fitW Universal_fitW BendStretch_fitV Line_fitW Sph_fitV Sph_fitT Ball_fitW Free_fitV Ell_fitV_prefix Ell_fitU]; cunf.

(** ** atan2 recovers an angle from its cosine and sine *)
Lemma one_plus_sq c s : c <> 0 -> c*c + s*s = 1 -> 1 + Rsqr (s/c) = Rsqr (1/c).
Proof. intros Hc H. unfold Rsqr. field_simplify_eq; auto. cbv [Rpow_def.pow]. nsatz_or_fail. Qed.
Lemma Ratan2_cos_sin c s : c*c + s*s = 1 -> cos (Ratan2 s c) = c /\ sin (Ratan2 s c) = s.
Proof. intros H. unfold Ratan2. destruct (Rlt_dec 0 c) as [Hp|Hp].
  - assert (Hc : c <> 0) by lra. assert (Hi : 0 < 1/c) by (apply Rdiv_lt_0_compat; lra).
    rewrite cos_atan, sin_atan, (one_plus_sq c s Hc H), sqrt_Rsqr by lra. split; field; lra.
  - destruct (Rlt_dec c 0) as [Hn|Hn].
    + assert (Hc : c <> 0) by lra.
      assert (Hi : 1/c < 0) by (unfold Rdiv; rewrite Rmult_1_l; apply Rinv_lt_0_compat; auto).
      assert (Hs : sqrt (Rsqr (1/c)) = - (1/c)) by (rewrite sqrt_Rsqr_abs; apply Rabs_left; auto).
      destruct (Rle_dec 0 s).
      * rewrite neg_cos, neg_sin, cos_atan, sin_atan, (one_plus_sq c s Hc H), Hs. split; field; lra.
      * rewrite cos_minus, sin_minus, cos_PI, sin_PI, cos_atan, sin_atan, (one_plus_sq c s Hc H), Hs. split; field; lra.
    + assert (c = 0) by lra. subst c. assert (Hs : s*s = 1) by lra.
      destruct (Rlt_dec 0 s).
      * assert (s = 1) by nra. subst s. rewrite cos_PI2, sin_PI2. split; reflexivity.
      * destruct (Rlt_dec s 0).
        -- assert (s = -1) by nra. subst s. replace (- PI / 2) with (- (PI/2)) by field.
           rewrite cos_neg, sin_neg, cos_PI2, sin_PI2. split; lra.
        -- exfalso. assert (s = 0) by lra. subst s. lra.
Qed.
Lemma Ratan2_scale k s c : 0 < k -> Ratan2 (k*s) (k*c) = Ratan2 s c.
Proof. intros Hk. unfold Ratan2.
  destruct (Rlt_dec 0 c); destruct (Rlt_dec 0 (k*c)); try (exfalso; nra).
  - f_equal. field; lra.
  - destruct (Rlt_dec c 0); destruct (Rlt_dec (k*c) 0); try (exfalso; nra).
    + destruct (Rle_dec 0 s); destruct (Rle_dec 0 (k*s)); try (exfalso; nra); f_equal; f_equal; field; lra.
    + destruct (Rlt_dec 0 s); destruct (Rlt_dec 0 (k*s)); try (exfalso; nra); auto.
      destruct (Rlt_dec s 0); destruct (Rlt_dec (k*s) 0); try (exfalso; nra); auto.
Qed.

(** ** closed-form fitters *)
Lemma Slider_fit_roundtrip q : Slider_fitT (snd (Slider_X ROps q)) = q.
Proof. reflexivity. Qed.
Lemma Slider_fitV_roundtrip u : Slider_fitV (Hu ROps (Slider_H ROps) (u :: nil)) = u.
Proof. funf. ring. Qed.
Lemma Translation_fit_roundtrip q : Translation_fitT (snd (Translation_X ROps q)) = q.
Proof. reflexivity. Qed.
Lemma Translation_fitV_roundtrip u0 u1 u2 : Translation_fitV (Hu ROps (Translation_H ROps) (u0 :: u1 :: u2 :: nil)) = (u0,u1,u2).
Proof. funf. teq; ring. Qed.
Lemma Screw_fit_roundtrip pitch q : pitch <> 0 -> Screw_fitT ROps pitch (snd (Screw_X ROps pitch q)) = q.
Proof. intros. funf. field; auto. Qed.
Lemma Screw_fitV_roundtrip pitch u : pitch <> 0 -> Screw_fitV ROps pitch (Hu ROps (Screw_H ROps pitch) (u :: nil)) = u.
Proof. intros. funf. field; auto. Qed.
(** Pin from (c,s): the fitted angle reproduces the rotation *)
Lemma Pin_fit_roundtrip_cs c s : c*c + s*s = 1 -> Pin_X ROps (Pin_fitR ROps (Rz ROps c s)) = (Rz ROps c s, (0,0,0)).
Proof. intros H. unfold Pin_fitR, zangle. cbv [m33_e m33_r0 m33_r1 m33_r2 v3_0 v3_1 v3_2 Rz].
  change (natan2 ROps (nopp ROps (nopp ROps s)) c) with (Ratan2 (- - s) c). rewrite Ropp_involutive.
  destruct (Ratan2_cos_sin c s H) as [Hc Hs]. cunf. rewrite Hc, Hs. reflexivity. Qed.
Lemma Pin_fit_roundtrip q : Pin_X ROps (Pin_fitR ROps (fst (Pin_X ROps q))) = Pin_X ROps q.
Proof. sc q. apply (Pin_fit_roundtrip_cs (cos q) (sin q)). lra. Qed.
Lemma Pin_fitW_roundtrip u : Pin_fitW (Hu ROps (Pin_H ROps) (u :: nil)) = u.
Proof. funf. ring. Qed.
Lemma zangle_RotZ q : cos (zangle ROps (RotZ ROps q)) = cos q /\ sin (zangle ROps (RotZ ROps q)) = sin q.
Proof. sc q. unfold zangle, RotZ. cbv [m33_e m33_r0 m33_r1 m33_r2 v3_0 v3_1 v3_2 Rz].
  change (natan2 ROps (nopp ROps (nopp ROps (nsin ROps q))) (ncos ROps q)) with (Ratan2 (- - sin q) (cos q)). rewrite Ropp_involutive.
  apply Ratan2_cos_sin. lra. Qed.
Lemma Planar_fit_roundtrip q0 q1 q2 : Planar_X ROps (Planar_fitX ROps (Planar_X ROps (q0,q1,q2))) = Planar_X ROps (q0,q1,q2).
Proof. destruct (zangle_RotZ q0) as [Hc Hs]. unfold Planar_fitX. cbn [Planar_X fst snd v3_0 v3_1].
  set (th := zangle ROps (RotZ ROps q0)) in *. clearbody th. cbv [Planar_X RotZ Rz ncos nsin ROps]. rewrite Hc, Hs. reflexivity. Qed.
Lemma Planar_fitV_roundtrip u0 u1 u2 : Planar_fitV (Hu ROps (Planar_H ROps) (u0 :: u1 :: u2 :: nil)) = (u0,u1,u2).
Proof. funf. teq; ring. Qed.
Lemma Cylinder_fit_roundtrip q0 q1 : Cylinder_X ROps (Cylinder_fitX ROps (Cylinder_X ROps (q0,q1))) = Cylinder_X ROps (q0,q1).
Proof. destruct (zangle_RotZ q0) as [Hc Hs]. unfold Cylinder_fitX. cbn [Cylinder_X fst snd v3_2].
  set (th := zangle ROps (RotZ ROps q0)) in *. clearbody th. cbv [Cylinder_X RotZ Rz ncos nsin ROps]. rewrite Hc, Hs. reflexivity. Qed.
Lemma Cylinder_fitV_roundtrip u0 u1 : Cylinder_fitV (Hu ROps (Cylinder_H ROps) (u0 :: u1 :: nil)) = (u0,u1).
Proof. funf. teq; ring. Qed.

(** Gimbal / Bushing / Euler-mode Ball: x-y-z angle extraction, regular branch, cos q1 > 0 *)
Lemma xyz_angles_Rxyz_partial q0 q1 q2 : 0 < cos q1 ->
  let a := xyz_angles ROps (Rxyz ROps (q0,q1,q2)) in
  (cos (v3_0 a) = cos q0 /\ sin (v3_0 a) = sin q0) /\ (cos (v3_1 a) = cos q1 /\ sin (v3_1 a) = sin q1) /\ (cos (v3_2 a) = cos q2 /\ sin (v3_2 a) = sin q2).
Proof. intros Hc a. subst a. sc q0; sc q1; sc q2.
  unfold xyz_angles. cbv [v3_0 v3_1 v3_2]. unf. cbv [natan2 nsqrt ROps].
  match goal with |- context [sqrt ?x] => replace x with (Rsqr (cos q1)) by (unfold Rsqr; field_simplify_eq; cbv [Rpow_def.pow]; nsatz_or_fail) end.
  rewrite sqrt_Rsqr by lra.
  repeat split.
  - match goal with |- cos (Ratan2 ?y ?x) = _ => replace y with (cos q1 * sin q0) by ring; replace x with (cos q1 * cos q0) by ring end.
    rewrite Ratan2_scale by auto. apply Ratan2_cos_sin; lra.
  - match goal with |- sin (Ratan2 ?y ?x) = _ => replace y with (cos q1 * sin q0) by ring; replace x with (cos q1 * cos q0) by ring end.
    rewrite Ratan2_scale by auto. apply Ratan2_cos_sin; lra.
  - match goal with |- cos (Ratan2 ?y _) = _ => replace y with (sin q1) by ring end. apply Ratan2_cos_sin; lra.
  - match goal with |- sin (Ratan2 ?y _) = _ => replace y with (sin q1) by ring end. apply Ratan2_cos_sin; lra.
  - match goal with |- cos (Ratan2 ?y ?x) = _ => replace y with (cos q1 * sin q2) by ring; replace x with (cos q1 * cos q2) by ring end.
    rewrite Ratan2_scale by auto. apply Ratan2_cos_sin; lra.
  - match goal with |- sin (Ratan2 ?y ?x) = _ => replace y with (cos q1 * sin q2) by ring; replace x with (cos q1 * cos q2) by ring end.
    rewrite Ratan2_scale by auto. apply Ratan2_cos_sin; lra.
Qed.
Lemma Gimbal_fit_roundtrip_partial q0 q1 q2 : 0 < cos q1 ->
  Gimbal_X ROps (Gimbal_fitR ROps (fst (Gimbal_X ROps (q0,q1,q2)))) = Gimbal_X ROps (q0,q1,q2).
Proof. intros Hc. destruct (xyz_angles_Rxyz_partial q0 q1 q2 Hc) as [[A0 B0] [[A1 B1] [A2 B2]]].
  unfold Gimbal_fitR. cbn [Gimbal_X fst]. revert A0 B0 A1 B1 A2 B2.
  destruct (xyz_angles ROps (Rxyz ROps (q0, q1, q2))) as [[a0 a1] a2]. cbv [v3_0 v3_1 v3_2]. intros.
  cunf. rewrite A0, B0, A1, B1, A2, B2. reflexivity. Qed.
(** speeds of Gimbal / Bushing from an angular velocity: N_P(q) (H u) = u *)
Lemma Gimbal_fitW_roundtrip q0 q1 q2 u0 u1 u2 : cos q1 <> 0 ->
  Gimbal_fitW ROps (q0,q1,q2) (Hu ROps (Gimbal_H ROps (q0,q1,q2)) (u0 :: u1 :: u2 :: nil)) = (u0,u1,u2).
Proof. intros Hc. sc q0; sc q1. funf. teq; field_simplify_eq; auto; cbv [Rpow_def.pow]; nsatz_or_fail. Qed.
Lemma Universal_fitW_roundtrip q0 q1 u0 u1 :
  Universal_fitW ROps (q0,q1) (Hu ROps (Universal_H ROps (q0,q1)) (u0 :: u1 :: nil)) = (u0,u1).
Proof. sc q0; sc q1. funf. teq; try ring; nsatz_or_fail. Qed.
Lemma BendStretch_fitV_roundtrip q0 q1 u0 u1 : q1 <> 0 ->
  BendStretch_fitV ROps (q0,q1) (Hu ROps (BendStretch_H ROps (q0,q1)) (u0 :: u1 :: nil)) = (u0,u1).
Proof. intros Hq. sc q0. funf. teq; field_simplify_eq; auto; cbv [Rpow_def.pow]; nsatz_or_fail. Qed.
Lemma Ball_fitW_roundtrip u0 u1 u2 : Ball_fitW (Hu ROps (Ball_H ROps) (u0 :: u1 :: u2 :: nil)) = (u0,u1,u2).
Proof. funf. teq; ring. Qed.
Lemma Free_fitV_roundtrip u0 u1 u2 u3 u4 u5 : Free_fitV (Hu ROps (Free_H ROps) (u0::u1::u2::u3::u4::u5::nil)) = ((u0,u1,u2),(u3,u4,u5)).
Proof. funf. teq; ring. Qed.
Lemma Line_fitW_roundtrip R u0 u1 : is_rot R -> Line_fitW ROps R (Hu ROps (Line_H ROps R) (u0 :: u1 :: nil)) = (u0,u1).
Proof. intros HR. generalize (rot_TM R HR). destruct R as [[[[a b] c] [[d e] f]] [[g h] k]]. funf. intros C.
  injection C; clear C; intros. teq; nsatz_or_fail. Qed.
(** SphericalCoords (after the committed fix e26a1a3b): all options *)
Lemma Sph_fitV_roundtrip az0 s0 ze0 s1 ax s2 q0 q1 q2 u0 u1 u2 : s0*s0 = 1 -> s1*s1 = 1 -> s2*s2 = 1 ->
  let o := mkSc az0 s0 ze0 s1 ax s2 in
  Sph_fitV ROps o (q0,q1,q2) (Hu ROps (Sph_H ROps o (q0,q1,q2)) (u0 :: u1 :: u2 :: nil)) = (u0,u1,u2).
Proof. intros H0 H1 H2 o; subst o. sc (s0*q0+az0); sc (s1*q1+ze0). destruct ax; funf; teq; nsatz_or_fail. Qed.
Lemma Sph_fitT_roundtrip az0 s0 ze0 s1 ax s2 q0 q1 q2 : s2*s2 = 1 ->
  let o := mkSc az0 s0 ze0 s1 ax s2 in Sph_fitT ROps o (q0,q1,q2) (snd (Sph_X ROps o (q0,q1,q2))) = q2.
Proof. intros H2 o; subst o. sc (s0*q0+az0); sc (s1*q1+ze0). destruct ax; funf; nsatz_or_fail. Qed.

(** ** Ball / Free from a quaternion: Spurrier's extraction (Rotation::convertRotationToQuaternion, all four
    branches, with the normalisation and the canonical sign) reproduces the rotation of every unit quaternion *)
Lemma quat_branch_Rquat (k : nat) e0 e1 e2 e3' : e0*e0+e1*e1+e2*e2+e3'*e3' = 1 ->
  quat_branch ROps k (Rquat ROps (e0,e1,e2,e3')) =
  v4_scale ROps (4 * match k with O => e0 | S O => e1 | S (S O) => e2 | _ => e3' end) (e0,e1,e2,e3').
Proof. intros H. destruct k as [|[|[|k]]]; cbv [quat_branch]; unf; teq; nsatz_or_fail. Qed.
Lemma quat_pick_nonzero e0 e1 e2 e3' : e0*e0+e1*e1+e2*e2+e3'*e3' = 1 ->
  match quat_pick ROps (Rquat ROps (e0,e1,e2,e3')) with O => e0 | S O => e1 | S (S O) => e2 | _ => e3' end <> 0.
Proof. intros H. cbv [quat_pick]. unf. cbv [Rleb].
  generalize (Rle_0_sqr e0) (Rle_0_sqr e1) (Rle_0_sqr e2) (Rle_0_sqr e3'); unfold Rsqr; intros S0 S1 S2 S3.
  repeat match goal with |- context [Rle_dec ?a ?b] => destruct (Rle_dec a b) end; cbn [andb];
  (intro Hz; match type of Hz with ?x = 0 => subst x end; nra). Qed.
Lemma quat_normalise_same_rotation q : v4_normSqr ROps q <> 0 -> quatR ROps (quat_normalise ROps q) = quatR ROps q.
Proof. intros Hn. unfold quat_normalise. apply quatR_scale; auto.
  assert (Hs : 0 < sqrt (v4_normSqr ROps q)).
  { apply sqrt_lt_R0. destruct q as [[[a b] c] d]. revert Hn. vunf. intros Hn. nra. }
  change (nsqrt ROps (v4_normSqr ROps q)) with (sqrt (v4_normSqr ROps q)). set (s := sqrt (v4_normSqr ROps q)) in *. clearbody s.
  change (ndiv ROps (n1 ROps)) with (Rdiv 1). change (nopp ROps s) with (- s).
  destruct (nltb ROps (v4_0 q) (n0 ROps)); unfold Rdiv; rewrite Rmult_1_l; apply Rinv_neq_0_compat; lra. Qed.
Theorem Ball_fit_roundtrip_q e0 e1 e2 e3' : e0*e0+e1*e1+e2*e2+e3'*e3' = 1 ->
  quatR ROps (Ball_fitRq ROps (Rquat ROps (e0,e1,e2,e3'))) = Rquat ROps (e0,e1,e2,e3').
Proof. intros H. unfold Ball_fitRq, quat_of_R.
  pose proof (quat_pick_nonzero e0 e1 e2 e3' H) as Hk.
  rewrite (quat_branch_Rquat _ e0 e1 e2 e3' H). set (k := match quat_pick ROps (Rquat ROps (e0, e1, e2, e3')) with O => e0 | S O => e1 | S (S O) => e2 | _ => e3' end) in *.
  assert (Hn : v4_normSqr ROps (e0,e1,e2,e3') = 1) by (vunf; lra).
  assert (H4 : 4 * k <> 0) by lra.
  rewrite quat_normalise_same_rotation.
  - rewrite quatR_scale by (auto; rewrite Hn; lra). apply quatR_unit; auto.
  - revert Hn. vunf. intros Hn. replace (4 * k * e0 * (4 * k * e0) + 4 * k * e1 * (4 * k * e1) + 4 * k * e2 * (4 * k * e2) + 4 * k * e3' * (4 * k * e3'))
      with ((4*k)*(4*k)*(e0 * e0 + e1 * e1 + e2 * e2 + e3' * e3')) by ring. rewrite Hn. nra. Qed.
(** Free adds the translation, which is fitted exactly *)
Theorem Free_fit_roundtrip_q e0 e1 e2 e3' p : e0*e0+e1*e1+e2*e2+e3'*e3' = 1 ->
  let X := Free_Xq ROps (e0,e1,e2,e3') p in
  Free_Xq ROps (Ball_fitRq ROps (Rquat ROps (e0,e1,e2,e3'))) (snd X) = X.
Proof. intros H X; subst X. unfold Free_Xq. cbn [snd]. rewrite (Ball_fit_roundtrip_q e0 e1 e2 e3' H).
  rewrite quatR_unit by (vunf; lra). reflexivity. Qed.

(** ** Ellipsoid (after fix 7c1ce7f5): transform and velocity fits are the rotational fits and are exact *)
Theorem Ell_fitU_roundtrip r R u0 u1 u2 : Ell_fitU (Hu ROps (Ell_H ROps r R) (u0 :: u1 :: u2 :: nil)) = (u0,u1,u2).
Proof. destruct r as [[a b] c]. destruct R as [[[[r0 r1] r2] [[r3 r4] r5]] [[r6 r7] r8]]. funf. teq; ring. Qed.
Theorem Ell_fit_roundtrip_q r e0 e1 e2 e3' : e0*e0+e1*e1+e2*e2+e3'*e3' = 1 ->
  Ell_Xq ROps r (Ball_fitRq ROps (fst (Ell_Xq ROps r (e0,e1,e2,e3')))) = Ell_Xq ROps r (e0,e1,e2,e3').
Proof. intros H. unfold Ell_Xq. cbn [fst]. rewrite (quatR_unit (e0,e1,e2,e3')) by (vunf; lra).
  rewrite (Ball_fit_roundtrip_q e0 e1 e2 e3' H). reflexivity. Qed.
Lemma Ell_fit_roundtrip_e_partial r q0 q1 q2 : 0 < cos q1 ->
  Ell_Xe ROps r (xyz_angles ROps (fst (Ell_Xe ROps r (q0,q1,q2)))) = Ell_Xe ROps r (q0,q1,q2).
Proof. intros Hc. pose proof (Gimbal_fit_roundtrip_partial q0 q1 q2 Hc) as G. unfold Gimbal_fitR, Gimbal_X in G. cbn [fst] in G.
  apply (f_equal fst) in G. cbn [fst] in G. unfold Ell_Xe. cbn [fst]. rewrite G. reflexivity. Qed.

(** ** BendStretch (after fix c1dcbf40): the transform fit reproduces every representable pose, negative stretch included
    (partial: the branch |p| < 4 eps of the translation fit is not modelled, so q1 <> 0) *)
Lemma npi_is_PI : npi ROps = PI.
Proof. unfold npi. change (natan2 ROps (n0 ROps) (nopp ROps (n1 ROps))) with (Ratan2 0 (-1)). unfold Ratan2.
  destruct (Rlt_dec 0 (-1)); [lra|]. destruct (Rlt_dec (-1) 0); [|lra]. destruct (Rle_dec 0 0); [|lra].
  replace (0 / -1) with 0 by field. rewrite atan_0. ring. Qed.
Lemma BendStretch_fit_roundtrip_partial q0 q1 : q1 <> 0 ->
  BendStretch_X ROps (BendStretch_fitX ROps (BendStretch_X ROps (q0,q1))) = BendStretch_X ROps (q0,q1).
Proof. intros Hq. destruct (zangle_RotZ q0) as [Hc Hs]. sc q0.
  unfold BendStretch_fitX. cbn [BendStretch_X fst snd]. set (cur := zangle ROps (RotZ ROps q0)) in *. clearbody cur.
  unfold BendStretch_fitT. rewrite npi_is_PI.
  match goal with |- context [m33_mulv ROps (RotZ ROps q0) ?v] =>
    assert (Ep : m33_mulv ROps (RotZ ROps q0) v = (q1 * cos q0, q1 * sin q0, 0)) by (cunf; teq; ring); rewrite Ep; clear Ep end. cbv [v3_0 v3_1]. cbv [natan2 nsqrt nleb nltb ncos nsub nadd nmul nopp n0 ROps].
  replace (q1 * cos q0 * (q1 * cos q0) + q1 * sin q0 * (q1 * sin q0)) with (Rsqr q1)
    by (unfold Rsqr; transitivity (q1 * q1 * (sin q0 * sin q0 + cos q0 * cos q0)); [ rewrite H; ring | ring ]).
  rewrite sqrt_Rsqr_abs.
  destruct (Rlt_dec 0 q1) as [Hp|Hp].
  - (* positive stretch: the fitted angle has the cosine and sine of q0 *)
    rewrite (Ratan2_scale q1 (sin q0) (cos q0) Hp). destruct (Ratan2_cos_sin (cos q0) (sin q0) ltac:(lra)) as [Ca Sa].
    set (a := Ratan2 (sin q0) (cos q0)) in *. clearbody a.
    assert (Hcos : cos (a - cur) = 1) by (rewrite cos_minus, Ca, Sa, Hc, Hs; lra).
    rewrite Hcos. unfold Rleb. destruct (Rle_dec 0 1); [|lra]. rewrite Rabs_right by lra.
    cunf. rewrite Ca, Sa. teq; ring.
  - (* negative stretch: atan2 gives the opposite direction, the fit turns it back by pi and negates d *)
    assert (Hn : 0 < - q1) by lra.
    replace (q1 * sin q0) with ((- q1) * (- sin q0)) by ring. replace (q1 * cos q0) with ((- q1) * (- cos q0)) by ring.
    rewrite (Ratan2_scale (- q1) (- sin q0) (- cos q0) Hn). destruct (Ratan2_cos_sin (- cos q0) (- sin q0) ltac:(lra)) as [Ca Sa].
    set (a := Ratan2 (- sin q0) (- cos q0)) in *. clearbody a.
    assert (Hcos : cos (a - cur) = -1) by (rewrite cos_minus, Ca, Sa, Hc, Hs; lra).
    rewrite Hcos. unfold Rleb. destruct (Rle_dec 0 (-1)); [lra|]. rewrite Rabs_left by lra. rewrite Ropp_involutive.
    unfold Rltb. destruct (Rlt_dec 0 a).
    + cunf. rewrite cos_minus, sin_minus, cos_PI, sin_PI, Ca, Sa. teq; ring.
    + cunf. rewrite neg_cos, neg_sin, Ca, Sa. teq; ring.
Qed.

(** ** regression lemmas: the fitters as they were BEFORE the fixes 7c1ce7f5 / c1dcbf40 did not have these properties
    (the witnesses are run as fixed regression cases by harness/C05_probe.cpp and must now pass on the code) *)
(** pre-fix BendStretch: a representable pose with negative stretch was not reproduced (the translation fit returned
    (atan2(p_y,p_x), |p|), i.e. the angle off by pi) *)
Lemma BendStretch_fit_prefix_negative_stretch_refuted :
  exists q0 q1, BendStretch_X ROps (BendStretch_fitT_prefix ROps (snd (BendStretch_X ROps (q0,q1)))) <> BendStretch_X ROps (q0,q1).
Proof. exists 0, (-1). unfold BendStretch_fitT_prefix. cbn [BendStretch_X snd]. cbv [RotZ Rz ncos nsin ROps]. rewrite cos_0, sin_0. vunf.
  replace (1 * -1 + - 0 * 0 + 0 * 0) with (-1) by ring. replace (0 * -1 + 1 * 0 + 0 * 0) with 0 by ring. replace (0 * -1 + 0 * 0 + 1 * 0) with 0 by ring.
  replace (-1 * -1 + 0 * 0) with 1 by ring. rewrite sqrt_1.
  assert (E : Ratan2 0 (-1) = PI).
  { unfold Ratan2. destruct (Rlt_dec 0 (-1)); [lra|]. destruct (Rlt_dec (-1) 0); [|lra]. destruct (Rle_dec 0 0); [|lra].
    replace (0 / -1) with 0 by field. rewrite atan_0. ring. }
  rewrite E. cbv [BendStretch_X RotZ Rz ncos nsin ROps]. rewrite cos_PI. intros C. injection C; intros. lra. Qed.
(** pre-fix Ellipsoid: the velocity fit (angular fit overwritten by a linear fit that is only right for a sphere) did not
    reproduce the speeds of a non-spherical ellipsoid.  Witness: semi-axes (1,2,3), F and M aligned, u = (1,0,0). *)
Lemma Ell_fitV_prefix_refuted : exists r R u0 u1 u2, is_rot R /\
  Ell_fitV_prefix ROps r R (Hu ROps (Ell_H ROps r R) (u0 :: u1 :: u2 :: nil)) <> (u0,u1,u2).
Proof. exists (1,2,3), (m33_id ROps), 1, 0, 0. split; [ apply rot_id | ]. funf. intros C. injection C; intros. lra. Qed.
(** ... and it did for a sphere when M is not rotated out of reach (r_M.z = radius <> 0) *)
Lemma Ell_fitV_prefix_sphere_roundtrip a R u0 u1 u2 : a <> 0 -> is_rot R ->
  Ell_fitV_prefix ROps (a,a,a) R (Hu ROps (Ell_H ROps (a,a,a) R) (u0 :: u1 :: u2 :: nil)) = (u0,u1,u2).
Proof. intros Ha HR. generalize (rot_TM R HR) (rot_cof R HR). destruct HR as [HR HD]. revert HR HD.
  destruct R as [[[[r0 r1] r2] [[r3 r4] r5]] [[r6 r7] r8]]. cbv [cof m33_det]. funf. intros HR HD C K.
  injection C; clear C; intros. injection K; clear K; intros. injection HR; clear HR; intros.
  teq; (field_simplify_eq; [ cbv [Rpow_def.pow]; nsatz_or_fail | intros E; apply Ha; nsatz_or_fail ]). Qed.
