(** C05/C03 shared proof library: rotations, "pose X(t) moves with spatial velocity V" as Coquelicot
    derivatives (entrywise, at t = 0), and the product / inverse rules for transform composition
    proved once for arbitrary differentiable poses. *)
From Coq Require Import ZArith Reals Lra Lia Psatz Nsatz List.
From Coquelicot Require Import Coquelicot.
Require Import Num Vec Tactics rot_gen C28_Defs C28_Proofs C05_Model C05_Rot.
Local Open Scope R_scope.

(** ** entrywise derivatives at t = 0 *)
Definition dM (F : R -> Mat33 R) (D : Mat33 R) : Prop :=
  forall i j, (i < 3)%nat -> (j < 3)%nat -> is_derive (fun t => e33 i j (F t)) 0 (e33 i j D).
Definition dV (f : R -> Vec3 R) (d : Vec3 R) : Prop :=
  forall i, (i < 3)%nat -> is_derive (fun t => e3 i (f t)) 0 (e3 i d).
(** the pose X(t) = (R(t), p(t)) moves at t = 0 with spatial velocity V = (w, v):  R' = [w]x R,  p' = v *)
Definition moves_with (X : R -> Transform R) (V : SpatialVec R) : Prop :=
  dM (fun t => fst (X t)) (m33_mul ROps (m33_crossMat ROps (fst V)) (fst (X 0))) /\ dV (fun t => snd (X t)) (snd V).

Lemma isd_mult f g x df dg : is_derive f x df -> is_derive g x dg -> is_derive (fun t => f t * g t) x (df * g x + f x * dg).
Proof. intros Hf Hg. apply (is_derive_mult f g x df dg); auto. intros; apply Rmult_comm. Qed.
Lemma isd_plus f g x df dg : is_derive f x df -> is_derive g x dg -> is_derive (fun t => f t + g t) x (df + dg).
Proof. intros Hf Hg. apply (is_derive_plus f g x df dg); auto. Qed.
Lemma isd_minus f g x df dg : is_derive f x df -> is_derive g x dg -> is_derive (fun t => f t - g t) x (df - dg).
Proof. intros Hf Hg. apply (is_derive_minus f g x df dg); auto. Qed.
Lemma isd_opp f x df : is_derive f x df -> is_derive (fun t => - f t) x (- df).
Proof. intros Hf. apply (is_derive_opp f x df); auto. Qed.
Lemma isd_eq (f : R -> R) (x l l' : R) : is_derive f x l' -> l' = l -> is_derive f x l.
Proof. intros H E; subst; auto. Qed.

Lemma e33_mul i j A B : (i < 3)%nat -> (j < 3)%nat ->
  e33 i j (m33_mul ROps A B) = e33 i 0 A * e33 0 j B + e33 i 1 A * e33 1 j B + e33 i 2 A * e33 2 j B.
Proof. intros Hi Hj. destruct A as [[[[a b] c] [[d e] f]] [[g h] k]]. destruct B as [[[[a' b'] c'] [[d' e'] f']] [[g' h'] k']].
  fin3 i; fin3 j; unfold e33; vunf; ring. Qed.
Lemma e3_mulv i A v : (i < 3)%nat -> e3 i (m33_mulv ROps A v) = e33 i 0 A * e3 0 v + e33 i 1 A * e3 1 v + e33 i 2 A * e3 2 v.
Proof. intros Hi. destruct A as [[[[a b] c] [[d e] f]] [[g h] k]]. d3v v. fin3 i; unfold e33, e3; vunf; ring. Qed.
Lemma e33_T i j A : (i < 3)%nat -> (j < 3)%nat -> e33 i j (m33_T A) = e33 j i A.
Proof. intros Hi Hj. destruct A as [[[[a b] c] [[d e] f]] [[g h] k]]. fin3 i; fin3 j; reflexivity. Qed.
Lemma e33_add i j A B : (i < 3)%nat -> (j < 3)%nat -> e33 i j (m33_add ROps A B) = e33 i j A + e33 i j B.
Proof. intros Hi Hj. destruct A as [[[[a b] c] [[d e] f]] [[g h] k]]. destruct B as [[[[a' b'] c'] [[d' e'] f']] [[g' h'] k']].
  fin3 i; fin3 j; reflexivity. Qed.
Lemma e3_add i a b : (i < 3)%nat -> e3 i (v3_add ROps a b) = e3 i a + e3 i b.
Proof. intros Hi. d3v a; d3v b. fin3 i; reflexivity. Qed.
Lemma e3_neg i a : (i < 3)%nat -> e3 i (v3_neg ROps a) = - e3 i a.
Proof. intros Hi. d3v a. fin3 i; reflexivity. Qed.
Lemma dM_const A : dM (fun _ => A) (m33_sub ROps A A).
Proof. intros i j Hi Hj. destruct A as [[[[a b] c] [[d e] f]] [[g h] k]].
  fin3 i; fin3 j; unfold e33; vunf; (eapply isd_eq; [ apply @is_derive_const | unfold zero; simpl; ring ]). Qed.
Lemma dV_const a : dV (fun _ => a) (v3_sub ROps a a).
Proof. intros i Hi. d3v a. fin3 i; unfold e3; vunf; (eapply isd_eq; [ apply @is_derive_const | unfold zero; simpl; ring ]). Qed.
Lemma dM_ext F G D : (forall t, F t = G t) -> dM F D -> dM G D.
Proof. intros E H i j Hi Hj. eapply is_derive_ext; [ | apply (H i j Hi Hj) ]. intros t; simpl. rewrite E; reflexivity. Qed.
Lemma dV_ext f g d : (forall t, f t = g t) -> dV f d -> dV g d.
Proof. intros E H i Hi. eapply is_derive_ext; [ | apply (H i Hi) ]. intros t; simpl. rewrite E; reflexivity. Qed.
Lemma dM_eq F D D' : dM F D' -> D' = D -> dM F D.
Proof. intros; subst; auto. Qed.
Lemma dV_eq f d d' : dV f d' -> d' = d -> dV f d.
Proof. intros; subst; auto. Qed.

Lemma isd_dot3 (a1 b1 a2 b2 a3 b3 : R -> R) x da1 db1 da2 db2 da3 db3 :
  is_derive a1 x da1 -> is_derive b1 x db1 -> is_derive a2 x da2 -> is_derive b2 x db2 -> is_derive a3 x da3 -> is_derive b3 x db3 ->
  is_derive (fun t => a1 t * b1 t + a2 t * b2 t + a3 t * b3 t) x
            ((da1 * b1 x + a1 x * db1) + (da2 * b2 x + a2 x * db2) + (da3 * b3 x + a3 x * db3)).
Proof. intros. apply (isd_plus (fun t => a1 t * b1 t + a2 t * b2 t) (fun t => a3 t * b3 t)).
  apply (isd_plus (fun t => a1 t * b1 t) (fun t => a2 t * b2 t)). all: apply isd_mult; auto. Qed.

(** product rule for matrix products and matrix-vector products *)
Lemma dM_mul A B A' B' : dM A A' -> dM B B' ->
  dM (fun t => m33_mul ROps (A t) (B t)) (m33_add ROps (m33_mul ROps A' (B 0)) (m33_mul ROps (A 0) B')).
Proof. intros HA HB i j Hi Hj.
  eapply is_derive_ext; [ intros t; symmetry; apply (e33_mul i j (A t) (B t) Hi Hj) | ].
  rewrite e33_add, !e33_mul by auto.
  eapply isd_eq; [ apply (isd_dot3 (fun t => e33 i 0 (A t)) (fun t => e33 0 j (B t)) (fun t => e33 i 1 (A t)) (fun t => e33 1 j (B t))
                                    (fun t => e33 i 2 (A t)) (fun t => e33 2 j (B t)));
                   [ apply HA | apply HB | apply HA | apply HB | apply HA | apply HB ]; auto; lia | ring ]. Qed.
Lemma dM_mulv A b A' b' : dM A A' -> dV b b' ->
  dV (fun t => m33_mulv ROps (A t) (b t)) (v3_add ROps (m33_mulv ROps A' (b 0)) (m33_mulv ROps (A 0) b')).
Proof. intros HA Hb i Hi.
  eapply is_derive_ext; [ intros t; symmetry; apply (e3_mulv i (A t) (b t) Hi) | ].
  rewrite e3_add, !e3_mulv by auto.
  eapply isd_eq; [ apply (isd_dot3 (fun t => e33 i 0 (A t)) (fun t => e3 0 (b t)) (fun t => e33 i 1 (A t)) (fun t => e3 1 (b t))
                                    (fun t => e33 i 2 (A t)) (fun t => e3 2 (b t)));
                   [ apply HA | apply Hb | apply HA | apply Hb | apply HA | apply Hb ]; auto; lia | ring ]. Qed.
Lemma dV_add a b a' b' : dV a a' -> dV b b' -> dV (fun t => v3_add ROps (a t) (b t)) (v3_add ROps a' b').
Proof. intros Ha Hb i Hi. eapply is_derive_ext; [ intros t; symmetry; apply (e3_add i (a t) (b t) Hi) | ].
  rewrite e3_add by auto. apply (isd_plus (fun t => e3 i (a t)) (fun t => e3 i (b t))); auto. Qed.
Lemma dV_neg a a' : dV a a' -> dV (fun t => v3_neg ROps (a t)) (v3_neg ROps a').
Proof. intros Ha i Hi. eapply is_derive_ext; [ intros t; symmetry; apply (e3_neg i (a t) Hi) | ].
  rewrite e3_neg by auto. apply (isd_opp (fun t => e3 i (a t))); auto. Qed.
Lemma dM_T A A' : dM A A' -> dM (fun t => m33_T (A t)) (m33_T A').
Proof. intros HA i j Hi Hj. eapply is_derive_ext; [ intros t; symmetry; apply (e33_T i j (A t) Hi Hj) | ].
  rewrite e33_T by auto. apply HA; auto. Qed.

(** ** composition of moving poses: product rule for Transform composition.
    X = pose of frame B in A moving with V (in A), Y = pose of C in B moving with W (expressed in B):
    X o Y moves with  ( w_X + R_X w_Y ,  v_X + w_X x (R_X p_Y) + R_X v_Y ). *)
Definition compose_vel (X0 Y0 : Transform R) (V W : SpatialVec R) : SpatialVec R :=
  (v3_add ROps (fst V) (m33_mulv ROps (fst X0) (fst W)),
   v3_add ROps (v3_add ROps (snd V) (v3_cross ROps (fst V) (m33_mulv ROps (fst X0) (snd Y0)))) (m33_mulv ROps (fst X0) (snd W))).

Theorem moves_compose X Y V W : is_rot (fst (X 0)) -> moves_with X V -> moves_with Y W ->
  moves_with (fun t => xf_compose ROps (X t) (Y t)) (compose_vel (X 0) (Y 0) V W).
Proof. intros HR [HXR HXp] [HYR HYp]. split.
  - eapply dM_eq; [ apply (dM_mul (fun t => fst (X t)) (fun t => fst (Y t)) _ _ HXR HYR) | ]. cbv beta.
    unfold compose_vel. cbn [fst snd xf_compose].
    generalize (rot_cross (fst (X 0)) (fst W) HR).
    destruct (X 0) as [A a]. destruct (Y 0) as [B b]. destruct V as [wv vv]. destruct W as [ww vw]. cbn [fst snd].
    destruct A as [[[[a0 b0] c0] [[d0 e0] f0]] [[g0 h0] k0]]. destruct B as [[[[a' b'] c'] [[d' e'] f']] [[g' h'] k']].
    d3v wv; d3v ww. vunf. intros C. injection C; clear C; intros. teq; nsatz_or_fail.
  - cbn [xf_compose xf_apply fst snd]. unfold xf_apply.
    eapply dV_eq; [ apply dV_add; [ apply HXp | apply (dM_mulv (fun t => fst (X t)) (fun t => snd (Y t)) _ _ HXR HYp) ] | ].
    cbv beta. unfold compose_vel. cbn [fst snd].
    destruct (X 0) as [A a]. destruct (Y 0) as [B b]. destruct V as [wv vv]. destruct W as [ww vw]. cbn [fst snd].
    destruct A as [[[[a0 b0] c0] [[d0 e0] f0]] [[g0 h0] k0]]. d3v b; d3v wv; d3v vv; d3v vw. vunf. teq; ring.
Qed.

(** a constant pose moves with zero velocity *)
Lemma moves_const X0 : moves_with (fun _ => X0) ((0,0,0),(0,0,0)).
Proof. split; cbn [fst snd].
  - eapply dM_eq; [ apply dM_const | ]. destruct X0 as [[[[[a b] c] [[d e] f]] [[g h] k]] p]. vunf. teq; ring.
  - eapply dV_eq; [ apply dV_const | ]. destruct X0 as [A [[x y] z]]. vunf. teq; ring. Qed.

(** inverse rule: if X moves with V then X^-1 moves with the reversed velocity of
    RigidBodyNode::reverseSpatialVelocity / calcReverseMobilizerH_FM:
      w' = -(R' w),  v' = -p' x w' - R' v   with (R',p') = X^-1 *)
Theorem moves_inv X V : is_rot (fst (X 0)) -> moves_with X V ->
  moves_with (fun t => rev_X ROps (X t)) (rev_col ROps (rev_X ROps (X 0)) V).
Proof. intros HR [HXR HXp]. split.
  - unfold rev_X, xf_inv. cbn [fst snd].
    eapply dM_eq; [ apply (dM_T _ _ HXR) | ].
    generalize (rot_cross _ (fst V) (rot_T _ HR)).
    unfold rev_col. cbn [fst snd].
    destruct (X 0) as [A a]. destruct V as [wv vv]. cbn [fst snd].
    destruct A as [[[[a0 b0] c0] [[d0 e0] f0]] [[g0 h0] k0]]. d3v wv. vunf. intros C. injection C; clear C; intros. teq; nsatz_or_fail.
  - unfold rev_X, xf_inv. cbn [fst snd]. unfold m33_Tmulv.
    eapply dV_eq; [ apply dV_neg; apply (dM_mulv (fun t => m33_T (fst (X t))) (fun t => snd (X t)) _ _ (dM_T _ _ HXR) HXp) | ].
    cbv beta. unfold rev_col. cbn [fst snd].
    generalize (rot_cross_v _ (fst V) (snd (X 0)) (rot_T _ HR)).
    destruct (X 0) as [A a]. destruct V as [wv vv]. cbn [fst snd].
    destruct A as [[[[a0 b0] c0] [[d0 e0] f0]] [[g0 h0] k0]]. d3v a; d3v wv; d3v vv. vunf. intros C. injection C; clear C; intros. teq; nsatz_or_fail.
Qed.

(** inverse is a two-sided inverse for rigid transforms *)
Lemma inv_compose_l X : is_rot (fst X) -> xf_compose ROps (rev_X ROps X) X = (I33, (0,0,0)).
Proof. intros HR. generalize (rot_TM _ HR). destruct X as [A p]. destruct A as [[[[a0 b0] c0] [[d0 e0] f0]] [[g0 h0] k0]]. d3v p.
  unfold rev_X, I33. vunf. intros C. injection C; clear C; intros. teq; nsatz_or_fail. Qed.
Lemma inv_compose_r X : is_rot (fst X) -> xf_compose ROps X (rev_X ROps X) = (I33, (0,0,0)).
Proof. intros [HR _]. destruct X as [A p]. destruct A as [[[[a0 b0] c0] [[d0 e0] f0]] [[g0 h0] k0]]. d3v p. revert HR.
  unfold rev_X, I33. vunf. intros HR. injection HR; clear HR; intros. teq; nsatz_or_fail. Qed.
