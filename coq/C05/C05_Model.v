(** C05: catalogue of the simbody built-in mobilizers, written from the PUBLIC documentation
    (Simbody/include/simbody/internal/MobilizedBody_*.h), generic in [NumOps]:
      X_FM(q) = (R_FM, p_FM)     pose of the outboard frame M in the inboard frame F
      H_FM(q)                     one spatial vector (w,v) per generalized speed, expressed in F:
                                  V_FM = sum_i u_i H_i = (angular velocity of M in F, velocity of Mo in F)
      N(q), NInv(q), NDot(q,qdot) qdot = N u
    plus the reversed mobilizer (RigidBodyNode.h / RigidBodyNodeSpec.cpp) and the closed-form
    fitters (setQToFit.., setUToFit..).  No proofs here; theorems are in C05_Proofs.v (over ROps);
    the extracted float instance runs against the compiled code in checks/C05.py, checks/C03.py.
    The N / NInv / NDot blocks of the Euler-angle and quaternion coordinates are the helpers of
    Rotation.h, regenerated from source into Gen/rot_gen.v on every run (C28 proves them). *)
From Coq Require Import ZArith List.
Import ListNotations.
Require Import Num Vec C28_Defs rot_gen.

Section Cat. Context {T:Type} (K:NumOps T).
Local Notation "x + y" := (nadd K x y). Local Notation "x * y" := (nmul K x y). Local Notation "x - y" := (nsub K x y).
Local Notation "x / y" := (ndiv K x y). Local Notation "- x" := (nopp K x).
Local Notation "0" := (n0 K). Local Notation "1" := (n1 K).

Definition ex : Vec3 T := (1, 0, 0).
Definition ey : Vec3 T := (0, 1, 0).
Definition ez : Vec3 T := (0, 0, 1).
Definition o3 : Vec3 T := (0, 0, 0).
Definition xf_id : Transform T := (m33_id K, o3).
Definition RotX (a:T) : Mat33 T := Rx K (ncos K a) (nsin K a).
Definition RotY (a:T) : Mat33 T := Ry K (ncos K a) (nsin K a).
Definition RotZ (a:T) : Mat33 T := Rz K (ncos K a) (nsin K a).
Definition SV := SpatialVec T.
Definition angcol (w:Vec3 T) : SV := (w, o3).
Definition lincol (v:Vec3 T) : SV := (o3, v).
(** V = sum_i u_i H_i *)
Fixpoint Hu (H : list SV) (u : list T) : SV :=
  match H, u with h :: H', x :: u' => sv_add K (sv_scale K x h) (Hu H' u') | _, _ => (o3, o3) end.

(** *** Weld: zero mobilities, M welded to F *)
Definition Weld_X : Transform T := xf_id.
Definition Weld_H : list SV := [].

(** *** Pin: rotation by q about the common z axis; u = qdot *)
Definition Pin_X (q:T) : Transform T := (RotZ q, o3).
Definition Pin_H : list SV := [angcol ez].

(** *** Slider: translation by q along the common x axis; u = qdot *)
Definition Slider_X (q:T) : Transform T := (m33_id K, (q, 0, 0)).
Definition Slider_H : list SV := [lincol ex].

(** *** Screw: rotation q about z, translation pitch*q along z *)
Definition Screw_X (pitch q:T) : Transform T := (RotZ q, (0, 0, pitch * q)).
Definition Screw_H (pitch:T) : list SV := [(ez, (0, 0, pitch))].

(** *** Universal: rotation q0 about x followed by q1 about the new y; u = qdot *)
Definition Universal_X (q:Vec2 T) : Transform T := let '(q0,q1) := q in (m33_mul K (RotX q0) (RotY q1), o3).
Definition Universal_H (q:Vec2 T) : list SV := [angcol ex; angcol (m33_c1 (fst (Universal_X q)))].

(** *** Cylinder: rotation q0 about z and translation q1 along z; u = qdot *)
Definition Cylinder_X (q:Vec2 T) : Transform T := let '(q0,q1) := q in (RotZ q0, (0, 0, q1)).
Definition Cylinder_H : list SV := [angcol ez; lincol ez].

(** *** BendStretch: rotate q0 about z, then slide q1 along the rotated (M) x axis; u = qdot *)
Definition BendStretch_X (q:Vec2 T) : Transform T := let '(q0,q1) := q in (RotZ q0, m33_mulv K (RotZ q0) (q1, 0, 0)).
Definition BendStretch_H (q:Vec2 T) : list SV :=
  let X := BendStretch_X q in [(ez, v3_cross K ez (snd X)); lincol (m33_c0 (fst X))].

(** *** Planar: rotation q0 about z, translation (q1,q2) along F's x and y; u = qdot *)
Definition Planar_X (q:Vec3 T) : Transform T := let '(q0,q1,q2) := q in (RotZ q0, (q1, q2, 0)).
Definition Planar_H : list SV := [angcol ez; lincol ex; lincol ey].

(** *** Translation: Cartesian, q = p_FM in F, u = v_FM *)
Definition Translation_X (q:Vec3 T) : Transform T := (m33_id K, q).
Definition Translation_H : list SV := [lincol ex; lincol ey; lincol ez].

(** *** Gimbal: body-fixed x-y-z angles (three pins in series: about Fx, the rotated y, the twice-rotated z); u = qdot *)
Definition Gimbal_X (q:Vec3 T) : Transform T := (Rxyz K q, o3).
Definition Gimbal_axes (q:Vec3 T) : list (Vec3 T) := let '(q0,q1,q2) := q in
  [ex; m33_mulv K (RotX q0) ey; m33_mulv K (m33_mul K (RotX q0) (RotY q1)) ez].
Definition Gimbal_H (q:Vec3 T) : list SV := map angcol (Gimbal_axes q).

(** *** Bushing: q = (qx,qy,qz,px,py,pz): translate M by p (in F), then body-fixed x-y-z angles; u = qdot *)
Definition Bushing_X (a p:Vec3 T) : Transform T := (Rxyz K a, p).
Definition Bushing_H (a:Vec3 T) : list SV := Gimbal_H a ++ Translation_H.

(** *** orientation by a quaternion (scalar first); the rotation is that of the normalised quaternion *)
Definition quatR (e:Vec4 T) : Mat33 T := m33_scale K (1 / v4_normSqr K e) (Rquat K e).

(** *** Ball: q = quaternion (or x-y-z body-fixed angles with the Euler option); u = w_FM expressed in F *)
Definition Ball_Xq (e:Vec4 T) : Transform T := (quatR e, o3).
Definition Ball_Xe (a:Vec3 T) : Transform T := (Rxyz K a, o3).
Definition Ball_H : list SV := [angcol ex; angcol ey; angcol ez].
(** qdot = N u for u an angular velocity in the parent (F) frame *)
Definition Ball_Nq (e:Vec4 T) (w:Vec3 T) : Vec4 T := m43_mulv K (cNQ K e) w.
Definition Ball_Ne (a:Vec3 T) (w:Vec3 T) : Vec3 T := m33_mulv K (cNP_q K a) w.
Definition Ball_NInvq (e:Vec4 T) (ed:Vec4 T) : Vec3 T := m34_mulv K (cNInvQ K e) ed.
Definition Ball_NInve (a:Vec3 T) (ad:Vec3 T) : Vec3 T := m33_mulv K (cNInvP_q K a) ad.
Definition Ball_NDotq (ed:Vec4 T) (w:Vec3 T) : Vec4 T := m43_mulv K (cNDotQ K ed) w.
Definition Ball_NDote (a ad:Vec3 T) (w:Vec3 T) : Vec3 T := m33_mulv K (cNDotP_q K a ad) w.

(** *** Free: Ball orientation + Cartesian translation; u = (w_FM, v_FM) in F *)
Definition Free_Xq (e:Vec4 T) (p:Vec3 T) : Transform T := (quatR e, p).
Definition Free_Xe (a:Vec3 T) (p:Vec3 T) : Transform T := (Rxyz K a, p).
Definition Free_H : list SV := Ball_H ++ Translation_H.

(** *** LineOrientation: Ball coordinates, two speeds = x,y components of w_FM expressed in M *)
Definition Line_H (R:Mat33 T) : list SV := [angcol (m33_c0 R); angcol (m33_c1 R)].
Definition up3 (u:Vec2 T) : Vec3 T := (fst u, snd u, 0).
Definition dn2 (w:Vec3 T) : Vec2 T := (v3_0 w, v3_1 w).
Definition Line_Nq (e:Vec4 T) (u:Vec2 T) : Vec4 T := Ball_Nq e (m33_mulv K (quatR e) (up3 u)).
Definition Line_Ne (a:Vec3 T) (u:Vec2 T) : Vec3 T := m33_mulv K (cNB_q K a) (up3 u).
Definition Line_NInvq (e:Vec4 T) (ed:Vec4 T) : Vec2 T := dn2 (m33_Tmulv K (quatR e) (Ball_NInvq e ed)).
Definition Line_NInve (a:Vec3 T) (ad:Vec3 T) : Vec2 T := dn2 (m33_mulv K (cNInvB_q K a) ad).
(** NDot for quaternion coordinates: N(q) = N_Q(q) R_FM(q) P depends on q also through R_FM, so along the motion with
    speeds u:  NDot v = N_Q(qdot) R (v,0) + N_Q(q) R ((u,0) x (v,0))   (RigidBodyNodeSpec_LineOrientation.h after a24f10ba) *)
Definition Line_NDotq (e ed:Vec4 T) (u v:Vec2 T) : Vec4 T :=
  v4_add K (Ball_NDotq ed (m33_mulv K (quatR e) (up3 v)))
           (Ball_Nq e (m33_mulv K (quatR e) (v3_cross K (up3 u) (up3 v)))).
(** the expression used before fix a24f10ba (N_Q(qdot) R only); kept for the regression lemmas of C03_Proofs.v *)
Definition Line_NDotq_prefix (e ed:Vec4 T) (v:Vec2 T) : Vec4 T := Ball_NDotq ed (m33_mulv K (quatR e) (up3 v)).
Definition Line_NDote (a ad:Vec3 T) (v:Vec2 T) : Vec3 T := m33_mulv K (cNDotB_q K a ad) (up3 v).

(** *** SphericalCoords: azimuth = s0*q0+az0 about Fz, zenith = s1*q1+ze0 about My, radius s2*q2 along Mz (or Mx) *)
Record scopt := mkSc { sc_az0 : T; sc_s0 : T; sc_ze0 : T; sc_s1 : T; sc_axisX : bool; sc_s2 : T }.
Definition Sph_R (o:scopt) (q:Vec3 T) : Mat33 T := let '(q0,q1,q2) := q in
  m33_mul K (RotZ (sc_s0 o * q0 + sc_az0 o)) (RotY (sc_s1 o * q1 + sc_ze0 o)).
Definition Sph_axis (o:scopt) (R:Mat33 T) : Vec3 T := if sc_axisX o then m33_c0 R else m33_c2 R.
Definition Sph_X (o:scopt) (q:Vec3 T) : Transform T :=
  let R := Sph_R o q in (R, v3_scale K (sc_s2 o * v3_2 q) (Sph_axis o R)).
Definition Sph_H (o:scopt) (q:Vec3 T) : list SV :=
  let X := Sph_X o q in let R := fst X in let p := snd X in
  let sFz := v3_scale K (sc_s0 o) ez in let sMy := v3_scale K (sc_s1 o) (m33_c1 R) in
  [(sFz, v3_cross K sFz p); (sMy, v3_cross K sMy p); lincol (v3_scale K (sc_s2 o) (Sph_axis o R))].

(** *** Ellipsoid: Ball orientation; Mo is on the surface of the ellipsoid with semi-axes (a,b,c) fixed in F,
    at the point (a n0, b n1, c n2) where n = Mz expressed in F; u = w_FM in F *)
Definition Ell_p (r:Vec3 T) (R:Mat33 T) : Vec3 T := let '(a,b,c) := r in let n := m33_c2 R in (a * v3_0 n, b * v3_1 n, c * v3_2 n).
Definition Ell_Xq (r:Vec3 T) (e:Vec4 T) : Transform T := (quatR e, Ell_p r (quatR e)).
Definition Ell_Xe (r:Vec3 T) (a:Vec3 T) : Transform T := (Rxyz K a, Ell_p r (Rxyz K a)).
Definition vmul3 (r v:Vec3 T) : Vec3 T := let '(a,b,c) := r in (a * v3_0 v, b * v3_1 v, c * v3_2 v).
Definition Ell_H (r:Vec3 T) (R:Mat33 T) : list SV :=
  let n := m33_c2 R in map (fun e => (e, vmul3 r (v3_cross K e n))) [ex; ey; ez].

(** ** Reversed mobilizers (MobilizedBody::Reverse).  The catalogue entry then describes the pose of F in M
    with the same q and u; the reported X_FM is its inverse and the reported hinge columns are obtained by
    RigidBodyNodeSpec::calcReverseMobilizerH_FM:  w' = -(R_FM w),  v' = -p_FM x w' - R_FM v,
    with (R_FM,p_FM) the (already inverted) reported transform. *)
Definition rev_X (X:Transform T) : Transform T := xf_inv K X.
Definition rev_col (Xr:Transform T) (h:SV) : SV :=
  let w' := v3_neg K (m33_mulv K (fst Xr) (fst h)) in
  (w', v3_sub K (m33_mulv K (m33_neg K (m33_crossMat K (snd Xr))) w') (m33_mulv K (fst Xr) (snd h))).
Definition rev_H (X:Transform T) (H:list SV) : list SV := map (rev_col (rev_X X)) H.
(** the forward-direction velocity recovered from a reversed one (RigidBodyNode::reverseSpatialVelocity) *)
Definition rev_vel (Xr:Transform T) (V:SV) : SV := rev_col Xr V.

(** ** Closed-form fitters, as implemented (RigidBodyNodeSpec_<Type>.h) *)
Definition Slider_fitT (p:Vec3 T) : T := v3_0 p.
Definition Slider_fitV (V:SV) : T := v3_0 (snd V).
Definition Translation_fitT (p:Vec3 T) : Vec3 T := p.
Definition Translation_fitV (V:SV) : Vec3 T := snd V.
Definition Screw_fitT (pitch:T) (p:Vec3 T) : T := v3_2 p / pitch.
(** setUToFitVelocity = angular fit (u = w_z) overwritten by the linear fit (u = v_z / pitch) *)
Definition Screw_fitV (pitch:T) (V:SV) : T := v3_2 (snd V) / pitch.
Definition Screw_fitW (V:SV) : T := v3_2 (fst V).
(** angle about z of a rotation matrix: third angle of Rotation::convertRotationToBodyFixedXYZ away from its
    singular branch, atan2(-R01, R00) *)
Definition zangle (R:Mat33 T) : T := natan2 K (- (m33_e R 0 1)) (m33_e R 0 0).
Definition Pin_fitR (R:Mat33 T) : T := zangle R.
Definition Pin_fitW (V:SV) : T := v3_2 (fst V).
Definition Planar_fitX (X:Transform T) : Vec3 T := (zangle (fst X), v3_0 (snd X), v3_1 (snd X)).
Definition Planar_fitV (V:SV) : Vec3 T := (v3_2 (fst V), v3_0 (snd V), v3_1 (snd V)).
Definition Cylinder_fitX (X:Transform T) : Vec2 T := (zangle (fst X), v3_2 (snd X)).
Definition Cylinder_fitV (V:SV) : Vec2 T := (v3_2 (fst V), v3_2 (snd V)).
(** Rotation::convertThreeAxesBodyFixedRotationToThreeAngles(X,Y,Z), regular branch (Rsum > 4 eps) *)
Definition xyz_angles (R:Mat33 T) : Vec3 T :=
  let two := 1 + 1 in
  let Rsum := nsqrt K ((m33_e R 0 0 * m33_e R 0 0 + m33_e R 0 1 * m33_e R 0 1 + m33_e R 1 2 * m33_e R 1 2 + m33_e R 2 2 * m33_e R 2 2) / two) in
  (natan2 K (- (m33_e R 1 2)) (m33_e R 2 2), natan2 K (m33_e R 0 2) Rsum, natan2 K (- (m33_e R 0 1)) (m33_e R 0 0)).
Definition Gimbal_fitR (R:Mat33 T) : Vec3 T := xyz_angles R.
(** Rotation::convertRotationToQuaternion (Spurrier's method, four branches, canonical sign).
    Branch k computes 4 e_k (e0,e1,e2,e3) from the matrix of a unit quaternion e. *)
Definition quat_branch (k:nat) (R:Mat33 T) : Vec4 T :=
  let r00 := m33_e R 0 0 in let r11 := m33_e R 1 1 in let r22 := m33_e R 2 2 in
  let tr := r00 + r11 + r22 in let two := 1 + 1 in
  match k with
  | O => (1 + tr, m33_e R 2 1 - m33_e R 1 2, m33_e R 0 2 - m33_e R 2 0, m33_e R 1 0 - m33_e R 0 1)
  | S O => (m33_e R 2 1 - m33_e R 1 2, 1 - (tr - two * r00), m33_e R 0 1 + m33_e R 1 0, m33_e R 0 2 + m33_e R 2 0)
  | S (S O) => (m33_e R 0 2 - m33_e R 2 0, m33_e R 0 1 + m33_e R 1 0, 1 - (tr - two * r11), m33_e R 1 2 + m33_e R 2 1)
  | _ => (m33_e R 1 0 - m33_e R 0 1, m33_e R 0 2 + m33_e R 2 0, m33_e R 1 2 + m33_e R 2 1, 1 - (tr - two * r22))
  end.
Definition quat_pick (R:Mat33 T) : nat :=
  let r00 := m33_e R 0 0 in let r11 := m33_e R 1 1 in let r22 := m33_e R 2 2 in
  let tr := r00 + r11 + r22 in
  if andb (nleb K r00 tr) (andb (nleb K r11 tr) (nleb K r22 tr)) then 0%nat
  else if andb (nleb K r11 r00) (nleb K r22 r00) then 1%nat
  else if nleb K r22 r11 then 2%nat else 3%nat.
Definition quat_normalise (q:Vec4 T) : Vec4 T :=
  let nrm := nsqrt K (v4_normSqr K q) in
  v4_scale K (1 / (if nltb K (v4_0 q) 0 then - nrm else nrm)) q.
Definition quat_of_R (R:Mat33 T) : Vec4 T := quat_normalise (quat_branch (quat_pick R) R).
Definition Ball_fitRq (R:Mat33 T) : Vec4 T := quat_of_R R.
Definition Ball_fitW (V:SV) : Vec3 T := fst V.
Definition Free_fitV (V:SV) : Vec3 T * Vec3 T := V.
(** Gimbal / Bushing rotational speeds from an angular velocity: qdot = N_P(q) w *)
Definition Gimbal_fitW (a:Vec3 T) (V:SV) : Vec3 T := Ball_Ne a (fst V).
(** Universal: (w_x, y-component of (0,w_y,w_z) re-expressed in M) *)
Definition Universal_fitW (q:Vec2 T) (V:SV) : Vec2 T :=
  let R := fst (Universal_X q) in let w := fst V in
  (v3_0 w, v3_1 (m33_Tmulv K R (0, v3_1 w, v3_2 w))).
(** BendStretch velocity fit (translation q1 <> 0) *)
Definition BendStretch_fitV (q:Vec2 T) (V:SV) : Vec2 T :=
  let vM := m33_Tmulv K (RotZ (fst q)) (snd V) in (v3_1 vM / snd q, v3_0 vM).
(** pi as the implementation has it available to the model: atan2(0,-1) *)
Definition npi : T := natan2 K (n0 K) (nopp K (n1 K)).
(** BendStretch translation fit (d >= 4 eps branch) after fix c1dcbf40: (angle,d) and (angle+pi,-d) give the same
    translation; the one whose angle is closer to the current angle [cur] is used *)
Definition BendStretch_fitT (cur:T) (p:Vec3 T) : Vec2 T :=
  let angle := natan2 K (v3_1 p) (v3_0 p) in
  let d := nsqrt K (v3_0 p * v3_0 p + v3_1 p * v3_1 p) in
  if nleb K 0 (ncos K (angle - cur)) then (angle, d)
  else (if nltb K 0 angle then angle - npi else angle + npi, - d).
(** setQToFitTransform: rotation fit first (angle about z), then the translation fit *)
Definition BendStretch_fitX (X:Transform T) : Vec2 T := BendStretch_fitT (zangle (fst X)) (snd X).
(** the translation fit before fix c1dcbf40; kept for the regression lemma *)
Definition BendStretch_fitT_prefix (p:Vec3 T) : Vec2 T :=
  (natan2 K (v3_1 p) (v3_0 p), nsqrt K (v3_0 p * v3_0 p + v3_1 p * v3_1 p)).
(** Ellipsoid (after fix 7c1ce7f5): a transform / spatial velocity is fitted by its rotation / angular velocity *)
Definition Ell_fitU (V:SV) : Vec3 T := fst V.
(** the velocity fit before fix 7c1ce7f5: the angular fit u = w overwritten by a linear fit written for a sphere;
    kept for the regression lemmas *)
Definition Ell_fitV_prefix (r:Vec3 T) (R:Mat33 T) (V:SV) : Vec3 T :=
  let p := Ell_p r R in
  let vM := m33_Tmulv K R (snd V) in let rM := m33_Tmulv K R p in let wM := m33_Tmulv K R (fst V) in
  m33_mulv K R (- (v3_1 vM) / v3_2 rM, v3_0 vM / v3_2 rM, v3_2 wM).
(** LineOrientation / FreeLine: u = (x,y) of R^T w *)
Definition Line_fitW (R:Mat33 T) (V:SV) : Vec2 T := dn2 (m33_Tmulv K R (fst V)).
(** SphericalCoords velocity fit (after the committed fix): u0 = s0 w_z, u1 = s1 (R^T (w_x,w_y,0))_y, u2 = s2 v . axis *)
Definition Sph_fitV (o:scopt) (q:Vec3 T) (V:SV) : Vec3 T :=
  let R := Sph_R o q in let w := fst V in
  (sc_s0 o * v3_2 w, sc_s1 o * v3_1 (m33_Tmulv K R (v3_0 w, v3_1 w, 0)), sc_s2 o * v3_dot K (snd V) (Sph_axis o R)).
Definition Sph_fitT (o:scopt) (q:Vec3 T) (p:Vec3 T) : T := sc_s2 o * v3_dot K p (Sph_axis o (Sph_R o q)).

(** ** Partial fits (setQToFitRotation / setQToFitTranslation / setUToFitAngularVelocity / setUToFitLinearVelocity),
    as implemented per mobilizer; each returns the updated coordinates / speeds given the current ones *)
(** Rotation::convertTwoAxesBodyFixedRotationToTwoAngles(axis i, axis j) with k the third axis; [neg] = reverse cyclical *)
Definition two_angles (i j k:nat) (neg:bool) (R:Mat33 T) : Vec2 T :=
  let two := 1 + 1 in
  let sgn (x:T) : T := if nltb K 0 x then 1 else nopp K 1 in
  let s1d := m33_e R k j in let c1d := m33_e R j j in let s2d := m33_e R i k in let c2d := m33_e R i i in
  let s1 := (s1d + sgn s1d * nsqrt K (m33_e R j i * m33_e R j i + m33_e R j k * m33_e R j k)) / two in
  let c1 := (c1d + sgn c1d * nsqrt K (m33_e R k i * m33_e R k i + m33_e R k k * m33_e R k k)) / two in
  let s2 := (s2d + sgn s2d * nsqrt K (m33_e R j i * m33_e R j i + m33_e R k i * m33_e R k i)) / two in
  let c2 := (c2d + sgn c2d * nsqrt K (m33_e R j k * m33_e R j k + m33_e R k k * m33_e R k k)) / two in
  let t1 := natan2 K s1 c1 in let t2 := natan2 K s2 c2 in
  if neg then (- t1, - t2) else (t1, t2).
Definition Universal_fitR (R:Mat33 T) : Vec2 T := two_angles 0 1 2 false R.
Definition Sph_fitR (o:scopt) (R:Mat33 T) : Vec2 T :=
  let a := two_angles 2 1 0 true R in (sc_s0 o * (fst a - sc_az0 o), sc_s1 o * (snd a - sc_ze0 o)).
(** Cylinder / Planar / Screw: the rotation fit sets the angle, the translation fit the translational coordinates *)
Definition Cylinder_fitR (R:Mat33 T) (q:Vec2 T) : Vec2 T := (zangle R, snd q).
Definition Cylinder_fitT (p:Vec3 T) (q:Vec2 T) : Vec2 T := (fst q, v3_2 p).
Definition Cylinder_fitW (w:Vec3 T) (u:Vec2 T) : Vec2 T := (v3_2 w, snd u).
Definition Cylinder_fitLV (v:Vec3 T) (u:Vec2 T) : Vec2 T := (fst u, v3_2 v).
Definition Planar_fitR (R:Mat33 T) (q:Vec3 T) : Vec3 T := (zangle R, v3_1 q, v3_2 q).
Definition Planar_fitT (p:Vec3 T) (q:Vec3 T) : Vec3 T := (v3_0 q, v3_0 p, v3_1 p).
Definition Planar_fitW (w:Vec3 T) (u:Vec3 T) : Vec3 T := (v3_2 w, v3_1 u, v3_2 u).
Definition Planar_fitLV (v:Vec3 T) (u:Vec3 T) : Vec3 T := (v3_0 u, v3_0 v, v3_1 v).
Definition Screw_fitR (R:Mat33 T) : T := zangle R.
(** BendStretch: angular fit u0 = w_z; linear fit u1 = (R^T v)_x and (stretch <> 0) u0 = (R^T v)_y / stretch *)
Definition BendStretch_fitW (w:Vec3 T) (u:Vec2 T) : Vec2 T := (v3_2 w, snd u).
Definition BendStretch_fitLV (q:Vec2 T) (v:Vec3 T) : Vec2 T := BendStretch_fitV q (o3, v).
(** Ellipsoid translation fit: direction e = p/|p|, latitude atan2(-e_y,e_z), longitude atan2(e_x,e_z), rotation
    = space-fixed x(latitude) then y(longitude), then the current spin about Mz *)
Definition Ell_latlong (e:Vec3 T) : Vec2 T := (natan2 K (- v3_1 e) (v3_2 e), natan2 K (v3_0 e) (v3_2 e)).
Definition Ell_fitT_R (spin:T) (p:Vec3 T) : Mat33 T :=
  let e := v3_scale K (1 / v3_norm K p) p in let ll := Ell_latlong e in
  m33_mul K (m33_mul K (RotY (snd ll)) (RotX (fst ll))) (RotZ spin).
(** Ellipsoid linear-velocity fit (written for a sphere): x,y of w in M from v, z of w in M kept from the current u *)
Definition Ell_fitLV (r:Vec3 T) (R:Mat33 T) (ucur v:Vec3 T) : Vec3 T := Ell_fitV_prefix r R (ucur, v).
End Cat.

(** ** list-based dispatch for the correspondence runs (coordinates and speeds as lists, as in the State) *)
Inductive mtype := MPin | MSlider | MUniversal | MCylinder | MBendStretch | MPlanar | MGimbal | MBushing
  | MBall | MFree | MTranslation | MScrew | MEllipsoid | MLineOrientation | MFreeLine | MSphericalCoords | MWeld.

Section Disp. Context {T:Type} (K:NumOps T).
Local Notation "0" := (n0 K).
(** parameters: Screw [pitch]; Ellipsoid [a;b;c]; SphericalCoords [az0; s0; ze0; s1; axisIsX(>0 means x); s2] *)
Record mspec := mkSpec { m_type : mtype; m_euler : bool; m_par : list T }.
Definition nth0 (l:list T) (i:nat) : T := nth i l 0.
Definition l3 (l:list T) (i:nat) : Vec3 T := (nth0 l i, nth0 l (S i), nth0 l (S (S i))).
Definition l4 (l:list T) : Vec4 T := (nth0 l 0, nth0 l 1, nth0 l 2, nth0 l 3).
Definition of3 (v:Vec3 T) : list T := let '(a,b,c) := v in [a;b;c].
Definition of4 (v:Vec4 T) : list T := let '(a,b,c,d) := v in [a;b;c;d].
Definition of2 (v:Vec2 T) : list T := [fst v; snd v].
Definition sc_of (p:list T) : scopt (T:=T) :=
  mkSc (nth0 p 0) (nth0 p 1) (nth0 p 2) (nth0 p 3) (nltb K 0 (nth0 p 4)) (nth0 p 5).
Definition usesQuat (m:mspec) : bool :=
  match m_type m with MBall | MFree | MEllipsoid | MLineOrientation | MFreeLine => negb (m_euler m) | _ => false end.
(** rotational part of a ball-like coordinate vector, and where the translation starts *)
Definition ballR (m:mspec) (q:list T) : Mat33 T := if usesQuat m then quatR K (l4 q) else Rxyz K (l3 q 0).
Definition nrot (m:mspec) : nat := if usesQuat m then 4%nat else 3%nat.

Definition mob_X (m:mspec) (q:list T) : Transform T :=
  match m_type m with
  | MWeld => Weld_X K
  | MPin => Pin_X K (nth0 q 0)
  | MSlider => Slider_X K (nth0 q 0)
  | MScrew => Screw_X K (nth0 (m_par m) 0) (nth0 q 0)
  | MUniversal => Universal_X K (nth0 q 0, nth0 q 1)
  | MCylinder => Cylinder_X K (nth0 q 0, nth0 q 1)
  | MBendStretch => BendStretch_X K (nth0 q 0, nth0 q 1)
  | MPlanar => Planar_X K (l3 q 0)
  | MTranslation => Translation_X K (l3 q 0)
  | MGimbal => Gimbal_X K (l3 q 0)
  | MBushing => Bushing_X K (l3 q 0) (l3 q 3)
  | MBall | MLineOrientation => (ballR m q, o3 K)
  | MFree | MFreeLine => (ballR m q, l3 q (nrot m))
  | MEllipsoid => (ballR m q, Ell_p K (l3 (m_par m) 0) (ballR m q))
  | MSphericalCoords => Sph_X K (sc_of (m_par m)) (l3 q 0)
  end.
Definition mob_H (m:mspec) (q:list T) : list (SpatialVec T) :=
  match m_type m with
  | MWeld => Weld_H
  | MPin => Pin_H K
  | MSlider => Slider_H K
  | MScrew => Screw_H K (nth0 (m_par m) 0)
  | MUniversal => Universal_H K (nth0 q 0, nth0 q 1)
  | MCylinder => Cylinder_H K
  | MBendStretch => BendStretch_H K (nth0 q 0, nth0 q 1)
  | MPlanar => Planar_H K
  | MTranslation => Translation_H K
  | MGimbal => Gimbal_H K (l3 q 0)
  | MBushing => Bushing_H K (l3 q 0)
  | MBall => Ball_H K
  | MFree => Free_H K
  | MLineOrientation => Line_H K (ballR m q)
  | MFreeLine => Line_H K (ballR m q) ++ Translation_H K
  | MEllipsoid => Ell_H K (l3 (m_par m) 0) (ballR m q)
  | MSphericalCoords => Sph_H K (sc_of (m_par m)) (l3 q 0)
  end.
Definition skipn' (n:nat) (l:list T) := skipn n l.
(** qdot = N(q) u *)
Definition mob_N (m:mspec) (q u:list T) : list T :=
  match m_type m with
  | MBall | MEllipsoid => if usesQuat m then of4 (Ball_Nq K (l4 q) (l3 u 0)) else of3 (Ball_Ne K (l3 q 0) (l3 u 0))
  | MFree => (if usesQuat m then of4 (Ball_Nq K (l4 q) (l3 u 0)) else of3 (Ball_Ne K (l3 q 0) (l3 u 0))) ++ of3 (l3 u 3)
  | MLineOrientation => if usesQuat m then of4 (Line_Nq K (l4 q) (nth0 u 0, nth0 u 1)) else of3 (Line_Ne K (l3 q 0) (nth0 u 0, nth0 u 1))
  | MFreeLine => (if usesQuat m then of4 (Line_Nq K (l4 q) (nth0 u 0, nth0 u 1)) else of3 (Line_Ne K (l3 q 0) (nth0 u 0, nth0 u 1))) ++ of3 (l3 u 2)
  | _ => u
  end.
(** u = NInv(q) qdot *)
Definition mob_NInv (m:mspec) (q qd:list T) : list T :=
  match m_type m with
  | MBall | MEllipsoid => if usesQuat m then of3 (Ball_NInvq K (l4 q) (l4 qd)) else of3 (Ball_NInve K (l3 q 0) (l3 qd 0))
  | MFree => (if usesQuat m then of3 (Ball_NInvq K (l4 q) (l4 qd)) else of3 (Ball_NInve K (l3 q 0) (l3 qd 0))) ++ of3 (l3 qd (nrot m))
  | MLineOrientation => if usesQuat m then of2 (Line_NInvq K (l4 q) (l4 qd)) else of2 (Line_NInve K (l3 q 0) (l3 qd 0))
  | MFreeLine => (if usesQuat m then of2 (Line_NInvq K (l4 q) (l4 qd)) else of2 (Line_NInve K (l3 q 0) (l3 qd 0))) ++ of3 (l3 qd (nrot m))
  | _ => qd
  end.
(** NDot(q,u) v with qdot = N(q) u, as multiplyByNDot reports it *)
Definition zeros (n:nat) : list T := repeat 0 n.
Definition mob_NDot (m:mspec) (q u qd v:list T) : list T :=
  match m_type m with
  | MBall | MEllipsoid => if usesQuat m then of4 (Ball_NDotq K (l4 qd) (l3 v 0)) else of3 (Ball_NDote K (l3 q 0) (l3 qd 0) (l3 v 0))
  | MFree => (if usesQuat m then of4 (Ball_NDotq K (l4 qd) (l3 v 0)) else of3 (Ball_NDote K (l3 q 0) (l3 qd 0) (l3 v 0))) ++ zeros 3
  | MLineOrientation => if usesQuat m then of4 (Line_NDotq K (l4 q) (l4 qd) (nth0 u 0, nth0 u 1) (nth0 v 0, nth0 v 1)) else of3 (Line_NDote K (l3 q 0) (l3 qd 0) (nth0 v 0, nth0 v 1))
  | MFreeLine => (if usesQuat m then of4 (Line_NDotq K (l4 q) (l4 qd) (nth0 u 0, nth0 u 1) (nth0 v 0, nth0 v 1)) else of3 (Line_NDote K (l3 q 0) (l3 qd 0) (nth0 v 0, nth0 v 1))) ++ zeros 3
  | _ => map (fun _ => 0) v
  end.
(** reported (F on the parent, M on the child) transform, hinge columns and cross-joint velocity *)
Definition rep_X (m:mspec) (rev:bool) (q:list T) : Transform T := if rev then rev_X K (mob_X m q) else mob_X m q.
Definition rep_H (m:mspec) (rev:bool) (q:list T) : list (SpatialVec T) :=
  if rev then rev_H K (mob_X m q) (mob_H m q) else mob_H m q.
Definition rep_V (m:mspec) (rev:bool) (q u:list T) : SpatialVec T := Hu K (rep_H m rev q) u.
(** closed-form fitters by type, applied to the as-defined (un-reversed) transform / velocity; [None] = not modelled *)
Definition rotfit (m:mspec) (R:Mat33 T) : list T := if usesQuat m then of4 (quat_of_R K R) else of3 (xyz_angles K R).
Definition mob_fitQ (m:mspec) (X:Transform T) : option (list T) :=
  match m_type m with
  | MWeld => Some nil
  | MPin => Some (Pin_fitR K (fst X) :: nil)
  | MSlider => Some (Slider_fitT (snd X) :: nil)
  | MTranslation => Some (of3 (snd X))
  | MScrew => Some (Screw_fitT K (nth0 (m_par m) 0) (snd X) :: nil)
  | MPlanar => Some (of3 (Planar_fitX K X))
  | MCylinder => Some (of2 (Cylinder_fitX K X))
  | MGimbal => Some (of3 (xyz_angles K (fst X)))
  | MBushing => Some (of3 (xyz_angles K (fst X)) ++ of3 (snd X))
  | MBendStretch => Some (of2 (BendStretch_fitX K X))
  | MBall | MLineOrientation | MEllipsoid => Some (rotfit m (fst X))
  | MFree | MFreeLine => Some (rotfit m (fst X) ++ of3 (snd X))
  | _ => None
  end.
Definition mob_fitU (m:mspec) (q:list T) (V:SpatialVec T) : option (list T) :=
  match m_type m with
  | MWeld => Some nil
  | MPin => Some (Pin_fitW V :: nil)
  | MSlider => Some (Slider_fitV V :: nil)
  | MTranslation => Some (of3 (snd V))
  | MScrew => Some (Screw_fitV K (nth0 (m_par m) 0) V :: nil)
  | MPlanar => Some (of3 (Planar_fitV V))
  | MCylinder => Some (of2 (Cylinder_fitV V))
  | MBall => Some (of3 (fst V))
  | MFree => Some (of3 (fst V) ++ of3 (snd V))
  | MGimbal => Some (of3 (Gimbal_fitW K (l3 q 0) V))
  | MBushing => Some (of3 (Gimbal_fitW K (l3 q 0) V) ++ of3 (snd V))
  | MUniversal => Some (of2 (Universal_fitW K (nth0 q 0, nth0 q 1) V))
  | MBendStretch => Some (of2 (BendStretch_fitV K (nth0 q 0, nth0 q 1) V))
  | MLineOrientation => Some (of2 (Line_fitW K (ballR m q) V))
  | MFreeLine => Some (of2 (Line_fitW K (ballR m q) V) ++ of3 (snd V))
  | MSphericalCoords => Some (of3 (Sph_fitV K (sc_of (m_par m)) (l3 q 0) V))
  | MEllipsoid => Some (of3 (Ell_fitU V))
  end.

(** ** partial fits by type on coordinate / speed lists (as-defined mobilizer; every type) *)
Definition tl1 (l:list T) : list T := skipn 1 l.
Definition mob_fitR (m:mspec) (R:Mat33 T) (q:list T) : list T :=
  match m_type m with
  | MWeld | MSlider | MTranslation => q
  | MPin | MScrew => zangle K R :: nil
  | MUniversal => of2 (Universal_fitR K R)
  | MCylinder | MBendStretch | MPlanar => zangle K R :: tl1 q
  | MGimbal => of3 (xyz_angles K R)
  | MBushing => of3 (xyz_angles K R) ++ of3 (l3 q 3)
  | MBall | MLineOrientation | MEllipsoid => rotfit m R
  | MFree | MFreeLine => rotfit m R ++ of3 (l3 q (nrot m))
  | MSphericalCoords => of2 (Sph_fitR K (sc_of (m_par m)) R) ++ (nth0 q 2 :: nil)
  end.
Definition ell_spin (m:mspec) (q:list T) : T :=
  if usesQuat m then v3_2 (xyz_angles K (quatR K (l4 q))) else nth0 q 2.
Definition mob_fitT (m:mspec) (p:Vec3 T) (q:list T) : list T :=
  match m_type m with
  | MWeld | MPin | MUniversal | MGimbal | MBall | MLineOrientation => q
  | MSlider => v3_0 p :: nil
  | MTranslation => of3 p
  | MScrew => Screw_fitT K (nth0 (m_par m) 0) p :: nil
  | MCylinder => nth0 q 0 :: v3_2 p :: nil
  | MBendStretch => of2 (BendStretch_fitT K (nth0 q 0) p)
  | MPlanar => nth0 q 0 :: v3_0 p :: v3_1 p :: nil
  | MBushing => of3 (l3 q 0) ++ of3 p
  | MFree | MFreeLine => firstn (nrot m) q ++ of3 p
  | MSphericalCoords => nth0 q 0 :: nth0 q 1 :: Sph_fitT K (sc_of (m_par m)) (l3 q 0) p :: nil
  | MEllipsoid => rotfit m (Ell_fitT_R K (ell_spin m q) p)
  end.
Definition mob_fitW (m:mspec) (q:list T) (w:Vec3 T) (u:list T) : list T :=
  let V : SpatialVec T := (w, o3 K) in
  match m_type m with
  | MWeld | MSlider | MTranslation => u
  | MPin | MScrew => v3_2 w :: nil
  | MUniversal => of2 (Universal_fitW K (nth0 q 0, nth0 q 1) V)
  | MCylinder | MBendStretch | MPlanar => v3_2 w :: tl1 u
  | MGimbal => of3 (Gimbal_fitW K (l3 q 0) V)
  | MBushing => of3 (Gimbal_fitW K (l3 q 0) V) ++ of3 (l3 u 3)
  | MBall | MEllipsoid => of3 w
  | MFree => of3 w ++ of3 (l3 u 3)
  | MLineOrientation => of2 (Line_fitW K (ballR m q) V)
  | MFreeLine => of2 (Line_fitW K (ballR m q) V) ++ of3 (l3 u 2)
  | MSphericalCoords => let f := Sph_fitV K (sc_of (m_par m)) (l3 q 0) V in v3_0 f :: v3_1 f :: nth0 u 2 :: nil
  end.
Definition mob_fitLV (m:mspec) (q:list T) (v:Vec3 T) (u:list T) : list T :=
  let V : SpatialVec T := (o3 K, v) in
  match m_type m with
  | MWeld | MPin | MUniversal | MGimbal | MBall | MLineOrientation => u
  | MSlider => v3_0 v :: nil
  | MTranslation => of3 v
  | MScrew => Screw_fitV K (nth0 (m_par m) 0) V :: nil
  | MCylinder => nth0 u 0 :: v3_2 v :: nil
  | MBendStretch => of2 (BendStretch_fitLV K (nth0 q 0, nth0 q 1) v)
  | MPlanar => nth0 u 0 :: v3_0 v :: v3_1 v :: nil
  | MBushing | MFree => of3 (l3 u 0) ++ of3 v
  | MFreeLine => nth0 u 0 :: nth0 u 1 :: of3 v
  | MSphericalCoords => nth0 u 0 :: nth0 u 1 :: v3_2 (Sph_fitV K (sc_of (m_par m)) (l3 q 0) V) :: nil
  | MEllipsoid => of3 (Ell_fitLV K (l3 (m_par m) 0) (ballR m q) (l3 u 0) v)
  end.
(** the public entry points, including the reversal wrappers of RigidBodyNode.h (which use the CURRENT q to turn the
    request around; the linear-velocity wrapper assumes zero angular velocity) *)
Definition rep_fitR (m:mspec) (rev:bool) (R:Mat33 T) (q:list T) : list T := mob_fitR m (if rev then m33_T R else R) q.
Definition rep_fitT (m:mspec) (rev:bool) (p:Vec3 T) (q:list T) : list T :=
  mob_fitT m (if rev then m33_mulv K (fst (mob_X m q)) (v3_neg K p) else p) q.
Definition rep_fitW (m:mspec) (rev:bool) (q:list T) (w:Vec3 T) (u:list T) : list T :=
  mob_fitW m q (if rev then m33_mulv K (fst (mob_X m q)) (v3_neg K w) else w) u.
Definition rep_fitLV (m:mspec) (rev:bool) (q:list T) (v:Vec3 T) (u:list T) : list T :=
  mob_fitLV m q (if rev then v3_neg K (m33_mulv K (fst (mob_X m q)) v) else v) u.
End Disp.
