(** C05 theorems about the PARTIAL fits (setQToFitRotation / setQToFitTranslation / setUToFitAngularVelocity /
    setUToFitLinearVelocity) as modelled in C05_Model.v from RigidBodyNodeSpec_<Type>.h and the reversal wrappers of
    RigidBodyNode.h.  Per type the statements say what the code really guarantees: which sequences of partial fits
    reproduce a representable pose / velocity, what a partial fit leaves alone, and (with witnesses) what it does not do. *)
From Coq Require Import ZArith Reals Lra Lia Psatz Nsatz List.
From Coquelicot Require Import Coquelicot.
Require Import Num Vec Tactics rot_gen C28_Defs C28_Proofs C05_Model C05_Rot C05_Jet C05_Proofs C05_Fit.
Local Open Scope R_scope.

Ltac punf := cbv [Cylinder_fitR Cylinder_fitT Cylinder_fitW Cylinder_fitLV Cylinder_fitX Cylinder_fitV
  Planar_fitR Planar_fitT Planar_fitW Planar_fitLV Planar_fitX Planar_fitV Screw_fitR BendStretch_fitW BendStretch_fitLV
  Ell_fitLV v3_0 v3_1 v3_2 fst snd].

(** ** the reversal wrappers hand the as-defined mobilizer the right request *)
(** rotation: the transpose of the reported rotation is the as-defined rotation *)
Lemma rev_rotation_request X : m33_T (fst (rev_X ROps X)) = fst X.
Proof. destruct X as [[[[[a b] c] [[d e] f]] [[g h] k]] p]. reflexivity. Qed.
(** translation: with the rotational coordinates already right, R_MF (-p_FM) is the as-defined translation *)
Lemma rev_translation_request X : is_rot (fst X) -> m33_mulv ROps (fst X) (v3_neg ROps (snd (rev_X ROps X))) = snd X.
Proof. intros [HR _]. destruct X as [[[[[a b] c] [[d e] f]] [[g h] k]] [[p0 p1] p2]]. revert HR. unfold I33. cunf. intros HR.
  injection HR; clear HR; intros. teq; nsatz_or_fail. Qed.
(** angular velocity: R_MF (-w_FM) is the as-defined angular velocity *)
Lemma rev_angvel_request X V : is_rot (fst X) ->
  m33_mulv ROps (fst X) (v3_neg ROps (fst (rev_col ROps (rev_X ROps X) V))) = fst V.
Proof. intros [HR _]. destruct X as [[[[[a b] c] [[d e] f]] [[g h] k]] [[p0 p1] p2]]. destruct V as [[[w0 w1] w2] [[v0 v1] v2]].
  revert HR. unfold I33. cunf. intros HR. injection HR; clear HR; intros. teq; nsatz_or_fail. Qed.
(** linear velocity: the wrapper assumes w_FM = 0 (its own TODO); then -(R_MF v_FM) is the as-defined linear velocity *)
Lemma rev_linvel_request_partial X v : is_rot (fst X) ->
  v3_neg ROps (m33_mulv ROps (fst X) (snd (rev_col ROps (rev_X ROps X) ((0,0,0), v)))) = v.
Proof. intros [HR _]. destruct X as [[[[[a b] c] [[d e] f]] [[g h] k]] [[p0 p1] p2]]. destruct v as [[v0 v1] v2].
  revert HR. unfold I33. cunf. intros HR. injection HR; clear HR; intros. teq; nsatz_or_fail. Qed.
(** ... and with w_FM <> 0 the request is wrong: reversed Planar-like pose (translation along x), w = e_z *)
Lemma rev_linvel_request_refuted : exists X V, is_rot (fst X) /\
  v3_neg ROps (m33_mulv ROps (fst X) (snd (rev_col ROps (rev_X ROps X) V))) <> snd V.
Proof. exists (m33_id ROps, (1,0,0)), ((0,0,1),(0,0,0)). split; [ apply rot_id | ]. cunf. intros C. injection C; intros. lra. Qed.

(** ** independent coordinates: Cylinder, Planar.  Rotation and translation (angular and linear velocity) fits touch
    disjoint coordinates, commute, and together are the transform (velocity) fit, whatever the starting values *)
Lemma Cylinder_partial_fits (X : Transform R) (q : Vec2 R) : Cylinder_fitT (snd X) (Cylinder_fitR ROps (fst X) q) = Cylinder_fitX ROps X
  /\ Cylinder_fitR ROps (fst X) (Cylinder_fitT (snd X) q) = Cylinder_fitX ROps X.
Proof. destruct q. split; reflexivity. Qed.
Lemma Cylinder_partial_vel (V : SpatialVec R) (u : Vec2 R) : Cylinder_fitLV (snd V) (Cylinder_fitW (fst V) u) = Cylinder_fitV V
  /\ Cylinder_fitW (fst V) (Cylinder_fitLV (snd V) u) = Cylinder_fitV V.
Proof. destruct u. split; reflexivity. Qed.
Lemma Cylinder_fitR_keeps_translation (M : Mat33 R) (q : Vec2 R) : snd (Cylinder_X ROps (Cylinder_fitR ROps M q)) = snd (Cylinder_X ROps q).
Proof. destruct q. reflexivity. Qed.
Lemma Cylinder_fitT_keeps_rotation (p : Vec3 R) (q : Vec2 R) : fst (Cylinder_X ROps (Cylinder_fitT p q)) = fst (Cylinder_X ROps q).
Proof. destruct q. reflexivity. Qed.
Lemma Planar_partial_fits (X : Transform R) (q : Vec3 R) : Planar_fitT (snd X) (Planar_fitR ROps (fst X) q) = Planar_fitX ROps X
  /\ Planar_fitR ROps (fst X) (Planar_fitT (snd X) q) = Planar_fitX ROps X.
Proof. destruct q as [[? ?] ?]. split; reflexivity. Qed.
Lemma Planar_partial_vel (V : SpatialVec R) (u : Vec3 R) : Planar_fitLV (snd V) (Planar_fitW (fst V) u) = Planar_fitV V
  /\ Planar_fitW (fst V) (Planar_fitLV (snd V) u) = Planar_fitV V.
Proof. destruct u as [[? ?] ?]. split; reflexivity. Qed.
Lemma Planar_fitR_keeps_translation (M : Mat33 R) (q : Vec3 R) : snd (Planar_X ROps (Planar_fitR ROps M q)) = snd (Planar_X ROps q).
Proof. destruct q as [[? ?] ?]. reflexivity. Qed.
Lemma Planar_fitT_keeps_rotation (p : Vec3 R) (q : Vec3 R) : fst (Planar_X ROps (Planar_fitT p q)) = fst (Planar_X ROps q).
Proof. destruct q as [[? ?] ?]. reflexivity. Qed.

(** ** Screw: one coordinate for both.  The translation fit reproduces the pose (Screw_fit_roundtrip); the rotation fit
    reproduces the rotation, and the translation only up to whole turns *)
Lemma Screw_fitR_rotation pitch q : fst (Screw_X ROps pitch (Screw_fitR ROps (fst (Screw_X ROps pitch q)))) = fst (Screw_X ROps pitch q).
Proof. destruct (zangle_RotZ q) as [Hc Hs]. unfold Screw_fitR. cbn [Screw_X fst].
  set (th := zangle ROps (RotZ ROps q)) in *. clearbody th. cbv [RotZ Rz ncos nsin ROps]. rewrite Hc, Hs. reflexivity. Qed.
Lemma Screw_fitR_translation_refuted : exists pitch q,
  snd (Screw_X ROps pitch (Screw_fitR ROps (fst (Screw_X ROps pitch q)))) <> snd (Screw_X ROps pitch q).
Proof. exists 1, (2*PI). unfold Screw_fitR, zangle. cbn [Screw_X fst snd]. cbv [RotZ Rz m33_e m33_r0 m33_r1 m33_r2 v3_0 v3_1 v3_2].
  change (natan2 ROps (nopp ROps (nopp ROps (nsin ROps (2*PI)))) (ncos ROps (2*PI))) with (Ratan2 (- - sin (2*PI)) (cos (2*PI))).
  rewrite sin_2PI, cos_2PI. replace (- - 0) with 0 by ring.
  assert (E : Ratan2 0 1 = 0) by (unfold Ratan2; destruct (Rlt_dec 0 1); [ replace (0/1) with 0 by field; apply atan_0 | lra ]).
  rewrite E. cbv [nmul ROps]. intros C. injection C; intros. generalize PI_RGT_0; intros. lra. Qed.

(** ** BendStretch: rotation fit then translation fit reproduces the pose (BendStretch_fit_roundtrip_partial);
    the other order does not in general (the translation fit resolves its sign by the angle current at that time).
    Witness: q = (pi, 1), starting angle 0. *)
Lemma BendStretch_T_then_R_refuted : exists q0 q1 cur,
  let X := BendStretch_X ROps (q0,q1) in
  let qT := BendStretch_fitT ROps cur (snd X) in
  BendStretch_X ROps (zangle ROps (fst X), snd qT) <> X.
Proof. exists PI, 1, 0. cbv zeta. unfold BendStretch_fitT, zangle. rewrite npi_is_PI. cbn [BendStretch_X fst snd].
  cbv [RotZ Rz ncos nsin ROps m33_e m33_r0 m33_r1 m33_r2 v3_0 v3_1 v3_2]. rewrite cos_PI, sin_PI. vunf.
  replace (-1 * 1 + - 0 * 0 + 0 * 0) with (-1) by ring. replace (0 * 1 + -1 * 0 + 0 * 0) with 0 by ring.
  replace (- - 0) with 0 by ring.
  assert (E : Ratan2 0 (-1) = PI).
  { unfold Ratan2. destruct (Rlt_dec 0 (-1)); [lra|]. destruct (Rlt_dec (-1) 0); [|lra]. destruct (Rle_dec 0 0); [|lra].
    replace (0 / -1) with 0 by field. rewrite atan_0. ring. }
  rewrite E. replace (PI - 0) with PI by ring. rewrite cos_PI.
  unfold Rleb. destruct (Rle_dec 0 (-1)); [lra|]. cbn [snd].
  replace (-1 * -1 + 0 * 0) with 1 by ring. rewrite sqrt_1.
  cbv [BendStretch_X RotZ Rz ncos nsin ROps]. rewrite ?cos_PI, ?sin_PI. vunf. intros C. injection C; intros. lra. Qed.
(** angular fit then linear fit is the velocity fit *)
Lemma BendStretch_partial_vel (q : Vec2 R) (V : SpatialVec R) :
  BendStretch_fitLV ROps q (snd V) = BendStretch_fitV ROps q V.
Proof. destruct V as [w v]. reflexivity. Qed.

(** ** two-angle extraction (Rotation::convertTwoAxesBodyFixedRotationToTwoAngles): Universal and SphericalCoords *)
Lemma half_sgn x w : w = x*x -> (x + (if Rltb 0 x then 1 else - 1) * sqrt w) / (1 + 1) = x.
Proof. intros ->. replace (x*x) with (Rsqr x) by reflexivity. rewrite sqrt_Rsqr_abs. unfold Rltb. destruct (Rlt_dec 0 x).
  - rewrite Rabs_right by lra. field.
  - rewrite Rabs_left1 by lra. field. Qed.
Lemma two_angles_spec i j k R s1 c1 s2 c2 :
  m33_e R k j = s1 -> m33_e R j j = c1 -> m33_e R i k = s2 -> m33_e R i i = c2 ->
  m33_e R j i * m33_e R j i + m33_e R j k * m33_e R j k = s1*s1 -> m33_e R k i * m33_e R k i + m33_e R k k * m33_e R k k = c1*c1 ->
  m33_e R j i * m33_e R j i + m33_e R k i * m33_e R k i = s2*s2 -> m33_e R j k * m33_e R j k + m33_e R k k * m33_e R k k = c2*c2 ->
  c1*c1 + s1*s1 = 1 -> c2*c2 + s2*s2 = 1 ->
  let a := two_angles ROps i j k false R in
  (cos (fst a) = c1 /\ sin (fst a) = s1) /\ (cos (snd a) = c2 /\ sin (snd a) = s2).
Proof. intros E1 E2 E3 E4 W1 W2 W3 W4 H1 H2 a. subst a. unfold two_angles.
  cbv [nadd nmul ndiv nopp nsqrt natan2 nltb n0 n1 ROps]. rewrite W1, W2, W3, W4, E1, E2, E3, E4.
  rewrite !half_sgn by reflexivity. cbn [fst snd]. split; apply Ratan2_cos_sin; auto. Qed.
(** Universal: the rotation fit reproduces every representable rotation (all quadrants, no singular branch) *)
Theorem Universal_fitR_roundtrip q0 q1 :
  Universal_X ROps (Universal_fitR ROps (fst (Universal_X ROps (q0,q1)))) = Universal_X ROps (q0,q1).
Proof. sc q0; sc q1. unfold Universal_fitR.
  destruct (two_angles_spec 0 1 2 (fst (Universal_X ROps (q0,q1))) (sin q0) (cos q0) (sin q1) (cos q1)) as [[A0 B0] [A1 B1]];
    try (cunf; cbv [m33_e m33_r0 m33_r1 m33_r2 v3_0 v3_1 v3_2]; try ring; nsatz_or_fail); try lra.
  destruct (two_angles ROps 0 1 2 false (fst (Universal_X ROps (q0, q1)))) as [a0 a1]. cbn [fst snd] in *.
  cunf. rewrite A0, B0, A1, B1. reflexivity. Qed.
(** SphericalCoords, every option: the rotation fit reproduces the rotation, then the translation fit the radius *)
Theorem Sph_fitR_roundtrip az0 s0 ze0 s1 ax s2 q0 q1 q2 q2' : s0*s0 = 1 -> s1*s1 = 1 ->
  let o := mkSc az0 s0 ze0 s1 ax s2 in
  let a := Sph_fitR ROps o (Sph_R ROps o (q0,q1,q2)) in
  Sph_R ROps o (fst a, snd a, q2') = Sph_R ROps o (q0,q1,q2).
Proof. intros H0 H1 o a. subst a o. set (az := s0*q0+az0). set (ze := s1*q1+ze0). sc az; sc ze. unfold Sph_fitR.
  destruct (two_angles_spec 2 1 0 (Sph_R ROps (mkSc az0 s0 ze0 s1 ax s2) (q0,q1,q2)) (- sin az) (cos az) (- sin ze) (cos ze)) as [[A0 B0] [A1 B1]];
    try (cunf; cbv [m33_e m33_r0 m33_r1 m33_r2 v3_0 v3_1 v3_2]; fold az ze; try ring; nsatz_or_fail); try lra.
  revert A0 B0 A1 B1. unfold two_angles at 1 2 3 4. unfold two_angles.
  set (t1 := natan2 ROps _ _). set (t2 := natan2 ROps _ _). cbn [fst snd]. intros A0 B0 A1 B1.
  cbv [Sph_R sc_az0 sc_s0 sc_ze0 sc_s1 nadd nmul nsub nopp ROps]. cbn [fst snd].
  replace (s0 * (s0 * (- t1 - az0)) + az0) with (- t1) by (replace (s0 * (s0 * (- t1 - az0))) with ((s0*s0) * (- t1 - az0)) by ring; rewrite H0; ring).
  replace (s1 * (s1 * (- t2 - ze0)) + ze0) with (- t2) by (replace (s1 * (s1 * (- t2 - ze0))) with ((s1*s1) * (- t2 - ze0)) by ring; rewrite H1; ring).
  fold az ze. cbv [RotZ RotY Rz Ry ncos nsin ROps]. rewrite !cos_neg, !sin_neg, A0, A1, B0, B1, !Ropp_involutive. reflexivity. Qed.
Theorem Sph_R_then_T_roundtrip az0 s0 ze0 s1 ax s2 q0 q1 q2 q2' : s0*s0 = 1 -> s1*s1 = 1 -> s2*s2 = 1 ->
  let o := mkSc az0 s0 ze0 s1 ax s2 in let X := Sph_X ROps o (q0,q1,q2) in
  let a := Sph_fitR ROps o (fst X) in
  Sph_X ROps o (fst a, snd a, Sph_fitT ROps o (fst a, snd a, q2') (snd X)) = X.
Proof. intros H0 H1 H2 o X a. subst a X.
  pose proof (Sph_fitR_roundtrip az0 s0 ze0 s1 ax s2 q0 q1 q2 q2' H0 H1) as ER. cbv zeta in ER. fold o in ER.
  assert (ER2 : forall z, Sph_R ROps o (fst (Sph_fitR ROps o (Sph_R ROps o (q0,q1,q2))), snd (Sph_fitR ROps o (Sph_R ROps o (q0,q1,q2))), z) = Sph_R ROps o (q0,q1,q2)).
  { intros z. apply (Sph_fitR_roundtrip az0 s0 ze0 s1 ax s2 q0 q1 q2 z H0 H1). }
  unfold Sph_X at 1 2 3. cbn [fst]. unfold Sph_fitT, Sph_X. rewrite !ER2. cbn [fst snd v3_2].
  pose proof (Sph_fitT_roundtrip az0 s0 ze0 s1 ax s2 q0 q1 q2 H2) as ET. cbv zeta in ET. fold o in ET.
  unfold Sph_fitT, Sph_X in ET. cbn [fst snd v3_2] in ET. rewrite ET. reflexivity. Qed.

(** ** Ellipsoid.  The rotation fit alone reproduces a representable pose (Ell_fit_roundtrip_q).  The translation fit
    builds Mz from latitude atan2(-e_y,e_z) and longitude atan2(e_x,e_z) of the requested direction e; the comment in
    RigidBodyNodeSpec_Ellipsoid.h says this puts Mo "on the direction indicated by the requested translation".  It does
    not, even for a sphere: Mz = (sin lon cos lat, -sin lat, cos lon cos lat) is parallel to e only when e_x e_y = 0. *)
Definition Ell_fitT_Rdir (spin:R) (e:Vec3 R) : Mat33 R :=
  m33_mul ROps (m33_mul ROps (RotY ROps (snd (Ell_latlong ROps e))) (RotX ROps (fst (Ell_latlong ROps e)))) (RotZ ROps spin).
Lemma Ell_fitT_R_is_dir spin p : Ell_fitT_R ROps spin p = Ell_fitT_Rdir spin (v3_scale ROps (1 / v3_norm ROps p) p).
Proof. reflexivity. Qed.
Lemma Ell_latlong_scale k e : 0 < k -> Ell_latlong ROps (v3_scale ROps k e) = Ell_latlong ROps e.
Proof. intros Hk. destruct e as [[e0 e1] e2]. unfold Ell_latlong. cbv [v3_scale v3_0 v3_1 v3_2 natan2 nmul nopp ROps].
  replace (- (k * e1)) with (k * - e1) by ring. rewrite !Ratan2_scale by auto. reflexivity. Qed.
Lemma Ell_fitT_axis spin e : let ll := Ell_latlong ROps e in
  m33_c2 (Ell_fitT_Rdir spin e) = (sin (snd ll) * cos (fst ll), - sin (fst ll), cos (snd ll) * cos (fst ll)).
Proof. intros ll. subst ll. unfold Ell_fitT_Rdir. destruct (Ell_latlong ROps e) as [lat lon]. cbn [fst snd]. cunf. teq; ring. Qed.
Lemma Ell_fitT_direction_refuted : exists e spin, v3_cross ROps (m33_c2 (Ell_fitT_Rdir spin e)) e <> (0,0,0).
Proof. exists (5,5,12), 0. rewrite Ell_fitT_axis. unfold Ell_latlong. cbv [v3_0 v3_1 v3_2 natan2 nopp ROps fst snd].
  replace (-5) with (13 * (-5/13)) at 1 2 by field. replace 12 with (13 * (12/13)) at 1 2 3 4 by field.
  replace 5 with (13 * (5/13)) at 1 2 by field. rewrite !Ratan2_scale by lra.
  destruct (Ratan2_cos_sin (12/13) (-5/13) ltac:(field)) as [C1 S1]. destruct (Ratan2_cos_sin (12/13) (5/13) ltac:(field)) as [C2 S2].
  rewrite C1, S1, C2, S2. vunf. intros C. injection C; intros. lra. Qed.
(** linear-velocity fit: right for a sphere (Ell_fitV_prefix_sphere_roundtrip, current speeds only used for the spin),
    not for other semi-axes (Ell_fitV_prefix_refuted); stated here for the partial entry point *)
Lemma Ell_fitLV_sphere_roundtrip a R u0 u1 u2 : a <> 0 -> is_rot R ->
  Ell_fitLV ROps (a,a,a) R (u0,u1,u2) (snd (Hu ROps (Ell_H ROps (a,a,a) R) (u0 :: u1 :: u2 :: nil))) = (u0,u1,u2).
Proof. intros Ha HR. pose proof (Ell_fitV_prefix_sphere_roundtrip a R u0 u1 u2 Ha HR) as E. unfold Ell_fitLV.
  set (V := Hu ROps (Ell_H ROps (a,a,a) R) (u0 :: u1 :: u2 :: nil)) in *.
  assert (F : fst V = (u0,u1,u2)) by (apply (Ell_fitU_roundtrip (a,a,a) R u0 u1 u2)).
  rewrite <- F at 1. rewrite <- surjective_pairing. exact E. Qed.
Lemma Ell_fitLV_nonsphere_refuted : exists r R u, is_rot R /\
  let V := Hu ROps (Ell_H ROps r R) (v3_0 u :: v3_1 u :: v3_2 u :: nil) in
  snd (Hu ROps (Ell_H ROps r R) (let w := Ell_fitLV ROps r R u (snd V) in v3_0 w :: v3_1 w :: v3_2 w :: nil)) <> snd V.
Proof. exists (1,2,3), (m33_id ROps), (1,0,0). split; [ apply rot_id | ]. cbv zeta. cbv [Ell_fitLV Ell_fitV_prefix v3_0 v3_1 v3_2]. cunf.
  intros C. injection C; intros. lra. Qed.
