(** C05 theorems, first wave of the catalogue (C05_Model.v), all over the reals:
    R_FM is a rotation; the documented composition forms; X_FM(q) moves with V_FM = H_FM(q) u when
    qdot = N(q) u (meaning of the generalized speeds); reversed mobilizers. *)
From Coq Require Import ZArith Reals Lra Lia Psatz Nsatz List.
From Coquelicot Require Import Coquelicot.
Require Import Num Vec Tactics rot_gen C28_Defs C28_Proofs C05_Model C05_Rot C05_Jet.
Local Open Scope R_scope.

Ltac cunf := cbv [Hu angcol lincol ex ey ez o3 xf_id RotX RotY RotZ Weld_X Weld_H Pin_X Pin_H Slider_X Slider_H Screw_X Screw_H
  Universal_X Universal_H Cylinder_X Cylinder_H BendStretch_X BendStretch_H Planar_X Planar_H Translation_X Translation_H
  Gimbal_X Gimbal_axes Gimbal_H Bushing_X Bushing_H quatR Ball_Xq Ball_Xe Ball_H Ball_Nq Ball_Ne Ball_NInvq Ball_NInve
  Ball_NDotq Ball_NDote Free_Xq Free_Xe Free_H Line_H up3 dn2 Line_Nq Line_Ne Line_NInvq Line_NInve Line_NDotq Line_NDotq_prefix Line_NDote
  Sph_R Sph_axis Sph_X Sph_H Ell_p Ell_Xq Ell_Xe vmul3 Ell_H rev_X rev_col rev_H rev_vel is_rot I33
  sc_az0 sc_s0 sc_ze0 sc_s1 sc_axisX sc_s2 map app]; unf.
Ltac sc x := generalize (sc1 x); intro.
(** derivative goal: differentiate, then close the real identity (trig relations are in the context) *)
Ltac dj := auto_derive; [ repeat split; rewrite ?Rmult_0_l, ?Rplus_0_r; auto | rewrite ?Rmult_0_l, ?Rplus_0_r; try (field; auto); try (field_simplify_eq; auto; cbv [Rpow_def.pow]; nsatz_or_fail) ].
Ltac mw := unfold moves_with, dM, dV; split; [ intros i j Hi Hj; fin3 i; fin3 j; clear Hi Hj | intros i Hi; fin3 i; clear Hi ]; unfold e33, e3; cunf.
Ltac rot := cunf; split; [ teq; try ring; nsatz_or_fail | try ring; nsatz_or_fail ].

(** ** R_FM is orthonormal with determinant 1 *)
Lemma RotX_rot a : is_rot (RotX ROps a).
Proof. sc a. rot. Qed.
Lemma RotY_rot a : is_rot (RotY ROps a).
Proof. sc a. rot. Qed.
Lemma RotZ_rot a : is_rot (RotZ ROps a).
Proof. sc a. rot. Qed.
Lemma Rxyz_rot a : is_rot (Rxyz ROps a).
Proof. destruct a as [[a0 a1] a2]. unfold Rxyz. repeat apply rot_mul; [ apply (RotX_rot a0) | apply (RotY_rot a1) | apply (RotZ_rot a2) ]. Qed.
Lemma quatR_rot e : v4_normSqr ROps e <> 0 -> is_rot (quatR ROps e).
Proof. destruct e as [[[e0 e1] e2] e3']. cunf. intros Hn. split; [ teq | ]; field; auto. Qed.
Lemma quatR_unit e : v4_normSqr ROps e = 1 -> quatR ROps e = Rquat ROps e.
Proof. destruct e as [[[e0 e1] e2] e3']. cunf. intros Hn. rewrite Hn. teq; field. Qed.
Lemma quatR_scale k e : k <> 0 -> v4_normSqr ROps e <> 0 -> quatR ROps (v4_scale ROps k e) = quatR ROps e.
Proof. destruct e as [[[e0 e1] e2] e3']. cunf. intros Hk Hn. teq; field; split; auto;
  replace (k * e0 * (k * e0) + k * e1 * (k * e1) + k * e2 * (k * e2) + k * e3' * (k * e3')) with (k*k*(e0 * e0 + e1 * e1 + e2 * e2 + e3' * e3')) by ring;
  apply Rmult_integral_contrapositive_currified; auto; apply Rmult_integral_contrapositive_currified; auto. Qed.

Lemma Weld_rot : is_rot (fst (Weld_X ROps)).
Proof. rot. Qed.
Lemma Pin_rot q : is_rot (fst (Pin_X ROps q)).
Proof. apply RotZ_rot. Qed.
Lemma Slider_rot q : is_rot (fst (Slider_X ROps q)).
Proof. rot. Qed.
Lemma Screw_rot p q : is_rot (fst (Screw_X ROps p q)).
Proof. apply RotZ_rot. Qed.
Lemma Universal_rot q : is_rot (fst (Universal_X ROps q)).
Proof. destruct q as [q0 q1]. apply rot_mul; [ apply RotX_rot | apply RotY_rot ]. Qed.
Lemma Cylinder_rot q : is_rot (fst (Cylinder_X ROps q)).
Proof. destruct q. apply RotZ_rot. Qed.
Lemma BendStretch_rot q : is_rot (fst (BendStretch_X ROps q)).
Proof. destruct q. apply RotZ_rot. Qed.
Lemma Planar_rot q : is_rot (fst (Planar_X ROps q)).
Proof. destruct q as [[? ?] ?]. apply RotZ_rot. Qed.
Lemma Translation_rot q : is_rot (fst (Translation_X ROps q)).
Proof. rot. Qed.
Lemma Gimbal_rot q : is_rot (fst (Gimbal_X ROps q)).
Proof. apply Rxyz_rot. Qed.
Lemma Bushing_rot a p : is_rot (fst (Bushing_X ROps a p)).
Proof. apply Rxyz_rot. Qed.
Lemma Ball_rot_q e : v4_normSqr ROps e <> 0 -> is_rot (fst (Ball_Xq ROps e)).
Proof. apply quatR_rot. Qed.
Lemma Ball_rot_e a : is_rot (fst (Ball_Xe ROps a)).
Proof. apply Rxyz_rot. Qed.
Lemma Free_rot_q e p : v4_normSqr ROps e <> 0 -> is_rot (fst (Free_Xq ROps e p)).
Proof. apply quatR_rot. Qed.
Lemma Free_rot_e a p : is_rot (fst (Free_Xe ROps a p)).
Proof. apply Rxyz_rot. Qed.
Lemma Sph_rot o q : is_rot (fst (Sph_X ROps o q)).
Proof. destruct q as [[q0 q1] q2]. apply rot_mul; [ apply RotZ_rot | apply RotY_rot ]. Qed.
Lemma Ell_rot_q r e : v4_normSqr ROps e <> 0 -> is_rot (fst (Ell_Xq ROps r e)).
Proof. apply quatR_rot. Qed.
Lemma Ell_rot_e r a : is_rot (fst (Ell_Xe ROps r a)).
Proof. apply Rxyz_rot. Qed.

(** ** the documented forms *)
Lemma Pin_doc q : Pin_X ROps q = (((cos q, - sin q, 0), (sin q, cos q, 0), (0, 0, 1)), (0,0,0)).
Proof. reflexivity. Qed.
Lemma Slider_doc q : Slider_X ROps q = (I33, v3_scale ROps q (ex ROps)).
Proof. cunf. teq; ring. Qed.
Lemma Screw_doc pitch q : Screw_X ROps pitch q = Cylinder_X ROps (q, pitch * q).
Proof. reflexivity. Qed.
Lemma Cylinder_doc q0 q1 : Cylinder_X ROps (q0,q1) = xf_compose ROps (Pin_X ROps q0) (I33, v3_scale ROps q1 (ez ROps)).
Proof. cunf. teq; ring. Qed.
Lemma Universal_doc q0 q1 : fst (Universal_X ROps (q0,q1)) = m33_mul ROps (RotX ROps q0) (RotY ROps q1).
Proof. reflexivity. Qed.
(** rotate about z, then slide along the rotated x axis *)
Lemma BendStretch_doc q0 q1 : BendStretch_X ROps (q0,q1) = xf_compose ROps (Pin_X ROps q0) (Slider_X ROps q1).
Proof. cunf. teq; ring. Qed.
(** translation along F's axes, rotation about the shared z *)
Lemma Planar_doc q0 q1 q2 : Planar_X ROps (q0,q1,q2) = xf_compose ROps (Translation_X ROps (q1,q2,0)) (Pin_X ROps q0).
Proof. cunf. teq; ring. Qed.
(** a Gimbal is three pins in series: about Fx, the rotated y, the twice-rotated z *)
Lemma Gimbal_doc q0 q1 q2 :
  Gimbal_X ROps (q0,q1,q2) = xf_compose ROps (xf_compose ROps (RotX ROps q0, (0,0,0)) (RotY ROps q1, (0,0,0))) (Pin_X ROps q2).
Proof. cunf. teq; ring. Qed.
(** a Bushing first translates M by p (in F), then re-orients it about its new origin with Gimbal angles *)
Lemma Bushing_doc a p : Bushing_X ROps a p = xf_compose ROps (Translation_X ROps p) (Gimbal_X ROps a).
Proof. destruct a as [[a0 a1] a2]. destruct p as [[p0 p1] p2]. cunf. teq; ring. Qed.
Lemma Free_doc_e a p : Free_Xe ROps a p = xf_compose ROps (Translation_X ROps p) (Ball_Xe ROps a).
Proof. destruct a as [[a0 a1] a2]. destruct p as [[p0 p1] p2]. cunf. teq; ring. Qed.
Lemma Free_doc_q e p : Free_Xq ROps e p = xf_compose ROps (Translation_X ROps p) (Ball_Xq ROps e).
Proof. destruct e as [[[e0 e1] e2] e3']. destruct p as [[p0 p1] p2]. cunf. teq; ring. Qed.
(** quaternion convention: (cos h, sin h * axis) is the rotation by 2h about the axis *)
Lemma Ball_doc_quat_z h : quatR ROps (cos h, 0, 0, sin h) = RotZ ROps (2*h).
Proof. sc h. generalize (cos_2a h) (sin_2a h); intros C S. cunf. rewrite C, S. teq; field_simplify_eq; cbv [Rpow_def.pow]; try nsatz_or_fail; lra. Qed.
Lemma Ball_doc_quat_x h : quatR ROps (cos h, sin h, 0, 0) = RotX ROps (2*h).
Proof. sc h. generalize (cos_2a h) (sin_2a h); intros C S. cunf. rewrite C, S. teq; field_simplify_eq; cbv [Rpow_def.pow]; try nsatz_or_fail; lra. Qed.
Lemma Ball_doc_quat_y h : quatR ROps (cos h, 0, sin h, 0) = RotY ROps (2*h).
Proof. sc h. generalize (cos_2a h) (sin_2a h); intros C S. cunf. rewrite C, S. teq; field_simplify_eq; cbv [Rpow_def.pow]; try nsatz_or_fail; lra. Qed.
(** Ball/Free speeds are the angular velocity of M in F expressed in F, whatever the coordinates *)
Lemma Ball_speeds_are_w_FM u0 u1 u2 : Hu ROps (Ball_H ROps) (u0 :: u1 :: u2 :: nil) = ((u0,u1,u2),(0,0,0)).
Proof. cunf. teq; ring. Qed.
Lemma Free_speeds_are_V_FM u0 u1 u2 u3 u4 u5 : Hu ROps (Free_H ROps) (u0::u1::u2::u3::u4::u5::nil) = ((u0,u1,u2),(u3,u4,u5)).
Proof. cunf. teq; ring. Qed.
Lemma Translation_speeds_are_v_FM u0 u1 u2 : Hu ROps (Translation_H ROps) (u0 :: u1 :: u2 :: nil) = ((0,0,0),(u0,u1,u2)).
Proof. cunf. teq; ring. Qed.

(** ** speeds_meaning / X_FM_jet: along qdot = N(q) u the pose X_FM moves with V_FM = H_FM(q) u *)
Lemma Weld_jet : moves_with (fun _ => Weld_X ROps) (Hu ROps Weld_H nil).
Proof. apply moves_const. Qed.
Lemma Pin_jet q u : moves_with (fun t => Pin_X ROps (q + t*u)) (Hu ROps (Pin_H ROps) (u :: nil)).
Proof. mw; dj. Qed.
Lemma Slider_jet q u : moves_with (fun t => Slider_X ROps (q + t*u)) (Hu ROps (Slider_H ROps) (u :: nil)).
Proof. mw; dj. Qed.
Lemma Screw_jet pitch q u : moves_with (fun t => Screw_X ROps pitch (q + t*u)) (Hu ROps (Screw_H ROps pitch) (u :: nil)).
Proof. mw; dj. Qed.
Lemma Universal_jet q0 q1 u0 u1 :
  moves_with (fun t => Universal_X ROps (q0 + t*u0, q1 + t*u1)) (Hu ROps (Universal_H ROps (q0,q1)) (u0 :: u1 :: nil)).
Proof. sc q0; sc q1. mw; dj. Qed.
Lemma Cylinder_jet q0 q1 u0 u1 :
  moves_with (fun t => Cylinder_X ROps (q0 + t*u0, q1 + t*u1)) (Hu ROps (Cylinder_H ROps) (u0 :: u1 :: nil)).
Proof. mw; dj. Qed.
Lemma BendStretch_jet q0 q1 u0 u1 :
  moves_with (fun t => BendStretch_X ROps (q0 + t*u0, q1 + t*u1)) (Hu ROps (BendStretch_H ROps (q0,q1)) (u0 :: u1 :: nil)).
Proof. mw; dj. Qed.
Lemma Planar_jet q0 q1 q2 u0 u1 u2 :
  moves_with (fun t => Planar_X ROps (q0 + t*u0, q1 + t*u1, q2 + t*u2)) (Hu ROps (Planar_H ROps) (u0 :: u1 :: u2 :: nil)).
Proof. mw; dj. Qed.
Lemma Translation_jet q0 q1 q2 u0 u1 u2 :
  moves_with (fun t => Translation_X ROps (q0 + t*u0, q1 + t*u1, q2 + t*u2)) (Hu ROps (Translation_H ROps) (u0 :: u1 :: u2 :: nil)).
Proof. mw; dj. Qed.
Lemma Gimbal_jet q0 q1 q2 u0 u1 u2 :
  moves_with (fun t => Gimbal_X ROps (q0 + t*u0, q1 + t*u1, q2 + t*u2)) (Hu ROps (Gimbal_H ROps (q0,q1,q2)) (u0 :: u1 :: u2 :: nil)).
Proof. sc q0; sc q1; sc q2. mw; dj. Qed.
Lemma Bushing_jet q0 q1 q2 p0 p1 p2 u0 u1 u2 u3 u4 u5 :
  moves_with (fun t => Bushing_X ROps (q0 + t*u0, q1 + t*u1, q2 + t*u2) (p0 + t*u3, p1 + t*u4, p2 + t*u5))
             (Hu ROps (Bushing_H ROps (q0,q1,q2)) (u0::u1::u2::u3::u4::u5::nil)).
Proof. sc q0; sc q1; sc q2. mw; dj. Qed.
(** Ball, Euler-angle option: qdot = N_P(q) w *)
Lemma Ball_jet_e q0 q1 q2 w0 w1 w2 : cos q1 <> 0 ->
  let qd := Ball_Ne ROps (q0,q1,q2) (w0,w1,w2) in
  moves_with (fun t => Ball_Xe ROps (q0 + t*v3_0 qd, q1 + t*v3_1 qd, q2 + t*v3_2 qd)) (Hu ROps (Ball_H ROps) (w0 :: w1 :: w2 :: nil)).
Proof. intros Hc qd; subst qd. sc q0; sc q1; sc q2. mw; dj. Qed.
(** Ball, quaternion: qdot = N_Q(q) w; holds for every non-zero (not only unit) quaternion because the
    catalogue normalises, as the implementation does *)
Lemma Ball_jet_q e0 e1 e2 e3' w0 w1 w2 : e0*e0+e1*e1+e2*e2+e3'*e3' <> 0 ->
  let qd := Ball_Nq ROps (e0,e1,e2,e3') (w0,w1,w2) in
  moves_with (fun t => Ball_Xq ROps (e0 + t*v4_0 qd, e1 + t*v4_1 qd, e2 + t*v4_2 qd, e3' + t*v4_3 qd)) (Hu ROps (Ball_H ROps) (w0 :: w1 :: w2 :: nil)).
Proof. intros Hn qd; subst qd. mw; dj. Qed.
Lemma Free_jet_e q0 q1 q2 p0 p1 p2 w0 w1 w2 v0 v1 v2 : cos q1 <> 0 ->
  let qd := Ball_Ne ROps (q0,q1,q2) (w0,w1,w2) in
  moves_with (fun t => Free_Xe ROps (q0 + t*v3_0 qd, q1 + t*v3_1 qd, q2 + t*v3_2 qd) (p0 + t*v0, p1 + t*v1, p2 + t*v2))
             (Hu ROps (Free_H ROps) (w0::w1::w2::v0::v1::v2::nil)).
Proof. intros Hc qd; subst qd. sc q0; sc q1; sc q2. mw; dj. Qed.
Lemma Free_jet_q e0 e1 e2 e3' p0 p1 p2 w0 w1 w2 v0 v1 v2 : e0*e0+e1*e1+e2*e2+e3'*e3' <> 0 ->
  let qd := Ball_Nq ROps (e0,e1,e2,e3') (w0,w1,w2) in
  moves_with (fun t => Free_Xq ROps (e0 + t*v4_0 qd, e1 + t*v4_1 qd, e2 + t*v4_2 qd, e3' + t*v4_3 qd) (p0 + t*v0, p1 + t*v1, p2 + t*v2))
             (Hu ROps (Free_H ROps) (w0::w1::w2::v0::v1::v2::nil)).
Proof. intros Hn qd; subst qd. mw; dj. Qed.

(** ** reversed mobilizers: the reported transform is the inverse relative motion for the same q, and it
    moves with the velocity given by calcReverseMobilizerH_FM's formula applied to H u *)
Theorem reversed_is_inverse X : is_rot (fst X) ->
  xf_compose ROps (rev_X ROps X) X = (I33, (0,0,0)) /\ xf_compose ROps X (rev_X ROps X) = (I33, (0,0,0)).
Proof. intros HR; split; [ apply inv_compose_l | apply inv_compose_r ]; auto. Qed.
Theorem reversed_jet X V : is_rot (fst (X 0)) -> moves_with X V ->
  moves_with (fun t => rev_X ROps (X t)) (rev_col ROps (rev_X ROps (X 0)) V).
Proof. apply moves_inv. Qed.
(** the reversal of H u is the combination of the reversed columns *)
Lemma rev_col_linear Xr H u : rev_col ROps Xr (Hu ROps H u) = Hu ROps (map (rev_col ROps Xr) H) u.
Proof. revert u; induction H as [|h H IH]; intros [|x u]; cbn [Hu map];
  try (destruct Xr as [[[[[a b] c] [[d e] f]] [[g h'] k]] [[p0 p1] p2]]; cunf; teq; ring).
  rewrite <- IH. destruct Xr as [[[[[a b] c] [[d e] f]] [[g h'] k]] [[p0 p1] p2]].
  destruct h as [[[h0 h1] h2] [[h3 h4] h5]]. destruct (Hu ROps H u) as [[[y0 y1] y2] [[y3 y4] y5]]. cunf. teq; ring. Qed.
(** the hand-written overrides of calcReverseMobilizerH_FM agree with the general formula *)
Lemma Pin_rev_H q : rev_H ROps (Pin_X ROps q) (Pin_H ROps) = (((0,0,-1),(0,0,0)) :: nil).
Proof. cunf. repeat f_equal; ring. Qed.
Lemma Slider_rev_H q : rev_H ROps (Slider_X ROps q) (Slider_H ROps) = (((0,0,0),(-1,0,0)) :: nil).
Proof. cunf. repeat f_equal; ring. Qed.
Lemma Cylinder_rev_H q0 q1 : rev_H ROps (Cylinder_X ROps (q0,q1)) (Cylinder_H ROps) = (((0,0,-1),(0,0,0)) :: ((0,0,0),(0,0,-1)) :: nil).
Proof. cunf. repeat f_equal; ring. Qed.
Lemma Screw_rev_H pitch q : rev_H ROps (Screw_X ROps pitch q) (Screw_H ROps pitch) = (((0,0,-1),(0,0,-pitch)) :: nil).
Proof. cunf. repeat f_equal; ring. Qed.
Lemma Translation_rev_H q : rev_H ROps (Translation_X ROps q) (Translation_H ROps) = (((0,0,0),(-1,0,0)) :: ((0,0,0),(0,-1,0)) :: ((0,0,0),(0,0,-1)) :: nil).
Proof. destruct q as [[q0 q1] q2]. cunf. repeat f_equal; ring. Qed.

(** non-vacuity: the side conditions are satisfiable at non-trivial coordinates *)
Example C05_hyps_satisfiable : cos (PI/3) <> 0 /\ (1/2)*(1/2) + (1/2)*(1/2) + (1/2)*(1/2) + (1/2)*(1/2) <> 0 /\ is_rot (RotZ ROps (PI/3)).
Proof. split; [ rewrite cos_PI3; lra | split; [ lra | apply RotZ_rot ] ]. Qed.
