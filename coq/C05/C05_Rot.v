(** C05/C03 shared proof library, part 1: rotation matrices (orthonormal, determinant 1) and the
    algebra needed by the product rule: cof R = R, R [w]x = [R w]x R, R (a x b) = (R a) x (R b). *)
From Coq Require Import ZArith Reals Lra Lia Psatz Nsatz List.
From Coquelicot Require Import Coquelicot.
Require Import Num Vec Tactics rot_gen C28_Defs C28_Proofs C05_Model.
Local Open Scope R_scope.

(** ** rotations *)
Definition is_rot (R : Mat33 R) : Prop := m33_mul ROps R (m33_T R) = I33 /\ m33_det ROps R = 1.
(** cofactor matrix *)
Definition cof (M : Mat33 R) : Mat33 R := let '(r0,r1,r2) := M in (v3_cross ROps r1 r2, v3_cross ROps r2 r0, v3_cross ROps r0 r1).

Ltac d33 M := destruct M as [[[? ?] ?] [[? ?] ?] [[? ?] ?]] || destruct M as [[[[? ?] ?] [[? ?] ?]] [[? ?] ?]].
Ltac d3v v := destruct v as [[? ?] ?].
Ltac inj9 H := unfold I33 in H; vunf; injection H; clear H; intros.

Lemma rot_cof M : is_rot M -> cof M = M.
Proof. intros [H D]. destruct M as [[[[a b] c] [[d e] f]] [[g h] k]]. revert H D. unfold cof, m33_det, I33. vunf.
  intros H D. injection H; clear H; intros. teq; nsatz_or_fail. Qed.
Lemma rot_T M : is_rot M -> is_rot (m33_T M).
Proof. intros HR. generalize (rot_cof M HR). destruct HR as [H D]. destruct M as [[[[a b] c] [[d e] f]] [[g h] k]]. revert H D.
  unfold cof, is_rot, m33_det, I33. vunf. intros H D C. injection C; clear C; intros. injection H; clear H; intros.
  split; [ teq; nsatz_or_fail | nsatz_or_fail ]. Qed.
Lemma rot_TM M : is_rot M -> m33_mul ROps (m33_T M) M = I33.
Proof. intros HR. destruct (rot_T M HR) as [H _]. replace (m33_T (m33_T M)) with M in H; auto.
  destruct M as [[[[a b] c] [[d e] f]] [[g h] k]]. reflexivity. Qed.
Lemma rot_mul A B : is_rot A -> is_rot B -> is_rot (m33_mul ROps A B).
Proof. intros [HA DA] [HB DB]. destruct A as [[[[a b] c] [[d e] f]] [[g h] k]]. destruct B as [[[[a' b'] c'] [[d' e'] f']] [[g' h'] k']].
  revert HA DA HB DB. unfold is_rot, m33_det, I33. vunf. intros HA DA HB DB. injection HA; clear HA; intros. injection HB; clear HB; intros.
  split; [ teq; nsatz_or_fail | nsatz_or_fail ]. Qed.
Lemma rot_id : is_rot (m33_id ROps).
Proof. split; unfold m33_det, I33; vunf; teq; ring. Qed.
(** R [w]x = [R w]x R for a rotation R (with cofactors it is an identity of polynomials) *)
Lemma cof_cross M w : m33_mul ROps (m33_crossMat ROps (m33_mulv ROps M w)) M = m33_mul ROps (cof M) (m33_crossMat ROps w).
Proof. destruct M as [[[[a b] c] [[d e] f]] [[g h] k]]. d3v w. unfold cof. vunf. teq; ring. Qed.
Lemma rot_cross M w : is_rot M -> m33_mul ROps M (m33_crossMat ROps w) = m33_mul ROps (m33_crossMat ROps (m33_mulv ROps M w)) M.
Proof. intros HR. rewrite cof_cross, (rot_cof M HR). reflexivity. Qed.
Lemma rot_cross_v M a b : is_rot M -> m33_mulv ROps M (v3_cross ROps a b) = v3_cross ROps (m33_mulv ROps M a) (m33_mulv ROps M b).
Proof. intros HR. generalize (rot_cof M HR). destruct M as [[[[a0 b0] c] [[d e] f]] [[g h] k]]. d3v a. d3v b. unfold cof. vunf. intros C.
  injection C; clear C; intros. teq; nsatz_or_fail. Qed.

