(** C05 theorems, second wave: LineOrientation, FreeLine, SphericalCoords (offsets / signs / axis options),
    Ellipsoid.  Same statements as C05_Proofs.v. *)
From Coq Require Import ZArith Reals Lra Lia Psatz Nsatz List.
From Coquelicot Require Import Coquelicot.
Require Import Num Vec Tactics rot_gen C28_Defs C28_Proofs C05_Model C05_Rot C05_Jet C05_Proofs.
Local Open Scope R_scope.

(** ** LineOrientation / FreeLine: the two rotational speeds are the x,y measure numbers of w_FM expressed in M,
    and the z measure number of w_FM in M is zero *)
Lemma Line_speeds_meaning R u0 u1 : is_rot R ->
  m33_Tmulv ROps R (fst (Hu ROps (Line_H ROps R) (u0 :: u1 :: nil))) = (u0, u1, 0).
Proof. intros HR. generalize (rot_TM R HR). destruct R as [[[[a b] c] [[d e] f]] [[g h] k]]. cunf. intros C.
  injection C; clear C; intros. teq; nsatz_or_fail. Qed.

(** Euler-angle option: qdot = N_B(q) (u0,u1,0) *)
Lemma Line_jet_e q0 q1 q2 u0 u1 : cos q1 <> 0 ->
  let qd := Line_Ne ROps (q0,q1,q2) (u0,u1) in
  moves_with (fun t => Ball_Xe ROps (q0 + t*v3_0 qd, q1 + t*v3_1 qd, q2 + t*v3_2 qd))
             (Hu ROps (Line_H ROps (Rxyz ROps (q0,q1,q2))) (u0 :: u1 :: nil)).
Proof. intros Hc qd; subst qd. sc q0; sc q1; sc q2. mw; dj. Qed.
(** quaternion: qdot = N_Q(q) (R_FM (u0,u1,0)) *)
Lemma Line_jet_q e0 e1 e2 e3' u0 u1 : e0*e0+e1*e1+e2*e2+e3'*e3' <> 0 ->
  let qd := Line_Nq ROps (e0,e1,e2,e3') (u0,u1) in
  moves_with (fun t => Ball_Xq ROps (e0 + t*v4_0 qd, e1 + t*v4_1 qd, e2 + t*v4_2 qd, e3' + t*v4_3 qd))
             (Hu ROps (Line_H ROps (quatR ROps (e0,e1,e2,e3'))) (u0 :: u1 :: nil)).
Proof. intros Hn qd; subst qd. mw; dj. Qed.
Lemma FreeLine_jet_e q0 q1 q2 p0 p1 p2 u0 u1 v0 v1 v2 : cos q1 <> 0 ->
  let qd := Line_Ne ROps (q0,q1,q2) (u0,u1) in
  moves_with (fun t => Free_Xe ROps (q0 + t*v3_0 qd, q1 + t*v3_1 qd, q2 + t*v3_2 qd) (p0 + t*v0, p1 + t*v1, p2 + t*v2))
             (Hu ROps (Line_H ROps (Rxyz ROps (q0,q1,q2)) ++ Translation_H ROps) (u0 :: u1 :: v0 :: v1 :: v2 :: nil)).
Proof. intros Hc qd; subst qd. sc q0; sc q1; sc q2. mw; dj. Qed.
Lemma FreeLine_jet_q e0 e1 e2 e3' p0 p1 p2 u0 u1 v0 v1 v2 : e0*e0+e1*e1+e2*e2+e3'*e3' <> 0 ->
  let qd := Line_Nq ROps (e0,e1,e2,e3') (u0,u1) in
  moves_with (fun t => Free_Xq ROps (e0 + t*v4_0 qd, e1 + t*v4_1 qd, e2 + t*v4_2 qd, e3' + t*v4_3 qd) (p0 + t*v0, p1 + t*v1, p2 + t*v2))
             (Hu ROps (Line_H ROps (quatR ROps (e0,e1,e2,e3')) ++ Translation_H ROps) (u0 :: u1 :: v0 :: v1 :: v2 :: nil)).
Proof. intros Hn qd; subst qd. mw; dj. Qed.

(** ** SphericalCoords, every option: signs s_i with s_i^2 = 1 are not even needed for the jet *)
Lemma Sph_doc az0 s0 ze0 s1 ax s2 q0 q1 q2 :
  let o := mkSc az0 s0 ze0 s1 ax s2 in
  Sph_X ROps o (q0,q1,q2) =
  xf_compose ROps (m33_mul ROps (RotZ ROps (s0*q0+az0)) (RotY ROps (s1*q1+ze0)), (0,0,0))
                  (I33, v3_scale ROps (s2*q2) (if ax then ex ROps else ez ROps)).
Proof. intros o; subst o. destruct ax; cunf; teq; ring. Qed.
Lemma Sph_jet az0 s0 ze0 s1 ax s2 q0 q1 q2 u0 u1 u2 :
  let o := mkSc az0 s0 ze0 s1 ax s2 in
  moves_with (fun t => Sph_X ROps o (q0 + t*u0, q1 + t*u1, q2 + t*u2)) (Hu ROps (Sph_H ROps o (q0,q1,q2)) (u0 :: u1 :: u2 :: nil)).
Proof. intros o; subst o. sc (s0*q0+az0); sc (s1*q1+ze0). destruct ax; mw; dj. Qed.

(** ** Ellipsoid: Mo stays on the ellipsoid surface; jets for both coordinate options *)
Lemma Ell_on_surface a b c R : a <> 0 -> b <> 0 -> c <> 0 -> is_rot R ->
  let p := Ell_p ROps (a,b,c) R in (v3_0 p / a)*(v3_0 p / a) + (v3_1 p / b)*(v3_1 p / b) + (v3_2 p / c)*(v3_2 p / c) = 1.
Proof. intros Ha Hb Hc HR p; subst p. generalize (rot_TM R HR). destruct R as [[[[r0 r1] r2] [[r3 r4] r5]] [[r6 r7] r8]]. cunf. intros C.
  injection C; clear C; intros. field_simplify_eq; auto. cbv [Rpow_def.pow]. nsatz_or_fail. Qed.
Lemma Ell_jet_e a b c q0 q1 q2 w0 w1 w2 : cos q1 <> 0 ->
  let qd := Ball_Ne ROps (q0,q1,q2) (w0,w1,w2) in
  moves_with (fun t => Ell_Xe ROps (a,b,c) (q0 + t*v3_0 qd, q1 + t*v3_1 qd, q2 + t*v3_2 qd))
             (Hu ROps (Ell_H ROps (a,b,c) (Rxyz ROps (q0,q1,q2))) (w0 :: w1 :: w2 :: nil)).
Proof. intros Hc qd; subst qd. sc q0; sc q1; sc q2. mw; dj. Qed.
Lemma Ell_jet_q a b c e0 e1 e2 e3' w0 w1 w2 : e0*e0+e1*e1+e2*e2+e3'*e3' <> 0 ->
  let qd := Ball_Nq ROps (e0,e1,e2,e3') (w0,w1,w2) in
  moves_with (fun t => Ell_Xq ROps (a,b,c) (e0 + t*v4_0 qd, e1 + t*v4_1 qd, e2 + t*v4_2 qd, e3' + t*v4_3 qd))
             (Hu ROps (Ell_H ROps (a,b,c) (quatR ROps (e0,e1,e2,e3'))) (w0 :: w1 :: w2 :: nil)).
Proof. intros Hn qd; subst qd. mw; dj. Qed.
(** the comment in RigidBodyNodeSpec_Ellipsoid.h says the surface normal at Mo is aligned with Mz; for the
    implemented point rule p = (a n0, b n1, c n2) the outward normal is (n0/a, n1/b, n2/c), which is parallel to
    n only for a sphere.  Witness: semi-axes (1,2,1), n = (3/5,4/5,0). *)
Lemma Ell_normal_aligned_refuted : exists a b c n0 n1 n2, n0*n0+n1*n1+n2*n2 = 1 /\
  v3_cross ROps (n0/a, n1/b, n2/c) (n0,n1,n2) <> (0,0,0).
Proof. exists 1, 2, 1, (3/5), (4/5), 0. split; [ field | ]. vunf. intros E. injection E; intros. lra. Qed.
