(** C06 (relocation part): the tree operators are invariant under any isomorphism of the spatial
    structure -- in particular under rigidly relocating the whole model with respect to Ground, which
    acts on the per-body Ground-frame data by a rotation.  For EVERY tree. *)
From Coq Require Import List Reals Lra.
Import ListNotations.
Require Import Tree MB.
Local Open Scope R_scope.

Section Iso.
Context {V L I : Type} (K : VSp R V L I).
Variables (rV : V -> V) (rL : L -> L) (rI : I -> I).
Hypothesis r_dot : forall a b, dot K (rV a) (rV b) = dot K a b.
Hypothesis r_add : forall a b, rV (vadd K a b) = vadd K (rV a) (rV b).
Hypothesis r_scale : forall s a, rV (vscale K s a) = vscale K s (rV a).
Hypothesis r_zero : rV (vzero K) = vzero K.
Hypothesis r_phiT : forall l a, rV (phiT K l a) = phiT K (rL l) (rV a).
Hypothesis r_phi : forall l f, rV (phi K l f) = phi K (rL l) (rV f).
Hypothesis r_M : forall i a, rV (mapply K i a) = mapply K (rI i) (rV a).

Context {X : Type} (nd : X -> node V L I).
Definition rnode (n : node V L I) : node V L I := mkNode (rL (n_l n)) (map rV (n_H n)) (rI (n_M n)).
Definition nd' (x : X) : node V L I := rnode (nd x).

Lemma r_Hmul H u : rV (Hmul K H u) = Hmul K (map rV H) u.
Proof. revert u; induction H as [|h H IH]; intros [|x u]; cbn; auto. rewrite r_add, r_scale, IH. reflexivity. Qed.
Lemma r_Htmul H Z : Htmul K (map rV H) (rV Z) = Htmul K H Z.
Proof. unfold Htmul. rewrite map_map. apply map_ext. intros h. apply r_dot. Qed.

(** velocities/accelerations of the relocated model are the relocated velocities *)
Theorem kin_relocated (u : X -> list R) (e : X -> V) (Vp : V) (t : tree X) :
  kin K nd' u (fun x => rV (e x)) (rV Vp) t = tmap (fun xv => (fst xv, rV (snd xv))) (kin K nd u e Vp t).
Proof. unfold kin. symmetry. apply outward_conj. intros b a. cbn. rewrite !r_add, r_phiT, r_Hmul. reflexivity. Qed.

(** accumulated forces of the relocated model are the relocated accumulated forces *)
Theorem accum_relocated (F : X -> V) (t : tree X) :
  accum K nd' (fun x => rV (F x)) t = tmap (fun xz => (fst xz, rV (snd xz))) (accum K nd F t).
Proof. unfold accum. symmetry. apply inward_conj. intros a rs. unfold gather. rewrite r_add. f_equal.
  induction rs as [|r rs IH]; cbn; [apply r_zero|]. rewrite r_add, r_phi, IH. reflexivity. Qed.

(** generalized forces J^T F are unchanged *)
Theorem mulJt_relocated (F : X -> V) (t : tree X) : mulJt K nd' (fun x => rV (F x)) t = mulJt K nd F t.
Proof. unfold mulJt. rewrite accum_relocated, tmap_tmap. apply tmap_ext. intros [x z]. cbn [fst snd]. unfold nd', rnode. cbn [n_H]. rewrite r_Htmul. reflexivity. Qed.
End Iso.

(** relabelling the nodes of a tree commutes with the inward pass *)
Section Relabel.
Context {V L I : Type} (K : VSp R V L I) {Y Y' : Type} (g : Y -> Y') (nd2 : Y' -> node V L I) (F2 : Y' -> V).
Lemma accum_relabel (s : tree Y) :
  accum K nd2 F2 (tmap g s) = tmap (fun yz => (g (fst yz), snd yz)) (accum K (fun y => nd2 (g y)) (fun y => F2 (g y)) s).
Proof. unfold accum. induction s as [y cs IH] using tree_ind'. cbn [tmap inward].
  assert (E : map (inward (gather K nd2 F2)) (map (tmap g) cs)
            = map (tmap (fun yz : Y * V => (g (fst yz), snd yz))) (map (inward (gather K (fun y => nd2 (g y)) (fun y => F2 (g y)))) cs)).
  { induction cs as [|c r IHr]; cbn; auto. inversion IH; subst. f_equal; auto. }
  rewrite E. cbn [tmap fst snd]. f_equal. f_equal. unfold gather. f_equal.
  rewrite !map_map. clear IH E. induction cs as [|c r IHr]; cbn [map fold_right]; auto. rewrite IHr. f_equal.
  destruct (inward _ c) as [[a z] ks]. reflexivity. Qed.
End Relabel.

Section IsoM.
Context {V L I : Type} (K : VSp R V L I).
Variables (rV : V -> V) (rL : L -> L) (rI : I -> I).
Hypothesis r_dot : forall a b, dot K (rV a) (rV b) = dot K a b.
Hypothesis r_add : forall a b, rV (vadd K a b) = vadd K (rV a) (rV b).
Hypothesis r_scale : forall s a, rV (vscale K s a) = vscale K s (rV a).
Hypothesis r_zero : rV (vzero K) = vzero K.
Hypothesis r_phiT : forall l a, rV (phiT K l a) = phiT K (rL l) (rV a).
Hypothesis r_phi : forall l f, rV (phi K l f) = phi K (rL l) (rV f).
Hypothesis r_M : forall i a, rV (mapply K i a) = mapply K (rI i) (rV a).
Context {X : Type} (nd : X -> node V L I).

(** the mass-matrix operator is unchanged: (M' u)_b = (M u)_b for every body, every tree *)
Theorem mulM_relocated (u : X -> list R) (t : tree X) :
  tmap (fun xt => (fst (fst xt), snd xt)) (mulM K (nd' rV rL rI nd) u t) = tmap (fun xt => (fst (fst xt), snd xt)) (mulM K nd u t).
Proof.
  unfold mulM, mulJ.
  assert (Ek : kin K (nd' rV rL rI nd) u (fun x => rV ((fun _ => vzero K) x)) (rV (vzero K)) t
             = tmap (fun xv => (fst xv, rV (snd xv))) (kin K nd u (fun _ => vzero K) (vzero K) t)) by (apply kin_relocated; assumption).
  cbv beta in Ek.
  assert (Ee : (fun _ : X => rV (vzero K)) = (fun _ => vzero K)) by (rewrite r_zero; reflexivity).
  rewrite Ee, r_zero in Ek. rewrite Ek. clear Ek Ee.
  generalize (kin K nd u (fun _ => vzero K) (vzero K) t). intros s.
  unfold mulJt.
  rewrite (accum_relabel K (fun xv : X * V => (fst xv, rV (snd xv)))).
  cbn [fst snd].
  assert (EF : (fun y : X * V => mapply K (n_M (nd' rV rL rI nd (fst y))) (rV (snd y)))
             = (fun y => rV (mapply K (n_M (nd (fst y))) (snd y)))).
  { apply FunctionalExtensionality.functional_extensionality. intros [x v]. cbn. rewrite r_M. reflexivity. }
  rewrite EF.
  change (fun y : X * V => nd' rV rL rI nd (fst y)) with (nd' rV rL rI (fun y : X * V => nd (fst y))).
  rewrite (accum_relocated K rV rL rI) by assumption.
  rewrite !tmap_tmap. apply tmap_ext. intros [[x v] z]. cbn [fst snd].
  unfold nd', rnode. cbn [n_H]. rewrite (r_Htmul K rV) by assumption. reflexivity.
Qed.
End IsoM.
