(** The rotation instance of the isomorphism of C06_Iso.v over the concrete spatial algebra:
    relocating the model by a proper rotation Q acts on per-body Ground-frame data as
    l -> Q l, H -> (Q w, Q v), inertia (m,p,I) -> (m, Q p, Q I Q^T). *)
From Coq Require Import List Reals Lra Nsatz.
Require Import Num Vec Tactics MB Spatial Spatial_Proofs.
Local Open Scope R_scope.

Definition proper (Q : Mat33 R) : Prop :=
  m33_mul ROps (m33_T Q) Q = m33_id ROps /\ m33_det ROps Q = 1.
Definition rotV (Q : Mat33 R) (a : SpatialVec R) : SpatialVec R := (m33_mulv ROps Q (fst a), m33_mulv ROps Q (snd a)).
Definition rotL (Q : Mat33 R) (l : Vec3 R) : Vec3 R := m33_mulv ROps Q l.
Definition rotI (Q : Mat33 R) (i : SpInertia (T:=R)) : SpInertia (T:=R) :=
  let '(m, p, Io) := i in (m, m33_mulv ROps Q p, sym_of_m33_lower (m33_mul ROps (m33_mul ROps Q (sym_to_m33 Io)) (m33_T Q))).

Ltac orth H := destruct H as [Ho Hd]; cbv [m33_mul m33_T m33_id m33_det m33_c0 m33_c1 m33_c2 m33_r0 m33_r1 m33_r2 v3_dot v3_cross v3_0 v3_1 v3_2 ROps n0 n1 nadd nsub nmul] in Ho, Hd;
  injection Ho; clear Ho; intros.

Lemma rot_dot Q a b : proper Q -> dot (svK ROps) (rotV Q a) (rotV Q b) = dot (svK ROps) a b.
Proof. intros H. destruct Q as [[[[q00 q01] q02] [[q10 q11] q12]] [[q20 q21] q22]]. orth H.
  dsv a; dsv b. unfold rotV. sunf. nsatz. Qed.
Lemma rot_add Q a b : rotV Q (vadd (svK ROps) a b) = vadd (svK ROps) (rotV Q a) (rotV Q b).
Proof. destruct Q as [[[[q00 q01] q02] [[q10 q11] q12]] [[q20 q21] q22]]. dsv a; dsv b. unfold rotV. sunf. teq; ring. Qed.
Lemma rot_scale Q s a : rotV Q (vscale (svK ROps) s a) = vscale (svK ROps) s (rotV Q a).
Proof. destruct Q as [[[[q00 q01] q02] [[q10 q11] q12]] [[q20 q21] q22]]. dsv a. unfold rotV. sunf. teq; ring. Qed.
Lemma rot_zero Q : rotV Q (vzero (svK ROps)) = vzero (svK ROps).
Proof. destruct Q as [[[[q00 q01] q02] [[q10 q11] q12]] [[q20 q21] q22]]. unfold rotV. sunf. teq; ring. Qed.
Lemma rot_phiT Q l a : proper Q -> rotV Q (phiT (svK ROps) l a) = phiT (svK ROps) (rotL Q l) (rotV Q a).
Proof. intros H. destruct Q as [[[[q00 q01] q02] [[q10 q11] q12]] [[q20 q21] q22]]. orth H.
  d3 l; dsv a. unfold rotV, rotL. sunf. teq; try ring; nsatz. Qed.
Lemma rot_phi Q l f : proper Q -> rotV Q (phi (svK ROps) l f) = phi (svK ROps) (rotL Q l) (rotV Q f).
Proof. intros H. destruct Q as [[[[q00 q01] q02] [[q10 q11] q12]] [[q20 q21] q22]]. orth H.
  d3 l; dsv f. unfold rotV, rotL. sunf. teq; try ring; nsatz. Qed.
Lemma rot_M Q i a : proper Q -> rotV Q (mapply (svK ROps) i a) = mapply (svK ROps) (rotI Q i) (rotV Q a).
Proof. intros H. destruct Q as [[[[q00 q01] q02] [[q10 q11] q12]] [[q20 q21] q22]]. orth H.
  destruct i as [[m p] [[[ixx iyy] izz] [[ixy ixz] iyz]]]. d3 p; dsv a. unfold rotV, rotI. sunf. teq; nsatz. Qed.

(** non-vacuity: a quarter turn about z is proper *)
Example quarter_turn_proper : proper ((0,-1,0),(1,0,0),(0,0,1)).
Proof. split; vunf; [teq; ring | ring]. Qed.
