(** C06 (mirror and reversed clauses).

    MIRROR clause.  A model written with Custom / FunctionBased mobilizers that mirror built-in ones is, for
    the tree operators of Lib/MB.v, just ANOTHER assignment of per-body data to the same tree.  The operators
    depend on a mobilizer only through its per-body data (shift vector n_l, hinge columns n_H, spatial inertia
    n_M).  Extensionality, for EVERY tree: if two node-data assignments agree on n_l, n_H and n_M at every node
    OF THE TREE (they may differ anywhere else) then kin / mulJ / accum / mulJt / mulM / ke2_terms agree.
    The check verifies the hypothesis on the implementation's data (shift vectors, getHCol, inertias of the
    custom model equal those of the built-in model) and the conclusion on its results.

    REVERSED clause.  Formulation of Simbody/tests/TestReverseMobilizers.cpp: forward model
    Ground -> A -(X, frames X_AM on A, X_BM on B)-> B; reversed model Ground -> B -(X declared Reverse, frames
    X_BM on B, X_AM on A)-> A with the same q,u.  From C05 (reversed_is_inverse, reversed_jet, rev_col_linear;
    imported, not re-proved): the reversed mobilizer's reported transform is the inverse and it moves with the
    reversed hinge columns times the SAME u.  Here: placing B of the reversed model where the forward model
    puts it makes A land where the forward model has it, for every q (hence along every trajectory). *)
From Coq Require Import List Reals Lra.
From Coquelicot Require Import Coquelicot.
Import ListNotations.
Require Import Num Vec Tactics Tree MB.
Require Import rot_gen C28_Defs C28_Proofs C05_Model C05_Rot C05_Jet C05_Proofs.
Local Open Scope R_scope.

(** * structural lemmas: passes only look at the nodes of the tree *)
Lemma in_flatten_kid {A} (a : A) (cs : list (tree A)) c x : In c cs -> In x (flatten c) -> In x (flatten (Node a cs)).
Proof. intros Hc Hx. cbn. right. apply in_flat_map. exists c; auto. Qed.
Lemma in_flatten_root {A} (t : tree A) : In (root t) (flatten t).
Proof. destruct t; cbn; auto. Qed.

Lemma tmap_ext_in {A B} (f g : A -> B) (t : tree A) : (forall x, In x (flatten t) -> f x = g x) -> tmap f t = tmap g t.
Proof. induction t as [a cs IH] using tree_ind'. intros E. cbn [tmap]. rewrite (E a) by (cbn; auto). f_equal.
  apply map_ext_in. intros c Hc. rewrite Forall_forall in IH. apply IH; auto.
  intros x Hx. apply E. eapply in_flatten_kid; eauto. Qed.

Lemma outward_ext_in {A B} (f f' : B -> A -> B) (t : tree A) :
  (forall b a, In a (flatten t) -> f b a = f' b a) -> forall b, outward f b t = outward f' b t.
Proof. induction t as [a cs IH] using tree_ind'. intros E b. cbn [outward]. rewrite (E b a) by (cbn; auto).
  cbv zeta. f_equal. apply map_ext_in. intros c Hc. rewrite Forall_forall in IH. apply IH; auto.
  intros b' x Hx. apply E. eapply in_flatten_kid; eauto. Qed.

Lemma root_inward_fst {A B} (g : A -> list (A * B) -> B) (t : tree A) : fst (root (inward g t)) = root t.
Proof. destruct t; reflexivity. Qed.

Lemma inward_ext_in {A B} (g g' : A -> list (A * B) -> B) (t : tree A) :
  (forall a rs, In a (flatten t) -> (forall r, In r rs -> In (fst r) (flatten t)) -> g a rs = g' a rs) ->
  inward g t = inward g' t.
Proof. induction t as [a cs IH] using tree_ind'. intros E. cbn [inward]. cbv zeta.
  assert (Ers : map (inward g) cs = map (inward g') cs).
  { apply map_ext_in. intros c Hc. rewrite Forall_forall in IH. apply IH; auto.
    intros x rs Hx Hrs. apply E; [ eapply in_flatten_kid; eauto | intros r Hr; eapply in_flatten_kid; eauto ]. }
  rewrite <- Ers. f_equal. f_equal. apply E; [cbn; auto|].
  intros r Hr. rewrite in_map_iff in Hr. destruct Hr as [s [<- Hs]]. rewrite in_map_iff in Hs. destruct Hs as [c [<- Hc]].
  rewrite root_inward_fst. eapply in_flatten_kid; eauto. apply in_flatten_root. Qed.

Lemma tmap_fst_inward {A B} (g : A -> list (A * B) -> B) (t : tree A) : tmap fst (inward g t) = t.
Proof. induction t as [a cs IH] using tree_ind'. cbn. f_equal. rewrite map_map.
  induction cs as [|c r IHr]; cbn; auto. inversion IH; subst. f_equal; auto. Qed.

Lemma in_flatten_fst {A B} (s : tree (A * B)) (t : tree A) y : tmap fst s = t -> In y (flatten s) -> In (fst y) (flatten t).
Proof. intros <- Hy. rewrite flatten_tmap. apply in_map; auto. Qed.

(** * extensionality of the tree operators in the per-body data *)
Section Ext.
Context {S V L I X : Type} (K : VSp S V L I).

(** two nodes carry the same per-body data *)
Definition same_data (a b : node V L I) : Prop := n_l a = n_l b /\ n_H a = n_H b /\ n_M a = n_M b.
Lemma same_data_eq a b : same_data a b -> a = b.
Proof. destruct a, b. unfold same_data. cbn. intros [-> [-> ->]]. reflexivity. Qed.

Variables nd nd' : X -> node V L I.
(** the two assignments agree at every node of the tree [t] *)
Definition agree_on (t : tree X) : Prop := forall x, In x (flatten t) -> same_data (nd x) (nd' x).

Theorem kin_ext (u : X -> list S) (e : X -> V) (Vp : V) (t : tree X) :
  agree_on t -> kin K nd u e Vp t = kin K nd' u e Vp t.
Proof. intros Ha. unfold kin. apply outward_ext_in. intros b a Hin. rewrite (same_data_eq _ _ (Ha a Hin)). reflexivity. Qed.

Theorem mulJ_ext (u : X -> list S) (t : tree X) : agree_on t -> mulJ K nd u t = mulJ K nd' u t.
Proof. intros Ha. unfold mulJ. apply kin_ext; auto. Qed.

Theorem accum_ext (F : X -> V) (t : tree X) : agree_on t -> accum K nd F t = accum K nd' F t.
Proof. intros Ha. unfold accum. apply inward_ext_in. intros a rs Hin Hrs. unfold gather. f_equal.
  induction rs as [|r rs IH]; cbn [fold_right]; auto.
  rewrite IH by (intros r' Hr'; apply Hrs; cbn; auto).
  rewrite (same_data_eq _ _ (Ha (fst r) (Hrs r (or_introl eq_refl)))). reflexivity. Qed.

Theorem mulJt_ext (F : X -> V) (t : tree X) : agree_on t -> mulJt K nd F t = mulJt K nd' F t.
Proof. intros Ha. unfold mulJt. rewrite (accum_ext F t Ha). apply tmap_ext_in. intros xz Hin.
  assert (Hx : In (fst xz) (flatten t)) by (eapply in_flatten_fst; [ apply tmap_fst_inward | exact Hin ]).
  rewrite (same_data_eq _ _ (Ha _ Hx)). reflexivity. Qed.

Theorem ke2_terms_ext (u : X -> list S) (t : tree X) : agree_on t -> ke2_terms K nd u t = ke2_terms K nd' u t.
Proof. intros Ha. unfold ke2_terms. rewrite (mulJ_ext u t Ha). apply tmap_ext_in. intros xv Hin.
  assert (Hx : In (fst xv) (flatten t)) by (eapply in_flatten_fst; [ apply tmap_fst_outward | exact Hin ]).
  rewrite (same_data_eq _ _ (Ha _ Hx)). reflexivity. Qed.
End Ext.

Section ExtM.
Context {S V L I X : Type} (K : VSp S V L I) (nd nd' : X -> node V L I).
(** the mass-matrix operator (and hence M itself, column by column) agrees *)
Theorem mulM_ext (udot : X -> list S) (t : tree X) : agree_on nd nd' t -> mulM K nd udot t = mulM K nd' udot t.
Proof. intros Ha. unfold mulM. rewrite (mulJ_ext K nd nd' udot t Ha).
  set (s := mulJ K nd' udot t).
  assert (Hs : tmap fst s = t) by apply tmap_fst_outward.
  assert (Ha' : agree_on (fun xv : X * V => nd (fst xv)) (fun xv => nd' (fst xv)) s).
  { intros xv Hin. apply Ha. eapply in_flatten_fst; eauto. }
  rewrite (mulJt_ext K _ _ _ s Ha'). unfold mulJt. f_equal. unfold accum.
  apply inward_ext_in. intros a rs Hin _. unfold gather. f_equal.
  rewrite (same_data_eq _ _ (Ha _ (in_flatten_fst s t a Hs Hin))). reflexivity. Qed.
End ExtM.

(** non-vacuity: two assignments that differ OFF the tree (label 7) and agree on a concrete 3-body tree *)
Example agree_on_nontrivial :
  let t := Node 1%nat [Node 2%nat [Node 3%nat []]] in
  let nd  := fun x : nat => mkNode (V:=R) (L:=R) (I:=R) (INR x) [INR x] 1 in
  let nd' := fun x : nat => if Nat.eqb x 7 then mkNode 0 [] 0 else mkNode (V:=R) (L:=R) (I:=R) (INR x) [INR x] 1 in
  agree_on nd nd' t /\ nd 7%nat <> nd' 7%nat.
Proof. cbv zeta. split.
  - intros x Hx. cbn in Hx. destruct Hx as [<-|[<-|[<-|[]]]]; cbn; repeat split.
  - cbn. intros E. injection E. intros. lra. Qed.

(** * reversed mobilizers (formulation of TestReverseMobilizers.cpp) *)
Lemma xf_assoc (X Y Z : Transform R) : xf_compose ROps (xf_compose ROps X Y) Z = xf_compose ROps X (xf_compose ROps Y Z).
Proof. destruct X as [[[[[a0 b0] c0] [[d0 e0] f0]] [[g0 h0] k0]] [[x0 x1] x2]].
  destruct Y as [[[[[a1 b1] c1] [[d1 e1] f1]] [[g1 h1] k1]] [[y0 y1] y2]].
  destruct Z as [[[[[a2 b2] c2] [[d2 e2] f2]] [[g2 h2] k2]] [[z0 z1] z2]]. vunf. teq; ring. Qed.
Lemma xf_id_r (X : Transform R) : xf_compose ROps X (I33, (0,0,0)) = X.
Proof. destruct X as [[[[[a0 b0] c0] [[d0 e0] f0]] [[g0 h0] k0]] [[x0 x1] x2]]. unfold I33. vunf. teq; ring. Qed.
Lemma xf_id_l (X : Transform R) : xf_compose ROps (I33, (0,0,0)) X = X.
Proof. destruct X as [[[[[a0 b0] c0] [[d0 e0] f0]] [[g0 h0] k0]] [[x0 x1] x2]]. unfold I33. vunf. teq; ring. Qed.

(** pose of the outboard body of a mobilizer with inboard frame X_PF, outboard frame X_BM and
    across-mobilizer transform X_FM, given the pose of the parent:  X_GB = X_GP X_PF X_FM X_BM^-1 *)
Definition child_pose (X_GP X_PF X_FM X_BM : Transform R) : Transform R :=
  xf_compose ROps (xf_compose ROps (xf_compose ROps X_GP X_PF) X_FM) (rev_X ROps X_BM).

(** forward: A -(X)-> B.  Reversed: B -(rev_X X)-> A with the two frames swapped.  If B of the reversed model
    sits where the forward model puts it, A of the reversed model sits where the forward model has it. *)
Theorem reversed_chain_same_pose (X_GA X_AM X_BM X : Transform R) :
  is_rot (fst X_AM) -> is_rot (fst X_BM) -> is_rot (fst X) ->
  let X_GB := child_pose X_GA X_AM X X_BM in
  child_pose X_GB X_BM (rev_X ROps X) X_AM = X_GA.
Proof. intros HA HB HX. cbv zeta. unfold child_pose.
  destruct (reversed_is_inverse X HX) as [_ HXr].
  destruct (reversed_is_inverse X_BM HB) as [HBl _].
  destruct (reversed_is_inverse X_AM HA) as [_ HAr].
  rewrite !xf_assoc.
  rewrite <- (xf_assoc (rev_X ROps X_BM) X_BM). rewrite HBl, xf_id_l.
  rewrite <- (xf_assoc X (rev_X ROps X)). rewrite HXr, xf_id_l.
  rewrite HAr, xf_id_r. reflexivity. Qed.

(** and symmetrically the forward model reproduces B from the reversed model's A *)
Theorem reversed_chain_same_pose_back (X_GB X_AM X_BM X : Transform R) :
  is_rot (fst X_AM) -> is_rot (fst X_BM) -> is_rot (fst X) ->
  let X_GA := child_pose X_GB X_BM (rev_X ROps X) X_AM in
  child_pose X_GA X_AM X X_BM = X_GB.
Proof. intros HA HB HX. cbv zeta. unfold child_pose.
  destruct (reversed_is_inverse X HX) as [HXl _].
  destruct (reversed_is_inverse X_BM HB) as [_ HBr].
  destruct (reversed_is_inverse X_AM HA) as [HAl _].
  rewrite !xf_assoc.
  rewrite <- (xf_assoc (rev_X ROps X_AM) X_AM). rewrite HAl, xf_id_l.
  rewrite <- (xf_assoc (rev_X ROps X) X). rewrite HXl, xf_id_l.
  rewrite HBr, xf_id_r. reflexivity. Qed.

(** velocity level: with the SAME generalized speeds u, the reversed hinge columns (what the check reads
    back from getH_FMCol of the Reverse mobilizer) generate exactly the motion of the inverse pose *)
Theorem reversed_same_speeds (X : R -> Transform R) (H : list (SpatialVec R)) (u : list R) :
  is_rot (fst (X 0)) -> moves_with X (Hu ROps H u) ->
  moves_with (fun t => rev_X ROps (X t)) (Hu ROps (rev_H ROps (X 0) H) u).
Proof. intros HR Hm. unfold rev_H. rewrite <- rev_col_linear. apply reversed_jet; auto. Qed.

(** non-vacuity of the reversed theorems: a quarter turn about z with an offset is a rigid transform *)
Example reversed_hyps_satisfiable : is_rot (fst (RotZ ROps (PI/3), (1, 2, 3))).
Proof. cbn [fst]. apply RotZ_rot. Qed.
