(** C07: Ball and Weld (see C07_Proofs.v for the conventions). *)
From Coq Require Import ZArith Reals Lra Lia Psatz Nsatz List.
From Coquelicot Require Import Coquelicot.
Require Import Num Vec Tactics C07_Model C07_Proofs.
Import ListNotations.
Local Open Scope R_scope.

(** * Ball: off the manifold  verr = d/dt perr - w1 x perr  and  aerr = d/dt verr + w1 x verr *)
Lemma ball_verr_relation i X1 X2 V1 V2 s1 s2 : orth (fst X1) ->
  is_derive (fun t => vc i (ball_perr ROps (Xt X1 V1 t) (Xt X2 V2 t) s1 s2)) 0
            (vc i (ball_verr ROps X1 X2 V1 V2 s2 +v fst V1 xv ball_perr ROps X1 X2 s1 s2)).
Proof. intros H. unfold ball_verr. rewrite stVel_toB by auto.
  dX X1; dX X2; dSV V1; dSV V2; d3 s1; d3 s2. di i; cunf; jet0. Qed.
Lemma ball_aerr_relation i X1 X2 V1 V2 A1 A2 s2 : orth (fst X1) ->
  is_derive (fun t => vc i (ball_verr ROps (Xt X1 V1 t) (Xt X2 V2 t) (Vt V1 A1 t) (Vt V2 A2 t) s2)) 0
            (vc i (ball_aerr ROps X1 X2 V1 V2 A1 A2 s2 -v fst V1 xv ball_verr ROps X1 X2 V1 V2 s2)).
Proof. intros H. unfold ball_aerr. rewrite stAcc_toB by auto. unfold ball_verr at 2. rewrite stVel_toB by auto.
  eapply is_derive_ext. { intros t. unfold ball_verr. rewrite stVel_toB_t by auto. reflexivity. }
  dX X1; dX X2; dSV V1; dSV V2; dSV A1; dSV A2; d3 s2. di i; cunf; jet0. Qed.
Lemma ball_force_is_transpose X1 X2 V1 V2 s2 lam : orth (fst X1) ->
  v3_dot ROps lam (ball_verr ROps X1 X2 V1 V2 s2) =
  sv_dot ROps (fst (ball_force ROps X1 X2 s2 lam)) V1 + sv_dot ROps (snd (ball_force ROps X1 X2 s2 lam)) V2.
Proof. intros H. unfold ball_verr, ball_force. rewrite stVel_toB, stForce_toB by auto.
  dX X1; dX X2; dSV V1; dSV V2; d3 s2; d3 lam. cunf. ring. Qed.
