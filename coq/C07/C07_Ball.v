(** C07: Ball and Weld (see C07_Proofs.v for the conventions). *)
From Coq Require Import ZArith Reals Lra Lia Psatz Nsatz List.
From Coquelicot Require Import Coquelicot.
Require Import Num Vec Tactics C07_Model C07_Proofs.
Import ListNotations.
Local Open Scope R_scope.

(** * Ball: off the manifold  verr = d/dt perr - w1 x perr  and  aerr = d/dt verr + w1 x verr *)
Lemma ball_verr_relation i X1 X2 V1 V2 s1 s2 : orth (fst X1) ->
  is_derive (fun t => vc i (ball_perr ROps (Xt X1 V1 t) (Xt X2 V2 t) s1 s2)) 0
            (vc i (ball_verr ROps X1 X2 V1 V2 s2 +v fst V1 xv ball_perr ROps X1 X2 s1 s2)).
Proof. intros H. unfold ball_verr. rewrite stVel_toB by auto.
  dX X1; dX X2; dSV V1; dSV V2; d3 s1; d3 s2. di i; cunf; jet0. Qed.
Lemma ball_aerr_relation i X1 X2 V1 V2 A1 A2 s2 : orth (fst X1) ->
  is_derive (fun t => vc i (ball_verr ROps (Xt X1 V1 t) (Xt X2 V2 t) (Vt V1 A1 t) (Vt V2 A2 t) s2)) 0
            (vc i (ball_aerr ROps X1 X2 V1 V2 A1 A2 s2 -v fst V1 xv ball_verr ROps X1 X2 V1 V2 s2)).
Proof. intros H. unfold ball_aerr. rewrite stAcc_toB by auto. unfold ball_verr at 2. rewrite stVel_toB by auto.
  eapply is_derive_ext. { intros t. unfold ball_verr. rewrite stVel_toB_t by auto. reflexivity. }
  dX X1; dX X2; dSV V1; dSV V2; dSV A1; dSV A2; d3 s2. di i; cunf; jet0. Qed.
Lemma ball_force_is_transpose X1 X2 V1 V2 s2 lam : orth (fst X1) ->
  v3_dot ROps lam (ball_verr ROps X1 X2 V1 V2 s2) =
  sv_dot ROps (fst (ball_force ROps X1 X2 s2 lam)) V1 + sv_dot ROps (snd (ball_force ROps X1 X2 s2 lam)) V2.
Proof. intros H. unfold ball_verr, ball_force. rewrite stVel_toB, stForce_toB by auto.
  dX X1; dX X2; dSV V1; dSV V2; d3 s2; d3 lam. cunf. ring. Qed.
Lemma ball_force_balanced X1 X2 s2 lam : orth (fst X1) -> balanced2 X1 X2 (ball_force ROps X1 X2 s2 lam).
Proof. intros H. unfold ball_force. rewrite stForce_toB by auto. dX X1; dX X2; d3 s2; d3 lam. cunf. teq; ring. Qed.

(** corollaries: the hierarchy is the plain one on the manifold, or when body 1 does not rotate in A (e.g. it IS the ancestor) *)
Lemma vc_add_cross_zero i a w : vc i (a +v w xv O3) = vc i a.
Proof. d3 a; d3 w. di i; cunf; unfold O3; ring. Qed.
Lemma vc_sub_cross_zero i a w : vc i (a -v w xv O3) = vc i a.
Proof. d3 a; d3 w. di i; cunf; unfold O3; ring. Qed.
Lemma vc_add_zero_cross i a b : vc i (a +v O3 xv b) = vc i a.
Proof. d3 a; d3 b. di i; cunf; unfold O3; ring. Qed.
Lemma vc_sub_zero_cross i a b : vc i (a -v O3 xv b) = vc i a.
Proof. d3 a; d3 b. di i; cunf; unfold O3; ring. Qed.
Lemma ball_verr_is_jet_on_manifold i X1 X2 V1 V2 s1 s2 : orth (fst X1) -> ball_perr ROps X1 X2 s1 s2 = O3 ->
  is_derive (fun t => vc i (ball_perr ROps (Xt X1 V1 t) (Xt X2 V2 t) s1 s2)) 0 (vc i (ball_verr ROps X1 X2 V1 V2 s2)).
Proof. intros H Hp. generalize (ball_verr_relation i X1 X2 V1 V2 s1 s2 H). rewrite Hp, vc_add_cross_zero. auto. Qed.
Lemma ball_verr_is_jet_body1_not_rotating i X1 X2 V1 V2 s1 s2 : orth (fst X1) -> fst V1 = O3 ->
  is_derive (fun t => vc i (ball_perr ROps (Xt X1 V1 t) (Xt X2 V2 t) s1 s2)) 0 (vc i (ball_verr ROps X1 X2 V1 V2 s2)).
Proof. intros H Hw. generalize (ball_verr_relation i X1 X2 V1 V2 s1 s2 H). rewrite Hw, vc_add_zero_cross. auto. Qed.
Lemma ball_aerr_is_jet_on_manifold i X1 X2 V1 V2 A1 A2 s2 : orth (fst X1) -> ball_verr ROps X1 X2 V1 V2 s2 = O3 ->
  is_derive (fun t => vc i (ball_verr ROps (Xt X1 V1 t) (Xt X2 V2 t) (Vt V1 A1 t) (Vt V2 A2 t) s2)) 0
            (vc i (ball_aerr ROps X1 X2 V1 V2 A1 A2 s2)).
Proof. intros H Hp. generalize (ball_aerr_relation i X1 X2 V1 V2 A1 A2 s2 H). rewrite Hp, vc_sub_cross_zero. auto. Qed.
Lemma ball_aerr_is_jet_body1_not_rotating i X1 X2 V1 V2 A1 A2 s2 : orth (fst X1) -> fst V1 = O3 ->
  is_derive (fun t => vc i (ball_verr ROps (Xt X1 V1 t) (Xt X2 V2 t) (Vt V1 A1 t) (Vt V2 A2 t) s2)) 0
            (vc i (ball_aerr ROps X1 X2 V1 V2 A1 A2 s2)).
Proof. intros H Hw. generalize (ball_aerr_relation i X1 X2 V1 V2 A1 A2 s2 H). rewrite Hw, vc_sub_zero_cross. auto. Qed.

(** refutation of the property's "possibly violated" clause for Ball: body 1 = frame at the origin spinning about z,
    body 2 at rest with its station at (1,0,0): perr = (1,0,0), verr = (0,-1,0) but d/dt perr = 0 *)
Lemma ball_verr_is_jet_refuted : exists X1 X2 V1 V2 s1 s2 i, orth (fst X1) /\ orth (fst X2) /\
  ~ is_derive (fun t => vc i (ball_perr ROps (Xt X1 V1 t) (Xt X2 V2 t) s1 s2)) 0 (vc i (ball_verr ROps X1 X2 V1 V2 s2)).
Proof.
  exists (I3,O3), (I3,(1,0,0)), ((0,0,1),O3), (O3,O3), O3, O3, 1%nat.
  repeat split; try apply orth_I3. intros Hd.
  pose proof (ball_verr_relation 1 (I3,O3) (I3,(1,0,0)) ((0,0,1),O3) (O3,O3) O3 O3 orth_I3) as Hr.
  pose proof (is_derive_same _ _ _ _ Hd Hr) as E. revert E. unfold I3, O3. cunf. lra.
Qed.
(** and one level up: body 1 spinning about z, body 2's station at the origin moving along x: verr = (1,0,0),
    aerr = 0 but d/dt verr = (0,-1,0) *)
Lemma ball_aerr_is_jet_refuted : exists X1 X2 V1 V2 A1 A2 s2 i, orth (fst X1) /\ orth (fst X2) /\
  ~ is_derive (fun t => vc i (ball_verr ROps (Xt X1 V1 t) (Xt X2 V2 t) (Vt V1 A1 t) (Vt V2 A2 t) s2)) 0
              (vc i (ball_aerr ROps X1 X2 V1 V2 A1 A2 s2)).
Proof.
  exists (I3,O3), (I3,O3), ((0,0,1),O3), (O3,(1,0,0)), (O3,O3), (O3,O3), O3, 1%nat.
  repeat split; try apply orth_I3. intros Hd.
  pose proof (ball_aerr_relation 1 (I3,O3) (I3,O3) ((0,0,1),O3) (O3,(1,0,0)) (O3,O3) (O3,O3) O3 orth_I3) as Hr.
  pose proof (is_derive_same _ _ _ _ Hd Hr) as E. revert E. unfold I3, O3. cunf. lra.
Qed.

(** * Weld: orientation part exactly as ConstantOrientation, position part exactly as Ball *)
Lemma weld_verr_ori_is_jet i XB XF VB VF FB FF :
  is_derive (fun t => vc i (fst (weld_perr ROps (Xt XB VB t) (Xt XF VF t) FB FF))) 0 (vc i (fst (weld_verr ROps XB XF VB VF FB FF))).
Proof. unfold weld_perr, weld_verr. cbn [fst]. apply ori_verr_is_jet. Qed.
Lemma weld_aerr_ori_is_jet i XB XF VB VF AB AF FB FF :
  is_derive (fun t => vc i (fst (weld_verr ROps (Xt XB VB t) (Xt XF VF t) (Vt VB AB t) (Vt VF AF t) FB FF))) 0
            (vc i (fst (weld_aerr ROps XB XF VB VF AB AF FB FF))).
Proof. unfold weld_verr, weld_aerr. cbn [fst]. apply ori_aerr_is_jet. Qed.
Lemma weld_verr_pos_relation i XB XF VB VF FB FF : orth (fst XB) ->
  is_derive (fun t => vc i (snd (weld_perr ROps (Xt XB VB t) (Xt XF VF t) FB FF))) 0
            (vc i (snd (weld_verr ROps XB XF VB VF FB FF) +v fst VB xv snd (weld_perr ROps XB XF FB FF))).
Proof. intros H. unfold weld_perr, weld_verr. cbn [snd]. apply ball_verr_relation; auto. Qed.
Lemma weld_aerr_pos_relation i XB XF VB VF AB AF FB FF : orth (fst XB) ->
  is_derive (fun t => vc i (snd (weld_verr ROps (Xt XB VB t) (Xt XF VF t) (Vt VB AB t) (Vt VF AF t) FB FF))) 0
            (vc i (snd (weld_aerr ROps XB XF VB VF AB AF FB FF) -v fst VB xv snd (weld_verr ROps XB XF VB VF FB FF))).
Proof. intros H. unfold weld_verr, weld_aerr. cbn [snd]. apply ball_aerr_relation; auto. Qed.
Lemma weld_verr_pos_is_jet_on_manifold i XB XF VB VF FB FF : orth (fst XB) -> snd (weld_perr ROps XB XF FB FF) = O3 ->
  is_derive (fun t => vc i (snd (weld_perr ROps (Xt XB VB t) (Xt XF VF t) FB FF))) 0 (vc i (snd (weld_verr ROps XB XF VB VF FB FF))).
Proof. intros H Hp. unfold weld_perr, weld_verr in *. cbn [snd] in *. apply ball_verr_is_jet_on_manifold; auto. Qed.
Lemma weld_aerr_pos_is_jet_on_manifold i XB XF VB VF AB AF FB FF : orth (fst XB) -> snd (weld_verr ROps XB XF VB VF FB FF) = O3 ->
  is_derive (fun t => vc i (snd (weld_verr ROps (Xt XB VB t) (Xt XF VF t) (Vt VB AB t) (Vt VF AF t) FB FF))) 0
            (vc i (snd (weld_aerr ROps XB XF VB VF AB AF FB FF))).
Proof. intros H Hp. unfold weld_verr, weld_aerr in *. cbn [snd] in *. apply ball_aerr_is_jet_on_manifold; auto. Qed.
Lemma weld_verr_is_jet_refuted : exists XB XF VB VF FB FF i, orth (fst XB) /\ orth (fst XF) /\
  ~ is_derive (fun t => vc i (snd (weld_perr ROps (Xt XB VB t) (Xt XF VF t) FB FF))) 0 (vc i (snd (weld_verr ROps XB XF VB VF FB FF))).
Proof.
  destruct ball_verr_is_jet_refuted as (X1 & X2 & V1 & V2 & s1 & s2 & i & H1 & H2 & Hn).
  exists X1, X2, V1, V2, (I3, s1), (I3, s2), i. repeat split; auto.
Qed.
Lemma sv_dot_add_l a b c : sv_dot ROps (sv_add ROps a b) c = sv_dot ROps a c + sv_dot ROps b c.
Proof. dSV a; dSV b; dSV c. vunf. ring. Qed.
Lemma weld_force_is_transpose XB XF VB VF FB FF lam : orth (fst XB) ->
  v3_dot ROps (fst lam) (fst (weld_verr ROps XB XF VB VF FB FF)) + v3_dot ROps (snd lam) (snd (weld_verr ROps XB XF VB VF FB FF)) =
  sv_dot ROps (fst (weld_force ROps XB XF FB FF lam)) VB + sv_dot ROps (snd (weld_force ROps XB XF FB FF lam)) VF.
Proof. intros H. unfold weld_verr, weld_force. cbn [fst snd].
  rewrite (ori_force_is_transpose XB XF VB VF (fst FB) (fst FF) (fst lam)), (ball_force_is_transpose XB XF VB VF (snd FF) (snd lam) H).
  destruct (ori_force ROps XB XF (fst FB) (fst FF) (fst lam)) as [tB tF]. destruct (ball_force ROps XB XF (snd FF) (snd lam)) as [fB fF].
  cbn [fst snd]. rewrite !sv_dot_add_l. ring. Qed.
Lemma weld_force_balanced XB XF FB FF lam : orth (fst XB) -> balanced2 XB XF (weld_force ROps XB XF FB FF lam).
Proof. intros H. unfold weld_force.
  pose proof (ori_force_balanced XB XF (fst FB) (fst FF) (fst lam)) as Ho. pose proof (ball_force_balanced XB XF (snd FF) (snd lam) H) as Hb.
  destruct (ori_force ROps XB XF (fst FB) (fst FF) (fst lam)) as [tB tF]. destruct (ball_force ROps XB XF (snd FF) (snd lam)) as [fB fF].
  unfold balanced2 in *. cbn [fst snd] in *. dX XB; dX XF; dSV tB; dSV tF; dSV fB; dSV fF. revert Ho Hb. cunf. intros Ho Hb.
  injection Ho as ? ? ? ? ? ?. injection Hb as ? ? ? ? ? ?. teq; lra. Qed.
