(** C07 model, second wave: the contact constraints, hand-written from Constraint_SphereOnPlaneContactImpl.h,
    Constraint_PointOnPlaneContactImpl.h, Constraint_SphereOnSphereContactImpl.h + Constraint_SphereOnSphereContact.cpp,
    in the conventions of C07_Model.v (poses, spatial velocities, accelerations of the two bodies in the Ancestor frame;
    forces as (on first body, on second body)).  No proofs here. *)
From Coq Require Import List ZArith.
Import ListNotations.
Require Import Num Vec C07_Model.

Section M. Context {T:Type} (K:NumOps T).
Local Notation "x + y" := (nadd K x y). Local Notation "x * y" := (nmul K x y). Local Notation "x - y" := (nsub K x y).
Local Notation "a +v b" := (v3_add K a b) (at level 50, left associativity).
Local Notation "a -v b" := (v3_sub K a b) (at level 50, left associativity).
Local Notation "a 'xv' b" := (v3_cross K a b) (at level 40, left associativity).
Local Notation "s *v a" := (v3_scale K s a) (at level 40, left associativity).

(** ** SphereOnPlaneContact: plane frame XFP = (RP,pP) fixed on the floor body F (first body), sphere centre pO and radius r on
       the ball body B (second body).  One holonomic equation along the plane normal Pz; with rolling two nonholonomic
       equations along Px, Py for the velocity in F of the material point of B at the contact point C = O - r Pz. *)
Definition sop_axes (XF:Transform T) (XFP:Transform T) : Vec3 T * Vec3 T * Vec3 T :=
  let M := m33_mul K (fst XF) (fst XFP) in (m33_c0 M, m33_c1 M, m33_c2 M).      (* R_AP = R_AF * R_FP = [Px Py Pz]_A *)
Definition sop_PzA (XF XFP:Transform T) : Vec3 T := Rmul K XF (m33_c2 (fst XFP)).
Definition sop_perr (XF XB XFP:Transform T) (pO:Vec3 T) (r:T) : T :=
  let h := v3_dot K (snd XFP) (m33_c2 (fst XFP)) in
  v3_dot K (stLoc K XB pO -v snd XF) (sop_PzA XF XFP) - (h + r).
(** p_FO, its A-derivative and the F-frame velocity of the sphere centre *)
Definition sop_pFO (XF XB:Transform T) (pO:Vec3 T) : Vec3 T := stLoc K XB pO -v snd XF.
Definition sop_vFO (XF XB:Transform T) (VF VB:SpatialVec T) (pO:Vec3 T) : Vec3 T :=
  (stVel K XB VB pO -v snd VF) -v fst VF xv sop_pFO XF XB pO.
Definition sop_aFO (XF XB:Transform T) (VF VB AF AB:SpatialVec T) (pO:Vec3 T) : Vec3 T :=
  let pFO := sop_pFO XF XB pO in
  let pFOd := stVel K XB VB pO -v snd VF in
  let pFOdd := stAcc K XB VB AB pO -v snd AF in
  let vFO := pFOd -v fst VF xv pFO in
  let vFOd := pFOdd -v (fst AF xv pFO +v fst VF xv pFOd) in
  vFOd -v fst VF xv vFO.
Definition sop_verr (XF XB:Transform T) (VF VB:SpatialVec T) (XFP:Transform T) (pO:Vec3 T) : T :=
  v3_dot K (sop_vFO XF XB VF VB pO) (sop_PzA XF XFP).
Definition sop_aerr (XF XB:Transform T) (VF VB AF AB:SpatialVec T) (XFP:Transform T) (pO:Vec3 T) : T :=
  v3_dot K (sop_aFO XF XB VF VB AF AB pO) (sop_PzA XF XFP).
(** contact point measured from B's and from F's origin, in A *)
Definition sop_pBC (XF XB XFP:Transform T) (pO:Vec3 T) (r:T) : Vec3 T := Rmul K XB pO -v r *v sop_PzA XF XFP.
Definition sop_pFC (XF XB XFP:Transform T) (pO:Vec3 T) (r:T) : Vec3 T := (snd XB +v sop_pBC XF XB XFP pO r) -v snd XF.
Definition contact_forces (pF pB f:Vec3 T) : SpatialVec T * SpatialVec T := (sv_neg K (pF xv f, f), (pB xv f, f)).
Definition sop_force (XF XB XFP:Transform T) (pO:Vec3 T) (r lam:T) : SpatialVec T * SpatialVec T :=
  contact_forces (sop_pFC XF XB XFP pO r) (sop_pBC XF XB XFP pO r) (lam *v sop_PzA XF XFP).
(** rolling *)
Definition sopr_vFC (XF XB:Transform T) (VF VB:SpatialVec T) (XFP:Transform T) (pO:Vec3 T) (r:T) : Vec3 T :=
  let pBC := sop_pBC XF XB XFP pO r in
  let vAC := snd VB +v fst VB xv pBC in
  (vAC -v snd VF) -v fst VF xv ((snd XB +v pBC) -v snd XF).
Definition sopr_verr (XF XB:Transform T) (VF VB:SpatialVec T) (XFP:Transform T) (pO:Vec3 T) (r:T) : T * T :=
  let '(Px,Py,_) := sop_axes XF XFP in let v := sopr_vFC XF XB VF VB XFP pO r in (v3_dot K Px v, v3_dot K Py v).
Definition sopr_aFC (XF XB:Transform T) (VF VB AF AB:SpatialVec T) (XFP:Transform T) (pO:Vec3 T) (r:T) : Vec3 T :=
  let '(_,_,Pz) := sop_axes XF XFP in
  let bFB := (fst AB -v fst AF) -v fst VF xv fst VB in
  sop_aFO XF XB VF VB AF AB pO -v bFB xv (r *v Pz).
Definition sopr_aerr (XF XB:Transform T) (VF VB AF AB:SpatialVec T) (XFP:Transform T) (pO:Vec3 T) (r:T) : T * T :=
  let '(Px,Py,_) := sop_axes XF XFP in let a := sopr_aFC XF XB VF VB AF AB XFP pO r in (v3_dot K Px a, v3_dot K Py a).
Definition sopr_force (XF XB XFP:Transform T) (pO:Vec3 T) (r:T) (lam:T*T) : SpatialVec T * SpatialVec T :=
  let '(Px,Py,Pz) := sop_axes XF XFP in
  let pBC := Rmul K XB pO -v r *v Pz in
  contact_forces ((snd XB +v pBC) -v snd XF) pBC (fst lam *v Px +v snd lam *v Py).

(** ** PointOnPlaneContact: plane frame XSP on the surface body S (first body), follower station s on B.  Every equation is a
       PointInPlane-type equation along one axis of the plane frame (normal: holonomic; x,y: nonholonomic, velocity level only),
       all written with the material point C of S coincident with the follower point. *)
Definition pop_axis (XSP:Transform T) (i:nat) : Vec3 T :=
  match i with O => m33_c0 (fst XSP) | S O => m33_c1 (fst XSP) | _ => m33_c2 (fst XSP) end.
Definition pop_perr (XS XB XSP:Transform T) (s:Vec3 T) : T :=
  pip_perr K XS XB (pop_axis XSP 2) (v3_dot K (snd XSP) (pop_axis XSP 2)) s.
Definition pop_verr (i:nat) (XS XB:Transform T) (VS VB:SpatialVec T) (XSP:Transform T) (s:Vec3 T) : T := pip_verr K XS XB VS VB (pop_axis XSP i) s.
Definition pop_aerr (i:nat) (XS XB:Transform T) (VS VB AS AB:SpatialVec T) (XSP:Transform T) (s:Vec3 T) : T := pip_aerr K XS XB VS VB AS AB (pop_axis XSP i) s.
Definition pop_force (i:nat) (XS XB XSP:Transform T) (s:Vec3 T) (lam:T) : SpatialVec T * SpatialVec T := pip_force K XS XB (pop_axis XSP i) s lam.

(** ** SphereOnSphereContact: sphere centre sF, radius rf on F (first body); centre sB, radius rb on B.  The normal equation is
       the Rod equation between the centres with length rf+rb.  Rolling: the contact point Co = Sf + kf p_SfSb, kf = rf/(rf+rb);
       tangential axes Cx, Cy of the contact frame are INPUTS here (the code takes them from Rotation::setRotationFromOneAxis(Cz)). *)
Definition sos_perr (XF XB:Transform T) (sF sB:Vec3 T) (rf rb:T) : T := rod_perr K XF XB sF sB (rf + rb).
Definition sos_verr := @rod_verr T K.
Definition sos_aerr := @rod_aerr T K.
Definition sos_force := @rod_force T K.
Definition sos_kf (rf rb:T) : T := ndiv K rf (rf + rb).
Definition sos_pFCo (XF XB:Transform T) (sF sB:Vec3 T) (rf rb:T) : Vec3 T :=
  (stLoc K XF sF +v sos_kf rf rb *v rod_d K XF XB sF sB) -v snd XF.
Definition sos_pBCo (XF XB:Transform T) (sF sB:Vec3 T) (rf rb:T) : Vec3 T :=
  (stLoc K XF sF +v sos_kf rf rb *v rod_d K XF XB sF sB) -v snd XB.
Definition sosr_vFBCo (XF XB:Transform T) (VF VB:SpatialVec T) (sF sB:Vec3 T) (rf rb:T) : Vec3 T :=
  (snd VB +v fst VB xv sos_pBCo XF XB sF sB rf rb) -v (snd VF +v fst VF xv sos_pFCo XF XB sF sB rf rb).
Definition sosr_verr (XF XB:Transform T) (VF VB:SpatialVec T) (sF sB:Vec3 T) (rf rb:T) (Cx Cy:Vec3 T) : T * T :=
  let v := sosr_vFBCo XF XB VF VB sF sB rf rb in (v3_dot K v Cx, v3_dot K v Cy).
(** acceleration errors exactly as calcVelocityDotErrorsVirtual + ensureVelocityCacheRealized (regular branch r >= tiny) *)
Definition sosr_aerr (tiny:T) (XF XB:Transform T) (VF VB AF AB:SpatialVec T) (sF sB:Vec3 T) (rf rb:T) (Cx Cy:Vec3 T) : T * T :=
  let Cz := rod_Cz K tiny XF XB sF sB in
  let pd := rod_pd K XF XB VF VB sF sB in
  let wF := fst VF in let wB := fst VB in
  let pdFB := snd VB -v snd VF in
  let pdFCo := wF xv Rmul K XF sF +v sos_kf rf rb *v pd in
  let pdBCo := pdFCo -v pdFB in
  let Czd := rod_Czd K tiny XF XB VF VB sF sB in
  let CzdF := Czd -v wF xv Cz in
  let Cxd := v3_neg K CzdF xv Cy +v wF xv Cx in
  let Cyd := CzdF xv Cx +v wF xv Cy in
  let vdF := (snd AF +v fst AF xv sos_pFCo XF XB sF sB rf rb) +v wF xv pdFCo in
  let vdB := (snd AB +v fst AB xv sos_pBCo XF XB sF sB rf rb) +v wB xv pdBCo in
  let vd := vdB -v vdF in
  let v := sosr_vFBCo XF XB VF VB sF sB rf rb in
  (v3_dot K vd Cx + v3_dot K v Cxd, v3_dot K vd Cy + v3_dot K v Cyd).
Definition sosr_force (XF XB:Transform T) (sF sB:Vec3 T) (rf rb:T) (Cx Cy:Vec3 T) (lam:T*T) : SpatialVec T * SpatialVec T :=
  contact_forces (sos_pFCo XF XB sF sB rf rb) (sos_pBCo XF XB sF sB rf rb) (fst lam *v Cx +v snd lam *v Cy).

(** ** uniform entry points (kinds 13 SphereOnPlane, 14 +rolling, 15 SphereOnSphere, 16 +rolling, 17 PointOnPlane).
       par layouts: 13/14: RP(9) pP(3) pO(3) r;  15/16: sF(3) sB(3) rf rb [Cx(3) Cy(3)];  17: RP(9) pP(3) s(3) *)
Definition ev2_perr (kind:nat) (tiny:T) (par:list T) (anc:@bk T) (bs:list (@bk T)) : list T :=
  let b0 := inA K anc (nthb K bs 0) in let b1 := inA K anc (nthb K bs 1) in
  let XP := (m33at K par 0, v3at K par 9) in
  match kind with
  | 13 | 14 => [sop_perr (bX b0) (bX b1) XP (v3at K par 12) (nthd K par 15)]
  | 15 | 16 => [sos_perr (bX b0) (bX b1) (v3at K par 0) (v3at K par 3) (nthd K par 6) (nthd K par 7)]
  | 17 => [pop_perr (bX b0) (bX b1) XP (v3at K par 12)]
  | _ => []
  end.
Definition ev2_verr (kind:nat) (tiny:T) (par:list T) (anc:@bk T) (bs:list (@bk T)) : list T :=
  let b0 := inA K anc (nthb K bs 0) in let b1 := inA K anc (nthb K bs 1) in
  let XP := (m33at K par 0, v3at K par 9) in
  let X0 := bX b0 in let X1 := bX b1 in let V0 := bV b0 in let V1 := bV b1 in
  match kind with
  | 13 => [sop_verr X0 X1 V0 V1 XP (v3at K par 12)]
  | 14 => let '(e0,e1) := sopr_verr X0 X1 V0 V1 XP (v3at K par 12) (nthd K par 15) in [sop_verr X0 X1 V0 V1 XP (v3at K par 12); e0; e1]
  | 15 => [sos_verr tiny X0 X1 V0 V1 (v3at K par 0) (v3at K par 3)]
  | 16 => let '(e0,e1) := sosr_verr X0 X1 V0 V1 (v3at K par 0) (v3at K par 3) (nthd K par 6) (nthd K par 7) (v3at K par 8) (v3at K par 11) in
          [sos_verr tiny X0 X1 V0 V1 (v3at K par 0) (v3at K par 3); e0; e1]
  | 17 => [pop_verr 2 X0 X1 V0 V1 XP (v3at K par 12); pop_verr 0 X0 X1 V0 V1 XP (v3at K par 12); pop_verr 1 X0 X1 V0 V1 XP (v3at K par 12)]
  | _ => []
  end.
Definition ev2_aerr (kind:nat) (tiny:T) (par:list T) (anc:@bk T) (bs:list (@bk T)) : list T :=
  let b0 := inA K anc (nthb K bs 0) in let b1 := inA K anc (nthb K bs 1) in
  let XP := (m33at K par 0, v3at K par 9) in
  let X0 := bX b0 in let X1 := bX b1 in let V0 := bV b0 in let V1 := bV b1 in let A0 := bA b0 in let A1 := bA b1 in
  match kind with
  | 13 => [sop_aerr X0 X1 V0 V1 A0 A1 XP (v3at K par 12)]
  | 14 => let '(e0,e1) := sopr_aerr X0 X1 V0 V1 A0 A1 XP (v3at K par 12) (nthd K par 15) in [sop_aerr X0 X1 V0 V1 A0 A1 XP (v3at K par 12); e0; e1]
  | 15 => [sos_aerr tiny X0 X1 V0 V1 A0 A1 (v3at K par 0) (v3at K par 3)]
  | 16 => let '(e0,e1) := sosr_aerr tiny X0 X1 V0 V1 A0 A1 (v3at K par 0) (v3at K par 3) (nthd K par 6) (nthd K par 7) (v3at K par 8) (v3at K par 11) in
          [sos_aerr tiny X0 X1 V0 V1 A0 A1 (v3at K par 0) (v3at K par 3); e0; e1]
  | 17 => [pop_aerr 2 X0 X1 V0 V1 A0 A1 XP (v3at K par 12); pop_aerr 0 X0 X1 V0 V1 A0 A1 XP (v3at K par 12); pop_aerr 1 X0 X1 V0 V1 A0 A1 XP (v3at K par 12)]
  | _ => []
  end.
Definition sv2_add (a b:SpatialVec T * SpatialVec T) : SpatialVec T * SpatialVec T := (sv_add K (fst a) (fst b), sv_add K (snd a) (snd b)).
Definition ev2_force (kind:nat) (tiny:T) (par:list T) (anc:@bk T) (bs:list (@bk T)) (lam:list T) : list (SpatialVec T) :=
  let b0 := inA K anc (nthb K bs 0) in let b1 := inA K anc (nthb K bs 1) in
  let XP := (m33at K par 0, v3at K par 9) in
  let X0 := bX b0 in let X1 := bX b1 in
  let p2 (x:SpatialVec T * SpatialVec T) := [fst x; snd x] in
  match kind with
  | 13 => p2 (sop_force X0 X1 XP (v3at K par 12) (nthd K par 15) (nthd K lam 0))
  | 14 => p2 (sv2_add (sop_force X0 X1 XP (v3at K par 12) (nthd K par 15) (nthd K lam 0))
                      (sopr_force X0 X1 XP (v3at K par 12) (nthd K par 15) (nthd K lam 1, nthd K lam 2)))
  | 15 => p2 (sos_force tiny X0 X1 (v3at K par 0) (v3at K par 3) (nthd K lam 0))
  | 16 => p2 (sv2_add (sos_force tiny X0 X1 (v3at K par 0) (v3at K par 3) (nthd K lam 0))
                      (sosr_force X0 X1 (v3at K par 0) (v3at K par 3) (nthd K par 6) (nthd K par 7) (v3at K par 8) (v3at K par 11) (nthd K lam 1, nthd K lam 2)))
  | 17 => p2 (sv2_add (pop_force 2 X0 X1 XP (v3at K par 12) (nthd K lam 0))
                      (sv2_add (pop_force 0 X0 X1 XP (v3at K par 12) (nthd K lam 1)) (pop_force 1 X0 X1 XP (v3at K par 12) (nthd K lam 2))))
  | _ => []
  end.
Definition ev2_forceG (kind:nat) (tiny:T) (par:list T) (anc:@bk T) (bs:list (@bk T)) (lam:list T) : list (SpatialVec T) :=
  map (forceToG K (bX anc)) (ev2_force kind tiny par anc bs lam).
End M.
