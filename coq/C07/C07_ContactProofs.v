(** C07 second wave: SphereOnPlaneContact (with and without rolling), PointOnPlaneContact, SphereOnSphereContact.
    Conventions of C07_Proofs.v.  SphereOnPlaneContact differentiates in the floor body's frame and measures along axes fixed
    in that body, so its scalar errors form an exact derivative hierarchy off the manifold too (no coincident material point
    enters the error equations; none of the statements needs orthogonality). *)
From Coq Require Import ZArith Reals Lra Lia Psatz Nsatz List.
From Coquelicot Require Import Coquelicot.
Require Import Num Vec Tactics C07_Model C07_Contact C07_Proofs C07_Point C07_Rod C07_System.
Import ListNotations.
Local Open Scope R_scope.

Ltac c2unf := cbv [sop_axes sop_PzA sop_perr sop_pFO sop_vFO sop_aFO sop_verr sop_aerr sop_pBC sop_pFC contact_forces sop_force
  sopr_vFC sopr_verr sopr_aFC sopr_aerr sopr_force sos_kf sos_pFCo sos_pBCo sosr_vFBCo sosr_verr sosr_force]; cunf.

(** * SphereOnPlaneContact, normal equation *)
Lemma sop_verr_is_jet XF XB VF VB XFP pO r :
  is_derive (fun t => sop_perr ROps (Xt XF VF t) (Xt XB VB t) XFP pO r) 0 (sop_verr ROps XF XB VF VB XFP pO).
Proof. dX XF; dX XB; dSV VF; dSV VB; dX XFP; d3 pO. c2unf. jet0. Qed.
Lemma sop_aerr_is_jet XF XB VF VB AF AB XFP pO :
  is_derive (fun t => sop_verr ROps (Xt XF VF t) (Xt XB VB t) (Vt VF AF t) (Vt VB AB t) XFP pO) 0
            (sop_aerr ROps XF XB VF VB AF AB XFP pO).
Proof. dX XF; dX XB; dSV VF; dSV VB; dSV AF; dSV AB; dX XFP; d3 pO. c2unf. jet0. Qed.
Lemma sop_force_is_transpose XF XB VF VB XFP pO r lam :
  lam * sop_verr ROps XF XB VF VB XFP pO =
  sv_dot ROps (fst (sop_force ROps XF XB XFP pO r lam)) VF + sv_dot ROps (snd (sop_force ROps XF XB XFP pO r lam)) VB.
Proof. dX XF; dX XB; dSV VF; dSV VB; dX XFP; d3 pO. c2unf. ring. Qed.
Lemma sop_force_balanced XF XB XFP pO r lam : balanced2 XF XB (sop_force ROps XF XB XFP pO r lam).
Proof. dX XF; dX XB; dX XFP; d3 pO. c2unf. teq; ring. Qed.

(** * SphereOnPlaneContact, rolling equations: aerr is the time derivative of verr for ANY motion of both bodies *)
Lemma sopr_aerr_is_jet0 XF XB VF VB AF AB XFP pO r :
  is_derive (fun t => fst (sopr_verr ROps (Xt XF VF t) (Xt XB VB t) (Vt VF AF t) (Vt VB AB t) XFP pO r)) 0
            (fst (sopr_aerr ROps XF XB VF VB AF AB XFP pO r)).
Proof. dX XF; dX XB; dSV VF; dSV VB; dSV AF; dSV AB; dX XFP; d3 pO. c2unf. jet0. Qed.
Lemma sopr_aerr_is_jet1 XF XB VF VB AF AB XFP pO r :
  is_derive (fun t => snd (sopr_verr ROps (Xt XF VF t) (Xt XB VB t) (Vt VF AF t) (Vt VB AB t) XFP pO r)) 0
            (snd (sopr_aerr ROps XF XB VF VB AF AB XFP pO r)).
Proof. dX XF; dX XB; dSV VF; dSV VB; dSV AF; dSV AB; dX XFP; d3 pO. c2unf. jet0. Qed.
Lemma sopr_force_is_transpose XF XB VF VB XFP pO r lam :
  fst lam * fst (sopr_verr ROps XF XB VF VB XFP pO r) + snd lam * snd (sopr_verr ROps XF XB VF VB XFP pO r) =
  sv_dot ROps (fst (sopr_force ROps XF XB XFP pO r lam)) VF + sv_dot ROps (snd (sopr_force ROps XF XB XFP pO r lam)) VB.
Proof. dX XF; dX XB; dSV VF; dSV VB; dX XFP; d3 pO; destruct lam. c2unf. ring. Qed.
Lemma sopr_force_balanced XF XB XFP pO r lam : balanced2 XF XB (sopr_force ROps XF XB XFP pO r lam).
Proof. dX XF; dX XB; dX XFP; d3 pO; destruct lam. c2unf. teq; ring. Qed.
(** the seeded-defect shape: replacing w_AF x w_AB by w_AB x w_AF in b_FB changes aerr by 2 r ((w_AF x w_AB) x Pz) . Px, which
    is non-zero for a rotating floor body and a non-parallel ball spin -- so the jet theorem pins the sign *)
Lemma sopr_transport_term_matters : exists XF XB VF VB AF AB XFP pO r,
  let wrong := v3_dot ROps (m33_c0 (m33_mul ROps (fst XF) (fst XFP)))
      (sop_aFO ROps XF XB VF VB AF AB pO -v ((fst AB -v fst AF) -v fst VB xv fst VF) xv (r *v sop_PzA ROps XF XFP)) in
  wrong <> fst (sopr_aerr ROps XF XB VF VB AF AB XFP pO r).
Proof. exists (I3,O3), (I3,O3), ((0,0,1),O3), ((1,0,0),O3), (O3,O3), (O3,O3), (I3,O3), O3, 1.
  unfold I3, O3. c2unf. intro H. lra. Qed.

(** * PointOnPlaneContact: PointInPlane equations along the three axes of the plane frame *)
Lemma pop_verr_is_jet XS XB VS VB XSP s : orth (fst XS) ->
  is_derive (fun t => pop_perr ROps (Xt XS VS t) (Xt XB VB t) XSP s) 0 (pop_verr ROps 2 XS XB VS VB XSP s).
Proof. intros H. apply pip_verr_is_jet; auto. Qed.
Lemma pop_aerr_is_jet i XS XB VS VB AS AB XSP s : orth (fst XS) ->
  is_derive (fun t => pop_verr ROps i (Xt XS VS t) (Xt XB VB t) (Vt VS AS t) (Vt VB AB t) XSP s) 0 (pop_aerr ROps i XS XB VS VB AS AB XSP s).
Proof. intros H. apply pip_aerr_is_jet; auto. Qed.
Lemma pop_force_is_transpose i XS XB VS VB XSP s lam : orth (fst XS) ->
  lam * pop_verr ROps i XS XB VS VB XSP s =
  sv_dot ROps (fst (pop_force ROps i XS XB XSP s lam)) VS + sv_dot ROps (snd (pop_force ROps i XS XB XSP s lam)) VB.
Proof. intros H. apply pip_force_is_transpose; auto. Qed.
Lemma pop_force_balanced i XS XB XSP s lam : orth (fst XS) -> balanced2 XS XB (pop_force ROps i XS XB XSP s lam).
Proof. intros H. apply pip_force_balanced; auto. Qed.

(** * SphereOnSphereContact: the normal equation is the Rod equation between the centres *)
Lemma sos_verr_is_jet XF XB VF VB sF sB rf rb : 0 < v3_normSqr ROps (rod_d ROps XF XB sF sB) ->
  is_derive (fun t => sos_perr ROps (Xt XF VF t) (Xt XB VB t) sF sB rf rb) 0 (rod_verr_reg XF XB VF VB sF sB).
Proof. intros H. apply rod_verr_is_jet; auto. Qed.
Lemma sos_regular_branch tiny XF XB VF VB AF AB sF sB : rod_singular ROps tiny XF XB sF sB = false ->
  sos_verr ROps tiny XF XB VF VB sF sB = rod_verr_reg XF XB VF VB sF sB /\
  sos_aerr ROps tiny XF XB VF VB AF AB sF sB = rod_aerr_reg XF XB VF VB AF AB sF sB.
Proof. intros H. destruct (rod_regular_branch tiny XF XB VF VB AF AB sF sB H) as [_ [A B]]. split; auto. Qed.
Lemma sos_force_is_transpose tiny XF XB VF VB sF sB lam :
  lam * sos_verr ROps tiny XF XB VF VB sF sB =
  sv_dot ROps (fst (sos_force ROps tiny XF XB sF sB lam)) VF + sv_dot ROps (snd (sos_force ROps tiny XF XB sF sB lam)) VB.
Proof. apply rod_force_is_transpose. Qed.
Lemma sos_force_balanced tiny XF XB sF sB lam : rod_singular ROps tiny XF XB sF sB = false -> balanced2 XF XB (sos_force ROps tiny XF XB sF sB lam).
Proof. apply rod_force_balanced. Qed.
(** rolling: equal and opposite forces at the common contact point Co, transpose of the tangential velocity errors, for any axes Cx, Cy *)
Lemma sosr_force_is_transpose XF XB VF VB sF sB rf rb Cx Cy lam :
  fst lam * fst (sosr_verr ROps XF XB VF VB sF sB rf rb Cx Cy) + snd lam * snd (sosr_verr ROps XF XB VF VB sF sB rf rb Cx Cy) =
  sv_dot ROps (fst (sosr_force ROps XF XB sF sB rf rb Cx Cy lam)) VF + sv_dot ROps (snd (sosr_force ROps XF XB sF sB rf rb Cx Cy lam)) VB.
Proof. unfold sosr_verr, sosr_force, sosr_vFBCo, sos_pFCo, sos_pBCo. generalize (sos_kf ROps rf rb *v rod_d ROps XF XB sF sB). intros kd.
  dX XF; dX XB; dSV VF; dSV VB; d3 sF; d3 sB; d3 Cx; d3 Cy; d3 kd; destruct lam. c2unf. ring. Qed.
Lemma sosr_force_balanced XF XB sF sB rf rb Cx Cy lam : balanced2 XF XB (sosr_force ROps XF XB sF sB rf rb Cx Cy lam).
Proof. unfold sosr_force, sos_pFCo, sos_pBCo. generalize (sos_kf ROps rf rb *v rod_d ROps XF XB sF sB). intros kd.
  dX XF; dX XB; d3 sF; d3 sB; d3 Cx; d3 Cy; d3 kd; destruct lam. c2unf. teq; ring. Qed.
