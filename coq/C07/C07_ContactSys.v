(** C07 second wave, system level: multiplyByGTranspose is the exact adjoint of multiplyByG for the contact constraints,
    for every tree, Ancestor (a rotation) and body pair -- same composition as C07_SysTypes.v. *)
From Coq Require Import ZArith Reals Lra Lia Psatz Nsatz List.
From Coquelicot Require Import Coquelicot.
Require Import Num Vec Tactics Tree MB MB_Proofs Spatial Spatial_Proofs C07_Model C07_Contact C07_Proofs C07_Point C07_Rod C07_System C07_SysTypes C07_ContactProofs.
Import ListNotations.
Local Open Scope R_scope.

Theorem sop_G_adjoint {X} (nd:NodeData X) (bid:X->nat) (XGA XG1 XG2:Transform R) (kA k1 k2:nat) (u:X->list R) (t:tree X) (XFP:Transform R) (pO:Vec3 R) (r lam:R) :
  rot (fst XGA) ->
  lam * sop_verr ROps (relX ROps XGA XG1) (relX ROps XGA XG2) (VAof nd bid XGA kA XG1 k1 u t) (VAof nd bid XGA kA XG2 k2 u t) XFP pO
  = GtL nd bid XGA k1 k2 u t (sop_force ROps (relX ROps XGA XG1) (relX ROps XGA XG2) XFP pO r lam).
Proof. intros Hr. inst nd bid (fun V1 V2 => lam * sop_verr ROps (relX ROps XGA XG1) (relX ROps XGA XG2) V1 V2 XFP pO) sop_force_is_transpose sop_force_balanced. Qed.
Theorem sopr_G_adjoint {X} (nd:NodeData X) (bid:X->nat) (XGA XG1 XG2:Transform R) (kA k1 k2:nat) (u:X->list R) (t:tree X) (XFP:Transform R) (pO:Vec3 R) (r:R) (lam:R*R) :
  rot (fst XGA) ->
  fst lam * fst (sopr_verr ROps (relX ROps XGA XG1) (relX ROps XGA XG2) (VAof nd bid XGA kA XG1 k1 u t) (VAof nd bid XGA kA XG2 k2 u t) XFP pO r) + snd lam * snd (sopr_verr ROps (relX ROps XGA XG1) (relX ROps XGA XG2) (VAof nd bid XGA kA XG1 k1 u t) (VAof nd bid XGA kA XG2 k2 u t) XFP pO r)
  = GtL nd bid XGA k1 k2 u t (sopr_force ROps (relX ROps XGA XG1) (relX ROps XGA XG2) XFP pO r lam).
Proof. intros Hr. inst nd bid (fun V1 V2 => fst lam * fst (sopr_verr ROps (relX ROps XGA XG1) (relX ROps XGA XG2) V1 V2 XFP pO r) + snd lam * snd (sopr_verr ROps (relX ROps XGA XG1) (relX ROps XGA XG2) V1 V2 XFP pO r)) sopr_force_is_transpose sopr_force_balanced. Qed.
Theorem pop_G_adjoint {X} (nd:NodeData X) (bid:X->nat) (XGA XG1 XG2:Transform R) (kA k1 k2:nat) (u:X->list R) (t:tree X) (i:nat) (XSP:Transform R) (s:Vec3 R) (lam:R) :
  rot (fst XGA) -> orth (fst (relX ROps XGA XG1)) ->
  lam * pop_verr ROps i (relX ROps XGA XG1) (relX ROps XGA XG2) (VAof nd bid XGA kA XG1 k1 u t) (VAof nd bid XGA kA XG2 k2 u t) XSP s
  = GtL nd bid XGA k1 k2 u t (pop_force ROps i (relX ROps XGA XG1) (relX ROps XGA XG2) XSP s lam).
Proof. intros Hr Ho. inst nd bid (fun V1 V2 => lam * pop_verr ROps i (relX ROps XGA XG1) (relX ROps XGA XG2) V1 V2 XSP s) pop_force_is_transpose pop_force_balanced. Qed.
Theorem sos_G_adjoint {X} (nd:NodeData X) (bid:X->nat) (XGA XG1 XG2:Transform R) (kA k1 k2:nat) (u:X->list R) (t:tree X) (tiny:R) (sF sB:Vec3 R) (lam:R) :
  rot (fst XGA) -> rod_singular ROps tiny (relX ROps XGA XG1) (relX ROps XGA XG2) sF sB = false ->
  lam * sos_verr ROps tiny (relX ROps XGA XG1) (relX ROps XGA XG2) (VAof nd bid XGA kA XG1 k1 u t) (VAof nd bid XGA kA XG2 k2 u t) sF sB
  = GtL nd bid XGA k1 k2 u t (sos_force ROps tiny (relX ROps XGA XG1) (relX ROps XGA XG2) sF sB lam).
Proof. intros Hr Hs. inst nd bid (fun V1 V2 => lam * sos_verr ROps tiny (relX ROps XGA XG1) (relX ROps XGA XG2) V1 V2 sF sB) sos_force_is_transpose sos_force_balanced. Qed.
Theorem sosr_G_adjoint {X} (nd:NodeData X) (bid:X->nat) (XGA XG1 XG2:Transform R) (kA k1 k2:nat) (u:X->list R) (t:tree X) (sF sB:Vec3 R) (rf rb:R) (Cx Cy:Vec3 R) (lam:R*R) :
  rot (fst XGA) ->
  fst lam * fst (sosr_verr ROps (relX ROps XGA XG1) (relX ROps XGA XG2) (VAof nd bid XGA kA XG1 k1 u t) (VAof nd bid XGA kA XG2 k2 u t) sF sB rf rb Cx Cy) + snd lam * snd (sosr_verr ROps (relX ROps XGA XG1) (relX ROps XGA XG2) (VAof nd bid XGA kA XG1 k1 u t) (VAof nd bid XGA kA XG2 k2 u t) sF sB rf rb Cx Cy)
  = GtL nd bid XGA k1 k2 u t (sosr_force ROps (relX ROps XGA XG1) (relX ROps XGA XG2) sF sB rf rb Cx Cy lam).
Proof. intros Hr. inst nd bid (fun V1 V2 => fst lam * fst (sosr_verr ROps (relX ROps XGA XG1) (relX ROps XGA XG2) V1 V2 sF sB rf rb Cx Cy) + snd lam * snd (sosr_verr ROps (relX ROps XGA XG1) (relX ROps XGA XG2) V1 V2 sF sB rf rb Cx Cy)) sosr_force_is_transpose sosr_force_balanced. Qed.
