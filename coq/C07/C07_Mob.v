(** C07: mobility constraints -- ConstantCoordinate, ConstantSpeed, ConstantAcceleration, and the couplers with a
    linear function f(x) = sum c_i x_i + c_n (Function::Linear). Coordinates move along q(t) = q + t qdot,
    qdot(t) = qdot + t qdotdot, u(t) = u + t udot. *)
From Coq Require Import ZArith Reals Lra Lia Psatz Nsatz List.
From Coquelicot Require Import Coquelicot.
Require Import Num Vec Tactics C07_Model C07_Proofs.
Import ListNotations.
Local Open Scope R_scope.
Ltac rops := change (nadd ROps) with Rplus in *; change (nmul ROps) with Rmult in *; change (n0 ROps) with 0 in *; change (nsub ROps) with Rminus in *.

(** ** ConstantCoordinate: perr = q - p, pverr = qdot, paerr = qdotdot; q-force = lambda *)
Lemma cc_verr_is_jet q qd p : is_derive (fun t => cc_perr ROps (q + t*qd) p) 0 qd.
Proof. cunf. auto_derive; [auto | ring]. Qed.
Lemma cc_aerr_is_jet qd qdd : is_derive (fun t => qd + t*qdd) 0 qdd.
Proof. auto_derive; [auto | ring]. Qed.
(** Pq = d perr / d q = 1 for the constrained coordinate (the jet with qdot = 1) *)
Lemma cc_Pq_is_dperr_dq q p : is_derive (fun x => cc_perr ROps x p) q 1.
Proof. cunf. auto_derive; [auto | ring]. Qed.
(** ** ConstantSpeed: verr = u - s, vaerr = udot *)
Lemma cs_aerr_is_jet u ud s : is_derive (fun t => cs_verr ROps (u + t*ud) s) 0 ud.
Proof. cunf. auto_derive; [auto | ring]. Qed.
(** linear part of the (affine) velocity error: verr(u) - verr(0) = u, force lambda on the same mobility *)
Lemma cs_force_is_transpose u s lam : lam * (cs_verr ROps u s - cs_verr ROps 0 s) = lam * u.
Proof. cunf. ring. Qed.
(** ** ConstantAcceleration: aerr = udot - a is affine in udot with linear part udot *)
Lemma cacc_force_is_transpose ud a lam : lam * (cacc_aerr ROps ud a - cacc_aerr ROps 0 a) = lam * ud.
Proof. cunf. ring. Qed.

(** ** linear couplers *)
Fixpoint lpath (x xd:list R) (t:R) : list R :=
  match x, xd with a :: x', b :: xd' => (a + t*b) :: lpath x' xd' t | _, _ => [] end.
Fixpoint dotl (a b:list R) : R := match a, b with x :: a', y :: b' => x*y + dotl a' b' | _, _ => 0 end.
Lemma lin_cons ci c xi x : lin ROps (ci :: c) (xi :: x) = ci * xi + lin ROps c x.
Proof. destruct c; reflexivity. Qed.
Lemma lin_path c : forall x xd t, length x = length xd -> lin ROps c (lpath x xd t) = lin ROps c x + t * lindot ROps c xd.
Proof. induction c as [|ci c IH]; intros x xd t Hl.
  - destruct x, xd; cbn; rops; ring.
  - destruct x as [|a x], xd as [|b xd]; try discriminate.
    + cbn. destruct c; cbn; rops; ring.
    + cbn [lpath lindot]. rewrite !lin_cons, IH by (cbn in Hl; lia). rops. ring. Qed.
Lemma lindot_path c : forall xd xdd t, length xd = length xdd -> lindot ROps c (lpath xd xdd t) = lindot ROps c xd + t * lindot ROps c xdd.
Proof. induction c as [|ci c IH]; intros x xd t Hl.
  - destruct x, xd; cbn; rops; ring.
  - destruct x as [|a x], xd as [|b xd]; try discriminate.
    + cbn. rops. ring.
    + cbn [lpath lindot]. rewrite IH by (cbn in Hl; lia). rops. ring. Qed.
Lemma affine_jet (a b:R) : is_derive (fun t => a + t*b) 0 b.
Proof. auto_derive; [auto | ring]. Qed.
(** CoordinateCoupler: pverr is the jet of perr, paerr the jet of pverr (all second derivatives of f vanish) *)
Lemma ccpl_verr_is_jet c q qd : length q = length qd ->
  is_derive (fun t => ccpl_perr ROps c (lpath q qd t)) 0 (ccpl_verr ROps c qd).
Proof. intros H. unfold ccpl_perr, ccpl_verr.
  apply (is_derive_ext (fun t => lin ROps c q + t * lindot ROps c qd)); [intros t; symmetry; apply lin_path; auto | apply affine_jet]. Qed.
Lemma ccpl_aerr_is_jet c qd qdd : length qd = length qdd ->
  is_derive (fun t => ccpl_verr ROps c (lpath qd qdd t)) 0 (ccpl_aerr ROps c qdd).
Proof. intros H. unfold ccpl_aerr, ccpl_verr.
  apply (is_derive_ext (fun t => lindot ROps c qd + t * lindot ROps c qdd)); [intros t; symmetry; apply lindot_path; auto | apply affine_jet]. Qed.
(** the q-forces lambda*df/dq_i are the transpose of pverr *)
Lemma lindot_transpose lam c : forall xd, lam * lindot ROps c xd = dotl (map (fun ci => nmul ROps lam ci) (firstn (length xd) c)) xd.
Proof. induction c as [|ci c IH]; intros xd.
  - destruct xd; cbn; rops; ring.
  - destruct xd as [|b xd]; [cbn; rops; ring|]. cbn [lindot length firstn map dotl]. rewrite <- IH. rops. ring. Qed.
Lemma ccpl_force_is_transpose c qd lam : lam * ccpl_verr ROps c qd = dotl (ccpl_force ROps c (length qd) lam) qd.
Proof. unfold ccpl_verr, ccpl_force. apply lindot_transpose. Qed.
(** Pq = d perr / d q_i = c_i: the jet with qdot = e_i *)
Lemma lindot_unit c : forall n i, lindot ROps c (map (fun j => if Nat.eqb j i then 1 else 0) (seq n (length c))) = 
  if andb (Nat.leb n i) (Nat.ltb i (n + length c)) then nth (i - n) c 0 else 0.
Proof. induction c as [|ci c IH]; intros n i.
  - cbn [length seq map lindot]. destruct (andb (Nat.leb n i) (Nat.ltb i (n + 0))); [destruct (i - n)%nat; reflexivity | reflexivity].
  - cbn [length seq map lindot]. rewrite IH.
    destruct (Nat.eqb n i) eqn:En.
    + apply Nat.eqb_eq in En; subst n. rewrite Nat.leb_refl. replace (Nat.ltb i (i + S (length c))) with true by (symmetry; apply Nat.ltb_lt; lia).
      replace (Nat.leb (S i) i) with false by (symmetry; apply Nat.leb_gt; lia). cbn [andb]. rewrite Nat.sub_diag. cbn. rops. ring.
    + apply Nat.eqb_neq in En. destruct (Nat.leb n i) eqn:E1.
      * apply Nat.leb_le in E1. replace (Nat.leb (S n) i) with true by (symmetry; apply Nat.leb_le; lia).
        replace (S n + length c)%nat with (n + S (length c))%nat by lia. cbn [andb].
        destruct (Nat.ltb i (n + S (length c))) eqn:E2; cbn; [|ring].
        replace (i - n)%nat with (S (i - S n)) by lia. cbn. rops. ring.
      * apply Nat.leb_gt in E1. replace (Nat.leb (S n) i) with false by (symmetry; apply Nat.leb_gt; lia). cbn. rops. ring. Qed.
Lemma ccpl_Pq_is_dperr_dq c q i : length q = length c -> (i < length c)%nat ->
  is_derive (fun t => ccpl_perr ROps c (lpath q (map (fun j => if Nat.eqb j i then 1 else 0) (seq 0 (length c))) t)) 0 (nth i c 0).
Proof. intros Hl Hi.
  replace (nth i c 0) with (ccpl_verr ROps c (map (fun j => if Nat.eqb j i then 1 else 0) (seq 0 (length c)))).
  - apply ccpl_verr_is_jet. rewrite map_length, seq_length; auto.
  - unfold ccpl_verr. rewrite lindot_unit. cbn [Nat.leb andb]. replace (Nat.ltb i (0 + length c)) with true by (symmetry; apply Nat.ltb_lt; lia).
    rewrite Nat.sub_0_r. reflexivity. Qed.

(** SpeedCoupler: verr = f(u, q); vaerr is its jet along u' = udot, q' = qdot; forces on the speeds only *)
Lemma lpath_app a b ad bd t : length a = length ad -> lpath (a ++ b) (ad ++ bd) t = lpath a ad t ++ lpath b bd t.
Proof. revert ad. induction a as [|x a IH]; intros [|y ad] H; try discriminate; cbn; auto. f_equal. apply IH. cbn in H; lia. Qed.
Lemma scpl_aerr_is_jet c u ud q qd : length u = length ud -> length q = length qd ->
  is_derive (fun t => scpl_verr ROps c (lpath u ud t) (lpath q qd t)) 0 (scpl_aerr ROps c ud qd).
Proof. intros H1 H2. unfold scpl_verr, scpl_aerr.
  apply (is_derive_ext (fun t => lin ROps c (u ++ q) + t * lindot ROps c (ud ++ qd))); [|apply affine_jet].
  intros t. rewrite <- lpath_app by auto. symmetry. apply lin_path. rewrite !app_length; lia. Qed.
(** only the speed part of vaerr multiplies udot; its transpose gives the mobility forces *)
Lemma lindot_app_zero c : forall (a:list R) (b:list R), (forall x, In x b -> x = 0) -> lindot ROps c (a ++ b) = lindot ROps c a.
Proof. induction c as [|ci c IH]; intros a b Hb.
  - destruct (a ++ b), a; reflexivity.
  - destruct a as [|x a]; cbn [app lindot].
    + destruct b as [|y b]; [reflexivity|]. cbn [lindot]. rewrite (Hb y) by (cbn; auto).
      specialize (IH [] b). cbn [app] in IH. rewrite IH by (intros z Hz; apply Hb; cbn; auto). destruct c; cbn; rops; ring.
    + rewrite IH; auto. Qed.
Lemma scpl_force_is_transpose c ud (nq:nat) lam :
  lam * scpl_aerr ROps c ud (repeat 0 nq) = dotl (scpl_force ROps c (length ud) lam) ud.
Proof. unfold scpl_aerr, scpl_force. rewrite lindot_app_zero by (intros x Hx; apply repeat_spec in Hx; auto). apply lindot_transpose. Qed.
(** non-vacuity *)
Example ccpl_example : ccpl_perr ROps [2;3;5] [1;1] = 10 /\ ccpl_verr ROps [2;3;5] [1;-1] = -1 /\ ccpl_force ROps [2;3;5] 2 2 = [4;6].
Proof. cbn. repeat split; try ring. Qed.
