(** C07 model: the constraint-equation kernels of Simbody's built-in constraints, hand-written from
    Simbody/src/ConstraintImpl.h, Constraint_RodImpl.h + Constraint_Rod.cpp, Constraint.cpp (couplers,
    ancestor-frame conversion) as pure functions of the constrained bodies' poses X=(R,p), spatial
    velocities V=(w,v) and accelerations A=(b,a) in the Ancestor frame, the stations/axes and the
    multipliers; generic in [NumOps].  No proofs here (the file extracts on its own).

    Names follow the code: B/B1 = first ("base") body, F/B2 = second ("follower") body; for Rod the
    FIRST body is F and the second is B (Constraint_Rod.cpp).  Body forces are spatial forces
    (torque about the body origin, force), expressed in A, exactly as the code's bodyForcesInA. *)
From Coq Require Import List ZArith.
Import ListNotations.
Require Import Num Vec.

Section M. Context {T:Type} (K:NumOps T).
Local Notation "x + y" := (nadd K x y). Local Notation "x * y" := (nmul K x y). Local Notation "x - y" := (nsub K x y).
Local Notation "- x" := (nopp K x).
Definition two : T := n1 K + n1 K.
Definition sv_zero : SpatialVec T := (v3_zero K, v3_zero K).

(** ** helpers of ConstraintImpl (findStationLocation, ~X_AB*p, findStationVelocity,
       findStationAcceleration, addInStationForce) *)
Definition Rmul (X:Transform T) (s:Vec3 T) : Vec3 T := m33_mulv K (fst X) s.
Definition stLoc (X:Transform T) (s:Vec3 T) : Vec3 T := v3_add K (snd X) (Rmul X s).
Definition toB (X:Transform T) (pA:Vec3 T) : Vec3 T := m33_Tmulv K (fst X) (v3_sub K pA (snd X)).
Definition stVel (X:Transform T) (V:SpatialVec T) (s:Vec3 T) : Vec3 T :=
  v3_add K (snd V) (v3_cross K (fst V) (Rmul X s)).
Definition stAcc (X:Transform T) (V A:SpatialVec T) (s:Vec3 T) : Vec3 T :=
  let r := Rmul X s in
  v3_add K (v3_add K (snd A) (v3_cross K (fst A) r)) (v3_cross K (fst V) (v3_cross K (fst V) r)).
Definition stForce (X:Transform T) (s f:Vec3 T) : SpatialVec T := (v3_cross K (Rmul X s) f, f).
Definition torqueOnly (t:Vec3 T) : SpatialVec T := (t, v3_zero K).

(** ** PointInPlane: plane (normal n, height h) on B, follower station s on F *)
Definition pip_perr (XB XF:Transform T) (n:Vec3 T) (h:T) (s:Vec3 T) : T :=
  v3_dot K (toB XB (stLoc XF s)) n - h.
Definition pip_verr (XB XF:Transform T) (VB VF:SpatialVec T) (n s:Vec3 T) : T :=
  let pBC := toB XB (stLoc XF s) in
  v3_dot K (v3_sub K (stVel XF VF s) (stVel XB VB pBC)) (Rmul XB n).
Definition pip_aerr (XB XF:Transform T) (VB VF AB AF:SpatialVec T) (n s:Vec3 T) : T :=
  let pBC := toB XB (stLoc XF s) in
  let dv := v3_sub K (stVel XF VF s) (stVel XB VB pBC) in
  let da := v3_sub K (stAcc XF VF AF s) (stAcc XB VB AB pBC) in
  v3_dot K (v3_sub K da (v3_cross K (v3_scale K two (fst VB)) dv)) (Rmul XB n).
(** forces (on B, on F) *)
Definition pip_force (XB XF:Transform T) (n s:Vec3 T) (lam:T) : SpatialVec T * SpatialVec T :=
  let pBC := toB XB (stLoc XF s) in
  let fA := Rmul XB (v3_scale K lam n) in
  (stForce XB pBC (v3_neg K fA), stForce XF s fA).

(** ** PointOnLine: line through P with the two normals x,y on B (x = z.perp(), y = z % x are computed
       at realizeTopology from the line direction z; the kernels only see x and y), follower station s on F *)
Definition pol_perr (XB XF:Transform T) (x y P s:Vec3 T) : T * T :=
  let pPC := v3_sub K (toB XB (stLoc XF s)) P in (v3_dot K pPC x, v3_dot K pPC y).
Definition pol_verr (XB XF:Transform T) (VB VF:SpatialVec T) (x y s:Vec3 T) : T * T :=
  let pBC := toB XB (stLoc XF s) in
  let vB := m33_Tmulv K (fst XB) (v3_sub K (stVel XF VF s) (stVel XB VB pBC)) in
  (v3_dot K vB x, v3_dot K vB y).
Definition pol_aerr (XB XF:Transform T) (VB VF AB AF:SpatialVec T) (x y s:Vec3 T) : T * T :=
  let pBC := toB XB (stLoc XF s) in
  let dv := v3_sub K (stVel XF VF s) (stVel XB VB pBC) in
  let da := v3_sub K (stAcc XF VF AF s) (stAcc XB VB AB pBC) in
  let aB := m33_Tmulv K (fst XB) (v3_sub K da (v3_cross K (v3_scale K two (fst VB)) dv)) in
  (v3_dot K aB x, v3_dot K aB y).
Definition pol_force (XB XF:Transform T) (x y s:Vec3 T) (lam:T*T) : SpatialVec T * SpatialVec T :=
  let pBC := toB XB (stLoc XF s) in
  let fA := Rmul XB (v3_add K (v3_scale K (fst lam) x) (v3_scale K (snd lam) y)) in
  (stForce XB pBC (v3_neg K fA), stForce XF s fA).

(** ** ConstantAngle: axis b on B, axis f on F, c = cos(angle) *)
Definition ca_perr (XB XF:Transform T) (b f:Vec3 T) (c:T) : T := v3_dot K (Rmul XB b) (Rmul XF f) - c.
Definition ca_verr (XB XF:Transform T) (VB VF:SpatialVec T) (b f:Vec3 T) : T :=
  v3_dot K (v3_sub K (fst VF) (fst VB)) (v3_cross K (Rmul XF f) (Rmul XB b)).
Definition ca_aerr (XB XF:Transform T) (VB VF AB AF:SpatialVec T) (b f:Vec3 T) : T :=
  let bA := Rmul XB b in let fA := Rmul XF f in
  v3_dot K (v3_sub K (fst AF) (fst AB)) (v3_cross K fA bA)
  + v3_dot K (v3_sub K (fst VF) (fst VB))
      (v3_sub K (v3_cross K (v3_cross K (fst VF) fA) bA) (v3_cross K (v3_cross K (fst VB) bA) fA)).
Definition ca_force (XB XF:Transform T) (b f:Vec3 T) (lam:T) : SpatialVec T * SpatialVec T :=
  let tF := v3_scale K lam (v3_cross K (Rmul XF f) (Rmul XB b)) in
  (torqueOnly (v3_neg K tF), torqueOnly tF).

(** ** ConstantOrientation: frames RB0 on B, RF0 on F (columns are the axes);
       perr = (RFx.RBy, RFy.RBz, RFz.RBx) *)
Definition axesA (X:Transform T) (R0:Mat33 T) : Vec3 T * Vec3 T * Vec3 T :=
  let M := m33_mul K (fst X) R0 in (m33_c0 M, m33_c1 M, m33_c2 M).
Definition ori_perr (XB XF:Transform T) (RB0 RF0:Mat33 T) : Vec3 T :=
  let '(bx,by_,bz) := axesA XB RB0 in let '(fx,fy,fz) := axesA XF RF0 in
  (v3_dot K fx by_, v3_dot K fy bz, v3_dot K fz bx).
Definition ori_verr (XB XF:Transform T) (VB VF:SpatialVec T) (RB0 RF0:Mat33 T) : Vec3 T :=
  let '(bx,by_,bz) := axesA XB RB0 in let '(fx,fy,fz) := axesA XF RF0 in
  let w := v3_sub K (fst VF) (fst VB) in
  (v3_dot K w (v3_cross K fx by_), v3_dot K w (v3_cross K fy bz), v3_dot K w (v3_cross K fz bx)).
Definition ori_aerr1 (wB wF w bb:Vec3 T) (fa ba:Vec3 T) : T :=
  v3_dot K bb (v3_cross K fa ba)
  + v3_dot K w (v3_sub K (v3_cross K (v3_cross K wF fa) ba) (v3_cross K (v3_cross K wB ba) fa)).
Definition ori_aerr (XB XF:Transform T) (VB VF AB AF:SpatialVec T) (RB0 RF0:Mat33 T) : Vec3 T :=
  let '(bx,by_,bz) := axesA XB RB0 in let '(fx,fy,fz) := axesA XF RF0 in
  let w := v3_sub K (fst VF) (fst VB) in let bb := v3_sub K (fst AF) (fst AB) in
  (ori_aerr1 (fst VB) (fst VF) w bb fx by_, ori_aerr1 (fst VB) (fst VF) w bb fy bz, ori_aerr1 (fst VB) (fst VF) w bb fz bx).
Definition ori_torque (XB XF:Transform T) (RB0 RF0:Mat33 T) (lam:Vec3 T) : Vec3 T :=
  let '(bx,by_,bz) := axesA XB RB0 in let '(fx,fy,fz) := axesA XF RF0 in
  let '(l0,l1,l2) := lam in
  v3_add K (v3_add K (v3_scale K l0 (v3_cross K fx by_)) (v3_scale K l1 (v3_cross K fy bz))) (v3_scale K l2 (v3_cross K fz bx)).
Definition ori_force (XB XF:Transform T) (RB0 RF0:Mat33 T) (lam:Vec3 T) : SpatialVec T * SpatialVec T :=
  let tF := ori_torque XB XF RB0 RF0 lam in (torqueOnly (v3_neg K tF), torqueOnly tF).

(** ** Ball: station s1 on B1, station s2 on B2.  perr uses s1; verr/aerr/forces use the material
       point C of B1 coincident with the B2 station (ConstraintImpl.h BallImpl) *)
Definition ball_perr (X1 X2:Transform T) (s1 s2:Vec3 T) : Vec3 T := v3_sub K (stLoc X2 s2) (stLoc X1 s1).
Definition ball_verr (X1 X2:Transform T) (V1 V2:SpatialVec T) (s2:Vec3 T) : Vec3 T :=
  let pBC := toB X1 (stLoc X2 s2) in v3_sub K (stVel X2 V2 s2) (stVel X1 V1 pBC).
Definition ball_aerr (X1 X2:Transform T) (V1 V2 A1 A2:SpatialVec T) (s2:Vec3 T) : Vec3 T :=
  let pBC := toB X1 (stLoc X2 s2) in v3_sub K (stAcc X2 V2 A2 s2) (stAcc X1 V1 A1 pBC).
Definition ball_force (X1 X2:Transform T) (s2:Vec3 T) (lam:Vec3 T) : SpatialVec T * SpatialVec T :=
  let pBC := toB X1 (stLoc X2 s2) in (stForce X1 pBC (v3_neg K lam), stForce X2 s2 lam).

(** ** Weld: frames (RB0,pB0) on B, (RF0,pF0) on F; first three equations as ConstantOrientation,
       last three as Ball with s1 = pB0, s2 = pF0 *)
Definition weld_perr (XB XF:Transform T) (FB FF:Transform T) : Vec3 T * Vec3 T :=
  (ori_perr XB XF (fst FB) (fst FF), ball_perr XB XF (snd FB) (snd FF)).
Definition weld_verr (XB XF:Transform T) (VB VF:SpatialVec T) (FB FF:Transform T) : Vec3 T * Vec3 T :=
  (ori_verr XB XF VB VF (fst FB) (fst FF), ball_verr XB XF VB VF (snd FF)).
Definition weld_aerr (XB XF:Transform T) (VB VF AB AF:SpatialVec T) (FB FF:Transform T) : Vec3 T * Vec3 T :=
  (ori_aerr XB XF VB VF AB AF (fst FB) (fst FF), ball_aerr XB XF VB VF AB AF (snd FF)).
Definition weld_force (XB XF:Transform T) (FB FF:Transform T) (lam:Vec3 T * Vec3 T) : SpatialVec T * SpatialVec T :=
  let '(tB,tF) := ori_force XB XF (fst FB) (fst FF) (fst lam) in
  let '(fB,fF) := ball_force XB XF (snd FF) (snd lam) in
  (sv_add K tB fB, sv_add K tF fF).

(** ** NoSlip1D: contact point P and direction n fixed in the case body C; moving bodies B0, B1.
       Velocity-level only. *)
Definition ns_verr (XC X0 X1:Transform T) (V0 V1:SpatialVec T) (P n:Vec3 T) : T :=
  let pAP := stLoc XC P in
  v3_dot K (v3_sub K (stVel X1 V1 (toB X1 pAP)) (stVel X0 V0 (toB X0 pAP))) (Rmul XC n).
Definition ns_aerr (XC X0 X1:Transform T) (VC V0 V1 A0 A1:SpatialVec T) (P n:Vec3 T) : T :=
  let pAP := stLoc XC P in let p0 := toB X0 pAP in let p1 := toB X1 pAP in
  let dv := v3_sub K (stVel X1 V1 p1) (stVel X0 V0 p0) in
  let da := v3_sub K (stAcc X1 V1 A1 p1) (stAcc X0 V0 A0 p0) in
  v3_dot K (v3_sub K da (v3_cross K (fst VC) dv)) (Rmul XC n).
(** forces (on B0, on B1); none on the case body *)
Definition ns_force (XC X0 X1:Transform T) (P n:Vec3 T) (lam:T) : SpatialVec T * SpatialVec T :=
  let pAP := stLoc XC P in
  let fA := Rmul XC (v3_scale K lam n) in
  (stForce X0 (toB X0 pAP) (v3_neg K fA), stForce X1 (toB X1 pAP) fA).

(** ** Rod (ConstantDistance): station sF on the FIRST body F, sB on the second body B, length d.
       Position cache as in Constraint_Rod.cpp: Cz = p_SfSb/r, or the z axis of F when r < tiny *)
Definition rod_d (XF XB:Transform T) (sF sB:Vec3 T) : Vec3 T := v3_sub K (stLoc XB sB) (stLoc XF sF).
Definition rod_perr (XF XB:Transform T) (sF sB:Vec3 T) (d:T) : T := v3_norm K (rod_d XF XB sF sB) - d.
Definition rod_singular (tiny:T) (XF XB:Transform T) (sF sB:Vec3 T) : bool := nltb K (v3_norm K (rod_d XF XB sF sB)) tiny.
Definition rod_Cz (tiny:T) (XF XB:Transform T) (sF sB:Vec3 T) : Vec3 T :=
  let p := rod_d XF XB sF sB in
  if rod_singular tiny XF XB sF sB then m33_c2 (fst XF)
  else v3_scale K (ndiv K (n1 K) (v3_norm K p)) p.
Definition rod_pd (XF XB:Transform T) (VF VB:SpatialVec T) (sF sB:Vec3 T) : Vec3 T :=
  v3_sub K (stVel XB VB sB) (stVel XF VF sF).
Definition rod_verr (tiny:T) (XF XB:Transform T) (VF VB:SpatialVec T) (sF sB:Vec3 T) : T :=
  v3_dot K (rod_pd XF XB VF VB sF sB) (rod_Cz tiny XF XB sF sB).
Definition rod_Czd (tiny:T) (XF XB:Transform T) (VF VB:SpatialVec T) (sF sB:Vec3 T) : Vec3 T :=
  let Cz := rod_Cz tiny XF XB sF sB in let pd := rod_pd XF XB VF VB sF sB in
  if rod_singular tiny XF XB sF sB then v3_cross K (fst VF) Cz
  else v3_scale K (ndiv K (n1 K) (v3_norm K (rod_d XF XB sF sB))) (v3_sub K pd (v3_scale K (v3_dot K pd Cz) Cz)).
Definition rod_aerr (tiny:T) (XF XB:Transform T) (VF VB AF AB:SpatialVec T) (sF sB:Vec3 T) : T :=
  let pdd := v3_sub K (stAcc XB VB AB sB) (stAcc XF VF AF sF) in
  v3_dot K pdd (rod_Cz tiny XF XB sF sB) + v3_dot K (rod_pd XF XB VF VB sF sB) (rod_Czd tiny XF XB VF VB sF sB).
(** forces (on F, on B) *)
Definition rod_force (tiny:T) (XF XB:Transform T) (sF sB:Vec3 T) (lam:T) : SpatialVec T * SpatialVec T :=
  let fA := v3_scale K lam (rod_Cz tiny XF XB sF sB) in
  (sv_neg K (stForce XF sF fA), stForce XB sB fA).

(** ** mobility constraints.  ConstantCoordinate: perr = q - p, pverr = qdot, paerr = qdotdot, q-force lambda;
       ConstantSpeed: verr = u - s, vaerr = udot, u-force lambda; ConstantAcceleration: aerr = udot - a. *)
Definition cc_perr (q p:T) : T := q - p.
Definition cs_verr (u s:T) : T := u - s.
Definition cacc_aerr (udot a:T) : T := udot - a.
(** Couplers with a Function::Linear  f(x) = sum c_i x_i + c_n  (coefficients c has one more entry than x) *)
Fixpoint lin (c x:list T) : T :=
  match c, x with
  | ci :: c', xi :: x' => ci * xi + lin c' x'
  | [c0], [] => c0
  | _, _ => n0 K
  end.
Fixpoint lindot (c xd:list T) : T :=
  match c, xd with ci :: c', xi :: x' => ci * xi + lindot c' x' | _, _ => n0 K end.
(** CoordinateCoupler: perr = f(q); pverr = sum df/dq_i qdot_i; paerr = sum_ij d2f qdot_i qdot_j + sum df/dq_i qdd_i
    (second derivatives of a linear function are zero); q-forces lambda*df/dq_i *)
Definition ccpl_perr (c q:list T) : T := lin c q.
Definition ccpl_verr (c qdot:list T) : T := lindot c qdot.
Definition ccpl_aerr (c qdd:list T) : T := lindot c qdd.
Definition ccpl_force (c:list T) (n:nat) (lam:T) : list T := map (fun ci => lam * ci) (firstn n c).
(** SpeedCoupler: arguments x = (u_1..u_k, q_1..q_l); verr = f(u,q); vaerr = sum_{i<k} c_i udot_i + sum_{i<l} c_{k+i} qdot_i;
    u-forces lambda*c_i for the speeds only *)
Definition scpl_verr (c u q:list T) : T := lin c (u ++ q).
Definition scpl_aerr (c udot qdot:list T) : T := lindot c (udot ++ qdot).
Definition scpl_force (c:list T) (k:nat) (lam:T) : list T := map (fun ci => lam * ci) (firstn k c).

(** ** Ancestor-frame conversion (Constraint.cpp calcConstrainedBodyTransformInAncestor,
       calcConstrainedBodyVelocityInAncestor, SpatialAlgebra.h findRelativeAcceleration) *)
Definition relX (XGA XGB:Transform T) : Transform T := xf_compose K (xf_inv K XGA) XGB.
Definition relV (XGA:Transform T) (VGA:SpatialVec T) (XGB:Transform T) (VGB:SpatialVec T) : SpatialVec T :=
  let p := v3_sub K (snd XGB) (snd XGA) in
  let w := v3_sub K (fst VGB) (fst VGA) in
  let v := v3_sub K (v3_sub K (snd VGB) (snd VGA)) (v3_cross K (fst VGA) p) in
  (m33_Tmulv K (fst XGA) w, m33_Tmulv K (fst XGA) v).
Definition relA (XGA:Transform T) (VGA AGA:SpatialVec T) (XGB:Transform T) (VGB AGB:SpatialVec T) : SpatialVec T :=
  let p := v3_sub K (snd XGB) (snd XGA) in
  let wA := fst VGA in
  let pd := v3_sub K (snd VGB) (snd VGA) in
  let pdd := v3_sub K (snd AGB) (snd AGA) in
  let w := v3_sub K (fst VGB) wA in
  let v := v3_sub K pd (v3_cross K wA p) in
  let wd := v3_sub K (fst AGB) (fst AGA) in
  let vd := v3_sub K pdd (v3_add K (v3_cross K (fst AGA) p) (v3_cross K wA pd)) in
  let b := v3_sub K wd (v3_cross K wA w) in
  let a := v3_sub K vd (v3_cross K wA v) in
  (m33_Tmulv K (fst XGA) b, m33_Tmulv K (fst XGA) a).
(** a body force in A re-expressed in Ground (R_GA * F) *)
Definition forceToG (XGA:Transform T) (F:SpatialVec T) : SpatialVec T := (Rmul XGA (fst F), Rmul XGA (snd F)).

(** ** uniform entry points for the extracted driver: kind code, flat parameter list, kinematics of the
       Ancestor and of the constrained bodies IN GROUND (converted here), results as flat lists.
       kinds: 0 Rod 1 Ball 2 Weld 3 PointInPlane 4 PointOnLine 5 ConstantAngle 6 ConstantOrientation 7 NoSlip1D *)
Record bk := mkBk { bX : Transform T; bV : SpatialVec T; bA : SpatialVec T }.
Definition nthd (l:list T) (i:nat) : T := nth i l (n0 K).
Definition v3at (l:list T) (i:nat) : Vec3 T := (nthd l i, nthd l (S i), nthd l (S (S i))).
Definition m33at (l:list T) (i:nat) : Mat33 T := (v3at l i, v3at l (3+i), v3at l (6+i)).
Definition l3 (v:Vec3 T) : list T := let '(a,b,c) := v in [a;b;c].
Definition inA (anc b:bk) : bk :=
  mkBk (relX (bX anc) (bX b)) (relV (bX anc) (bV anc) (bX b) (bV b)) (relA (bX anc) (bV anc) (bA anc) (bX b) (bV b) (bA b)).
Definition bk0 : bk := mkBk (m33_id K, v3_zero K) sv_zero sv_zero.
Definition nthb (l:list bk) (i:nat) : bk := nth i l bk0.

Definition ev_perr (kind:nat) (tiny:T) (par:list T) (anc:bk) (bs:list bk) : list T :=
  let b0 := inA anc (nthb bs 0) in let b1 := inA anc (nthb bs 1) in
  match kind with
  | 0 => [rod_perr (bX b0) (bX b1) (v3at par 0) (v3at par 3) (nthd par 6)]
  | 1 => l3 (ball_perr (bX b0) (bX b1) (v3at par 0) (v3at par 3))
  | 2 => let '(o,p) := weld_perr (bX b0) (bX b1) (m33at par 0, v3at par 9) (m33at par 12, v3at par 21) in l3 o ++ l3 p
  | 3 => [pip_perr (bX b0) (bX b1) (v3at par 0) (nthd par 3) (v3at par 4)]
  | 4 => let '(e0,e1) := pol_perr (bX b0) (bX b1) (v3at par 0) (v3at par 3) (v3at par 6) (v3at par 9) in [e0;e1]
  | 5 => [ca_perr (bX b0) (bX b1) (v3at par 0) (v3at par 3) (nthd par 6)]
  | 6 => l3 (ori_perr (bX b0) (bX b1) (m33at par 0) (m33at par 9))
  | _ => []
  end.
Definition ev_verr (kind:nat) (tiny:T) (par:list T) (anc:bk) (bs:list bk) : list T :=
  let b0 := inA anc (nthb bs 0) in let b1 := inA anc (nthb bs 1) in let b2 := inA anc (nthb bs 2) in
  match kind with
  | 0 => [rod_verr tiny (bX b0) (bX b1) (bV b0) (bV b1) (v3at par 0) (v3at par 3)]
  | 1 => l3 (ball_verr (bX b0) (bX b1) (bV b0) (bV b1) (v3at par 3))
  | 2 => let '(o,p) := weld_verr (bX b0) (bX b1) (bV b0) (bV b1) (m33at par 0, v3at par 9) (m33at par 12, v3at par 21) in l3 o ++ l3 p
  | 3 => [pip_verr (bX b0) (bX b1) (bV b0) (bV b1) (v3at par 0) (v3at par 4)]
  | 4 => let '(e0,e1) := pol_verr (bX b0) (bX b1) (bV b0) (bV b1) (v3at par 0) (v3at par 3) (v3at par 9) in [e0;e1]
  | 5 => [ca_verr (bX b0) (bX b1) (bV b0) (bV b1) (v3at par 0) (v3at par 3)]
  | 6 => l3 (ori_verr (bX b0) (bX b1) (bV b0) (bV b1) (m33at par 0) (m33at par 9))
  | 7 => [ns_verr (bX b0) (bX b1) (bX b2) (bV b1) (bV b2) (v3at par 0) (v3at par 3)]
  | _ => []
  end.
Definition ev_aerr (kind:nat) (tiny:T) (par:list T) (anc:bk) (bs:list bk) : list T :=
  let b0 := inA anc (nthb bs 0) in let b1 := inA anc (nthb bs 1) in let b2 := inA anc (nthb bs 2) in
  match kind with
  | 0 => [rod_aerr tiny (bX b0) (bX b1) (bV b0) (bV b1) (bA b0) (bA b1) (v3at par 0) (v3at par 3)]
  | 1 => l3 (ball_aerr (bX b0) (bX b1) (bV b0) (bV b1) (bA b0) (bA b1) (v3at par 3))
  | 2 => let '(o,p) := weld_aerr (bX b0) (bX b1) (bV b0) (bV b1) (bA b0) (bA b1) (m33at par 0, v3at par 9) (m33at par 12, v3at par 21) in l3 o ++ l3 p
  | 3 => [pip_aerr (bX b0) (bX b1) (bV b0) (bV b1) (bA b0) (bA b1) (v3at par 0) (v3at par 4)]
  | 4 => let '(e0,e1) := pol_aerr (bX b0) (bX b1) (bV b0) (bV b1) (bA b0) (bA b1) (v3at par 0) (v3at par 3) (v3at par 9) in [e0;e1]
  | 5 => [ca_aerr (bX b0) (bX b1) (bV b0) (bV b1) (bA b0) (bA b1) (v3at par 0) (v3at par 3)]
  | 6 => l3 (ori_aerr (bX b0) (bX b1) (bV b0) (bV b1) (bA b0) (bA b1) (m33at par 0) (m33at par 9))
  | 7 => [ns_aerr (bX b0) (bX b1) (bX b2) (bV b0) (bV b1) (bV b2) (bA b1) (bA b2) (v3at par 0) (v3at par 3)]
  | _ => []
  end.
(** body forces in A, one per role (role i acts on the i-th body of [bs]) *)
Definition ev_force (kind:nat) (tiny:T) (par:list T) (anc:bk) (bs:list bk) (lam:list T) : list (SpatialVec T) :=
  let b0 := inA anc (nthb bs 0) in let b1 := inA anc (nthb bs 1) in let b2 := inA anc (nthb bs 2) in
  let p2 (x:SpatialVec T * SpatialVec T) := [fst x; snd x] in
  match kind with
  | 0 => p2 (rod_force tiny (bX b0) (bX b1) (v3at par 0) (v3at par 3) (nthd lam 0))
  | 1 => p2 (ball_force (bX b0) (bX b1) (v3at par 3) (v3at lam 0))
  | 2 => p2 (weld_force (bX b0) (bX b1) (m33at par 0, v3at par 9) (m33at par 12, v3at par 21) (v3at lam 0, v3at lam 3))
  | 3 => p2 (pip_force (bX b0) (bX b1) (v3at par 0) (v3at par 4) (nthd lam 0))
  | 4 => p2 (pol_force (bX b0) (bX b1) (v3at par 0) (v3at par 3) (v3at par 9) (nthd lam 0, nthd lam 1))
  | 5 => p2 (ca_force (bX b0) (bX b1) (v3at par 0) (v3at par 3) (nthd lam 0))
  | 6 => p2 (ori_force (bX b0) (bX b1) (m33at par 0) (m33at par 9) (v3at lam 0))
  | 7 => sv_zero :: p2 (ns_force (bX b0) (bX b1) (bX b2) (v3at par 0) (v3at par 3) (nthd lam 0))
  | _ => []
  end.
(** the same forces re-expressed in Ground, as Constraint.cpp hands them to multiplyBySystemJacobianTranspose *)
Definition ev_forceG (kind:nat) (tiny:T) (par:list T) (anc:bk) (bs:list bk) (lam:list T) : list (SpatialVec T) :=
  map (forceToG (bX anc)) (ev_force kind tiny par anc bs lam).
(** dot product of a list of spatial forces with a list of spatial velocities (rows of G^T lambda = J^T F) *)
Fixpoint svdots (F V:list (SpatialVec T)) : T :=
  match F, V with f :: F', v :: V' => sv_dot K f v + svdots F' V' | _, _ => n0 K end.
End M.
