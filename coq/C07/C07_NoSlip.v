(** C07: NoSlip1D (see C07_Proofs.v for the conventions). *)
From Coq Require Import ZArith Reals Lra Lia Psatz Nsatz List.
From Coquelicot Require Import Coquelicot.
Require Import Num Vec Tactics C07_Model C07_Proofs.
Import ListNotations.
Local Open Scope R_scope.

(** * NoSlip1D *)
(** the terms the code's aerr omits: the contact point P moves with the case body, so the material points of B0 and B1
    that are in contact change; d/dt verr = aerr + conv *)
Definition ns_conv (XC X0 X1:Transform R) (VC V0 V1:SpatialVec R) (P n:Vec3 R) : R :=
  let pAP := stLoc ROps XC P in let vcP := stVel ROps XC VC P in
  v3_dot ROps ((fst V1 xv (vcP -v stVel ROps X1 V1 (toB ROps X1 pAP))) -v (fst V0 xv (vcP -v stVel ROps X0 V0 (toB ROps X0 pAP))))
              (Rmul ROps XC n).
Lemma ns_aerr_relation XC X0 X1 VC V0 V1 A0 A1 P n : orth (fst X0) -> orth (fst X1) ->
  is_derive (fun t => ns_verr ROps (Xt XC VC t) (Xt X0 V0 t) (Xt X1 V1 t) (Vt V0 A0 t) (Vt V1 A1 t) P n) 0
            (ns_aerr ROps XC X0 X1 VC V0 V1 A0 A1 P n + ns_conv XC X0 X1 VC V0 V1 P n).
Proof. intros H0 H1. unfold ns_aerr, ns_conv. rewrite !stVel_toB, !stAcc_toB by auto.
  eapply is_derive_ext. { intros t. unfold ns_verr. rewrite !stVel_toB_t by auto. reflexivity. }
  dX XC; dX X0; dX X1; dSV VC; dSV V0; dSV V1; dSV A0; dSV A1; d3 P; d3 n. cunf. jet0. Qed.
Lemma ns_force_is_transpose XC X0 X1 V0 V1 P n lam : orth (fst X0) -> orth (fst X1) ->
  lam * ns_verr ROps XC X0 X1 V0 V1 P n =
  sv_dot ROps (fst (ns_force ROps XC X0 X1 P n lam)) V0 + sv_dot ROps (snd (ns_force ROps XC X0 X1 P n lam)) V1.
Proof. intros H0 H1. unfold ns_verr, ns_force. rewrite !stVel_toB, !stForce_toB by auto.
  dX XC; dX X0; dX X1; dSV V0; dSV V1; d3 P; d3 n. cunf. ring. Qed.
(** corollary: aerr is the jet of verr when the convective term vanishes, e.g. when neither moving body rotates in A *)
Lemma ns_aerr_is_jet_partial XC X0 X1 VC V0 V1 A0 A1 P n : orth (fst X0) -> orth (fst X1) ->
  ns_conv XC X0 X1 VC V0 V1 P n = 0 ->
  is_derive (fun t => ns_verr ROps (Xt XC VC t) (Xt X0 V0 t) (Xt X1 V1 t) (Vt V0 A0 t) (Vt V1 A1 t) P n) 0
            (ns_aerr ROps XC X0 X1 VC V0 V1 A0 A1 P n).
Proof. intros H0 H1 Hc. generalize (ns_aerr_relation XC X0 X1 VC V0 V1 A0 A1 P n H0 H1). rewrite Hc, Rplus_0_r. auto. Qed.
(** refutation of "aerr is the time derivative of verr" for NoSlip1D, even with verr = 0:
    case body = A (at rest), contact point P = (1,0,0), direction n = y; B0 at rest;
    B1 spins about z with w = 1 and its origin moves with v = (1,-1,0), so the material point of B1 at P slides along x only: verr = 0 *)
Lemma ns_aerr_is_jet_refuted : exists XC X0 X1 VC V0 V1 A0 A1 P n,
  orth (fst XC) /\ orth (fst X0) /\ orth (fst X1) /\ ns_verr ROps XC X0 X1 V0 V1 P n = 0 /\
  ~ is_derive (fun t => ns_verr ROps (Xt XC VC t) (Xt X0 V0 t) (Xt X1 V1 t) (Vt V0 A0 t) (Vt V1 A1 t) P n) 0
              (ns_aerr ROps XC X0 X1 VC V0 V1 A0 A1 P n).
Proof.
  exists (I3,O3), (I3,O3), (I3,O3), (O3,O3), (O3,O3), ((0,0,1),(1,-1,0)), (O3,O3), (O3,O3), (1,0,0), (0,1,0).
  repeat split; try apply orth_I3.
  - unfold I3, O3. cunf. ring.
  - intros Hd.
    pose proof (ns_aerr_relation (I3,O3) (I3,O3) (I3,O3) (O3,O3) (O3,O3) ((0,0,1),(1,-1,0)) (O3,O3) (O3,O3) (1,0,0) (0,1,0) orth_I3 orth_I3) as Hr.
    apply is_derive_unique in Hd. apply is_derive_unique in Hr. rewrite Hd in Hr. revert Hr.
    unfold ns_conv, I3, O3. cunf. lra.
Qed.
