(** C07: PointInPlane and PointOnLine (see C07_Proofs.v for the conventions). *)
From Coq Require Import ZArith Reals Lra Lia Psatz Nsatz List.
From Coquelicot Require Import Coquelicot.
Require Import Num Vec Tactics C07_Model C07_Proofs.
Import ListNotations.
Local Open Scope R_scope.

(** * PointInPlane *)
Lemma pip_verr_is_jet XB XF VB VF n h s : orth (fst XB) ->
  is_derive (fun t => pip_perr ROps (Xt XB VB t) (Xt XF VF t) n h s) 0 (pip_verr ROps XB XF VB VF n s).
Proof. intros H. unfold pip_verr. rewrite stVel_toB by auto.
  dX XB; dX XF; dSV VB; dSV VF; d3 n; d3 s. cunf. jet0. Qed.
Lemma pip_aerr_is_jet XB XF VB VF AB AF n s : orth (fst XB) ->
  is_derive (fun t => pip_verr ROps (Xt XB VB t) (Xt XF VF t) (Vt VB AB t) (Vt VF AF t) n s) 0
            (pip_aerr ROps XB XF VB VF AB AF n s).
Proof. intros H. unfold pip_aerr. rewrite stVel_toB, stAcc_toB by auto.
  eapply is_derive_ext. { intros t. unfold pip_verr. rewrite stVel_toB_t by auto. reflexivity. }
  dX XB; dX XF; dSV VB; dSV VF; dSV AB; dSV AF; d3 n; d3 s. cunf. jet0. Qed.
Lemma pip_force_is_transpose XB XF VB VF n s lam : orth (fst XB) ->
  lam * pip_verr ROps XB XF VB VF n s =
  sv_dot ROps (fst (pip_force ROps XB XF n s lam)) VB + sv_dot ROps (snd (pip_force ROps XB XF n s lam)) VF.
Proof. intros H. unfold pip_verr, pip_force. rewrite stVel_toB, stForce_toB by auto.
  dX XB; dX XF; dSV VB; dSV VF; d3 n; d3 s. cunf. ring. Qed.

(** * PointOnLine *)
Lemma pol_verr_is_jet0 XB XF VB VF x y P s : orth (fst XB) ->
  is_derive (fun t => fst (pol_perr ROps (Xt XB VB t) (Xt XF VF t) x y P s)) 0 (fst (pol_verr ROps XB XF VB VF x y s)).
Proof. intros H. unfold pol_verr. rewrite stVel_toB by auto.
  dX XB; dX XF; dSV VB; dSV VF; d3 x; d3 y; d3 P; d3 s. cunf. jet0. Qed.
Lemma pol_verr_is_jet1 XB XF VB VF x y P s : orth (fst XB) ->
  is_derive (fun t => snd (pol_perr ROps (Xt XB VB t) (Xt XF VF t) x y P s)) 0 (snd (pol_verr ROps XB XF VB VF x y s)).
Proof. intros H. unfold pol_verr. rewrite stVel_toB by auto.
  dX XB; dX XF; dSV VB; dSV VF; d3 x; d3 y; d3 P; d3 s. cunf. jet0. Qed.
Lemma pol_aerr_is_jet0 XB XF VB VF AB AF x y s : orth (fst XB) ->
  is_derive (fun t => fst (pol_verr ROps (Xt XB VB t) (Xt XF VF t) (Vt VB AB t) (Vt VF AF t) x y s)) 0
            (fst (pol_aerr ROps XB XF VB VF AB AF x y s)).
Proof. intros H. unfold pol_aerr. rewrite stVel_toB, stAcc_toB by auto.
  eapply is_derive_ext. { intros t. unfold pol_verr. rewrite stVel_toB_t by auto. reflexivity. }
  dX XB; dX XF; dSV VB; dSV VF; dSV AB; dSV AF; d3 x; d3 y; d3 s. cunf. jet0. Qed.
Lemma pol_aerr_is_jet1 XB XF VB VF AB AF x y s : orth (fst XB) ->
  is_derive (fun t => snd (pol_verr ROps (Xt XB VB t) (Xt XF VF t) (Vt VB AB t) (Vt VF AF t) x y s)) 0
            (snd (pol_aerr ROps XB XF VB VF AB AF x y s)).
Proof. intros H. unfold pol_aerr. rewrite stVel_toB, stAcc_toB by auto.
  eapply is_derive_ext. { intros t. unfold pol_verr. rewrite stVel_toB_t by auto. reflexivity. }
  dX XB; dX XF; dSV VB; dSV VF; dSV AB; dSV AF; d3 x; d3 y; d3 s. cunf. jet0. Qed.
Lemma pol_force_is_transpose XB XF VB VF x y s lam : orth (fst XB) ->
  fst lam * fst (pol_verr ROps XB XF VB VF x y s) + snd lam * snd (pol_verr ROps XB XF VB VF x y s) =
  sv_dot ROps (fst (pol_force ROps XB XF x y s lam)) VB + sv_dot ROps (snd (pol_force ROps XB XF x y s lam)) VF.
Proof. intros H. unfold pol_verr, pol_force. rewrite stVel_toB, stForce_toB by auto.
  dX XB; dX XF; dSV VB; dSV VF; d3 x; d3 y; d3 s; destruct lam. cunf. ring. Qed.

