(** C07 proofs about the constraint kernels of C07_Model.v over the reals.
    Rigid motion enters as first-order data (DESIGN 2.2): along
       R(t) = (1 + t [w]x) R,  p(t) = p + t v,  w(t) = w + t b,  v(t) = v + t a
    a pose X=(R,p) moves with spatial velocity V=(w,v) and V with spatial acceleration A=(b,a).
    "Y is the jet of Z" means  is_derive (fun t => Z (state t)) 0 (Y state).  *)
From Coq Require Import ZArith Reals Lra Lia Psatz Nsatz List.
From Coquelicot Require Import Coquelicot.
Require Import Num Vec Tactics C07_Model.
Import ListNotations.
Local Open Scope R_scope.

Definition orth (M:Mat33 R) : Prop := m33_mul ROps M (m33_T M) = m33_id ROps.
Definition Rt (M:Mat33 R) (w:Vec3 R) (t:R) : Mat33 R :=
  m33_mul ROps (m33_add ROps (m33_id ROps) (m33_scale ROps t (m33_crossMat ROps w))) M.
Definition Xt (X:Transform R) (V:SpatialVec R) (t:R) : Transform R :=
  (Rt (fst X) (fst V) t, v3_add ROps (snd X) (v3_scale ROps t (snd V))).
Definition Vt (V A:SpatialVec R) (t:R) : SpatialVec R :=
  (v3_add ROps (fst V) (v3_scale ROps t (fst A)), v3_add ROps (snd V) (v3_scale ROps t (snd A))).
(** component selector (total: indices above 2 give the last component) *)
Definition vc (i:nat) (v:Vec3 R) : R := match i with O => v3_0 v | S O => v3_1 v | _ => v3_2 v end.
Notation "a +v b" := (v3_add ROps a b) (at level 50, left associativity).
Notation "a -v b" := (v3_sub ROps a b) (at level 50, left associativity).
Notation "a 'xv' b" := (v3_cross ROps a b) (at level 40, left associativity).
Notation "s *v a" := (v3_scale ROps s a) (at level 40, left associativity).

(** the wrench of a body force (torque about the body origin, force) about the origin of A; a constraint's forces are
    balanced (Newton's third law) when these sum to zero over its bodies *)
Definition wrenchO (X:Transform R) (F:SpatialVec R) : SpatialVec R := (fst F +v snd X xv snd F, snd F).
Definition balanced2 (X1 X2:Transform R) (F:SpatialVec R * SpatialVec R) : Prop :=
  sv_add ROps (wrenchO X1 (fst F)) (wrenchO X2 (snd F)) = sv_zero ROps.

Ltac d3 v := destruct v as [[? ?] ?].
Ltac dM m := destruct m as [[[[? ?] ?] [[? ?] ?]] [[? ?] ?]].
Ltac dX X := destruct X as [[[[[? ?] ?] [[? ?] ?]] [[? ?] ?]] [[? ?] ?]].
Ltac dSV v := destruct v as [[[? ?] ?] [[? ?] ?]].
Ltac di i := destruct i as [|[|i]].
Ltac cunf := cbv [orth Rt Xt Vt vc two sv_zero Rmul stLoc toB stVel stAcc stForce torqueOnly
  pip_perr pip_verr pip_aerr pip_force pol_perr pol_verr pol_aerr pol_force ca_perr ca_verr ca_aerr ca_force
  axesA ori_perr ori_verr ori_aerr1 ori_aerr ori_torque ori_force ball_perr ball_verr ball_aerr ball_force
  weld_perr weld_verr weld_aerr weld_force ns_verr ns_aerr ns_force
  rod_d rod_perr rod_pd cc_perr cs_verr cacc_aerr relX relV relA forceToG wrenchO balanced2]; vunf.
Ltac jet0 := auto_derive; [ repeat split; auto | ring ].

(** ** orthogonality:  R (R^T x) = x;  along the path  R(t) R(t)^T x = x - t^2 w x (w x x)
       (first-order orthogonal, which is all a derivative at t = 0 sees) *)
Lemma orth_mulv M x : orth M -> m33_mulv ROps M (m33_Tmulv ROps M x) = x.
Proof. dM M; d3 x. unfold orth. vunf. intros H. injection H as H1 H2 H3 H4 H5 H6 H7 H8 H9. teq; nsatz_or_fail. Qed.
Lemma Rt_mulv M w t y : m33_mulv ROps (Rt M w t) y = m33_mulv ROps M y +v t *v (w xv m33_mulv ROps M y).
Proof. dM M; d3 w; d3 y. cunf. teq; ring. Qed.
Lemma Rt_Tmulv M w t x : m33_Tmulv ROps (Rt M w t) x = m33_Tmulv ROps M (x -v t *v (w xv x)).
Proof. dM M; d3 w; d3 x. cunf. teq; ring. Qed.
Lemma Rt_RtT M w t x : orth M ->
  m33_mulv ROps (Rt M w t) (m33_Tmulv ROps (Rt M w t) x) = x -v (t*t) *v (w xv (w xv x)).
Proof. intros H. rewrite Rt_Tmulv, Rt_mulv, (orth_mulv M _ H). d3 w; d3 x. vunf. teq; ring. Qed.
Lemma Rt_0 M w : Rt M w 0 = M.
Proof. dM M; d3 w. cunf. teq; ring. Qed.
Lemma Xt_0 X V : Xt X V 0 = X.
Proof. dX X; dSV V. cunf. teq; ring. Qed.

Definition I3 : Mat33 R := m33_id ROps.
Definition O3 : Vec3 R := (0,0,0).
Lemma orth_I3 : orth I3. Proof. unfold orth, I3. vunf. teq; ring. Qed.
(** two real functions with the same derivative value claims: uniqueness *)
Lemma is_derive_same (f:R->R) (x a b:R) : is_derive f x a -> is_derive f x b -> a = b.
Proof. intros Ha Hb. apply is_derive_unique in Ha. apply is_derive_unique in Hb. congruence. Qed.

(** the station of body B coincident with a point given in A, re-expressed in A, along the motion *)
Lemma Rmul_toB X p : orth (fst X) -> Rmul ROps X (toB ROps X p) = p -v snd X.
Proof. intros H. unfold Rmul, toB. apply orth_mulv; auto. Qed.
Lemma Rmul_toB_t X V p t : orth (fst X) ->
  Rmul ROps (Xt X V t) (toB ROps (Xt X V t) p) =
  (p -v snd (Xt X V t)) -v (t*t) *v (fst V xv (fst V xv (p -v snd (Xt X V t)))).
Proof. intros H. unfold Rmul, toB. cbn [fst snd Xt]. apply Rt_RtT; auto. Qed.

(** rewriting versions of the three helpers when the station is a coincident point *)
Lemma stVel_toB X Vv p : orth (fst X) ->
  stVel ROps X Vv (toB ROps X p) = snd Vv +v fst Vv xv (p -v snd X).
Proof. intros H. unfold stVel. rewrite Rmul_toB; auto. Qed.
Lemma stVel_toB_t X V Vv p t : orth (fst X) ->
  stVel ROps (Xt X V t) Vv (toB ROps (Xt X V t) p) =
  snd Vv +v fst Vv xv ((p -v snd (Xt X V t)) -v (t*t) *v (fst V xv (fst V xv (p -v snd (Xt X V t))))).
Proof. intros H. unfold stVel. rewrite Rmul_toB_t; auto. Qed.
Lemma stAcc_toB X Vv Aa p : orth (fst X) ->
  stAcc ROps X Vv Aa (toB ROps X p) =
  snd Aa +v fst Aa xv (p -v snd X) +v fst Vv xv (fst Vv xv (p -v snd X)).
Proof. intros H. unfold stAcc. rewrite Rmul_toB; auto. Qed.
Lemma stForce_toB X p f : orth (fst X) -> stForce ROps X (toB ROps X p) f = ((p -v snd X) xv f, f).
Proof. intros H. unfold stForce. rewrite Rmul_toB; auto. Qed.

(** * ConstantAngle *)
Lemma ca_verr_is_jet XB XF VB VF b f c :
  is_derive (fun t => ca_perr ROps (Xt XB VB t) (Xt XF VF t) b f c) 0 (ca_verr ROps XB XF VB VF b f).
Proof. dX XB; dX XF; dSV VB; dSV VF; d3 b; d3 f. cunf. jet0. Qed.
Lemma ca_aerr_is_jet XB XF VB VF AB AF b f :
  is_derive (fun t => ca_verr ROps (Xt XB VB t) (Xt XF VF t) (Vt VB AB t) (Vt VF AF t) b f) 0
            (ca_aerr ROps XB XF VB VF AB AF b f).
Proof. dX XB; dX XF; dSV VB; dSV VF; dSV AB; dSV AF; d3 b; d3 f. cunf. jet0. Qed.
(** virtual work: lambda * verr(V) = <F_B, V_B> + <F_F, V_F> for every V (verr is linear in V) *)
Lemma ca_force_balanced XB XF b f lam : balanced2 XB XF (ca_force ROps XB XF b f lam).
Proof. dX XB; dX XF; d3 b; d3 f. cunf. teq; ring. Qed.
Lemma ca_force_is_transpose XB XF VB VF b f lam :
  lam * ca_verr ROps XB XF VB VF b f =
  sv_dot ROps (fst (ca_force ROps XB XF b f lam)) VB + sv_dot ROps (snd (ca_force ROps XB XF b f lam)) VF.
Proof. dX XB; dX XF; dSV VB; dSV VF; d3 b; d3 f. cunf. ring. Qed.

(** * ConstantOrientation *)
Lemma ori_verr_is_jet i XB XF VB VF RB0 RF0 :
  is_derive (fun t => vc i (ori_perr ROps (Xt XB VB t) (Xt XF VF t) RB0 RF0)) 0 (vc i (ori_verr ROps XB XF VB VF RB0 RF0)).
Proof. dX XB; dX XF; dSV VB; dSV VF; dM RB0; dM RF0. di i; cunf; jet0. Qed.
Lemma ori_aerr_is_jet i XB XF VB VF AB AF RB0 RF0 :
  is_derive (fun t => vc i (ori_verr ROps (Xt XB VB t) (Xt XF VF t) (Vt VB AB t) (Vt VF AF t) RB0 RF0)) 0
            (vc i (ori_aerr ROps XB XF VB VF AB AF RB0 RF0)).
Proof. dX XB; dX XF; dSV VB; dSV VF; dSV AB; dSV AF; dM RB0; dM RF0. di i; cunf; jet0. Qed.
Lemma ori_force_balanced XB XF RB0 RF0 lam : balanced2 XB XF (ori_force ROps XB XF RB0 RF0 lam).
Proof. dX XB; dX XF; dM RB0; dM RF0; d3 lam. cunf. teq; ring. Qed.
Lemma ori_force_is_transpose XB XF VB VF RB0 RF0 lam :
  v3_dot ROps lam (ori_verr ROps XB XF VB VF RB0 RF0) =
  sv_dot ROps (fst (ori_force ROps XB XF RB0 RF0 lam)) VB + sv_dot ROps (snd (ori_force ROps XB XF RB0 RF0 lam)) VF.
Proof. dX XB; dX XF; dSV VB; dSV VF; dM RB0; dM RF0; d3 lam. cunf. ring. Qed.
