(** C07: Rod (ConstantDistance).  Regular branch r >= tiny > 0 (the code's non-singular case); the singular
    branch (r < tiny, direction = z axis of F) is covered by [rod_singular_aerr_is_jet] and the transpose lemma,
    which holds in both branches. *)
From Coq Require Import ZArith Reals Lra Lia Psatz Nsatz List.
From Coquelicot Require Import Coquelicot.
Require Import Num Vec Tactics C07_Model C07_Proofs.
Import ListNotations.
Local Open Scope R_scope.

Ltac zsimp := rewrite ?Rmult_0_l, ?Rplus_0_r, ?Rmult_0_r, ?Rmult_1_l, ?Rplus_0_l.
Lemma sqrt_ne0 x : 0 < x -> sqrt x <> 0. Proof. intros; apply Rgt_not_eq, sqrt_lt_R0; auto. Qed.

Lemma norm_affine_jet (D P : Vec3 R) : 0 < v3_normSqr ROps D ->
  is_derive (fun t => v3_norm ROps (D +v t *v P)) 0 (v3_dot ROps P ((1 / v3_norm ROps D) *v D)).
Proof. d3 D; d3 P. vunf. intros H. pose proof (sqrt_ne0 _ H) as Hs. auto_derive; zsimp.
  - repeat split; auto.
  - field; auto.
Qed.
(** f(t) = P(t).D(t)/|D(t)| with D' = P(0) *)
Lemma dot_unit_jet (D P0 P1 P2 : Vec3 R) : 0 < v3_normSqr ROps D ->
  let s := v3_norm ROps D in let Cz := (1/s) *v D in
  is_derive (fun t => v3_dot ROps (P0 +v t *v P1 +v (t*t) *v P2) ((1 / v3_norm ROps (D +v t *v P0)) *v (D +v t *v P0))) 0
            (v3_dot ROps P1 Cz + v3_dot ROps P0 ((1/s) *v (P0 -v (v3_dot ROps P0 Cz) *v Cz))).
Proof. d3 D; d3 P0; d3 P1; d3 P2. vunf. intros H. pose proof (sqrt_ne0 _ H) as Hs.
  assert (Hq : sqrt (r * r + r0 * r0 + r1 * r1) * sqrt (r * r + r0 * r0 + r1 * r1) = r * r + r0 * r0 + r1 * r1) by (apply sqrt_sqrt; lra).
  auto_derive; zsimp.
  - repeat split; auto.
  - revert Hs Hq. generalize (sqrt (r * r + r0 * r0 + r1 * r1)). intros s Hs Hq.
    field_simplify_eq; auto; try (cbv [Rpow_def.pow]; nsatz_or_fail).
Qed.

Lemma is_derive_minus_const (f:R->R) (c x l:R) : is_derive f x l -> is_derive (fun t => f t - c) x l.
Proof. intros H. replace l with (minus l 0) by (unfold minus, plus, opp; simpl; ring).
  apply (is_derive_minus f (fun _ => c) x l 0); auto. apply @is_derive_const. Qed.

(** the regular-branch formulas *)
Definition rod_Cz_reg (XF XB:Transform R) (sF sB:Vec3 R) : Vec3 R :=
  (1 / v3_norm ROps (rod_d ROps XF XB sF sB)) *v rod_d ROps XF XB sF sB.
Definition rod_verr_reg (XF XB:Transform R) (VF VB:SpatialVec R) (sF sB:Vec3 R) : R :=
  v3_dot ROps (rod_pd ROps XF XB VF VB sF sB) (rod_Cz_reg XF XB sF sB).
Definition rod_aerr_reg (XF XB:Transform R) (VF VB AF AB:SpatialVec R) (sF sB:Vec3 R) : R :=
  let Cz := rod_Cz_reg XF XB sF sB in let pd := rod_pd ROps XF XB VF VB sF sB in
  v3_dot ROps (stAcc ROps XB VB AB sB -v stAcc ROps XF VF AF sF) Cz
  + v3_dot ROps pd ((1 / v3_norm ROps (rod_d ROps XF XB sF sB)) *v (pd -v (v3_dot ROps pd Cz) *v Cz)).
Lemma rod_regular_branch tiny XF XB VF VB AF AB sF sB : rod_singular ROps tiny XF XB sF sB = false ->
  rod_Cz ROps tiny XF XB sF sB = rod_Cz_reg XF XB sF sB /\
  rod_verr ROps tiny XF XB VF VB sF sB = rod_verr_reg XF XB VF VB sF sB /\
  rod_aerr ROps tiny XF XB VF VB AF AB sF sB = rod_aerr_reg XF XB VF VB AF AB sF sB.
Proof. intros H. unfold rod_verr, rod_aerr, rod_Czd, rod_Cz. rewrite H. repeat split; reflexivity. Qed.
(** the code's branch test is r < tiny *)
Lemma rod_singular_false tiny XF XB sF sB : tiny <= v3_norm ROps (rod_d ROps XF XB sF sB) -> rod_singular ROps tiny XF XB sF sB = false.
Proof. intros H. unfold rod_singular. cbn [nltb ROps]. apply Rltb_false. exact H. Qed.

(** along the motion the separation vector is affine in t and the separation velocity quadratic *)
Lemma rod_d_path XF XB VF VB sF sB t :
  rod_d ROps (Xt XF VF t) (Xt XB VB t) sF sB = rod_d ROps XF XB sF sB +v t *v rod_pd ROps XF XB VF VB sF sB.
Proof. dX XF; dX XB; dSV VF; dSV VB; d3 sF; d3 sB. cunf. teq; ring. Qed.
Definition rod_P2 (XF XB:Transform R) (VF VB AF AB:SpatialVec R) (sF sB:Vec3 R) : Vec3 R :=
  fst AB xv (fst VB xv Rmul ROps XB sB) -v fst AF xv (fst VF xv Rmul ROps XF sF).
Lemma rod_pd_path XF XB VF VB AF AB sF sB t :
  rod_pd ROps (Xt XF VF t) (Xt XB VB t) (Vt VF AF t) (Vt VB AB t) sF sB =
  rod_pd ROps XF XB VF VB sF sB +v t *v (stAcc ROps XB VB AB sB -v stAcc ROps XF VF AF sF) +v (t*t) *v rod_P2 XF XB VF VB AF AB sF sB.
Proof. dX XF; dX XB; dSV VF; dSV VB; dSV AF; dSV AB; d3 sF; d3 sB. unfold rod_P2. cunf. teq; ring. Qed.

Lemma rod_verr_is_jet XF XB VF VB sF sB d : 0 < v3_normSqr ROps (rod_d ROps XF XB sF sB) ->
  is_derive (fun t => rod_perr ROps (Xt XF VF t) (Xt XB VB t) sF sB d) 0 (rod_verr_reg XF XB VF VB sF sB).
Proof. intros H. unfold rod_verr_reg, rod_Cz_reg.
  eapply is_derive_ext. { intros t. unfold rod_perr. rewrite rod_d_path. reflexivity. }
  cbn [nsub ROps]. apply is_derive_minus_const. apply norm_affine_jet; auto. Qed.
Lemma rod_aerr_is_jet XF XB VF VB AF AB sF sB : 0 < v3_normSqr ROps (rod_d ROps XF XB sF sB) ->
  is_derive (fun t => rod_verr_reg (Xt XF VF t) (Xt XB VB t) (Vt VF AF t) (Vt VB AB t) sF sB) 0
            (rod_aerr_reg XF XB VF VB AF AB sF sB).
Proof. intros H. unfold rod_aerr_reg.
  eapply is_derive_ext. { intros t. unfold rod_verr_reg, rod_Cz_reg. rewrite rod_pd_path, rod_d_path. reflexivity. }
  apply (dot_unit_jet (rod_d ROps XF XB sF sB) (rod_pd ROps XF XB VF VB sF sB)); auto. Qed.
(** the forces are the transpose of the velocity-error map in BOTH branches (the same direction Cz is used for both) *)
Lemma rod_force_is_transpose tiny XF XB VF VB sF sB lam :
  lam * rod_verr ROps tiny XF XB VF VB sF sB =
  sv_dot ROps (fst (rod_force ROps tiny XF XB sF sB lam)) VF + sv_dot ROps (snd (rod_force ROps tiny XF XB sF sB lam)) VB.
Proof. unfold rod_verr, rod_force. generalize (rod_Cz ROps tiny XF XB sF sB). intros Cz.
  dX XF; dX XB; dSV VF; dSV VB; d3 sF; d3 sB; d3 Cz. cunf. ring. Qed.
(** balanced (force along the line joining the two stations) on the regular branch *)
Lemma rod_force_balanced tiny XF XB sF sB lam : rod_singular ROps tiny XF XB sF sB = false ->
  balanced2 XF XB (rod_force ROps tiny XF XB sF sB lam).
Proof. intros H. unfold rod_force, rod_Cz. rewrite H. generalize (ndiv ROps (n1 ROps) (v3_norm ROps (rod_d ROps XF XB sF sB))). intros k.
  dX XF; dX XB; d3 sF; d3 sB. cunf. teq; ring. Qed.
(** singular branch: the direction is the z axis of F, Czd = w_AF x Cz, and aerr is the jet of verr there too *)
Lemma rod_singular_aerr_is_jet tiny XF XB VF VB AF AB sF sB : rod_singular ROps tiny XF XB sF sB = true ->
  is_derive (fun t => v3_dot ROps (rod_pd ROps (Xt XF VF t) (Xt XB VB t) (Vt VF AF t) (Vt VB AB t) sF sB) (m33_c2 (fst (Xt XF VF t)))) 0
            (rod_aerr ROps tiny XF XB VF VB AF AB sF sB).
Proof. intros H. unfold rod_aerr, rod_Czd, rod_Cz. rewrite H.
  dX XF; dX XB; dSV VF; dSV VB; dSV AF; dSV AB; d3 sF; d3 sB. cunf. jet0. Qed.
(** non-vacuity of the regular-branch hypotheses *)
Example rod_hyps_satisfiable : 0 < v3_normSqr ROps (rod_d ROps (I3,O3) (I3,(3,4,0)) O3 O3) /\
  rod_singular ROps (1/1000) (I3,O3) (I3,(3,4,0)) O3 O3 = false.
Proof. split. unfold I3, O3; cunf; lra.
  apply rod_singular_false. unfold I3, O3. cunf. replace (_ + _ + _) with (5*5) by ring. rewrite sqrt_square; lra. Qed.
