(** C07 system level, per constraint type: multiplyByGTranspose is the exact adjoint of multiplyByG for every tree,
    every Ancestor (a rotation R_GA), every pair of constrained bodies (identifiers k1, k2; kA for the Ancestor).
    The bodies' poses in A are relX XGA XGi, the velocities fed to the velocity-error kernels are the A-relative
    velocities [VAof] (relV of the outward pass J u), and the forces handed to J^T are R_GA * F_A(lambda) ([GtL]). *)
From Coq Require Import ZArith Reals Lra Lia Psatz Nsatz List.
From Coquelicot Require Import Coquelicot.
Require Import Num Vec Tactics Tree MB MB_Proofs Spatial Spatial_Proofs C07_Model C07_Proofs C07_Point C07_Ball C07_NoSlip C07_Rod C07_System.
Import ListNotations.
Local Open Scope R_scope.
Notation KR := (svK ROps).
Notation NodeData X := (X -> node (SpatialVec R) (Vec3 R) (SpInertia (T:=R))).

(** A-relative velocity of body k (pose XGB in Ground) under the speeds u: one entry of "V_AB(J u)" *)
Definition VAof {X} (nd:NodeData X) (bid:X->nat) (XGA:Transform R) (kA:nat) (XGB:Transform R) (k:nat) (u:X->list R) (t:tree X) : SpatialVec R :=
  relV ROps XGA (pick bid kA (flatten (mulJ KR nd u t))) XGB (pick bid k (flatten (mulJ KR nd u t))).
(** <J^T (R_GA F), u> for the two body forces F = (F1 on body k1, F2 on body k2), given in A *)
Definition GtL {X} (nd:NodeData X) (bid:X->nat) (XGA:Transform R) (k1 k2:nat) (u:X->list R) (t:tree X) (F:SpatialVec R * SpatialVec R) : R :=
  tsum (tmap (fun xt => dotU KR (snd xt) (u (fst xt)))
             (mulJt KR nd (Fsel bid [(k1, forceToG ROps XGA (fst F)); (k2, forceToG ROps XGA (snd F))]) t)).
Ltac inst nd bid g Ht Hb := unfold GtL, VAof; apply (adjoint2_ancestor nd bid g); auto; [intros; apply Ht; auto | rewrite <- surjective_pairing; apply Hb; auto].

Theorem rod_G_adjoint {X} (nd:NodeData X) (bid:X->nat) (XGA XG1 XG2:Transform R) (kA k1 k2:nat) (u:X->list R) (t:tree X) (tiny:R) (sF sB:Vec3 R) (lam:R) :
  rot (fst XGA) -> rod_singular ROps tiny (relX ROps XGA XG1) (relX ROps XGA XG2) sF sB = false ->
  lam * rod_verr ROps tiny (relX ROps XGA XG1) (relX ROps XGA XG2) (VAof nd bid XGA kA XG1 k1 u t) (VAof nd bid XGA kA XG2 k2 u t) sF sB
  = GtL nd bid XGA k1 k2 u t (rod_force ROps tiny (relX ROps XGA XG1) (relX ROps XGA XG2) sF sB lam).
Proof. intros Hr Hs. inst nd bid (fun V1 V2 => lam * rod_verr ROps tiny (relX ROps XGA XG1) (relX ROps XGA XG2) V1 V2 sF sB) rod_force_is_transpose rod_force_balanced. Qed.
Theorem ball_G_adjoint {X} (nd:NodeData X) (bid:X->nat) (XGA XG1 XG2:Transform R) (kA k1 k2:nat) (u:X->list R) (t:tree X) (s2 lam:Vec3 R) :
  rot (fst XGA) -> orth (fst (relX ROps XGA XG1)) ->
  v3_dot ROps lam (ball_verr ROps (relX ROps XGA XG1) (relX ROps XGA XG2) (VAof nd bid XGA kA XG1 k1 u t) (VAof nd bid XGA kA XG2 k2 u t) s2)
  = GtL nd bid XGA k1 k2 u t (ball_force ROps (relX ROps XGA XG1) (relX ROps XGA XG2) s2 lam).
Proof. intros Hr Ho. inst nd bid (fun V1 V2 => v3_dot ROps lam (ball_verr ROps (relX ROps XGA XG1) (relX ROps XGA XG2) V1 V2 s2)) ball_force_is_transpose ball_force_balanced. Qed.
Theorem weld_G_adjoint {X} (nd:NodeData X) (bid:X->nat) (XGA XG1 XG2:Transform R) (kA k1 k2:nat) (u:X->list R) (t:tree X) (FB FF:Transform R) (lam:Vec3 R * Vec3 R) :
  rot (fst XGA) -> orth (fst (relX ROps XGA XG1)) ->
  v3_dot ROps (fst lam) (fst (weld_verr ROps (relX ROps XGA XG1) (relX ROps XGA XG2) (VAof nd bid XGA kA XG1 k1 u t) (VAof nd bid XGA kA XG2 k2 u t) FB FF)) + v3_dot ROps (snd lam) (snd (weld_verr ROps (relX ROps XGA XG1) (relX ROps XGA XG2) (VAof nd bid XGA kA XG1 k1 u t) (VAof nd bid XGA kA XG2 k2 u t) FB FF))
  = GtL nd bid XGA k1 k2 u t (weld_force ROps (relX ROps XGA XG1) (relX ROps XGA XG2) FB FF lam).
Proof. intros Hr Ho. inst nd bid (fun V1 V2 => v3_dot ROps (fst lam) (fst (weld_verr ROps (relX ROps XGA XG1) (relX ROps XGA XG2) V1 V2 FB FF)) + v3_dot ROps (snd lam) (snd (weld_verr ROps (relX ROps XGA XG1) (relX ROps XGA XG2) V1 V2 FB FF))) weld_force_is_transpose weld_force_balanced. Qed.
Theorem pip_G_adjoint {X} (nd:NodeData X) (bid:X->nat) (XGA XG1 XG2:Transform R) (kA k1 k2:nat) (u:X->list R) (t:tree X) (n s:Vec3 R) (lam:R) :
  rot (fst XGA) -> orth (fst (relX ROps XGA XG1)) ->
  lam * pip_verr ROps (relX ROps XGA XG1) (relX ROps XGA XG2) (VAof nd bid XGA kA XG1 k1 u t) (VAof nd bid XGA kA XG2 k2 u t) n s
  = GtL nd bid XGA k1 k2 u t (pip_force ROps (relX ROps XGA XG1) (relX ROps XGA XG2) n s lam).
Proof. intros Hr Ho. inst nd bid (fun V1 V2 => lam * pip_verr ROps (relX ROps XGA XG1) (relX ROps XGA XG2) V1 V2 n s) pip_force_is_transpose pip_force_balanced. Qed.
Theorem pol_G_adjoint {X} (nd:NodeData X) (bid:X->nat) (XGA XG1 XG2:Transform R) (kA k1 k2:nat) (u:X->list R) (t:tree X) (x y s:Vec3 R) (lam:R*R) :
  rot (fst XGA) -> orth (fst (relX ROps XGA XG1)) ->
  fst lam * fst (pol_verr ROps (relX ROps XGA XG1) (relX ROps XGA XG2) (VAof nd bid XGA kA XG1 k1 u t) (VAof nd bid XGA kA XG2 k2 u t) x y s) + snd lam * snd (pol_verr ROps (relX ROps XGA XG1) (relX ROps XGA XG2) (VAof nd bid XGA kA XG1 k1 u t) (VAof nd bid XGA kA XG2 k2 u t) x y s)
  = GtL nd bid XGA k1 k2 u t (pol_force ROps (relX ROps XGA XG1) (relX ROps XGA XG2) x y s lam).
Proof. intros Hr Ho. inst nd bid (fun V1 V2 => fst lam * fst (pol_verr ROps (relX ROps XGA XG1) (relX ROps XGA XG2) V1 V2 x y s) + snd lam * snd (pol_verr ROps (relX ROps XGA XG1) (relX ROps XGA XG2) V1 V2 x y s)) pol_force_is_transpose pol_force_balanced. Qed.
Theorem ca_G_adjoint {X} (nd:NodeData X) (bid:X->nat) (XGA XG1 XG2:Transform R) (kA k1 k2:nat) (u:X->list R) (t:tree X) (b f:Vec3 R) (lam:R) :
  rot (fst XGA) ->
  lam * ca_verr ROps (relX ROps XGA XG1) (relX ROps XGA XG2) (VAof nd bid XGA kA XG1 k1 u t) (VAof nd bid XGA kA XG2 k2 u t) b f
  = GtL nd bid XGA k1 k2 u t (ca_force ROps (relX ROps XGA XG1) (relX ROps XGA XG2) b f lam).
Proof. intros Hr. inst nd bid (fun V1 V2 => lam * ca_verr ROps (relX ROps XGA XG1) (relX ROps XGA XG2) V1 V2 b f) ca_force_is_transpose ca_force_balanced. Qed.
Theorem ori_G_adjoint {X} (nd:NodeData X) (bid:X->nat) (XGA XG1 XG2:Transform R) (kA k1 k2:nat) (u:X->list R) (t:tree X) (RB0 RF0:Mat33 R) (lam:Vec3 R) :
  rot (fst XGA) ->
  v3_dot ROps lam (ori_verr ROps (relX ROps XGA XG1) (relX ROps XGA XG2) (VAof nd bid XGA kA XG1 k1 u t) (VAof nd bid XGA kA XG2 k2 u t) RB0 RF0)
  = GtL nd bid XGA k1 k2 u t (ori_force ROps (relX ROps XGA XG1) (relX ROps XGA XG2) RB0 RF0 lam).
Proof. intros Hr. inst nd bid (fun V1 V2 => v3_dot ROps lam (ori_verr ROps (relX ROps XGA XG1) (relX ROps XGA XG2) V1 V2 RB0 RF0)) ori_force_is_transpose ori_force_balanced. Qed.
(** NoSlip1D: bodies 1,2 are the moving bodies B0,B1; the case body (pose XC in A) receives no force and its velocity does not enter verr *)
Theorem ns_G_adjoint {X} (nd:NodeData X) (bid:X->nat) (XGA XG1 XG2:Transform R) (kA k1 k2:nat) (u:X->list R) (t:tree X) (XC:Transform R) (P n:Vec3 R) (lam:R) :
  rot (fst XGA) -> orth (fst (relX ROps XGA XG1)) -> orth (fst (relX ROps XGA XG2)) ->
  lam * ns_verr ROps XC (relX ROps XGA XG1) (relX ROps XGA XG2) (VAof nd bid XGA kA XG1 k1 u t) (VAof nd bid XGA kA XG2 k2 u t) P n
  = GtL nd bid XGA k1 k2 u t (ns_force ROps XC (relX ROps XGA XG1) (relX ROps XGA XG2) P n lam).
Proof. intros Hr Ho1 Ho2. inst nd bid (fun V1 V2 => lam * ns_verr ROps XC (relX ROps XGA XG1) (relX ROps XGA XG2) V1 V2 P n) ns_force_is_transpose ns_force_balanced. Qed.
(** non-vacuity of the hypotheses: identity Ancestor, body 1 translated *)
Example G_adjoint_hyps_satisfiable : rot (fst (I3,O3)) /\ orth (fst (relX ROps (I3,O3) (I3,(1,2,3)))).
Proof. split. apply rot_I3. unfold I3, O3. cunf. teq; ring. Qed.
