(** C07 system level: for EVERY tree (coq/Lib/MB.v), the O(n) constraint-matrix operator
       multiplyByG:           u |-> verr_lin( V_AB( J u ) )            (rows of G times u)
    and the transpose operator
       multiplyByGTranspose:  lambda |-> J^T ( R_GA F_A(lambda) )
    are exact adjoints:  <lambda, G u> = <G^T lambda, u>.
    Composition of (i) the per-type virtual-work identity  lambda.verr(V) = sum_b <F_b, V_b>,
    (ii) the Ancestor-frame conversion (relV / forceToG) whose transpose needs the constraint forces to be
    balanced (zero net wrench; proved per type), and (iii) mulJt_adjoint of Lib/MB_Proofs.v.
    Bodies are addressed by an identifier  bid : X -> nat ; [pick k] sums the velocities of the nodes with
    identifier k (exactly body k's velocity when identifiers are unique; the theorem needs no uniqueness). *)
From Coq Require Import ZArith Reals Lra Lia Psatz Nsatz List.
From Coquelicot Require Import Coquelicot.
Require Import Num Vec Tactics Tree MB MB_Proofs Spatial Spatial_Proofs C07_Model C07_Proofs.
Import ListNotations.
Local Open Scope R_scope.

Definition rot (M:Mat33 R) : Prop :=
  m33_mul ROps M (m33_T M) = m33_id ROps /\ m33_mul ROps (m33_T M) M = m33_id ROps /\ m33_det ROps M = 1.
Lemma rot_orth M : rot M -> orth M. Proof. intros [H _]; exact H. Qed.
Lemma rot_cross M a b : rot M -> m33_mulv ROps M (a xv b) = (m33_mulv ROps M a) xv (m33_mulv ROps M b).
Proof. dM M; d3 a; d3 b. unfold rot. vunf. intros [H1 [H2 H3]].
  injection H1 as ? ? ? ? ? ? ? ? ?. injection H2 as ? ? ? ? ? ? ? ? ?. teq; nsatz_or_fail. Qed.
Lemma rot_I3 : rot I3. Proof. unfold rot, I3. vunf. repeat split; try (teq; ring); try ring. Qed.

(** ** balance of the remaining two-body types *)
Lemma pip_force_balanced XB XF n s lam : orth (fst XB) -> balanced2 XB XF (pip_force ROps XB XF n s lam).
Proof. intros H. unfold pip_force. rewrite stForce_toB by auto. dX XB; dX XF; d3 n; d3 s. cunf. teq; ring. Qed.
Lemma pol_force_balanced XB XF x y s lam : orth (fst XB) -> balanced2 XB XF (pol_force ROps XB XF x y s lam).
Proof. intros H. unfold pol_force. rewrite stForce_toB by auto. dX XB; dX XF; d3 x; d3 y; d3 s; destruct lam. cunf. teq; ring. Qed.
Lemma ns_force_balanced XC X0 X1 P n lam : orth (fst X0) -> orth (fst X1) -> balanced2 X0 X1 (ns_force ROps XC X0 X1 P n lam).
Proof. intros H0 H1. unfold ns_force. rewrite !stForce_toB by auto. dX XC; dX X0; dX X1; d3 P; d3 n. cunf. teq; ring. Qed.

(** ** Ancestor-frame conversion and its transpose *)
Lemma relV_adjoint FA XGA VGA XGB VGB :
  sv_dot ROps FA (relV ROps XGA VGA XGB VGB) =
  sv_dot ROps (forceToG ROps XGA FA) VGB - sv_dot ROps (shiftForce ROps (snd XGB -v snd XGA) (forceToG ROps XGA FA)) VGA.
Proof. dSV FA; dX XGA; dSV VGA; dX XGB; dSV VGB. unfold shiftForce. cunf. ring. Qed.
(** forces balanced in A (about A's origin, with the bodies' poses in A) have zero net wrench about A's origin in Ground *)
Lemma balance_to_G XGA XG1 XG2 F1 F2 : rot (fst XGA) ->
  balanced2 (relX ROps XGA XG1) (relX ROps XGA XG2) (F1, F2) ->
  sv_add ROps (shiftForce ROps (snd XG1 -v snd XGA) (forceToG ROps XGA F1))
              (shiftForce ROps (snd XG2 -v snd XGA) (forceToG ROps XGA F2)) = sv_zero ROps.
Proof. intros Hr Hb. pose proof (rot_orth _ Hr) as Ho.
  unfold balanced2, wrenchO, relX, xf_compose, xf_inv, xf_apply in Hb. cbn [fst snd] in Hb.
  unfold shiftForce, forceToG, Rmul. cbn [fst snd].
  set (M := fst XGA) in *. set (pA := snd XGA) in *.
  destruct F1 as [t1 f1], F2 as [t2 f2]. cbn [fst snd] in *.
  (* positions in A: pAi = -(M^T pA) + M^T pGi ; M pAi = pGi - pA *)
  assert (E : forall p, m33_mulv ROps M (v3_neg ROps (m33_Tmulv ROps M pA) +v m33_mulv ROps (m33_T M) p) = p -v pA).
  { intros p. rewrite <- (orth_mulv M (p -v pA) Ho). f_equal. clear. dM M; d3 p; d3 pA. vunf. teq; ring. }
  rewrite <- (E (snd XG1)), <- (E (snd XG2)), <- !(rot_cross M _ _ Hr).
  set (q1 := v3_neg ROps (m33_Tmulv ROps M pA) +v m33_mulv ROps (m33_T M) (snd XG1)) in *.
  set (q2 := v3_neg ROps (m33_Tmulv ROps M pA) +v m33_mulv ROps (m33_T M) (snd XG2)) in *.
  clearbody q1 q2. clear E Hr Ho. unfold sv_add, sv_zero in *. cbn [fst snd] in *.
  injection Hb as Ht Hf.
  assert (L : forall a b, m33_mulv ROps M a +v m33_mulv ROps M b = m33_mulv ROps M (a +v b)) by (intros a b; dM M; d3 a; d3 b; vunf; teq; ring).
  assert (Z : m33_mulv ROps M (v3_zero ROps) = v3_zero ROps) by (dM M; vunf; teq; ring).
  f_equal.
  - replace ((m33_mulv ROps M t1 +v m33_mulv ROps M (q1 xv f1)) +v (m33_mulv ROps M t2 +v m33_mulv ROps M (q2 xv f2)))
      with (m33_mulv ROps M ((t1 +v q1 xv f1) +v (t2 +v q2 xv f2))) by (rewrite <- !L; reflexivity).
    rewrite Ht. exact Z.
  - rewrite L, Hf. exact Z.
Qed.

Section Sys.
Context {X:Type} (nd : X -> node (SpatialVec R) (Vec3 R) (SpInertia (T:=R))) (bid : X -> nat).
Notation KR := (svK ROps).
Notation SVR := (SpatialVec R).
Definition svz : SVR := sv_zero ROps.
(** velocity of body k read off the result of the outward pass *)
Definition pick (k:nat) (l:list (X * SVR)) : SVR :=
  fold_right (fun nv acc => if Nat.eqb (bid (fst nv)) k then sv_add ROps (snd nv) acc else acc) svz l.
(** the body-force field handed to J^T: force F on every node with identifier k, for each (k,F) of the list *)
Definition Fsel (bs:list (nat * SVR)) (x:X) : SVR :=
  fold_right (fun kF acc => if Nat.eqb (bid x) (fst kF) then sv_add ROps (snd kF) acc else acc) svz bs.

Lemma svdot_zero_l v : sv_dot ROps svz v = 0. Proof. dSV v. unfold svz. cunf. ring. Qed.
Lemma svdot_zero_r v : sv_dot ROps v svz = 0. Proof. dSV v. unfold svz. cunf. ring. Qed.
Lemma svdot_add_r a b c : sv_dot ROps a (sv_add ROps b c) = sv_dot ROps a b + sv_dot ROps a c.
Proof. dSV a; dSV b; dSV c. vunf. ring. Qed.
Lemma svdot_add_l a b c : sv_dot ROps (sv_add ROps a b) c = sv_dot ROps a c + sv_dot ROps b c.
Proof. dSV a; dSV b; dSV c. vunf. ring. Qed.

Lemma pick_dot F k l : sv_dot ROps F (pick k l) = lsum (map (fun nv => if Nat.eqb (bid (fst nv)) k then sv_dot ROps F (snd nv) else 0) l).
Proof. induction l as [|nv l IH]; cbn [pick fold_right map].
  - unfold lsum; cbn. apply svdot_zero_r.
  - rewrite lsum_cons. fold (pick k l). destruct (Nat.eqb (bid (fst nv)) k); [rewrite svdot_add_r|]; rewrite IH; lra. Qed.
Lemma Fsel_dot bs l :
  lsum (map (fun kF => sv_dot ROps (snd kF) (pick (fst kF) l)) bs) = lsum (map (fun nv => sv_dot ROps (Fsel bs (fst nv)) (snd nv)) l).
Proof. induction bs as [|[k F] bs IH]; cbn [map Fsel fold_right fst snd].
  - unfold lsum at 1; cbn [fold_right]. induction l as [|nv l IHl]; cbn [map]; [reflexivity|].
    rewrite lsum_cons. change (Fsel [] (fst nv)) with svz. rewrite svdot_zero_l, <- IHl. lra.
  - rewrite lsum_cons, IH, pick_dot. clear IH. fold (Fsel bs).
    induction l as [|nv l IHl]; cbn [map]; [unfold lsum; cbn; lra|]. rewrite !lsum_cons. fold (Fsel bs (fst nv)).
    destruct (Nat.eqb (bid (fst nv)) k); [rewrite svdot_add_l|]; lra. Qed.

(** <F, J u> restricted to the listed bodies = <J^T F, u>, for every tree *)
Theorem sys_adjoint (u : X -> list R) (bs : list (nat * SVR)) (t : tree X) :
  lsum (map (fun kF => sv_dot ROps (snd kF) (pick (fst kF) (flatten (mulJ KR nd u t)))) bs)
  = tsum (tmap (fun xt => dotU KR (snd xt) (u (fst xt))) (mulJt KR nd (Fsel bs) t)).
Proof. rewrite Fsel_dot.
  rewrite <- (mulJt_adjoint KR sv_s0 sv_sadd sv_smul sv_dot_add_l sv_dot_add_r sv_dot_scale_r sv_dot_zero_r sv_dot_zero_l sv_phi_adj nd u (Fsel bs) t).
  rewrite tsum_flatten. reflexivity. Qed.

(** two-body constraint whose Ancestor is Ground: [g] is lambda.verr as a function of the two body velocities *)
Theorem adjoint2_ground (g : SVR -> SVR -> R) (F1 F2 : SVR) (k1 k2 : nat) (u : X -> list R) (t : tree X) :
  (forall V1 V2, g V1 V2 = sv_dot ROps F1 V1 + sv_dot ROps F2 V2) ->
  let T := flatten (mulJ KR nd u t) in
  g (pick k1 T) (pick k2 T) = tsum (tmap (fun xt => dotU KR (snd xt) (u (fst xt))) (mulJt KR nd (Fsel [(k1,F1);(k2,F2)]) t)).
Proof. intros Hg T. rewrite Hg, <- sys_adjoint. cbn [map fst snd]. rewrite !lsum_cons. unfold lsum; cbn [fold_right]. fold T. lra. Qed.

(** general Ancestor A (pose XGA, body identifier kA): body velocities are converted with relV, forces with forceToG *)
Theorem adjoint2_ancestor (g : SVR -> SVR -> R) (FA1 FA2 : SVR) (XGA XG1 XG2 : Transform R) (kA k1 k2 : nat) (u : X -> list R) (t : tree X) :
  rot (fst XGA) ->
  (forall V1 V2, g V1 V2 = sv_dot ROps FA1 V1 + sv_dot ROps FA2 V2) ->
  balanced2 (relX ROps XGA XG1) (relX ROps XGA XG2) (FA1, FA2) ->
  let T := flatten (mulJ KR nd u t) in
  g (relV ROps XGA (pick kA T) XG1 (pick k1 T)) (relV ROps XGA (pick kA T) XG2 (pick k2 T))
  = tsum (tmap (fun xt => dotU KR (snd xt) (u (fst xt))) (mulJt KR nd (Fsel [(k1, forceToG ROps XGA FA1); (k2, forceToG ROps XGA FA2)]) t)).
Proof. intros Hr Hg Hb T. rewrite Hg, !relV_adjoint.
  pose proof (balance_to_G XGA XG1 XG2 FA1 FA2 Hr Hb) as Hz.
  assert (E : sv_dot ROps (shiftForce ROps (snd XG1 -v snd XGA) (forceToG ROps XGA FA1)) (pick kA T)
            + sv_dot ROps (shiftForce ROps (snd XG2 -v snd XGA) (forceToG ROps XGA FA2)) (pick kA T) = 0).
  { rewrite <- svdot_add_l, Hz. apply svdot_zero_l. }
  rewrite <- sys_adjoint. cbn [map fst snd]. rewrite !lsum_cons. unfold lsum; cbn [fold_right]. fold T. lra. Qed.
End Sys.
