(** C08 model: the equations of constrained forward dynamics as an executable certificate checker, generic in
    [NumOps].  Matrices are lists of rows.  Given M (n x n), G (m x n), an enable mask for the rows of G, the
    right-hand sides rhs = f_applied - f_inertial (n) and b (m), and a candidate (udot, lambda):
       dyn residual   r  = M udot + G^T (mask . lambda) - rhs        (Newton's law with multipliers)
       con residual   c_k = mask_k ? (G udot - b)_k : 0               (acceleration-level constraint equations)
       power          p  = - <G^T (mask . lambda), u>                 (power of the constraint forces at speeds u)
    No proofs here. *)
From Coq Require Import List.
Import ListNotations.
Require Import Num.

Section M. Context {T:Type} (K:NumOps T).
Fixpoint ldot (a b:list T) : T :=
  match a, b with x :: a', y :: b' => nadd K (nmul K x y) (ldot a' b') | _, _ => n0 K end.
Definition mat_vec (A:list (list T)) (x:list T) : list T := map (fun row => ldot row x) A.
Fixpoint vadd (a b:list T) : list T := match a, b with x :: a', y :: b' => nadd K x y :: vadd a' b' | _, _ => [] end.
Fixpoint vsub (a b:list T) : list T := match a, b with x :: a', y :: b' => nsub K x y :: vsub a' b' | _, _ => [] end.
Definition vscale (s:T) (a:list T) : list T := map (nmul K s) a.
Definition vzero (n:nat) : list T := repeat (n0 K) n.
(** G^T l = sum_k l_k * row_k(G) *)
Fixpoint matT_vec (n:nat) (A:list (list T)) (l:list T) : list T :=
  match A, l with row :: A', lk :: l' => vadd (vscale lk row) (matT_vec n A' l') | _, _ => vzero n end.
Fixpoint maskv (mask:list bool) (l:list T) : list T :=
  match mask, l with m :: mask', x :: l' => (if m then x else n0 K) :: maskv mask' l' | _, _ => [] end.

Definition kkt_dyn_residual (n:nat) (M G:list (list T)) (mask:list bool) (rhs udot lam:list T) : list T :=
  vsub (vadd (mat_vec M udot) (matT_vec n G (maskv mask lam))) rhs.
Definition kkt_con_residual (G:list (list T)) (mask:list bool) (b udot:list T) : list T :=
  maskv mask (vsub (mat_vec G udot) b).
(** ** enable / disable: the Instance-stage flag "constraint is disabled" of one constraint in one State.  It starts at the
       constraint's default (isDisabledByDefault) and every Constraint::disable(state) / enable(state) /
       setConstraintIsDisabled(state,c,b) request overwrites it; realizing the state in between does not touch it. *)
Definition disabled_after (default:bool) (requests:list bool) : bool := fold_left (fun _ r => r) requests default.
(** the enable mask forward dynamics must use after the request histories of all constraints *)
Definition mask_after (defaults:list bool) (histories:list (list bool)) : list bool :=
  map (fun dh => negb (disabled_after (fst dh) (snd dh))) (combine defaults histories).

Definition constraint_power (n:nat) (G:list (list T)) (mask:list bool) (lam u:list T) : T :=
  nopp K (ldot (matT_vec n G (maskv mask lam)) u).
End M.
