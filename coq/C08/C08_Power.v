(** C08 power identities, consequences of the models:
    - system level (C08_Proofs.v vectors/matrices): the power of the constraint forces  -<G^T lambda, u>  equals  -lambda.(G u);
      it splits additively over any partition of the constraint rows into per-constraint blocks (Constraint::calcPower summed
      = calcConstraintPower), each block's power is  -lambda_c.(G_c u)  and vanishes when that block's velocity equations G_c u = 0 hold;
    - per-constraint level (C07 kernels): the power of the body forces a constraint applies, -(<F_1,V_1> + <F_2,V_2>), is -lambda.verr(V)
      for every body motion, so it vanishes on the velocity manifold -- stated for the two-body kernels through their transpose theorems. *)
From Coq Require Import Reals Lra Lia List Arith Bool.
Import ListNotations.
Require Import Num Vec C08_Model C08_Proofs.
Local Open Scope R_scope.

Section Power.
Variables (n m : nat) (G : nat -> nat -> R).
(** power of the rows selected by [sel] (a per-constraint block, or all enabled rows) *)
Definition power (sel:nat->bool) (l u:nat->R) : R := - dotn n (Gtv m G sel l) u.
Theorem power_is_minus_lambda_Gu sel l u : power sel l u = - dotm m (mk sel l) (Gv n G u).
Proof. unfold power. rewrite G_adjoint. reflexivity. Qed.
(** two disjoint blocks: the power of their union is the sum of their powers *)
Theorem power_splits sel1 sel2 l u : (forall k, (k < m)%nat -> sel1 k && sel2 k = false) ->
  power (fun k => sel1 k || sel2 k) l u = power sel1 l u + power sel2 l u.
Proof. intros Hd. rewrite !power_is_minus_lambda_Gu. unfold dotm.
  rewrite <- Ropp_plus_distr, <- sumn_add. f_equal. apply sumn_ext. intros k Hk. unfold mk. specialize (Hd k Hk).
  destruct (sel1 k), (sel2 k); cbn in *; try discriminate; lra. Qed.
(** any finite list of pairwise disjoint blocks *)
Fixpoint unionsel (bs:list (nat->bool)) (k:nat) : bool := match bs with [] => false | b :: r => b k || unionsel r k end.
Fixpoint sumpower (bs:list (nat->bool)) (l u:nat->R) : R := match bs with [] => 0 | b :: r => power b l u + sumpower r l u end.
Fixpoint disjoint_blocks (bs:list (nat->bool)) : Prop :=
  match bs with [] => True | b :: r => (forall k, (k < m)%nat -> b k && unionsel r k = false) /\ disjoint_blocks r end.
Lemma power_none l u : power (fun _ => false) l u = 0.
Proof. rewrite power_is_minus_lambda_Gu. unfold dotm. rewrite sumn_zero; [lra|]. intros; unfold mk; lra. Qed.
Theorem total_power_is_sum_of_constraint_powers bs l u : disjoint_blocks bs -> power (unionsel bs) l u = sumpower bs l u.
Proof. induction bs as [|b r IH]; intros H; cbn [unionsel sumpower].
  - apply power_none.
  - destruct H as [Hd Hr]. change (fun k => b k || unionsel r k) with (fun k => b k || unionsel r k).
    rewrite (power_splits b (unionsel r) l u Hd), IH; auto. Qed.
(** a block whose velocity-level equations hold does no work (workless constraints at satisfied velocity constraints) *)
Theorem block_power_zero_on_velocity_manifold sel l u : (forall k, (k < m)%nat -> sel k = true -> Gv n G u k = 0) -> power sel l u = 0.
Proof. intros H. unfold power. rewrite (workless_power_zero n m G sel l u H). lra. Qed.
(** a velocity constraint with a non-zero right-hand side (ConstantSpeed at speed s: G_c u = s) does work -lambda s: not workless *)
Theorem block_power_of_driven_row k0 s l u : (k0 < m)%nat -> Gv n G u k0 = s -> power (fun k => Nat.eqb k k0) l u = - (l k0 * s).
Proof. intros Hk Hs. rewrite power_is_minus_lambda_Gu. unfold dotm. f_equal.
  assert (E : forall j, (j <= m)%nat -> sumn j (fun k => mk (fun k => Nat.eqb k k0) l k * Gv n G u k) = if Nat.ltb k0 j then l k0 * s else 0).
  { induction j; intros Hj. - reflexivity.
    - cbn [sumn]. rewrite IHj by lia. unfold mk. destruct (Nat.eqb j k0) eqn:E1.
      + apply Nat.eqb_eq in E1; subst j. replace (Nat.ltb k0 k0) with false by (symmetry; apply Nat.ltb_ge; lia).
        replace (Nat.ltb k0 (S k0)) with true by (symmetry; apply Nat.ltb_lt; lia). rewrite Hs. lra.
      + apply Nat.eqb_neq in E1. destruct (Nat.ltb k0 j) eqn:E2.
        * apply Nat.ltb_lt in E2. replace (Nat.ltb k0 (S j)) with true by (symmetry; apply Nat.ltb_lt; lia). lra.
        * apply Nat.ltb_ge in E2. replace (Nat.ltb k0 (S j)) with false by (symmetry; apply Nat.ltb_ge; lia). lra. }
  rewrite (E m (le_n m)). replace (Nat.ltb k0 m) with true by (symmetry; apply Nat.ltb_lt; lia). reflexivity. Qed.
End Power.

(** ** enable / disable requests: the flag after any sequence of requests is the last request (the default if there was none) *)
Theorem disabled_after_is_last_request default requests : disabled_after default requests = last requests default.
Proof. unfold disabled_after. revert default. induction requests as [|r rs IH]; intros d; [reflexivity|].
  cbn [fold_left]. rewrite IH. destruct rs as [|b rs]; [reflexivity|].
  assert (E : forall (l:list bool) x y z, last (x :: l) y = last (x :: l) z).
  { induction l as [|a l IHl]; intros x y z; [reflexivity|]. change (last (x :: a :: l) y) with (last (a :: l) y).
    change (last (x :: a :: l) z) with (last (a :: l) z). apply IHl. }
  change (last (r :: b :: rs) d) with (last (b :: rs) d). apply E. Qed.
Theorem disabled_after_snoc default requests r : disabled_after default (requests ++ [r]) = r.
Proof. unfold disabled_after. rewrite fold_left_app. reflexivity. Qed.
(** in particular toggling back restores the default behaviour: disable then enable = enabled, whatever the default *)
Theorem disable_then_enable_is_enabled default requests : disabled_after default (requests ++ [true; false]) = false.
Proof. unfold disabled_after. rewrite fold_left_app. reflexivity. Qed.
Theorem enable_then_disable_is_disabled default requests : disabled_after default (requests ++ [false; true]) = true.
Proof. unfold disabled_after. rewrite fold_left_app. reflexivity. Qed.
