(** C08: power of the body forces of a single constraint, from the C07 kernels: for the two-body constraints the forces are the
    exact transpose of the velocity-error map, so the power they apply, -(<F_1,V_1> + <F_2,V_2>) (Constraint::calcPower's formula,
    body part), equals -lambda.verr(V) for EVERY motion of the two bodies and vanishes when the velocity errors vanish. *)
From Coq Require Import Reals Lra List.
From Coquelicot Require Import Coquelicot.
Require Import Num Vec C07_Model C07_Contact C07_Proofs C07_Ball C07_NoSlip C07_Rod C07_ContactProofs.
Local Open Scope R_scope.

Definition body_power (F:SpatialVec R * SpatialVec R) (V1 V2:SpatialVec R) : R := - (sv_dot ROps (fst F) V1 + sv_dot ROps (snd F) V2).
Theorem ball_power_is_minus_lambda_verr X1 X2 V1 V2 s2 lam : orth (fst X1) ->
  body_power (ball_force ROps X1 X2 s2 lam) V1 V2 = - v3_dot ROps lam (ball_verr ROps X1 X2 V1 V2 s2).
Proof. intros H. unfold body_power. rewrite <- ball_force_is_transpose; auto. Qed.
Theorem ball_power_zero_on_velocity_manifold X1 X2 V1 V2 s2 lam : orth (fst X1) -> ball_verr ROps X1 X2 V1 V2 s2 = O3 ->
  body_power (ball_force ROps X1 X2 s2 lam) V1 V2 = 0.
Proof. intros H Hv. rewrite ball_power_is_minus_lambda_verr, Hv by auto. destruct lam as [[? ?] ?]. unfold O3. cbn. lra. Qed.
Theorem rod_power_is_minus_lambda_verr tiny XF XB VF VB sF sB lam :
  body_power (rod_force ROps tiny XF XB sF sB lam) VF VB = - (lam * rod_verr ROps tiny XF XB VF VB sF sB).
Proof. unfold body_power. rewrite <- rod_force_is_transpose. reflexivity. Qed.
Theorem noslip_power_is_minus_lambda_verr XC X0 X1 V0 V1 P n lam : orth (fst X0) -> orth (fst X1) ->
  body_power (ns_force ROps XC X0 X1 P n lam) V0 V1 = - (lam * ns_verr ROps XC X0 X1 V0 V1 P n).
Proof. intros H0 H1. unfold body_power. rewrite <- ns_force_is_transpose; auto. Qed.
Theorem rolling_power_is_minus_lambda_verr XF XB VF VB XFP pO r lam :
  body_power (sopr_force ROps XF XB XFP pO r lam) VF VB =
  - (fst lam * fst (sopr_verr ROps XF XB VF VB XFP pO r) + snd lam * snd (sopr_verr ROps XF XB VF VB XFP pO r)).
Proof. unfold body_power. rewrite <- sopr_force_is_transpose. reflexivity. Qed.
