(** C08 theorems: linear algebra of the equations of constrained forward dynamics
       M udot + G^T lambda = rhs,      G udot = b
    over the reals, for any dimensions n (mobilities) and m (constraint equations), with vectors as functions
    nat -> R read on indices below the dimension, matrices as functions nat -> nat -> R, and an enable mask on
    the rows of G.  M enters only through its quadratic form being positive definite; G may be rank deficient
    (redundant constraints): udot and G^T lambda are still unique, lambda itself is not. *)
From Coq Require Import Reals Lra Lia List Arith Bool.
Import ListNotations.
Require Import Num C08_Model.
Local Open Scope R_scope.

Fixpoint sumn (n:nat) (f:nat->R) : R := match n with O => 0 | S k => sumn k f + f k end.
Lemma sumn_ext n f g : (forall i, (i < n)%nat -> f i = g i) -> sumn n f = sumn n g.
Proof. induction n; intros H; cbn; auto. rewrite IHn, H; auto. Qed.
Lemma sumn_add n f g : sumn n (fun i => f i + g i) = sumn n f + sumn n g.
Proof. induction n; cbn; [lra|]. rewrite IHn; lra. Qed.
Lemma sumn_sub n f g : sumn n (fun i => f i - g i) = sumn n f - sumn n g.
Proof. induction n; cbn; [lra|]. rewrite IHn; lra. Qed.
Lemma sumn_scale n c f : sumn n (fun i => c * f i) = c * sumn n f.
Proof. induction n; cbn; [lra|]. rewrite IHn; lra. Qed.
Lemma sumn_zero n f : (forall i, (i < n)%nat -> f i = 0) -> sumn n f = 0.
Proof. induction n; intros H; cbn; auto. rewrite IHn, H; auto; lra. Qed.
Lemma sumn_swap n m (f:nat->nat->R) : sumn n (fun i => sumn m (fun k => f i k)) = sumn m (fun k => sumn n (fun i => f i k)).
Proof. induction n; cbn. - symmetry; apply sumn_zero; auto. - rewrite IHn, <- sumn_add. reflexivity. Qed.

Section KKT.
Variables (n m : nat) (M : nat -> nat -> R) (G : nat -> nat -> R) (mask : nat -> bool).
Definition Mv (u:nat->R) (i:nat) : R := sumn n (fun j => M i j * u j).
Definition Gv (u:nat->R) (k:nat) : R := sumn n (fun j => G k j * u j).
Definition mk (l:nat->R) (k:nat) : R := if mask k then l k else 0.
Definition Gtv (l:nat->R) (i:nat) : R := sumn m (fun k => G k i * mk l k).
Definition dotn (a b:nat->R) : R := sumn n (fun i => a i * b i).
Definition dotm (a b:nat->R) : R := sumn m (fun k => a k * b k).
(** the two blocks of the equations: Newton's law with multipliers, and the enabled constraint equations *)
Definition dyn_eq (rhs u l:nat->R) : Prop := forall i, (i < n)%nat -> Mv u i + Gtv l i = rhs i.
Definition con_eq (b u:nat->R) : Prop := forall k, (k < m)%nat -> mask k = true -> Gv u k = b k.
(** M positive definite as a quadratic form *)
Definition posdef : Prop := forall x, (exists i, (i < n)%nat /\ x i <> 0) -> 0 < dotn (Mv x) x.

(** G^T is the adjoint of G (masked rows) *)
Lemma G_adjoint l u : dotn (Gtv l) u = dotm (mk l) (Gv u).
Proof. unfold dotn, dotm, Gtv, Gv.
  transitivity (sumn n (fun i => sumn m (fun k => G k i * mk l k * u i))).
  { apply sumn_ext; intros i Hi. rewrite Rmult_comm, <- sumn_scale. apply sumn_ext; intros; lra. }
  rewrite sumn_swap. apply sumn_ext. intros k Hk. rewrite <- sumn_scale. apply sumn_ext; intros; lra. Qed.
Lemma Mv_sub u v i : Mv (fun j => u j - v j) i = Mv u i - Mv v i.
Proof. unfold Mv. rewrite <- sumn_sub. apply sumn_ext; intros; lra. Qed.
Lemma Gv_sub u v k : Gv (fun j => u j - v j) k = Gv u k - Gv v k.
Proof. unfold Gv. rewrite <- sumn_sub. apply sumn_ext; intros; lra. Qed.
Lemma Gtv_sub l1 l2 i : Gtv (fun k => l1 k - l2 k) i = Gtv l1 i - Gtv l2 i.
Proof. unfold Gtv. rewrite <- sumn_sub. apply sumn_ext; intros k Hk. unfold mk. destruct (mask k); lra. Qed.

(** uniqueness of the accelerations and of the generalized constraint force, redundant constraints included *)
Theorem kkt_udot_unique rhs b u1 l1 u2 l2 : posdef ->
  dyn_eq rhs u1 l1 -> con_eq b u1 -> dyn_eq rhs u2 l2 -> con_eq b u2 ->
  (forall i, (i < n)%nat -> u1 i = u2 i) /\ (forall i, (i < n)%nat -> Gtv l1 i = Gtv l2 i).
Proof. intros PD D1 C1 D2 C2.
  set (du := fun j => u1 j - u2 j). set (dl := fun k => l1 k - l2 k).
  assert (Hd : forall i, (i < n)%nat -> Mv du i + Gtv dl i = 0).
  { intros i Hi. unfold du, dl. rewrite Mv_sub, Gtv_sub. generalize (D1 i Hi) (D2 i Hi). lra. }
  assert (Hc : forall k, (k < m)%nat -> mk dl k * Gv du k = 0).
  { intros k Hk. unfold mk. destruct (mask k) eqn:E; [|lra]. unfold du. rewrite Gv_sub, (C1 k Hk E), (C2 k Hk E). lra. }
  assert (Hq : dotn (Mv du) du = 0).
  { assert (E : dotn (Mv du) du + dotn (Gtv dl) du = 0).
    { unfold dotn. rewrite <- sumn_add. apply sumn_zero. intros i Hi. generalize (Hd i Hi). intros; nra. }
    rewrite G_adjoint in E. unfold dotm in E. rewrite (sumn_zero m) in E by auto. lra. }
  assert (Hu : forall i, (i < n)%nat -> du i = 0).
  { intros i Hi. destruct (Req_dec (du i) 0) as [|Hne]; auto. exfalso.
    assert (0 < dotn (Mv du) du) by (apply PD; exists i; auto). lra. }
  split.
  - intros i Hi. generalize (Hu i Hi). unfold du. lra.
  - intros i Hi. generalize (Hd i Hi). unfold dl. rewrite Gtv_sub.
    assert (Mv du i = 0) by (unfold Mv; apply sumn_zero; intros j Hj; rewrite (Hu j Hj); lra). lra.
Qed.

(** workless constraints: if the (enabled) velocity-level equations G u = 0 hold, the constraint forces G^T lambda do no work *)
Theorem workless_power_zero l u : (forall k, (k < m)%nat -> mask k = true -> Gv u k = 0) -> dotn (Gtv l) u = 0.
Proof. intros H. rewrite G_adjoint. unfold dotm. apply sumn_zero. intros k Hk. unfold mk. destruct (mask k) eqn:E; [rewrite (H k Hk E)|]; lra. Qed.
End KKT.

(** disabled constraints have no effect: two constraint sets with the same mask that agree on the enabled rows (whatever the
    disabled rows contain -- in particular a set in which they are absent, i.e. zero) have the same accelerations and the
    same generalized constraint forces *)
Theorem disabled_no_effect n m M G G' mask rhs b b' u l u' l' : posdef n M ->
  (forall k, (k < m)%nat -> mask k = true -> (forall j, (j < n)%nat -> G k j = G' k j) /\ b k = b' k) ->
  dyn_eq n m M G mask rhs u l -> con_eq n m G mask b u -> dyn_eq n m M G' mask rhs u' l' -> con_eq n m G' mask b' u' ->
  (forall i, (i < n)%nat -> u i = u' i) /\ (forall i, (i < n)%nat -> Gtv m G mask l i = Gtv m G' mask l' i).
Proof. intros PD Hag D1 C1 D2 C2.
  assert (EG : forall l0 i, (i < n)%nat -> Gtv m G' mask l0 i = Gtv m G mask l0 i).
  { intros l0 i Hi. unfold Gtv. apply sumn_ext. intros k Hk. unfold mk. destruct (mask k) eqn:E; [|lra]. destruct (Hag k Hk E) as [Hr _]. rewrite (Hr i Hi). lra. }
  assert (D2' : dyn_eq n m M G mask rhs u' l') by (intros i Hi; rewrite <- EG by auto; apply D2; auto).
  assert (C2' : con_eq n m G mask b u').
  { intros k Hk E. destruct (Hag k Hk E) as [Hr Hb]. rewrite Hb, <- (C2 k Hk E). unfold Gv. apply sumn_ext. intros j Hj. rewrite (Hr j Hj). lra. }
  destruct (kkt_udot_unique n m M G mask rhs b u l u' l' PD D1 C1 D2' C2') as [A B]. split; auto.
  intros i Hi. rewrite EG by auto. apply B; auto. Qed.
(** and the multipliers of disabled rows never enter *)
Theorem disabled_multipliers_irrelevant m G mask l l' i : (forall k, (k < m)%nat -> mask k = true -> l k = l' k) -> Gtv m G mask l i = Gtv m G mask l' i.
Proof. intros H. unfold Gtv. apply sumn_ext. intros k Hk. unfold mk. destruct (mask k) eqn:E; [rewrite (H k Hk E)|]; lra. Qed.

(** the multipliers themselves are NOT determined when G is rank deficient: duplicate constraint rows *)
Theorem kkt_lambda_unique_refuted : exists n m M G mask rhs b u l l',
  posdef n M /\ dyn_eq n m M G mask rhs u l /\ con_eq n m G mask b u /\ dyn_eq n m M G mask rhs u l' /\ (exists k, (k < m)%nat /\ l k <> l' k).
Proof.
  exists 1%nat, 2%nat, (fun _ _ => 1), (fun _ _ => 1), (fun _ => true), (fun _ => 2), (fun _ => 1), (fun _ => 1),
         (fun k => if Nat.eqb k 0 then 1 else 0), (fun k => if Nat.eqb k 0 then 0 else 1).
  repeat split.
  - intros x [i [Hi Hx]]. assert (i = 0)%nat by lia. subst. unfold dotn, Mv. cbn. nra.
  - intros i Hi. unfold Mv, Gtv, mk. cbn. lra.
  - intros k Hk _. unfold Gv. cbn. lra.
  - intros i Hi. unfold Mv, Gtv, mk. cbn. lra.
  - exists 0%nat. split; [lia|]. cbn. lra.
Qed.
(** non-vacuity: a 2x2 positive definite M with one constraint row *)
Example kkt_example : posdef 2 (fun i j => if Nat.eqb i j then 2 else 1).
Proof. intros x [i [Hi Hx]]. unfold dotn, Mv. cbn.
  assert (H : x 0%nat <> 0 \/ x 1%nat <> 0) by (destruct i as [|[|i]]; [left|right|lia]; auto).
  revert H. generalize (x 0%nat) (x 1%nat). intros a b H.
  replace (0 + (0 + 2 * a + 1 * b) * a + (0 + 1 * a + 2 * b) * b) with (a*a + b*b + (a+b)*(a+b)) by ring.
  pose proof (Rle_0_sqr (a+b)) as H1. pose proof (Rle_0_sqr a) as H2. pose proof (Rle_0_sqr b) as H3. unfold Rsqr in *.
  destruct H as [H|H]; [pose proof (Rsqr_pos_lt a H) as H4 | pose proof (Rsqr_pos_lt b H) as H4]; unfold Rsqr in H4; lra. Qed.

(** ** the list model of C08_Model.v computes exactly these residuals, component by component *)
Definition fn (l:list R) : nat -> R := fun i => nth i l 0.
Definition fnM (A:list (list R)) : nat -> nat -> R := fun i j => nth j (nth i A []) 0.
Definition fnb (l:list bool) : nat -> bool := fun i => nth i l false.
Lemma ldot_sumn : forall a b n, length a = n -> length b = n -> ldot ROps a b = sumn n (fun i => fn a i * fn b i).
Proof. intros a b n. revert a b. induction n; intros [|x a] [|y b] Ha Hb; try discriminate; [reflexivity|].
  cbn [ldot]. rewrite (IHn a b) by (cbn in *; lia). clear IHn Ha Hb.
  assert (E : forall k f, f 0%nat + sumn k (fun i => f (S i)) = sumn k f + f k).
  { induction k; intros f; cbn [sumn]; [lra|]. specialize (IHk f). lra. }
  cbn [sumn]. rewrite <- (E n (fun i => fn (x :: a) i * fn (y :: b) i)). unfold fn. cbn [nth]. reflexivity. Qed.
Lemma nth_mat_vec A x n i : (i < length A)%nat -> length x = n -> (forall r, In r A -> length r = n) ->
  fn (mat_vec ROps A x) i = sumn n (fun j => fnM A i j * fn x j).
Proof. intros Hi Hx Hr. unfold fn at 1, mat_vec.
  rewrite (nth_indep _ 0 (ldot ROps [] x)) by (rewrite map_length; auto).
  rewrite (map_nth (fun row => ldot ROps row x) A [] i). apply ldot_sumn; auto. apply Hr. apply nth_In; auto. Qed.
