(** C09 -- executable model of the CONTROL LOGIC of SimbodyMatterSubsystemRep::projectQ / projectU
    (Simbody/src/SimbodyMatterSubsystemRep.cpp) and of ONE weighted least-squares step for a linear constraint row.

    What is modelled.  Everything the two functions decide from numbers they can see: the entry test against the
    projection limit, the early return (norm exactly zero, or within accuracy and not forced), projectQ's
    quaternion-normalisation-only branch, the do/while Newton-like loop (at least one pass, stop at
    accuracy*overshoot or at MaxIterations, LocalOnly divergence back-out from the second pass on), the
    revert-if-not-better test, the quaternion normalisation after a successful position projection, and every field
    of ProjectResults plus "does it throw".
    What is an ORACLE (function arguments, universally quantified in the theorems): the weighted constraint-error norm
    found after iteration k ([nrm k]; stands for calcWeightedP*rTranspose + FactorQTZ solve + state update +
    re-realization), the norm recomputed after a divergence back-out at iteration k ([back k]), and for projectQ the
    answer of normalizeQuaternions (any change?, quaternion norm afterwards).
    Comparisons are spelled through [nleb]/[nltb] exactly as the C++ spells them, so that the float instance used by
    the trace replay (ocaml/C09_drv.ml) treats NaN like the compiled code does.  No proofs in this file. *)
From Coq Require Import ZArith List Bool Arith.
Require Import Num.
Import ListNotations.

Inductive Status := Succeeded | FailedToAchieveAccuracy | FailedToConverge.

(** Which state is left behind (q for projectQ, u for projectU), before any quaternion normalisation:
    the entry state (never touched, or restored from saveQ/saveU), the state after iteration k, or the state after
    iteration k with that iteration's step added back (LocalOnly divergence). *)
Inductive Where := AtEntry | AfterIter (k : nat) | BackedOut (k : nat).

Section Ctl.
Context {T : Type} (O : NumOps T).

Definition gtb (a b : T) : bool := nltb O b a.                       (* a >  b *)
Definition geb (a b : T) : bool := nleb O b a.                       (* a >= b *)
Definition leb (a b : T) : bool := nleb O a b.                       (* a <= b *)
Definition is0 (a : T) : bool := nleb O a (n0 O) && nleb O (n0 O) a. (* a == 0 *)
Definition nmax (a b : T) : T := if nltb O a b then b else a.        (* std::max(a,b) *)

Record Opts := mkOpts {
  o_acc : T;            (* ProjectOptions::getRequiredAccuracy() *)
  o_overshoot : T;      (* getOvershootFactor() *)
  o_limit : T;          (* getProjectionLimit() *)
  o_sig : T;            (* SignificantReal (a constant of the library, passed in by the driver) *)
  o_local : bool;       (* LocalOnly *)
  o_force : bool;       (* ForceProjection *)
  o_dontThrow : bool }. (* DontThrow *)

Record Result := mkRes {
  r_status : Status;
  r_ret : nat;                 (* the int returned: 0 / 1 *)
  r_its : nat;                 (* ProjectResults::getNumIterations *)
  r_anyChange : bool;          (* getAnyChangeMade *)
  r_limitExceeded : bool;      (* getProjectionLimitExceeded *)
  r_normExit : option T;       (* getNormOnExit; None = never set (stays NaN) *)
  r_reverted : bool;           (* saveQ / saveU restored *)
  r_diverged : bool;           (* LocalOnly back-out happened *)
  r_throws : bool;             (* leaves through SimTK_ERRCHK*_ALWAYS instead of returning *)
  r_where : Where;             (* state left behind (before quaternion normalisation) *)
  r_quatNormalized : bool;     (* normalizeQuaternions was called (projectQ only) *)
  r_pnorm : T;                 (* constraint-error norm of the state left behind, as known to the control logic *)
  r_qnorm : T;                 (* quaternion-error norm of the state left behind, as known to the control logic *)
  r_branch : nat }.            (* exit taken; same numbering as the C09.*.exit hook records *)

Definition MaxIterationsQ : nat := 20.
Definition MaxIterationsU : nat := 7.

(** consAccuracyToTryFor = std::max(overshootFactor*consAccuracy, SignificantReal) *)
Definition tryFor (o : Opts) : T := nmax (nmul O (o_overshoot o) (o_acc o)) (o_sig o).

(** The do { ... } while (norm > tryFor && nItsUsed < MaxIterations) loop.  [its] iterations are done, [prev] is
    prevP*errNormAchieved.  Returns (nItsUsed, norm achieved, diverged).  [fuel] only makes the recursion structural;
    started with fuel = maxIts it never runs out (C09_Proofs.iter_fuel_irrelevant). *)
Fixpoint iter (maxIts : nat) (o : Opts) (nrm back : nat -> T) (fuel its : nat) (prev : T) : nat * T * bool :=
  match fuel with
  | 0 => (its, prev, false)
  | S f =>
    let its' := S its in
    let a := nrm its' in
    if o_local o && (2 <=? its') && gtb a prev then (its', back its', true)
    else if gtb a (tryFor o) && (its' <? maxIts) then iter maxIts o nrm back f its' a
    else (its', a, false)
  end.

Definition whereOf (its : nat) (diverged : bool) : Where := if diverged then BackedOut its else AfterIter its.

(** ------------------------------------------------------------------ projectU *)
Definition projectU (o : Opts) (entry : T) (nrm back : nat -> T) : Result :=
  if gtb entry (o_limit o) then
    mkRes FailedToConverge 1 0 false true None false false false AtEntry false entry (n0 O) 1
  else if is0 entry || (leb entry (o_acc o) && negb (o_force o)) then
    mkRes Succeeded 0 0 false false (Some entry) false false false AtEntry false entry (n0 O) 4
  else
    match iter MaxIterationsU o nrm back MaxIterationsU 0 entry with
    | (its, a, dv) =>
      if gtb a (o_acc o) then
        let rv := geb a entry in
        let a' := if rv then entry else a in
        mkRes (if dv then FailedToConverge else FailedToAchieveAccuracy) 1 its true false (Some a') rv dv
              (negb (o_dontThrow o)) (if rv then AtEntry else whereOf its dv) false a' (n0 O) 5
      else
        mkRes Succeeded 0 its true false (Some a) false dv false (whereOf its dv) false a (n0 O) 7
    end.

(** ------------------------------------------------------------------ projectQ
    [hasQuats] = (mQuats != 0); [pentry], [qentry] the two norms on entry; [qchg], [qn] the oracle answer of
    normalizeQuaternions (consulted at most once per call). *)
Definition projectQ (o : Opts) (hasQuats : bool) (pentry qentry : T) (nrm back : nat -> T) (qchg : bool) (qn : T) : Result :=
  let normOnEntry := if geb pentry qentry then pentry else qentry in
  if gtb normOnEntry (o_limit o) then
    mkRes FailedToConverge 1 0 false true None false false false AtEntry false pentry qentry 1
  else if is0 pentry || (leb pentry (o_acc o) && negb (o_force o)) then
    if gtb qentry (o_acc o) || o_force o then
      if gtb qn (o_acc o) then
        mkRes FailedToAchieveAccuracy 1 0 qchg false (Some qn) false false (negb (o_dontThrow o)) AtEntry true pentry qn 2
      else
        mkRes Succeeded 0 0 qchg false (Some qn) false false false AtEntry true pentry qn 3
    else
      mkRes Succeeded 0 0 false false (Some normOnEntry) false false false AtEntry false pentry qentry 4
  else
    match iter MaxIterationsQ o nrm back MaxIterationsQ 0 pentry with
    | (its, a, dv) =>
      if gtb a (o_acc o) then
        let rv := geb a pentry in
        let a' := if rv then pentry else a in
        mkRes (if dv then FailedToConverge else FailedToAchieveAccuracy) 1 its true false (Some a') rv dv
              (negb (o_dontThrow o)) (if rv then AtEntry else whereOf its dv) false a' qentry 5
      else if hasQuats then
        if gtb qn (o_acc o) then
          mkRes FailedToAchieveAccuracy 1 its true false (Some qn) false dv (negb (o_dontThrow o)) (whereOf its dv) true a qn 6
        else
          mkRes Succeeded 0 its true false (Some (nmax a qn)) false dv false (whereOf its dv) true a qn 7
      else
        mkRes Succeeded 0 its true false (Some (nmax a qentry)) false dv false (whereOf its dv) false a qentry 7
    end.

(** "The state was changed" as an observer of the real State would see it (over the reals: a reverted or never
    iterated state with no quaternion change is the entry state). *)
Definition stateChanged (r : Result) (qchg : bool) : bool :=
  match r_where r with AtEntry => r_quatNormalized r && qchg | _ => true end.

(** The position-error norm of the state that is actually returned.  The control logic computes [r_pnorm] BEFORE it
    calls normalizeQuaternions and never looks again (code comment: "normalization of quaternions can't have any effect
    on the constraints we just fixed"); [pAfter] is the norm the normalised state really has -- one more oracle, which
    the code does not consult. *)
Definition true_pnorm (r : Result) (pAfter : T) : T := if r_quatNormalized r then pAfter else r_pnorm r.

(** ------------------------------------------------------------------ System::project(state, accuracy)
    = prescribeQ; projectQ; prescribeU; projectU with default options (no DontThrow): the velocity projection is
    reached only if the position projection returned (did not throw); Some (rq, None) = projectQ threw. *)
Definition project (rq : Result) (ru : Result) : Result * option Result :=
  if r_throws rq then (rq, None) else (rq, Some ru).

(** ------------------------------------------------------------------ one weighted least-squares step, one row
    Constraint row p . d = e (p = the row of the constraint matrix on the retained columns, e = the constraint error),
    positive weights W_i on the squares of the correction components (the code's: 1/uAbsScale_i^2 for q when N = I,
    1/uRelScale_i^2 for u).  Closed form  d_i = (p_i / W_i) e / sum_j p_j^2 / W_j. *)
Fixpoint lsum (l : list T) : T := match l with [] => n0 O | x :: r => nadd O x (lsum r) end.
Fixpoint dotl (a b : list T) : T :=
  match a, b with x :: a', y :: b' => nadd O (nmul O x y) (dotl a' b') | _, _ => n0 O end.
Fixpoint wdot (w a b : list T) : T :=      (* sum w_i a_i b_i *)
  match w, a, b with k :: w', x :: a', y :: b' => nadd O (nmul O k (nmul O x y)) (wdot w' a' b') | _, _, _ => n0 O end.
Fixpoint pdivw (p w : list T) : list T :=  (* p_i / W_i *)
  match p, w with x :: p', k :: w' => ndiv O x k :: pdivw p' w' | _, _ => [] end.
Definition wls_den (p w : list T) : T := dotl p (pdivw p w).                  (* p W^-1 p^T *)
Definition wls_step (p w : list T) (e : T) : list T :=
  map (fun x => ndiv O (nmul O x e) (wls_den p w)) (pdivw p w).

(** prescribed (known) slots: the code removes their columns (packFreeQ/packFreeU), solves, and unpacks with zero fill *)
Fixpoint pack {A} (free : list bool) (l : list A) : list A :=
  match free, l with
  | true :: f, x :: r => x :: pack f r
  | false :: f, _ :: r => pack f r
  | _, _ => [] end.
Fixpoint unpack (free : list bool) (l : list T) : list T :=
  match free with
  | [] => []
  | true :: f => match l with x :: r => x :: unpack f r | [] => n0 O :: unpack f [] end
  | false :: f => n0 O :: unpack f l end.
Definition wls_step_free (free : list bool) (p w : list T) (e : T) : list T :=
  unpack free (wls_step (pack free p) (pack free w) e).

(** the weights the code uses.  projectQ (for coordinates with qdot = u, N = I): dq_WLS = Wu dq is minimised in the
    2-norm, so W_i = uWeight_i^2.  projectU: "relative scaling" uRelScale_i = (|u_i| w_i > 1 ? |u_i| : 1/w_i) and
    du_WLS = du / uRelScale is minimised, so W_i = 1 / uRelScale_i^2. *)
Definition q_step (free : list bool) (p uw : list T) (e : T) : list T :=
  wls_step_free free p (map (fun k => nmul O k k) uw) e.
Definition u_rel_scale (u w : T) : T :=
  if nltb O (n1 O) (nmul O (nabs O u) w) then nabs O u else ndiv O (n1 O) w.
Fixpoint u_weights (us uw : list T) : list T :=
  match us, uw with
  | u :: us', w :: uw' => let s := u_rel_scale u w in ndiv O (n1 O) (nmul O s s) :: u_weights us' uw'
  | _, _ => [] end.
Definition u_step (free : list bool) (p uw us : list T) (e : T) : list T :=
  wls_step_free free p (u_weights us uw) e.

(** m rows: A (list of rows), multipliers y; the step W^-1 A^T y (what a minimum-norm solve returns lies in this family) *)
Fixpoint axpy (k : T) (a b : list T) : list T :=                        (* k a + b *)
  match a, b with x :: a', z :: b' => nadd O (nmul O k x) z :: axpy k a' b' | _, _ => [] end.
Fixpoint Atmul (A : list (list T)) (y : list T) (n : nat) : list T :=   (* A^T y, length n *)
  match A, y with
  | row :: A', k :: y' => axpy k row (Atmul A' y' n)
  | _, _ => repeat (n0 O) n end.
Definition Amul (A : list (list T)) (d : list T) : list T := map (fun row => dotl row d) A.
Definition wls_step_rows (A : list (list T)) (w y : list T) : list T := pdivw (Atmul A y (length w)) w.
End Ctl.
