(** C09 -- proofs about the control-logic model of projectQ / projectU (C09_Model.v), over the reals, for EVERY
    oracle (norm after iteration k, norm after back-out, answer of normalizeQuaternions) and every option setting. *)
From Coq Require Import ZArith List Bool Arith Reals Lra Lia.
Require Import Num C09_Model.
Import ListNotations.
Local Open Scope R_scope.

(** comparisons of the real instance *)
Lemma gtb_true a b : gtb ROps a b = true <-> b < a.  Proof. apply Rltb_true. Qed.
Lemma gtb_false a b : gtb ROps a b = false <-> a <= b.  Proof. apply Rltb_false. Qed.
Lemma geb_true a b : geb ROps a b = true <-> b <= a.  Proof. apply Rleb_true. Qed.
Lemma geb_false a b : geb ROps a b = false <-> a < b.  Proof. apply Rleb_false. Qed.
Lemma leb_true a b : leb ROps a b = true <-> a <= b.  Proof. apply Rleb_true. Qed.
Lemma leb_false a b : leb ROps a b = false <-> b < a.  Proof. apply Rleb_false. Qed.
Lemma is0_true a : is0 ROps a = true <-> a = 0.
Proof. unfold is0; cbn [nleb n0 ROps]. rewrite andb_true_iff, !Rleb_true. split; [intros [? ?]; lra | intros ->; lra]. Qed.
Lemma is0_false a : is0 ROps a = false <-> a <> 0.
Proof. rewrite <- is0_true. destruct (is0 ROps a); split; congruence. Qed.
Lemma nmax_R a b : nmax ROps a b = Rmax a b.
Proof. unfold nmax; cbn [nltb ROps]. unfold Rltb, Rmax. destruct (Rlt_dec a b), (Rle_dec a b); try lra. Qed.

Ltac cmp H :=
  first [ apply gtb_true in H | apply gtb_false in H | apply geb_true in H | apply geb_false in H
        | apply leb_true in H | apply leb_false in H | apply is0_true in H | apply is0_false in H ].
Ltac bsplit :=
  repeat match goal with
  | H : _ && _ = true |- _ => apply andb_true_iff in H; destruct H
  | H : _ /\ _ |- _ => destruct H
  | H : _ || _ = false |- _ => apply orb_false_iff in H; destruct H
  | H : negb _ = true |- _ => apply negb_true_iff in H
  | H : negb _ = false |- _ => apply negb_false_iff in H
  end.

(** ------------------------------------------------------------------ the loop *)
Section Loop.
Variables (maxIts : nat) (o : Opts (T:=R)) (entry : R) (nrm back : nat -> R).
(** the norm seen after k iterations: the entry norm, then the oracle's answers *)
Definition Nseq (k : nat) : R := match k with O => entry | _ => nrm k end.

Definition iter_post (its : nat) (res : nat * R * bool) : Prop :=
  match res with (n, a, dv) =>
    (its < n)%nat /\ (n <= maxIts)%nat /\
    (forall k, (its < k < n)%nat -> tryFor ROps o < Nseq k) /\
    (o_local o = true -> forall k, (its < k < n)%nat -> (2 <= k)%nat -> Nseq k <= Nseq (k-1)) /\
    (if dv then o_local o = true /\ (2 <= n)%nat /\ Nseq (n-1) < Nseq n /\ a = back n
     else a = Nseq n /\ (Nseq n <= tryFor ROps o \/ n = maxIts) /\
          (o_local o = true -> (2 <= n)%nat -> Nseq n <= Nseq (n-1)))
  end.

Lemma iter_spec : forall fuel its, (its + fuel = maxIts)%nat -> (0 < fuel)%nat ->
  iter_post its (iter ROps maxIts o nrm back fuel its (Nseq its)).
Proof.
  induction fuel as [|f IH]; intros its Hsum Hpos; [lia|].
  cbn [iter].
  destruct (o_local o && (2 <=? S its)%nat && gtb ROps (nrm (S its)) (Nseq its)) eqn:Hd.
  - bsplit. cmp H0. apply Nat.leb_le in H1.
    unfold iter_post. split; [lia|]. split; [lia|]. split; [intros k Hk; lia|]. split; [intros _ k Hk; lia|].
    split; [exact H|]. split; [lia|]. split; [|reflexivity].
    replace (S its - 1)%nat with its by lia. exact H0.
  - destruct (gtb ROps (nrm (S its)) (tryFor ROps o) && (S its <? maxIts)%nat) eqn:Hc.
    + bsplit. cmp H. apply Nat.ltb_lt in H0.
      assert (Hloc : o_local o = true -> (2 <= S its)%nat -> Nseq (S its) <= Nseq (S its - 1)).
      { intros Hl H2. replace (S its - 1)%nat with its by lia. rewrite Hl in Hd.
        apply Nat.leb_le in H2. rewrite H2 in Hd. cbn in Hd. cmp Hd. exact Hd. }
      specialize (IH (S its)). change (nrm (S its)) with (Nseq (S its)).
      assert (Hs : (S its + f = maxIts)%nat) by lia. assert (Hf : (0 < f)%nat) by lia.
      specialize (IH Hs Hf).
      destruct (iter ROps maxIts o nrm back f (S its) (Nseq (S its))) as [[n a] dv].
      unfold iter_post in *. destruct IH as (I1 & I2 & I3 & I4 & I5).
      split; [lia|]. split; [lia|]. split; [|split].
      * intros k Hk. destruct (Nat.eq_dec k (S its)) as [->|]; [exact H | apply I3; lia].
      * intros Hl k Hk H2. destruct (Nat.eq_dec k (S its)) as [->|]; [auto | apply I4; auto; lia].
      * exact I5.
    + unfold iter_post. split; [lia|]. split; [lia|]. split; [intros k Hk; lia|]. split; [intros _ k Hk; lia|].
      split; [reflexivity|]. split.
      * apply andb_false_iff in Hc. destruct Hc as [Hc|Hc]; [cmp Hc; left; exact Hc | right].
        apply Nat.ltb_ge in Hc. lia.
      * intros Hl H2. replace (S its - 1)%nat with its by lia. rewrite Hl in Hd.
        apply Nat.leb_le in H2. rewrite H2 in Hd. cbn in Hd. cmp Hd. exact Hd.
Qed.

(** started as the code starts it *)
Lemma iter_top : (0 < maxIts)%nat -> iter_post 0 (iter ROps maxIts o nrm back maxIts 0 entry).
Proof. intros H. apply (iter_spec maxIts 0%nat); lia. Qed.
End Loop.


(** ------------------------------------------------------------------ projectU *)
Ltac open_iter maxv entry :=
  match goal with
  | |- context [iter ROps ?m ?o ?nrm ?back ?m 0 entry] =>
    let P := fresh "P" in
    assert (P := iter_top m o entry nrm back ltac:(unfold maxv; lia));
    destruct (iter ROps m o nrm back m 0 entry) as [[?n ?a] ?dv];
    unfold iter_post in P; destruct P as (?P1 & ?P2 & ?P3 & ?P4 & ?P5)
  end.
Ltac cases :=
  repeat match goal with
  | |- context [if ?b then _ else _] => let E := fresh "E" in destruct b eqn:E
  end.
Ltac norm_hyps :=
  bsplit;
  repeat match goal with
  | H : _ || _ = true |- _ => apply orb_true_iff in H
  | H : _ && _ = false |- _ => apply andb_false_iff in H
  | H : gtb ROps _ _ = _ |- _ => cmp H
  | H : geb ROps _ _ = _ |- _ => cmp H
  | H : leb ROps _ _ = _ |- _ => cmp H
  | H : is0 ROps _ = _ |- _ => cmp H
  end.

Ltac disj := repeat (match goal with H : _ \/ _ |- _ => destruct H end; norm_hyps).
Ltac fin := norm_hyps; disj; subst; cbn in *;
  first [ reflexivity | lra | lia | congruence | tauto | (exfalso; first [lra | lia | congruence]) ].

Section U.
Variables (o : Opts (T:=R)) (entry : R) (nrm back : nat -> R).
Let r := projectU ROps o entry nrm back.

Lemma projU_success_means_within_tol : 0 <= o_acc o -> r_status r = Succeeded ->
  r_pnorm r <= o_acc o /\ r_normExit r = Some (r_pnorm r) /\ r_ret r = 0%nat /\ r_throws r = false.
Proof.
  intros Hacc. unfold r, projectU. cases; try open_iter MaxIterationsU entry; cases; cbn; intros Hs; try discriminate; norm_hyps;
  repeat split; try reflexivity; try lra.
  destruct E0 as [E0|E0]; norm_hyps; lra.
Qed.

Lemma projU_no_change_if_satisfied_and_not_forced : entry <= o_acc o -> o_force o = false ->
  r_its r = 0%nat /\ r_anyChange r = false /\ r_where r = AtEntry /\ r_pnorm r = entry /\ r_reverted r = false /\
  (entry <= o_limit o -> r_status r = Succeeded /\ r_normExit r = Some entry).
Proof.
  intros Hle Hf. unfold r, projectU. cases; cbn; norm_hyps; repeat split; try reflexivity; try lra.
  all: exfalso; fin.
Qed.

Lemma projU_failure_never_leaves_worse_state : r_status r <> Succeeded ->
  r_pnorm r <= entry /\ (r_where r = AtEntry -> r_pnorm r = entry) /\ (r_where r <> AtEntry -> r_pnorm r < entry) /\
  (r_reverted r = true -> r_where r = AtEntry) /\
  (* a failure whose state nevertheless meets the accuracy: only a forced projection of a good state that was reverted *)
  (r_limitExceeded r = false -> r_pnorm r <= o_acc o -> o_force o = true /\ r_reverted r = true).
Proof.
  unfold r, projectU. cases; try open_iter MaxIterationsU entry; cases; cbn; intros Hs; try congruence; norm_hyps;
  unfold whereOf; repeat split; intros; try reflexivity; try congruence; try lra;
  try (destruct dv; congruence).
  all: try solve [fin].
  all: destruct (o_force o); cbn in *; fin.
Qed.

Lemma projU_iterations_bounded :
  (r_its r <= MaxIterationsU)%nat /\ (r_anyChange r = true <-> (1 <= r_its r)%nat) /\
  (r_its r = 0%nat -> r_where r = AtEntry /\ r_pnorm r = entry).
Proof.
  unfold r, projectU. cases; try open_iter MaxIterationsU entry; cases; cbn; unfold MaxIterationsU in *;
  repeat split; intros; try reflexivity; try congruence; try lia.
Qed.

(** the norm reported for the state left behind is the oracle's answer for exactly that state *)
Lemma projU_final_norm_is_of_final_state :
  match r_where r with
  | AtEntry => r_pnorm r = entry
  | AfterIter k => k = r_its r /\ r_pnorm r = nrm k /\ r_diverged r = false
  | BackedOut k => k = r_its r /\ r_pnorm r = back k /\ r_diverged r = true
  end.
Proof.
  unfold r, projectU. cases; try open_iter MaxIterationsU entry; cases; cbn; try reflexivity;
  unfold whereOf; destruct dv; cbn; repeat split; try reflexivity; try tauto;
  try (destruct P5 as (? & ? & ?); subst; destruct n; [lia | reflexivity]).
Qed.

(** the loop stops only for one of its three documented reasons, and never earlier *)
Lemma projU_loop_exit : (1 <= r_its r)%nat ->
  (forall k, (1 <= k < r_its r)%nat -> tryFor ROps o < nrm k) /\
  (r_diverged r = false -> nrm (r_its r) <= tryFor ROps o \/ r_its r = MaxIterationsU) /\
  (r_diverged r = true -> o_local o = true /\ (2 <= r_its r)%nat /\ nrm (r_its r - 1)%nat < nrm (r_its r)) /\
  (o_local o = true -> forall k, (2 <= k)%nat -> (k < r_its r)%nat \/ (k = r_its r /\ r_diverged r = false) -> nrm k <= nrm (k - 1)%nat).
Proof.
  unfold r, projectU. cases; try open_iter MaxIterationsU entry; cases; cbn; intros Hn; try lia.
  all: assert (HN : forall k, (1 <= k)%nat -> Nseq entry nrm k = nrm k) by (intros [|k] Hk; [lia | reflexivity]).
  all: try subst dv.
  all: try (destruct dv).
  all: split; [intros k Hk; rewrite <- HN by lia; apply P3; lia|].
  all: split; [intros Hd; try discriminate; destruct P5 as (_ & P5 & _); rewrite <- HN by lia; exact P5|].
  all: split; [intros Hd; try discriminate; destruct P5 as (A & B & C & _); rewrite <- !HN by lia; auto|].
  all: intros Hl k Hk [Hlt | [-> Hd]]; try discriminate; rewrite <- !HN by lia; [apply P4; auto; lia | ..].
  all: destruct P5 as (_ & _ & P5); apply P5; auto.
Qed.

Lemma projU_status_consistent :
  (r_ret r = 0%nat <-> r_status r = Succeeded) /\ (r_ret r = 1%nat <-> r_status r <> Succeeded) /\
  (r_throws r = true -> r_status r <> Succeeded /\ o_dontThrow o = false /\ r_limitExceeded r = false) /\
  (r_status r = FailedToConverge <-> r_limitExceeded r = true \/ (r_diverged r = true /\ r_ret r = 1%nat)) /\
  (r_limitExceeded r = true <-> o_limit o < entry).
Proof.
  unfold r, projectU. cases; try open_iter MaxIterationsU entry; cases; cbn; norm_hyps;
  repeat split; intros; try reflexivity; try congruence; try lia; try lra; try tauto;
  try (destruct (o_dontThrow o); cbn in *; congruence);
  try (match goal with H : _ \/ _ |- _ => destruct H as [?|[? ?]]; congruence end).
Qed.

Lemma projU_forced_iterates : o_force o = true -> entry <> 0 -> entry <= o_limit o -> (1 <= r_its r)%nat.
Proof.
  intros Hf Hz Hl. unfold r, projectU. cases; try open_iter MaxIterationsU entry; cases; cbn; norm_hyps; try lia; try lra.
  all: rewrite Hf in *; cbn in *; destruct E0 as [E0|E0]; norm_hyps; try lra; try discriminate.
  all: destruct E0; discriminate.
Qed.
End U.

(** ------------------------------------------------------------------ projectQ *)
Section Q.
Variables (o : Opts (T:=R)) (hasQuats : bool) (pentry qentry : R) (nrm back : nat -> R) (qchg : bool) (qn : R).
Let r := projectQ ROps o hasQuats pentry qentry nrm back qchg qn.

(** [r_pnorm] is the position-error norm the control logic last computed; it is computed BEFORE normalizeQuaternions
    (code comment: "normalization of quaternions can't have any effect on the constraints we just fixed"); that the
    real state's norm is unchanged by the normalisation is checked on the implementation by the correspondence. *)
Lemma projQ_success_means_within_tol : 0 <= o_acc o -> (hasQuats = false -> qentry = 0) -> r_status r = Succeeded ->
  r_pnorm r <= o_acc o /\ r_qnorm r <= o_acc o /\ (exists x, r_normExit r = Some x /\ x <= o_acc o) /\
  r_ret r = 0%nat /\ r_throws r = false.
Proof.
  intros Hacc Hq. unfold r, projectQ; destruct (geb ROps pentry qentry) eqn:EG; cases; try open_iter MaxIterationsQ pentry; cases; cbn; intros Hs; try discriminate;
  rewrite ?nmax_R; norm_hyps.
  all: repeat split; try reflexivity; try (eexists; split; [reflexivity|]); try (apply Rmax_lub).
  all: try specialize (Hq eq_refl).
  all: try solve [fin].
Qed.

(** what getNormOnExit reports after a success: the larger of the two norms, except in the quaternion-only branch,
    where it is the quaternion norm alone *)
Lemma projQ_success_normExit : r_status r = Succeeded ->
  r_normExit r = Some (if Nat.eqb (r_branch r) 3 then r_qnorm r else Rmax (r_pnorm r) (r_qnorm r)).
Proof.
  unfold r, projectQ; destruct (geb ROps pentry qentry) eqn:EG; cases; try open_iter MaxIterationsQ pentry; cases; cbn; intros Hs; try discriminate;
  rewrite ?nmax_R; norm_hyps; try reflexivity.
  all: f_equal; unfold Rmax; destruct (Rle_dec pentry qentry); lra.
Qed.

Lemma projQ_no_change_if_satisfied_and_not_forced : pentry <= o_acc o -> qentry <= o_acc o -> o_force o = false ->
  r_its r = 0%nat /\ r_anyChange r = false /\ r_where r = AtEntry /\ r_quatNormalized r = false /\
  stateChanged r qchg = false /\ r_pnorm r = pentry /\ r_qnorm r = qentry /\
  (pentry <= o_limit o -> qentry <= o_limit o -> r_status r = Succeeded /\ r_normExit r = Some (Rmax pentry qentry)).
Proof.
  intros Hp Hq Hf. unfold r, projectQ, stateChanged; destruct (geb ROps pentry qentry) eqn:EG; cases; cbn; norm_hyps; repeat split; intros; try reflexivity; try lra.
  all: try solve [exfalso; fin].
  all: try (f_equal; unfold Rmax; destruct (Rle_dec pentry qentry); lra).
Qed.

(** the quaternion-normalisation-only branch: position errors fine (or exactly zero), no Newton iteration *)
Lemma projQ_quaternion_only_branch : pentry = 0 \/ (pentry <= o_acc o /\ o_force o = false) ->
  Rmax pentry qentry <= o_limit o -> o_acc o < qentry \/ o_force o = true ->
  r_its r = 0%nat /\ r_where r = AtEntry /\ r_quatNormalized r = true /\ r_anyChange r = qchg /\
  r_pnorm r = pentry /\ r_qnorm r = qn /\ r_normExit r = Some qn /\ (r_status r = Succeeded <-> qn <= o_acc o).
Proof.
  intros Hp Hl Hq. assert (pentry <= o_limit o /\ qentry <= o_limit o) as [L1 L2]
    by (split; eapply Rle_trans; [apply Rmax_l | exact Hl | apply Rmax_r | exact Hl]).
  unfold r, projectQ; destruct (geb ROps pentry qentry) eqn:EG; cases; try solve [exfalso; fin];
  cbn; norm_hyps; repeat split; intros; try reflexivity; try congruence; try lra.
  all: try solve [exfalso; fin].
Qed.

(** failure: the position-error norm left behind is not larger than on entry -- except when the Newton part met the
    accuracy and only the quaternion normalisation failed (exit 6), where it is within the accuracy instead *)
Lemma projQ_failure_never_leaves_worse_state : r_status r <> Succeeded ->
  (r_branch r <> 6%nat -> r_pnorm r <= pentry /\ (r_where r = AtEntry -> r_pnorm r = pentry) /\
                          (r_where r <> AtEntry -> r_pnorm r < pentry)) /\
  (r_branch r = 6%nat -> r_pnorm r <= o_acc o /\ o_acc o < r_qnorm r) /\
  r_pnorm r <= Rmax pentry (o_acc o) /\
  (r_reverted r = true -> r_where r = AtEntry /\ r_quatNormalized r = false).
Proof.
  unfold r, projectQ; destruct (geb ROps pentry qentry) eqn:EG; cases; try open_iter MaxIterationsQ pentry; cases; cbn; intros Hs; try congruence; norm_hyps;
  unfold whereOf.
  all: assert (M1 := Rmax_l pentry (o_acc o)); assert (M2 := Rmax_r pentry (o_acc o)).
  all: repeat split; intros; try reflexivity; try congruence; try lra; try lia.
  all: try (destruct dv; congruence).
Qed.

Lemma projQ_iterations_bounded :
  (r_its r <= MaxIterationsQ)%nat /\ ((1 <= r_its r)%nat -> r_anyChange r = true) /\
  (r_its r = 0%nat -> r_where r = AtEntry /\ r_pnorm r = pentry /\ r_anyChange r = (r_quatNormalized r && qchg)).
Proof.
  unfold r, projectQ; destruct (geb ROps pentry qentry) eqn:EG; cases; try open_iter MaxIterationsQ pentry; cases; cbn; unfold MaxIterationsQ in *;
  repeat split; intros; try reflexivity; try congruence; try lia.
Qed.

Lemma projQ_final_norm_is_of_final_state :
  match r_where r with
  | AtEntry => r_pnorm r = pentry
  | AfterIter k => k = r_its r /\ r_pnorm r = nrm k /\ r_diverged r = false
  | BackedOut k => k = r_its r /\ r_pnorm r = back k /\ r_diverged r = true
  end /\ (r_quatNormalized r = true -> r_qnorm r = qn) /\ (r_quatNormalized r = false -> r_qnorm r = qentry).
Proof.
  unfold r, projectQ; destruct (geb ROps pentry qentry) eqn:EG; cases; try open_iter MaxIterationsQ pentry; cases; cbn;
  try (repeat split; intros; first [reflexivity | discriminate]);
  unfold whereOf; destruct dv; cbn; repeat split; intros; try reflexivity; try discriminate; try tauto;
  try (destruct P5 as (? & ? & ?); subst; destruct n; [lia | reflexivity]).
Qed.

Lemma projQ_loop_exit : (1 <= r_its r)%nat ->
  (forall k, (1 <= k < r_its r)%nat -> tryFor ROps o < nrm k) /\
  (r_diverged r = false -> nrm (r_its r) <= tryFor ROps o \/ r_its r = MaxIterationsQ) /\
  (r_diverged r = true -> o_local o = true /\ (2 <= r_its r)%nat /\ nrm (r_its r - 1)%nat < nrm (r_its r)) /\
  (o_local o = true -> forall k, (2 <= k)%nat -> (k < r_its r)%nat \/ (k = r_its r /\ r_diverged r = false) -> nrm k <= nrm (k - 1)%nat).
Proof.
  unfold r, projectQ; destruct (geb ROps pentry qentry) eqn:EG; cases; try open_iter MaxIterationsQ pentry; cases; cbn; intros Hn; try lia.
  all: assert (HN : forall k, (1 <= k)%nat -> Nseq pentry nrm k = nrm k) by (intros [|k] Hk; [lia | reflexivity]).
  all: try subst dv.
  all: try (destruct dv).
  all: split; [intros k Hk; rewrite <- HN by lia; apply P3; lia|].
  all: split; [intros Hd; try discriminate; destruct P5 as (_ & P5 & _); rewrite <- HN by lia; exact P5|].
  all: split; [intros Hd; try discriminate; destruct P5 as (A & B & C & _); rewrite <- !HN by lia; auto|].
  all: intros Hl k Hk [Hlt | [-> Hd]]; try discriminate; rewrite <- !HN by lia; [apply P4; auto; lia | ..].
  all: destruct P5 as (_ & _ & P5); apply P5; auto.
Qed.

Lemma projQ_status_consistent :
  (r_ret r = 0%nat <-> r_status r = Succeeded) /\ (r_ret r = 1%nat <-> r_status r <> Succeeded) /\
  (r_throws r = true -> r_status r <> Succeeded /\ o_dontThrow o = false /\ r_limitExceeded r = false) /\
  (r_status r = FailedToConverge <-> r_limitExceeded r = true \/ (r_diverged r = true /\ r_branch r = 5%nat)) /\
  (r_limitExceeded r = true <-> o_limit o < Rmax pentry qentry).
Proof.
  unfold r, projectQ; destruct (geb ROps pentry qentry) eqn:EG; cases; try open_iter MaxIterationsQ pentry; cases; cbn; norm_hyps.
  all: assert (M1 := Rmax_l pentry qentry); assert (M2 := Rmax_r pentry qentry).
  all: assert (M3 : qentry <= pentry -> Rmax pentry qentry = pentry) by (intros; apply Rmax_left; lra).
  all: assert (M4 : pentry < qentry -> Rmax pentry qentry = qentry) by (intros; apply Rmax_right; lra).
  all: repeat split; intros; try reflexivity; try congruence; try lia; try tauto;
    try (destruct (o_dontThrow o); cbn in *; congruence);
    try (match goal with H : _ \/ _ |- _ => destruct H as [?|[? ?]]; try congruence; try lia end).
  all: try (rewrite M3 in * by lra); try (rewrite M4 in * by lra); try lra; try discriminate.
Qed.

Lemma projQ_forced_iterates : o_force o = true -> pentry <> 0 -> Rmax pentry qentry <= o_limit o -> (1 <= r_its r)%nat.
Proof.
  intros Hf Hz Hl. assert (pentry <= o_limit o /\ qentry <= o_limit o) as [L1 L2]
    by (split; eapply Rle_trans; [apply Rmax_l | exact Hl | apply Rmax_r | exact Hl]).
  unfold r, projectQ; destruct (geb ROps pentry qentry) eqn:EG; cases; try open_iter MaxIterationsQ pentry; cases; cbn; norm_hyps; try lia; try lra.
  all: rewrite Hf in *; cbn in *; fin.
Qed.
End Q.

Ltac evalcmp := repeat match goal with
  | |- context [Rltb ?a ?b] => first [ replace (Rltb a b) with true by (symmetry; apply Rltb_true; lra)
                                     | replace (Rltb a b) with false by (symmetry; apply Rltb_false; lra) ]
  | |- context [Rleb ?a ?b] => first [ replace (Rleb a b) with true by (symmetry; apply Rleb_true; lra)
                                     | replace (Rleb a b) with false by (symmetry; apply Rleb_false; lra) ]
  end.

(** The state that is RETURNED after a success is within the accuracy provided normalizeQuaternions leaves the
    position-error norm alone (the code's design assumption) ... *)
Lemma projQ_success_state_within_tol_partial (o : @Opts R) hasQuats pentry qentry nrm back qchg qn pAfter :
  let r := projectQ ROps o hasQuats pentry qentry nrm back qchg qn in
  0 <= o_acc o -> (hasQuats = false -> qentry = 0) -> (r_quatNormalized r = true -> pAfter = r_pnorm r) ->
  r_status r = Succeeded -> true_pnorm r pAfter <= o_acc o /\ r_qnorm r <= o_acc o.
Proof.
  intros r Hacc Hq Hn Hs.
  destruct (projQ_success_means_within_tol o hasQuats pentry qentry nrm back qchg qn Hacc Hq Hs) as (H1 & H2 & _).
  split; [|exact H2]. unfold true_pnorm. fold r. destruct (r_quatNormalized r); [rewrite Hn by reflexivity|]; exact H1.
Qed.
(** ... and without that assumption it is not: the code reports success whatever the normalised state's error is.
    Witness with the numbers of the implementation replay (Free body, ConstantCoordinate on a quaternion component):
    accuracy 1e-6, entry norm 0.2, one iteration brings the norm to 0, normalisation moves it to 6e-3. *)
Lemma projQ_success_state_within_tol_refuted :
  exists (o : Opts (T:=R)) hq p q nrm back qc qn pAfter,
    let r := projectQ ROps o hq p q nrm back qc qn in
    r_status r = Succeeded /\ r_normExit r = Some 0 /\ o_acc o < true_pnorm r pAfter.
Proof.
  exists (mkOpts (1/1000000) (1/10) 10 0 false false true), true, (2/10), 0, (fun _ => 0), (fun _ => 0), true, 0, (6/1000).
  intro r; subst r; unfold projectQ, true_pnorm, MaxIterationsQ, tryFor, nmax, gtb, geb, leb, is0; cbn.
  repeat (evalcmp; unfold tryFor, nmax; cbn). repeat split; try reflexivity. lra.
Qed.

(** getNormOnExit can under-report: a success whose reported exit norm is smaller than the position-error norm of the
    state it leaves (quaternion-only branch).  Witness: accuracy 1, position norm 1/2 (fine), quaternion norm 2,
    normalisation brings the quaternion norm to 0: reported 0, actual max = 1/2. *)
Lemma projQ_normExit_is_max_refuted :
  exists (o : Opts (T:=R)) hq p q nrm back qc qn,
    let r := projectQ ROps o hq p q nrm back qc qn in
    r_status r = Succeeded /\ r_normExit r = Some 0 /\ r_pnorm r = 1/2 /\ 0 < 1/2.
Proof.
  exists (mkOpts 1 (1/10) 10 0 false false false), true, (1/2), 2, (fun _ => 0), (fun _ => 0), true, 0.
  unfold projectQ; cbn [o_acc o_limit o_force o_dontThrow o_local].
  replace (geb ROps (1/2) 2) with false by (symmetry; apply geb_false; lra).
  replace (gtb ROps 2 10) with false by (symmetry; apply gtb_false; lra).
  replace (is0 ROps (1/2)) with false by (symmetry; apply is0_false; lra).
  replace (leb ROps (1/2) 1) with true by (symmetry; apply leb_true; lra).
  replace (gtb ROps 2 1) with true by (symmetry; apply gtb_true; lra).
  replace (gtb ROps 0 1) with false by (symmetry; apply gtb_false; lra).
  cbn. repeat split; lra.
Qed.

(** non-vacuity: a run that iterates three times and succeeds, one that diverges under LocalOnly and is reverted *)
Definition ex_opts (loc : bool) : Opts (T:=R) := mkOpts 1 (1/10) 1000 0 loc false true.
Example ex_three_iterations :
  let r := projectU ROps (ex_opts false) 50 (fun k => match k with 1%nat => 10 | 2%nat => 2 | _ => 1/100 end) (fun _ => 0) in
  r_status r = Succeeded /\ r_its r = 3%nat /\ r_pnorm r = 1/100 /\ r_where r = AfterIter 3.
Proof. intro r; subst r; unfold projectU, projectQ, ex_opts, MaxIterationsU, MaxIterationsQ, tryFor, nmax, gtb, geb, leb, is0; cbn. repeat (evalcmp; unfold tryFor, nmax; cbn). repeat split; reflexivity. Qed.
Example ex_local_divergence_reverted :
  let r := projectU ROps (ex_opts true) 50 (fun k => match k with 1%nat => 60 | _ => 70 end) (fun _ => 60) in
  r_status r = FailedToConverge /\ r_its r = 2%nat /\ r_diverged r = true /\ r_reverted r = true /\ r_where r = AtEntry /\ r_pnorm r = 50.
Proof. intro r; subst r; unfold projectU, projectQ, ex_opts, MaxIterationsU, MaxIterationsQ, tryFor, nmax, gtb, geb, leb, is0; cbn. repeat (evalcmp; unfold tryFor, nmax; cbn). repeat split; reflexivity. Qed.
Example ex_quaternions_after_newton :
  let r := projectQ ROps (ex_opts false) true 50 3 (fun k => match k with 1%nat => 5 | _ => 1/1000 end) (fun _ => 0) true 0 in
  r_status r = Succeeded /\ r_its r = 2%nat /\ r_quatNormalized r = true /\ r_normExit r = Some (1/1000) /\ r_where r = AfterIter 2.
Proof. intro r; subst r; unfold projectU, projectQ, ex_opts, MaxIterationsU, MaxIterationsQ, tryFor, nmax, gtb, geb, leb, is0; cbn. repeat (evalcmp; unfold tryFor, nmax; cbn). repeat split; reflexivity. Qed.
