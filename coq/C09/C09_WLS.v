(** C09 -- algebra of one weighted least-squares projection step (model functions in C09_Model.v), over the reals.
    One constraint row: the closed form satisfies the row and has the smallest weighted norm of all corrections that do
    (Cauchy-Schwarz, here as 0 <= sum W_i (d_i - d*_i)^2); with prescribed slots removed and zero-filled the same holds
    among corrections that leave the prescribed slots alone.  m rows: every step of the form W^-1 A^T y is the
    minimum-weighted-norm one among all corrections with the same constraint-row products (certificate form; that the
    step FactorQTZ returns has this form is LAPACK's contract and is not decided here). *)
From Coq Require Import List Reals Lra Lia Psatz.
Require Import Num C09_Model.
Import ListNotations.
Local Open Scope R_scope.

Notation dot := (dotl ROps).
Notation wd := (wdot ROps).
Definition wnorm2 (w d : list R) : R := wd w d d.            (* sum W_i d_i^2 *)

Lemma sq_nonneg z : 0 <= z * z.
Proof. exact (Rle_0_sqr z). Qed.
Lemma sq_zero z : z * z = 0 -> z = 0.
Proof. intros H. destruct (Rmult_integral _ _ H); auto. Qed.

(** 0 <= sum W (a-b)^2, expanded *)
Lemma wdot_sub_sq : forall w a b, length a = length w -> length b = length w -> Forall (fun k => 0 <= k) w ->
  0 <= wd w a a - 2 * wd w a b + wd w b b.
Proof.
  induction w as [|k w IH]; intros [|x a] [|y b] La Lb Hw; cbn in *; try lra; try discriminate.
  inversion Hw; subst. specialize (IH a b ltac:(lia) ltac:(lia) H2).
  assert (0 <= k * ((x - y) * (x - y))) by (apply Rmult_le_pos; [auto | apply sq_nonneg]). lra.
Qed.

Lemma dot_map_scale c : forall p l, dot p (map (fun x => x * c) l) = c * dot p l.
Proof. induction p as [|x p IH]; intros [|y l]; cbn; try lra. rewrite IH. lra. Qed.

Lemma wls_step_eq p w e : wls_step ROps p w e = map (fun x => x * (e / wls_den ROps p w)) (pdivw ROps p w).
Proof. unfold wls_step. apply map_ext. intros x; cbn. unfold Rdiv. ring. Qed.

(** the closed-form step satisfies the constraint row *)
Lemma wls_step_satisfies_row p w e : wls_den ROps p w <> 0 -> dot p (wls_step ROps p w e) = e.
Proof. intros Hd. rewrite wls_step_eq, dot_map_scale. unfold wls_den. cbn. field. exact Hd. Qed.

(** cross term: sum W_i d*_i d_i = (e/den) p.d *)
Lemma wdot_pdivw_scaled c : forall w p d, length p = length w -> length d = length w -> Forall (fun k => 0 < k) w ->
  wd w (map (fun x => x * c) (pdivw ROps p w)) d = c * dot p d.
Proof.
  induction w as [|k w IH]; intros [|x p] [|y d] Lp Ld Hw; cbn in *; try lra; try discriminate.
  inversion Hw; subst. rewrite (IH p d) by (auto; lia). field. lra.
Qed.
Lemma wnorm2_pdivw_scaled c : forall w p, length p = length w -> Forall (fun k => 0 < k) w ->
  wnorm2 w (map (fun x => x * c) (pdivw ROps p w)) = c * c * dot p (pdivw ROps p w).
Proof.
  unfold wnorm2. induction w as [|k w IH]; intros [|x p] Lp Hw; cbn in *; try lra; try discriminate.
  inversion Hw; subst. rewrite (IH p) by (auto; lia). field. lra.
Qed.

Lemma Forall_pos_nonneg w : Forall (fun k => 0 < k) w -> Forall (fun k => 0 <= k) w.
Proof. induction 1; constructor; auto; lra. Qed.
Lemma map_length_pdivw : forall p w, length p = length w -> length (pdivw ROps p w) = length w.
Proof. induction p as [|x p IH]; intros [|k w] L; cbn in *; try discriminate; auto. Qed.

(** weighted norm of the closed-form step: e^2 / (p W^-1 p^T) *)
Lemma wls_step_norm p w e : length p = length w -> Forall (fun k => 0 < k) w -> wls_den ROps p w <> 0 ->
  wnorm2 w (wls_step ROps p w e) = e * e / wls_den ROps p w.
Proof.
  intros L Hw Hd. rewrite wls_step_eq, wnorm2_pdivw_scaled by auto. unfold wls_den in *. cbn in *. field. exact Hd.
Qed.

(** ONE ROW, full statement: among all corrections d with p.d = e the closed-form step has the least weighted norm *)
Lemma wls_step_min_norm p w e d : length p = length w -> length d = length w -> Forall (fun k => 0 < k) w ->
  wls_den ROps p w <> 0 -> dot p d = e ->
  dot p (wls_step ROps p w e) = e /\ wnorm2 w (wls_step ROps p w e) <= wnorm2 w d.
Proof.
  intros Lp Ld Hw Hd He. split; [apply wls_step_satisfies_row; auto|].
  assert (Hs := wdot_sub_sq w (wls_step ROps p w e) d).
  rewrite wls_step_eq in Hs at 1. rewrite map_length, map_length_pdivw in Hs by auto.
  specialize (Hs eq_refl Ld (Forall_pos_nonneg _ Hw)).
  assert (Hn := wls_step_norm p w e Lp Hw Hd). unfold wnorm2 in *. rewrite Hn in *.
  rewrite wls_step_eq in Hs. rewrite (wdot_pdivw_scaled _ w p d Lp Ld Hw), He in Hs.
  unfold wnorm2. replace (e / wls_den ROps p w * e) with (e * e / wls_den ROps p w) in Hs by (field; auto). lra.
Qed.

(** ... and it is the only one with that norm: equality forces d = the closed form (strict convexity) *)
Lemma wdot_sub_sq_zero : forall w a b, length a = length w -> length b = length w -> Forall (fun k => 0 < k) w ->
  wd w a a - 2 * wd w a b + wd w b b = 0 -> a = b.
Proof.
  induction w as [|k w IH]; intros [|x a] [|y b] La Lb Hw H0; cbn in *; try discriminate; auto.
  assert (Hk0 : 0 < k) by (inversion Hw; auto). assert (Hw' : Forall (fun k => 0 < k) w) by (inversion Hw; auto).
  assert (Hr := wdot_sub_sq w a b ltac:(lia) ltac:(lia) (Forall_pos_nonneg _ Hw')).
  assert (Hk : 0 <= k * ((x - y) * (x - y))) by (apply Rmult_le_pos; [lra | apply sq_nonneg]).
  assert (Hz : k * ((x - y) * (x - y)) = 0) by lra.
  assert (Hr0 : wd w a a - 2 * wd w a b + wd w b b = 0) by lra.
  assert (Hxy : (x - y) * (x - y) = 0) by (apply Rmult_integral in Hz; destruct Hz; [lra | auto]).
  apply sq_zero in Hxy. assert (x = y) by lra. subst. f_equal. apply IH; auto; lia.
Qed.
Lemma wls_step_unique p w e d : length p = length w -> length d = length w -> Forall (fun k => 0 < k) w ->
  wls_den ROps p w <> 0 -> dot p d = e -> wnorm2 w d <= wnorm2 w (wls_step ROps p w e) -> d = wls_step ROps p w e.
Proof.
  intros Lp Ld Hw Hd He Hle. symmetry. apply (wdot_sub_sq_zero w); auto.
  - rewrite wls_step_eq, map_length, map_length_pdivw; auto.
  - assert (Hn := wls_step_norm p w e Lp Hw Hd). unfold wnorm2 in *. rewrite Hn in *.
    rewrite wls_step_eq. rewrite (wdot_pdivw_scaled _ w p d Lp Ld Hw), He.
    assert (Hs := wdot_sub_sq w (wls_step ROps p w e) d).
    rewrite wls_step_eq in Hs at 1. rewrite map_length, map_length_pdivw in Hs by auto.
    specialize (Hs eq_refl Ld (Forall_pos_nonneg _ Hw)). rewrite Hn in Hs.
    rewrite wls_step_eq in Hs. rewrite (wdot_pdivw_scaled _ w p d Lp Ld Hw), He in Hs.
    replace (e / wls_den ROps p w * e) with (e * e / wls_den ROps p w) in * by (field; auto). lra.
Qed.

(** the denominator p W^-1 p^T is positive unless the row vanishes *)
Lemma wls_den_nonneg : forall p w, length p = length w -> Forall (fun k => 0 < k) w -> 0 <= wls_den ROps p w.
Proof.
  unfold wls_den. induction p as [|x p IH]; intros [|k w] L Hw; cbn in *; try lra; try discriminate.
  inversion Hw; subst. specialize (IH w ltac:(lia) H2).
  assert (0 <= x * (x / k)) by (unfold Rdiv; rewrite <- Rmult_assoc; apply Rmult_le_pos; [apply sq_nonneg | left; apply Rinv_0_lt_compat; auto]). lra.
Qed.
Lemma wls_den_zero_row : forall p w, length p = length w -> Forall (fun k => 0 < k) w -> wls_den ROps p w = 0 ->
  Forall (fun x => x = 0) p.
Proof.
  unfold wls_den. induction p as [|x p IH]; intros [|k w] L Hw H0; cbn in *; try discriminate; constructor.
  all: assert (Hk0 : 0 < k) by (inversion Hw; auto); assert (Hw' : Forall (fun k => 0 < k) w) by (inversion Hw; auto).
  all: assert (Hn := wls_den_nonneg p w ltac:(lia) Hw'); unfold wls_den in Hn.
  all: assert (Hx : 0 <= x * (x / k)) by (unfold Rdiv; rewrite <- Rmult_assoc; apply Rmult_le_pos; [apply sq_nonneg | left; apply Rinv_0_lt_compat; auto]).
  - assert (Hz : x * (x / k) = 0) by lra. unfold Rdiv in Hz. rewrite <- Rmult_assoc in Hz.
    apply Rmult_integral in Hz. destruct Hz as [Hz|Hz]; [apply sq_zero; auto | exfalso; apply (Rinv_neq_0_compat k); [lra | auto]].
  - apply (IH w); auto; try lia. lra.
Qed.

(** scaling the row and its error by the constraint weight Tp (1/tolerance) does not change the step *)
Lemma pdivw_map_scale t : forall p w, pdivw ROps (map (Rmult t) p) w = map (Rmult t) (pdivw ROps p w).
Proof. induction p as [|x p IH]; intros [|k w]; cbn; auto. rewrite IH. f_equal. unfold Rdiv; ring. Qed.
Lemma dot_scale_both t : forall a b, dot (map (Rmult t) a) (map (Rmult t) b) = t * t * dot a b.
Proof. induction a as [|x a IH]; intros [|y b]; cbn; try lra. rewrite IH. ring. Qed.
Lemma wls_step_row_scaling_irrelevant t p w e : t <> 0 -> wls_den ROps p w <> 0 ->
  wls_step ROps (map (Rmult t) p) w (t * e) = wls_step ROps p w e.
Proof.
  intros Ht Hd. unfold wls_step, wls_den. rewrite !pdivw_map_scale, dot_scale_both, map_map.
  apply map_ext. intros x. cbn. field. split; auto.
Qed.

(** ---------------------------------------------------------------- prescribed slots *)
(** known slot  =>  the unpacked step is zero there, whatever was solved for *)
Lemma unpack_zero_in_known_slots : forall free x i, nth i free true = false -> nth i (unpack ROps free x) 0 = 0.
Proof.
  induction free as [|f free IH]; intros x [|i] H; cbn in *; try discriminate.
  - destruct f; [discriminate | reflexivity].
  - destruct f; [destruct x|]; cbn; apply IH; auto.
Qed.
Lemma prescribed_q_untouched free p w e i : nth i free true = false -> nth i (wls_step_free ROps free p w e) 0 = 0.
Proof. apply unpack_zero_in_known_slots. Qed.

Inductive zero_at_known : list bool -> list R -> Prop :=
| zk_nil : zero_at_known [] []
| zk_free f d x : zero_at_known f d -> zero_at_known (true :: f) (x :: d)
| zk_known f d : zero_at_known f d -> zero_at_known (false :: f) (0 :: d).

Lemma count_true_pack {A} : forall free (l : list A), length l = length free -> length (pack free l) = length (filter (fun b => b) free).
Proof. induction free as [|[|] f IH]; intros [|x l] L; cbn in *; try discriminate; auto. Qed.
Lemma unpack_pack_zk : forall free d, zero_at_known free d -> unpack ROps free (pack free d) = d.
Proof. induction 1; cbn; auto; f_equal; auto. Qed.
Lemma zk_unpack : forall free x, length x = length (filter (fun b => b) free) -> zero_at_known free (unpack ROps free x).
Proof.
  induction free as [|[|] f IH]; intros x L; cbn in *.
  - constructor.
  - destruct x; [discriminate|]. constructor. apply IH. cbn in L; lia.
  - constructor. apply IH; auto.
Qed.
Lemma pack_unpack : forall free x, length x = length (filter (fun b => b) free) -> pack free (unpack ROps free x) = x.
Proof.
  induction free as [|[|] f IH]; intros x L; cbn in *.
  - destruct x; [auto | discriminate].
  - destruct x; [discriminate|]. f_equal. apply IH. cbn in L; lia.
  - apply IH; auto.
Qed.
Lemma dot_pack : forall free p d, length p = length free -> zero_at_known free d -> dot p d = dot (pack free p) (pack free d).
Proof.
  intros free p d L Hz. revert p L. induction Hz; intros [|y p] L; cbn in *; try discriminate; try lra.
  - rewrite (IHHz p) by lia. lra.
  - rewrite (IHHz p) by lia. lra.
Qed.
Lemma wnorm2_pack : forall free w d, length w = length free -> zero_at_known free d -> wnorm2 w d = wnorm2 (pack free w) (pack free d).
Proof.
  unfold wnorm2. intros free w d L Hz. revert w L. induction Hz; intros [|k w] L; cbn in *; try discriminate; try lra.
  - rewrite (IHHz w) by lia. lra.
  - rewrite (IHHz w) by lia. lra.
Qed.
Lemma Forall_pack {A} (P : A -> Prop) : forall free l, Forall P l -> Forall P (pack free l).
Proof.
  induction free as [|[|] f IH]; intros [|x l] H; cbn; auto; inversion H; subst; auto.
Qed.
Lemma zk_length : forall free d, zero_at_known free d -> length d = length free.
Proof. induction 1; cbn; auto. Qed.

(** with prescribed slots: the zero-filled step satisfies the full row, does not touch the prescribed slots, and has
    the least weighted norm among all corrections that do the same *)
Lemma wls_step_free_min_norm free p w e d :
  length p = length free -> length w = length free -> Forall (fun k => 0 < k) w ->
  wls_den ROps (pack free p) (pack free w) <> 0 ->
  zero_at_known free d -> dot p d = e ->
  let s := wls_step_free ROps free p w e in
  zero_at_known free s /\ dot p s = e /\ wnorm2 w s <= wnorm2 w d.
Proof.
  intros Lp Lw Hw Hd Hz He s.
  assert (Lpp := count_true_pack free p Lp). assert (Lpw := count_true_pack free w Lw).
  assert (Ld := zk_length _ _ Hz). assert (Lpd := count_true_pack free d Ld).
  set (x := wls_step ROps (pack free p) (pack free w) e) in *.
  assert (Lx : length x = length (filter (fun b => b) free)).
  { unfold x. rewrite wls_step_eq, map_length, map_length_pdivw; lia. }
  assert (Zs : zero_at_known free s) by (apply zk_unpack; exact Lx).
  destruct (wls_step_min_norm (pack free p) (pack free w) e (pack free d)) as [S1 S2]; try lia.
  { apply Forall_pack; auto. } { exact Hd. } { rewrite <- dot_pack; auto. }
  split; [exact Zs|]. split.
  - rewrite (dot_pack free p s Lp Zs). unfold s, wls_step_free. fold x. rewrite pack_unpack by exact Lx. exact S1.
  - rewrite (wnorm2_pack free w s Lw Zs), (wnorm2_pack free w d Lw Hz).
    unfold s, wls_step_free. fold x. rewrite pack_unpack by exact Lx. exact S2.
Qed.

(** the code's weights are positive whenever the u weights are, so the two corollaries below apply to what
    projectQ (coordinates with qdot = u) and projectU actually minimise *)
Lemma q_weights_pos : forall uw, Forall (fun k => 0 < k) uw -> Forall (fun k => 0 < k) (map (fun k => nmul ROps k k) uw).
Proof. induction 1; cbn; constructor; auto. apply Rmult_lt_0_compat; auto. Qed.
Lemma u_rel_scale_pos u w : 0 < w -> 0 < u_rel_scale ROps u w.
Proof.
  intros Hw. unfold u_rel_scale; cbn. unfold Rltb. destruct (Rlt_dec 1 (Rabs u * w)) as [H|H].
  - destruct (Rabs_pos u) as [Hp|Hz]; [exact Hp | rewrite <- Hz in H; lra].
  - unfold Rdiv. rewrite Rmult_1_l. apply Rinv_0_lt_compat; auto.
Qed.
Lemma u_weights_pos : forall us uw, Forall (fun k => 0 < k) uw -> Forall (fun k => 0 < k) (u_weights ROps us uw).
Proof.
  induction us as [|u us IH]; intros [|w uw] H; cbn; try constructor.
  - inversion H; subst. assert (Hs := u_rel_scale_pos u w H2). unfold Rdiv. rewrite Rmult_1_l.
    apply Rinv_0_lt_compat. apply Rmult_lt_0_compat; auto.
  - inversion H; subst. apply IH; auto.
Qed.
Lemma u_weights_length : forall us uw, length us = length uw -> length (u_weights ROps us uw) = length uw.
Proof. induction us as [|u us IH]; intros [|w uw] L; cbn in *; try discriminate; auto. Qed.

Lemma q_step_min_norm free p uw e d :
  length p = length free -> length uw = length free -> Forall (fun k => 0 < k) uw ->
  wls_den ROps (pack free p) (pack free (map (fun k => nmul ROps k k) uw)) <> 0 ->
  zero_at_known free d -> dot p d = e ->
  let s := q_step ROps free p uw e in
  zero_at_known free s /\ dot p s = e /\
  wnorm2 (map (fun k => nmul ROps k k) uw) s <= wnorm2 (map (fun k => nmul ROps k k) uw) d.
Proof.
  intros Lp Lw Hw Hd Hz He. apply wls_step_free_min_norm; auto.
  - rewrite map_length; auto.
  - apply q_weights_pos; auto.
Qed.
Lemma u_step_min_norm free p uw us e d :
  length p = length free -> length uw = length free -> length us = length free -> Forall (fun k => 0 < k) uw ->
  wls_den ROps (pack free p) (pack free (u_weights ROps us uw)) <> 0 ->
  zero_at_known free d -> dot p d = e ->
  let s := u_step ROps free p uw us e in
  zero_at_known free s /\ dot p s = e /\ wnorm2 (u_weights ROps us uw) s <= wnorm2 (u_weights ROps us uw) d.
Proof.
  intros Lp Lw Lu Hw Hd Hz He. apply wls_step_free_min_norm; auto.
  - rewrite u_weights_length; lia.
  - apply u_weights_pos; auto.
Qed.

(** ---------------------------------------------------------------- m rows, certificate form *)
Lemma dot_repeat0 : forall n z, dot (repeat 0 n) z = 0.
Proof. induction n; intros [|y z]; cbn; try lra. rewrite IHn. lra. Qed.
Lemma dot_axpy k : forall row r z, length row = length z -> length r = length z ->
  dot (axpy ROps k row r) z = k * dot row z + dot r z.
Proof.
  induction row as [|x row IH]; intros [|c r] [|y z] L1 L2; cbn in *; try discriminate; try lra.
  rewrite IH by lia. lra.
Qed.
Lemma length_axpy k : forall row r, length row = length r -> length (axpy ROps k row r) = length r.
Proof. induction row as [|x row IH]; intros [|c r] L; cbn in *; try discriminate; auto. Qed.
Lemma length_Atmul n : forall A y, Forall (fun row => length row = n) A -> length (Atmul ROps A y n) = n.
Proof.
  induction A as [|row A IH]; intros y HA; cbn; [apply repeat_length|].
  destruct y as [|k y]; [apply repeat_length|]. inversion HA; subst.
  rewrite length_axpy; rewrite IH; auto.
Qed.
(** adjointness  (A^T y) . z = y . (A z) *)
Lemma Atmul_adjoint n : forall A y z, Forall (fun row => length row = n) A -> length z = n -> length y = length A ->
  dot (Atmul ROps A y n) z = dot y (Amul ROps A z).
Proof.
  induction A as [|row A IH]; intros [|k y] z HA Lz Ly; cbn in *; try discriminate.
  - apply dot_repeat0.
  - inversion HA; subst. rewrite dot_axpy; [| lia | rewrite length_Atmul; auto]. rewrite IH; auto.
Qed.
Lemma wdot_pdivw : forall w c d, length c = length w -> length d = length w -> Forall (fun k => 0 < k) w ->
  wd w (pdivw ROps c w) d = dot c d.
Proof.
  induction w as [|k w IH]; intros [|x c] [|y d] Lc Ld Hw; cbn in *; try lra; try discriminate.
  inversion Hw; subst. rewrite IH by (auto; lia). field. lra.
Qed.

(** m ROWS: any step of the form W^-1 A^T y has the least weighted norm among all corrections d that produce the same
    constraint-row products A d (in particular among all that remove the same constraint errors) *)
Lemma wls_step_rows_min_norm_partial A w y d :
  Forall (fun row => length row = length w) A -> length y = length A -> length d = length w ->
  Forall (fun k => 0 < k) w ->
  Amul ROps A d = Amul ROps A (wls_step_rows ROps A w y) ->
  wnorm2 w (wls_step_rows ROps A w y) <= wnorm2 w d.
Proof.
  intros HA Ly Ld Hw He. unfold wls_step_rows in *. set (c := Atmul ROps A y (length w)) in *.
  assert (Lc : length c = length w) by (apply length_Atmul; auto).
  assert (Ls : length (pdivw ROps c w) = length w) by (apply map_length_pdivw; auto).
  assert (Hs := wdot_sub_sq w (pdivw ROps c w) d Ls Ld (Forall_pos_nonneg _ Hw)).
  assert (C1 : wd w (pdivw ROps c w) d = dot y (Amul ROps A d)).
  { rewrite wdot_pdivw by auto. apply Atmul_adjoint; auto. }
  assert (C2 : wd w (pdivw ROps c w) (pdivw ROps c w) = dot y (Amul ROps A (pdivw ROps c w))).
  { rewrite wdot_pdivw by auto. apply Atmul_adjoint; auto. }
  unfold wnorm2. rewrite C1, He, <- C2 in Hs. lra.
Qed.

(** non-vacuity / concrete instance: row (1,2,0), weights (1,4,1), error 2: step (1, 1/2, 0), weighted norm 2 *)
Example wls_example : wls_step ROps [1;2;0] [1;4;1] 2 = [1; 1/2; 0] /\ dot [1;2;0] [1;1/2;0] = 2 /\ wnorm2 [1;4;1] [1;1/2;0] = 2.
Proof. unfold wls_step, wls_den, wnorm2; cbn. repeat split; try lra. repeat (f_equal; try lra). Qed.
Example wls_free_example : wls_step_free ROps [true;false;true] [1;5;1] [1;1;1] 4 = [2;0;2].
Proof. unfold wls_step_free, wls_step, wls_den; cbn. repeat (f_equal; try lra). Qed.
