From Coq Require Import List Reals Lra Lia Psatz.
Require Import Num C09_Model.
Import ListNotations.
Local Open Scope R_scope.
Notation dot := (dotl ROps).
Notation wd := (wdot ROps).
Lemma wdot_sub_sq : forall w a b, length a = length w -> length b = length w -> Forall (fun k => 0 <= k) w ->
  0 <= wd w a a - 2 * wd w a b + wd w b b.
Proof.
  induction w as [|k w IH]; intros [|x a] [|y b] La Lb Hw; cbn in *; try lra; try discriminate.
  inversion Hw; subst. Show. assert (length b = length w) by lia. Show.
