(** C10: prescribed motion and locks -- executable model (no proofs here).

    Anchors: Simbody/src/MotionImpl.h (Motion::Sinusoid, Motion::Steady value functions), MobilizedBody.cpp
    (lock / lockAt / unlock / getLockValueAsVector), SimbodyMatterSubsystemRep.cpp (realizeSubsystemInstanceImpl:
    how lock level and Motion decide the q / u / udot methods; prescribeQ / prescribeU), MobilizedBody.cpp
    realizeTime / realizePosition / realizeDynamics (where the prescribed values come from).

    Part 1 (numeric, polymorphic in [NumOps]): the value functions of the built-in Motions at their three levels.
    Part 2 (discrete): the lock state machine of one mobilizer with one coordinate for which qdot = u (Pin, Slider): lock
    level, recorded lock values, q and u; how lock level and an (enabled) Motion select what is prescribed; prescribe. *)
From Coq Require Import List ZArith Bool.
Import ListNotations.
Require Import Num.

Inductive level := NoLevel | Acceleration | Velocity | Position.      (* Motion::Level: -1, 0, 1, 2 *)

Section Values.
Context {T:Type} (O:NumOps T).
Local Notation "a + b" := (nadd O a b). Local Notation "a * b" := (nmul O a b). Local Notation "- a" := (nopp O a).

(** Motion::Sinusoid(level, amplitude a, rate w, phase p): the level-0 value and its first and second time derivative *)
Definition sin_val (a w p t:T) : T := a * nsin O (w * t + p).
Definition sin_dot (a w p t:T) : T := a * w * ncos O (w * t + p).
Definition sin_dotdot (a w p t:T) : T := - (a * w * w * nsin O (w * t + p)).

Inductive motion := Sinusoid (l:level) (a w p:T) | Steady (rate:T).
Definition motion_level (m:motion) : level := match m with Sinusoid l _ _ _ => l | Steady _ => Velocity end.

(** what a Motion prescribes at time t for a coordinate with qdot = u: (q, u, udot), None = not prescribed at that level *)
Definition motion_values (m:motion) (t:T) : option T * option T * option T :=
  match m with
  | Sinusoid Position a w p => (Some (sin_val a w p t), Some (sin_dot a w p t), Some (sin_dotdot a w p t))
  | Sinusoid Velocity a w p => (None, Some (sin_val a w p t), Some (sin_dot a w p t))
  | Sinusoid Acceleration a w p => (None, None, Some (sin_val a w p t))
  | Sinusoid NoLevel _ _ _ => (None, None, None)
  | Steady r => (None, Some r, Some (n0 O))
  end.

(** ---------------------------------------------------------------- one mobilizer, one coordinate *)
Record mob := mkMob { lk : level; lockedQ : T; lockedU : T; q : T; u : T; mot : option motion; mot_on : bool }.

Inductive op := Lock (l:level) | LockAt (l:level) (v:T) | Unlock | SetQ (v:T) | SetU (v:T) | MotionEnable (b:bool) | Prescribe (t:T).

(** what is prescribed, given lock level and Motion: a lock overrides the Motion; a disabled Motion prescribes nothing *)
Definition presc (m:mob) (t:T) : option T * option T * option T :=
  match lk m with
  | Position => (Some (lockedQ m), Some (n0 O), Some (n0 O))
  | Velocity => (None, Some (lockedU m), Some (n0 O))
  | Acceleration => (None, None, Some (lockedU m))
  | NoLevel => match mot m with Some mo => if mot_on m then motion_values mo t else (None, None, None) | None => (None, None, None) end
  end.

Definition set_q (m:mob) v := mkMob (lk m) (lockedQ m) (lockedU m) v (u m) (mot m) (mot_on m).
Definition set_u (m:mob) v := mkMob (lk m) (lockedQ m) (lockedU m) (q m) v (mot m) (mot_on m).

Definition step (m:mob) (o:op) : mob :=
  match o with
  | Lock Position => mkMob Position (q m) (lockedU m) (q m) (n0 O) (mot m) (mot_on m)         (* record q, zero u *)
  | Lock Velocity => mkMob Velocity (lockedQ m) (u m) (q m) (u m) (mot m) (mot_on m)          (* record u *)
  | Lock Acceleration => mkMob Acceleration (lockedQ m) (n0 O) (q m) (u m) (mot m) (mot_on m) (* udot locked at 0 *)
  | Lock NoLevel => mkMob NoLevel (lockedQ m) (lockedU m) (q m) (u m) (mot m) (mot_on m)
  | LockAt Position v => mkMob Position v (lockedU m) v (n0 O) (mot m) (mot_on m)             (* sets q now and remembers it *)
  | LockAt Velocity v => mkMob Velocity (lockedQ m) v (q m) (u m) (mot m) (mot_on m)
  | LockAt Acceleration v => mkMob Acceleration (lockedQ m) v (q m) (u m) (mot m) (mot_on m)
  | LockAt NoLevel _ => mkMob NoLevel (lockedQ m) (lockedU m) (q m) (u m) (mot m) (mot_on m)
  | Unlock => mkMob NoLevel (lockedQ m) (lockedU m) (q m) (u m) (mot m) (mot_on m)
  | SetQ v => set_q m v
  | SetU v => set_u m v
  | MotionEnable b => mkMob (lk m) (lockedQ m) (lockedU m) (q m) (u m) (mot m) b
  | Prescribe t => let '(pq, pu, _) := presc m t in
                   let m1 := match pq with Some v => set_q m v | None => m end in
                   match pu with Some v => set_u m1 v | None => m1 end
  end.
Definition run (m:mob) (l:list op) : mob := fold_left step l m.

(** MobilizedBody::lockByDefault(level) is a topological setting: every State created from the System afterwards (the default
    State, realized through Model) starts locked at that level; the recorded lock values are the default q (position level),
    the default u = 0 (velocity level) and 0 (acceleration level) -- realizeSubsystemModelImpl / setDefaultInstanceValues.
    From there on the State's own lock / lockAt / unlock apply as usual. *)
Definition mob_default (dl:level) (q0:T) (mo:option motion) (on:bool) : mob := mkMob dl q0 (n0 O) q0 (n0 O) mo on.

(** the value getLockValueAsVector returns: q if locked at Position, the recorded u / udot otherwise *)
Definition lock_value (m:mob) : option T :=
  match lk m with Position => Some (lockedQ m) | Velocity | Acceleration => Some (lockedU m) | NoLevel => None end.
(** the prescribed acceleration *)
Definition presc_udot (m:mob) (t:T) : option T := snd (presc m t).
End Values.
Arguments Sinusoid {T}. Arguments Steady {T}.
