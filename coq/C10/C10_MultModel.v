(** C10: prescribed-motion multipliers, their u-space form and the motion power -- executable model.

    Anchors: SimbodyMatterSubsystemRep.cpp realizeSubsystemInstanceImpl (ic.presForce: for every mobilizer, in
    MobilizedBodyIndex order, whose udot is not Free, all of its u indices), findMotionForces (mobilityForces[presForce[i]] =
    tau[i], zero elsewhere), calcMotionPower (power -= tau[i]*u[presForce[i]]); SimbodyMatterSubsystem.h: getMotionMultipliers
    "contains entries only for prescribed mobilities", findMotionForces "the same values ... unpacked into u-space slots, with
    zeroes corresponding to any free mobilities", calcMotionPower "power = -dot(tau, u) ... positive means the Motion is adding
    energy". *)
From Coq Require Import List Arith Bool.
Import ListNotations.
Require Import Num.

(** the u-space slots that carry a multiplier: mobilizers as (number of u's, udot is free?) in MobilizedBodyIndex order *)
Fixpoint pres_slots (first:nat) (mobs:list (nat * bool)) : list nat :=
  match mobs with
  | [] => []
  | (nu, free) :: r => (if free then [] else seq first nu) ++ pres_slots (first + nu) r
  end.
Definition total_nu (mobs:list (nat * bool)) : nat := fold_right (fun m n => fst m + n) 0 mobs.

Section Mult.
Context {T:Type} (K:NumOps T).
(** findMotionForces: a vector of nu zeros with tau[i] written at slots[i] *)
Fixpoint set_nth (i:nat) (x:T) (l:list T) : list T :=
  match l, i with [], _ => [] | _ :: t, 0 => x :: t | y :: t, S j => y :: set_nth j x t end.
Fixpoint unpack_into (slots:list nat) (tau:list T) (f:list T) : list T :=
  match slots, tau with s :: sr, x :: xr => unpack_into sr xr (set_nth s x f) | _, _ => f end.
Definition unpack (nu:nat) (slots:list nat) (tau:list T) : list T := unpack_into slots tau (repeat (n0 K) nu).
(** the packed form of a u-space vector *)
Definition pack (slots:list nat) (f:list T) : list T := map (fun s => nth s f (n0 K)) slots.
(** calcMotionPower: power = 0; for i: power -= tau[i] * u[slots[i]] *)
Fixpoint power_from (p:T) (slots:list nat) (tau u:list T) : T :=
  match slots, tau with s :: sr, x :: xr => power_from (nsub K p (nmul K x (nth s u (n0 K)))) sr xr u | _, _ => p end.
Definition motion_power (slots:list nat) (tau u:list T) : T := power_from (n0 K) slots tau u.
(** dot product, accumulated left to right *)
Fixpoint dot_from (p:T) (a b:list T) : T :=
  match a, b with x :: ar, y :: br => dot_from (nadd K p (nmul K x y)) ar br | _, _ => p end.
Definition dot (a b:list T) : T := dot_from (n0 K) a b.
End Mult.
