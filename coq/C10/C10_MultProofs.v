(** C10: proofs about multiplier packing and motion power (C10_MultModel.v), and the default-lock part of the lock machine. *)
From Coq Require Import List Arith Bool Reals Lra Lia.
Import ListNotations.
Require Import Num C10_Model C10_Proofs C10_MultModel.
Close Scope R_scope. Open Scope nat_scope.

(* ---------------------------------------------------------------- slots *)
Lemma pres_slots_bounds mobs : forall first s, In s (pres_slots first mobs) -> first <= s < first + total_nu mobs.
Proof.
  induction mobs as [|[nu free] r IH]; intros first s H; simpl in *. destruct H.
  apply in_app_or in H as [H|H].
  - destruct free; [destruct H|]. apply in_seq in H. lia.
  - apply IH in H. lia.
Qed.
Lemma pres_slots_NoDup mobs : forall first, NoDup (pres_slots first mobs).
Proof.
  induction mobs as [|[nu free] r IH]; intros first; simpl. constructor.
  assert (D : forall x, In x (if free then [] else seq first nu) -> ~ In x (pres_slots (first + nu) r)).
  { intros x H1 H2. apply pres_slots_bounds in H2. destruct free; [destruct H1|]. apply in_seq in H1. lia. }
  revert D. generalize (IH (first + nu)). generalize (pres_slots (first + nu) r). intros l Hl D.
  assert (N : NoDup (if free then [] else seq first nu)) by (destruct free; [constructor|apply seq_NoDup]).
  induction N as [|x l0 Hx N IHN]; simpl; auto. constructor.
  - intros H. apply in_app_or in H as [H|H]; [contradiction|]. apply (D x); simpl; auto.
  - apply IHN. intros y Hy. apply D. now right.
Qed.

Section M.
Context {T:Type} (K:NumOps T).
Local Notation z := (n0 K).

Lemma set_nth_length i (x:T) l : length (set_nth i x l) = length l.
Proof. revert i; induction l; destruct i; simpl; auto. Qed.
Lemma nth_set_nth_eq i (x:T) l : i < length l -> nth i (set_nth i x l) z = x.
Proof. revert i; induction l; destruct i; simpl; intros; try lia; auto. apply IHl; lia. Qed.
Lemma nth_set_nth_neq i j (x:T) l : i <> j -> nth j (set_nth i x l) z = nth j l z.
Proof. revert i j; induction l; destruct i, j; simpl; intros; try lia; auto. Qed.
Lemma unpack_into_length slots : forall (tau f:list T), length (unpack_into slots tau f) = length f.
Proof. induction slots as [|s sr IH]; intros [|x xr] f; simpl; auto. now rewrite IH, set_nth_length. Qed.
Lemma unpack_into_other slots : forall (tau f:list T) j, ~ In j slots -> nth j (unpack_into slots tau f) z = nth j f z.
Proof.
  induction slots as [|s sr IH]; intros [|x xr] f j H; simpl; auto.
  rewrite IH by (intros H1; apply H; now right). apply nth_set_nth_neq. intros ->. apply H. now left.
Qed.

Lemma nth_repeat_z n j : nth j (repeat z n) z = z.
Proof. revert j; induction n; destruct j; simpl; auto. Qed.
(** findMotionForces has ZEROS in every slot that carries no multiplier *)
Theorem unpack_zero_elsewhere nu slots tau j : ~ In j slots -> nth j (unpack K nu slots tau) z = z.
Proof.
  intros H. unfold unpack. rewrite unpack_into_other by auto. apply nth_repeat_z.
Qed.
(** ... has the length nu ... *)
Theorem unpack_length nu slots tau : length (unpack K nu slots tau) = nu.
Proof. unfold unpack. now rewrite unpack_into_length, repeat_length. Qed.
(** ... and packing it again gives back the multipliers (ROUND TRIP on the prescribed slots) *)
Lemma pack_unpack_into slots : forall (tau f:list T), NoDup slots -> (forall s, In s slots -> s < length f) -> length tau = length slots ->
  pack K slots (unpack_into slots tau f) = tau.
Proof.
  induction slots as [|s sr IH]; intros [|x xr] f ND B L; simpl in *; try discriminate; auto.
  inversion ND as [|? ? Hs ND']; subst. f_equal.
  - rewrite unpack_into_other by auto. apply nth_set_nth_eq. apply B. now left.
  - apply IH; auto. intros s' H. rewrite set_nth_length. apply B. now right.
Qed.
Theorem pack_unpack nu slots tau : NoDup slots -> (forall s, In s slots -> s < nu) -> length tau = length slots ->
  pack K slots (unpack K nu slots tau) = tau.
Proof. intros ND B L. apply pack_unpack_into; auto. intros s H. rewrite repeat_length. now apply B. Qed.
End M.

(** for the slots the implementation builds (all u's of the non-free mobilizers, in order) the hypotheses hold *)
Theorem pack_unpack_pres_slots {T} (K:NumOps T) mobs tau : length tau = length (pres_slots 0 mobs) ->
  pack K (pres_slots 0 mobs) (unpack K (total_nu mobs) (pres_slots 0 mobs) tau) = tau.
Proof.
  intros L. apply pack_unpack; auto. apply pres_slots_NoDup. intros s H. apply pres_slots_bounds in H. lia.
Qed.

(* ---------------------------------------------------------------- power, over the reals *)
Open Scope R_scope.
Definition sumR (l:list R) : R := fold_right Rplus 0 l.
Lemma power_from_R slots : forall p tau u, length tau = length slots ->
  power_from ROps p slots tau u = p - sumR (map (fun st => snd st * nth (fst st) u 0) (combine slots tau)).
Proof.
  induction slots as [|s sr IH]; intros p [|x xr] u L; simpl in *; try discriminate; try lra.
  rewrite IH by lia. cbv [ROps nsub nmul n0]. lra.
Qed.
(** calcMotionPower = - (sum over the prescribed slots of multiplier times generalized speed) *)
Theorem motion_power_is_minus_sum slots tau u : length tau = length slots ->
  motion_power ROps slots tau u = - sumR (map (fun st => snd st * nth (fst st) u 0) (combine slots tau)).
Proof. intros L. unfold motion_power. rewrite power_from_R by auto. cbv [ROps n0]. lra. Qed.

Definition prods (a b:list R) : list R := map (fun p => fst p * snd p) (combine a b).
Lemma dot_from_R a : forall p b, dot_from ROps p a b = p + sumR (prods a b).
Proof.
  induction a as [|x ar IH]; intros p [|y br]; simpl; try lra. rewrite IH.
  change (nadd ROps p (nmul ROps x y)) with (p + x * y). unfold prods. simpl. lra.
Qed.
Lemma dot_spec a b : dot ROps a b = sumR (prods a b).
Proof. unfold dot. rewrite dot_from_R. change (n0 ROps) with 0. lra. Qed.
Lemma prods_set_nth (f:list R) : forall (s:nat) x u, (s < length f)%nat -> nth s f 0 = 0 ->
  sumR (prods (set_nth s x f) u) = sumR (prods f u) + x * nth s u 0.
Proof.
  unfold prods. induction f as [|y fr IH]; intros s x u L Z; simpl in *; try lia.
  destruct s; destruct u as [|v ur]; simpl in *; try lra.
  - subst y. lra.
  - rewrite (IH s x ur) by (auto; lia). lra.
Qed.
Lemma dot_unpack_into slots : forall (tau f u:list R), NoDup slots -> (forall s, In s slots -> (s < length f)%nat /\ nth s f 0 = 0) -> length tau = length slots ->
  sumR (prods (unpack_into slots tau f) u) = sumR (prods f u) + sumR (map (fun st => snd st * nth (fst st) u 0) (combine slots tau)).
Proof.
  induction slots as [|s sr IH]; intros [|x xr] f u ND B L; simpl in *; try discriminate; try lra.
  inversion ND as [|? ? Hs ND']; subst. destruct (B s (or_introl eq_refl)) as [B1 B2].
  rewrite IH; auto.
  - rewrite prods_set_nth by auto. lra.
  - intros s' H. rewrite set_nth_length. destruct (B s' (or_intror H)) as [C1 C2]. split; auto.
    change 0 with (n0 ROps). rewrite nth_set_nth_neq; auto. intros ->. contradiction.
Qed.
Lemma prods_zeros n u : sumR (prods (repeat 0 n) u) = 0.
Proof. unfold prods. revert u. induction n; intros [|v ur]; simpl; auto. rewrite IHn. lra. Qed.
(** THE DOCUMENTED POWER IDENTITY: calcMotionPower = - dot(findMotionForces, u) *)
Theorem motion_power_is_minus_dot (nu:nat) slots tau u : NoDup slots -> (forall s, In s slots -> (s < nu)%nat) -> length tau = length slots ->
  motion_power ROps slots tau u = - dot ROps (unpack ROps nu slots tau) u.
Proof.
  intros ND B L. rewrite motion_power_is_minus_sum by auto. rewrite dot_spec. unfold unpack. change (n0 ROps) with 0.
  rewrite dot_unpack_into; auto. rewrite prods_zeros. lra.
  intros s H. rewrite repeat_length. split. now apply B. clear. revert s. induction nu; destruct s; simpl; auto.
Qed.
Theorem motion_power_pres_slots mobs tau u : length tau = length (pres_slots 0 mobs) ->
  motion_power ROps (pres_slots 0 mobs) tau u = - dot ROps (unpack ROps (total_nu mobs) (pres_slots 0 mobs) tau) u.
Proof.
  intros L. apply motion_power_is_minus_dot; auto. apply pres_slots_NoDup. intros s H. apply pres_slots_bounds in H. lia.
Qed.
Close Scope R_scope.

(* ---------------------------------------------------------------- lockByDefault *)
Section DL.
Context {T:Type} (O:NumOps T).
(** a State that is locked at Position level -- by lock, lockAt or BY DEFAULT -- is restored by prescribe to the recorded value,
    whatever was done to q and u in between *)
Theorem locked_position_honoured (m:mob (T:=T)) l t : lk m = Position -> forallb free_op l = true ->
  let m' := step O (run O m l) (Prescribe t) in
  q m' = lockedQ m /\ u m' = n0 O /\ presc_udot O m' t = Some (n0 O) /\ lock_value m' = Some (lockedQ m).
Proof.
  intros Hk H. destruct (free_run_keeps_lock O l m H) as [A [B C]]. set (m1 := run O m l) in *.
  destruct (prescribed_values_exact O m1 t) as [Q [U [P [L1 [L2 L3]]]]].
  assert (E : presc O m1 t = (Some (lockedQ m), Some (n0 O), Some (n0 O))) by (unfold presc; rewrite A, Hk, B; reflexivity).
  cbv zeta. rewrite Q, U, E. cbn [fst snd]. repeat split; auto.
  - unfold presc_udot. rewrite P, E. reflexivity.
  - unfold lock_value. rewrite L1, A, Hk, L2, B. reflexivity.
Qed.
(** lockByDefault: the default State is locked at the default level with the default q / zero u / zero udot recorded *)
Theorem default_lock_honoured dl q0 mo on l t : forallb free_op l = true ->
  let m' := step O (run O (mob_default O dl q0 mo on) l) (Prescribe t) in
  match dl with
  | Position => q m' = q0 /\ u m' = n0 O /\ presc_udot O m' t = Some (n0 O) /\ lock_value m' = Some q0
  | Velocity => u m' = n0 O /\ presc_udot O m' t = Some (n0 O) /\ lock_value m' = Some (n0 O)
  | Acceleration => presc_udot O m' t = Some (n0 O) /\ lock_value m' = Some (n0 O)
  | NoLevel => lock_value m' = None
  end.
Proof.
  intros H. set (m0 := mob_default O dl q0 mo on).
  destruct (free_run_keeps_lock O l m0 H) as [A [B C]]. set (m1 := run O m0 l) in *.
  destruct (prescribed_values_exact O m1 t) as [Q [U [P [L1 [L2 L3]]]]]. cbv zeta.
  destruct dl; cbn [mob_default lk lockedQ lockedU] in A, B, C.
  - unfold lock_value. now rewrite L1, A.
  - assert (E : presc O m1 t = (None, None, Some (n0 O))) by (unfold presc; rewrite A, C; reflexivity).
    split. unfold presc_udot. now rewrite P, E. unfold lock_value. now rewrite L1, A, L3, C.
  - assert (E : presc O m1 t = (None, Some (n0 O), Some (n0 O))) by (unfold presc; rewrite A, C; reflexivity).
    split; [|split]. now rewrite U, E. unfold presc_udot. now rewrite P, E. unfold lock_value. now rewrite L1, A, L3, C.
  - apply (locked_position_honoured m0 l t); auto.
Qed.
(** unlock on a State overrides the default lock (the default is only where a new State starts) *)
Theorem unlock_overrides_default dl q0 on t : presc O (step O (mob_default O dl q0 None on) Unlock) t = (None, None, None).
Proof. reflexivity. Qed.
End DL.
