(** C10: position-level prescribed motion on a mobilizer whose qdot is NOT u (Ball, Free, Ellipsoid in Euler-angle mode:
    three body-fixed x-y-z angles, qdot = N(q) u with u the angular velocity in the parent frame) -- executable model.

    Anchors: Simbody/src/MobilizedBody.cpp  MobilizedBodyImpl::realizePosition (u = N^-1 qdot_prescribed) and
    realizeDynamics (udot = N^-1 (qdotdot_prescribed - NDot u)), branch "!rbn.isQDotAlwaysTheSameAsU()", and
    RigidBodyNodeSpec_{Ball,Free,Ellipsoid}.h multiplyByN / multiplyByNInv / multiplyByNDot / calcQDotDot, which call the
    Rotation.h helpers multiplyByBodyXYZ_N_P, multiplyByBodyXYZ_NInv_P, calcNDotForBodyXYZInParentFrame and
    convertAngAccInParentToBodyXYZDotDot.  Those helpers are NOT re-modelled here: the definitions below are built from the
    translations [mulNP], [mulNInvP], [cNDotP], [angAccP2qdd] of Gen/rot_gen.v (regenerated from Rotation.h every run). *)
From Coq Require Import ZArith.
Require Import Num Vec rot_gen.

Section Presc.
Context {T:Type} (K:NumOps T).

(** the cached cos / sin of the first two angles and 1/cos(q1), as the mobilizer keeps them in its q pool *)
Definition cs_of (q:Vec3 T) : Vec2 T * Vec2 T * T :=
  let '(q0,q1,q2) := q in ((ncos K q0, ncos K q1), (nsin K q0, nsin K q1), ndiv K (n1 K) (ncos K q1)).

(** realizePosition: prescribed u from the Motion's qdot *)
Definition presc_u3 (cq sq:Vec2 T) (qd:Vec3 T) : Vec3 T := mulNInvP K cq sq qd.
(** what the State then reports as qdot (multiplyByN) *)
Definition rep_qdot3 (cq sq:Vec2 T) (ooc:T) (u:Vec3 T) : Vec3 T := mulNP K cq sq ooc u.
(** multiplyByNDot: NDot(q, qdot of the State) * u *)
Definition ndot_u3 (cq sq:Vec2 T) (ooc:T) (qdot u:Vec3 T) : Vec3 T := m33_mulv K (cNDotP K cq sq ooc qdot) u.
(** realizeDynamics: prescribed udot from the Motion's qdotdot; [sgn] = true is the code (qdotdot - NDot u), false the
    variant with the opposite sign of the velocity correction (regression lemma) *)
Definition presc_udot3 (sgn:bool) (cq sq:Vec2 T) (ooc:T) (qd qdd:Vec3 T) : Vec3 T :=
  let u := presc_u3 cq sq qd in
  let corr := ndot_u3 cq sq ooc (rep_qdot3 cq sq ooc u) u in
  mulNInvP K cq sq (if sgn then v3_sub K qdd corr else v3_add K qdd corr).
(** what the State reports as qdotdot (calcQDotDot: convertAngAccInParentToBodyXYZDotDot(cos, sin, 1/cos, qdot, udot)) *)
Definition rep_qdotdot3 (cq sq:Vec2 T) (ooc:T) (qdot udot:Vec3 T) : Vec3 T := angAccP2qdd K cq sq ooc qdot udot.

(** everything for one instant: given the angles and the Motion's qdot, qdotdot: (u, udot, reported qdot, reported qdotdot) *)
Definition presc_all (sgn:bool) (q qd qdd:Vec3 T) : Vec3 T * Vec3 T * Vec3 T * Vec3 T :=
  let '(cq, sq, ooc) := cs_of q in
  let u := presc_u3 cq sq qd in
  let udot := presc_udot3 sgn cq sq ooc qd qdd in
  let qdot := rep_qdot3 cq sq ooc u in
  (u, udot, qdot, rep_qdotdot3 cq sq ooc qdot udot).
End Presc.
