(** C10: the position-level prescription on a qdot = N(q) u mobilizer is honoured at all three levels.
    Reuses the C28 theorems about the translated Rotation.h helpers (N*NInv = I, fast products = matrix products, the
    closed form of convertAngAccInParentToBodyXYZDotDot); nothing about those helpers is re-proved here. *)
From Coq Require Import ZArith Reals Lra.
From Coquelicot Require Import Coquelicot.
Require Import Num Vec Tactics rot_gen C28_Defs C28_Proofs C10_Model C10_Proofs C10_PrescModel.
Local Open Scope R_scope.

(** plain matrix algebra: (A B) v = A (B v), I v = v *)
Lemma m33_mulv_mul (A B:Mat33 R) (v:Vec3 R) : m33_mulv ROps (m33_mul ROps A B) v = m33_mulv ROps A (m33_mulv ROps B v).
Proof.
  destruct A as [[[[a00 a01] a02] [[a10 a11] a12]] [[a20 a21] a22]], B as [[[[b00 b01] b02] [[b10 b11] b12]] [[b20 b21] b22]], v as [[v0 v1] v2].
  vunf. teq; ring.
Qed.
Lemma m33_mulv_I (v:Vec3 R) : m33_mulv ROps I33 v = v.
Proof. destruct v as [[v0 v1] v2]. unfold I33. vunf. teq; ring. Qed.
Lemma v3_sub_add (a b:Vec3 R) : v3_add ROps (v3_sub ROps a b) b = a.
Proof. destruct a as [[a0 a1] a2], b as [[b0 b1] b2]. vunf. teq; ring. Qed.

Section P.
Variables c0 s0 c1 s1 : R.
Hypothesis C1 : c1 <> 0.
Hypothesis U0 : s0*s0 + c0*c0 = 1.
Hypothesis U1 : s1*s1 + c1*c1 = 1.
Local Notation cq := (c0, c1). Local Notation sq := (s0, s1). Local Notation ooc := (1 / c1).

(** N (N^-1 v) = v for the fast products the mobilizers call (from C28: fast products are the matrix products, N NInv = I) *)
Lemma mulNP_mulNInvP (v:Vec3 R) : mulNP ROps cq sq ooc (mulNInvP ROps cq sq v) = v.
Proof.
  destruct v as [[v0 v1] v2].
  rewrite (mulNInvP_is_NInvP c0 s0 c1 s1 0 0 v0 v1 v2).
  destruct (m33_mulv ROps (cNInvP ROps (c0, c1, 0) (s0, s1, 0)) (v0, v1, v2)) as [[w0 w1] w2] eqn:E.
  rewrite (mulNP_is_NP c0 s0 c1 s1 0 0 w0 w1 w2 C1). rewrite <- E, <- m33_mulv_mul.
  rewrite (NP_NInvP c0 s0 c1 s1 0 0 C1 U0). apply m33_mulv_I.
Qed.

(** LEVEL 1: with u = N^-1 qdot_prescribed the State's qdot = N u IS the Motion's first derivative *)
Theorem prescribed_qdot_exact (qd:Vec3 R) : rep_qdot3 ROps cq sq ooc (presc_u3 ROps cq sq qd) = qd.
Proof. unfold rep_qdot3, presc_u3. apply mulNP_mulNInvP. Qed.

(** LEVEL 2: with udot = N^-1 (qdotdot_prescribed - NDot u) the State's qdotdot IS the Motion's second derivative *)
Theorem prescribed_qdotdot_exact (qd qdd:Vec3 R) :
  rep_qdotdot3 ROps cq sq ooc (rep_qdot3 ROps cq sq ooc (presc_u3 ROps cq sq qd)) (presc_udot3 ROps true cq sq ooc qd qdd) = qdd.
Proof.
  rewrite prescribed_qdot_exact. unfold rep_qdotdot3, presc_udot3. rewrite prescribed_qdot_exact. cbv zeta.
  destruct qd as [[d0 d1] d2].
  set (u := presc_u3 ROps cq sq (d0,d1,d2)). set (corr := ndot_u3 ROps cq sq ooc (d0,d1,d2) u).
  destruct (mulNInvP ROps cq sq (v3_sub ROps qdd corr)) as [[b0 b1] b2] eqn:Eb.
  rewrite (angAccP_formula c0 s0 c1 s1 d0 d1 d2 b0 b1 b2 C1 U0 U1).
  rewrite <- (mulNP_is_NP c0 s0 c1 s1 0 0 b0 b1 b2 C1), <- Eb. rewrite mulNP_mulNInvP.
  rewrite <- (mulNInvP_is_NInvP c0 s0 c1 s1 0 0 d0 d1 d2).
  change (mulNInvP ROps cq sq (d0,d1,d2)) with u. change (m33_mulv ROps (cNDotP ROps cq sq ooc (d0,d1,d2)) u) with corr.
  apply v3_sub_add.
Qed.

(** REGRESSION LEMMA (seeded change: `qdotdot[i] += ndotU[i]`): with the opposite sign of the velocity correction the State's
    qdotdot is off by 2 NDot u *)
Theorem prescribed_qdotdot_wrong_sign (qd qdd:Vec3 R) :
  rep_qdotdot3 ROps cq sq ooc (rep_qdot3 ROps cq sq ooc (presc_u3 ROps cq sq qd)) (presc_udot3 ROps false cq sq ooc qd qdd)
  = v3_add ROps (v3_add ROps qdd (ndot_u3 ROps cq sq ooc qd (presc_u3 ROps cq sq qd))) (ndot_u3 ROps cq sq ooc qd (presc_u3 ROps cq sq qd)).
Proof.
  rewrite prescribed_qdot_exact. unfold rep_qdotdot3, presc_udot3. rewrite prescribed_qdot_exact. cbv zeta.
  destruct qd as [[d0 d1] d2].
  set (u := presc_u3 ROps cq sq (d0,d1,d2)). set (corr := ndot_u3 ROps cq sq ooc (d0,d1,d2) u).
  destruct (mulNInvP ROps cq sq (v3_add ROps qdd corr)) as [[b0 b1] b2] eqn:Eb.
  rewrite (angAccP_formula c0 s0 c1 s1 d0 d1 d2 b0 b1 b2 C1 U0 U1).
  rewrite <- (mulNP_is_NP c0 s0 c1 s1 0 0 b0 b1 b2 C1), <- Eb. rewrite mulNP_mulNInvP.
  rewrite <- (mulNInvP_is_NInvP c0 s0 c1 s1 0 0 d0 d1 d2).
  change (mulNInvP ROps cq sq (d0,d1,d2)) with u. change (m33_mulv ROps (cNDotP ROps cq sq ooc (d0,d1,d2)) u) with corr. reflexivity.
Qed.
End P.

(** the wrong sign is really wrong: at the reference orientation, moving with qdot = (1,1,1) *)
Theorem prescribed_qdotdot_wrong_sign_refuted :
  exists qd qdd, rep_qdotdot3 ROps (1,1) (0,0) (1/1) (rep_qdot3 ROps (1,1) (0,0) (1/1) (presc_u3 ROps (1,1) (0,0) qd))
                              (presc_udot3 ROps false (1,1) (0,0) (1/1) qd qdd) <> qdd.
Proof.
  exists (1,1,1), (0,0,0). rewrite (prescribed_qdotdot_wrong_sign 1 0 1 0) by lra.
  unfold ndot_u3, presc_u3. vunf. cbv [cNDotP mulNInvP]. vunf. intros H. injection H as H0 H1 H2. lra.
Qed.

(** ALL THREE LEVELS for Motion::Sinusoid at Position level on such a mobilizer (every angle follows a sin(w t + p)): away from
    the singular configuration cos q1 = 0 the State's q, qdot, qdotdot are the sinusoid and its first two time derivatives *)
Theorem sinusoid_on_ball_all_levels a w p t :
  let q := sin_val ROps a w p t in let qd := sin_dot ROps a w p t in let qdd := sin_dotdot ROps a w p t in
  cos q <> 0 ->
  let '(u, udot, qdot, qdotdot) := presc_all ROps true (q,q,q) (qd,qd,qd) (qdd,qdd,qdd) in
  qdot = (qd,qd,qd) /\ qdotdot = (qdd,qdd,qdd) /\
  is_derive (fun s => sin_val ROps a w p s) t qd /\ is_derive (fun s => sin_dot ROps a w p s) t qdd.
Proof.
  intros q qd qdd Hc. unfold presc_all, cs_of. cbv [ROps ncos nsin ndiv n1].
  assert (U : sin q * sin q + cos q * cos q = 1) by (pose proof (sin2_cos2 q) as X; unfold Rsqr in X; lra).
  split; [|split; [|split]].
  - apply (prescribed_qdot_exact (cos q) (sin q) (cos q) (sin q) Hc U).
  - apply (prescribed_qdotdot_exact (cos q) (sin q) (cos q) (sin q) Hc U U).
  - apply sinusoid_dot_is_derivative.
  - apply sinusoid_dotdot_is_derivative.
Qed.
