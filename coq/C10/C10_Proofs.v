(** C10: proofs about the prescribed-motion / lock model of C10_Model.v (over the reals, [ROps]). *)
From Coq Require Import List ZArith Bool Reals Lra Classical_Prop Psatz.
From Coquelicot Require Import Coquelicot.
Import ListNotations.
Require Import Num C10_Model.
Open Scope R_scope.

Ltac runf := cbv [sin_val sin_dot sin_dotdot ROps n0 n1 nadd nsub nmul ndiv nopp nsin ncos].

(* ================================================================ 1. the levels of the built-in Motions are mutually consistent *)
Lemma sinusoid_dot_is_derivative a w p t : is_derive (fun t => sin_val ROps a w p t) t (sin_dot ROps a w p t).
Proof. runf. auto_derive; [exact I | ring]. Qed.
Lemma sinusoid_dotdot_is_derivative a w p t : is_derive (fun t => sin_dot ROps a w p t) t (sin_dotdot ROps a w p t).
Proof. runf. auto_derive; [exact I | ring]. Qed.

(** for every built-in Motion: whatever it prescribes for u is the time derivative of what it prescribes for q, and
    whatever it prescribes for udot is the time derivative of what it prescribes for u *)
Definition getq (x:option R * option R * option R) := fst (fst x).
Definition getu (x:option R * option R * option R) := snd (fst x).
Definition getud (x:option R * option R * option R) := snd x.
Theorem motion_levels_consistent (m:motion (T:=R)) t :
  (forall qv, getq (motion_values ROps m t) = Some qv ->
     exists uv, getu (motion_values ROps m t) = Some uv /\
       is_derive (fun s => match getq (motion_values ROps m s) with Some x => x | None => 0 end) t uv) /\
  (forall uv, getu (motion_values ROps m t) = Some uv ->
     exists av, getud (motion_values ROps m t) = Some av /\
       is_derive (fun s => match getu (motion_values ROps m s) with Some x => x | None => 0 end) t av).
Proof.
  destruct m as [l a w p|r]; [destruct l|]; cbn [motion_values getq getu getud fst snd]; split; intros v H; try discriminate.
  - eexists; split; [reflexivity|]. apply sinusoid_dot_is_derivative.
  - eexists; split; [reflexivity|]. apply sinusoid_dot_is_derivative.
  - eexists; split; [reflexivity|]. apply sinusoid_dotdot_is_derivative.
  - eexists; split; [reflexivity|]. cbv [ROps n0]. auto_derive; [exact I | ring].
Qed.

(** a Motion prescribes every level at or above its own *)
Theorem motion_prescribes_from_its_level (m:motion (T:=R)) t :
  match motion_level m with
  | Position => getq (motion_values ROps m t) <> None /\ getu (motion_values ROps m t) <> None /\ getud (motion_values ROps m t) <> None
  | Velocity => getq (motion_values ROps m t) = None /\ getu (motion_values ROps m t) <> None /\ getud (motion_values ROps m t) <> None
  | Acceleration => getq (motion_values ROps m t) = None /\ getu (motion_values ROps m t) = None /\ getud (motion_values ROps m t) <> None
  | NoLevel => motion_values ROps m t = (None, None, None)
  end.
Proof. destruct m as [l a w p|r]; [destruct l|]; cbn; repeat split; discriminate. Qed.

(* ================================================================ 2. prescribed values are taken exactly; lock state machine *)
Section Lock.
Context {T:Type} (O:NumOps T).

Lemma presc_set_q m v t : presc O (set_q m v) t = presc O m t. Proof. reflexivity. Qed.
Lemma presc_set_u m v t : presc O (set_u m v) t = presc O m t. Proof. reflexivity. Qed.

(** after prescribe, q and u ARE the prescribed values (and untouched where nothing is prescribed) *)
Theorem prescribed_values_exact (m:mob (T:=T)) t :
  let m' := step O m (Prescribe t) in
  q m' = match fst (fst (presc O m t)) with Some v => v | None => q m end /\
  u m' = match snd (fst (presc O m t)) with Some v => v | None => u m end /\
  presc O m' t = presc O m t /\ lk m' = lk m /\ lockedQ m' = lockedQ m /\ lockedU m' = lockedU m.
Proof.
  cbn [step]. destruct (presc O m t) as [[pq pu] pud] eqn:E. cbn [fst snd].
  destruct pq as [vq|], pu as [vu|]; rewrite ?presc_set_u, ?presc_set_q, ?E; repeat split; reflexivity.
Qed.
Theorem prescribe_idempotent (m:mob (T:=T)) t : step O (step O m (Prescribe t)) (Prescribe t) = step O m (Prescribe t).
Proof.
  cbn [step]. destruct (presc O m t) as [[pq pu] pud] eqn:E.
  destruct pq as [vq|], pu as [vu|]; rewrite ?presc_set_u, ?presc_set_q, ?E; reflexivity.
Qed.

(** operations that do not touch the lock *)
Definition free_op (o:op (T:=T)) : bool := match o with SetQ _ | SetU _ | MotionEnable _ | Prescribe _ => true | _ => false end.
Lemma free_keeps_lock m o : free_op o = true -> lk (step O m o) = lk m /\ lockedQ (step O m o) = lockedQ m /\ lockedU (step O m o) = lockedU m.
Proof.
  destruct o; try discriminate; intros _; cbn [step]; try (repeat split; reflexivity).
  destruct (presc O m t) as [[pq pu] pud]. destruct pq, pu; repeat split; reflexivity.
Qed.
Lemma free_run_keeps_lock : forall l m, forallb free_op l = true ->
  lk (run O m l) = lk m /\ lockedQ (run O m l) = lockedQ m /\ lockedU (run O m l) = lockedU m.
Proof.
  induction l as [|o l IH]; intros m H; cbn. repeat split; reflexivity.
  apply andb_true_iff in H as [H1 H2]. destruct (free_keeps_lock m o H1) as [A [B C]].
  destruct (IH (step O m o) H2) as [A' [B' C']]. unfold run in *. cbn. repeat split; congruence.
Qed.

(** LOCK AT POSITION: whatever the user does to q and u afterwards (short of re-locking / unlocking), the next prescribe
    restores the coordinate to the value it had when it was locked (lock) or was given (lockAt), with zero speed and acceleration *)
Theorem lock_position_honoured m l t : forallb free_op l = true ->
  let m' := step O (run O (step O m (Lock Position)) l) (Prescribe t) in
  q m' = q m /\ u m' = n0 O /\ presc_udot O m' t = Some (n0 O) /\ lock_value m' = Some (q m).
Proof.
  intros H. destruct (free_run_keeps_lock l (step O m (Lock Position)) H) as [A0 [B0 C0]].
  set (m1 := run O (step O m (Lock Position)) l) in *.
  assert (A : lk m1 = Position) by (rewrite A0; reflexivity). assert (B : lockedQ m1 = q m) by (rewrite B0; reflexivity).
  destruct (prescribed_values_exact m1 t) as [Q [U [P [L1 [L2 L3]]]]].
  assert (E : presc O m1 t = (Some (q m), Some (n0 O), Some (n0 O))) by (unfold presc; rewrite A, B; reflexivity).
  cbv zeta. rewrite Q, U, E. cbn [fst snd]. repeat split; auto.
  - unfold presc_udot. rewrite P, E. reflexivity.
  - unfold lock_value. rewrite L1, A, L2, B. reflexivity.
Qed.
Theorem lockAt_position_honoured m v l t : forallb free_op l = true ->
  let m' := step O (run O (step O m (LockAt Position v)) l) (Prescribe t) in
  q m' = v /\ u m' = n0 O /\ presc_udot O m' t = Some (n0 O) /\ lock_value m' = Some v.
Proof.
  intros H. destruct (free_run_keeps_lock l (step O m (LockAt Position v)) H) as [A0 [B0 C0]].
  set (m1 := run O (step O m (LockAt Position v)) l) in *.
  assert (A : lk m1 = Position) by (rewrite A0; reflexivity). assert (B : lockedQ m1 = v) by (rewrite B0; reflexivity).
  destruct (prescribed_values_exact m1 t) as [Q [U [P [L1 [L2 L3]]]]].
  assert (E : presc O m1 t = (Some v, Some (n0 O), Some (n0 O))) by (unfold presc; rewrite A, B; reflexivity).
  cbv zeta. rewrite Q, U, E. cbn [fst snd]. repeat split; auto.
  - unfold presc_udot. rewrite P, E. reflexivity.
  - unfold lock_value. rewrite L1, A, L2, B. reflexivity.
Qed.
(** LOCK AT VELOCITY / ACCELERATION *)
Theorem lock_velocity_honoured m l t : forallb free_op l = true ->
  let m' := step O (run O (step O m (Lock Velocity)) l) (Prescribe t) in
  u m' = u m /\ presc_udot O m' t = Some (n0 O) /\ lock_value m' = Some (u m).
Proof.
  intros H. destruct (free_run_keeps_lock l (step O m (Lock Velocity)) H) as [A0 [B0 C0]].
  set (m1 := run O (step O m (Lock Velocity)) l) in *.
  assert (A : lk m1 = Velocity) by (rewrite A0; reflexivity). assert (C : lockedU m1 = u m) by (rewrite C0; reflexivity).
  destruct (prescribed_values_exact m1 t) as [Q [U [P [L1 [L2 L3]]]]].
  assert (E : presc O m1 t = (None, Some (u m), Some (n0 O))) by (unfold presc; rewrite A, C; reflexivity).
  cbv zeta. rewrite U, E. cbn [fst snd]. repeat split; auto.
  - unfold presc_udot. rewrite P, E. reflexivity.
  - unfold lock_value. rewrite L1, A, L3, C. reflexivity.
Qed.
Theorem lockAt_acceleration_honoured m v l t : forallb free_op l = true ->
  let m1 := run O (step O m (LockAt Acceleration v)) l in
  presc_udot O m1 t = Some v /\ fst (presc O m1 t) = (None, None) /\ lock_value m1 = Some v.
Proof.
  intros H. destruct (free_run_keeps_lock l (step O m (LockAt Acceleration v)) H) as [A0 [B0 C0]].
  cbv zeta. set (m1 := run O (step O m (LockAt Acceleration v)) l) in *.
  assert (A : lk m1 = Acceleration) by (rewrite A0; reflexivity). assert (C : lockedU m1 = v) by (rewrite C0; reflexivity).
  unfold presc_udot, presc, lock_value. rewrite A, C. repeat split; reflexivity.
Qed.

(** a lock overrides the mobilizer's Motion; unlocking hands control back to the Motion; unlocking a mobilizer without
    (enabled) Motion restores free behaviour: nothing is prescribed and prescribe changes nothing *)
Theorem lock_overrides_motion m t : lk m <> NoLevel -> presc O m t = presc O (mkMob (lk m) (lockedQ m) (lockedU m) (q m) (u m) None false) t.
Proof. unfold presc. cbn. destruct (lk m); [contradiction| | |]; reflexivity. Qed.
Theorem unlock_restores_motion m t : presc O (step O m Unlock) t =
  match mot m with Some mo => if mot_on m then motion_values O mo t else (None, None, None) | None => (None, None, None) end.
Proof. reflexivity. Qed.
Theorem unlock_restores_free m t : (mot m = None \/ mot_on m = false) ->
  presc O (step O m Unlock) t = (None, None, None) /\ step O (step O m Unlock) (Prescribe t) = step O m Unlock /\
  q (step O m Unlock) = q m /\ u (step O m Unlock) = u m.
Proof.
  intros H. assert (E : presc O (step O m Unlock) t = (None, None, None)).
  { rewrite unlock_restores_motion. destruct H as [-> | ->]; [reflexivity|]. destruct (mot m); reflexivity. }
  split; [exact E|]. split; [|split; reflexivity]. cbn [step] in *. rewrite E. reflexivity.
Qed.
Theorem disable_motion_restores_free m t : lk m = NoLevel ->
  presc O (step O m (MotionEnable false)) t = (None, None, None).
Proof. intros H. unfold presc. cbn. rewrite H. destruct (mot m); reflexivity. Qed.
End Lock.

(* ================================================================ 3. the reported motion forces reproduce the motion *)
(** Abstract linear algebra.  V = generalized-force / acceleration space with a bilinear pairing, Mop = the (symmetric,
    positive definite) mass-matrix operator, Ep = the injection of prescribed-mobility forces into V.  Sign convention of
    getMotionMultipliers / findMotionForces: the reported tau are the constraint-side forces, M udot + Ep tau = f. *)
Section MotionForces.
Variables (V P:Type) (vadd vsub:V -> V -> V) (vzero:V) (dot:V -> V -> R) (Mop:V -> V) (Ep:P -> V).
Hypothesis vsub_add : forall a b, vsub (vadd a b) b = a.
Hypothesis vsub_self_zero : forall a b, vsub a b = vzero -> a = b.
Hypothesis M_sub : forall a b, vsub (Mop a) (Mop b) = Mop (vsub a b).
Hypothesis vsub_same : forall a, vsub a a = vzero.
Hypothesis dot_zero_l : forall a, dot vzero a = 0.
Hypothesis M_pd : forall a, a <> vzero -> dot (Mop a) a > 0.

(** if (udot, tau) satisfy the prescribed system M udot + Ep tau = f (with the prescribed entries of udot whatever they were
    prescribed to be), then the SAME system WITHOUT prescription, with -Ep tau applied as an ordinary force, has udot as a
    solution ... *)
Theorem motion_forces_reproduce udot tau f : vadd (Mop udot) (Ep tau) = f -> Mop udot = vsub f (Ep tau).
Proof. intros <-. now rewrite vsub_add. Qed.
(** ... and, the mass matrix being positive definite, as its ONLY solution *)
Theorem motion_forces_reproduce_unique udot tau f x : vadd (Mop udot) (Ep tau) = f -> Mop x = vsub f (Ep tau) -> x = udot.
Proof.
  intros H Hx. apply motion_forces_reproduce in H. apply vsub_self_zero.
  destruct (classic (vsub x udot = vzero)) as [E|N]; auto. exfalso.
  pose proof (M_pd _ N) as G. rewrite <- M_sub, Hx, H, vsub_same, dot_zero_l in G. lra.
Qed.
End MotionForces.

(** non-vacuity of the hypotheses: R^2 with a positive definite matrix and one prescribed coordinate *)
Example motion_forces_instance :
  let V := (R * R)%type in
  let vadd (a b:V) := (fst a + fst b, snd a + snd b) in let vsub (a b:V) := (fst a - fst b, snd a - snd b) in
  let dot (a b:V) := fst a * fst b + snd a * snd b in
  let Mop (a:V) := (2 * fst a + snd a, fst a + 3 * snd a) in let Ep (tau:R) : V := (tau, 0) in
  forall udot tau f x, vadd (Mop udot) (Ep tau) = f -> Mop x = vsub f (Ep tau) -> x = udot.
Proof.
  cbv zeta. intros udot tau f x. apply (motion_forces_reproduce_unique (R * R) R
     (fun a b => (fst a + fst b, snd a + snd b)) (fun a b => (fst a - fst b, snd a - snd b)) (0, 0)
     (fun a b => fst a * fst b + snd a * snd b) (fun a => (2 * fst a + snd a, fst a + 3 * snd a)) (fun tau => (tau, 0))).
  - intros [a1 a2] [b1 b2]; cbn; f_equal; ring.
  - intros [a1 a2] [b1 b2]; cbn; intros H; injection H as H1 H2; apply f_equal2; lra.
  - intros [a1 a2] [b1 b2]; cbn; f_equal; ring.
  - intros [a1 a2]; cbn; f_equal; ring.
  - intros [a1 a2]; cbn; ring.
  - intros [a1 a2] H; cbn. assert (a1 <> 0 \/ a2 <> 0) as C.
    { destruct (Req_dec a1 0), (Req_dec a2 0); subst; auto; try (exfalso; apply H; reflexivity). }
    pose proof (Rle_0_sqr (a1 + a2)) as S0. pose proof (Rle_0_sqr a1) as S1. pose proof (Rle_0_sqr a2) as S2. unfold Rsqr in *.
    destruct C as [C|C]; [assert (0 < a1 * a1) by (apply Rsqr_pos_lt in C; unfold Rsqr in C; exact C)
                         |assert (0 < a2 * a2) by (apply Rsqr_pos_lt in C; unfold Rsqr in C; exact C)]; nra.
Qed.
