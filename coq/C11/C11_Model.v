(** C11 -- the quantities the property observes, as executable functions of per-body data (generic in NumOps; the
    float instance is run against MultibodySystem::calcKineticEnergy / calcEnergy and
    SimbodyMatterSubsystem::calcSystemMomentumAboutGroundOrigin / calcSystemCentralMomentum by checks/C11.py).
    A body is given in the Ground frame by its mass, the position and velocity of its mass centre, its central
    inertia (about the mass centre, expressed in Ground) and its angular velocity.  No proofs in this file. *)
From Coq Require Import List.
Require Import Num Vec.
Import ListNotations.

Section M.
Context {T : Type} (O : NumOps T).
Definition Body := (T * Vec3 T * Vec3 T * SymMat33 T * Vec3 T)%type.     (* m, c, v, Ic, w *)
Definition half : T := ndiv O (n1 O) (nadd O (n1 O) (n1 O)).

(** kinetic energy 1/2 m v.v + 1/2 w.(Ic w) *)
Definition ke_body (b : Body) : T :=
  let '(m, c, v, Ic, w) := b in
  nadd O (nmul O half (nmul O m (v3_dot O v v))) (nmul O half (v3_dot O w (sym_mulv O Ic w))).
Fixpoint ke_sys (bs : list Body) : T := match bs with [] => n0 O | b :: r => nadd O (ke_body b) (ke_sys r) end.

(** spatial momentum about the Ground origin: (Ic w + c x m v, m v) *)
Definition mom_body (b : Body) : SpatialVec T :=
  let '(m, c, v, Ic, w) := b in
  (v3_add O (sym_mulv O Ic w) (v3_cross O c (v3_scale O m v)), v3_scale O m v).
Fixpoint mom_sys (bs : list Body) : SpatialVec T :=
  match bs with [] => (v3_zero O, v3_zero O) | b :: r => sv_add O (mom_body b) (mom_sys r) end.

(** total mass and mass centre, and the momentum shifted to the system mass centre (calcSystemCentralMomentum) *)
Fixpoint mass_sys (bs : list Body) : T := match bs with [] => n0 O | (m, _, _, _, _) :: r => nadd O m (mass_sys r) end.
Fixpoint mc_sum (bs : list Body) : Vec3 T :=
  match bs with [] => v3_zero O | (m, c, _, _, _) :: r => v3_add O (v3_scale O m c) (mc_sum r) end.
Definition com_sys (bs : list Body) : Vec3 T := v3_scale O (ndiv O (n1 O) (mass_sys bs)) (mc_sum bs).
Definition central_mom_sys (bs : list Body) : SpatialVec T :=
  let '(h, p) := mom_sys bs in (v3_sub O h (v3_cross O (com_sys bs) p), p).

(** a spatial force (moment about the mass centre, force) acting on a body, taken about the Ground origin *)
Definition force_about_origin (c : Vec3 T) (F : SpatialVec T) : SpatialVec T :=
  (v3_add O (fst F) (v3_cross O c (snd F)), snd F).

(** quadratic form u^T M u / 2 and the bilinear form u^T M v of a dense n x n matrix given as a function *)
Fixpoint sumn (n : nat) (f : nat -> T) : T := match n with 0 => n0 O | S k => nadd O (sumn k f) (f k) end.
Definition bil (n : nat) (M : nat -> nat -> T) (u v : nat -> T) : T :=
  sumn n (fun i => sumn n (fun j => nmul O (M i j) (nmul O (u i) (v j)))).
End M.
