(** C11 -- continuous-time invariants behind "energy and momentum are conserved when physics says so", over the reals
    (Coquelicot derivatives along first-order jets, DESIGN 2.2).  NOTHING here bounds the drift of a numerical
    integrator; see the level note of the manifest fragment. *)
From Coq Require Import List Reals Lra Lia.
From Coquelicot Require Import Coquelicot.
Require Import Num Vec Tactics C11_Model C13_Model C13_Proofs C12_Proofs.
Import ListNotations.
Local Open Scope R_scope.

Ltac v3d := repeat match goal with v : Vec3 R |- _ => destruct v as [[? ?] ?] end.
Ltac unf := cbv [ke_body mom_body force_about_origin half v3_add v3_sub v3_scale v3_dot v3_cross v3_zero sym_mulv sym_to_m33 m33_mulv
                 sv_add fst snd v3_0 v3_1 v3_2 nadd nsub nmul ndiv n0 n1 ROps].

(** ------------------------------------------------------------------ one free rigid body *)
(** Newton-Euler: m a = F (Ground frame), Ib wd + w x Ib w = tau (body frame, Ib constant and symmetric).  Along the
    jet v(t) = v0 + t a, w(t) = w0 + t wd the kinetic energy 1/2 m v.v + 1/2 w.Ib w changes at the rate F.v + tau.w. *)
Lemma free_body_energy_rate m (c v0 a F : Vec3 R) (Ib : SymMat33 R) (w0 wd tau : Vec3 R) :
  v3_scale ROps m a = F ->
  v3_add ROps (sym_mulv ROps Ib wd) (v3_cross ROps w0 (sym_mulv ROps Ib w0)) = tau ->
  is_derive (fun t => ke_body ROps (m, c, v3_add ROps v0 (v3_scale ROps t a), Ib, v3_add ROps w0 (v3_scale ROps t wd)))
            0 (v3_dot ROps F v0 + v3_dot ROps tau w0).
Proof.
  destruct Ib as [[[ixx iyy] izz] [[ixy ixz] iyz]]. v3d. unf. intros HF HT.
  injection HF as <- <- <-. injection HT as <- <- <-.
  auto_derive; [exact I | field].
Qed.

(** hence: with the applied force split into a conservative part whose power is minus the rate of the potential energy
    it reports and a rest, kinetic + potential energy changes at the rate of the rest's power; a rest that never
    delivers positive power (dissipation) never adds energy *)
Lemma free_body_energy_balance m (c v0 a Fc Fd : Vec3 R) (Ib : SymMat33 R) (w0 wd tc td : Vec3 R) (pe : R -> R) dpe :
  v3_scale ROps m a = v3_add ROps Fc Fd ->
  v3_add ROps (sym_mulv ROps Ib wd) (v3_cross ROps w0 (sym_mulv ROps Ib w0)) = v3_add ROps tc td ->
  is_derive pe 0 dpe -> v3_dot ROps Fc v0 + v3_dot ROps tc w0 = - dpe ->
  is_derive (fun t => ke_body ROps (m, c, v3_add ROps v0 (v3_scale ROps t a), Ib, v3_add ROps w0 (v3_scale ROps t wd)) + pe t)
            0 (v3_dot ROps Fd v0 + v3_dot ROps td w0).
Proof.
  intros HF HT Hpe Hc.
  replace (v3_dot ROps Fd v0 + v3_dot ROps td w0)
    with ((v3_dot ROps (v3_add ROps Fc Fd) v0 + v3_dot ROps (v3_add ROps tc td) w0) + dpe).
  - apply (is_derive_plus (fun t => ke_body ROps (m, c, v3_add ROps v0 (v3_scale ROps t a), Ib, v3_add ROps w0 (v3_scale ROps t wd))) pe).
    + apply free_body_energy_rate; auto.
    + exact Hpe.
  - revert Hc. v3d. unf. intros Hc. lra.
Qed.
Lemma free_body_dissipation_never_adds_energy m (c v0 a Fc Fd : Vec3 R) (Ib : SymMat33 R) (w0 wd tc td : Vec3 R) (pe : R -> R) dpe :
  v3_scale ROps m a = v3_add ROps Fc Fd ->
  v3_add ROps (sym_mulv ROps Ib wd) (v3_cross ROps w0 (sym_mulv ROps Ib w0)) = v3_add ROps tc td ->
  is_derive pe 0 dpe -> v3_dot ROps Fc v0 + v3_dot ROps tc w0 = - dpe ->
  v3_dot ROps Fd v0 + v3_dot ROps td w0 <= 0 ->
  exists dE, is_derive (fun t => ke_body ROps (m, c, v3_add ROps v0 (v3_scale ROps t a), Ib, v3_add ROps w0 (v3_scale ROps t wd)) + pe t) 0 dE /\ dE <= 0.
Proof. intros. eexists; split; [eapply free_body_energy_balance; eauto | auto]. Qed.

(** ------------------------------------------------------------------ momentum of a set of bodies *)
Definition is_derive_v3 (f : R -> Vec3 R) (t : R) (d : Vec3 R) : Prop :=
  is_derive (fun s => v3_0 (f s)) t (v3_0 d) /\ is_derive (fun s => v3_1 (f s)) t (v3_1 d) /\ is_derive (fun s => v3_2 (f s)) t (v3_2 d).
Definition is_derive_sv (f : R -> SpatialVec R) (t : R) (d : SpatialVec R) : Prop :=
  is_derive_v3 (fun s => fst (f s)) t (fst d) /\ is_derive_v3 (fun s => snd (f s)) t (snd d).

Lemma is_derive_v3_add f g t df dg : is_derive_v3 f t df -> is_derive_v3 g t dg ->
  is_derive_v3 (fun s => v3_add ROps (f s) (g s)) t (v3_add ROps df dg).
Proof.
  intros (F0 & F1 & F2) (G0 & G1 & G2). destruct df as [[a0 a1] a2], dg as [[b0 b1] b2]. unfold is_derive_v3; cbn [v3_0 v3_1 v3_2 v3_add] in *.
  split; [|split].
  - apply is_derive_ext with (f := fun s => v3_0 (f s) + v3_0 (g s)); [intros s; destruct (f s) as [[? ?] ?], (g s) as [[? ?] ?]; reflexivity | apply (is_derive_plus _ _ _ _ _ F0 G0)].
  - apply is_derive_ext with (f := fun s => v3_1 (f s) + v3_1 (g s)); [intros s; destruct (f s) as [[? ?] ?], (g s) as [[? ?] ?]; reflexivity | apply (is_derive_plus _ _ _ _ _ F1 G1)].
  - apply is_derive_ext with (f := fun s => v3_2 (f s) + v3_2 (g s)); [intros s; destruct (f s) as [[? ?] ?], (g s) as [[? ?] ?]; reflexivity | apply (is_derive_plus _ _ _ _ _ F2 G2)].
Qed.
Lemma is_derive_sv_add f g t df dg : is_derive_sv f t df -> is_derive_sv g t dg ->
  is_derive_sv (fun s => sv_add ROps (f s) (g s)) t (sv_add ROps df dg).
Proof. intros [F1 F2] [G1 G2]. split; cbn [sv_add fst snd]; apply is_derive_v3_add; auto. Qed.
Lemma is_derive_sv_const c t : is_derive_sv (fun _ => c) t (v3_zero ROps, v3_zero ROps).
Proof. split; (split; [|split]); cbn; auto_derive; auto. Qed.

(** a moving body: mass, mass-centre position c0 and velocity v0, acceleration a, central angular momentum h0 (about the
    mass centre, in Ground) and its rate hd; the jet of its state *)
Definition MBody := (R * Vec3 R * Vec3 R * Vec3 R * Vec3 R * Vec3 R)%type.     (* m, c0, v0, a, h0, hd *)
Definition mom_at (b : MBody) (t : R) : SpatialVec R :=
  let '(m, c0, v0, a, h0, hd) := b in
  let c := v3_add ROps c0 (v3_scale ROps t v0) in let v := v3_add ROps v0 (v3_scale ROps t a) in
  (v3_add ROps (v3_add ROps h0 (v3_scale ROps t hd)) (v3_cross ROps c (v3_scale ROps m v)), v3_scale ROps m v).
(** the model's momentum of a body is of this form with h = Ic w *)
Lemma mom_body_is m c v Ic w : mom_body ROps (m, c, v, Ic, w) = mom_at (m, c, v, v3_zero ROps, sym_mulv ROps Ic w, v3_zero ROps) 0.
Proof. destruct Ic as [[[? ?] ?] [[? ?] ?]]. v3d. unfold mom_at. unf. teq; ring. Qed.

(** Newton-Euler for one body (m a = f, d/dt h = moment about the mass centre): its momentum about the Ground origin
    changes at the rate of the applied spatial force taken about the Ground origin *)
Lemma body_momentum_rate m (c0 v0 a h0 hd f tauc : Vec3 R) :
  v3_scale ROps m a = f -> hd = tauc ->
  is_derive_sv (mom_at (m, c0, v0, a, h0, hd)) 0 (force_about_origin ROps c0 (tauc, f)).
Proof.
  intros <- <-. v3d. unfold mom_at, is_derive_sv, is_derive_v3. unf.
  split; (split; [|split]); auto_derive; try exact I; ring.
Qed.

Fixpoint mom_total (bs : list MBody) (t : R) : SpatialVec R :=
  match bs with [] => (v3_zero ROps, v3_zero ROps) | b :: r => sv_add ROps (mom_at b t) (mom_total r t) end.
Definition BodyForces := list (MBody * SpatialVec R).
Fixpoint force_total (bfs : BodyForces) : SpatialVec R :=
  match bfs with [] => (v3_zero ROps, v3_zero ROps)
  | ((m, c0, v0, a, h0, hd), F) :: r => sv_add ROps (force_about_origin ROps c0 F) (force_total r) end.
Definition newton_euler (bf : MBody * SpatialVec R) : Prop :=
  let '((m, c0, v0, a, h0, hd), F) := bf in v3_scale ROps m a = snd F /\ hd = fst F.

(** the system momentum about the Ground origin changes at the rate of the total applied spatial force about it *)
Lemma system_momentum_rate (bfs : BodyForces) : List.Forall newton_euler bfs ->
  is_derive_sv (mom_total (map fst bfs)) 0 (force_total bfs).
Proof.
  induction 1 as [|[[[[[[m c0] v0] a] h0] hd] F] r [H1 H2] Hr IH]; cbn [map mom_total force_total fst].
  - apply is_derive_sv_const.
  - apply is_derive_sv_add; [|exact IH]. destruct F as [tc f]. apply body_momentum_rate; auto.
Qed.
(** internal forces only (total force and total moment about the origin vanish, which C13 proves for every interaction
    element): linear and angular momentum of the system are stationary *)
Lemma internal_forces_conserve_momentum (bfs : BodyForces) : List.Forall newton_euler bfs ->
  force_total bfs = (v3_zero ROps, v3_zero ROps) ->
  is_derive_sv (mom_total (map fst bfs)) 0 (v3_zero ROps, v3_zero ROps).
Proof. intros H H0. rewrite <- H0. apply system_momentum_rate; auto. Qed.

(** a pair of forces produced by a two-point element of C13 (equal and opposite along the line between the two
    stations) contributes nothing to the total: instance of the hypothesis above from C13's theorem *)
Lemma two_point_pair_is_internal (c1 c2 r1 r2 : Vec3 R) (f : Vec3 R) :
  (* force f at point c1 + r1 on body 1, -f at c2 + r2 on body 2, line of action through both points *)
  v3_cross ROps (v3_sub ROps (v3_add ROps c1 r1) (v3_add ROps c2 r2)) f = v3_zero ROps ->
  sv_add ROps (force_about_origin ROps c1 (v3_cross ROps r1 f, f))
              (force_about_origin ROps c2 (v3_cross ROps r2 (v3_neg ROps f), v3_neg ROps f)) = (v3_zero ROps, v3_zero ROps).
Proof.
  v3d. cbv [v3_neg nopp]. unf. intros H. injection H as H0 H1 H2. teq; try ring; lra.
Qed.

(** ------------------------------------------------------------------ u^T M u / 2 with M held fixed *)
Lemma sumn_ext n f g : (forall i, (i < n)%nat -> f i = g i) -> sumn ROps n f = sumn ROps n g.
Proof. induction n; cbn; intros H; [reflexivity|]. rewrite IHn by (intros; apply H; lia). rewrite H by lia. reflexivity. Qed.
Lemma sumn_plus n f g : sumn ROps n (fun i => f i + g i) = sumn ROps n f + sumn ROps n g.
Proof. induction n; cbn; [lra | rewrite IHn; lra]. Qed.
Lemma sumn_scal n c f : sumn ROps n (fun i => c * f i) = c * sumn ROps n f.
Proof. induction n; cbn; [lra | rewrite IHn; lra]. Qed.
Lemma sumn_swap n m f : sumn ROps n (fun i => sumn ROps m (fun j => f i j)) = sumn ROps m (fun j => sumn ROps n (fun i => f i j)).
Proof.
  induction n; cbn.
  - induction m; cbn; [reflexivity | rewrite <- IHm; lra].
  - rewrite IHn. rewrite <- sumn_plus. reflexivity.
Qed.
Lemma bil_sym n M u v : (forall i j, M i j = M j i) -> bil ROps n M u v = bil ROps n M v u.
Proof.
  intros HM. unfold bil. rewrite sumn_swap. apply sumn_ext; intros i _. apply sumn_ext; intros j _. cbn. rewrite (HM j i). ring.
Qed.
Lemma sumn_lin3 n t a b c d :
  sumn ROps n (fun i => a i + t * (b i + c i) + t * t * d i)
  = sumn ROps n a + t * (sumn ROps n b + sumn ROps n c) + t * t * sumn ROps n d.
Proof. induction n; cbn; [lra | rewrite IHn; lra]. Qed.
Lemma bil_expand n M u ud t :
  bil ROps n M (fun i => u i + t * ud i) (fun i => u i + t * ud i)
  = bil ROps n M u u + t * (bil ROps n M u ud + bil ROps n M ud u) + t * t * bil ROps n M ud ud.
Proof.
  unfold bil. rewrite <- sumn_lin3. apply sumn_ext; intros i _.
  rewrite <- sumn_lin3. apply sumn_ext; intros j _. cbn. ring.
Qed.
(** d/dt (1/2 u^T M u) = u^T M udot for a constant symmetric M, any dimension *)
Lemma quadratic_energy_rate n M u ud : (forall i j, M i j = M j i) ->
  is_derive (fun t => / 2 * bil ROps n M (fun i => u i + t * ud i) (fun i => u i + t * ud i)) 0 (bil ROps n M u ud).
Proof.
  intros HM.
  apply is_derive_ext with (f := fun t => / 2 * (bil ROps n M u u + t * (bil ROps n M u ud + bil ROps n M ud u) + t * t * bil ROps n M ud ud)).
  - intros t. rewrite bil_expand. reflexivity.
  - rewrite (bil_sym n M ud u HM). auto_derive; [exact I | field].
Qed.

(** ------------------------------------------------------------------ dissipative elements never deliver positive power
    (C12's sign lemmas, collected): any collection of two-point dampers, mobility dampers and global dampers with
    non-negative coefficients has non-positive total power *)
Definition TPD := (R * Transform R * SpatialVec R * Vec3 R * Transform R * SpatialVec R * Vec3 R)%type.
Definition tpd_power (d : TPD) : R :=
  let '(cc, X1, V1, st1, X2, V2, st2) := d in
  let P := damper_F ROps cc X1 V1 st1 X2 V2 st2 in sv_dot ROps (fst P) V1 + sv_dot ROps (snd P) V2.
Definition md_power (d : R * R) : R := mdamper_f ROps (fst d) (snd d) * snd d.
Definition gd_power (d : R * list R) : R := dot_s ROps (globaldamper_f ROps (fst d) (snd d)) (snd d).
Definition total_power (tp : list TPD) (md : list (R * R)) (gd : list (R * list R)) : R :=
  fold_right Rplus 0 (map tpd_power tp) + fold_right Rplus 0 (map md_power md) + fold_right Rplus 0 (map gd_power gd).
Lemma sum_nonpos {A} (f : A -> R) l : List.Forall (fun x => f x <= 0) l -> fold_right Rplus 0 (map f l) <= 0.
Proof. induction 1; cbn; lra. Qed.
Lemma dissipation_never_adds_energy tp md gd :
  List.Forall (fun d : TPD => let '(cc, _, _, _, _, _, _) := d in 0 <= cc) tp ->
  List.Forall (fun d : R * R => 0 <= fst d) md -> List.Forall (fun d : R * list R => 0 <= fst d) gd ->
  total_power tp md gd <= 0.
Proof.
  intros H1 H2 H3. unfold total_power.
  assert (A1 : fold_right Rplus 0 (map tpd_power tp) <= 0).
  { apply sum_nonpos. eapply List.Forall_impl; [|exact H1]. intros [[[[[[cc X1] V1] st1] X2] V2] st2] Hc. apply damper_dissipates; auto. }
  assert (A2 : fold_right Rplus 0 (map md_power md) <= 0).
  { apply sum_nonpos. eapply List.Forall_impl; [|exact H2]. intros [c u] Hc. apply mdamper_dissipates; auto. }
  assert (A3 : fold_right Rplus 0 (map gd_power gd) <= 0).
  { apply sum_nonpos. eapply List.Forall_impl; [|exact H3]. intros [c us] Hc. apply globaldamper_dissipates; auto. }
  lra.
Qed.

(** non-vacuity *)
Example free_body_example :
  is_derive (fun t => ke_body ROps (2, (0,0,0), v3_add ROps (1,0,0) (v3_scale ROps t (0,3,0)), ((1,2,3),(0,0,0)), v3_add ROps (0,0,1) (v3_scale ROps t (0,0,2)))) 0
            (v3_dot ROps (0,6,0) (1,0,0) + v3_dot ROps (0,0,6) (0,0,1)).
Proof. apply free_body_energy_rate; unf; teq; ring. Qed.
Example two_body_internal_example :
  let b1 : MBody := (2, (1,0,0), (0,1,0), (3,0,0), (0,0,1), (0,0,0)) in
  let b2 : MBody := (3, (-1,0,0), (0,0,0), (-2,0,0), (0,0,0), (0,0,0)) in
  is_derive_sv (mom_total [b1; b2]) 0 (v3_zero ROps, v3_zero ROps).
Proof.
  intros b1 b2.
  apply (internal_forces_conserve_momentum [(b1, ((0,0,0),(6,0,0))); (b2, ((0,0,0),(-6,0,0)))]).
  - repeat constructor; unf; teq; ring.
  - cbv [force_total b1 b2]. unf. teq; ring.
Qed.
