(** C12 proofs: power delivered by each force element of C13_Model.v versus the time derivative of the
    potential energy it reports, over the reals.

    Rigid motion enters as first-order pose jets: along [pose_path X V t] = (R + t [w]x R, p + t v) a body
    with pose X = (R,p) moves with spatial velocity V = (w,v).  "d/dt PE" is Coquelicot's [is_derive] of
    t |-> PE(poses at t) at t = 0; by the chain rule this is the derivative along any motion through X
    with velocity V (DESIGN 2.2).  Statement shape for every element:
        d/dt PE = - (power delivered) + dissipation,   dissipation <= 0,   dissipation = 0 without damping. *)
From Coq Require Import ZArith Reals Lra Lia List Psatz.
From Coquelicot Require Import Coquelicot.
Require Import Num Vec Tactics C13_Model.
Import ListNotations.
Local Open Scope R_scope.

Ltac munf := cbv [sv_zero xf_id two shift_to st_G pt_G tp_r tp_pair st_vel v3_unit spring_f spring_F spring_PE
  damper_f damper_F tpconst_f tpconst_F constforce_F consttorque_F v3_mul v3_sum]; vunf.
Ltac dv := repeat match goal with
  | v : Vec3 R |- _ => destruct v as [[? ?] ?]
  | v : Mat33 R |- _ => destruct v as [[? ?] ?]
  | v : SpatialVec R |- _ => destruct v as [? ?]
  | v : Transform R |- _ => destruct v as [? ?]
  | v : (R * R)%type |- _ => destruct v as [? ?]
  | v : (_ * _ * _)%type |- _ => destruct v as [[? ?] ?]
  end.

(** ** rigid-motion jets *)
Definition pose_path (X:Transform R) (V:SpatialVec R) (t:R) : Transform R :=
  (m33_add ROps (fst X) (m33_scale ROps t (m33_mul ROps (m33_crossMat ROps (fst V)) (fst X))),
   v3_add ROps (snd X) (v3_scale ROps t (snd V))).
Definition vaff (a b:Vec3 R) (t:R) : Vec3 R := v3_add ROps a (v3_scale ROps t b).

Lemma st_path X V st t : st_G ROps (pose_path X V t) st = vaff (st_G ROps X st) (v3_cross ROps (fst V) (st_G ROps X st)) t.
Proof. dv. unfold pose_path, vaff. munf. teq; ring. Qed.
Lemma pt_path X V st t : pt_G ROps (pose_path X V t) st = vaff (pt_G ROps X st) (st_vel ROps X V st) t.
Proof. dv. unfold pose_path, vaff. munf. teq; ring. Qed.
Lemma vaff_sub a b a' b' t : v3_sub ROps (vaff a b t) (vaff a' b' t) = vaff (v3_sub ROps a a') (v3_sub ROps b b') t.
Proof. dv. unfold vaff. vunf. teq; ring. Qed.
(** the vector between the stations moves with the relative station velocity *)
Definition vrel X1 V1 st1 X2 V2 st2 : Vec3 R := v3_sub ROps (st_vel ROps X2 V2 st2) (st_vel ROps X1 V1 st1).
Lemma r_path X1 V1 st1 X2 V2 st2 t :
  tp_r ROps (pose_path X1 V1 t) st1 (pose_path X2 V2 t) st2 = vaff (tp_r ROps X1 st1 X2 st2) (vrel X1 V1 st1 X2 V2 st2) t.
Proof. unfold tp_r. rewrite !pt_path. apply vaff_sub. Qed.

(** power delivered to two bodies by +f at station 1 and -f at station 2 *)
Lemma tp_pair_power (X1 X2:Transform R) V1 V2 st1 st2 f :
  let P := tp_pair ROps (st_G ROps X1 st1) (st_G ROps X2 st2) f in
  sv_dot ROps (fst P) V1 + sv_dot ROps (snd P) V2 = - v3_dot ROps f (vrel X1 V1 st1 X2 V2 st2).
Proof. dv. unfold vrel. munf. ring. Qed.

(** ** TwoPointLinearSpring *)
Lemma spring_scalar_jet a b c a' b' c' k x0 : 0 < a*a + b*b + c*c ->
  is_derive (fun t => k * (sqrt ((a+t*a')*(a+t*a') + (b+t*b')*(b+t*b') + (c+t*c')*(c+t*c')) - x0)
                        * (sqrt ((a+t*a')*(a+t*a') + (b+t*b')*(b+t*b') + (c+t*c')*(c+t*c')) - x0) / (1+1)) 0
            (k * (sqrt (a*a+b*b+c*c) - x0) / sqrt (a*a+b*b+c*c) * (a*a' + b*b' + c*c')).
Proof. intros H. assert (Hs : sqrt (a*a+b*b+c*c) <> 0) by (apply Rgt_not_eq, sqrt_lt_R0; auto).
  auto_derive.
  - rewrite !Rmult_0_l, !Rplus_0_r. repeat split; auto.
  - rewrite !Rmult_0_l, !Rplus_0_r. field. auto. Qed.

Lemma spring_PE_path k x0 X1 V1 st1 X2 V2 st2 t :
  spring_PE ROps k x0 (pose_path X1 V1 t) st1 (pose_path X2 V2 t) st2 =
  let '(a,b,c) := tp_r ROps X1 st1 X2 st2 in let '(a',b',c') := vrel X1 V1 st1 X2 V2 st2 in
  k * (sqrt ((a+t*a')*(a+t*a') + (b+t*b')*(b+t*b') + (c+t*c')*(c+t*c')) - x0)
    * (sqrt ((a+t*a')*(a+t*a') + (b+t*b')*(b+t*b') + (c+t*c')*(c+t*c')) - x0) / (1+1).
Proof. unfold spring_PE. rewrite r_path. destruct (tp_r ROps X1 st1 X2 st2) as [[a b] c].
  destruct (vrel X1 V1 st1 X2 V2 st2) as [[a' b'] c']. unfold vaff. cbv [two]. vunf. reflexivity. Qed.

(** d/dt PE = - power: the spring is conservative, and (V1, V2 being arbitrary) its body forces are
    minus the gradient of the reported potential energy with respect to rigid motions of the two bodies *)
Lemma spring_power_balance k x0 (X1 X2:Transform R) V1 V2 st1 st2 :
  0 < v3_normSqr ROps (tp_r ROps X1 st1 X2 st2) ->
  let P := spring_F ROps k x0 X1 st1 X2 st2 in
  is_derive (fun t => spring_PE ROps k x0 (pose_path X1 V1 t) st1 (pose_path X2 V2 t) st2) 0
            (- (sv_dot ROps (fst P) V1 + sv_dot ROps (snd P) V2)).
Proof. intros Hd P. subst P. unfold spring_F. rewrite tp_pair_power. unfold spring_f.
  eapply is_derive_ext. { intros t. symmetry. apply spring_PE_path. }
  revert Hd. destruct (tp_r ROps X1 st1 X2 st2) as [[a b] c]. destruct (vrel X1 V1 st1 X2 V2 st2) as [[a' b'] c'].
  intros Hd. cbv beta iota. replace (- v3_dot ROps _ _) with (k * (sqrt (a*a+b*b+c*c) - x0) / sqrt (a*a+b*b+c*c) * (a*a' + b*b' + c*c')).
  - apply spring_scalar_jet. revert Hd. vunf. auto.
  - vunf. unfold Rdiv. ring. Qed.

(** ** TwoPointLinearDamper: PE = 0, all power is dissipation  - c (vrel . dhat)^2 <= 0 *)
Lemma damper_power cc (X1 X2:Transform R) V1 V2 st1 st2 :
  let P := damper_F ROps cc X1 V1 st1 X2 V2 st2 in
  let s := v3_dot ROps (vrel X1 V1 st1 X2 V2 st2) (v3_unit ROps (tp_r ROps X1 st1 X2 st2)) in
  sv_dot ROps (fst P) V1 + sv_dot ROps (snd P) V2 = - cc * (s * s).
Proof. cbv zeta. unfold damper_F. rewrite tp_pair_power. unfold damper_f. fold (vrel X1 V1 st1 X2 V2 st2).
  set (vr := vrel _ _ _ _ _ _). set (d := v3_unit ROps _). dv. vunf. ring. Qed.
Lemma damper_dissipates cc (X1 X2:Transform R) V1 V2 st1 st2 : 0 <= cc ->
  let P := damper_F ROps cc X1 V1 st1 X2 V2 st2 in
  sv_dot ROps (fst P) V1 + sv_dot ROps (snd P) V2 <= 0.
Proof. intros Hc. cbv zeta. rewrite damper_power. set (s := v3_dot _ _ _). generalize (Rle_0_sqr s). unfold Rsqr. nra. Qed.
Lemma damper_no_damping (X1 X2:Transform R) V1 V2 st1 st2 :
  let P := damper_F ROps 0 X1 V1 st1 X2 V2 st2 in
  sv_dot ROps (fst P) V1 + sv_dot ROps (snd P) V2 = 0.
Proof. cbv zeta. rewrite damper_power. ring. Qed.
