(** C12 proofs: power delivered by each force element of C13_Model.v versus the time derivative of the
    potential energy it reports, over the reals.

    Rigid motion enters as first-order pose jets: along [pose_path X V t] = (R + t [w]x R, p + t v) a body
    with pose X = (R,p) moves with spatial velocity V = (w,v).  "d/dt PE" is Coquelicot's [is_derive] of
    t |-> PE(poses at t) at t = 0; by the chain rule this is the derivative along any motion through X
    with velocity V (DESIGN 2.2).  Statement shape for every element:
        d/dt PE = - (power delivered) + dissipation,   dissipation <= 0,   dissipation = 0 without damping. *)
From Coq Require Import ZArith Reals Lra Lia List Psatz.
From Coquelicot Require Import Coquelicot.
Require Import Num Vec Tactics C13_Model C13_Proofs.
Import ListNotations.
Local Open Scope R_scope.

Ltac munf := cbv [sv_zero xf_id two shift_to st_G pt_G tp_r tp_pair st_vel v3_unit spring_f spring_F spring_PE
  damper_f damper_F tpconst_f tpconst_F constforce_F consttorque_F v3_mul v3_sum]; vunf.
Ltac dv := repeat match goal with
  | v : Vec3 R |- _ => destruct v as [[? ?] ?]
  | v : Mat33 R |- _ => destruct v as [[? ?] ?]
  | v : SpatialVec R |- _ => destruct v as [? ?]
  | v : Transform R |- _ => destruct v as [? ?]
  | v : (R * R)%type |- _ => destruct v as [? ?]
  | v : (_ * _ * _)%type |- _ => destruct v as [[? ?] ?]
  end.

(** ** rigid-motion jets *)
Definition pose_path (X:Transform R) (V:SpatialVec R) (t:R) : Transform R :=
  (m33_add ROps (fst X) (m33_scale ROps t (m33_mul ROps (m33_crossMat ROps (fst V)) (fst X))),
   v3_add ROps (snd X) (v3_scale ROps t (snd V))).
Definition vaff (a b:Vec3 R) (t:R) : Vec3 R := v3_add ROps a (v3_scale ROps t b).

Lemma st_path X V st t : st_G ROps (pose_path X V t) st = vaff (st_G ROps X st) (v3_cross ROps (fst V) (st_G ROps X st)) t.
Proof. dv. unfold pose_path, vaff. munf. teq; ring. Qed.
Lemma pt_path X V st t : pt_G ROps (pose_path X V t) st = vaff (pt_G ROps X st) (st_vel ROps X V st) t.
Proof. dv. unfold pose_path, vaff. munf. teq; ring. Qed.
Lemma vaff_sub a b a' b' t : v3_sub ROps (vaff a b t) (vaff a' b' t) = vaff (v3_sub ROps a a') (v3_sub ROps b b') t.
Proof. dv. unfold vaff. vunf. teq; ring. Qed.
(** the vector between the stations moves with the relative station velocity *)
Definition vrel X1 V1 st1 X2 V2 st2 : Vec3 R := v3_sub ROps (st_vel ROps X2 V2 st2) (st_vel ROps X1 V1 st1).
Lemma r_path X1 V1 st1 X2 V2 st2 t :
  tp_r ROps (pose_path X1 V1 t) st1 (pose_path X2 V2 t) st2 = vaff (tp_r ROps X1 st1 X2 st2) (vrel X1 V1 st1 X2 V2 st2) t.
Proof. unfold tp_r. rewrite !pt_path. apply vaff_sub. Qed.

(** power delivered to two bodies by +f at station 1 and -f at station 2 *)
Lemma tp_pair_power (X1 X2:Transform R) V1 V2 st1 st2 f :
  let P := tp_pair ROps (st_G ROps X1 st1) (st_G ROps X2 st2) f in
  sv_dot ROps (fst P) V1 + sv_dot ROps (snd P) V2 = - v3_dot ROps f (vrel X1 V1 st1 X2 V2 st2).
Proof. dv. unfold vrel. munf. ring. Qed.

(** ** TwoPointLinearSpring *)
Lemma spring_scalar_jet a b c a' b' c' k x0 : 0 < a*a + b*b + c*c ->
  is_derive (fun t => k * (sqrt ((a+t*a')*(a+t*a') + (b+t*b')*(b+t*b') + (c+t*c')*(c+t*c')) - x0)
                        * (sqrt ((a+t*a')*(a+t*a') + (b+t*b')*(b+t*b') + (c+t*c')*(c+t*c')) - x0) / (1+1)) 0
            (k * (sqrt (a*a+b*b+c*c) - x0) / sqrt (a*a+b*b+c*c) * (a*a' + b*b' + c*c')).
Proof. intros H. assert (Hs : sqrt (a*a+b*b+c*c) <> 0) by (apply Rgt_not_eq, sqrt_lt_R0; auto).
  auto_derive.
  - rewrite !Rmult_0_l, !Rplus_0_r. repeat split; auto.
  - rewrite !Rmult_0_l, !Rplus_0_r. field. auto. Qed.

Lemma spring_PE_path k x0 X1 V1 st1 X2 V2 st2 t :
  spring_PE ROps k x0 (pose_path X1 V1 t) st1 (pose_path X2 V2 t) st2 =
  let '(a,b,c) := tp_r ROps X1 st1 X2 st2 in let '(a',b',c') := vrel X1 V1 st1 X2 V2 st2 in
  k * (sqrt ((a+t*a')*(a+t*a') + (b+t*b')*(b+t*b') + (c+t*c')*(c+t*c')) - x0)
    * (sqrt ((a+t*a')*(a+t*a') + (b+t*b')*(b+t*b') + (c+t*c')*(c+t*c')) - x0) / (1+1).
Proof. unfold spring_PE. rewrite r_path. destruct (tp_r ROps X1 st1 X2 st2) as [[a b] c].
  destruct (vrel X1 V1 st1 X2 V2 st2) as [[a' b'] c']. unfold vaff. cbv [two]. vunf. reflexivity. Qed.

(** d/dt PE = - power: the spring is conservative, and (V1, V2 being arbitrary) its body forces are
    minus the gradient of the reported potential energy with respect to rigid motions of the two bodies *)
Lemma spring_power_balance k x0 (X1 X2:Transform R) V1 V2 st1 st2 :
  0 < v3_normSqr ROps (tp_r ROps X1 st1 X2 st2) ->
  let P := spring_F ROps k x0 X1 st1 X2 st2 in
  is_derive (fun t => spring_PE ROps k x0 (pose_path X1 V1 t) st1 (pose_path X2 V2 t) st2) 0
            (- (sv_dot ROps (fst P) V1 + sv_dot ROps (snd P) V2)).
Proof. intros Hd P. subst P. unfold spring_F. rewrite tp_pair_power. unfold spring_f.
  eapply is_derive_ext. { intros t. symmetry. apply spring_PE_path. }
  revert Hd. destruct (tp_r ROps X1 st1 X2 st2) as [[a b] c]. destruct (vrel X1 V1 st1 X2 V2 st2) as [[a' b'] c'].
  intros Hd. cbv beta iota. replace (- - v3_dot ROps _ _) with (k * (sqrt (a*a+b*b+c*c) - x0) / sqrt (a*a+b*b+c*c) * (a*a' + b*b' + c*c')).
  - apply spring_scalar_jet. revert Hd. vunf. auto.
  - vunf. unfold Rdiv. ring. Qed.

(** ** TwoPointLinearDamper: PE = 0, all power is dissipation  - c (vrel . dhat)^2 <= 0 *)
Lemma damper_power cc (X1 X2:Transform R) V1 V2 st1 st2 :
  let P := damper_F ROps cc X1 V1 st1 X2 V2 st2 in
  let s := v3_dot ROps (vrel X1 V1 st1 X2 V2 st2) (v3_unit ROps (tp_r ROps X1 st1 X2 st2)) in
  sv_dot ROps (fst P) V1 + sv_dot ROps (snd P) V2 = - cc * (s * s).
Proof. cbv zeta. unfold damper_F. rewrite tp_pair_power. unfold damper_f. fold (vrel X1 V1 st1 X2 V2 st2).
  set (vr := vrel _ _ _ _ _ _). set (d := v3_unit ROps _). dv. vunf. ring. Qed.
Lemma damper_dissipates cc (X1 X2:Transform R) V1 V2 st1 st2 : 0 <= cc ->
  let P := damper_F ROps cc X1 V1 st1 X2 V2 st2 in
  sv_dot ROps (fst P) V1 + sv_dot ROps (snd P) V2 <= 0.
Proof. intros Hc. cbv zeta. rewrite damper_power. set (s := v3_dot _ _ _). generalize (Rle_0_sqr s). unfold Rsqr. nra. Qed.
Lemma damper_no_damping (X1 X2:Transform R) V1 V2 st1 st2 :
  let P := damper_F ROps 0 X1 V1 st1 X2 V2 st2 in
  sv_dot ROps (fst P) V1 + sv_dot ROps (snd P) V2 = 0.
Proof. cbv zeta. rewrite damper_power. ring. Qed.

(** ** elements that report PE = 0 and are energy sources (DESIGN 7.17): their power can be positive,
    so "d/dt PE = - power + dissipation with dissipation <= 0" is false for them: with PE = 0 the
    dissipation term is the power itself. *)
Lemma tpconst_power f (X1 X2:Transform R) V1 V2 st1 st2 :
  let P := tpconst_F ROps f X1 st1 X2 st2 in
  sv_dot ROps (fst P) V1 + sv_dot ROps (snd P) V2 = v3_dot ROps (tpconst_f ROps f X1 st1 X2 st2) (vrel X1 V1 st1 X2 V2 st2).
Proof. cbv zeta. unfold tpconst_F. generalize (tpconst_f ROps f X1 st1 X2 st2). intros g. dv. unfold vrel. munf. match goal with |- ?a = ?b => change (@eq R a b) end. ring. Qed.
Definition Xat (p:Vec3 R) : Transform R := (m33_id ROps, p).
Definition O3 : Vec3 R := (0,0,0).
Definition Vlin (v:Vec3 R) : SpatialVec R := (O3, v).
Lemma sqrt_eq_1 x : x = 1 -> sqrt x = 1.
Proof. intros ->. apply sqrt_1. Qed.
(** witness: body 2 at (1,0,0) moving away from Ground's origin at unit speed, force 1: power +1, PE stays 0 *)
Lemma tpconst_dissipation_sign_refuted : exists f X1 V1 st1 X2 V2 st2,
  let P := tpconst_F ROps f X1 st1 X2 st2 in
  snd (ev_tpconst ROps [X1;X2] 0 0 1 st1 st2 f) = 0 /\
  (forall t, snd (ev_tpconst ROps [pose_path X1 V1 t; pose_path X2 V2 t] 0 0 1 st1 st2 f) = 0) /\
  0 < sv_dot ROps (fst P) V1 + sv_dot ROps (snd P) V2.
Proof. exists 1, (Xat O3), (Vlin O3), O3, (Xat (1,0,0)), (Vlin (1,0,0)), O3. cbv zeta. split; [reflexivity|]. split; [reflexivity|].
  rewrite tpconst_power. unfold vrel, tpconst_f, Xat, Vlin, O3. munf.
  replace (sqrt _) with 1. lra. symmetry. apply sqrt_eq_1. ring. Qed.

Lemma constforce_power (X:Transform R) V st f :
  sv_dot ROps (constforce_F ROps X st f) V = v3_dot ROps f (st_vel ROps X V st).
Proof. dv. munf. ring. Qed.
Lemma constforce_dissipation_sign_refuted : exists X V st f,
  (forall t, snd (ev_constforce ROps [pose_path X V t] 0 0 st f) = 0) /\ 0 < sv_dot ROps (constforce_F ROps X st f) V.
Proof. exists (Xat O3), (Vlin (1,0,0)), O3, (1,0,0). split; [reflexivity|]. rewrite constforce_power. unfold Xat, Vlin, O3. munf. lra. Qed.
Lemma consttorque_dissipation_sign_refuted : exists (X:Transform R) V tq,
  (forall t, snd (ev_consttorque ROps [pose_path X V t] 0 0 tq) = 0) /\ 0 < sv_dot ROps (consttorque_F ROps tq) V.
Proof. exists (Xat O3), ((1,0,0),O3), (1,0,0). split; [reflexivity|]. unfold O3. munf. lra. Qed.
(** MobilityConstantForce: the reported PE is 0 whatever the coordinate value, the power f u can be positive *)
Lemma mconst_dissipation_sign_refuted : exists f u : R,
  snd (ev_mconst ROps 1 1 0 f) = 0 /\ 0 < f * u.
Proof. exists 1, 1. split; [reflexivity|]. lra. Qed.

(** ** mobility elements, on coordinates with qdot = u (their documented domain): q moves as q + t u *)
Lemma mspring_power_balance k q0 q u :
  is_derive (fun t => mspring_PE ROps k q0 (q + t*u)) 0 (- (mspring_f ROps k q0 q * u)).
Proof. unfold mspring_PE, mspring_f, two. vunf. auto_derive; auto. rewrite ?Rmult_0_l, ?Rplus_0_r. field. Qed.
(** generalized force = - dPE/dq *)
Lemma mspring_force_is_minus_gradient k q0 q :
  is_derive (fun x => mspring_PE ROps k q0 x) q (- mspring_f ROps k q0 q).
Proof. unfold mspring_PE, mspring_f, two. vunf. auto_derive; auto. field. Qed.
Lemma mdamper_dissipates c u : 0 <= c -> mdamper_f ROps c u * u <= 0.
Proof. intros H. unfold mdamper_f. vunf. generalize (Rle_0_sqr u). unfold Rsqr. nra. Qed.
Lemma mdamper_no_damping u : mdamper_f ROps 0 u * u = 0.
Proof. unfold mdamper_f. vunf. ring. Qed.

(** GlobalDamper: power = - c |u|^2 *)
Lemma globaldamper_power c us : dot_s ROps (globaldamper_f ROps c us) us = - c * dot_s ROps us us.
Proof. induction us as [|u us IH]; cbn [globaldamper_f map dot_s]. vunf; ring.
  unfold globaldamper_f in IH. rewrite IH. vunf. ring. Qed.
Lemma dot_s_nonneg us : 0 <= dot_s ROps us us.
Proof. induction us as [|u us IH]; cbn [dot_s]. vunf; lra. set (d := dot_s ROps us us) in *. vunf. generalize (Rle_0_sqr u). unfold Rsqr. lra. Qed.
Lemma globaldamper_dissipates c us : 0 <= c -> dot_s ROps (globaldamper_f ROps c us) us <= 0.
Proof. intros H. rewrite globaldamper_power. generalize (dot_s_nonneg us). nra. Qed.

(** ** UniformGravity and Gravity: PE is affine along rigid motions, d/dt PE = - power, no dissipation *)
Definition gbody_path (b:gbody (T:=R)) (V:SpatialVec R) (t:R) : gbody (T:=R) :=
  let '(m,com,X,ex) := b in (m,com,pose_path X V t,ex).
Definition gbody_power (gvec:Vec3 R) (bV:gbody (T:=R) * SpatialVec R) : R := sv_dot ROps (grav_body_F ROps gvec (fst bV)) (snd bV).
Fixpoint gpower (gvec:Vec3 R) (bsV:list (gbody (T:=R) * SpatialVec R)) : R :=
  match bsV with [] => 0 | bV :: r => gbody_power gvec bV + gpower gvec r end.
Definition gpath (t:R) (bV:gbody (T:=R) * SpatialVec R) := gbody_path (fst bV) (snd bV) t.

Lemma grav_body_PE_path gvec zoff pe b V t :
  grav_body_PE ROps gvec zoff pe (gbody_path b V t) = grav_body_PE ROps gvec zoff pe b - t * gbody_power gvec (b,V).
Proof. destruct b as [[[m com] X] ex]. unfold gbody_power, gbody_path, grav_body_PE, grav_body_F. cbn [fst snd].
  destruct ex. { unfold sv_zero. vunf. dv. ring. }
  rewrite pt_path. dv. unfold vaff. munf. ring. Qed.
Lemma grav_body_PE_shift gvec zoff pe c b : grav_body_PE ROps gvec zoff (pe + c) b = grav_body_PE ROps gvec zoff pe b + c.
Proof. destruct b as [[[m com] X] ex]. unfold grav_body_PE. destruct ex; vunf; ring. Qed.
Lemma grav_fold_shift gvec zoff bs : forall pe c,
  fold_left (grav_body_PE ROps gvec zoff) bs (pe + c) = fold_left (grav_body_PE ROps gvec zoff) bs pe + c.
Proof. induction bs as [|b bs IH]; intros pe c; cbn [fold_left]. reflexivity. rewrite grav_body_PE_shift. apply IH. Qed.
Lemma grav_PE_path_gen gvec zoff t bsV : forall pe,
  fold_left (grav_body_PE ROps gvec zoff) (map (gpath t) bsV) pe =
  fold_left (grav_body_PE ROps gvec zoff) (map fst bsV) pe - t * gpower gvec bsV.
Proof. induction bsV as [|[b V] r IH]; intros pe; cbn [map fold_left gpower fst snd]. ring.
  change (gpath t (b,V)) with (gbody_path b V t). rewrite grav_body_PE_path.
  replace (grav_body_PE ROps gvec zoff pe b - t * gbody_power gvec (b, V)) with (grav_body_PE ROps gvec zoff pe b + (- (t * gbody_power gvec (b, V)))) by ring.
  rewrite grav_fold_shift. rewrite IH. ring. Qed.
Lemma grav_power_tail gvec bsV :
  power ROps (map (grav_body_F ROps gvec) (map fst bsV)) (map snd bsV) = gpower gvec bsV.
Proof. induction bsV as [|[b V] r IH]; cbn [map power gpower fst snd]. reflexivity.
  rewrite IH. unfold gbody_power. cbn [fst snd]. reflexivity. Qed.
Lemma grav_power_is_gpower gvec V0 bsV :
  power ROps (grav_F ROps gvec (map fst bsV)) (V0 :: map snd bsV) = gpower gvec bsV.
Proof. unfold grav_F. cbn [power]. rewrite grav_power_tail.
  replace (sv_dot ROps (sv_zero ROps) V0) with 0 by (dv; unfold sv_zero; vunf; ring). vunf. ring. Qed.
(** bodies 1..n-1 given with their velocities, Ground's velocity V0 arbitrary (its force is zero) *)
Lemma gravity_power_balance gvec zoff V0 (bsV:list (gbody (T:=R) * SpatialVec R)) :
  is_derive (fun t => grav_PE ROps gvec zoff (map (gpath t) bsV)) 0
            (- power ROps (grav_F ROps gvec (map fst bsV)) (V0 :: map snd bsV)).
Proof. rewrite grav_power_is_gpower. unfold grav_PE.
  eapply is_derive_ext. { intros t. symmetry. apply grav_PE_path_gen. }
  auto_derive; auto. ring. Qed.
(** the two gravity elements are instances *)
Lemma uniformgravity_power_balance nu g zeroHeight V0 (bsV:list (gbody (T:=R) * SpatialVec R)) :
  is_derive (fun t => snd (ev_uniformgravity ROps nu g zeroHeight (map (gpath t) bsV))) 0
            (- power ROps (fst (fst (ev_uniformgravity ROps nu g zeroHeight (map fst bsV)))) (V0 :: map snd bsV)).
Proof. apply gravity_power_balance. Qed.
Lemma gravity_element_power_balance nu d g z V0 (bsV:list (gbody (T:=R) * SpatialVec R)) :
  is_derive (fun t => snd (ev_gravity ROps nu d g z (map (gpath t) bsV))) 0
            (- power ROps (fst (fst (ev_gravity ROps nu d g z (map fst bsV)))) (V0 :: map snd bsV)).
Proof. apply gravity_power_balance. Qed.

(** ** MobilityLinearStop, per open region of the coordinate (qdot = u) *)
Lemma neqb_refl x : neqb ROps x x = true.
Proof. unfold neqb. cbn [nleb ROps]. rewrite (proj2 (Rleb_true x x)) by lra. reflexivity. Qed.
Lemma neqb_neq x y : x <> y -> neqb ROps x y = false.
Proof. intros H. unfold neqb. cbn [nleb ROps]. destruct (Rle_dec x y) as [A|A].
  - rewrite (proj2 (Rleb_true x y) A). rewrite (proj2 (Rleb_false y x)) by lra. reflexivity.
  - rewrite (proj2 (Rleb_false x y)) by lra. reflexivity. Qed.
Lemma ltb_t x y : x < y -> nltb ROps x y = true.   Proof. intros; cbn [nltb ROps]; apply Rltb_true; auto. Qed.
Lemma ltb_f x y : y <= x -> nltb ROps x y = false. Proof. intros; cbn [nltb ROps]; apply Rltb_false; auto. Qed.

Lemma locally_lt_affine a q u : a < q -> locally 0 (fun t => a < q + t*u).
Proof. intros H. assert (He : 0 < (q-a)/(Rabs u + 1)).
  { apply Rdiv_lt_0_compat. lra. generalize (Rabs_pos u); lra. }
  exists (mkposreal _ He). intros t Ht. unfold ball in Ht. cbn in Ht. unfold AbsRing_ball, abs, minus, plus, opp in Ht. cbn in Ht.
  rewrite Ropp_0, Rplus_0_r in Ht.
  assert (B : Rabs (t*u) < q - a).
  { rewrite Rabs_mult. generalize (Rabs_pos u) (Rabs_pos t); intros.
    apply Rle_lt_trans with (Rabs t * (Rabs u + 1)). nra.
    apply Rlt_le_trans with ((q-a)/(Rabs u + 1) * (Rabs u + 1)). apply Rmult_lt_compat_r; lra.
    right. field. lra. }
  generalize (Rle_abs (- (t*u))). rewrite Rabs_Ropp. lra. Qed.
Lemma locally_gt_affine a q u : q < a -> locally 0 (fun t => q + t*u < a).
Proof. intros H. generalize (locally_lt_affine (-a) (-q) (-u) ltac:(lra)). apply filter_imp. intros t. lra. Qed.

Lemma mstop_PE_upper k qlo qhi q : k <> 0 -> qhi < q -> mstop_PE ROps k qlo qhi q = k * (q-qhi) * (q-qhi) / (1+1).
Proof. intros Hk H. unfold mstop_PE. rewrite neqb_neq by auto. rewrite ltb_t by auto. reflexivity. Qed.
Lemma mstop_PE_lower k qlo qhi q : k <> 0 -> qlo <= qhi -> q < qlo -> mstop_PE ROps k qlo qhi q = k * (q-qlo) * (q-qlo) / (1+1).
Proof. intros Hk Hb H. unfold mstop_PE. rewrite neqb_neq by auto. rewrite ltb_f by lra. rewrite ltb_t by auto. reflexivity. Qed.
Lemma mstop_PE_inside k qlo qhi q : qlo <= q -> q <= qhi -> mstop_PE ROps k qlo qhi q = 0.
Proof. intros A B. unfold mstop_PE. destruct (neqb ROps k (n0 ROps)); auto. rewrite !ltb_f by lra. reflexivity. Qed.
Lemma mstop_PE_k0 qlo qhi q : mstop_PE ROps 0 qlo qhi q = 0.
Proof. unfold mstop_PE. cbn [n0 ROps]. rewrite neqb_refl. reflexivity. Qed.

(** dissipation term of the stop: what is left of the power after the change of PE is accounted for *)
Definition mstop_dPE (k qlo qhi q u:R) : R :=
  if Rlt_dec qhi q then k*(q-qhi)*u else if Rlt_dec q qlo then k*(q-qlo)*u else 0.
Definition mstop_diss (k d qlo qhi q u:R) : R := mstop_f ROps k d qlo qhi q u * u + mstop_dPE k qlo qhi q u.

Lemma mstop_dPE_is_derivative k qlo qhi q u : 0 <= k -> qlo <= qhi -> q <> qlo -> q <> qhi ->
  is_derive (fun t => mstop_PE ROps k qlo qhi (q + t*u)) 0 (mstop_dPE k qlo qhi q u).
Proof. intros Hk Hb N1 N2. unfold mstop_dPE.
  destruct (Req_dec k 0) as [->|K0].
  { eapply is_derive_ext. { intros t. symmetry. apply mstop_PE_k0. }
    replace (if Rlt_dec qhi q then _ else _) with 0 by (destruct (Rlt_dec qhi q); destruct (Rlt_dec q qlo); ring). auto_derive; auto; try ring. }
  destruct (Rlt_dec qhi q) as [A|A].
  - eapply is_derive_ext_loc.
    { generalize (locally_lt_affine qhi q u A). apply filter_imp. intros t Ht. symmetry. apply mstop_PE_upper; auto. }
    auto_derive; auto. rewrite ?Rmult_0_l, ?Rplus_0_r. field.
  - destruct (Rlt_dec q qlo) as [B|B].
    + eapply is_derive_ext_loc.
      { generalize (locally_gt_affine qlo q u B). apply filter_imp. intros t Ht. symmetry. apply mstop_PE_lower; auto. }
      auto_derive; auto. rewrite ?Rmult_0_l, ?Rplus_0_r. field.
    + assert (A' : q < qhi) by lra. assert (B' : qlo < q) by lra.
      eapply is_derive_ext_loc.
      { generalize (filter_and _ _ (locally_lt_affine qlo q u B') (locally_gt_affine qhi q u A')). apply filter_imp.
        intros t [H1 H2]. symmetry. apply mstop_PE_inside; lra. }
      auto_derive; auto; try ring. Qed.

Lemma mstop_diss_nonpos k d qlo qhi q u : 0 <= k -> 0 <= d -> qlo <= qhi -> mstop_diss k d qlo qhi q u <= 0.
Proof. intros Hk Hd Hb. unfold mstop_diss, mstop_dPE, mstop_f.
  destruct (Req_dec k 0) as [->|K0].
  { cbn [n0 ROps]. rewrite neqb_refl. destruct (Rlt_dec qhi q); destruct (Rlt_dec q qlo); lra. }
  rewrite (neqb_neq k) by auto.
  set (qd := if neqb ROps d (n0 ROps) then n0 ROps else u).
  assert (Qd : d * qd = d * u).
  { subst qd. destruct (Req_dec d 0) as [->|D0]. cbn [n0 ROps]; rewrite neqb_refl; cbn [n0 ROps]; ring. rewrite neqb_neq by auto. reflexivity. }
  destruct (Rlt_dec qhi q) as [A|A].
  - rewrite ltb_t by auto. unfold nmin. vunf. fold qd. rewrite Qd.
    destruct (Rlt_dec (- (k * (q - qhi) * (1 + d * u))) 0) as [C|C].
    + rewrite (proj2 (Rltb_true _ _) C). assert (0 <= k * (q-qhi) * d * (u*u)) by (apply Rmult_le_pos; [apply Rmult_le_pos; [apply Rmult_le_pos|]|]; nra). nra.
    + rewrite (proj2 (Rltb_false _ _)) by lra. assert (P : 0 < k*(q-qhi)) by nra.
      assert (1 + d*u <= 0) by nra. assert (u <= 0) by nra. nra.
  - rewrite ltb_f by lra. destruct (Rlt_dec q qlo) as [B|B].
    + rewrite ltb_t by auto. unfold nmax. vunf. fold qd. rewrite Qd.
      destruct (Rlt_dec 0 (- (k * (q - qlo) * (1 - d * u)))) as [C|C].
      * rewrite (proj2 (Rltb_true _ _) C). assert (0 <= k * (qlo-q) * d * (u*u)) by (apply Rmult_le_pos; [apply Rmult_le_pos; [apply Rmult_le_pos|]|]; nra). nra.
      * rewrite (proj2 (Rltb_false _ _)) by lra. assert (P : 0 < k*(qlo-q)) by nra.
        assert (1 - d*u <= 0) by nra. assert (0 <= u) by nra. nra.
    + rewrite ltb_f by lra. vunf. lra. Qed.

Lemma mstop_diss_zero_without_damping k qlo qhi q u : 0 <= k -> qlo <= qhi -> mstop_diss k 0 qlo qhi q u = 0.
Proof. intros Hk Hb. unfold mstop_diss, mstop_dPE, mstop_f.
  destruct (Req_dec k 0) as [->|K0].
  { cbn [n0 ROps]. rewrite neqb_refl. destruct (Rlt_dec qhi q); destruct (Rlt_dec q qlo); lra. }
  rewrite (neqb_neq k) by auto. cbn [n0 ROps]. rewrite (neqb_refl 0).
  destruct (Rlt_dec qhi q) as [A|A].
  - rewrite ltb_t by auto. unfold nmin. vunf. assert (P : 0 < k*(q-qhi)) by nra.
    rewrite (proj2 (Rltb_true _ _)) by nra. ring.
  - rewrite ltb_f by lra. destruct (Rlt_dec q qlo) as [B|B].
    + rewrite ltb_t by auto. unfold nmax. vunf. assert (P : 0 < k*(qlo-q)) by nra.
      rewrite (proj2 (Rltb_true _ _)) by nra. ring.
    + rewrite ltb_f by lra. vunf. ring. Qed.

(** the statement of the property for the stop, away from the two switching points q = qLow, q = qHigh *)
Lemma mstop_power_balance_partial k d qlo qhi q u : 0 <= k -> 0 <= d -> qlo <= qhi -> q <> qlo -> q <> qhi ->
  is_derive (fun t => mstop_PE ROps k qlo qhi (q + t*u)) 0 (- (mstop_f ROps k d qlo qhi q u * u) + mstop_diss k d qlo qhi q u)
  /\ mstop_diss k d qlo qhi q u <= 0 /\ (d = 0 -> mstop_diss k d qlo qhi q u = 0).
Proof. intros Hk Hd Hb N1 N2. split; [|split].
  - replace (- (mstop_f ROps k d qlo qhi q u * u) + mstop_diss k d qlo qhi q u) with (mstop_dPE k qlo qhi q u) by (unfold mstop_diss; ring).
    apply mstop_dPE_is_derivative; auto.
  - apply mstop_diss_nonpos; auto.
  - intros ->. apply mstop_diss_zero_without_damping; auto. Qed.


(** ** LinearBushing (partial): the power delivered to the two bodies equals the generalized force times the
    coordinate rates the element infers, f . qdot = -(K q + C qdot) . qdot; hence
    power = -(K q).qdot - sum c_i qdot_i^2, whose second term is a dissipation <= 0 that vanishes for C = 0.
    Not proved here: that (K q).qdot is d/dt of the reported PE = q'Kq/2, i.e. that the inferred qdot is the time
    derivative of the inferred Euler angles/translation along the motion (C28 proves the N matrix part). *)
Lemma dot_mulv (A:Mat33 R) x y : v3_dot ROps (m33_mulv ROps A x) y = v3_dot ROps x (m33_Tmulv ROps A y).
Proof. dv. vunf. ring. Qed.
Lemma dot_Tmulv (A:Mat33 R) x y : v3_dot ROps (m33_Tmulv ROps A x) y = v3_dot ROps x (m33_mulv ROps A y).
Proof. dv. vunf. ring. Qed.
Lemma Tmulv_T (A:Mat33 R) v : m33_Tmulv ROps (m33_T A) v = m33_mulv ROps A v.
Proof. dv. vunf. teq; ring. Qed.
Lemma bush_pair_power pB1F pB2M pFM m f (V1 V2:SpatialVec R) :
  let P := bush_pair pB1F pB2M pFM m f in
  sv_dot ROps (fst P) V1 + sv_dot ROps (snd P) V2 =
  v3_dot ROps m (v3_sub ROps (fst V2) (fst V1)) +
  v3_dot ROps f (v3_sub ROps (v3_sub ROps (v3_add ROps (snd V2) (v3_cross ROps (fst V2) pB2M))
                                          (v3_add ROps (snd V1) (v3_cross ROps (fst V1) pB1F)))
                             (v3_cross ROps (fst V1) pFM)).
Proof. dv. unfold bush_pair. vunf. ring. Qed.

Lemma bush_wFM (X1 X2 XB1F XB2M:Transform R) w : is_rot (fst X1) -> is_rot (fst XB1F) ->
  m33_Tmulv ROps (fst (bush_XFM ROps (bush_XGF ROps X1 XB1F) (bush_XGM ROps X2 XB2M))) (m33_Tmulv ROps (fst (bush_XGF ROps X1 XB1F)) w)
  = m33_Tmulv ROps (fst (bush_XGM ROps X2 XB2M)) w.
Proof. intros H1 H2. unfold bush_XFM. cbn [fst]. rewrite Tmulv_mul, Tmulv_T.
  unfold bush_XGF, xf_compose. cbn [fst]. rewrite rot2_cancel by auto. reflexivity. Qed.
Lemma bushing_power_is_generalized_power_partial (X1 X2:Transform R) V1 V2 XB1F XB2M qr (f:C13_Model.Vec6) :
  is_rot (fst X1) -> is_rot (fst XB1F) ->
  let P := bush_F_of_f ROps X1 X2 XB1F XB2M qr f in
  let qd := bush_qdot ROps X1 X2 V1 V2 XB1F XB2M qr in
  sv_dot ROps (fst P) V1 + sv_dot ROps (snd P) V2 = v3_dot ROps (fst f) (fst qd) + v3_dot ROps (snd f) (snd qd).
Proof. intros H1 H2. cbv zeta. rewrite bush_F_is_pair, bush_pair_power. unfold bush_qdot. cbn [fst snd].
  rewrite bush_wFM by auto. rewrite !dot_mulv. rewrite dot_Tmulv. unfold sv_sub. cbn [fst snd]. reflexivity. Qed.

Lemma bushing_power_balance_partial (X1 X2:Transform R) V1 V2 XB1F XB2M (k c:C13_Model.Vec6) qr :
  is_rot (fst X1) -> is_rot (fst XB1F) ->
  let q := bush_q ROps X1 X2 XB1F XB2M qr in
  let qd := bush_qdot ROps X1 X2 V1 V2 XB1F XB2M qr in
  let P := fst (bush_core ROps X1 X2 V1 V2 XB1F XB2M k c qr) in
  let diss := - (v3_dot ROps (v3_mul ROps (fst c) (fst qd)) (fst qd) + v3_dot ROps (v3_mul ROps (snd c) (snd qd)) (snd qd)) in
  sv_dot ROps (fst P) V1 + sv_dot ROps (snd P) V2 =
    - (v3_dot ROps (v3_mul ROps (fst k) (fst q)) (fst qd) + v3_dot ROps (v3_mul ROps (snd k) (snd q)) (snd qd)) + diss
  /\ ((0 <= v3_0 (fst c) /\ 0 <= v3_1 (fst c) /\ 0 <= v3_2 (fst c) /\ 0 <= v3_0 (snd c) /\ 0 <= v3_1 (snd c) /\ 0 <= v3_2 (snd c)) -> diss <= 0)
  /\ (c = ((0,0,0),(0,0,0)) -> diss = 0).
Proof. intros H1 H2. cbv zeta. split; [|split].
  - unfold bush_core. cbn [fst snd]. rewrite bushing_power_is_generalized_power_partial by auto.
    generalize (bush_q ROps X1 X2 XB1F XB2M qr) (bush_qdot ROps X1 X2 V1 V2 XB1F XB2M qr). intros q qd.
    destruct k as [k1 k2], c as [c1 c2], q as [q1 q2], qd as [d1 d2]. dv. unfold bush_f. cbn [fst snd]. munf. cbv [v3_mul]. vunf. ring.
  - generalize (bush_qdot ROps X1 X2 V1 V2 XB1F XB2M qr). intros qd. destruct c as [c1 c2], qd as [d1 d2]. dv. cbn [fst snd]. cbv [v3_mul]. vunf.
    intros (A0 & A1 & A2 & B0 & B1 & B2).
    match goal with |- - (?a*?x*?x + ?b*?y*?y + ?c*?z*?z + (?d*?u*?u + ?e*?v*?v + ?g*?w*?w)) <= 0 =>
      generalize (Rle_0_sqr x) (Rle_0_sqr y) (Rle_0_sqr z) (Rle_0_sqr u) (Rle_0_sqr v) (Rle_0_sqr w) end.
    unfold Rsqr. intros. nra.
  - intros ->. generalize (bush_qdot ROps X1 X2 V1 V2 XB1F XB2M qr). intros qd. destruct qd as [d1 d2]. dv. cbn [fst snd]. cbv [v3_mul]. vunf. ring. Qed.

(** non-vacuity *)
Example spring_hyp_satisfiable : 0 < v3_normSqr ROps (tp_r ROps (Xat O3) O3 (Xat (3,4,0)) O3).
Proof. unfold Xat, O3. munf. lra. Qed.
Example mstop_hyp_satisfiable : 0 <= 50 /\ 0 <= 1/2 /\ -1 <= 1 /\ 2 <> -1 /\ 2 <> 1 /\ mstop_dPE 50 (-1) 1 2 3 = 150.
Proof. repeat split; try lra. unfold mstop_dPE. destruct (Rlt_dec 1 2); lra. Qed.
