(** C13 / C12 / C38: executable model of simbody's built-in non-contact force elements
    (Force.cpp, Force_Gravity.cpp, Force_LinearBushing.cpp), hand-written from the
    calcForce / calcPotentialEnergy bodies as they are in /repo now.

    Each element law is a pure function of what the C++ reads from the State
    (body poses X_GB = (R,p), body velocities V_GB = (w,v), coordinates q, u, qdot)
    and of the element's parameters; it returns what the C++ adds to the force arrays
    (one spatial force per body, taken about that body's origin and expressed in Ground;
    one scalar per mobility) and the reported potential energy.
    Generic in [NumOps]: theorems are about [ROps]; the check extracts this file to OCaml
    and runs it with a float instance against the compiled elements (correspondence).

    No proofs in this file. *)
From Coq Require Import ZArith List Bool.
Require Import Num Vec.
Import ListNotations.

Section M. Context {T:Type} (K:NumOps T).
Local Notation "x + y" := (nadd K x y). Local Notation "x * y" := (nmul K x y). Local Notation "x - y" := (nsub K x y).
Local Notation "x / y" := (ndiv K x y). Local Notation "- x" := (nopp K x).
Local Notation "0" := (n0 K). Local Notation "1" := (n1 K).

Definition two : T := 1 + 1.
Definition sv_zero : SpatialVec T := (v3_zero K, v3_zero K).
Definition xf_id : Transform T := (m33_id K, v3_zero K).
Definition Vec6 := SpatialVec T.            (* (first three, last three) *)

(** ** force arrays *)
Fixpoint add_at (i:nat) (F:SpatialVec T) (l:list (SpatialVec T)) : list (SpatialVec T) :=
  match l with
  | [] => []
  | x :: r => match i with O => sv_add K x F :: r | S j => x :: add_at j F r end
  end.
Fixpoint add_at_s (i:nat) (f:T) (l:list T) : list T :=
  match l with
  | [] => []
  | x :: r => match i with O => (x + f) :: r | S j => x :: add_at_s j f r end
  end.
Definition zeros (n:nat) : list (SpatialVec T) := repeat sv_zero n.
Definition zeros_s (n:nat) : list T := repeat 0 n.
(** an element acting on bodies b1 and b2 (possibly the same body, possibly Ground = 0) *)
Definition apply2 (b1 b2:nat) (F:SpatialVec T * SpatialVec T) (l:list (SpatialVec T)) :=
  add_at b2 (snd F) (add_at b1 (fst F) l).

(** result of an element: body forces, mobility forces, potential energy *)
Definition out : Type := (list (SpatialVec T) * list T * T)%type.

(** ** total force and moment of a set of body forces about a point c
    ([ps] = body origins in Ground; each spatial force is about its own body origin) *)
Definition shift_to (c p:Vec3 T) (F:SpatialVec T) : SpatialVec T :=
  (v3_add K (fst F) (v3_cross K (v3_sub K p c) (snd F)), snd F).
Fixpoint net (c:Vec3 T) (ps:list (Vec3 T)) (Fs:list (SpatialVec T)) : SpatialVec T :=
  match ps, Fs with
  | p :: ps', F :: Fs' => sv_add K (shift_to c p F) (net c ps' Fs')
  | _, _ => sv_zero
  end.
(** power delivered to the bodies: sum of <F_b, V_b> = tau.w + f.v *)
Fixpoint power (Fs Vs:list (SpatialVec T)) : T :=
  match Fs, Vs with
  | F :: Fs', V :: Vs' => sv_dot K F V + power Fs' Vs'
  | _, _ => 0
  end.
Fixpoint dot_s (a b:list T) : T :=
  match a, b with x :: a', y :: b' => x*y + dot_s a' b' | _, _ => 0 end.

(** ** two-point geometry *)
Definition st_G (X:Transform T) (st:Vec3 T) : Vec3 T := m33_mulv K (fst X) st.      (* station vector, in G *)
Definition pt_G (X:Transform T) (st:Vec3 T) : Vec3 T := v3_add K (snd X) (st_G X st). (* station location in G *)
Definition tp_r (X1:Transform T) (st1:Vec3 T) (X2:Transform T) (st2:Vec3 T) : Vec3 T :=
  v3_sub K (pt_G X2 st2) (pt_G X1 st1).
(** force +f1 on body 1 at its station, -f1 on body 2 at its station *)
Definition tp_pair (s1 s2 f1:Vec3 T) : SpatialVec T * SpatialVec T :=
  ((v3_cross K s1 f1, f1), sv_neg K (v3_cross K s2 f1, f1)).
(** station velocity in Ground: v + w x (R st)   (MobilizedBody::findStationVelocityInGround) *)
Definition st_vel (X:Transform T) (V:SpatialVec T) (st:Vec3 T) : Vec3 T :=
  v3_add K (snd V) (v3_cross K (fst V) (st_G X st)).
(** UnitVec3(v): v / |v| *)
Definition v3_unit (v:Vec3 T) : Vec3 T :=
  let n := v3_norm K v in let '(a,b,c) := v in (a/n, b/n, c/n).

(** *** Force::TwoPointLinearSpring *)
Definition spring_f (k x0:T) X1 st1 X2 st2 : Vec3 T :=
  let r := tp_r X1 st1 X2 st2 in
  let d := v3_norm K r in
  let stretch := d - x0 in
  let frcScalar := k * stretch in
  v3_scale K (frcScalar / d) r.
Definition spring_F (k x0:T) X1 st1 X2 st2 :=
  tp_pair (st_G X1 st1) (st_G X2 st2) (spring_f k x0 X1 st1 X2 st2).
Definition spring_PE (k x0:T) X1 st1 X2 st2 : T :=
  let d := v3_norm K (tp_r X1 st1 X2 st2) in
  let stretch := d - x0 in
  k * stretch * stretch / two.

(** *** Force::TwoPointLinearDamper *)
Definition damper_f (c:T) X1 V1 st1 X2 V2 st2 : Vec3 T :=
  let vRel := v3_sub K (st_vel X2 V2 st2) (st_vel X1 V1 st1) in
  let d := v3_unit (tp_r X1 st1 X2 st2) in
  let frc := c * v3_dot K vRel d in
  v3_scale K frc d.
Definition damper_F (c:T) X1 V1 st1 X2 V2 st2 :=
  tp_pair (st_G X1 st1) (st_G X2 st2) (damper_f c X1 V1 st1 X2 V2 st2).

(** *** Force::TwoPointConstantForce: -f2 on body 1, +f2 on body 2, f2 = force * (r/|r|) *)
Definition tpconst_f (force:T) X1 st1 X2 st2 : Vec3 T :=
  let r := tp_r X1 st1 X2 st2 in
  let x := v3_norm K r in
  let '(a,b,c) := r in
  v3_scale K force (a/x, b/x, c/x).
Definition tpconst_F (force:T) X1 st1 X2 st2 : SpatialVec T * SpatialVec T :=
  let f2 := tpconst_f force X1 st1 X2 st2 in
  (sv_neg K (v3_cross K (st_G X1 st1) f2, f2), (v3_cross K (st_G X2 st2) f2, f2)).

(** *** Force::ConstantForce (force given in Ground, applied at a body station), Force::ConstantTorque *)
Definition constforce_F (X:Transform T) (st f:Vec3 T) : SpatialVec T := (v3_cross K (st_G X st) f, f).
Definition consttorque_F (t:Vec3 T) : SpatialVec T := (t, v3_zero K).

(** *** Force::UniformGravity and Force::Gravity: bodies 1..nb-1 as (mass, mass centre in B, X_GB, excluded) *)
Definition gbody : Type := (T * Vec3 T * Transform T * bool)%type.
Definition grav_body_F (gvec:Vec3 T) (b:gbody) : SpatialVec T :=
  let '(m, com, X, ex) := b in
  if ex then sv_zero else
  let frc := v3_scale K m gvec in (v3_cross K (st_G X com) frc, frc).
Definition grav_body_PE (gvec:Vec3 T) (zoff:T) (pe:T) (b:gbody) : T :=
  let '(m, com, X, ex) := b in
  if ex then pe else pe - m * (v3_dot K gvec (pt_G X com) + zoff).
Definition grav_F (gvec:Vec3 T) (bs:list gbody) : list (SpatialVec T) := sv_zero :: map (grav_body_F gvec) bs.
Definition grav_PE (gvec:Vec3 T) (zoff:T) (bs:list gbody) : T := fold_left (grav_body_PE gvec zoff) bs 0.
(** UniformGravity(g, zeroHeight): pe -= m (g.com_G + |g| zeroHeight) (since fix 6270af84);  Gravity(d, g, z): gravity = g d, pe -= m (gravity.com_G + g z) *)
Definition gravity_vec (g:T) (d:Vec3 T) : Vec3 T := v3_scale K g d.

(** *** Force::GlobalDamper *)
Definition globaldamper_f (c:T) (us:list T) : list T := map (fun u => 0 - c*u) us.

(** *** mobility elements (documented only for coordinates with qdot = u) *)
Definition neqb (x y:T) : bool := nleb K x y && nleb K y x.      (* x == y *)
Definition nmin (a b:T) : T := if nltb K b a then b else a.        (* std::min(a,b) *)
Definition nmax (a b:T) : T := if nltb K a b then b else a.        (* std::max(a,b) *)
Definition mspring_f (k q0 q:T) : T := (- k) * (q - q0).
Definition mspring_PE (k q0 q:T) : T := k * ((q - q0) * (q - q0)) / two.
Definition mdamper_f (c u:T) : T := (- c) * u.
Definition mstop_f (k d qlo qhi q qdot:T) : T :=
  if neqb k 0 then 0 else
  let qd := if neqb d 0 then 0 else qdot in
  if nltb K qhi q then
    let x := q - qhi in let fraw := k * x * (1 + d * qd) in nmin 0 (- fraw)
  else if nltb K q qlo then
    let x := q - qlo in let fraw := k * x * (1 - d * qd) in nmax 0 (- fraw)
  else 0.
Definition mstop_PE (k qlo qhi q:T) : T :=
  if neqb k 0 then 0 else
  if nltb K qhi q then let x := q - qhi in k * x * x / two
  else if nltb K q qlo then let x := q - qlo in k * x * x / two
  else 0.

(** *** Force::LinearBushing *)
(** N for body-fixed XYZ angles, angular velocity in the body frame (Rotation::calcNForBodyXYZInBodyFrame) *)
Definition NB_xyz (q:Vec3 T) : Mat33 T :=
  let '(_, q1, q2) := q in
  let s1 := nsin K q1 in let c1 := ncos K q1 in let s2 := nsin K q2 in let c2 := ncos K q2 in
  let ooc1 := 1 / c1 in let s2oc1 := s2 * ooc1 in let c2oc1 := c2 * ooc1 in
  ((c2oc1, - s2oc1, 0), (s2, c2, 0), ((- s1) * c2oc1, s1 * s2oc1, 1)).
(** Rotation::convertRotationToBodyFixedXYZ, regular branch (|cos theta2| > 4 eps) *)
Definition xyz_angles (R:Mat33 T) : Vec3 T :=
  let sq x := x * x in
  let Rsum := nsqrt K ((sq (m33_e R 0 0) + sq (m33_e R 0 1) + sq (m33_e R 1 2) + sq (m33_e R 2 2)) / two) in
  let theta2 := natan2 K (m33_e R 0 2) Rsum in
  let theta1 := natan2 K (- (m33_e R 1 2)) (m33_e R 2 2) in
  let theta3 := natan2 K (- (m33_e R 0 1)) (m33_e R 0 0) in
  (theta1, theta2, theta3).
Definition v3_mul (a b:Vec3 T) : Vec3 T := let '(a0,a1,a2):=a in let '(b0,b1,b2):=b in (a0*b0, a1*b1, a2*b2).
Definition v3_sum (a:Vec3 T) : T := let '(a0,a1,a2):=a in a0+a1+a2.

(** frames F on body 1 and M on body 2 *)
Definition bush_XGF (X1 XB1F:Transform T) := xf_compose K X1 XB1F.
Definition bush_XGM (X2 XB2M:Transform T) := xf_compose K X2 XB2M.
(** X_FM = ~X_GF * X_GM = (R_GF^T R_GM, R_GF^T (p_GM - p_GF)) *)
Definition bush_XFM (XGF XGM:Transform T) : Transform T :=
  (m33_mul K (m33_T (fst XGF)) (fst XGM), m33_Tmulv K (fst XGF) (v3_sub K (snd XGM) (snd XGF))).
(** coordinates q = (XYZ angles of R_FM given as [qr], p_FM) and their rates qdot *)
Definition bush_qdot (X1 X2:Transform T) (V1 V2:SpatialVec T) (XB1F XB2M:Transform T) (qr:Vec3 T) : Vec6 :=
  let XGF := bush_XGF X1 XB1F in let XGM := bush_XGM X2 XB2M in let XFM := bush_XFM XGF XGM in
  let p_B1F_G := m33_mulv K (fst X1) (snd XB1F) in
  let p_B2M_G := m33_mulv K (fst X2) (snd XB2M) in
  let p_FM_G := m33_mulv K (fst XGF) (snd XFM) in
  let V_GF : SpatialVec T := (fst V1, v3_add K (snd V1) (v3_cross K (fst V1) p_B1F_G)) in
  let V_GM : SpatialVec T := (fst V2, v3_add K (snd V2) (v3_cross K (fst V2) p_B2M_G)) in
  let V_FM_G := sv_sub K V_GM V_GF in
  let V_FM : SpatialVec T := (m33_Tmulv K (fst XGF) (fst V_FM_G),
                              m33_Tmulv K (fst XGF) (v3_sub K (snd V_FM_G) (v3_cross K (fst V_GF) p_FM_G))) in
  let w_FM_M := m33_Tmulv K (fst XFM) (fst V_FM) in
  (m33_mulv K (NB_xyz qr) w_FM_M, snd V_FM).
(** generalized force f = -(k q + c qdot) and its mapping to the two bodies *)
Definition bush_f (k c q qd:Vec6) : Vec6 :=
  sv_neg K (sv_add K (v3_mul (fst k) (fst q), v3_mul (snd k) (snd q)) (v3_mul (fst c) (fst qd), v3_mul (snd c) (snd qd))).
Definition bush_F_of_f (X1 X2 XB1F XB2M:Transform T) (qr:Vec3 T) (f:Vec6) : SpatialVec T * SpatialVec T :=
  let XGF := bush_XGF X1 XB1F in let XGM := bush_XGM X2 XB2M in let XFM := bush_XFM XGF XGM in
  let p_B1F_G := m33_mulv K (fst X1) (snd XB1F) in
  let p_B2M_G := m33_mulv K (fst X2) (snd XB2M) in
  let p_FM_G := m33_mulv K (fst XGF) (snd XFM) in
  let mB2_M := m33_Tmulv K (NB_xyz qr) (fst f) in
  let mB2_G := m33_mulv K (fst XGM) mB2_M in
  let fM_G := m33_mulv K (fst XGF) (snd f) in
  let F_GM : SpatialVec T := (mB2_G, fM_G) in
  let F_GF : SpatialVec T := (v3_neg K (v3_add K mB2_G (v3_cross K p_FM_G fM_G)), v3_neg K fM_G) in
  let F_GB2 : SpatialVec T := (v3_add K (fst F_GM) (v3_cross K p_B2M_G (snd F_GM)), snd F_GM) in
  let F_GB1 : SpatialVec T := (v3_add K (fst F_GF) (v3_cross K p_B1F_G (snd F_GF)), snd F_GF) in
  (F_GB1, F_GB2).
Definition bush_q (X1 X2 XB1F XB2M:Transform T) (qr:Vec3 T) : Vec6 :=
  (qr, snd (bush_XFM (bush_XGF X1 XB1F) (bush_XGM X2 XB2M))).
Definition bush_PE_of_q (k q:Vec6) : T :=
  let '(a0,a1,a2) := v3_mul (v3_mul (fst k) (fst q)) (fst q) in
  let '(b0,b1,b2) := v3_mul (v3_mul (snd k) (snd q)) (snd q) in
  (0 + a0 + a1 + a2 + b0 + b1 + b2) / two.
(** the element with the rotational coordinates given ([qr]) ... *)
Definition bush_core (X1 X2:Transform T) (V1 V2:SpatialVec T) (XB1F XB2M:Transform T) (k c:Vec6) (qr:Vec3 T)
  : SpatialVec T * SpatialVec T * T :=
  let q := bush_q X1 X2 XB1F XB2M qr in
  let qd := bush_qdot X1 X2 V1 V2 XB1F XB2M qr in
  (bush_F_of_f X1 X2 XB1F XB2M qr (bush_f k c q qd), bush_PE_of_q k q).
(** ... and as the code computes them from R_FM *)
Definition bush_qr (X1 X2 XB1F XB2M:Transform T) : Vec3 T :=
  xyz_angles (fst (bush_XFM (bush_XGF X1 XB1F) (bush_XGM X2 XB2M))).
Definition bushing (X1 X2:Transform T) (V1 V2:SpatialVec T) (XB1F XB2M:Transform T) (k c:Vec6) :=
  bush_core X1 X2 V1 V2 XB1F XB2M k c (bush_qr X1 X2 XB1F XB2M).

(** ** the elements as they act on a system: [Xs], [Vs] = poses and velocities of all bodies
    (index 0 = Ground), [nu] mobilities.  These are what the correspondence compares with
    Force::calcForceContribution / calcPotentialEnergyContribution. *)
Definition getX (Xs:list (Transform T)) (b:nat) := nth b Xs xf_id.
Definition getV (Vs:list (SpatialVec T)) (b:nat) := nth b Vs sv_zero.
Definition ev_spring Xs (nu b1 b2:nat) st1 st2 k x0 : out :=
  (apply2 b1 b2 (spring_F k x0 (getX Xs b1) st1 (getX Xs b2) st2) (zeros (length Xs)), zeros_s nu,
   spring_PE k x0 (getX Xs b1) st1 (getX Xs b2) st2).
Definition ev_damper Xs Vs (nu b1 b2:nat) st1 st2 c : out :=
  (apply2 b1 b2 (damper_F c (getX Xs b1) (getV Vs b1) st1 (getX Xs b2) (getV Vs b2) st2) (zeros (length Xs)), zeros_s nu, 0).
Definition ev_tpconst Xs (nu b1 b2:nat) st1 st2 f : out :=
  (apply2 b1 b2 (tpconst_F f (getX Xs b1) st1 (getX Xs b2) st2) (zeros (length Xs)), zeros_s nu, 0).
Definition ev_constforce Xs (nu b:nat) st f : out :=
  (add_at b (constforce_F (getX Xs b) st f) (zeros (length Xs)), zeros_s nu, 0).
Definition ev_consttorque (Xs:list (Transform T)) (nu b:nat) t : out :=
  (add_at b (consttorque_F t) (zeros (length Xs)), zeros_s nu, 0).
Definition ev_globaldamper (Xs:list (Transform T)) (us:list T) c : out :=
  (zeros (length Xs), globaldamper_f c us, 0).
Definition ev_uniformgravity (nu:nat) (g:Vec3 T) (zeroHeight:T) (bs:list gbody) : out :=
  (grav_F g bs, zeros_s nu, grav_PE g (v3_norm K g * zeroHeight) bs).
Definition ev_gravity (nu:nat) (d:Vec3 T) (g z:T) (bs:list gbody) : out :=
  (grav_F (gravity_vec g d) bs, zeros_s nu, grav_PE (gravity_vec g d) (g * z) bs).
Definition ev_bushing Xs Vs (nu b1 b2:nat) XB1F XB2M k c : out :=
  let r := bushing (getX Xs b1) (getX Xs b2) (getV Vs b1) (getV Vs b2) XB1F XB2M k c in
  (* the code adds body 2's force first, then body 1's *)
  (add_at b1 (fst (fst r)) (add_at b2 (snd (fst r)) (zeros (length Xs))), zeros_s nu, snd r).
(** mobility elements: [nb] bodies, coordinate with global u index [j] *)
Definition ev_mspring (nb nu j:nat) (k q0 q:T) : out :=
  (zeros nb, add_at_s j (mspring_f k q0 q) (zeros_s nu), mspring_PE k q0 q).
Definition ev_mdamper (nb nu j:nat) (c u:T) : out :=
  (zeros nb, add_at_s j (mdamper_f c u) (zeros_s nu), 0).
Definition ev_mconst (nb nu j:nat) (f:T) : out :=
  (zeros nb, add_at_s j f (zeros_s nu), 0).
Definition ev_mstop (nb nu j:nat) (k d qlo qhi q qdot:T) : out :=
  (zeros nb, add_at_s j (mstop_f k d qlo qhi q qdot) (zeros_s nu), mstop_PE k qlo qhi q).
End M.
