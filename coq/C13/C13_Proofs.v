(** C13 proofs: Newton's third law for the interaction elements of C13_Model.v, over the reals.
    For every system (any number of bodies, any poses), any two attachment bodies (distinct, Ground,
    or the same body twice), any stations/frames/parameters and any reference point c:
    the body forces the element produces have zero total force and zero total moment about c. *)
From Coq Require Import ZArith Reals Lra Lia List Psatz Nsatz.
Require Import Num Vec Tactics C13_Model.
Import ListNotations.
Local Open Scope R_scope.

Ltac munf := cbv [sv_zero xf_id two shift_to st_G pt_G tp_r tp_pair st_vel v3_unit spring_f spring_F spring_PE
  damper_f damper_F tpconst_f tpconst_F constforce_F consttorque_F v3_mul v3_sum
  bush_XGF bush_XGM bush_XFM bush_qdot bush_f bush_F_of_f bush_q bush_PE_of_q bush_core]; vunf.
(** destruct every vector-like variable into scalars *)
Ltac dv := repeat match goal with
  | v : Vec3 R |- _ => destruct v as [[? ?] ?]
  | v : Mat33 R |- _ => destruct v as [[? ?] ?]
  | v : SpatialVec R |- _ => destruct v as [? ?]
  | v : Transform R |- _ => destruct v as [? ?]
  | v : C13_Model.Vec6 |- _ => destruct v as [? ?]
  | v : (R * R)%type |- _ => destruct v as [? ?]
  | v : (_ * _ * _)%type |- _ => destruct v as [[? ?] ?]
  end.

Definition Z6 : SpatialVec R := sv_zero ROps.

(** ** the force array: total force/moment of an array with one more contribution *)
Lemma sv_add_zero_r (F:SpatialVec R) : sv_add ROps F Z6 = F.
Proof. dv. unfold Z6. munf. teq; ring. Qed.
Lemma sv_add_zero_l (F:SpatialVec R) : sv_add ROps Z6 F = F.
Proof. dv. unfold Z6. munf. teq; ring. Qed.
Lemma sv_add_assoc (A B C:SpatialVec R) : sv_add ROps (sv_add ROps A B) C = sv_add ROps A (sv_add ROps B C).
Proof. dv. munf. teq; ring. Qed.
Lemma sv_add_comm (A B:SpatialVec R) : sv_add ROps A B = sv_add ROps B A.
Proof. dv. munf. teq; ring. Qed.
Lemma shift_zero c p : shift_to ROps c p Z6 = Z6.
Proof. dv. unfold Z6. munf. teq; ring. Qed.
Lemma shift_add c p A B : shift_to ROps c p (sv_add ROps A B) = sv_add ROps (shift_to ROps c p A) (shift_to ROps c p B).
Proof. dv. munf. teq; ring. Qed.

Lemma net_zeros c ps n : net ROps c ps (zeros ROps n) = Z6.
Proof. revert ps; induction n as [|n IH]; intros [|p ps]; cbn [zeros repeat net]; try reflexivity.
  fold (zeros ROps n). rewrite IH. fold Z6. rewrite shift_zero. apply sv_add_zero_l. Qed.

Lemma net_add_at c : forall (l:list (SpatialVec R)) ps i F, length ps = length l -> (i < length l)%nat ->
  net ROps c ps (add_at ROps i F l) = sv_add ROps (net ROps c ps l) (shift_to ROps c (List.nth i ps (v3_zero ROps)) F).
Proof. induction l as [|x l IH]; intros [|p ps] i F Hl Hi; cbn [length] in *; try lia.
  destruct i as [|i]; cbn [add_at net List.nth].
  - rewrite shift_add. rewrite !sv_add_assoc. f_equal. apply sv_add_comm.
  - rewrite IH by lia. rewrite sv_add_assoc. reflexivity. Qed.

Lemma length_add_at i F (l:list (SpatialVec R)) : length (add_at ROps i F l) = length l.
Proof. revert i; induction l as [|x l IH]; intros [|i]; cbn [add_at length]; auto. Qed.
Lemma length_zeros n : length (zeros ROps n) = n.
Proof. apply repeat_length. Qed.

(** an element acting on two bodies of a system of [length ps] bodies *)
Lemma net_apply2 c ps n b1 b2 F : length ps = n -> (b1 < n)%nat -> (b2 < n)%nat ->
  net ROps c ps (apply2 ROps b1 b2 F (zeros ROps n)) =
  sv_add ROps (shift_to ROps c (List.nth b1 ps (v3_zero ROps)) (fst F)) (shift_to ROps c (List.nth b2 ps (v3_zero ROps)) (snd F)).
Proof. intros Hn H1 H2. unfold apply2.
  rewrite net_add_at by (rewrite ?length_add_at, length_zeros; auto).
  rewrite net_add_at by (rewrite ?length_zeros; auto).
  rewrite net_zeros. rewrite sv_add_zero_l. reflexivity. Qed.

Lemma nth_map_snd (Xs:list (Transform R)) b : (b < length Xs)%nat ->
  List.nth b (map snd Xs) (v3_zero ROps) = snd (getX ROps Xs b).
Proof. intros H. unfold getX. rewrite (nth_indep _ (v3_zero ROps) (snd (xf_id ROps))) by (rewrite map_length; auto).
  apply map_nth. Qed.

(** ** equal and opposite forces along the line of the two stations *)
(** +f on body 1 at station s1, -f on body 2 at station s2, f parallel to the line between the stations *)
Lemma tp_pair_balanced (lam:R) (X1 X2:Transform R) (st1 st2 c:Vec3 R) :
  let f := v3_scale ROps lam (tp_r ROps X1 st1 X2 st2) in
  let P := tp_pair ROps (st_G ROps X1 st1) (st_G ROps X2 st2) f in
  sv_add ROps (shift_to ROps c (snd X1) (fst P)) (shift_to ROps c (snd X2) (snd P)) = Z6.
Proof. dv. unfold Z6. munf. teq; ring. Qed.

Lemma spring_pair_balanced k x0 (X1 X2:Transform R) st1 st2 c :
  let P := spring_F ROps k x0 X1 st1 X2 st2 in
  sv_add ROps (shift_to ROps c (snd X1) (fst P)) (shift_to ROps c (snd X2) (snd P)) = Z6.
Proof. unfold spring_F, spring_f. apply tp_pair_balanced. Qed.

Lemma unit_is_scaled (r:Vec3 R) : v3_unit ROps r = v3_scale ROps (/ v3_norm ROps r) r.
Proof. dv. unfold v3_unit. set (n := v3_norm ROps _). vunf. teq; unfold Rdiv; ring. Qed.
Lemma scale_scale a b (r:Vec3 R) : v3_scale ROps a (v3_scale ROps b r) = v3_scale ROps (a*b) r.
Proof. dv. vunf. teq; ring. Qed.

Lemma damper_pair_balanced cc (X1 X2:Transform R) V1 V2 st1 st2 c :
  let P := damper_F ROps cc X1 V1 st1 X2 V2 st2 in
  sv_add ROps (shift_to ROps c (snd X1) (fst P)) (shift_to ROps c (snd X2) (snd P)) = Z6.
Proof. unfold damper_F, damper_f. rewrite unit_is_scaled. rewrite scale_scale. apply tp_pair_balanced. Qed.

Lemma tpconst_f_is_scaled f (X1 X2:Transform R) st1 st2 :
  tpconst_f ROps f X1 st1 X2 st2 = v3_scale ROps (f * / v3_norm ROps (tp_r ROps X1 st1 X2 st2)) (tp_r ROps X1 st1 X2 st2).
Proof. unfold tpconst_f. set (r := tp_r ROps X1 st1 X2 st2). destruct r as [[a b] c]. set (n := v3_norm ROps _).
  vunf. teq; unfold Rdiv; ring. Qed.
Lemma tpconst_is_pair f (X1 X2:Transform R) st1 st2 :
  tpconst_F ROps f X1 st1 X2 st2 =
  tp_pair ROps (st_G ROps X1 st1) (st_G ROps X2 st2) (v3_neg ROps (tpconst_f ROps f X1 st1 X2 st2)).
Proof. unfold tpconst_F. set (g := tpconst_f ROps f X1 st1 X2 st2). set (s1 := st_G ROps X1 st1). set (s2 := st_G ROps X2 st2).
  dv. munf. teq; ring. Qed.
Lemma neg_scale a (r:Vec3 R) : v3_neg ROps (v3_scale ROps a r) = v3_scale ROps (- a) r.
Proof. dv. vunf. teq; ring. Qed.
Lemma tpconst_pair_balanced f (X1 X2:Transform R) st1 st2 c :
  let P := tpconst_F ROps f X1 st1 X2 st2 in
  sv_add ROps (shift_to ROps c (snd X1) (fst P)) (shift_to ROps c (snd X2) (snd P)) = Z6.
Proof. cbv zeta. rewrite tpconst_is_pair, tpconst_f_is_scaled, neg_scale. apply tp_pair_balanced. Qed.

(** ** the theorems on systems: any number of bodies, any attachment bodies (b1 = b2 and Ground included) *)
Lemma spring_third_law (Xs:list (Transform R)) (nu b1 b2:nat) st1 st2 k x0 c :
  (b1 < length Xs)%nat -> (b2 < length Xs)%nat ->
  net ROps c (map snd Xs) (fst (fst (ev_spring ROps Xs nu b1 b2 st1 st2 k x0))) = Z6.
Proof. intros H1 H2. unfold ev_spring. cbn [fst snd].
  rewrite net_apply2 by (auto using map_length). rewrite !nth_map_snd by auto. apply spring_pair_balanced. Qed.
Lemma damper_third_law (Xs:list (Transform R)) Vs (nu b1 b2:nat) st1 st2 cc c :
  (b1 < length Xs)%nat -> (b2 < length Xs)%nat ->
  net ROps c (map snd Xs) (fst (fst (ev_damper ROps Xs Vs nu b1 b2 st1 st2 cc))) = Z6.
Proof. intros H1 H2. unfold ev_damper. cbn [fst snd].
  rewrite net_apply2 by (auto using map_length). rewrite !nth_map_snd by auto. apply damper_pair_balanced. Qed.
Lemma tpconst_third_law (Xs:list (Transform R)) (nu b1 b2:nat) st1 st2 f c :
  (b1 < length Xs)%nat -> (b2 < length Xs)%nat ->
  net ROps c (map snd Xs) (fst (fst (ev_tpconst ROps Xs nu b1 b2 st1 st2 f))) = Z6.
Proof. intros H1 H2. unfold ev_tpconst. cbn [fst snd].
  rewrite net_apply2 by (auto using map_length). rewrite !nth_map_snd by auto. apply tpconst_pair_balanced. Qed.

(** ** LinearBushing *)
Definition is_rot (M:Mat33 R) : Prop := m33_mul ROps M (m33_T M) = m33_id ROps.
Lemma mulv_mul (A B:Mat33 R) v : m33_mulv ROps (m33_mul ROps A B) v = m33_mulv ROps A (m33_mulv ROps B v).
Proof. dv. vunf. teq; ring. Qed.
Lemma Tmulv_mul (A B:Mat33 R) v : m33_Tmulv ROps (m33_mul ROps A B) v = m33_Tmulv ROps B (m33_Tmulv ROps A v).
Proof. dv. vunf. teq; ring. Qed.
Lemma mulv_Tmulv (A:Mat33 R) v : m33_mulv ROps A (m33_Tmulv ROps A v) = m33_mulv ROps (m33_mul ROps A (m33_T A)) v.
Proof. dv. vunf. teq; ring. Qed.
Lemma mulv_id v : m33_mulv ROps (m33_id ROps) v = v.
Proof. dv. vunf. teq; ring. Qed.
Lemma rot_cancel A v : is_rot A -> m33_mulv ROps A (m33_Tmulv ROps A v) = v.
Proof. intros H. rewrite mulv_Tmulv, H. apply mulv_id. Qed.
Lemma rot2_cancel A B v : is_rot A -> is_rot B ->
  m33_mulv ROps (m33_mul ROps A B) (m33_Tmulv ROps (m33_mul ROps A B) v) = v.
Proof. intros HA HB. rewrite mulv_mul, Tmulv_mul, (rot_cancel B) by auto. apply rot_cancel; auto. Qed.

(** the pair of body forces the bushing builds from a moment [m] on body 2, a force [f] at M's origin,
    and its own vector [pFM] from F's origin to M's origin *)
Definition bush_pair (pB1F pB2M pFM m f:Vec3 R) : SpatialVec R * SpatialVec R :=
  let F_GF : SpatialVec R := (v3_neg ROps (v3_add ROps m (v3_cross ROps pFM f)), v3_neg ROps f) in
  ((v3_add ROps (fst F_GF) (v3_cross ROps pB1F (snd F_GF)), snd F_GF),
   (v3_add ROps m (v3_cross ROps pB2M f), f)).
Lemma bush_pair_balanced p1 p2 pB1F pB2M pFM m f c :
  pFM = v3_sub ROps (v3_add ROps p2 pB2M) (v3_add ROps p1 pB1F) ->
  let P := bush_pair pB1F pB2M pFM m f in
  sv_add ROps (shift_to ROps c p1 (fst P)) (shift_to ROps c p2 (snd P)) = Z6.
Proof. intros ->. dv. unfold Z6, bush_pair. munf. teq; ring. Qed.

Lemma bush_F_is_pair (X1 X2 XB1F XB2M:Transform R) qr (f:C13_Model.Vec6) :
  bush_F_of_f ROps X1 X2 XB1F XB2M qr f =
  bush_pair (m33_mulv ROps (fst X1) (snd XB1F)) (m33_mulv ROps (fst X2) (snd XB2M))
            (m33_mulv ROps (fst (bush_XGF ROps X1 XB1F)) (snd (bush_XFM ROps (bush_XGF ROps X1 XB1F) (bush_XGM ROps X2 XB2M))))
            (m33_mulv ROps (fst (bush_XGM ROps X2 XB2M)) (m33_Tmulv ROps (NB_xyz ROps qr) (fst f)))
            (m33_mulv ROps (fst (bush_XGF ROps X1 XB1F)) (snd f)).
Proof. reflexivity. Qed.

Lemma bush_pFM_G (X1 X2 XB1F XB2M:Transform R) : is_rot (fst X1) -> is_rot (fst XB1F) ->
  m33_mulv ROps (fst (bush_XGF ROps X1 XB1F)) (snd (bush_XFM ROps (bush_XGF ROps X1 XB1F) (bush_XGM ROps X2 XB2M))) =
  v3_sub ROps (v3_add ROps (snd X2) (m33_mulv ROps (fst X2) (snd XB2M))) (v3_add ROps (snd X1) (m33_mulv ROps (fst X1) (snd XB1F))).
Proof. intros H1 H2. unfold bush_XFM, bush_XGF, bush_XGM, xf_compose, xf_apply. cbn [fst snd].
  rewrite rot2_cancel by auto. reflexivity. Qed.

Lemma bush_core_balanced (X1 X2:Transform R) V1 V2 XB1F XB2M k cc qr c : is_rot (fst X1) -> is_rot (fst XB1F) ->
  let P := fst (bush_core ROps X1 X2 V1 V2 XB1F XB2M k cc qr) in
  sv_add ROps (shift_to ROps c (snd X1) (fst P)) (shift_to ROps c (snd X2) (snd P)) = Z6.
Proof. intros H1 H2. unfold bush_core. cbn [fst snd]. rewrite bush_F_is_pair. apply bush_pair_balanced.
  apply bush_pFM_G; auto. Qed.

Lemma bushing_third_law (Xs:list (Transform R)) Vs (nu b1 b2:nat) XB1F XB2M k cc c :
  (b1 < length Xs)%nat -> (b2 < length Xs)%nat -> is_rot (fst (getX ROps Xs b1)) -> is_rot (fst XB1F) ->
  net ROps c (map snd Xs) (fst (fst (ev_bushing ROps Xs Vs nu b1 b2 XB1F XB2M k cc))) = Z6.
Proof. intros H1 H2 R1 R2. unfold ev_bushing. cbn [fst snd].
  rewrite net_add_at by (rewrite ?length_add_at, length_zeros; auto using map_length).
  rewrite net_add_at by (rewrite ?length_zeros; auto using map_length).
  rewrite net_zeros, sv_add_zero_l, sv_add_comm. rewrite !nth_map_snd by auto.
  unfold bushing. apply bush_core_balanced; auto. Qed.

(** the hypothesis on the frame is needed: with a non-orthonormal R_GB1 the bushing's moments do not balance *)
Lemma bushing_rotation_hypothesis_is_needed : exists (X1 X2 XB1F XB2M:Transform R) V1 V2 k cc qr c,
  ~ is_rot (fst X1) /\
  let P := fst (bush_core ROps X1 X2 V1 V2 XB1F XB2M k cc qr) in
  sv_add ROps (shift_to ROps c (snd X1) (fst P)) (shift_to ROps c (snd X2) (snd P)) <> Z6.
Proof.
  exists (((2,0,0),(0,1,0),(0,0,1)),(0,0,0)), (m33_id ROps,(1,1,0)), (xf_id ROps), (xf_id ROps), Z6, Z6.
  exists ((0,0,0),(0,1,0)), Z6, (0,0,0), (0,0,0).
  split.
  - unfold is_rot. vunf. intros H. apply (f_equal (fun M : Mat33 R => fst (fst (fst (fst M))))) in H. cbn [fst snd] in H. lra.
  - unfold Z6. munf. intros H. apply (f_equal (fun F : SpatialVec R => snd (fst F))) in H. cbn [fst snd] in H. lra. Qed.

(** non-vacuity: concrete non-trivial inputs satisfying the hypotheses *)
Example two_point_example_nontrivial :
  let Xs := [xf_id ROps; (m33_id ROps, (3,4,0))] in
  (1 < length Xs)%nat /\ tp_r ROps (getX ROps Xs 0) (0,0,0) (getX ROps Xs 1) (0,0,0) = (3,4,0).
Proof. split. cbn; lia. cbv [getX List.nth]. munf. teq; ring. Qed.
Example is_rot_example : is_rot ((0,-1,0),(1,0,0),(0,0,1)).
Proof. unfold is_rot. vunf. teq; ring. Qed.
