(** C14 model (hand-written, generic in [NumOps]): mobilizer reaction forces by the free-body inward recursion
    of SimbodyMatterSubsystemRep::calcMobilizerReactionForcesUsingFreebodyMethod, and the frame shifts of
    MobilizedBody::findMobilizerReactionOnBodyAtMInGround / OnParentAtOriginInGround / OnParentAtFInGround.
    Built on the tree library: the recursion is [MB.accum] over the concrete spatial algebra [Spatial.svK]
    (phi = shiftForce).  Everything is expressed in Ground, forces are applied at body origins.

    Per-body input:  l  = p_GB - p_GP;  Mk = (m, p, G) compact spatial inertia about OB (unit inertia G);
      V, A = V_GB, A_GB;  Fapp = applied body force (getRigidBodyForces);  Fcons = constraint body force
      (calcConstraintForcesFromMultipliers, subtracted by the code);  pBM, pPF = origins of the M frame on B and of
      the F frame on the parent, from the respective body origins, in G.
    Ground is the root: zero inertia term, its "reaction" is what Ground needs from the universe.
    No proofs in this file. *)
From Coq Require Import List Arith.
Import ListNotations.
Require Import Num Vec Tree MB Spatial C15_Model.

Section M. Context {T:Type} (K:NumOps T).
Local Notation SVt := (SpatialVec T).
Record rbody := mkRb { r_idx : nat; r_par : nat; r_l : Vec3 T; r_Mk : USp (T:=T); r_V : SVt; r_A : SVt;
                       r_Fapp : SVt; r_Fcons : SVt; r_pBM : Vec3 T; r_pPF : Vec3 T }.

(** RigidBodyNode::realizeVelocity...:  gyro = m * (w % (G w), w % (w % p)) *)
Definition gyroForce (x:rbody) : SVt :=
  let '(m,p,G) := r_Mk x in let w := fst (r_V x) in
  sv_scale K m (v3_cross K w (sym_mulv K G w), v3_cross K w (v3_cross K w p)).
(** rate of change of the body's momentum about its origin:  Mk A + gyroscopic force *)
Definition inertialForce (x:rbody) : SVt := sv_add K (uspMul K (r_Mk x) (r_A x)) (gyroForce x).
(** what the body itself contributes to its reaction:  Mk A - (Fapp - Fcons - gyro) *)
Definition bodyTerm (x:rbody) : SVt := sv_add K (sv_sub K (inertialForce x) (r_Fapp x)) (r_Fcons x).

Definition ndOf (x:rbody) : node SVt (Vec3 T) (SpInertia (T:=T)) :=
  mkNode (r_l x) [] (n0 K, v3_zero K, (v3_zero K, v3_zero K)).
(** reaction on each body at its origin:  FB = bodyTerm + sum_children shiftForce l_c FB_c *)
Definition reactionsAtOrigin (t:tree rbody) : tree (rbody * SVt) := accum (svK K) ndOf bodyTerm t.

(** shiftForceBy(FB_G, p_BM_G) : moved from OB to the M frame origin *)
Definition atM (x:rbody) (FB:SVt) : SVt := shiftForce K (v3_neg K (r_pBM x)) FB.
(** shiftForceBy(-FB_G, p_GP - p_GB) : reaction on the parent, at the parent's origin *)
Definition onParentAtOrigin (x:rbody) (FB:SVt) : SVt := shiftForce K (r_l x) (sv_neg K FB).
(** ... shifted to the F frame origin on the parent *)
Definition onParentAtF (x:rbody) (FB:SVt) : SVt := shiftForce K (v3_neg K (r_pPF x)) (onParentAtOrigin x FB).

(** entry points for the correspondence run *)
Fixpoint buildT (fuel:nat) (bodies:list rbody) (x:rbody) : tree rbody :=
  match fuel with
  | O => Node x []
  | S f => Node x (map (buildT f bodies) (filter (fun b => andb (Nat.eqb (r_par b) (r_idx x)) (negb (Nat.eqb (r_idx b) (r_idx x)))) bodies))
  end.
Definition mkTree (ground:rbody) (bodies:list rbody) : tree rbody := buildT (S (length bodies)) bodies ground.
Definition out_reactions (t:tree rbody) : list (nat * (SVt * SVt * SVt * SVt * SVt)) :=
  map (fun xr => let x := fst xr in let FB := snd xr in
                 (r_idx x, (gyroForce x, FB, atM x FB, onParentAtOrigin x FB, onParentAtF x FB)))
      (flatten (reactionsAtOrigin t)).
End M.
