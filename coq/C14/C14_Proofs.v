(** C14 theorems about the reaction-force model (C14_Model.v) for EVERY tree and every per-body data, over R. *)
From Coq Require Import List Reals Lra.
Import ListNotations.
Require Import Num Vec Tactics Tree MB Spatial Spatial_Proofs C15_Model C14_Model.
Local Open Scope R_scope.

Notation SVR := (SpatialVec R).
Notation KR := (svK ROps).
Definition sv00 : SVR := ((0,0,0),(0,0,0)).
Ltac dV3 v := destruct v as [[? ?] ?].
Ltac sfunf := cbv [shiftForce atM onParentAtOrigin onParentAtF sv00]; vunf.

(** ** shifting a spatial force between points: exact, additive, composes by adding the offsets *)
Lemma sf_inverse l (F : SVR) : shiftForce ROps (v3_neg ROps l) (shiftForce ROps l F) = F.
Proof. dV3 l. dsv F. sfunf. teq; ring. Qed.
Lemma sf_inverse' l (F : SVR) : shiftForce ROps l (shiftForce ROps (v3_neg ROps l) F) = F.
Proof. dV3 l. dsv F. sfunf. teq; ring. Qed.
Lemma sf_add l (F G : SVR) : shiftForce ROps l (sv_add ROps F G) = sv_add ROps (shiftForce ROps l F) (shiftForce ROps l G).
Proof. dV3 l. dsv F. dsv G. sfunf. teq; ring. Qed.
Lemma sf_neg l (F : SVR) : shiftForce ROps l (sv_neg ROps F) = sv_neg ROps (shiftForce ROps l F).
Proof. dV3 l. dsv F. sfunf. teq; ring. Qed.
Lemma sf_comp a b (F : SVR) : shiftForce ROps a (shiftForce ROps b F) = shiftForce ROps (v3_add ROps a b) F.
Proof. dV3 a. dV3 b. dsv F. sfunf. teq; ring. Qed.
Lemma sf_zero_vec (F : SVR) : shiftForce ROps (0,0,0) F = F.
Proof. dsv F. sfunf. teq; ring. Qed.
Lemma sf_zero l : shiftForce ROps l sv00 = sv00.
Proof. dV3 l. sfunf. teq; ring. Qed.

Definition svsum (l : list SVR) : SVR := fold_right (sv_add ROps) sv00 l.
Lemma svsum_app a b : svsum (a ++ b) = sv_add ROps (svsum a) (svsum b).
Proof. unfold svsum. induction a as [|x a IH]; cbn [app fold_right].
  - generalize (fold_right (sv_add ROps) sv00 b). intros F. dsv F. sfunf. teq; ring.
  - rewrite IH. generalize (fold_right (sv_add ROps) sv00 a) (fold_right (sv_add ROps) sv00 b). intros F G. dsv x. dsv F. dsv G. vunf. teq; ring. Qed.

Fixpoint subtrees {A} (t : tree A) : list (tree A) := match t with Node a cs => t :: flat_map subtrees cs end.
Lemma inward_subtrees {A B} (g : A -> list (A * B) -> B) (t : tree A) : subtrees (inward g t) = map (inward g) (subtrees t).
Proof. induction t as [a cs IH] using tree_ind'. cbn [inward subtrees map]. f_equal.
  induction cs as [|c r IHr]; cbn [map flat_map]; auto. inversion IH; subst. rewrite map_app. f_equal; auto. Qed.

(** ** the recursion in general: per-node shift vector and per-node force term *)
Section G.
Context {X : Type} (xl : X -> Vec3 R) (term : X -> SVR).
Definition ndG (x : X) : node SVR (Vec3 R) (SpInertia (T:=R)) := mkNode (xl x) [] (0, (0,0,0), ((0,0,0),(0,0,0))).
Definition reac (t : tree X) : tree (X * SVR) := accum KR ndG term t.
Definition Rroot (t : tree X) : SVR := snd (root (reac t)).
(** what the children of a node put on it: their reactions moved to the node's origin *)
Definition childSum (cs : list (tree (X * SVR))) : SVR :=
  fold_right (fun c z => sv_add ROps (shiftForce ROps (xl (fst (root c))) (snd (root c))) z) sv00 cs.

Lemma reac_node x cs : reac (Node x cs) = Node (x, sv_add ROps (term x) (childSum (map reac cs))) (map reac cs).
Proof. unfold reac, accum. cbn [inward]. f_equal. f_equal. unfold gather. cbn [vadd svK]. f_equal.
  unfold childSum. induction cs as [|c r IH]; cbn [map fold_right]; [reflexivity|]. rewrite IH. reflexivity. Qed.

(** Newton-Euler at every node, by construction of the recursion:  term_x = R_x - sum_children shift(R_c) *)
Theorem balance_every_node t :
  Forall (fun s => term (fst (root s)) = sv_sub ROps (snd (root s)) (childSum (kids s))) (subtrees (reac t)).
Proof. unfold reac, accum. rewrite inward_subtrees. apply Forall_forall. intros s' Hin. apply in_map_iff in Hin.
  destruct Hin as [s [<- _]]. destruct s as [x cs]. fold (accum KR ndG term (Node x cs)). fold (reac (Node x cs)).
  rewrite reac_node. cbn [root fst snd kids]. generalize (childSum (map reac cs)) (term x). intros S F. dsv S. dsv F. vunf. teq; ring. Qed.

(** offsets of the bodies of a subtree from the subtree root's origin *)
Fixpoint offs (o : Vec3 R) (t : tree X) : list (X * Vec3 R) :=
  match t with Node x cs => (x, o) :: flat_map (fun c => offs (v3_add ROps o (xl (root c))) c) cs end.
Lemma root_reac_fst t : fst (root (reac t)) = root t.
Proof. destruct t. rewrite reac_node. reflexivity. Qed.

(** the reaction at the root of a subtree is the sum of the force terms of ALL bodies of the subtree, each moved
    from its own origin to the root's origin: the mobilizer carries the whole outboard subtree *)
Theorem reaction_is_subtree_sum_gen : forall t o,
  shiftForce ROps o (Rroot t) = svsum (map (fun xo => shiftForce ROps (snd xo) (term (fst xo))) (offs o t)).
Proof. induction t as [x cs IH] using tree_ind'. intros o. unfold Rroot. rewrite reac_node. cbn [root snd offs map].
  rewrite sf_add. change (svsum (?a :: ?l)) with (sv_add ROps a (svsum l)). cbn [fst snd]. f_equal.
  induction cs as [|c r IHr]; cbn [map flat_map childSum fold_right]; [apply sf_zero|].
  inversion IH as [|? ? IHc IHrest]; subst. fold (childSum (map reac r)).
  rewrite sf_add, map_app, svsum_app. f_equal; [|apply IHr; auto].
  rewrite sf_comp, root_reac_fst. apply IHc. Qed.
Theorem reaction_is_subtree_sum t :
  Rroot t = svsum (map (fun xo => shiftForce ROps (snd xo) (term (fst xo))) (offs (0,0,0) t)).
Proof. rewrite <- reaction_is_subtree_sum_gen. symmetry. apply sf_zero_vec. Qed.
(** ... and this holds at every node of the tree for that node's own subtree *)
Theorem reaction_is_subtree_sum_every_node t :
  Forall (fun s => snd (root s) = svsum (map (fun xo => shiftForce ROps (snd xo) (term (fst xo))) (offs (0,0,0) (tmap fst s)))) (subtrees (reac t)).
Proof. unfold reac, accum. rewrite inward_subtrees. apply Forall_forall. intros s' Hin. apply in_map_iff in Hin.
  destruct Hin as [s [<- _]].
  replace (tmap fst (inward (gather KR ndG term) s)) with s.
  - apply (reaction_is_subtree_sum s).
  - clear. induction s as [a cs IH] using tree_ind'. cbn. f_equal. rewrite map_map.
    induction cs as [|c r IHr]; cbn; auto. inversion IH; subst. f_equal; auto. Qed.
End G.

(** ** the model of C14_Model.v *)
Notation rbodyR := (@rbody R).
Lemma reactions_is_reac t : reactionsAtOrigin ROps t = reac r_l (bodyTerm ROps) t.
Proof. reflexivity. Qed.

(** Newton-Euler balance for every tree and every body:
      Mk A + gyroscopic = F_applied - F_constraint + R_self - sum_children shift_to_own_origin(R_child) *)
Theorem newton_euler_balance (t : tree rbodyR) :
  Forall (fun s => let x := fst (root s) in
            inertialForce ROps x
            = sv_sub ROps (sv_add ROps (sv_sub ROps (r_Fapp x) (r_Fcons x)) (snd (root s))) (childSum r_l (kids s)))
         (subtrees (reactionsAtOrigin ROps t)).
Proof. rewrite reactions_is_reac. pose proof (balance_every_node r_l (bodyTerm ROps) t) as H.
  rewrite Forall_forall in *. intros s Hs. specialize (H s Hs). cbv zeta. revert H. unfold bodyTerm.
  generalize (childSum r_l (kids s)) (snd (root s)) (inertialForce ROps (fst (root s))) (r_Fapp (fst (root s))) (r_Fcons (fst (root s))).
  intros S Rr I0 Fa Fc. dsv S. dsv Rr. dsv I0. dsv Fa. dsv Fc. vunf. intros H. injection H as H1 H2 H3 H4 H5 H6. teq; lra. Qed.

(** the same with the reactions the children exert on the body (the reported reaction on the parent at its origin):
      Mk A + gyroscopic = F_applied - F_constraint + R_self + sum_children R_on_parent(child) *)
Definition childReactionsOnParent (cs : list (tree (rbodyR * SVR))) : SVR :=
  fold_right (fun c z => sv_add ROps (onParentAtOrigin ROps (fst (root c)) (snd (root c))) z) sv00 cs.
Lemma childReactions_neg cs : childReactionsOnParent cs = sv_neg ROps (childSum r_l cs).
Proof. unfold childReactionsOnParent, childSum. induction cs as [|c r IH]; cbn [fold_right]; [sfunf; teq; ring|].
  rewrite IH. unfold onParentAtOrigin. rewrite sf_neg.
  generalize (shiftForce ROps (r_l (fst (root c))) (snd (root c))) (fold_right (fun c z => sv_add ROps (shiftForce ROps (r_l (fst (root c))) (snd (root c))) z) sv00 r).
  intros F G. dsv F. dsv G. vunf. teq; ring. Qed.
Theorem newton_euler_balance_with_parent_side_reactions (t : tree rbodyR) :
  Forall (fun s => let x := fst (root s) in
            inertialForce ROps x
            = sv_add ROps (sv_add ROps (sv_sub ROps (r_Fapp x) (r_Fcons x)) (snd (root s))) (childReactionsOnParent (kids s)))
         (subtrees (reactionsAtOrigin ROps t)).
Proof. pose proof (newton_euler_balance t) as H. rewrite Forall_forall in *. intros s Hs. specialize (H s Hs). cbv zeta in *.
  rewrite H, childReactions_neg.
  generalize (childSum r_l (kids s)) (sv_add ROps (sv_sub ROps (r_Fapp (fst (root s))) (r_Fcons (fst (root s)))) (snd (root s))).
  intros S F. dsv S. dsv F. vunf. teq; ring. Qed.

(** ** reaction on the parent: equal and opposite, after the shift *)
Theorem parent_reaction_is_negated_shift (x : rbodyR) FB :
  onParentAtOrigin ROps x FB = sv_neg ROps (shiftForce ROps (r_l x) FB).
Proof. unfold onParentAtOrigin. apply sf_neg. Qed.
(** moving the reported reaction from M back to the body origin recovers it exactly *)
Theorem atM_roundtrip (x : rbodyR) FB : shiftForce ROps (r_pBM x) (atM ROps x FB) = FB.
Proof. unfold atM. apply sf_inverse'. Qed.
Theorem onParentAtF_roundtrip (x : rbodyR) FB : shiftForce ROps (r_pPF x) (onParentAtF ROps x FB) = onParentAtOrigin ROps x FB.
Proof. unfold onParentAtF. apply sf_inverse'. Qed.
(** the reaction on the body reported at M and the reaction on the parent reported at F, both moved to one
    common point (the parent's origin), cancel *)
Theorem reactions_equal_and_opposite (x : rbodyR) FB :
  sv_add ROps (shiftForce ROps (r_l x) (shiftForce ROps (r_pBM x) (atM ROps x FB)))
              (shiftForce ROps (r_pPF x) (onParentAtF ROps x FB)) = sv00.
Proof. rewrite atM_roundtrip, onParentAtF_roundtrip, parent_reaction_is_negated_shift.
  generalize (shiftForce ROps (r_l x) FB). intros F. dsv F. sfunf. teq; ring. Qed.

(** ** the reaction carries the whole outboard subtree (for a Weld nothing else can: it has no mobility to take any of it) *)
Theorem reaction_carries_subtree (t : tree rbodyR) :
  Forall (fun s => snd (root s)
                   = svsum (map (fun xo => shiftForce ROps (snd xo) (bodyTerm ROps (fst xo))) (offs r_l (0,0,0) (tmap fst s))))
         (subtrees (reactionsAtOrigin ROps t)).
Proof. rewrite reactions_is_reac. apply reaction_is_subtree_sum_every_node. Qed.

(** non-triviality: a body at rest hanging from Ground by any mobilizer, weight (0,0,-2) applied at its origin,
    mass centre at its origin; the reaction is (0,(0,0,2)) and Ground needs the same from the universe *)
Example hanging_body :
  let z3 : Vec3 R := (0,0,0) in let z : SVR := (z3, z3) in
  let g := mkRb 0%nat 0%nat z3 (0, z3, (z3, z3)) z z z z z3 z3 in
  let b := mkRb 1%nat 0%nat (1,0,0) (2, z3, ((1,1,1), z3)) z z (z3, (0,0,-2)) z (0,1,0) (1,0,0) in
  map (fun xr => (r_idx (fst xr), snd xr)) (flatten (reactionsAtOrigin ROps (mkTree g [b])))
  = [(0%nat, ((0,-2,0) : Vec3 R, (0,0,2) : Vec3 R)); (1%nat, (z3, (0,0,2)))].
Proof. cbv -[Rplus Rminus Rmult Ropp Rdiv Rinv IZR]. apply f_equal2; [|apply f_equal2; [|reflexivity]]; apply f_equal; teq; ring. Qed.
