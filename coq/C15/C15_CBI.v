(** C15: the composite-body-inertia inward recursion (RigidBodyNode::calcCompositeBodyInertiasInward, in the
    code's compact form  (mass, mass-centre vector, UNIT inertia)  with a division by the combined mass at every
    [+=]) equals, for EVERY tree, the direct sum over the subtree of the bodies' spatial inertias shifted to
    the subtree root's origin.  Induction over the tree; additivity and composition of shifts. *)
From Coq Require Import List Reals Lra Psatz.
Import ListNotations.
Require Import Num Vec Tactics Tree C15_Model C15_Proofs.
Local Open Scope R_scope.

Notation USpR := (@USp R).
(** moment form of a mass distribution about an origin O: (mass, first moment, inertia about O); additive *)
Definition MSp := (R * Vec3 R * SymMat33 R)%type.
Definition toM (A : USpR) : MSp := let '(m,p,G) := A in (m, v3_scale ROps m p, sym_scale ROps m G).
Definition mzero : MSp := (0, (0,0,0), ((0,0,0),(0,0,0))).
Definition madd (A B : MSp) : MSp :=
  let '(ma,ha,Ia) := A in let '(mb,hb,Ib) := B in (ma+mb, v3_add ROps ha hb, sym_add ROps Ia Ib).
(** moments about O+S from the moments about O:  h' = h - m S,  I' = I - (2 h.S 1 - h S^T - S h^T) + m (|S|^2 1 - S S^T) *)
Definition mshift (S : Vec3 R) (A : MSp) : MSp :=
  let '(m,h,J) := A in let '(sx,sy,sz) := S in let '(hx,hy,hz) := h in
  (m, v3_sub ROps h (v3_scale ROps m S),
   sym_add ROps J
     ((m*(sy*sy+sz*sz) - 2*(hy*sy+hz*sz), m*(sx*sx+sz*sz) - 2*(hx*sx+hz*sz), m*(sx*sx+sy*sy) - 2*(hx*sx+hy*sy)),
      (hx*sy + hy*sx - m*sx*sy, hx*sz + hz*sx - m*sx*sz, hy*sz + hz*sy - m*sy*sz))).
Definition msum (l : list MSp) : MSp := fold_right madd mzero l.

Ltac dM A := destruct A as [[?m [[?hx ?hy] ?hz]] [[[?ixx ?iyy] ?izz] [[?ixy ?ixz] ?iyz]]].
Ltac dV S := destruct S as [[?sx ?sy] ?sz].
Ltac munf := cbv [toM madd mshift mzero]; c15unf.

(** *** the code's operations are the additive ones in moment form *)
Lemma toM_shift S (A : USpR) : toM (uspShift ROps S A) = mshift S (toM A).
Proof. dM A. dV S. munf. teq; ring. Qed.
Lemma toM_add (A B : USpR) : u_mass A + u_mass B <> 0 -> toM (uspAdd ROps A B) = madd (toM A) (toM B).
Proof. dM A. dM B. unfold u_mass. cbn [fst]. intros H. munf. unfold Rdiv. teq; field; auto. Qed.
Lemma mass_add (A B : USpR) : u_mass (uspAdd ROps A B) = u_mass A + u_mass B.
Proof. dM A. dM B. reflexivity. Qed.
Lemma mass_shift S (A : USpR) : u_mass (uspShift ROps S A) = u_mass A.
Proof. dM A. reflexivity. Qed.

(** *** algebra of shifts: additive, compose by adding the shift vectors, zero shift is the identity *)
Lemma madd_assoc A B C : madd (madd A B) C = madd A (madd B C).
Proof. dM A. dM B. dM C. munf. teq; ring. Qed.
Lemma madd_zero_r A : madd A mzero = A.
Proof. dM A. munf. teq; ring. Qed.
Lemma madd_zero_l A : madd mzero A = A.
Proof. dM A. munf. teq; ring. Qed.
Lemma mshift_madd S A B : mshift S (madd A B) = madd (mshift S A) (mshift S B).
Proof. dM A. dM B. dV S. munf. teq; ring. Qed.
Lemma mshift_zero_vec A : mshift (0,0,0) A = A.
Proof. dM A. munf. teq; ring. Qed.
Lemma mshift_mzero S : mshift S mzero = mzero.
Proof. dV S. munf. teq; ring. Qed.
(** shift by S1 then by S2 = shift by S1+S2 *)
Lemma mshift_mshift S1 S2 A : mshift S2 (mshift S1 A) = mshift (v3_add ROps S1 S2) A.
Proof. dM A. dV S1. dV S2. munf. teq; ring. Qed.
(** shifting there and back is exact *)
Lemma mshift_inverse S A : mshift (v3_neg ROps S) (mshift S A) = A.
Proof. dM A. dV S. munf. teq; ring. Qed.

Lemma msum_app l1 l2 : msum (l1 ++ l2) = madd (msum l1) (msum l2).
Proof. unfold msum. induction l1 as [|a l IH]; cbn [app fold_right]; [rewrite madd_zero_l; reflexivity|]. rewrite IH, madd_assoc. reflexivity. Qed.
Lemma mshift_msum S l : mshift S (msum l) = msum (map (mshift S) l).
Proof. unfold msum. induction l as [|a l IH]; cbn [map fold_right]; [apply mshift_mzero|]. rewrite mshift_madd, IH. reflexivity. Qed.
Lemma fold_left_madd l a : fold_left madd l a = madd a (msum l).
Proof. revert a. induction l as [|b l IH]; intros a; cbn [fold_left]; [unfold msum; cbn; rewrite madd_zero_r; reflexivity|].
  rewrite IH. unfold msum. cbn [fold_right]. rewrite madd_assoc. reflexivity. Qed.

(** the chain of [+=] in the code is exact as long as no partial combined mass vanishes *)
Fixpoint sums_ok (m0 : R) (ms : list R) : Prop :=
  match ms with [] => True | m :: r => m0 + m <> 0 /\ sums_ok (m0 + m) r end.
Lemma fold_uspAdd (rs : list USpR) : forall R0, sums_ok (u_mass R0) (map u_mass rs) ->
  toM (fold_left (uspAdd ROps) rs R0) = fold_left madd (map toM rs) (toM R0)
  /\ u_mass (fold_left (uspAdd ROps) rs R0) = fold_left Rplus (map u_mass rs) (u_mass R0).
Proof. induction rs as [|r rs IH]; intros R0 H; cbn [fold_left map]; auto.
  cbn [map sums_ok] in H. destruct H as [H1 H2].
  rewrite <- mass_add in H2. destruct (IH _ H2) as [E1 E2]. rewrite E1, E2, toM_add, mass_add by auto. auto. Qed.

Section T.
Context {X : Type} (xl : X -> Vec3 R) (xM : X -> USpR).
Notation cbiR := (cbi ROps xl xM).
(** the composite inertia the recursion leaves at the root of a (sub)tree *)
Definition Rroot (t : tree X) : USpR := snd (root (cbiR t)).
(** total mass of a subtree *)
Fixpoint tmass (t : tree X) : R :=
  match t with Node x cs => fold_left Rplus (map tmass cs) (u_mass (xM x)) end.
(** no partial combined mass vanishes anywhere in the tree (the domain on which the code's divisions are exact) *)
Fixpoint cbi_ok (t : tree X) : Prop :=
  match t with Node x cs =>
    sums_ok (u_mass (xM x)) (map tmass cs) /\ (fix all (l : list (tree X)) : Prop := match l with [] => True | c :: r => cbi_ok c /\ all r end) cs
  end.
Lemma cbi_ok_node x cs : cbi_ok (Node x cs) <-> sums_ok (u_mass (xM x)) (map tmass cs) /\ Forall cbi_ok cs.
Proof. cbn [cbi_ok]. split; intros [H1 H2]; split; auto.
  - clear H1. induction cs as [|c r IH]; constructor; destruct H2; auto.
  - clear H1. induction cs as [|c r IH]; auto. inversion H2; subst. split; [assumption | apply IH; assumption]. Qed.

(** offsets of the bodies of a subtree from the subtree root's origin (sum of the shift vectors along the path) *)
Fixpoint offs (o : Vec3 R) (t : tree X) : list (X * Vec3 R) :=
  match t with Node x cs => (x, o) :: flat_map (fun c => offs (v3_add ROps o (xl (root c))) c) cs end.
(** direct sum: every body's own spatial inertia, shifted from its origin to the point at offset [o] back from it *)
Definition direct (o : Vec3 R) (t : tree X) : MSp :=
  msum (map (fun xo => mshift (v3_neg ROps (snd xo)) (toM (xM (fst xo)))) (offs o t)).

Lemma cbi_node x cs : cbiR (Node x cs) = Node (x, cbiStep ROps xl xM x (map root (map cbiR cs))) (map cbiR cs).
Proof. reflexivity. Qed.
Lemma root_cbi_fst t : fst (root (cbiR t)) = root t.
Proof. destruct t; reflexivity. Qed.
Lemma cbiStep_fold x (rs : list (X * USpR)) :
  cbiStep ROps xl xM x rs = fold_left (uspAdd ROps) (map (fun r => uspShift ROps (v3_neg ROps (xl (fst r))) (snd r)) rs) (xM x).
Proof. unfold cbiStep. generalize (xM x). induction rs as [|r rs IH]; intros a; cbn [fold_left map]; auto. Qed.

(** the mass component of the recursion is the subtree mass, unconditionally (masses are added, never divided) *)
Lemma Rroot_mass t : u_mass (Rroot t) = tmass t.
Proof. induction t as [x cs IH] using tree_ind'. unfold Rroot. rewrite cbi_node. cbn [root snd tmass]. rewrite cbiStep_fold.
  generalize (xM x). intros a. revert a. induction cs as [|c r IHr]; intros a; cbn [map fold_left]; auto.
  inversion IH; subst. rewrite IHr by auto. f_equal. rewrite mass_add, mass_shift. f_equal. apply H1. Qed.

Lemma v3_neg_add a b : v3_add ROps (v3_neg ROps a) (v3_neg ROps b) = v3_neg ROps (v3_add ROps b a).
Proof. dV a. dV b. vunf. teq; ring. Qed.

(** Main induction: for every tree on which the code's divisions are defined, and every offset o,
    the recursion's result (in moment form) shifted back by o is the direct sum with offsets starting at o *)
Theorem cbi_is_direct_sum_gen : forall t, cbi_ok t -> forall o, mshift (v3_neg ROps o) (toM (Rroot t)) = direct o t.
Proof.
  induction t as [x cs IH] using tree_ind'. intros Hok o. apply cbi_ok_node in Hok. destruct Hok as [Hs Hc].
  unfold Rroot. rewrite cbi_node. cbn [root snd]. rewrite cbiStep_fold.
  set (L := map (fun r => uspShift ROps (v3_neg ROps (xl (fst r))) (snd r)) (map root (map cbiR cs))).
  assert (HL : map u_mass L = map tmass cs).
  { unfold L. rewrite !map_map. apply map_ext. intros c. rewrite mass_shift. apply Rroot_mass. }
  destruct (fold_uspAdd L (xM x)) as [E _]; [rewrite HL; exact Hs|]. rewrite E. clear E.
  rewrite fold_left_madd, mshift_madd, mshift_msum.
  unfold direct. cbn [offs map]. change (msum (?a :: ?l)) with (madd a (msum l)). cbn [fst snd]. f_equal.
  clear Hs HL. unfold L. clear L. rewrite !map_map.
  induction cs as [|c r IHr]; cbn [map flat_map]; [reflexivity|].
  inversion IH as [|? ? IHc IHrest]; subst. inversion Hc as [|? ? Hc1 Hc2]; subst.
  rewrite map_app, msum_app. change (msum (?a :: ?l)) with (madd a (msum l)). f_equal.
  - rewrite toM_shift, mshift_mshift, v3_neg_add, root_cbi_fst. apply (IHc Hc1).
  - apply IHr; auto.
Qed.

(** the recursion's root value is the direct sum of the subtree's bodies shifted to the root's origin *)
Theorem cbi_is_direct_sum t : cbi_ok t -> toM (Rroot t) = direct (0,0,0) t.
Proof. intros H. rewrite <- (cbi_is_direct_sum_gen t H (0,0,0)).
  replace (v3_neg ROps (0,0,0)) with ((0,0,0) : Vec3 R) by (vunf; teq; ring). rewrite mshift_zero_vec. reflexivity. Qed.

(** *** every node: the value stored at a node by the full pass is the root value of its own subtree *)
Fixpoint subtrees {A} (t : tree A) : list (tree A) := match t with Node a cs => t :: flat_map subtrees cs end.
Lemma inward_subtrees {A B} (g : A -> list (A * B) -> B) (t : tree A) : subtrees (inward g t) = map (inward g) (subtrees t).
Proof. induction t as [a cs IH] using tree_ind'. cbn [inward subtrees map]. f_equal.
  induction cs as [|c r IHr]; cbn [map flat_map]; auto. inversion IH; subst. rewrite map_app. f_equal; auto. Qed.
Lemma cbi_ok_subtrees t : cbi_ok t -> Forall cbi_ok (subtrees t).
Proof. induction t as [x cs IH] using tree_ind'. intros H. cbn [subtrees]. constructor; auto.
  apply cbi_ok_node in H. destruct H as [_ Hc].
  induction cs as [|c r IHr]; cbn [flat_map]; [constructor|]. inversion IH; subst. inversion Hc; subst. apply Forall_app. split; auto. Qed.
(** the list of (node, stored composite inertia) of the full pass, node by node *)
Theorem cbi_every_node t : cbi_ok t ->
  Forall (fun s => toM (snd (root s)) = direct (0,0,0) (tmap fst s)) (subtrees (cbiR t)).
Proof. intros H. unfold cbi. rewrite inward_subtrees. apply Forall_forall. intros s' Hin. apply in_map_iff in Hin.
  destruct Hin as [s [<- Hs]]. pose proof (cbi_ok_subtrees t H) as Hall. rewrite Forall_forall in Hall.
  replace (tmap fst (inward (cbiStep ROps xl xM) s)) with s.
  - apply (cbi_is_direct_sum s). apply Hall; auto.
  - clear. induction s as [a cs IH] using tree_ind'. cbn. f_equal. rewrite map_map.
    induction cs as [|c r IHr]; cbn; auto. inversion IH; subst. f_equal; auto. Qed.

(** *** a sufficient physical condition: no negative masses and no massless terminal body *)
Fixpoint massive (t : tree X) : Prop :=
  match t with Node x cs =>
    0 <= u_mass (xM x) /\ (cs = [] -> 0 < u_mass (xM x))
    /\ (fix all (l : list (tree X)) : Prop := match l with [] => True | c :: r => massive c /\ all r end) cs
  end.
Lemma massive_node x cs : massive (Node x cs) <-> 0 <= u_mass (xM x) /\ (cs = [] -> 0 < u_mass (xM x)) /\ Forall massive cs.
Proof. cbn [massive]. split; intros [H1 [H2 H3]]; repeat split; auto.
  - clear H1 H2. induction cs as [|c r IH]; constructor; destruct H3; auto.
  - clear H1 H2. induction cs as [|c r IH]; auto. inversion H3; subst. split; [assumption | apply IH; assumption]. Qed.
Lemma sums_pos m0 ms : 0 <= m0 -> Forall (fun m => 0 < m) ms -> sums_ok m0 ms /\ m0 <= fold_left Rplus ms m0 /\ (ms <> [] -> 0 < fold_left Rplus ms m0).
Proof. revert m0. induction ms as [|m r IH]; intros m0 H0 Hp; cbn [sums_ok fold_left].
  - split; [exact I|]. split; [lra | congruence].
  - inversion Hp as [|? ? Hm Hr]; subst. destruct (IH (m0 + m)) as [A [B C]]; [lra | auto |].
    split; [split; [lra | exact A]|]. split; [lra|]. intros _. lra. Qed.
Lemma massive_ok t : massive t -> cbi_ok t /\ 0 < tmass t.
Proof. induction t as [x cs IH] using tree_ind'. intros H. apply massive_node in H. destruct H as [H0 [Hl Hc]].
  assert (Hk : Forall cbi_ok cs /\ Forall (fun m => 0 < m) (map tmass cs)).
  { clear Hl. induction cs as [|c r IHr]; [split; constructor|]. inversion IH as [|? ? IHc IHrest]; subst. inversion Hc as [|? ? Hc1 Hc2]; subst.
    destruct (IHc Hc1). destruct IHr; auto. split; constructor; auto. }
  destruct Hk as [Hk1 Hk2]. destruct (sums_pos (u_mass (xM x)) (map tmass cs) H0 Hk2) as [A [B C]]. split.
  - apply cbi_ok_node. split; auto.
  - cbn [tmass]. destruct cs as [|c r]; [cbn; apply Hl; reflexivity | apply C; cbn; congruence]. Qed.

Theorem cbi_is_direct_sum_massive t : massive t -> toM (Rroot t) = direct (0,0,0) t.
Proof. intros H. apply cbi_is_direct_sum. apply massive_ok; auto. Qed.

(** the code's compact representation is recovered from the direct sum by dividing by the subtree mass *)
Theorem cbi_compact_form t : cbi_ok t -> tmass t <> 0 ->
  let '(M, h, J) := direct (0,0,0) t in Rroot t = (M, v3_scale ROps (/ M) h, sym_scale ROps (/ M) J).
Proof. intros Hok Hm. rewrite <- (cbi_is_direct_sum t Hok). rewrite <- Rroot_mass in Hm.
  destruct (Rroot t) as [[m p] G]. dV p. destruct G as [[[a b] c] [[d e] f]]. unfold u_mass in Hm. cbn [fst] in Hm.
  munf. teq; field; auto. Qed.
End T.

(** ** the repaired recursion (children of zero composite mass are skipped; patches/C15_cbi_massless_chain.diff):
    exact for EVERY tree without negative masses - massless terminal bodies and all-massless subtrees included *)
Lemma toM_zero_mass (A : USpR) : u_mass A = 0 -> toM A = mzero.
Proof. dM A. unfold u_mass. cbn [fst]. intros ->. munf. teq; ring. Qed.
Lemma fold_G (L : list USpR) : forall R0, 0 <= u_mass R0 -> Forall (fun r => 0 <= u_mass r) L ->
  toM (fold_left (fun R r => if isZero ROps (u_mass r) then R else uspAdd ROps R r) L R0) = fold_left madd (map toM L) (toM R0)
  /\ u_mass (fold_left (fun R r => if isZero ROps (u_mass r) then R else uspAdd ROps R r) L R0) = fold_left Rplus (map u_mass L) (u_mass R0).
Proof. induction L as [|r L IH]; intros R0 H0 HL; cbn [fold_left map]; auto.
  inversion HL as [|? ? Hr HL']; subst. destruct (isZero ROps (u_mass r)) eqn:E.
  - apply isZero_true in E. rewrite (toM_zero_mass r E), madd_zero_r, E, Rplus_0_r. apply IH; auto.
  - apply isZero_false in E. assert (Hs : u_mass R0 + u_mass r <> 0) by lra.
    rewrite <- toM_add, <- mass_add by auto. apply IH; auto. rewrite mass_add. lra. Qed.

Section TG.
Context {X : Type} (xl : X -> Vec3 R) (xM : X -> USpR).
Notation cbiGR := (cbiG ROps xl xM).
Definition RrootG (t : tree X) : USpR := snd (root (cbiGR t)).
Definition nonneg (t : tree X) : Prop := Forall (fun x => 0 <= u_mass (xM x)) (flatten t).
Lemma nonneg_node x cs : nonneg (Node x cs) <-> 0 <= u_mass (xM x) /\ Forall nonneg cs.
Proof. unfold nonneg. cbn [flatten]. split.
  - intros H. inversion H as [|? ? H1 H2]; subst. split; auto. clear H H1. induction cs as [|c r IH]; constructor; cbn [flat_map] in H2; apply Forall_app in H2; destruct H2; auto.
  - intros [H1 H2]. constructor; auto. clear H1. induction cs as [|c r IH]; cbn [flat_map]; [constructor|]. inversion H2; subst. apply Forall_app. split; auto. Qed.
Lemma cbiG_node x cs : cbiGR (Node x cs) = Node (x, cbiStepG ROps xl xM x (map root (map cbiGR cs))) (map cbiGR cs).
Proof. reflexivity. Qed.
Lemma root_cbiG_fst t : fst (root (cbiGR t)) = root t.
Proof. destruct t; reflexivity. Qed.
Lemma cbiStepG_fold x (rs : list (X * USpR)) :
  cbiStepG ROps xl xM x rs = fold_left (fun R r => if isZero ROps (u_mass r) then R else uspAdd ROps R r)
                                       (map (fun r => uspShift ROps (v3_neg ROps (xl (fst r))) (snd r)) rs) (xM x).
Proof. unfold cbiStepG. generalize (xM x). induction rs as [|r rs IH]; intros a; cbn [fold_left map]; auto. rewrite mass_shift. apply IH. Qed.

Lemma RrootG_mass_nonneg t : nonneg t -> u_mass (RrootG t) = tmass xM t /\ 0 <= tmass xM t.
Proof. induction t as [x cs IH] using tree_ind'. intros Hn. apply nonneg_node in Hn. destruct Hn as [H0 Hc].
  unfold RrootG. rewrite cbiG_node. cbn [root snd tmass]. rewrite cbiStepG_fold.
  set (L := map (fun r => uspShift ROps (v3_neg ROps (xl (fst r))) (snd r)) (map root (map cbiGR cs))).
  assert (HL : map u_mass L = map (tmass xM) cs /\ Forall (fun r => 0 <= u_mass r) L).
  { unfold L. clear L. induction cs as [|c r IHr]; cbn [map]; [split; [reflexivity|constructor]|].
    inversion IH as [|? ? IHc IHrest]; subst. inversion Hc as [|? ? Hc1 Hc2]; subst. destruct (IHr IHrest Hc2) as [E1 E2].
    destruct (IHc Hc1) as [Em Ep]. unfold RrootG in Em. split.
    - rewrite mass_shift, Em, E1. reflexivity.
    - constructor; auto. rewrite mass_shift, Em. exact Ep. }
  destruct HL as [HL1 HL2]. destruct (fold_G L (xM x) H0 HL2) as [_ Em]. rewrite Em, HL1. split; auto.
  clear Em. assert (Hp : Forall (fun m => 0 <= m) (map (tmass xM) cs)) by (rewrite <- HL1; clear -HL2; induction L; cbn; constructor; inversion HL2; auto).
  clear -H0 Hp. revert H0. generalize (u_mass (xM x)). induction (map (tmass xM) cs) as [|m l IHl]; intros a Ha; cbn [fold_left]; auto.
  inversion Hp; subst. apply IHl; auto. lra. Qed.

Theorem cbiG_is_direct_sum_gen : forall t, nonneg t -> forall o, mshift (v3_neg ROps o) (toM (RrootG t)) = direct xl xM o t.
Proof.
  induction t as [x cs IH] using tree_ind'. intros Hn o. apply nonneg_node in Hn. destruct Hn as [H0 Hc].
  unfold RrootG. rewrite cbiG_node. cbn [root snd]. rewrite cbiStepG_fold.
  set (L := map (fun r => uspShift ROps (v3_neg ROps (xl (fst r))) (snd r)) (map root (map cbiGR cs))).
  assert (HL : Forall (fun r => 0 <= u_mass r) L).
  { unfold L. clear L. induction cs as [|c r IHr]; cbn [map]; constructor.
    - inversion Hc; subst. rewrite mass_shift. destruct (RrootG_mass_nonneg c) as [Em Ep]; auto. unfold RrootG in Em. rewrite Em. exact Ep.
    - inversion IH; subst. inversion Hc; subst. apply IHr; auto. }
  destruct (fold_G L (xM x) H0 HL) as [E _]. rewrite E. clear E.
  rewrite fold_left_madd, mshift_madd, mshift_msum.
  unfold direct. cbn [offs map]. change (msum (?a :: ?l)) with (madd a (msum l)). cbn [fst snd]. f_equal.
  clear HL. unfold L. clear L. rewrite !map_map.
  induction cs as [|c r IHr]; cbn [map flat_map]; [reflexivity|].
  inversion IH as [|? ? IHc IHrest]; subst. inversion Hc as [|? ? Hc1 Hc2]; subst.
  rewrite map_app, msum_app. change (msum (?a :: ?l)) with (madd a (msum l)). f_equal.
  - rewrite toM_shift, mshift_mshift, v3_neg_add, root_cbiG_fst. apply (IHc Hc1).
  - apply IHr; auto.
Qed.
(** with the repair, non-negative masses suffice: the recursion's root value is the direct sum over the subtree *)
Theorem cbiG_is_direct_sum t : nonneg t -> toM (RrootG t) = direct xl xM (0,0,0) t.
Proof. intros H. rewrite <- (cbiG_is_direct_sum_gen t H (0,0,0)).
  replace (v3_neg ROps (0,0,0)) with ((0,0,0) : Vec3 R) by (vunf; teq; ring). rewrite mshift_zero_vec. reflexivity. Qed.
End TG.

(** the defect of the current code, on the float side only (over R, 1/0 is a number and nothing is visible): the
    witness tree  B1(m=2) - B2(m=0) - B3(m=0)  violates [cbi_ok] but satisfies [nonneg] *)
Example massless_chain_outside_domain :
  let mk (m : R) : Vec3 R * USpR := ((1,0,0), (m, (0,0,0), ((0,0,0),(0,0,0)))) in
  let t := Node (mk 2) [Node (mk 0) [Node (mk 0) []]] in
  ~ cbi_ok snd t /\ nonneg snd t.
Proof. cbv zeta. split.
  - cbn. intros [_ [[[H _] _] _]]. apply H. lra.
  - unfold nonneg. cbn. repeat constructor; cbn; lra. Qed.

(** non-vacuity: a massless base body carrying a massive leaf and a massive body that carries a massive leaf *)
Example cbi_hyp_satisfiable :
  let mk (m : R) : Vec3 R * USpR := ((1,0,0), (m, (0,1,0), ((1,1,1),(0,0,0)))) in
  let t := Node (mk 0) [Node (mk 1) []; Node (mk 2) [Node (mk 3) []]] in
  massive snd t /\ cbi_ok snd t /\ tmass snd t = 6.
Proof. cbv zeta. repeat split; cbn; try lra; try congruence; try (intros; lra). Qed.
