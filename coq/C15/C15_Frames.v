(** C15: the body-frame layer.  simbody stores mass centre and unit inertia in the body frame B; two of the anchored
    code paths (MassProperties::calcTransformedMassProps(~X_GB) inside calcSystemMassPropertiesInGround, and
    MobilizedBody::calcBodyMomentumAboutBodyMassCenterInGround) shift / take the central inertia IN B and re-express
    afterwards.  For every orthonormal R these equal the Ground-frame formulas of C15_Model applied to [toG b], so
    all theorems of C15_Proofs.v apply to [map toG bodies]. *)
From Coq Require Import List Reals Lra Psatz Nsatz.
Import ListNotations.
Require Import Num Vec Tactics Tree C15_Model C15_Proofs.
Local Open Scope R_scope.

Notation bodyBR := (@bodyB R).
Definition orthonormal (M : Mat33 R) : Prop :=
  m33_mul ROps M (m33_T M) = m33_id ROps /\ m33_mul ROps (m33_T M) M = m33_id ROps.
Ltac dM33 M := destruct M as [[[[?r00 ?r01] ?r02] [[?r10 ?r11] ?r12]] [[?r20 ?r21] ?r22]].
Ltac frunf := cbv [reexpressSym toG centralInertiaB transformedMassPropsB bodyCentralMomentumB f_m f_c f_G f_R f_r f_V f_A]; c15unf.

(** re-expression is linear *)
Lemma reexpress_add M A B : reexpressSym ROps M (sym_add ROps A B) = sym_add ROps (reexpressSym ROps M A) (reexpressSym ROps M B).
Proof. dM33 M. destruct A as [[[? ?] ?] [[? ?] ?]], B as [[[? ?] ?] [[? ?] ?]]. frunf. teq; ring. Qed.
Lemma reexpress_sub M A B : reexpressSym ROps M (sym_sub ROps A B) = sym_sub ROps (reexpressSym ROps M A) (reexpressSym ROps M B).
Proof. dM33 M. destruct A as [[[? ?] ?] [[? ?] ?]], B as [[[? ?] ?] [[? ?] ?]]. frunf. teq; ring. Qed.
Lemma reexpress_scale M k A : reexpressSym ROps M (sym_scale ROps k A) = sym_scale ROps k (reexpressSym ROps M A).
Proof. dM33 M. destruct A as [[[? ?] ?] [[? ?] ?]]. frunf. teq; ring. Qed.
(** the inertia of a point mass rotates with the point: R (m(|x|^2 1 - x x^T)) R^T = m(|Rx|^2 1 - (Rx)(Rx)^T) *)
Lemma reexpress_pointMass M x m : orthonormal M ->
  reexpressSym ROps M (pointMassAt ROps x m) = pointMassAt ROps (m33_mulv ROps M x) m.
Proof. dM33 M. destruct x as [[x y] z]. unfold orthonormal. frunf. intros [H1 H2].
  injection H1 as A1 A2 A3 A4 A5 A6 A7 A8 A9. injection H2 as B1 B2 B3 B4 B5 B6 B7 B8 B9.
  teq; solve [nsatz]. Qed.
(** R (R^T r) = r *)
Lemma mul_Tmul M r : orthonormal M -> m33_mulv ROps M (m33_Tmulv ROps M r) = r.
Proof. dM33 M. destruct r as [[x y] z]. unfold orthonormal. vunf. intros [H1 H2].
  injection H1 as A1 A2 A3 A4 A5 A6 A7 A8 A9. injection H2 as B1 B2 B3 B4 B5 B6 B7 B8 B9. teq; solve [nsatz]. Qed.
Lemma mulv_sub M a b : m33_mulv ROps M (v3_sub ROps a b) = v3_sub ROps (m33_mulv ROps M a) (m33_mulv ROps M b).
Proof. dM33 M. destruct a as [[? ?] ?], b as [[? ?] ?]. vunf. teq; ring. Qed.
Lemma mulv_neg M a : m33_mulv ROps M (v3_neg ROps a) = v3_neg ROps (m33_mulv ROps M a).
Proof. dM33 M. destruct a as [[? ?] ?]. vunf. teq; ring. Qed.

(** the central inertia taken in B and re-expressed is the central inertia of the Ground-frame data *)
Lemma centralInertia_toG (b : bodyBR) : orthonormal (f_R b) ->
  reexpressSym ROps (f_R b) (centralInertiaB ROps b) = centralInertia ROps (toG ROps b).
Proof. intros H. unfold centralInertiaB, centralInertia. rewrite reexpress_sub, reexpress_scale, reexpress_pointMass by auto. reflexivity. Qed.

(** calcBodyMomentumAboutBodyMassCenterInGround (central inertia in B, then re-expressed) = Ground-frame formula *)
Theorem bodyCentralMomentumB_is_G (b : bodyBR) : orthonormal (f_R b) ->
  bodyCentralMomentumB ROps b = bodyCentralMomentum ROps (toG ROps b).
Proof. intros H. unfold bodyCentralMomentumB, bodyCentralMomentum. rewrite centralInertia_toG by auto. reflexivity. Qed.

(** calcTransformedMassProps(~X_GB) (shift in B to the Ground origin, then re-express) = Ground-frame formula *)
Theorem transformedMassPropsB_is_G (b : bodyBR) : orthonormal (f_R b) ->
  transformedMassPropsB ROps b
  = (g_m (toG ROps b), massCenterInGround ROps (toG ROps b), bodyUnitInertiaAboutGround ROps (toG ROps b)).
Proof. intros H. unfold transformedMassPropsB, bodyUnitInertiaAboutGround. f_equal.
  rewrite reexpress_add, centralInertia_toG, reexpress_pointMass by auto.
  rewrite mulv_sub, mulv_neg, mul_Tmul by auto. f_equal. f_equal. f_equal.
  unfold massCenterInGround, toG. cbn [g_r g_p]. generalize (m33_mulv ROps (f_R b) (f_c b)) (f_r b). intros [[a1 a2] a3] [[b1 b2] b3]. vunf. teq; ring. Qed.

(** non-vacuity: a rotation by 90 degrees about z is orthonormal *)
Example orthonormal_satisfiable : orthonormal ((0,-1,0),(1,0,0),(0,0,1)).
Proof. unfold orthonormal. vunf. split; teq; ring. Qed.
