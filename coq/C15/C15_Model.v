(** C15 model (hand-written, generic in [NumOps]): the system aggregate calculators of
    SimbodyMatterSubsystem.cpp and the composite-body-inertia inward recursion of
    RigidBodyNode::calcCompositeBodyInertiasInward, as the code computes them.

    Per-body input, everything expressed in Ground (the harness re-expresses the body-frame mass
    properties with plain matrix arithmetic):
      m   mass                         r   body origin OB in G (X_GB.p())
      p   vector OB -> mass centre     G   UNIT inertia about OB  (simbody stores inertia/mass)
      V   spatial velocity V_GB        A   spatial acceleration A_GB
    No proofs in this file. *)
From Coq Require Import List Arith.
Import ListNotations.
Require Import Num Vec Tree.

Section M. Context {T:Type} (K:NumOps T).
Local Notation "x + y" := (nadd K x y). Local Notation "x * y" := (nmul K x y). Local Notation "x - y" := (nsub K x y).
Local Notation "x / y" := (ndiv K x y).

(** the C++ test [x != 0] is [negb (isZero x)] *)
Definition isZero (x:T) : bool := andb (nleb K x (n0 K)) (nleb K (n0 K) x).
Definition sym0 : SymMat33 T := (v3_zero K, v3_zero K).
Definition sv0 : SpatialVec T := (v3_zero K, v3_zero K).

(** Inertia_::pointMassAt(p,m) = m (|p|^2 1 - p p^T), in the order the code evaluates it *)
Definition pointMassAt (p:Vec3 T) (m:T) : SymMat33 T :=
  let '(x,y,z) := p in
  let mx := m*x in let my := m*y in let mz := m*z in
  let mxx := mx*x in let myy := my*y in let mzz := mz*z in
  ((myy+mzz, mxx+mzz, mxx+myy), ((nopp K mx)*y, (nopp K mx)*z, (nopp K my)*z)).
(** UnitInertia_::pointMassAt(p) = crossMatSq(p) = |p|^2 1 - p p^T *)
Definition uPointMass (p:Vec3 T) : SymMat33 T :=
  let '(x,y,z) := p in
  let xx := x*x in let yy := y*y in let zz := z*z in
  ((yy+zz, xx+zz, xx+yy), (nopp K (x*y), nopp K (x*z), nopp K (y*z))).

Record body := mkBody { g_m : T; g_r : Vec3 T; g_p : Vec3 T; g_G : SymMat33 T; g_V : SpatialVec T; g_A : SpatialVec T }.

(** accumulation loops  [acc = 0; for b: acc += f(b)]  *)
Definition sumT (f : body -> T) (bs : list body) : T := fold_left (fun a b => a + f b) bs (n0 K).
Definition sumV (f : body -> Vec3 T) (bs : list body) : Vec3 T := fold_left (fun a b => v3_add K a (f b)) bs (v3_zero K).
Definition sumS (f : body -> SymMat33 T) (bs : list body) : SymMat33 T := fold_left (fun a b => sym_add K a (f b)) bs sym0.

(** MobilizedBody helpers, in G *)
Definition massCenterInGround (b:body) : Vec3 T := v3_add K (g_r b) (g_p b).                (* X_GB * com *)
Definition stationVel (b:body) : Vec3 T :=                                                   (* findStationVelocityInGround(com): v + w % r *)
  v3_add K (snd (g_V b)) (v3_cross K (fst (g_V b)) (g_p b)).
Definition stationAcc (b:body) : Vec3 T :=                                                   (* a + b % r + w % (w % r) *)
  let w := fst (g_V b) in
  v3_add K (v3_add K (snd (g_A b)) (v3_cross K (fst (g_A b)) (g_p b))) (v3_cross K w (v3_cross K w (g_p b))).
(** MassProperties::calcCentralInertia(), re-expressed in G:  m*G - Inertia(com, m) *)
Definition centralInertia (b:body) : SymMat33 T := sym_sub K (sym_scale K (g_m b) (g_G b)) (pointMassAt (g_p b) (g_m b)).
(** calcBodyMomentumAboutBodyMassCenterInGround = (I_c w, m v_c) *)
Definition bodyCentralMomentum (b:body) : SpatialVec T :=
  (sym_mulv K (centralInertia b) (fst (g_V b)), v3_scale K (g_m b) (stationVel b)).

(** [if (mass != 0) v /= mass] *)
Definition divIfNonzero (mass:T) (v:Vec3 T) : Vec3 T :=
  if isZero mass then v else let '(x,y,z) := v in (x/mass, y/mass, z/mass).

Definition calcSystemMass (bs:list body) : T := sumT g_m bs.
Definition weightedCom (bs:list body) : Vec3 T := sumV (fun b => v3_scale K (g_m b) (massCenterInGround b)) bs.
Definition calcSystemMassCenterLocationInGround (bs:list body) : Vec3 T :=
  divIfNonzero (calcSystemMass bs) (weightedCom bs).
Definition calcSystemMassCenterVelocityInGround (bs:list body) : Vec3 T :=
  divIfNonzero (calcSystemMass bs) (sumV (fun b => v3_scale K (g_m b) (stationVel b)) bs).
Definition calcSystemMassCenterAccelerationInGround (bs:list body) : Vec3 T :=
  divIfNonzero (calcSystemMass bs) (sumV (fun b => v3_scale K (g_m b) (stationAcc b)) bs).

(** MassProperties_(m, com, Inertia): the inertia is divided by the mass (unit inertia), 0 if m == 0 *)
Definition toUnitInertia (m:T) (I:SymMat33 T) : SymMat33 T :=
  if isZero m then sym0 else sym_scale K (n1 K / m) I.
(** getUnitInertia() of  MB_OB_B.calcTransformedMassProps(~X_GB):
      calcShiftedInertia(newOrigin) = calcCentralInertia() + Inertia(newOrigin - com, m),
    with (newOrigin - com) re-expressed in G = -(r + p) *)
Definition bodyUnitInertiaAboutGround (b:body) : SymMat33 T :=
  toUnitInertia (g_m b) (sym_add K (centralInertia b) (pointMassAt (v3_neg K (massCenterInGround b)) (g_m b))).
(** calcSystemMassPropertiesInGround: (mass, com, inertia about OG) *)
Definition sysInertiaAboutGround (bs:list body) : SymMat33 T :=
  sumS (fun b => sym_scale K (g_m b) (bodyUnitInertiaAboutGround b)) bs.
(** calcSystemMassPropertiesInGround(s).getInertia() = mass * (I/mass) *)
Definition sysMassPropsInertia (bs:list body) : SymMat33 T :=
  let mass := calcSystemMass bs in sym_scale K mass (toUnitInertia mass (sysInertiaAboutGround bs)).
(** calcSystemCentralInertiaInGround = MassProperties(mass, com, I).calcCentralInertia() *)
Definition calcSystemCentralInertiaInGround (bs:list body) : SymMat33 T :=
  let mass := calcSystemMass bs in
  let com := calcSystemMassCenterLocationInGround bs in
  let unit := toUnitInertia mass (sysInertiaAboutGround bs) in
  sym_sub K (sym_scale K mass unit) (pointMassAt com mass).

Definition calcSystemMomentumAboutGroundOrigin (bs:list body) : SpatialVec T :=
  (sumV (fun b => let mom := bodyCentralMomentum b in v3_add K (fst mom) (v3_cross K (massCenterInGround b) (snd mom))) bs,
   sumV (fun b => snd (bodyCentralMomentum b)) bs).
Definition calcSystemCentralMomentum (bs:list body) : SpatialVec T :=
  let mom := calcSystemMomentumAboutGroundOrigin bs in
  let com := calcSystemMassCenterLocationInGround bs in
  (v3_sub K (fst mom) (v3_cross K com (snd mom)), snd mom).

(** *** body-frame data as simbody stores it (mass centre and unit inertia in B, pose X_GB = (R, r)) and its
    re-expression in Ground; the two code paths that work in B before re-expressing are modelled in that order *)
Record bodyB := mkBodyB { f_m : T; f_c : Vec3 T; f_G : SymMat33 T; f_R : Mat33 T; f_r : Vec3 T; f_V : SpatialVec T; f_A : SpatialVec T }.
(** Inertia::reexpress:  R * I * ~R  (kept as a symmetric matrix: lower triangle) *)
Definition reexpressSym (M:Mat33 T) (S:SymMat33 T) : SymMat33 T :=
  sym_of_m33_lower (m33_mul K (m33_mul K M (sym_to_m33 S)) (m33_T M)).
Definition toG (b:bodyB) : body :=
  mkBody (f_m b) (f_r b) (m33_mulv K (f_R b) (f_c b)) (reexpressSym (f_R b) (f_G b)) (f_V b) (f_A b).
Definition centralInertiaB (b:bodyB) : SymMat33 T := sym_sub K (sym_scale K (f_m b) (f_G b)) (pointMassAt (f_c b) (f_m b)).
(** MB_OB_B.calcTransformedMassProps(~X_GB) = MassProperties(m, X_GB*com, calcShiftedInertia((~X_GB).p()).reexpress(R_BG)):
    (mass, mass centre from OG in G, unit inertia about OG in G); the shift is done in B, then re-expressed *)
Definition transformedMassPropsB (b:bodyB) : T * Vec3 T * SymMat33 T :=
  let newOrigin := v3_neg K (m33_Tmulv K (f_R b) (f_r b)) in
  let shifted := sym_add K (centralInertiaB b) (pointMassAt (v3_sub K newOrigin (f_c b)) (f_m b)) in
  (f_m b, v3_add K (f_r b) (m33_mulv K (f_R b) (f_c b)), toUnitInertia (f_m b) (reexpressSym (f_R b) shifted)).
(** MobilizedBody::calcBodyMomentumAboutBodyMassCenterInGround: central inertia in B, re-expressed, times w; m * v_c *)
Definition bodyCentralMomentumB (b:bodyB) : SpatialVec T :=
  (sym_mulv K (reexpressSym (f_R b) (centralInertiaB b)) (fst (f_V b)),
   v3_scale K (f_m b) (v3_add K (snd (f_V b)) (v3_cross K (fst (f_V b)) (m33_mulv K (f_R b) (f_c b))))).

(** SpatialInertia (compact form used by the code): mass, vector to the mass centre, UNIT inertia about the origin *)
Definition USp := (T * Vec3 T * SymMat33 T)%type.
Definition u_mass (M:USp) : T := fst (fst M).
(** SpatialInertia::operator*(SpatialVec) = m*(G w + p % v, v - p % w) *)
Definition uspMul (M:USp) (V:SpatialVec T) : SpatialVec T :=
  let '(m,p,G) := M in
  sv_scale K m (v3_add K (sym_mulv K G (fst V)) (v3_cross K p (snd V)), v3_sub K (snd V) (v3_cross K p (fst V))).
Definition bodyMk (b:body) : USp := (g_m b, g_p b, g_G b).
(** RigidBodyNode::calcKineticEnergy = dot(V, Mk V)/2, summed over the bodies *)
Definition calcKineticEnergy (bs:list body) : T :=
  sumT (fun b => sv_dot K (g_V b) (uspMul (bodyMk b) (g_V b)) / (n1 K + n1 K)) bs.

(** SpatialInertia::shift(S): origin moved from O to O+S *)
Definition uspShift (S:Vec3 T) (M:USp) : USp :=
  let '(m,p,G) := M in
  let Gc := sym_sub K G (uPointMass p) in
  let pNew := v3_sub K p S in
  (m, pNew, sym_add K Gc (uPointMass pNew)).
(** SpatialInertia::operator+= (divides by the combined mass) *)
Definition uspAdd (A B:USp) : USp :=
  let '(ma,pa,Ga) := A in let '(mb,pb,Gb) := B in
  let mtot := ma + mb in let oomtot := n1 K / mtot in
  (mtot, v3_scale K oomtot (v3_add K (v3_scale K ma pa) (v3_scale K mb pb)),
   sym_scale K oomtot (sym_add K (sym_scale K ma Ga) (sym_scale K mb Gb))).

(** composite body inertias, inward:  R = Mk; for each child: R += RChild.shift(-phiChild.l()) *)
Section CBI.
Context {X:Type} (xl : X -> Vec3 T) (xM : X -> USp).
Definition cbiStep (x:X) (rs:list (X*USp)) : USp :=
  fold_left (fun R r => uspAdd R (uspShift (v3_neg K (xl (fst r))) (snd r))) rs (xM x).
Definition cbi (t:tree X) : tree (X*USp) := inward cbiStep t.
(** the recursion with the repair proposed in patches/C15_cbi_massless_chain.diff (NOT the current code): a child whose
    composite mass is exactly zero is skipped, so 0/0 never occurs *)
Definition cbiStepG (x:X) (rs:list (X*USp)) : USp :=
  fold_left (fun R r => if isZero (u_mass (snd r)) then R else uspAdd R (uspShift (v3_neg K (xl (fst r))) (snd r))) rs (xM x).
Definition cbiG (t:tree X) : tree (X*USp) := inward cbiStepG t.
End CBI.

(** executable entry points for the correspondence run *)
Record cbx := mkCbx { c_idx : nat; c_par : nat; c_l : Vec3 T; c_body : body }.
Definition mkCbxB (i p:nat) (l:Vec3 T) (b:bodyB) : cbx := mkCbx i p l (toG b).
Fixpoint buildT (fuel:nat) (bodies:list cbx) (x:cbx) : tree cbx :=
  match fuel with
  | O => Node x []
  | S f => Node x (map (buildT f bodies) (filter (fun b => andb (Nat.eqb (c_par b) (c_idx x)) (negb (Nat.eqb (c_idx b) (c_idx x)))) bodies))
  end.
(** the base bodies (parent = Ground = 0) are the roots of the forest; Ground itself has infinite
    inertia in the code and is not modelled *)
Definition forest (bodies:list cbx) : list (tree cbx) :=
  map (buildT (length bodies) bodies) (filter (fun b => andb (Nat.eqb (c_par b) 0) (negb (Nat.eqb (c_idx b) 0))) bodies).
Definition out_cbi (bodies:list cbx) : list (nat * USp) :=
  flat_map (fun t => map (fun xr => (c_idx (fst xr), snd xr)) (flatten (cbi c_l (fun x => bodyMk (c_body x)) t))) (forest bodies).
Definition out_cbiG (bodies:list cbx) : list (nat * USp) :=
  flat_map (fun t => map (fun xr => (c_idx (fst xr), snd xr)) (flatten (cbiG c_l (fun x => bodyMk (c_body x)) t))) (forest bodies).
End M.
