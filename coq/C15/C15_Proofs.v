(** C15 theorems about the aggregate calculators of C15_Model.v, for EVERY list of bodies, over R. *)
From Coq Require Import List Reals Lra Psatz.
Import ListNotations.
Require Import Num Vec Tactics Tree MB Spatial C15_Model.
Local Open Scope R_scope.

Notation bodyR := (@body R).
Ltac dbody b := destruct b as [?m [[?rx ?ry] ?rz] [[?px ?py] ?pz] [[[?gxx ?gyy] ?gzz] [[?gxy ?gxz] ?gyz]]
                               [[[?wx ?wy] ?wz] [[?vx ?vy] ?vz]] [[[?bx ?by_] ?bz] [[?ax ?ay] ?az]]].
Ltac c15unf := cbv [massCenterInGround stationVel stationAcc centralInertia bodyCentralMomentum pointMassAt uPointMass
                    bodyMk uspMul uspShift uspAdd u_mass sym0 sv0 g_m g_r g_p g_G g_V g_A shiftForce shiftVel spInertiaMul]; vunf.

(** ** the accumulation loops are sums *)
Lemma fold_add_lsum {A} (f : A -> R) l a0 : fold_left (fun a b => a + f b) l a0 = a0 + lsum (map f l).
Proof. revert a0; induction l as [|b l IH]; intros a0; cbn [fold_left map].
  - unfold lsum; cbn; lra.
  - rewrite IH, lsum_cons; lra. Qed.
Lemma sumT_lsum (f : bodyR -> R) bs : sumT ROps f bs = lsum (map f bs).
Proof. unfold sumT. cbn [nadd n0 ROps]. rewrite fold_add_lsum. lra. Qed.

Definition vsum {A} (f : A -> Vec3 R) (l : list A) : Vec3 R :=
  (lsum (map (fun b => v3_0 (f b)) l), lsum (map (fun b => v3_1 (f b)) l), lsum (map (fun b => v3_2 (f b)) l)).
Lemma fold_vadd_vsum {A} (f : A -> Vec3 R) l a0 :
  fold_left (fun a b => v3_add ROps a (f b)) l a0 = v3_add ROps a0 (vsum f l).
Proof. revert a0; induction l as [|b l IH]; intros a0; cbn [fold_left].
  - destruct a0 as [[x y] z]. unfold vsum, lsum. cbn. teq; lra.
  - rewrite IH. unfold vsum. cbn [map]. rewrite !lsum_cons. destruct a0 as [[x y] z]. destruct (f b) as [[p q] r].
    vunf. teq; lra. Qed.
Lemma sumV_vsum (f : bodyR -> Vec3 R) bs : sumV ROps f bs = vsum f bs.
Proof. unfold sumV. rewrite fold_vadd_vsum. destruct (vsum f bs) as [[x y] z]. vunf. teq; lra. Qed.

Definition ssum {A} (f : A -> SymMat33 R) (l : list A) : SymMat33 R := (vsum (fun b => fst (f b)) l, vsum (fun b => snd (f b)) l).
Lemma fold_sadd_pair {A} (f : A -> SymMat33 R) l a0 :
  fold_left (fun a b => sym_add ROps a (f b)) l a0
  = (fold_left (fun a b => v3_add ROps a (fst (f b))) l (fst a0), fold_left (fun a b => v3_add ROps a (snd (f b))) l (snd a0)).
Proof. revert a0; induction l as [|b l IH]; intros a0; cbn [fold_left].
  - destruct a0; reflexivity.
  - rewrite IH. reflexivity. Qed.
Lemma sumS_ssum (f : bodyR -> SymMat33 R) bs : sumS ROps f bs = ssum f bs.
Proof. unfold sumS, ssum. rewrite fold_sadd_pair. cbn [fst snd sym0].
  rewrite !fold_vadd_vsum. f_equal.
  - destruct (vsum (fun b => fst (f b)) bs) as [[x y] z]. vunf. teq; lra.
  - destruct (vsum (fun b => snd (f b)) bs) as [[x y] z]. vunf. teq; lra. Qed.

Definition svsum {A} (f : A -> SpatialVec R) (l : list A) : SpatialVec R := (vsum (fun b => fst (f b)) l, vsum (fun b => snd (f b)) l).

(** [lsum] is linear *)
Lemma lsum_ext {A} (f g : A -> R) l : (forall x, f x = g x) -> lsum (map f l) = lsum (map g l).
Proof. intros E. induction l as [|a l IH]; cbn [map]; auto. rewrite !lsum_cons, IH, E. reflexivity. Qed.
Lemma lsum_lin {A} (k1 k2 : R) (f g : A -> R) l :
  lsum (map (fun x => k1 * f x + k2 * g x) l) = k1 * lsum (map f l) + k2 * lsum (map g l).
Proof. induction l as [|a l IH]; cbn [map]; [unfold lsum; cbn; lra|]. rewrite !lsum_cons, IH. lra. Qed.
Lemma lsum_scal {A} (k : R) (f : A -> R) l : lsum (map (fun x => k * f x) l) = k * lsum (map f l).
Proof. induction l as [|a l IH]; cbn [map]; [unfold lsum; cbn; lra|]. rewrite !lsum_cons, IH. lra. Qed.
Lemma lsum_nil_map {A} (f : A -> R) : lsum (map f []) = 0. Proof. reflexivity. Qed.

(** proves  lsum (map f bs) = E  where E is built from other sums over the same list and constants:
    both sides are additive in the list, so it suffices to compare the per-body increments *)
Ltac lsum_ind bs tac :=
  induction bs as [|?b bs ?IH];
  [ cbn [map]; unfold lsum; cbn [fold_right]; try ring
  | cbn [map]; rewrite !lsum_cons; rewrite IH; tac ].

(** the C++ zero test *)
Lemma isZero_true x : isZero ROps x = true <-> x = 0.
Proof. unfold isZero. cbn [nleb n0 ROps]. rewrite Bool.andb_true_iff, !Rleb_true. lra. Qed.
Lemma isZero_false x : isZero ROps x = false <-> x <> 0.
Proof. rewrite <- isZero_true. destruct (isZero ROps x); split; congruence. Qed.
Lemma divIfNonzero_nz M v : M <> 0 -> divIfNonzero ROps M v = v3_scale ROps (/ M) v.
Proof. intros H. unfold divIfNonzero. apply isZero_false in H. rewrite H. destruct v as [[x y] z]. vunf. unfold Rdiv. teq; ring. Qed.
Lemma scale_divIfNonzero M v : M <> 0 -> v3_scale ROps M (divIfNonzero ROps M v) = v.
Proof. intros H. rewrite divIfNonzero_nz by auto. destruct v as [[x y] z]. vunf. teq; field; auto. Qed.

(** ** first moments: M * (reported mass centre / velocity / acceleration) = sum of the per-body moments *)
Definition firstMoment (bs : list bodyR) : Vec3 R := vsum (fun b => v3_scale ROps (g_m b) (massCenterInGround ROps b)) bs.
Definition linearMomentum (bs : list bodyR) : Vec3 R := vsum (fun b => v3_scale ROps (g_m b) (stationVel ROps b)) bs.

Lemma mass_is_sum bs : calcSystemMass ROps bs = lsum (map g_m bs).
Proof. apply sumT_lsum. Qed.

Lemma com_times_mass bs : calcSystemMass ROps bs <> 0 ->
  v3_scale ROps (calcSystemMass ROps bs) (calcSystemMassCenterLocationInGround ROps bs) = firstMoment bs.
Proof. intros H. unfold calcSystemMassCenterLocationInGround, weightedCom. rewrite scale_divIfNonzero by auto. apply sumV_vsum. Qed.

(** system linear momentum = total mass x mass-centre velocity *)
Lemma momentum_is_mass_times_vcom bs : calcSystemMass ROps bs <> 0 ->
  snd (calcSystemMomentumAboutGroundOrigin ROps bs)
  = v3_scale ROps (calcSystemMass ROps bs) (calcSystemMassCenterVelocityInGround ROps bs).
Proof. intros H. unfold calcSystemMassCenterVelocityInGround. rewrite scale_divIfNonzero by auto.
  unfold calcSystemMomentumAboutGroundOrigin. cbn [snd]. rewrite !sumV_vsum. reflexivity. Qed.

(** the linear momentum is the sum of m_b * (mass-centre velocity of b) also when the total mass vanishes *)
Lemma linear_momentum_is_sum bs : snd (calcSystemMomentumAboutGroundOrigin ROps bs) = linearMomentum bs.
Proof. unfold calcSystemMomentumAboutGroundOrigin. cbn [snd]. rewrite sumV_vsum. reflexivity. Qed.

(** ** momentum about the Ground origin = sum over the bodies of the spatial momentum Mk_b V_b (about the body
    origin, the form used by C01/C14) shifted from the body origin to the Ground origin *)
Lemma momentum_about_origin_is_shifted_spatial_sum bs :
  calcSystemMomentumAboutGroundOrigin ROps bs
  = svsum (fun b => shiftForce ROps (g_r b) (uspMul ROps (bodyMk b) (g_V b))) bs.
Proof. unfold calcSystemMomentumAboutGroundOrigin, svsum. rewrite !sumV_vsum. unfold vsum.
  teq; apply lsum_ext; intros b; dbody b; c15unf; ring. Qed.

(** and = sum of (I_c w + c x m v_c, m v_c): central angular momentum plus the moment of the linear momentum *)
Lemma momentum_about_origin_parallel_axis bs :
  calcSystemMomentumAboutGroundOrigin ROps bs
  = svsum (fun b => (v3_add ROps (sym_mulv ROps (centralInertia ROps b) (fst (g_V b)))
                                  (v3_cross ROps (massCenterInGround ROps b) (v3_scale ROps (g_m b) (stationVel ROps b))),
                     v3_scale ROps (g_m b) (stationVel ROps b))) bs.
Proof. unfold calcSystemMomentumAboutGroundOrigin, svsum. rewrite !sumV_vsum. reflexivity. Qed.

(** central momentum = the momentum about the origin shifted to the system mass centre *)
Lemma central_momentum_is_shift bs :
  calcSystemCentralMomentum ROps bs
  = shiftForce ROps (v3_neg ROps (calcSystemMassCenterLocationInGround ROps bs)) (calcSystemMomentumAboutGroundOrigin ROps bs).
Proof. unfold calcSystemCentralMomentum. destruct (calcSystemMomentumAboutGroundOrigin ROps bs) as [[[a b] c] [[d e] f]].
  destruct (calcSystemMassCenterLocationInGround ROps bs) as [[x y] z]. c15unf. teq; ring. Qed.

(** shifting the angular momentum to ANY point C is the same as summing the per-body central momenta with
    lever arms measured from C (so the reported central momentum is the sum of I_c w + (c_b - C) x m v_c) *)
Lemma vsum_cross_const {A} (C : Vec3 R) (f : A -> Vec3 R) l :
  vsum (fun b => v3_cross ROps C (f b)) l = v3_cross ROps C (vsum f l).
Proof. destruct C as [[x y] z]. unfold vsum.
  assert (E : forall g h : A -> R, forall k1 k2, lsum (map (fun b => k1 * g b - k2 * h b) l) = k1 * lsum (map g l) - k2 * lsum (map h l)).
  { intros g h k1 k2. rewrite <- (lsum_ext (fun b => k1 * g b + (-k2) * h b)) by (intros; ring). rewrite lsum_lin. ring. }
  vunf. teq.
  - rewrite <- E. apply lsum_ext. intros b. destruct (f b) as [[p q] r]. ring.
  - rewrite <- E. apply lsum_ext. intros b. destruct (f b) as [[p q] r]. ring.
  - rewrite <- E. apply lsum_ext. intros b. destruct (f b) as [[p q] r]. ring. Qed.

Lemma lsum_plus {A} (f g : A -> R) l : lsum (map (fun x => f x + g x) l) = lsum (map f l) + lsum (map g l).
Proof. induction l as [|a l IH]; cbn [map]; [unfold lsum; cbn; lra|]. rewrite !lsum_cons, IH. lra. Qed.
Lemma vsum_add {A} (f g : A -> Vec3 R) l : vsum (fun b => v3_add ROps (f b) (g b)) l = v3_add ROps (vsum f l) (vsum g l).
Proof. unfold vsum. cbn [v3_add nadd ROps]. teq; rewrite <- lsum_plus; apply lsum_ext; intros b;
  destruct (f b) as [[? ?] ?], (g b) as [[? ?] ?]; reflexivity. Qed.

Lemma vsum_ext {A} (f g : A -> Vec3 R) l : (forall b, f b = g b) -> vsum f l = vsum g l.
Proof. intros E. unfold vsum. teq; apply lsum_ext; intros b; rewrite E; reflexivity. Qed.

Lemma central_momentum_about_any_point (C : Vec3 R) bs :
  fst (shiftForce ROps (v3_neg ROps C) (calcSystemMomentumAboutGroundOrigin ROps bs))
  = vsum (fun b => v3_add ROps (sym_mulv ROps (centralInertia ROps b) (fst (g_V b)))
                               (v3_cross ROps (v3_sub ROps (massCenterInGround ROps b) C) (v3_scale ROps (g_m b) (stationVel ROps b)))) bs.
Proof.
  rewrite momentum_about_origin_parallel_axis. unfold svsum, shiftForce. cbn [fst snd].
  set (F := fun b : bodyR => v3_add ROps (sym_mulv ROps (centralInertia ROps b) (fst (g_V b)))
                     (v3_cross ROps (massCenterInGround ROps b) (v3_scale ROps (g_m b) (stationVel ROps b)))).
  set (L := fun b : bodyR => v3_scale ROps (g_m b) (stationVel ROps b)).
  match goal with |- _ = vsum ?f bs => rewrite (vsum_ext f (fun b => v3_add ROps (F b) (v3_cross ROps (v3_neg ROps C) (L b)))) end.
  - rewrite vsum_add, vsum_cross_const. reflexivity.
  - intros b. unfold F, L. destruct C as [[cx cy] cz]. dbody b. c15unf. teq; ring. Qed.

(** ** M * a_com = sum of the linear parts of  Mk_b A_b + gyroscopic force  (system Newton's law; the
    per-body left-hand sides are what C14 balances against applied forces and reactions) *)
Definition gyroscopicForce (b : bodyR) : SpatialVec R :=
  let w := fst (g_V b) in
  sv_scale ROps (g_m b) (v3_cross ROps w (sym_mulv ROps (g_G b) w), v3_cross ROps w (v3_cross ROps w (g_p b))).
Lemma com_acceleration_is_total_inertial_force bs : calcSystemMass ROps bs <> 0 ->
  v3_scale ROps (calcSystemMass ROps bs) (calcSystemMassCenterAccelerationInGround ROps bs)
  = snd (svsum (fun b => sv_add ROps (uspMul ROps (bodyMk b) (g_A b)) (gyroscopicForce b)) bs).
Proof. intros H. unfold calcSystemMassCenterAccelerationInGround. rewrite scale_divIfNonzero by auto.
  rewrite sumV_vsum. unfold svsum. cbn [snd]. unfold vsum.
  teq; apply lsum_ext; intros b; dbody b; unfold gyroscopicForce; c15unf; ring. Qed.

(** ** kinetic energy: the spatial form (1/2) sum <Mk V, V> the code evaluates equals the classical
    (1/2) sum ( m |v_c|^2 + w . I_c w ) *)
Lemma ke_is_classical_sum bs :
  calcKineticEnergy ROps bs
  = lsum (map (fun b => (g_m b * v3_normSqr ROps (stationVel ROps b)
                         + v3_dot ROps (fst (g_V b)) (sym_mulv ROps (centralInertia ROps b) (fst (g_V b)))) / 2) bs).
Proof. unfold calcKineticEnergy. rewrite sumT_lsum. apply lsum_ext. intros b. dbody b. c15unf. field. Qed.

(** the code's compact spatial inertia (m, p, G) acts like the library's (m, p, I_O = m G) of Lib/Spatial.v,
    so calcKineticEnergy is (1/2) * sum of the terms <Mk V, V> of C01 *)
Lemma uspMul_is_spInertiaMul (b : bodyR) V :
  uspMul ROps (bodyMk b) V = spInertiaMul ROps (g_m b, g_p b, sym_scale ROps (g_m b) (g_G b)) V.
Proof. dbody b. destruct V as [[[w1 w2] w3] [[v1 v2] v3]]. c15unf. teq; ring. Qed.
Lemma ke_is_spatial_form bs :
  calcKineticEnergy ROps bs
  = / 2 * lsum (map (fun b => dot (svK ROps) (mapply (svK ROps) (g_m b, g_p b, sym_scale ROps (g_m b) (g_G b)) (g_V b)) (g_V b)) bs).
Proof. unfold calcKineticEnergy. rewrite sumT_lsum, <- lsum_scal. apply lsum_ext. intros b.
  cbn [dot mapply svK]. rewrite <- uspMul_is_spInertiaMul. dbody b. c15unf. field. Qed.

(** ** parallel-axis theorem for the system inertia *)
Lemma pointMassAt_scale p m : pointMassAt ROps p m = sym_scale ROps m (uPointMass ROps p).
Proof. destruct p as [[x y] z]. c15unf. teq; ring. Qed.

(** per-body inertia about an arbitrary point Q of Ground: central inertia + point mass at (c_b - Q) *)
Definition bodyInertiaAbout (Q : Vec3 R) (b : bodyR) : SymMat33 R :=
  sym_add ROps (centralInertia ROps b) (pointMassAt ROps (v3_sub ROps (massCenterInGround ROps b) Q) (g_m b)).
Definition inertiaAbout (Q : Vec3 R) (bs : list bodyR) : SymMat33 R := ssum (bodyInertiaAbout Q) bs.

(** what the code accumulates is the sum of the per-body inertias shifted to the Ground origin
    (the round trip through the unit inertia, inertia/m * m, is exact also for massless bodies) *)
Lemma toUnit_roundtrip m I : (m = 0 -> I = sym0 ROps) -> sym_scale ROps m (toUnitInertia ROps m I) = I.
Proof. intros H0. unfold toUnitInertia. destruct (isZero ROps m) eqn:E.
  - apply isZero_true in E. rewrite (H0 E). subst m. c15unf. teq; ring.
  - apply isZero_false in E. destruct I as [[[a b] c] [[d e] f]]. c15unf. unfold Rdiv. teq; field; auto. Qed.

Lemma sysInertiaAboutGround_is_sum bs : sysInertiaAboutGround ROps bs = inertiaAbout (v3_zero ROps) bs.
Proof. unfold sysInertiaAboutGround, inertiaAbout. rewrite sumS_ssum. unfold ssum.
  assert (E : forall b : bodyR, sym_scale ROps (g_m b) (bodyUnitInertiaAboutGround ROps b) = bodyInertiaAbout (v3_zero ROps) b).
  { intros b. unfold bodyUnitInertiaAboutGround. rewrite toUnit_roundtrip.
    - dbody b. unfold bodyInertiaAbout. c15unf. teq; ring.
    - intros Hm. dbody b. cbn [g_m] in Hm. subst. c15unf. teq; ring. }
  f_equal; apply vsum_ext; intros b; rewrite E; reflexivity. Qed.

(** the inertia reported by calcSystemMassPropertiesInGround is the sum of the per-body inertias about the Ground origin *)
Lemma system_inertia_about_ground_is_sum bs : calcSystemMass ROps bs <> 0 ->
  sysMassPropsInertia ROps bs = inertiaAbout (v3_zero ROps) bs.
Proof. intros H. unfold sysMassPropsInertia. rewrite toUnit_roundtrip by (intros; contradiction). apply sysInertiaAboutGround_is_sum. Qed.

(** sum_b m_b u(c_b - Q)  in terms of the moments: the identity behind the parallel-axis theorem.
    It is proved for an arbitrary point Q, by additivity in the list. *)
Lemma inertiaAbout_shift (Q : Vec3 R) bs :
  inertiaAbout Q bs
  = let M := lsum (map g_m bs) in let h := firstMoment bs in
    let '(qx,qy,qz) := Q in let '(hx,hy,hz) := h in
    sym_add ROps (inertiaAbout (v3_zero ROps) bs)
      ((M*(qy*qy+qz*qz) - 2*(hy*qy+hz*qz), M*(qx*qx+qz*qz) - 2*(hx*qx+hz*qz), M*(qx*qx+qy*qy) - 2*(hx*qx+hy*qy)),
       (hx*qy + hy*qx - M*qx*qy, hx*qz + hz*qx - M*qx*qz, hy*qz + hz*qy - M*qy*qz)).
Proof.
  destruct Q as [[qx qy] qz]. unfold inertiaAbout, ssum, firstMoment, vsum. cbv zeta. cbv beta iota.
  unfold sym_add. cbn [fst snd]. unfold v3_add. cbn [nadd ROps].
  teq; lsum_ind bs ltac:(dbody b; unfold bodyInertiaAbout; c15unf; ring).
Qed.

(** the reported system central inertia = sum over the bodies of (central inertia of b + point mass m_b at c_b - C),
    C the reported system mass centre: the parallel-axis theorem *)
Lemma central_inertia_parallel_axis bs : calcSystemMass ROps bs <> 0 ->
  calcSystemCentralInertiaInGround ROps bs = inertiaAbout (calcSystemMassCenterLocationInGround ROps bs) bs.
Proof.
  intros HM. unfold calcSystemCentralInertiaInGround.
  rewrite toUnit_roundtrip by (intros; contradiction).
  rewrite sysInertiaAboutGround_is_sum.
  rewrite (inertiaAbout_shift (calcSystemMassCenterLocationInGround ROps bs)).
  pose proof (com_times_mass bs HM) as Hc. rewrite mass_is_sum in *.
  set (M := lsum (map g_m bs)) in *. set (h := firstMoment bs) in *.
  destruct (calcSystemMassCenterLocationInGround ROps bs) as [[cx cy] cz]. destruct h as [[hx hy] hz].
  cbv zeta. cbv beta iota.
  revert Hc. vunf. intros Hc. injection Hc as Hx Hy Hz. subst hx hy hz.
  destruct (inertiaAbout (0,0,0) bs) as [[[a b] c] [[d e] f]]. c15unf. teq; ring. Qed.

(** ... and it does not depend on the intermediate point: summing the per-body inertias about ANY point Q and
    removing the point mass M at (C - Q) gives the same central inertia (the code uses Q = Ground origin) *)
Lemma central_inertia_independent_of_intermediate_point (Q : Vec3 R) bs : calcSystemMass ROps bs <> 0 ->
  let C := calcSystemMassCenterLocationInGround ROps bs in
  sym_sub ROps (inertiaAbout Q bs) (pointMassAt ROps (v3_sub ROps C Q) (calcSystemMass ROps bs)) = inertiaAbout C bs.
Proof.
  intros HM C. unfold C. rewrite (inertiaAbout_shift Q), (inertiaAbout_shift (calcSystemMassCenterLocationInGround ROps bs)).
  pose proof (com_times_mass bs HM) as Hc. rewrite mass_is_sum in *.
  set (M := lsum (map g_m bs)) in *. set (h := firstMoment bs) in *.
  destruct (calcSystemMassCenterLocationInGround ROps bs) as [[cx cy] cz]. destruct h as [[hx hy] hz]. destruct Q as [[qx qy] qz].
  cbv zeta. cbv beta iota.
  revert Hc. vunf. intros Hc. injection Hc as Hx Hy Hz. subst hx hy hz.
  destruct (inertiaAbout (0,0,0) bs) as [[[a b] c] [[d e] f]]. c15unf. teq; ring. Qed.

(** a system of massless bodies has zero reported central inertia (the [mass == 0] branch of the code) *)
Lemma central_inertia_massless bs : calcSystemMass ROps bs = 0 -> calcSystemCentralInertiaInGround ROps bs = sym0 ROps.
Proof. intros H. unfold calcSystemCentralInertiaInGround, toUnitInertia. rewrite H.
  assert (E : isZero ROps 0 = true) by (apply isZero_true; reflexivity). rewrite E.
  destruct (calcSystemMassCenterLocationInGround ROps bs) as [[x y] z]. c15unf. teq; ring. Qed.

(** non-vacuity of the hypothesis [total mass <> 0]: a massless and two massive bodies *)
Example agg_hyp_satisfiable :
  let b0 : bodyR := mkBody 0 (0,0,1) (1,1,1) ((0,0,0),(0,0,0)) ((1,0,0),(0,1,0)) ((0,0,0),(0,0,0)) in
  let b1 : bodyR := mkBody 1 (1,0,0) (0,1,0) ((1,1,1),(0,0,0)) ((0,0,1),(1,0,0)) ((0,1,0),(0,0,1)) in
  let b2 : bodyR := mkBody 2 (0,2,0) (0,0,1) ((2,2,1),(0,0,0)) ((0,1,0),(0,0,1)) ((1,0,0),(0,0,0)) in
  calcSystemMass ROps [b0; b1; b2] = 3 /\ calcSystemMass ROps [b0; b1; b2] <> 0
  /\ calcSystemMassCenterLocationInGround ROps [b0; b1; b2] = (1/3, 5/3, 2/3).
Proof. cbv zeta. assert (E : calcSystemMass ROps [mkBody 0 (0,0,1) (1,1,1) ((0,0,0),(0,0,0)) ((1,0,0),(0,1,0)) ((0,0,0),(0,0,0));
     mkBody 1 (1,0,0) (0,1,0) ((1,1,1),(0,0,0)) ((0,0,1),(1,0,0)) ((0,1,0),(0,0,1));
     mkBody 2 (0,2,0) (0,0,1) ((2,2,1),(0,0,0)) ((0,1,0),(0,0,1)) ((1,0,0),(0,0,0))] = 3).
  { unfold calcSystemMass, sumT. cbn. lra. }
  split; [exact E|]. split; [rewrite E; lra|].
  unfold calcSystemMassCenterLocationInGround. rewrite divIfNonzero_nz by (rewrite E; lra). rewrite E.
  unfold weightedCom, sumV. cbn. teq; lra. Qed.
