(** C16: realization results depend only on current state values -- executable model (no proofs here).

    A *staged cache machine* in the style of the C18 State model (stages as nat, "invalidate stage g" lowers the
    realized stage to g-1 and kills every cached value whose depends-on stage is >= g, lazily evaluated entries,
    entries with explicit prerequisites that are killed when the prerequisite changes), extended with a
    *dependency table*:
      - for every class of state variable (time, q, u, z, per-element force parameters, enable flags, locks,
        modelling option, gravity parameters) the stage its modification invalidates ([v_inv]), whether its setter
        is a no-op when the value is unchanged ([v_guard]), and the cached results its setter kills explicitly
        ([v_expl]: q/u prerequisites of the matter-subsystem kinematics caches, Force::Gravity's
        invalidateForceCache);
      - for every class of computed result (position kinematics, velocity kinematics, composite / articulated body
        inertias, per-element force contributions -- cached at Position for dependsOnlyOnPositions() elements --,
        Force::Gravity's own cache, the force totals, the accelerations) the stage below which it is dropped
        ([r_dep]), the stage whose realization computes it ([r_by]), the stage from which it may be evaluated on
        request ([r_lazy]) and what it reads ([r_reads]: variables and earlier results).
    Values are abstract: a computed result is the list of the values it read (a result is *some* function of what
    it reads, so two evaluations agree if they read the same values).  [build] assembles the table of one concrete
    small system from the per-class facts scanned from the source (coq/Gen/C16_table_gen.v, regenerated every run
    by translate/C16_table.py).  Evaluation counters are kept for the tie to the code (Force::Gravity's
    getNumEvaluations(), call counters of Custom force elements); they are not part of the visible results. *)
From Coq Require Import List Arith Bool PeanoNat.
Import ListNotations.

Definition stage := nat.   (* Empty=0 Topology=1 Model=2 Instance=3 Time=4 Position=5 Velocity=6 Dynamics=7 Acceleration=8 Report=9 Infinity=10 *)

Inductive src := SV (v:nat) | SR (r:nat).

Record vdesc := mkV { v_inv : stage; v_guard : bool; v_expl : list nat; v_reset : bool }.
Record rdesc := mkR { r_dep : stage; r_by : option stage; r_lazy : option stage; r_reads : list src; r_zero : option nat;
                      r_skip : option nat }.
(* [r_skip = Some v]: the result lives in memory that is never cleared and is (re)written by the realization of stage [r_by]
   only while variable v is non-zero (the z-derivative slot of a force element that is skipped while disabled); tables
   with such entries are not well-formed, they exist to state what goes wrong *)
Record table := mkT { t_vars : list vdesc; t_res : list rdesc }.

Definition dV : vdesc := mkV 1 false [] false.
Definition dR : rdesc := mkR 3 None None [] None None.
Definition vd (T:table) (v:nat) : vdesc := nth v (t_vars T) dV.
Definition rd (T:table) (r:nat) : rdesc := nth r (t_res T) dR.
Definition nvars (T:table) := length (t_vars T).
Definition nres (T:table) := length (t_res T).

Record mst := mkM { m_vals : list nat; m_stg : stage; m_slots : list (option (list nat)); m_cnt : list nat }.

Definition getval (vals:list nat) (v:nat) : nat := nth v vals 0.
Definition slot (s:mst) (r:nat) : option (list nat) := nth r (m_slots s) None.

Fixpoint upd_nth {A} (i:nat) (x:A) (l:list A) : list A :=
  match l, i with
  | [], _ => []
  | _::t, 0 => x :: t
  | y::t, S j => y :: upd_nth j x t
  end.
Fixpoint mapi_from {A B} (f:nat->A->B) (i:nat) (l:list A) : list B :=
  match l with [] => [] | x::t => f i x :: mapi_from f (S i) t end.
Fixpoint memn (x:nat) (l:list nat) : bool := match l with [] => false | y::t => (x =? y) || memn x t end.

(** what one evaluation of result r records: the values of the variables it reads and the cached values of the
    results it reads *)
Definition snap_src (vals:list nat) (slots:list (option (list nat))) (x:src) : list nat :=
  match x with SV v => [getval vals v] | SR r => match nth r slots None with Some l => l | None => [] end end.
Definition snap (T:table) (s:mst) (r:nat) : list nat := concat (map (snap_src (m_vals s) (m_slots s)) (r_reads (rd T r))).

Definition counts (T:table) (s:mst) (r:nat) : bool :=
  match r_zero (rd T r) with Some z => negb (getval (m_vals s) z =? 0) | None => true end.

Definition compute (T:table) (r:nat) (s:mst) : mst :=
  mkM (m_vals s) (m_stg s) (upd_nth r (Some (snap T s r)) (m_slots s))
      (if counts T s r then upd_nth r (S (nth r (m_cnt s) 0)) (m_cnt s) else m_cnt s).

Definition inputs_ready (T:table) (s:mst) (r:nat) : bool :=
  forallb (fun x => match x with SV _ => true | SR r' => match slot s r' with Some _ => true | None => false end end) (r_reads (rd T r)).

(** realization of stage k: every result computed by stage k that has no cached value is evaluated, in index order *)
Definition realize_stage (T:table) (k:stage) (s:mst) : mst :=
  let s1 := fold_left (fun s' r => match r_by (rd T r) with
                                   | Some b => if b =? k then
                                                 match r_skip (rd T r) with
                                                 | Some v => if getval (m_vals s') v =? 0 then s' else compute T r s'
                                                 | None => match slot s' r with None => compute T r s' | Some _ => s' end
                                                 end
                                               else s'
                                   | None => s' end) (seq 0 (nres T)) s in
  mkM (m_vals s1) k (m_slots s1) (m_cnt s1).

(** System::realize(state, g) *)
Definition realize (T:table) (g:stage) (s:mst) : mst :=
  fold_left (fun s' k => realize_stage T k s') (seq (S (m_stg s)) (g - m_stg s)) s.

(** evaluation on request (realizePositionKinematics, Gravity::getBodyForces, ...): allowed from stage [r_lazy] on and
    when everything it reads from other results is available; does nothing if a value is cached *)
Definition query (T:table) (r:nat) (s:mst) : mst :=
  match r_lazy (rd T r), slot s r with
  | Some l, None => if (l <=? m_stg s) && inputs_ready T s r then compute T r s else s
  | _, _ => s
  end.

(** a variable is given a new value *)
Definition setvar (T:table) (v x:nat) (s:mst) : mst :=
  if negb (v <? nvars T) then s
  else let d := vd T v in
  if v_guard d && (getval (m_vals s) v =? x) then s
  else
    let ns := Nat.max 2 (Nat.min (m_stg s) (v_inv d - 1)) in
    let vals1 := if v_inv d <=? 2 then mapi_from (fun i y => if v_reset (vd T i) then 0 else y) 0 (m_vals s) else m_vals s in
    mkM (upd_nth v x vals1) ns
        (mapi_from (fun r sl => match r_skip (rd T r) with
                                | Some _ => sl
                                | None => if (ns <? r_dep (rd T r)) || memn r (v_expl d) then None else sl end) 0 (m_slots s))
        (m_cnt s).

(** State copy construction (the history continues on the copy): variables and the realized stage are kept through Instance;
    every cached value above that, and every cache entry with explicit prerequisites, reads invalid in the copy (C18
    copy_stage_rule / g_copy); the evaluation counters belong to the System, not to the State *)
Definition copy_state (T:table) (s:mst) : mst := mkM (m_vals s) (Nat.min (m_stg s) 3) (repeat None (nres T)) (m_cnt s).

Inductive op := SetVar (v x:nat) | Realize (g:stage) | Query (r:nat) | Copy.

Definition step (T:table) (s:mst) (o:op) : mst :=
  match o with SetVar v x => setvar T v x s | Realize g => realize T g s | Query r => query T r s | Copy => copy_state T s end.
Definition run (T:table) (s:mst) (l:list op) : mst := fold_left (step T) l s.

(** a newly created State holding the given values, realized through Model *)
Definition init (T:table) (vals:list nat) : mst := mkM vals 2 (repeat None (nres T)) (repeat 0 (nres T)).

(** ---------------------------------------------------------------- what is visible *)
Definition eager_visible (T:table) (g:stage) (r:nat) : bool :=
  match r_by (rd T r) with Some b => b <=? g | None => false end.
Definition lazy_visible (T:table) (g:stage) (r:nat) : bool :=
  match r_lazy (rd T r) with
  | Some l => (l <=? g) && forallb (fun x => match x with SV _ => true | SR r' => eager_visible T g r' end) (r_reads (rd T r))
  | None => false end.
(** the value an observer gets for result r: the cached value if the stage guarantees it, the value after evaluation on
    request if that is permitted at the current stage, nothing otherwise *)
Definition obs (T:table) (s:mst) (r:nat) : option (list nat) :=
  if negb (r <? nres T) then None
  else if eager_visible T (m_stg s) r then slot s r
  else if lazy_visible T (m_stg s) r then slot (query T r s) r
  else None.

(** ---------------------------------------------------------------- the value a result must have: a function of the current
    variable values only (fuel = index + 1 suffices because results read only earlier results) *)
Fixpoint fval (T:table) (n:nat) (vals:list nat) (r:nat) : list nat :=
  match n with
  | 0 => []
  | S m => concat (map (fun x => match x with SV v => [getval vals v] | SR r' => fval T m vals r' end) (r_reads (rd T r)))
  end.
Definition fv (T:table) (vals:list nat) (r:nat) : list nat := fval T (S r) vals r.

(** variables a result depends on, directly or through the results it reads *)
Fixpoint treads (T:table) (n:nat) (r:nat) : list nat :=
  match n with
  | 0 => []
  | S m => concat (map (fun x => match x with SV v => [v] | SR r' => treads T m r' end) (r_reads (rd T r)))
  end.
Definition tr (T:table) (r:nat) : list nat := treads T (S r) r.

(** ---------------------------------------------------------------- well-formedness and soundness of a table (decidable) *)
Definition wf_res (T:table) (r:nat) (d:rdesc) : bool :=
  (3 <=? r_dep d)
  && (match r_by d with Some b => (r_dep d <=? b) && (4 <=? b) | None => true end)
  && (match r_lazy d with Some l => r_dep d <=? l | None => true end)
  && forallb (fun x => match x with
                       | SV v => v <? nvars T
                       | SR r' => (r' <? r) && (match r_by d with
                                                | Some b => match r_by (rd T r') with Some b' => b' <=? b | None => false end
                                                | None => true end)
                       end) (r_reads d)
  && (match r_zero d with Some z => z <? nvars T | None => true end)
  && (match r_skip d with Some _ => false | None => true end).
Definition wf_var (T:table) (d:vdesc) : bool :=
  (1 <=? v_inv d)
  && forallb (fun r => match r_by (rd T r) with Some b => v_inv d <=? b | None => true end) (v_expl d).
Definition wf_table (T:table) : bool :=
  forallb (fun p => wf_res T (fst p) (snd p)) (combine (seq 0 (nres T)) (t_res T)) && forallb (wf_var T) (t_vars T).

(** THE SOUNDNESS CONDITION: whatever a cached result depends on either invalidates a stage at or below the stage the
    result is dropped at, or its setter kills the result explicitly *)
Definition sound_res (T:table) (r:nat) : bool :=
  forallb (fun v => (v_inv (vd T v) <=? r_dep (rd T r)) || memn r (v_expl (vd T v))) (tr T r).
Definition sound (T:table) : bool := forallb (sound_res T) (seq 0 (nres T)).
(** the offending (result, variable) pairs, for reports *)
Definition unsound_pairs (T:table) : list (nat*nat) :=
  concat (map (fun r => map (fun v => (r,v)) (filter (fun v => negb ((v_inv (vd T v) <=? r_dep (rd T r)) || memn r (v_expl (vd T v)))) (tr T r))) (seq 0 (nres T))).

(** is every cached value what a fresh evaluation would give?  (evaluated by the correspondence driver: stale/fresh prediction) *)
Definition fresh_slot (T:table) (s:mst) (r:nat) : bool :=
  match slot s r with Some l => if list_eq_dec Nat.eq_dec l (fv T (m_vals s) r) then true else false | None => true end.
Definition stale_results (T:table) (s:mst) : list nat := filter (fun r => negb (fresh_slot T s r)) (seq 0 (nres T)).

(** ================================================================ the per-class facts read from the source, and the table of
    one concrete system *)
Record eclass := mkE { e_pos : bool;            (* dependsOnlyOnPositions() returns true *)
                       e_par : list stage;      (* invalidated stage of each discrete variable it allocates *)
                       e_rq : bool; e_ru : bool; e_rt : bool; e_rz : bool;    (* calcForce reads q / u / time / z *)
                       e_zd : bool }.           (* writes a z-derivative in its own realizeDynamics/realizeAcceleration *)
Record gravdesc := mkG { g_inv : stage;         (* stage invalidated by the Parameters variable *)
                         g_dep : stage;         (* depends-on stage of the lazy force cache *)
                         g_sets : list (bool*bool) }. (* setters excluded, magnitude, direction, zeroHeight: (invalidates cache, guarded) *)
Record fsdesc := mkF { f_en_inv : stage;        (* stage invalidated by the force-enabled flags *)
                       f_flag_dep : stage;      (* highest stage whose realization resets cachedForcesAreValid *)
                       f_flag_by : stage;       (* stage that fills the position-only cache *)
                       f_zdot_cleared : bool }. (* realizeSubsystemDynamicsImpl clears the subsystem's z-derivatives before the
                                                   enabled elements write theirs (commit c50039ce) *)
Record mcache := mkMC { mc_dep : stage; mc_by : stage; mc_q : bool; mc_u : bool; mc_z : bool; mc_ces : list nat }.
Record mdesc := mkMD { md_opt_inv : stage; md_inst_inv : stage;
                       md_caches : list mcache }.   (* treePosition, treeVelocity, compositeBodyInertia, articulatedBodyInertia, articulatedBodyVelocity *)
Record code := mkCode { c_classes : list eclass; c_grav : gravdesc; c_fsub : fsdesc; c_matter : mdesc;
                        c_tinv : stage; c_qinv : stage; c_uinv : stage; c_zinv : stage }.

Record mspec := mkSpec { ms_elems : list nat;   (* class id of every force element, in ForceIndex order *)
                         ms_grav : bool; ms_nb : nat;    (* Force::Gravity present (always last element); bodies that can be excluded *)
                         ms_nlock : nat; ms_ncons : nat }.

Definition dE : eclass := mkE false [] true true true true false.
Definition cls (c:code) (i:nat) : eclass := nth i (c_classes c) dE.

(* variable layout *)
Definition V_OPT := 0. Definition V_T := 1. Definition V_Q := 2. Definition V_U := 3. Definition V_Z := 4.
Definition v_lock (m:mspec) (i:nat) := 5 + i.
Definition v_cons (m:mspec) (j:nat) := 5 + ms_nlock m + j.
Definition v_en (m:mspec) (e:nat) := 5 + ms_nlock m + ms_ncons m + e.
Definition npar_before (c:code) (m:mspec) (e:nat) : nat :=
  fold_right (fun i n => length (e_par (cls c i)) + n) 0 (firstn e (ms_elems m)).
Definition v_par0 (m:mspec) := 5 + ms_nlock m + ms_ncons m + length (ms_elems m).
Definition v_par (c:code) (m:mspec) (e j:nat) := v_par0 m + npar_before c m e + j.
Definition v_grav0 (c:code) (m:mspec) := v_par0 m + npar_before c m (length (ms_elems m)).
Definition v_gexcl (c:code) (m:mspec) (b:nat) := v_grav0 c m + b.
Definition v_gmag (c:code) (m:mspec) := v_grav0 c m + ms_nb m.
Definition v_gdir (c:code) (m:mspec) := v_grav0 c m + ms_nb m + 1.
Definition v_gzh (c:code) (m:mspec) := v_grav0 c m + ms_nb m + 2.

(* result layout *)
Definition R_POSKIN := 0. Definition R_VELKIN := 1. Definition R_CBI := 2. Definition R_ABI := 3. Definition R_ABV := 4.
Definition r_elem (e:nat) := 5 + e.
Definition r_grav (m:mspec) := 5 + length (ms_elems m).
Definition r_total (m:mspec) := 5 + length (ms_elems m) + (if ms_grav m then 1 else 0).
Definition r_accel (m:mspec) := S (r_total m).

Definition opt_by (g:stage) : option stage := if 10 <=? g then None else Some g.
(* transitive dependents of a matter cache entry among md_caches (prerequisites always have smaller indices) *)
Fixpoint deps_closure (n:nat) (cs:list mcache) (roots:list nat) : list nat :=
  match n with
  | 0 => roots
  | S k => deps_closure k cs (roots ++ filter (fun i => negb (memn i roots) && existsb (fun p => memn p roots) (mc_ces (nth i cs (mkMC 0 0 false false false []))))
                                                  (seq 0 (length cs)))
  end.
Definition expl_of (cs:list mcache) (f:mcache->bool) : list nat :=
  deps_closure (length cs) cs (filter (fun i => f (nth i cs (mkMC 0 0 false false false []))) (seq 0 (length cs))).

Definition sel {A} (b:bool) (l:list A) : list A := if b then l else [].

Definition build (c:code) (m:mspec) : table :=
  let cs := md_caches (c_matter c) in
  let ne := length (ms_elems m) in
  let gs i := nth i (g_sets (c_grav c)) (false,false) in
  let gvar i := mkV (g_inv (c_grav c)) (snd (gs i)) (sel (fst (gs i)) [r_grav m]) false in
  let vars :=
    [ mkV (md_opt_inv (c_matter c)) false [] false;
      mkV (c_tinv c) false [] false;
      mkV (c_qinv c) false (expl_of cs mc_q) true;
      mkV (c_uinv c) false (expl_of cs mc_u) true;
      mkV (c_zinv c) false (expl_of cs mc_z) true ]
    ++ repeat (mkV (md_inst_inv (c_matter c)) false [] true) (ms_nlock m)
    ++ repeat (mkV (md_inst_inv (c_matter c)) false [] false) (ms_ncons m)
    ++ repeat (mkV (f_en_inv (c_fsub c)) false [] false) ne
    ++ concat (map (fun i => map (fun g => mkV g false [] false) (e_par (cls c i))) (ms_elems m))
    ++ sel (ms_grav m) (repeat (gvar 0) (ms_nb m) ++ [gvar 1; gvar 2; gvar 3]) in
  let mcr (i:nat) (extra:list src) (lz:option stage) :=
    let k := nth i cs (mkMC 3 10 false false false []) in
    mkR (mc_dep k) (opt_by (mc_by k)) lz
        (map SR (mc_ces k) ++ sel (mc_q k) [SV V_Q] ++ sel (mc_u k) [SV V_U] ++ sel (mc_z k) [SV V_Z] ++ extra) None None in
  let elem (e:nat) (i:nat) :=
    let k := cls c i in
    mkR (if e_pos k then f_flag_dep (c_fsub c) else f_flag_by (c_fsub c)) (Some (f_flag_by (c_fsub c))) None
        ([SV (v_en m e)] ++ sel (e_rq k) [SR R_POSKIN] ++ sel (e_ru k) [SR R_VELKIN] ++ sel (e_rt k) [SV V_T] ++ sel (e_rz k) [SV V_Z]
         ++ map (fun j => SV (v_par c m e j)) (seq 0 (length (e_par k))))
        (Some (v_en m e)) None in
  let res :=
    [ mcr 0 [SV V_OPT] (Some (mc_dep (nth 0 cs (mkMC 3 10 false false false []))));
      mcr 1 [] (Some (mc_dep (nth 1 cs (mkMC 3 10 false false false []))));
      mcr 2 [] (Some (mc_dep (nth 2 cs (mkMC 3 10 false false false []))));
      mcr 3 (map (fun i => SV (v_lock m i)) (seq 0 (ms_nlock m))) (Some (mc_dep (nth 3 cs (mkMC 3 10 false false false []))));
      mcr 4 [] (Some (mc_dep (nth 4 cs (mkMC 3 10 false false false [])))) ]
    ++ mapi_from elem 0 (ms_elems m)
    ++ sel (ms_grav m) [ mkR (g_dep (c_grav c)) (Some (f_flag_by (c_fsub c))) (Some (g_dep (c_grav c)))
                             ([SR R_POSKIN] ++ map (fun b => SV (v_gexcl c m b)) (seq 0 (ms_nb m)) ++ [SV (v_gmag c m); SV (v_gdir c m); SV (v_gzh c m)])
                             (Some (v_gmag c m)) None ]
    ++ [ mkR (f_flag_by (c_fsub c)) (Some (f_flag_by (c_fsub c))) None
             (map (fun e => SR (r_elem e)) (seq 0 ne) ++ sel (ms_grav m) [SR (r_grav m)]) None None;
         mkR 8 (Some 8) None
             ([SR (r_total m); SR R_ABI; SR R_ABV; SR R_VELKIN] ++ map (fun j => SV (v_cons m j)) (seq 0 (ms_ncons m))
              ++ map (fun i => SV (v_lock m i)) (seq 0 (ms_nlock m)) ++ [SV V_T]) None None ] in
  mkT vars res.

(** the full table: [build] plus, appended, the z-derivative slot of every force element whose class writes one.  It is
    written by the element's own realizeDynamics / realizeAcceleration, which the force subsystem calls only while the
    element is enabled.  If the subsystem clears its z-derivatives at every Dynamics realization ([f_zdot_cleared], the code
    since c50039ce) the slot is an ordinary result (zero while disabled, a function of the enable flag); if it does not
    (the code before), the slot is memory that is never cleared and is rewritten only while the element is enabled
    ([r_skip]) -- such a table is not well-formed *)
Definition r_zdot (m:mspec) (k:nat) := S (r_accel m) + k.
Definition build_z (c:code) (m:mspec) : table :=
  let T := build c m in
  let zs := filter (fun p => e_zd (cls c (snd p))) (combine (seq 0 (length (ms_elems m))) (ms_elems m)) in
  mkT (t_vars T)
      (t_res T ++ map (fun p => let e := fst p in let k := cls c (snd p) in
                                mkR 8 (Some 8) None
                                    ([SV (v_en m e); SR R_POSKIN; SR R_VELKIN] ++ map (fun j => SV (v_par c m e j)) (seq 0 (length (e_par k))))
                                    None (if f_zdot_cleared (c_fsub c) then None else Some (v_en m e))) zs).
