(** C16: proofs about the staged cache machine of C16_Model.v.
    Main results: [cached_values_fresh] (every cached value, anywhere, after any history, is the function of the
    current variable values), [history_independence] (visible results after any history = those of a fresh state
    holding the same values, realized to the same stage), [two_histories_agree]. *)
From Coq Require Import List Arith Bool PeanoNat Lia.
Import ListNotations.
Require Import C16_Model.

(* ---------------------------------------------------------------- list helpers *)
Lemma length_upd_nth {A} i (x:A) l : length (upd_nth i x l) = length l.
Proof. revert i; induction l; destruct i; simpl; auto. Qed.
Lemma nth_upd_nth_eq {A} i (x d:A) l : i < length l -> nth i (upd_nth i x l) d = x.
Proof. revert i; induction l; destruct i; simpl; intros; try lia; auto. apply IHl; lia. Qed.
Lemma nth_upd_nth_neq {A} i j (x d:A) l : i <> j -> nth j (upd_nth i x l) d = nth j l d.
Proof. revert i j; induction l; destruct i, j; simpl; intros; try lia; auto. Qed.
Lemma length_mapi_from {A B} (f:nat->A->B) i l : length (mapi_from f i l) = length l.
Proof. revert i; induction l; simpl; auto. Qed.
Lemma nth_mapi_from {A B} (f:nat->A->B) l : forall i r d d', r < length l -> nth r (mapi_from f i l) d' = f (i + r) (nth r l d).
Proof. induction l; simpl; intros; try lia. destruct r. now rewrite Nat.add_0_r. rewrite (IHl (S i) r d d') by lia. f_equal; lia. Qed.
Lemma memn_In x l : memn x l = true <-> In x l.
Proof. induction l; simpl. split; [discriminate|tauto]. rewrite orb_true_iff, IHl, Nat.eqb_eq. intuition. Qed.
Lemma combine_seq_nth {A} (l:list A) d : forall a r, r < length l -> In (a + r, nth r l d) (combine (seq a (length l)) l).
Proof. induction l; simpl; intros; try lia. destruct r. left; f_equal; lia. right. replace (a0 + S r) with (S a0 + r) by lia. apply IHl; lia. Qed.
Lemma nth_repeat_None {A} n r : nth r (repeat (@None A) n) None = None.
Proof. revert r; induction n; destruct r; simpl; auto. Qed.

(* ---------------------------------------------------------------- consequences of wf_table *)
Section WF.
Variable T : table.
Hypothesis WFT : wf_table T = true.

Lemma wf_res_of r : r < nres T -> wf_res T r (rd T r) = true.
Proof.
  intros H. unfold wf_table in WFT. apply andb_true_iff in WFT as [W _]. rewrite forallb_forall in W.
  specialize (W (0 + r, nth r (t_res T) dR)). apply W. apply combine_seq_nth. exact H.
Qed.
Lemma wf_var_of v : v < nvars T -> wf_var T (vd T v) = true.
Proof. intros H. unfold wf_table in WFT. apply andb_true_iff in WFT as [_ W]. rewrite forallb_forall in W. apply W. apply nth_In. exact H. Qed.
Lemma rd_out r : nres T <= r -> rd T r = dR.
Proof. intros. unfold rd. apply nth_overflow. exact H. Qed.
Lemma wf_res_parts r : r < nres T ->
  let d := rd T r in
  3 <= r_dep d /\ (forall b, r_by d = Some b -> r_dep d <= b /\ 4 <= b) /\
  (forall r', In (SR r') (r_reads d) -> r' < r /\ forall b, r_by d = Some b -> exists b', r_by (rd T r') = Some b' /\ b' <= b) /\
  r_skip d = None.
Proof.
  intros L d. pose proof (wf_res_of r L) as W. fold d in W. unfold wf_res in W.
  apply andb_true_iff in W as [W W6]. apply andb_true_iff in W as [W _]. apply andb_true_iff in W as [W W4]. apply andb_true_iff in W as [W _].
  apply andb_true_iff in W as [W1 W2]. apply Nat.leb_le in W1. split; [exact W1|]. split; [|split].
  3:{ destruct (r_skip d); [discriminate|reflexivity]. }
  - intros b B. rewrite B in W2. apply andb_true_iff in W2 as [Wa Wb]. split; now apply Nat.leb_le.
  - intros r' Hin. rewrite forallb_forall in W4. specialize (W4 _ Hin). simpl in W4. apply andb_true_iff in W4 as [Wa Wb].
    apply Nat.ltb_lt in Wa. split; auto. intros b B. rewrite B in Wb. destruct (r_by (rd T r')) as [b'|]; try discriminate.
    exists b'. split; auto. now apply Nat.leb_le.
Qed.
Lemma reads_lt r r' : In (SR r') (r_reads (rd T r)) -> r' < r.
Proof.
  intros H. destruct (lt_dec r (nres T)) as [L|L].
  - destruct (wf_res_parts r L) as [_ [_ [P _]]]. now apply P.
  - rewrite rd_out in H by lia. destruct H.
Qed.
Lemma skip_none r : r_skip (rd T r) = None.
Proof.
  destruct (lt_dec r (nres T)) as [L|L].
  - now destruct (wf_res_parts r L) as [_ [_ [_ P]]].
  - rewrite rd_out by lia. reflexivity.
Qed.
Lemma reads_by r r' b : r < nres T -> In (SR r') (r_reads (rd T r)) -> r_by (rd T r) = Some b ->
  exists b', r_by (rd T r') = Some b' /\ b' <= b.
Proof. intros L H B. destruct (wf_res_parts r L) as [_ [_ [P _]]]. destruct (P r' H) as [_ Q]. now apply Q. Qed.
Lemma dep_ge3 r : 3 <= r_dep (rd T r).
Proof.
  destruct (lt_dec r (nres T)) as [L|L].
  - now destruct (wf_res_parts r L) as [P _].
  - rewrite rd_out by lia. simpl; lia.
Qed.
Lemma dep_le_by r b : r_by (rd T r) = Some b -> r_dep (rd T r) <= b.
Proof.
  intros B. destruct (lt_dec r (nres T)) as [L|L].
  - destruct (wf_res_parts r L) as [_ [P _]]. now apply P.
  - rewrite rd_out in B by lia. discriminate.
Qed.
Lemma by_ge4 r b : r_by (rd T r) = Some b -> 4 <= b.
Proof.
  intros B. destruct (lt_dec r (nres T)) as [L|L].
  - destruct (wf_res_parts r L) as [_ [P _]]. now apply P.
  - rewrite rd_out in B by lia. discriminate.
Qed.

Lemma fval_fuel vals : forall n m r, r < n -> r < m -> fval T n vals r = fval T m vals r.
Proof.
  induction n; intros m r Hn Hm; try lia. destruct m; try lia. simpl. f_equal. apply map_ext_in.
  intros [v|r'] Hin; auto. pose proof (reads_lt _ _ Hin). apply IHn; lia.
Qed.
Lemma fv_unfold vals r :
  fv T vals r = concat (map (fun x => match x with SV v => [getval vals v] | SR r' => fv T vals r' end) (r_reads (rd T r))).
Proof.
  unfold fv at 1. simpl. f_equal. apply map_ext_in. intros [v|r'] Hin; auto.
  pose proof (reads_lt _ _ Hin). unfold fv. apply fval_fuel; lia.
Qed.
Lemma treads_fuel : forall n m r, r < n -> r < m -> treads T n r = treads T m r.
Proof.
  induction n; intros m r Hn Hm; try lia. destruct m; try lia. simpl. f_equal. apply map_ext_in.
  intros [v|r'] Hin; auto. pose proof (reads_lt _ _ Hin). apply IHn; lia.
Qed.
Lemma tr_unfold r :
  tr T r = concat (map (fun x => match x with SV v => [v] | SR r' => tr T r' end) (r_reads (rd T r))).
Proof.
  unfold tr at 1. simpl. f_equal. apply map_ext_in. intros [v|r'] Hin; auto.
  pose proof (reads_lt _ _ Hin). unfold tr. apply treads_fuel; lia.
Qed.

(** a result's value depends only on the variables it (transitively) reads *)
Lemma fv_ext a b : forall r, (forall v, In v (tr T r) -> getval a v = getval b v) -> fv T a r = fv T b r.
Proof.
  intros r. induction r as [r IH] using lt_wf_ind. intros H.
  rewrite (fv_unfold a r), (fv_unfold b r). f_equal. apply map_ext_in. intros [v|r'] Hin.
  - f_equal. apply H. rewrite tr_unfold. apply in_concat. exists [v]. split; [|now left].
    apply in_map_iff. exists (SV v). auto.
  - apply IH. now apply reads_lt. intros v Hv. apply H. rewrite tr_unfold. apply in_concat. exists (tr T r'). split; auto.
    apply in_map_iff. exists (SR r'). auto.
Qed.

(* ---------------------------------------------------------------- the invariant *)
Record Inv (s:mst) : Prop := mkInv {
  inv_len : length (m_slots s) = nres T;
  inv_stg : 2 <= m_stg s;
  inv_fresh : forall r l, slot s r = Some l -> l = fv T (m_vals s) r;
  inv_vis : forall r b, r < nres T -> r_by (rd T r) = Some b -> b <= m_stg s -> slot s r <> None }.

Lemma Inv_init vals : Inv (init T vals).
Proof.
  constructor; simpl.
  - apply repeat_length.
  - lia.
  - intros r l. unfold slot; simpl. rewrite nth_repeat_None. discriminate.
  - intros r b L B Hb. pose proof (dep_le_by r b B). pose proof (dep_ge3 r). lia.
Qed.

Lemma compute_fresh s r : Inv s -> inputs_ready T s r = true -> snap T s r = fv T (m_vals s) r.
Proof.
  intros I R. unfold snap. rewrite fv_unfold. f_equal. apply map_ext_in. intros [v|r'] Hin; simpl; auto.
  unfold inputs_ready in R. rewrite forallb_forall in R. specialize (R _ Hin). simpl in R.
  unfold slot in R. destruct (nth r' (m_slots s) None) as [l|] eqn:E; try discriminate.
  apply (inv_fresh s I r' l). exact E.
Qed.

Lemma slot_compute_eq s r : r < length (m_slots s) -> slot (compute T r s) r = Some (snap T s r).
Proof. intros. unfold slot, compute; simpl. now apply nth_upd_nth_eq. Qed.
Lemma slot_compute_neq s r r0 : r <> r0 -> slot (compute T r s) r0 = slot s r0.
Proof. intros. unfold slot, compute; simpl. now apply nth_upd_nth_neq. Qed.

Lemma Inv_compute s r : Inv s -> r < nres T -> inputs_ready T s r = true -> Inv (compute T r s).
Proof.
  intros I L R. pose proof (inv_len s I) as HL. constructor.
  - simpl. now rewrite length_upd_nth.
  - simpl. apply (inv_stg s I).
  - intros r0 l H. change (m_vals (compute T r s)) with (m_vals s). destruct (Nat.eq_dec r r0) as [->|N].
    + rewrite slot_compute_eq in H by lia. injection H as <-. now apply compute_fresh.
    + rewrite slot_compute_neq in H by auto. now apply (inv_fresh s I).
  - intros r0 b L0 B Hb. change (m_stg (compute T r s)) with (m_stg s) in Hb. destruct (Nat.eq_dec r r0) as [->|N].
    + rewrite slot_compute_eq by lia. discriminate.
    + rewrite slot_compute_neq by auto. now apply (inv_vis s I r0 b).
Qed.

(* ---------------------------------------------------------------- realize *)
Definition rs_body (k:stage) := fun s' r => match r_by (rd T r) with
                                   | Some b => if b =? k then
                                                 match r_skip (rd T r) with
                                                 | Some v => if getval (m_vals s') v =? 0 then s' else compute T r s'
                                                 | None => match slot s' r with None => compute T r s' | Some _ => s' end
                                                 end
                                               else s'
                                   | None => s' end.

Lemma rs_loop k : forall n a s, a + n = nres T -> Inv s -> k = S (m_stg s) ->
  (forall r, r < a -> r_by (rd T r) = Some k -> slot s r <> None) ->
  let s1 := fold_left (rs_body k) (seq a n) s in
  Inv s1 /\ m_stg s1 = m_stg s /\ m_vals s1 = m_vals s /\ (forall r, r < nres T -> r_by (rd T r) = Some k -> slot s1 r <> None).
Proof.
  induction n; intros a s Ha I Hk Hp; simpl.
  - refine (conj I (conj eq_refl (conj eq_refl _))). intros r L. apply Hp. lia.
  - assert (La : a < nres T) by lia.
    assert (Step : Inv (rs_body k s a) /\ m_stg (rs_body k s a) = m_stg s /\ m_vals (rs_body k s a) = m_vals s /\
                   (forall r, r < S a -> r_by (rd T r) = Some k -> slot (rs_body k s a) r <> None)).
    { unfold rs_body. rewrite (skip_none a). destruct (r_by (rd T a)) as [b|] eqn:B.
      - destruct (Nat.eqb_spec b k) as [->|Nk].
        + destruct (slot s a) as [l|] eqn:Sl.
          * refine (conj I (conj eq_refl (conj eq_refl _))). intros r Lr Br.
            destruct (Nat.eq_dec r a) as [->|N]. rewrite Sl; discriminate. apply Hp; auto; lia.
          * assert (R : inputs_ready T s a = true).
            { unfold inputs_ready. apply forallb_forall. intros [v|r'] Hin; auto.
              destruct (reads_by a r' k La Hin B) as [b' [B' Hb']]. pose proof (reads_lt _ _ Hin) as Lt.
              destruct (slot s r') eqn:E; auto. exfalso.
              destruct (Nat.eq_dec b' k) as [->|Nb]. now apply (Hp r' Lt B'). apply (inv_vis s I r' b'); auto; lia. }
            refine (conj (Inv_compute s a I La R) (conj eq_refl (conj eq_refl _))).
            intros r Lr Br. destruct (Nat.eq_dec a r) as [<-|N].
            rewrite slot_compute_eq. discriminate. rewrite (inv_len s I); lia.
            rewrite slot_compute_neq by auto. apply Hp; auto; lia.
        + refine (conj I (conj eq_refl (conj eq_refl _))). intros r Lr Br.
          destruct (Nat.eq_dec r a) as [->|N]. congruence. apply Hp; auto; lia.
      - refine (conj I (conj eq_refl (conj eq_refl _))). intros r Lr Br.
        destruct (Nat.eq_dec r a) as [->|N]. congruence. apply Hp; auto; lia. }
    destruct Step as [I' [S' [V' P']]].
    assert (Hk' : k = S (m_stg (rs_body k s a))) by congruence.
    assert (Ha' : S a + n = nres T) by lia.
    destruct (IHn (S a) (rs_body k s a) Ha' I' Hk' P') as [I2 [S2 [V2 P2]]].
    refine (conj I2 (conj _ (conj _ P2))); congruence.
Qed.

Lemma Inv_realize_stage s : Inv s ->
  Inv (realize_stage T (S (m_stg s)) s) /\ m_stg (realize_stage T (S (m_stg s)) s) = S (m_stg s) /\ m_vals (realize_stage T (S (m_stg s)) s) = m_vals s.
Proof.
  intros I. unfold realize_stage.
  destruct (rs_loop (S (m_stg s)) (nres T) 0 s) as [I1 [S1 [V1 P1]]]; auto. intros; lia.
  fold (rs_body (S (m_stg s))). set (s1 := fold_left (rs_body (S (m_stg s))) (seq 0 (nres T)) s) in *.
  split; [|split]; simpl; auto. constructor; simpl.
  - apply (inv_len s1 I1).
  - pose proof (inv_stg s I); lia.
  - intros r l H. apply (inv_fresh s1 I1 r l H).
  - intros r b L B Hb. destruct (Nat.eq_dec b (S (m_stg s))) as [->|N]. now apply P1. apply (inv_vis s1 I1 r b); auto. lia.
Qed.

Lemma Inv_realize_n : forall n s, Inv s ->
  let s1 := fold_left (fun s' k => realize_stage T k s') (seq (S (m_stg s)) n) s in
  Inv s1 /\ m_stg s1 = m_stg s + n /\ m_vals s1 = m_vals s.
Proof.
  induction n; intros s I; simpl. refine (conj I (conj _ eq_refl)); lia.
  destruct (Inv_realize_stage s I) as [I1 [S1 V1]].
  pose proof (IHn (realize_stage T (S (m_stg s)) s) I1) as IH. cbv zeta in IH. rewrite S1 in IH. destruct IH as [I2 [S2 V2]].
  split; [exact I2|split]. rewrite S2; lia. rewrite V2; exact V1.
Qed.
Lemma Inv_realize g s : Inv s -> Inv (realize T g s) /\ m_stg (realize T g s) = Nat.max (m_stg s) g /\ m_vals (realize T g s) = m_vals s.
Proof. intros I. unfold realize. destruct (Inv_realize_n (g - m_stg s) s I) as [I1 [S1 V1]]. refine (conj I1 (conj _ V1)). lia. Qed.

(* ---------------------------------------------------------------- query *)
Lemma Inv_query r s : Inv s -> Inv (query T r s) /\ m_stg (query T r s) = m_stg s /\ m_vals (query T r s) = m_vals s.
Proof.
  intros I. unfold query. destruct (r_lazy (rd T r)) as [l|] eqn:L; auto. destruct (slot s r) eqn:Sl; auto.
  destruct ((l <=? m_stg s) && inputs_ready T s r) eqn:C; auto. apply andb_true_iff in C as [_ R].
  split; [|split; reflexivity]. apply Inv_compute; auto.
  destruct (lt_dec r (nres T)); auto. rewrite rd_out in L by lia. discriminate.
Qed.

(* ---------------------------------------------------------------- setvar: needs soundness *)
Hypothesis SND : sound T = true.

Lemma sound_of r v : r < nres T -> In v (tr T r) -> v_inv (vd T v) <= r_dep (rd T r) \/ In r (v_expl (vd T v)).
Proof.
  intros L H. unfold sound in SND. rewrite forallb_forall in SND. specialize (SND r). unfold sound_res in SND.
  rewrite forallb_forall in SND. specialize (SND (proj2 (in_seq _ _ _) (conj (Nat.le_0_l r) L)) v H).
  apply orb_true_iff in SND as [S|S]. left; now apply Nat.leb_le. right; now apply memn_In.
Qed.

Lemma Inv_setvar v x s : Inv s -> Inv (setvar T v x s).
Proof.
  intros I. unfold setvar. destruct (v <? nvars T) eqn:Lv; cbn [negb]; [|exact I]. apply Nat.ltb_lt in Lv.
  destruct (v_guard (vd T v) && (getval (m_vals s) v =? x)); [exact I|].
  set (d := vd T v). set (ns := Nat.max 2 (Nat.min (m_stg s) (v_inv d - 1))).
  pose proof (inv_len s I) as HL. pose proof (inv_stg s I) as HS.
  pose proof (wf_var_of v Lv) as Wv. fold d in Wv. unfold wf_var in Wv. apply andb_true_iff in Wv as [Wv1 Wv2]. apply Nat.leb_le in Wv1.
  assert (Sl : forall r, r < nres T -> slot (mkM (upd_nth v x (if v_inv d <=? 2 then mapi_from (fun i y => if v_reset (vd T i) then 0 else y) 0 (m_vals s) else m_vals s)) ns
                 (mapi_from (fun r sl => match r_skip (rd T r) with Some _ => sl | None => if (ns <? r_dep (rd T r)) || memn r (v_expl d) then None else sl end) 0 (m_slots s)) (m_cnt s)) r
               = if (ns <? r_dep (rd T r)) || memn r (v_expl d) then None else slot s r).
  { intros r L. unfold slot; cbn [m_slots]. rewrite (nth_mapi_from _ _ 0 r None None) by lia. cbn [Nat.add]. now rewrite (skip_none r). }
  constructor; cbn [m_stg m_vals m_slots m_cnt].
  - now rewrite length_mapi_from.
  - unfold ns; lia.
  - intros r l H. destruct (lt_dec r (nres T)) as [L|L].
    2:{ unfold slot in H; cbn [m_slots] in H. rewrite nth_overflow in H. discriminate. rewrite length_mapi_from; lia. }
    rewrite Sl in H by auto. destruct ((ns <? r_dep (rd T r)) || memn r (v_expl d)) eqn:C; try discriminate.
    apply orb_false_iff in C as [C1 C2]. apply Nat.ltb_ge in C1.
    rewrite (inv_fresh s I r l H). pose proof (dep_ge3 r) as D3.
    destruct (v_inv d <=? 2) eqn:I2. { apply Nat.leb_le in I2. unfold ns in C1. lia. }
    apply Nat.leb_gt in I2. apply fv_ext. intros v' Hv'. unfold getval. destruct (Nat.eq_dec v v') as [<-|N].
    + exfalso. destruct (sound_of r v L Hv') as [S|S]; fold d in S.
      * unfold ns in C1. lia.
      * apply memn_In in S. congruence.
    + symmetry. now apply nth_upd_nth_neq.
  - intros r b L B Hb. rewrite Sl by auto. pose proof (dep_le_by r b B) as Db. pose proof (dep_ge3 r) as D3.
    assert (Hns : ns <= m_stg s) by (unfold ns; lia).
    destruct (ns <? r_dep (rd T r)) eqn:C1. { apply Nat.ltb_lt in C1. lia. }
    destruct (memn r (v_expl d)) eqn:C2.
    + exfalso. apply memn_In in C2. rewrite forallb_forall in Wv2. specialize (Wv2 r C2). rewrite B in Wv2. apply Nat.leb_le in Wv2.
      unfold ns in Hb. lia.
    + simpl. apply (inv_vis s I r b); auto. lia.
Qed.

Lemma Inv_copy s : Inv s -> Inv (copy_state T s).
Proof.
  intros I. pose proof (inv_stg s I) as HS. unfold copy_state. constructor; cbn [m_slots m_stg m_vals].
  - apply repeat_length.
  - lia.
  - intros r l. unfold slot; cbn [m_slots]. rewrite nth_repeat_None. discriminate.
  - intros r b L B Hb. pose proof (by_ge4 r b B). lia.
Qed.

Lemma Inv_step s o : Inv s -> Inv (step T s o).
Proof. intros I. destruct o; simpl. now apply Inv_setvar. now apply Inv_realize. now apply Inv_query. now apply Inv_copy. Qed.
Lemma Inv_run : forall l s, Inv s -> Inv (run T s l).
Proof. unfold run. induction l; simpl; intros; auto. apply IHl. now apply Inv_step. Qed.

(* ---------------------------------------------------------------- observations *)
Definition spec_obs (vals:list nat) (g:stage) (r:nat) : option (list nat) :=
  if (r <? nres T) && (eager_visible T g r || lazy_visible T g r) then Some (fv T vals r) else None.

Lemma obs_spec s r : Inv s -> obs T s r = spec_obs (m_vals s) (m_stg s) r.
Proof.
  intros I. unfold obs, spec_obs. destruct (r <? nres T) eqn:L; simpl; auto. apply Nat.ltb_lt in L.
  destruct (eager_visible T (m_stg s) r) eqn:E; simpl.
  - unfold eager_visible in E. destruct (r_by (rd T r)) as [b|] eqn:B; try discriminate. apply Nat.leb_le in E.
    pose proof (inv_vis s I r b L B E). destruct (slot s r) as [l|] eqn:Sl; try congruence. f_equal. now apply (inv_fresh s I).
  - destruct (lazy_visible T (m_stg s) r) eqn:Z; auto.
    unfold lazy_visible in Z. destruct (r_lazy (rd T r)) as [l|] eqn:Lz; try discriminate. apply andb_true_iff in Z as [Z1 Z2].
    unfold query. rewrite Lz. destruct (slot s r) as [l0|] eqn:Sl.
    + rewrite Sl. f_equal. now apply (inv_fresh s I).
    + assert (R : inputs_ready T s r = true).
      { unfold inputs_ready. apply forallb_forall. intros [v|r'] Hin; auto. rewrite forallb_forall in Z2. specialize (Z2 _ Hin). simpl in Z2.
        unfold eager_visible in Z2. destruct (r_by (rd T r')) as [b'|] eqn:B'; try discriminate. apply Nat.leb_le in Z2.
        pose proof (reads_lt _ _ Hin). destruct (slot s r') eqn:E'; auto. exfalso. apply (inv_vis s I r' b'); auto. lia. }
      rewrite Z1, R. simpl. rewrite slot_compute_eq by (rewrite (inv_len s I); lia). f_equal. now apply compute_fresh.
Qed.
End WF.

(* ================================================================ the theorems *)

(** Every cached value, of every result, after every history, is the function of the *current* variable values. *)
Theorem cached_values_fresh T vals ops r l : wf_table T = true -> sound T = true ->
  slot (run T (init T vals) ops) r = Some l -> l = fv T (m_vals (run T (init T vals) ops)) r.
Proof. intros W S H. eapply inv_fresh; eauto. apply Inv_run; auto. now apply Inv_init. Qed.

(** HISTORY INDEPENDENCE: for a sound table, after EVERY history (variable changes, realizations to arbitrary stages,
    evaluations on request, in any order) every visible result equals the one a freshly created State holding the same
    values shows after being realized to the same stage. *)
Theorem history_independence T vals ops r : wf_table T = true -> sound T = true ->
  let s := run T (init T vals) ops in
  obs T s r = obs T (realize T (m_stg s) (init T (m_vals s))) r.
Proof.
  intros W S s. assert (I : Inv T s) by (apply Inv_run; auto; now apply Inv_init).
  destruct (Inv_realize T W (m_stg s) (init T (m_vals s)) (Inv_init T W _)) as [I2 [S2 V2]].
  pose proof (inv_stg T s I) as HS.
  rewrite (obs_spec T W s r I), (obs_spec T W _ r I2), S2, V2. cbn [init m_stg m_vals]. now rewrite Nat.max_r by lia.
Qed.

(** the same thing without reference to a fresh state: two histories that end with the same values at the same stage
    show the same results *)
Theorem two_histories_agree T v1 v2 ops1 ops2 r : wf_table T = true -> sound T = true ->
  let s1 := run T (init T v1) ops1 in let s2 := run T (init T v2) ops2 in
  m_vals s1 = m_vals s2 -> m_stg s1 = m_stg s2 -> obs T s1 r = obs T s2 r.
Proof.
  intros W S s1 s2 Hv Hs.
  rewrite (obs_spec T W s1 r), (obs_spec T W s2 r) by (apply Inv_run; auto; now apply Inv_init). now rewrite Hv, Hs.
Qed.

(** the visible results are exactly: nothing below the stage that provides them, the function of the current values
    from that stage on *)
Theorem visible_results_are_functions_of_values T vals ops r : wf_table T = true -> sound T = true ->
  let s := run T (init T vals) ops in
  obs T s r = if (r <? nres T) && (eager_visible T (m_stg s) r || lazy_visible T (m_stg s) r) then Some (fv T (m_vals s) r) else None.
Proof. intros W S s. apply (obs_spec T W s r). apply Inv_run; auto. now apply Inv_init. Qed.

(** a modification that leaves a variable out of a result's (transitive) reads does not change what that result must be *)
Theorem unrelated_variable_does_not_matter T vals v x r : wf_table T = true -> ~ In v (tr T r) ->
  fv T (upd_nth v x vals) r = fv T vals r.
Proof.
  intros W H. apply fv_ext; auto. intros v' Hv'. unfold getval. apply nth_upd_nth_neq. intros ->. contradiction.
Qed.
