(** C16: the small systems the correspondence runs on (definitions only).  The C++ harness builds the same systems from
    the same list (printed by the extracted driver), so that the Coq-side table and the simbody system have one source.
    Class ids: 0 TwoPointLinearSpring 1 TwoPointLinearDamper 2 TwoPointConstantForce 3 MobilityLinearSpring
    4 MobilityLinearDamper 5 MobilityConstantForce 6 MobilityLinearStop 7 MobilityDiscreteForce 8 DiscreteForces
    9 ConstantForce 10 ConstantTorque 11 GlobalDamper 12 UniformGravity 13 LinearBushing
    14 Custom position-only (call counter) 15 Custom velocity-dependent (call counter). *)
From Coq Require Import List Arith Bool.
Import ListNotations.
Require Import C16_Model.

Definition models : list mspec := [
  mkSpec [3] false 1 0 0;                       (* pin + MobilityLinearSpring: the system of the regression witness *)
  mkSpec [3;4;5;14;15] true 2 1 0;              (* mobility elements with parameters, counters, Gravity *)
  mkSpec [0;1;2;14;15] true 2 2 1;              (* two-point elements, Gravity, a constraint, two lockable mobilizers *)
  mkSpec [6;7;8;15] false 2 1 0;                (* stop, discrete forces *)
  mkSpec [9;10;11;12;14] false 3 1 0;           (* constant force / torque, global damper, uniform gravity *)
  mkSpec [13;14;15;3] true 2 1 0;               (* linear bushing (instance parameters, a z variable) *)
  mkSpec [14;15] true 3 3 1;                    (* Gravity with exclusions, locks, constraint *)
  mkSpec [3;3;4;6;14] false 3 2 1;
  mkSpec [0;3;5;8;9;13;14;15] true 3 2 1;       (* everything together *)
  mkSpec [1;4;15] true 1 1 0                    (* no position-only element at all: the force subsystem never caches *)
].

(** a variant of the scanned facts with one element class replaced (regression witnesses, sensitivity lemmas) *)
Definition with_class (c:code) (i:nat) (e:eclass) : code :=
  mkCode (upd_nth i e (c_classes c)) (c_grav c) (c_fsub c) (c_matter c) (c_tinv c) (c_qinv c) (c_uinv c) (c_zinv c).
Definition with_grav (c:code) (g:gravdesc) : code :=
  mkCode (c_classes c) g (c_fsub c) (c_matter c) (c_tinv c) (c_qinv c) (c_uinv c) (c_zinv c).
Definition with_fsub (c:code) (f:fsdesc) : code :=
  mkCode (c_classes c) (c_grav c) f (c_matter c) (c_tinv c) (c_qinv c) (c_uinv c) (c_zinv c).

(** MobilityLinearSpring as it was before commit 1efa2aab: parameters invalidate Dynamics, force cached at Position *)
Definition mls_old : eclass := mkE true [7] true false false false false.
Definition code_old (c:code) : code := with_class c 3 mls_old.
(** the regression witness [setQ; realize Dynamics; setStiffness; realize Dynamics] on system 0 *)
Definition m0 : mspec := mkSpec [3] false 1 0 0.
Definition witness (c:code) : list op := [SetVar V_Q 1; Realize 7; SetVar (v_par c m0 0 0) 1; Realize 7].

(** the force subsystem before commit c50039ce: z-derivatives not cleared at Dynamics *)
Definition code_zold (c:code) : code :=
  with_fsub c (mkF (f_en_inv (c_fsub c)) (f_flag_dep (c_fsub c)) (f_flag_by (c_fsub c)) false).
Definition mz : mspec := mkSpec [13] false 1 0 0.
