(** C17: force totals are independent of threading and scheduling -- executable model (no proofs here).

    Anchors: Simbody/src/GeneralForceSubsystem.cpp  CalcForcesParallelTask / CalcForcesNonParallelTask
    (initialize / execute / finish, modes All / CachedAndNonCached / NonCached), realizeSubsystemDynamicsImpl
    (execute(task, #enabled parallel elements + 1)), and SimTKcommon/src/ParallelExecutor.cpp (executor protocol:
    model and theorems of C33, coq/C33/C33_PE.v).

    [taskdesc] is the ACCESS TABLE of one task class, regenerated from the source text on every run
    (translate/C17_access.py -> Gen/C17_access_gen.v): for mode x role (task 0 = all non-parallel elements /
    one parallel element) x element class (position-only?) the array the element's calcForce accumulates into,
    which local arrays initialize() zeroes and finish() adds to which shared arrays, and whether the local arrays
    are thread_local.

    Force arrays are abstract: an array is the list of element ids whose contributions were added to it, in the
    order of addition (accumulation is +=, so the array's value is the sum of the contributions in that list).
    [interp] executes a chronological list of task calls (worker, initialize | execute i | finish) -- one round of
    ParallelExecutor::execute -- on that state. *)
From Coq Require Import List Arith Bool PeanoNat.
Import ListNotations.
Require Import C33_Index.

Inductive arr := LocalF | LocalC | SharedF | SharedC.
Inductive mode := MAll | MCNC | MNC.     (* All, CachedAndNonCached, NonCached *)

Definition arr_eqb (a b:arr) : bool :=
  match a, b with LocalF, LocalF | LocalC, LocalC | SharedF, SharedF | SharedC, SharedC => true | _, _ => false end.
Definition is_shared (a:arr) : bool := match a with SharedF | SharedC => true | _ => false end.

Record taskdesc := mkTask {
  t_rows : list (option arr);        (* 12 rows: mode (All, CNC, NC) x role (task0, worker) x class (position-only, velocity-dependent) *)
  t_fin_always : list (arr * arr);   (* finish(): local added to shared in every mode *)
  t_fin_cnc : list (arr * arr);      (* ... only in mode CachedAndNonCached *)
  t_zero_always : list arr;          (* initialize(): locals zeroed in every mode *)
  t_zero_cnc : list arr;             (* ... only in mode CachedAndNonCached *)
  t_tls : bool }.                    (* local arrays are static thread_local (one copy per worker) *)

Definition mode_ix (m:mode) : nat := match m with MAll => 0 | MCNC => 1 | MNC => 2 end.
Definition row (m:mode) (task0 pos:bool) : nat := mode_ix m * 4 + (if task0 then 0 else 2) + (if pos then 0 else 1).
Definition target (d:taskdesc) (m:mode) (task0 pos:bool) : option arr := nth (row m task0 pos) (t_rows d) None.
Definition fin_moves (d:taskdesc) (m:mode) : list (arr * arr) :=
  t_fin_always d ++ (match m with MCNC => t_fin_cnc d | _ => [] end).
Definition zeroed (d:taskdesc) (m:mode) : list arr :=
  t_zero_always d ++ (match m with MCNC => t_zero_cnc d | _ => [] end).

(** force elements of the subsystem that are enabled: id, shouldBeParallelIfPossible(), dependsOnlyOnPositions() *)
Record elem := mkEl { el_id : nat; el_par : bool; el_pos : bool }.
Definition nonpar (els:list elem) : list elem := filter (fun e => negb (el_par e)) els.
Definition par (els:list elem) : list elem := filter el_par els.
(** task index 0 = all non-parallel elements in ForceIndex order; index i+1 = the i-th parallel element *)
Definition task_elems (els:list elem) (i:nat) : list elem :=
  match i with 0 => nonpar els | S j => match nth_error (par els) j with Some e => [e] | None => [] end end.
Definition ntasks (els:list elem) : nat := S (length (par els)).

Inductive tev := TInit | TExec (i:nat) | TFin.

(** the two local arrays of one storage slot, and what one task call appends to the two shared arrays *)
Record lview := mkL { vF : list nat; vC : list nat }.
Definition lget (lv:lview) (a:arr) : list nat := match a with LocalF => vF lv | LocalC => vC lv | _ => [] end.
Definition ladd (lv:lview) (a:arr) (l:list nat) : lview :=
  match a with LocalF => mkL (vF lv ++ l) (vC lv) | LocalC => mkL (vF lv) (vC lv ++ l) | _ => lv end.
Definition lzero (lv:lview) (a:arr) : lview :=
  match a with LocalF => mkL [] (vC lv) | LocalC => mkL (vF lv) [] | _ => lv end.
Record adds := mkA { aF : list nat; aC : list nat }.
Definition aget (x:adds) (S:arr) : list nat := match S with SharedF => aF x | SharedC => aC x | _ => [] end.
Definition aadd (x:adds) (S:arr) (l:list nat) : adds :=
  match S with SharedF => mkA (aF x ++ l) (aC x) | SharedC => mkA (aF x) (aC x ++ l) | _ => x end.
Definition a0 : adds := mkA [] [].

(** one element's calcForce in a task call of role [task0] *)
Definition exec1 (d:taskdesc) (m:mode) (task0:bool) (acc:lview * adds) (e:elem) : lview * adds :=
  match target d m task0 (el_pos e) with
  | Some a => if is_shared a then (fst acc, aadd (snd acc) a [el_id e]) else (ladd (fst acc) a [el_id e], snd acc)
  | None => acc
  end.
(** one task call seen from the calling worker: new contents of its local arrays, what it appends to the shared arrays *)
Definition wstep (d:taskdesc) (m:mode) (els:list elem) (lv:lview) (e:tev) : lview * adds :=
  match e with
  | TInit => (fold_left lzero (zeroed d m) lv, a0)
  | TExec i => fold_left (exec1 d m (i =? 0)) (task_elems els i) (lv, a0)
  | TFin => (lv, fold_left (fun x p => aadd x (snd p) (lget lv (fst p))) (fin_moves d m) a0)
  end.

(** state: the local arrays of every storage slot and the two shared arrays *)
Record fstate := mkF { loc : nat -> lview; shF : list nat; shC : list nat }.
Definition shg (s:fstate) (S:arr) : list nat := match S with SharedF => shF s | SharedC => shC s | _ => [] end.
Definition slot_of (d:taskdesc) (w:nat) : nat := if t_tls d then w else 0.
Definition step (d:taskdesc) (m:mode) (els:list elem) (s:fstate) (we:nat * tev) : fstate :=
  let k := slot_of d (fst we) in
  let r := wstep d m els (loc s k) (snd we) in
  mkF (fun k' => if k' =? k then fst r else loc s k') (shF s ++ aF (snd r)) (shC s ++ aC (snd r)).
Definition interp (d:taskdesc) (m:mode) (els:list elem) (evs:list (nat * tev)) (s:fstate) : fstate :=
  fold_left (step d m els) evs s.
Definition fstate0 : fstate := mkF (fun _ => mkL [] []) [] [].

(** the task calls of worker w, in order *)
Definition proj (w:nat) (evs:list (nat * tev)) : list tev := map snd (filter (fun p => fst p =? w) evs).

(** the worker loop of ParallelExecutor: [stripe w T n] of C33_Index.v *)
Definition wfull (w T n:nat) : list tev := TInit :: map TExec (stripe w T n) ++ [TFin].

(** a round of ParallelExecutor::execute(task, n) with T workers: every worker calls initialize, execute on its stripe,
    finish, in that order; nothing is said about how the workers interleave *)
Definition valid_round (T n:nat) (evs:list (nat * tev)) : Prop :=
  (forall w, w < T -> proj w evs = wfull w T n) /\ (forall p, In p evs -> fst p < T).
(** executable check of the same (for the correspondence driver) *)
Definition tev_eqb (a b:tev) : bool :=
  match a, b with TInit, TInit | TFin, TFin => true | TExec i, TExec j => i =? j | _, _ => false end.
Fixpoint tevs_eqb (a b:list tev) : bool :=
  match a, b with [], [] => true | x::a', y::b' => tev_eqb x y && tevs_eqb a' b' | _, _ => false end.
Definition valid_round_b (T n:nat) (evs:list (nat * tev)) : bool :=
  forallb (fun w => tevs_eqb (proj w evs) (wfull w T n)) (seq 0 T) && forallb (fun p => fst p <? T) evs.

(** ---------------------------------------------------------------- what must end up in shared array S: the ids of the elements whose
    calcForce target is S, and of those whose target is a local array that finish() adds to S *)
Definition direct (d:taskdesc) (m:mode) (els:list elem) (a:arr) (i:nat) : list nat :=
  flat_map (fun e => match target d m (i =? 0) (el_pos e) with
                     | Some a' => if arr_eqb a' a then [el_id e] else []
                     | None => [] end) (task_elems els i).
Definition contrib1 (d:taskdesc) (m:mode) (els:list elem) (S:arr) (i:nat) : list nat :=
  direct d m els S i ++ flat_map (fun p => if arr_eqb (snd p) S then direct d m els (fst p) i else []) (fin_moves d m).
Definition expected (d:taskdesc) (m:mode) (els:list elem) (S:arr) : list nat :=
  flat_map (contrib1 d m els S) (seq 0 (ntasks els)).

(** the table is usable in mode m: finish() adds local arrays to shared arrays, and every local array it adds was zeroed
    by initialize() (otherwise the totals would contain what an earlier round left there) *)
Definition is_local (a:arr) : bool := negb (is_shared a).
Definition wf_task (d:taskdesc) (m:mode) : bool :=
  forallb (fun p => is_local (fst p) && is_shared (snd p) && existsb (arr_eqb (fst p)) (zeroed d m)) (fin_moves d m)
  && forallb is_local (zeroed d m).

(** ---------------------------------------------------------------- accesses, for race freedom *)
(** arrays touched by execute(i) outside the executor's mutex: (array, storage slot); shared arrays have slot 0 *)
Definition loc_key (d:taskdesc) (w:nat) (a:arr) : arr * nat := (a, if is_shared a then 0 else slot_of d w).
Definition exec_acc (d:taskdesc) (m:mode) (els:list elem) (w i:nat) : list (arr * nat) :=
  flat_map (fun e => match target d m (i =? 0) (el_pos e) with Some a => [loc_key d w a] | None => [] end) (task_elems els i).
Definition init_acc (d:taskdesc) (m:mode) (w:nat) : list (arr * nat) := map (loc_key d w) (zeroed d m).
Definition fin_acc (d:taskdesc) (m:mode) (w:nat) : list (arr * nat) :=
  flat_map (fun p => [loc_key d w (fst p); loc_key d w (snd p)]) (fin_moves d m).
Definition key_eqb (x y:arr * nat) : bool := arr_eqb (fst x) (fst y) && (snd x =? snd y).
(** every access is a read-modify-write, so two accesses conflict iff they touch the same array *)
Definition conflict (A B:list (arr * nat)) : bool := existsb (fun x => existsb (key_eqb x) B) A.

(** no element accumulates into a shared array from execute() *)
Definition exec_local_only (d:taskdesc) : bool :=
  forallb (fun r => match r with Some a => is_local a | None => true end) (t_rows d).

(** ---------------------------------------------------------------- the table before commit 464af57c (task 0 wrote the shared arrays in
    the two caching modes) *)
Definition parallel_prefix : taskdesc :=
  mkTask [Some LocalF; Some LocalF; Some LocalF; Some LocalF;
          Some SharedC; Some SharedF; Some LocalC; Some LocalF;
          None; Some SharedF; None; Some LocalF]
         [(LocalF,SharedF)] [(LocalC,SharedC)] [LocalF] [LocalC] true.
