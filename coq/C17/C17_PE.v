(** C17 on top of the C33 ParallelExecutor protocol model (coq/C33/C33_PE.v, theorems of C33_PEProofs.v):
    Part B: every completed round of the protocol model is a [valid_round]; hence the totals theorem for every reachable
            run of the executor (all thread counts, task counts, interleavings, spurious wake-ups).
    Part C: race freedom of the force arrays from the access table + C33's mutual exclusion of finish(); refutations for
            the pre-fix table and for the non-parallel task driven by a multi-threaded executor. *)
From Coq Require Import List Arith Bool PeanoNat Lia Permutation.
Import ListNotations.
Require Import C33_Lib C33_Index C33_IndexProofs C33_PE C33_PEProofs C17_Model C17_Proofs.

(* ================================================================ Part B *)
(** the force-task calls in a protocol event (finish() acts at its end event) *)
Definition conv_act (a:act) : list tev :=
  match a with AInit => [TInit] | AExec i => [TExec i] | AFinE => [TFin] | _ => [] end.
Definition tev_of (e:event) : list (nat * tev) :=
  match fst e with W w => map (fun t => (w, t)) (conv_act (snd e)) | Main => [] end.
(** chronological task calls of a newest-first protocol trace *)
Definition tevs (tr:list event) : list (nat * tev) := flat_map tev_of (rev tr).

Lemma filter_rev {A} (f:A -> bool) l : filter f (rev l) = rev (filter f l).
Proof.
  induction l; simpl; auto. rewrite filter_app, IHl. simpl. destruct (f a); simpl; auto. now rewrite app_nil_r.
Qed.

Lemma proj_flat w : forall l,
  proj w (flat_map tev_of l) = flat_map conv_act (map snd (filter (fun e => thr_is w (fst e) && is_task (snd e)) l)).
Proof.
  induction l as [|[t a] l IH]; simpl; auto.
  unfold proj in *. rewrite filter_app, map_app, IH. clear IH. f_equal.
  unfold tev_of. cbn [fst snd]. destruct t as [|v]; cbn [thr_is andb]; auto.
  destruct (Nat.eqb_spec v w) as [->|N].
  - destruct a; cbn [conv_act is_task map filter fst snd flat_map app andb]; rewrite ?Nat.eqb_refl; auto.
  - destruct a; cbn [conv_act is_task map filter fst snd flat_map app andb]; auto;
      destruct (Nat.eqb_spec v w); try contradiction; auto.
Qed.

Lemma proj_tevs w tr : proj w (tevs tr) = flat_map conv_act (wtask w tr).
Proof. unfold tevs, wtask. rewrite proj_flat, filter_rev, map_rev. reflexivity. Qed.

Lemma conv_full w T n : flat_map conv_act (AInit :: map AExec (stripe w T n) ++ [AFinB; AFinE]) = wfull w T n.
Proof.
  unfold wfull. cbn [flat_map conv_act app]. f_equal. rewrite flat_map_app. cbn [flat_map conv_act app].
  f_equal. induction (stripe w T n); simpl; auto. now rewrite IHl.
Qed.

Lemma round_events_in e tr : In e (round_events tr) -> In e tr.
Proof. induction tr as [|x tr IH]; simpl; auto. destruct (is_begin x); simpl; [tauto|]. intros [H|H]; auto. Qed.

Lemma run_worker_lt T td tr s : run T td tr s -> forall w a, In (W w, a) tr -> w < T.
Proof.
  induction 1 as [|tr s e s' R IH F]; intros w a Hin. destruct Hin.
  destruct Hin as [E|Hin]; [|eauto]. subst e. unfold fire in F. cbn [fst snd] in F. unfold fire_w in F.
  rewrite (run_nthreads _ _ _ _ R) in F. destruct (Nat.ltb_spec w T); auto. discriminate.
Qed.

(** every completed round of ParallelExecutor::execute is a valid round *)
Theorem pe_round_valid T td tr s :
  run T td ((Main, MExecEnd) :: tr) s ->
  exists n, last_begin tr = Some n /\ valid_round T n (tevs (round_events tr)).
Proof.
  intros R. destruct (pe_round_executes_stripes T td tr s R) as [n [L P]]. exists n. split; auto. split.
  - intros w Hw. rewrite proj_tevs, (P w Hw). apply conv_full.
  - intros [w t] Hin. unfold tevs in Hin. apply in_flat_map in Hin as [[th a] [H1 H2]].
    apply in_rev in H1. apply round_events_in in H1. unfold tev_of in H2. cbn [fst snd] in *.
    destruct th as [|v]; [destruct H2|]. apply in_map_iff in H2 as [t' [E _]]. inversion E; subst.
    inversion R; subst. eapply run_worker_lt; eauto.
Qed.

(** THE TOTALS THEOREM on the executor protocol: in every reachable run of the protocol model (any number of worker
    threads, any interleaving, spurious wake-ups included), when execute(task, n) with n = #parallel elements + 1
    returns, each shared force array holds its previous contents plus a permutation of [expected] *)
Theorem totals_after_any_executor_run d m els S T td tr s0 f :
  wf_task d m = true -> is_shared S = true -> T > 0 -> (forall w, w < T -> slot_of d w = w) ->
  run T td ((Main, MExecEnd) :: tr) s0 -> last_begin tr = Some (ntasks els) ->
  Permutation (shg (interp d m els (tevs (round_events tr)) f) S) (shg f S ++ expected d m els S).
Proof.
  intros W HS HT L R LB. destruct (pe_round_valid T td tr s0 R) as [n [LB' V]].
  rewrite LB in LB'. inversion LB'; subst n. now apply (totals_are_expected d m els S T).
Qed.

(* ================================================================ Part C: races *)
(** arrays worker w may be touching in protocol state s: inside finish() (pc WInFin, holding the mutex), inside
    initialize() (after the init event, before the first execute event) or inside execute(i) (after the event of
    index i, before the next event) *)
Definition acc_of (d:taskdesc) (m:mode) (els:list elem) (T:nat) (s:st) (w:nat) : list (arr * nat) :=
  match pcw s w with
  | WInFin => fin_acc d m w
  | WExec idx cnt => if idx =? w then init_acc d m w else exec_acc d m els w (idx - T)
  | _ => []
  end.
Definition race (d:taskdesc) (m:mode) (els:list elem) (T:nat) (s:st) (w1 w2:nat) : bool :=
  conflict (acc_of d m els T s w1) (acc_of d m els T s w2).

Lemma conflict_false A B : (forall x y, In x A -> In y B -> key_eqb x y = false) -> conflict A B = false.
Proof.
  intros H. unfold conflict. apply not_true_is_false. intros E. apply existsb_exists in E as [x [Hx E]].
  apply existsb_exists in E as [y [Hy E]]. rewrite (H x y Hx Hy) in E. discriminate.
Qed.

Definition own_local (w:nat) (k:arr * nat) : Prop := is_shared (fst k) = false /\ snd k = w.
Definition own_or_shared (w:nat) (k:arr * nat) : Prop := own_local w k \/ (is_shared (fst k) = true /\ snd k = 0).

Lemma key_diff w1 w2 x y : w1 <> w2 -> own_local w1 x -> own_or_shared w2 y -> key_eqb x y = false.
Proof.
  intros N [L1 S1] [[L2 S2]|[L2 S2]]; unfold key_eqb.
  - destruct (Nat.eqb_spec (snd x) (snd y)); [lia|]. now rewrite andb_false_r.
  - destruct (fst x), (fst y); simpl in *; try discriminate; auto.
Qed.
Lemma key_diff' w1 w2 x y : w1 <> w2 -> own_or_shared w1 x -> own_local w2 y -> key_eqb x y = false.
Proof.
  intros N H1 H2. assert (key_eqb y x = false) by (apply (key_diff w2 w1); auto).
  unfold key_eqb in *. destruct (fst x), (fst y); simpl in *; auto; rewrite Nat.eqb_sym; auto.
Qed.

Section RF.
Variables (d:taskdesc) (m:mode) (els:list elem).
Hypothesis TLS : t_tls d = true.
Hypothesis ELO : exec_local_only d = true.
Hypothesis WF : wf_task d m = true.

Lemma target_local t0 pos a : target d m t0 pos = Some a -> is_shared a = false.
Proof.
  unfold target. intros H. unfold exec_local_only in ELO. rewrite forallb_forall in ELO.
  destruct (lt_dec (row m t0 pos) (length (t_rows d))) as [L|L].
  - specialize (ELO _ (nth_In _ None L)). rewrite H in ELO. unfold is_local in ELO. now destruct (is_shared a).
  - rewrite nth_overflow in H by lia. discriminate.
Qed.
Lemma slot_w w : slot_of d w = w. Proof. unfold slot_of. now rewrite TLS. Qed.

Lemma exec_keys w i k : In k (exec_acc d m els w i) -> own_local w k.
Proof.
  unfold exec_acc. intros H. apply in_flat_map in H as [e [_ H]].
  destruct (target d m (i =? 0) (el_pos e)) as [a|] eqn:E; [|destruct H]. destruct H as [<-|[]].
  pose proof (target_local _ _ _ E) as L. unfold own_local, loc_key. cbn [fst snd]. rewrite L, slot_w. auto.
Qed.
Lemma init_keys w k : In k (init_acc d m w) -> own_local w k.
Proof.
  unfold init_acc. intros H. apply in_map_iff in H as [a [<- Ha]].
  unfold wf_task in WF. apply andb_true_iff in WF as [_ W]. rewrite forallb_forall in W. specialize (W a Ha).
  unfold is_local in W. unfold own_local, loc_key. cbn [fst snd]. destruct (is_shared a); [discriminate|]. rewrite slot_w. auto.
Qed.
Lemma fin_keys w k : In k (fin_acc d m w) -> own_or_shared w k.
Proof.
  unfold fin_acc. intros H. apply in_flat_map in H as [p [Hp H]].
  unfold wf_task in WF. apply andb_true_iff in WF as [W _]. rewrite forallb_forall in W. specialize (W p Hp).
  apply andb_true_iff in W as [W _]. apply andb_true_iff in W as [W1 W2]. unfold is_local in W1.
  destruct H as [<-|[<-|[]]]; unfold own_or_shared, own_local, loc_key; cbn [fst snd].
  - destruct (is_shared (fst p)); [discriminate|]. rewrite slot_w. auto.
  - rewrite W2. auto.
Qed.

(** RACE FREEDOM: in no reachable state of the executor do two different workers touch the same force array *)
Theorem race_free T td tr s w1 w2 :
  run T td tr s -> w1 < T -> w2 < T -> w1 <> w2 -> race d m els T s w1 w2 = false.
Proof.
  intros R L1 L2 N. unfold race, acc_of.
  destruct (pcw s w1) eqn:P1; try reflexivity; destruct (pcw s w2) eqn:P2;
    try reflexivity; try (apply conflict_false; intros x y Hx Hy; destruct Hx; fail);
    try (unfold conflict; induction (fin_acc d m w1); simpl; auto; fail);
    try (unfold conflict; match goal with |- existsb _ ?l = false => induction l; simpl; auto end; fail).
  - (* execute/initialize vs execute/initialize *)
    apply conflict_false. intros x y Hx Hy. apply (key_diff w1 w2); auto.
    + destruct (idx =? w1); [now apply init_keys|now apply exec_keys in Hx].
    + left. destruct (idx0 =? w2); [now apply init_keys|now apply exec_keys in Hy].
  - (* execute/initialize vs finish *)
    apply conflict_false. intros x y Hx Hy. apply (key_diff w1 w2); auto.
    + destruct (idx =? w1); [now apply init_keys|now apply exec_keys in Hx].
    + now apply fin_keys.
  - (* finish vs execute/initialize *)
    apply conflict_false. intros x y Hx Hy. apply (key_diff' w1 w2); auto.
    + now apply fin_keys.
    + destruct (idx =? w2); [now apply init_keys|now apply exec_keys in Hy].
  - (* finish vs finish: excluded by the executor's mutex (C33) *)
    exfalso. destruct (pe_finish_mutually_exclusive T td tr s w1 w2 R L1 L2 P1 P2) as [E _]. contradiction.
Qed.
End RF.

(* ---------------------------------------------------------------- reachable states by execution of an event list *)
Fixpoint fire_all (s:st) (evs:list event) : option st :=
  match evs with [] => Some s | e :: r => match fire s e with Some s' => fire_all s' r | None => None end end.
Lemma fire_all_run T td : forall evs tr s s', run T td tr s -> fire_all s evs = Some s' -> run T td (rev evs ++ tr) s'.
Proof.
  induction evs as [|e evs IH]; intros tr s s' R H; simpl in *. now inversion H; subst.
  destruct (fire s e) as [s1|] eqn:F; [|discriminate]. rewrite <- app_assoc. simpl. apply (IH (e :: tr) s1); auto.
  econstructor; eauto.
Qed.

(** main starts execute(task, n) and blocks; worker 0 reaches the inside of execute(0); worker 1 runs its (possibly
    empty) stripe and is inside finish() *)
Definition overlap_schedule (n:nat) : list event :=
  [(Main, MExecBegin n); (Main, MLockA); (Main, MSetA); (Main, MNotifyA); (Main, MWaitEnterA);
   (W 0, AStart); (W 0, ALoop); (W 0, ALock); (W 0, AWaitEnter); (W 0, AUnlock); (W 0, AGo); (W 0, AInit); (W 0, AExec 0);
   (W 1, AStart); (W 1, ALoop); (W 1, ALock); (W 1, AWaitEnter); (W 1, AUnlock); (W 1, AGo); (W 1, AInit)]
  ++ (if 1 <? n then [(W 1, AExec 1)] else []) ++ [(W 1, AClear); (W 1, ALock2); (W 1, AFinB)].
