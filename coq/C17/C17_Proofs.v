(** C17: proofs about the force-accumulation model of C17_Model.v.
    Part A: schedule independence of the contents of the shared arrays for every thread count, element mix and
            interleaving of a round; hence equal sums over R.
    Part B: the rounds of the C33 executor protocol model are valid rounds (reuses C33_PEProofs).
    Part C: race freedom from the access table + mutual exclusion of finish() (C33), and refutations. *)
From Coq Require Import List Arith Bool PeanoNat Lia Permutation Reals Lra.
Import ListNotations.
Require Import C33_Index C33_IndexProofs C17_Model.

(* ================================================================ list / permutation helpers *)
Lemma flat_map_app_perm {A B} (f g:A -> list B) l :
  Permutation (flat_map (fun i => f i ++ g i) l) (flat_map f l ++ flat_map g l).
Proof.
  induction l; simpl; auto. rewrite <- !app_assoc. apply Permutation_app_head.
  rewrite IHl. rewrite !app_assoc. apply Permutation_app_tail. apply Permutation_app_comm.
Qed.
Lemma flat_map_nil {A B} (l:list A) : flat_map (fun _ => @nil B) l = [].
Proof. induction l; simpl; auto. Qed.
Lemma flat_map_ext_in' {A B} (f g:A -> list B) l : (forall x, In x l -> f x = g x) -> flat_map f l = flat_map g l.
Proof. induction l; simpl; intros H; auto. rewrite H by now left. f_equal. apply IHl. intros; apply H; now right. Qed.
Lemma flat_map_swap {A B C} (f:A -> B -> list C) xs ys :
  Permutation (flat_map (fun x => flat_map (f x) ys) xs) (flat_map (fun y => flat_map (fun x => f x y) xs) ys).
Proof.
  induction xs; simpl. now rewrite flat_map_nil.
  rewrite IHxs. symmetry. apply flat_map_app_perm.
Qed.
Lemma concat_map_upd {A} (f g:nat -> list A) a v T : v < T -> (forall w, w <> v -> f w = g w) -> f v = a ++ g v ->
  Permutation (concat (map f (seq 0 T))) (a ++ concat (map g (seq 0 T))).
Proof.
  intros Hv Hne Hv2.
  pose proof (seq_app v (S (T - S v)) 0) as E. replace (v + S (T - S v)) with T in E by lia. simpl in E. rewrite E.
  rewrite !map_app, !concat_app. simpl. rewrite Hv2.
  rewrite (map_ext_in f g (seq 0 v)) by (intros w Hw; apply in_seq in Hw; apply Hne; lia).
  rewrite (map_ext_in f g (seq (S v) (T - S v))) by (intros w Hw; apply in_seq in Hw; apply Hne; lia).
  rewrite <- !app_assoc. apply Permutation_app_swap_app.
Qed.

Lemma arr_eqb_eq a b : arr_eqb a b = true <-> a = b.
Proof. destruct a, b; simpl; split; intros; try discriminate; auto. Qed.
Lemma arr_eqb_refl a : arr_eqb a a = true.
Proof. now destruct a. Qed.
Lemma arr_eqb_sl a b : is_shared a = true -> is_shared b = false -> arr_eqb a b = false.
Proof. destruct a, b; simpl; intros; try discriminate; auto. Qed.
Lemma arr_eqb_ls a b : is_shared a = false -> is_shared b = true -> arr_eqb a b = false.
Proof. destruct a, b; simpl; intros; try discriminate; auto. Qed.

(* ================================================================ Part A *)
Section SI.
Variables (d:taskdesc) (m:mode) (els:list elem).

(** what worker-local evaluation of a list of task calls appends to shared array S, and the locals it leaves *)
Fixpoint wadds (lv:lview) (p:list tev) (S:arr) : list nat :=
  match p with [] => [] | e :: r => let x := wstep d m els lv e in aget (snd x) S ++ wadds (fst x) r S end.
Fixpoint wloc (lv:lview) (p:list tev) : lview :=
  match p with [] => lv | e :: r => wloc (fst (wstep d m els lv e)) r end.

Lemma shg_step s we S : is_shared S = true ->
  shg (step d m els s we) S = shg s S ++ aget (snd (wstep d m els (loc s (slot_of d (fst we))) (snd we))) S.
Proof. destruct S; simpl; intros; try discriminate; reflexivity. Qed.

Lemma proj_cons_eq w e evs : proj w ((w, e) :: evs) = e :: proj w evs.
Proof. unfold proj. simpl. now rewrite Nat.eqb_refl. Qed.
Lemma proj_cons_neq w v e evs : v <> w -> proj w ((v, e) :: evs) = proj w evs.
Proof. unfold proj. simpl. intros. destruct (Nat.eqb_spec v w); [contradiction|reflexivity]. Qed.

(** FACTORISATION: whatever the interleaving, a shared array ends as its initial contents followed by a permutation of
    what the workers, each evaluated on its own, append to it *)
Lemma interp_factor T S : is_shared S = true -> (forall w, w < T -> slot_of d w = w) ->
  forall evs s, (forall p, In p evs -> fst p < T) ->
  Permutation (shg (interp d m els evs s) S)
              (shg s S ++ concat (map (fun w => wadds (loc s w) (proj w evs) S) (seq 0 T))).
Proof.
  intros HS Hslot. induction evs as [|[v e] evs IH]; intros s Hin.
  - simpl. replace (concat (map (fun _ => []) (seq 0 T))) with (@nil nat). now rewrite app_nil_r.
    clear. induction (seq 0 T); simpl; auto.
  - assert (Hv : v < T) by (apply (Hin (v, e)); now left).
    change (interp d m els ((v, e) :: evs) s) with (interp d m els evs (step d m els s (v, e))).
    rewrite IH by (intros p Hp; apply Hin; now right).
    rewrite shg_step by auto. cbn [fst snd]. rewrite (Hslot v Hv). rewrite <- app_assoc. apply Permutation_app_head.
    symmetry. apply concat_map_upd with (v := v); auto.
    + intros w Hw. rewrite proj_cons_neq by auto. f_equal. unfold step. cbn [loc fst snd]. rewrite (Hslot v Hv).
      destruct (Nat.eqb_spec w v); [contradiction|reflexivity].
    + rewrite proj_cons_eq. cbn [wadds]. f_equal. f_equal. unfold step. cbn [loc fst snd]. rewrite (Hslot v Hv). now rewrite Nat.eqb_refl.
Qed.

(* ---------------------------------------------------------------- one worker's round in closed form *)
Lemma lget_ladd lv a b l : is_shared b = false ->
  lget (ladd lv a l) b = if arr_eqb a b then lget lv b ++ l else lget lv b.
Proof. destruct a, b; simpl; intros; try discriminate; auto. Qed.
Lemma aget_aadd x a S l : is_shared S = true ->
  aget (aadd x a l) S = if arr_eqb a S then aget x S ++ l else aget x S.
Proof. destruct a, S; simpl; intros; try discriminate; auto. Qed.

Definition el_out (t0:bool) (a:arr) (e:elem) : list nat :=
  match target d m t0 (el_pos e) with Some a' => if arr_eqb a' a then [el_id e] else [] | None => [] end.

Lemma exec1_spec t0 lv x e :
  (forall a, is_shared a = false -> lget (fst (exec1 d m t0 (lv, x) e)) a = lget lv a ++ el_out t0 a e) /\
  (forall S, is_shared S = true -> aget (snd (exec1 d m t0 (lv, x) e)) S = aget x S ++ el_out t0 S e).
Proof.
  unfold exec1, el_out. destruct (target d m t0 (el_pos e)) as [a'|]; cbn [fst snd].
  - destruct (is_shared a') eqn:Sh; cbn [fst snd]; split.
    + intros a Ha. rewrite (arr_eqb_sl a' a) by auto. now rewrite app_nil_r.
    + intros S HS. rewrite aget_aadd by auto. destruct (arr_eqb a' S); now rewrite ?app_nil_r.
    + intros a Ha. rewrite lget_ladd by auto. destruct (arr_eqb a' a); now rewrite ?app_nil_r.
    + intros S HS. rewrite (arr_eqb_ls a' S) by auto. now rewrite app_nil_r.
  - split; intros; now rewrite app_nil_r.
Qed.

Lemma exec_fold t0 : forall l lv x,
  let r := fold_left (exec1 d m t0) l (lv, x) in
  (forall a, is_shared a = false -> lget (fst r) a = lget lv a ++ flat_map (el_out t0 a) l) /\
  (forall S, is_shared S = true -> aget (snd r) S = aget x S ++ flat_map (el_out t0 S) l).
Proof.
  induction l as [|e l IH]; intros lv x; cbn [fold_left flat_map].
  - split; intros; now rewrite app_nil_r.
  - rewrite (surjective_pairing (exec1 d m t0 (lv, x) e)).
    destruct (IH (fst (exec1 d m t0 (lv, x) e)) (snd (exec1 d m t0 (lv, x) e))) as [H1 H2].
    destruct (exec1_spec t0 lv x e) as [G1 G2]. split.
    + intros a Ha. rewrite H1, G1 by auto. now rewrite app_assoc.
    + intros S HS. rewrite H2, G2 by auto. now rewrite app_assoc.
Qed.

Lemma direct_eq a i : direct d m els a i = flat_map (el_out (i =? 0) a) (task_elems els i).
Proof. reflexivity. Qed.

Lemma wstep_exec lv i :
  (forall a, is_shared a = false -> lget (fst (wstep d m els lv (TExec i))) a = lget lv a ++ direct d m els a i) /\
  (forall S, is_shared S = true -> aget (snd (wstep d m els lv (TExec i))) S = direct d m els S i).
Proof.
  simpl. destruct (exec_fold (i =? 0) (task_elems els i) lv a0) as [H1 H2]. split; intros.
  - now rewrite H1, direct_eq.
  - rewrite H2 by auto. destruct S; simpl in *; try discriminate; now rewrite direct_eq.
Qed.

Lemma wadds_execs S : is_shared S = true -> forall is lv rest,
  exists lv', wadds lv (map TExec is ++ rest) S = flat_map (direct d m els S) is ++ wadds lv' rest S /\
              forall a, is_shared a = false -> lget lv' a = lget lv a ++ flat_map (direct d m els a) is.
Proof.
  intros HS. induction is as [|i is IH]; intros lv rest.
  - exists lv. split; auto. intros; simpl; now rewrite app_nil_r.
  - destruct (wstep_exec lv i) as [H1 H2].
    destruct (IH (fst (wstep d m els lv (TExec i))) rest) as [lv' [E1 E2]]. exists lv'. split.
    + cbn [map app wadds flat_map]. rewrite H2 by auto. rewrite E1. now rewrite app_assoc.
    + intros a Ha. rewrite E2, H1 by auto. simpl. now rewrite app_assoc.
Qed.

Lemma fin_fold lv S : is_shared S = true -> forall l x,
  aget (fold_left (fun x p => aadd x (snd p) (lget lv (fst p))) l x) S
  = aget x S ++ flat_map (fun p => if arr_eqb (snd p) S then lget lv (fst p) else []) l.
Proof.
  intros HS. induction l as [|p l IH]; intros x; simpl. now rewrite app_nil_r.
  rewrite IH, aget_aadd by auto. destruct (arr_eqb (snd p) S); simpl; now rewrite <- ?app_assoc.
Qed.

Lemma lzero_fold a : is_shared a = false -> forall zs lv,
  lget (fold_left lzero zs lv) a = if existsb (arr_eqb a) zs then [] else lget lv a.
Proof.
  intros Ha. induction zs as [|z zs IH]; intros lv; simpl; auto.
  rewrite IH. destruct (existsb (arr_eqb a) zs); [now rewrite orb_true_r|]. rewrite orb_false_r.
  destruct a, z; simpl in *; try discriminate; auto.
Qed.

Hypothesis WF : wf_task d m = true.

Lemma move_ok p : In p (fin_moves d m) -> is_shared (fst p) = false /\ existsb (arr_eqb (fst p)) (zeroed d m) = true.
Proof.
  intros H. unfold wf_task in WF. apply andb_true_iff in WF as [W _]. rewrite forallb_forall in W. specialize (W p H).
  apply andb_true_iff in W as [W W3]. apply andb_true_iff in W as [W1 _]. unfold is_local in W1. split; auto.
  now destruct (is_shared (fst p)).
Qed.

(** what one worker that runs [initialize; execute the tasks is; finish] appends to S, whatever its locals held before *)
Lemma wadds_round S is lv : is_shared S = true ->
  Permutation (wadds lv (TInit :: map TExec is ++ [TFin]) S) (flat_map (contrib1 d m els S) is).
Proof.
  intros HS. cbn [wadds]. change (aget (snd (wstep d m els lv TInit)) S) with (aget a0 S).
  replace (aget a0 S) with (@nil nat) by (now destruct S). cbn [app].
  set (lv1 := fst (wstep d m els lv TInit)).
  destruct (wadds_execs S HS is lv1 [TFin]) as [lv2 [E1 E2]]. rewrite E1. cbn [wadds].
  change (snd (wstep d m els lv2 TFin)) with (fold_left (fun x p => aadd x (snd p) (lget lv2 (fst p))) (fin_moves d m) a0).
  rewrite fin_fold by auto. replace (aget a0 S) with (@nil nat) by (now destruct S). cbn [app]. rewrite app_nil_r.
  unfold contrib1. rewrite flat_map_app_perm. apply Permutation_app_head.
  (* the moved locals: each was zeroed by initialize, so it holds exactly this round's contributions *)
  rewrite <- flat_map_swap.
  assert (Hmv : forall p, In p (fin_moves d m) ->
            (if arr_eqb (snd p) S then lget lv2 (fst p) else []) =
            flat_map (fun i => if arr_eqb (snd p) S then direct d m els (fst p) i else []) is).
  { intros p Hp. destruct (move_ok p Hp) as [L Z]. destruct (arr_eqb (snd p) S).
    - rewrite E2 by auto. unfold lv1. simpl. rewrite lzero_fold by auto. rewrite Z. reflexivity.
    - now rewrite flat_map_nil. }
  rewrite (flat_map_ext_in' _ _ (fin_moves d m) Hmv). apply Permutation_refl.
Qed.

(** SCHEDULE INDEPENDENCE of what is added to a shared array *)
Theorem round_adds_expected T n S evs s : T > 0 -> is_shared S = true -> (forall w, w < T -> slot_of d w = w) ->
  valid_round T n evs ->
  Permutation (shg (interp d m els evs s) S) (shg s S ++ flat_map (contrib1 d m els S) (seq 0 n)).
Proof.
  intros HT HS Hslot [Hp Hin]. rewrite (interp_factor T S HS Hslot evs s Hin). apply Permutation_app_head.
  transitivity (concat (map (fun w => flat_map (contrib1 d m els S) (stripe w T n)) (seq 0 T))).
  - clear Hin. assert (forall l, (forall w, In w l -> w < T) ->
      Permutation (concat (map (fun w => wadds (loc s w) (proj w evs) S) l)) (concat (map (fun w => flat_map (contrib1 d m els S) (stripe w T n)) l))) as G.
    { induction l as [|w l IH]; intros Hl; simpl; auto. apply Permutation_app.
      - rewrite (Hp w) by (apply Hl; now left). unfold wfull. now apply wadds_round.
      - apply IH. intros; apply Hl; now right. }
    apply G. intros w Hw. apply in_seq in Hw. lia.
  - assert (forall l, concat (map (fun w => flat_map (contrib1 d m els S) (stripe w T n)) l)
                      = flat_map (contrib1 d m els S) (concat (map (fun w => stripe w T n) l))) as G.
    { induction l; simpl; auto. now rewrite IHl, flat_map_app. }
    rewrite G. apply Permutation_flat_map. apply stripes_partition. exact HT.
Qed.
End SI.

(** for every two thread counts, every two interleavings: the same multiset ends up in each shared array *)
Theorem totals_schedule_independent d m els S T1 T2 evs1 evs2 s :
  wf_task d m = true -> is_shared S = true -> T1 > 0 -> T2 > 0 ->
  (forall w, w < T1 -> slot_of d w = w) -> (forall w, w < T2 -> slot_of d w = w) ->
  valid_round T1 (ntasks els) evs1 -> valid_round T2 (ntasks els) evs2 ->
  Permutation (shg (interp d m els evs1 s) S) (shg (interp d m els evs2 s) S).
Proof.
  intros W HS H1 H2 L1 L2 V1 V2.
  rewrite (round_adds_expected d m els W T1 _ S evs1 s H1 HS L1 V1).
  rewrite (round_adds_expected d m els W T2 _ S evs2 s H2 HS L2 V2). apply Permutation_refl.
Qed.

(** ... and it is the list [expected]: every enabled element whose calcForce target is S or a local array added to S *)
Theorem totals_are_expected d m els S T evs s :
  wf_task d m = true -> is_shared S = true -> T > 0 -> (forall w, w < T -> slot_of d w = w) ->
  valid_round T (ntasks els) evs ->
  Permutation (shg (interp d m els evs s) S) (shg s S ++ expected d m els S).
Proof. intros W HS HT L V. apply (round_adds_expected d m els W T _ S evs s HT HS L V). Qed.

(** hence equal sums over R, whatever value each element contributes *)
Definition sumR (val:nat -> R) (l:list nat) : R := fold_right (fun x acc => (val x + acc)%R) 0%R l.
Lemma sumR_perm val l l' : Permutation l l' -> sumR val l = sumR val l'.
Proof. induction 1; simpl; lra. Qed.
Theorem sums_schedule_independent d m els S T1 T2 evs1 evs2 s (val:nat -> R) :
  wf_task d m = true -> is_shared S = true -> T1 > 0 -> T2 > 0 ->
  (forall w, w < T1 -> slot_of d w = w) -> (forall w, w < T2 -> slot_of d w = w) ->
  valid_round T1 (ntasks els) evs1 -> valid_round T2 (ntasks els) evs2 ->
  sumR val (shg (interp d m els evs1 s) S) = sumR val (shg (interp d m els evs2 s) S).
Proof. intros W HS H1 H2 L1 L2 V1 V2. apply sumR_perm. exact (totals_schedule_independent d m els S T1 T2 evs1 evs2 s W HS H1 H2 L1 L2 V1 V2). Qed.

(** thread-local tables satisfy the slot hypothesis for every T; tables with shared "locals" only for T = 1 *)
Lemma slot_tls d T : t_tls d = true -> forall w, w < T -> slot_of d w = w.
Proof. intros H w _. unfold slot_of. now rewrite H. Qed.
Lemma slot_single d : forall w, w < 1 -> slot_of d w = w.
Proof. intros w H. unfold slot_of. destruct (t_tls d); lia. Qed.

(** the boolean round check used by the correspondence driver is sound *)
Lemma tevs_eqb_eq a : forall b, tevs_eqb a b = true -> a = b.
Proof.
  induction a as [|x a IH]; destruct b as [|y b]; simpl; intros H; try discriminate; auto.
  apply andb_true_iff in H as [H1 H2]. f_equal; auto.
  destruct x, y; simpl in H1; try discriminate; auto. apply Nat.eqb_eq in H1. now subst.
Qed.
Lemma valid_round_b_sound T n evs : valid_round_b T n evs = true -> valid_round T n evs.
Proof.
  unfold valid_round_b. intros H. apply andb_true_iff in H as [H1 H2]. rewrite forallb_forall in H1, H2. split.
  - intros w Hw. apply tevs_eqb_eq. apply H1. apply in_seq. lia.
  - intros p Hp. apply Nat.ltb_lt. now apply H2.
Qed.
