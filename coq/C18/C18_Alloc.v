(** C18: the allocation operations commute with the abstraction and keep the invariants, so that the refinement
    theorem also covers histories that start from the empty State. *)
From Coq Require Import List Arith Bool PeanoNat Lia.
Require Import C18_Model C18_Basics C18_Spec C18_Refine C18_Refine2 C18_Refine3.
Import ListNotations.

(* ================================================================= appending to an allocation stack *)
Definition app_ce (ss:nat) (c:cent) (s:st) : st := upd_sub ss (fun b => s_set_ces b (s_ces b ++ [c])) s.
Definition app_dv (ss:nat) (d:dvar) (s:st) : st := upd_sub ss (fun b => s_set_dvs b (s_dvs b ++ [d])) s.
Definition nce (s:st) (ss:nat) := length (s_ces (get_sub ss s)).
Definition ndv (s:st) (ss:nat) := length (s_dvs (get_sub ss s)).

Fact nth_snoc {A} (l:list A) x i d : nth i (l ++ [x]) d = if i =? length l then x else nth i l d.
Proof. destruct (Nat.lt_ge_cases i (length l)).
  - rewrite app_nth1 by auto. replace (i =? length l) with false; auto. symmetry; apply Nat.eqb_neq; lia.
  - rewrite app_nth2 by auto. destruct (i =? length l) eqn:E; b2p.
    + subst. rewrite Nat.sub_diag. reflexivity.
    + rewrite (nth_overflow l) by lia. destruct (i - length l) eqn:F; [lia|]. simpl. destruct n; reflexivity. Qed.

Fact get_ce_app_ce ss c s k : ss < nsubs s -> get_ce k (app_ce ss c s) = if key_eqb k (ss, nce s ss) then c else get_ce k s.
Proof. intros H. unfold get_ce, app_ce, nce. rewrite get_sub_upd_sub. unfold key_eqb; simpl.
  destruct (fst k =? ss) eqn:E; simpl; auto. b2p. subst.
  replace (fst k <? nsubs s) with true by (symmetry; apply Nat.ltb_lt; auto). simpl. apply nth_snoc. Qed.
Fact get_dv_app_ce ss c s k : get_dv k (app_ce ss c s) = get_dv k s.
Proof. unfold get_dv, app_ce. rewrite get_sub_upd_sub. dest_if; auto. Qed.
Fact get_dv_app_dv ss d s k : ss < nsubs s -> get_dv k (app_dv ss d s) = if key_eqb k (ss, ndv s ss) then d else get_dv k s.
Proof. intros H. unfold get_dv, app_dv, ndv. rewrite get_sub_upd_sub. unfold key_eqb; simpl.
  destruct (fst k =? ss) eqn:E; simpl; auto. b2p. subst.
  replace (fst k <? nsubs s) with true by (symmetry; apply Nat.ltb_lt; auto). simpl. apply nth_snoc. Qed.
Fact get_ce_app_dv ss d s k : get_ce k (app_dv ss d s) = get_ce k s.
Proof. unfold get_ce, app_dv. rewrite get_sub_upd_sub. dest_if; auto. Qed.
Fact new_ce_dC s ss : get_ce (ss, nce s ss) s = dC.
Proof. apply get_ce_nohas. unfold has_ce, nce; simpl. apply Nat.ltb_ge; auto. Qed.
Fact new_dv_dD s ss : get_dv (ss, ndv s ss) s = dD.
Proof. apply get_dv_nohas. unfold has_dv, ndv; simpl. apply Nat.ltb_ge; auto. Qed.

Fact sub_app_ce ss c s i : s_stage (get_sub i (app_ce ss c s)) = s_stage (get_sub i s) /\ s_ver (get_sub i (app_ce ss c s)) = s_ver (get_sub i s) /\
  s_qs (get_sub i (app_ce ss c s)) = s_qs (get_sub i s) /\ s_us (get_sub i (app_ce ss c s)) = s_us (get_sub i s) /\ s_zs (get_sub i (app_ce ss c s)) = s_zs (get_sub i s).
Proof. unfold app_ce. rewrite get_sub_upd_sub. dest_if; auto. Qed.
Fact sub_app_dv ss d s i : s_stage (get_sub i (app_dv ss d s)) = s_stage (get_sub i s) /\ s_ver (get_sub i (app_dv ss d s)) = s_ver (get_sub i s) /\
  s_qs (get_sub i (app_dv ss d s)) = s_qs (get_sub i s) /\ s_us (get_sub i (app_dv ss d s)) = s_us (get_sub i s) /\ s_zs (get_sub i (app_dv ss d s)) = s_zs (get_sub i s).
Proof. unfold app_dv. rewrite get_sub_upd_sub. dest_if; auto. Qed.

(* the prerequisites of nobody mention a key that does not exist *)
Fact WF_fresh_ce s k : WF s -> get_ce k s = dC ->
  ~ In k (qd s) /\ ~ In k (ud s) /\ ~ In k (zd s) /\ (forall P, ~ In k (c_deps (get_ce P s))) /\ (forall E, ~ In k (c_ces (get_ce E s))) /\ (forall dk, ~ In k (d_deps (get_dv dk s))).
Proof. intros W H. repeat split.
  - intros X. apply (wf_q s W) in X. rewrite H in X. discriminate.
  - intros X. apply (wf_u s W) in X. rewrite H in X. discriminate.
  - intros X. apply (wf_z s W) in X. rewrite H in X. discriminate.
  - intros P X. apply (wf_ce s W) in X. rewrite H in X. destruct X.
  - intros E X. apply (wf_ce s W) in X. rewrite H in X. destruct X.
  - intros dk X. apply (wf_dv s W) in X. rewrite H in X. destruct X. Qed.
Fact WF_fresh_dv s dk : WF s -> get_dv dk s = dD -> forall E, ~ In dk (c_dvs (get_ce E s)).
Proof. intros W H E X. apply (wf_dv s W) in X. rewrite H in X. destruct X. Qed.

(* ================================================================= invariants after appending *)
Fact WF_app_dv s ss d : WF s -> ss < nsubs s -> d_deps d = [] -> d_alloc d <= 3 -> WF (app_dv ss d s).
Proof. intros W H HD HA. set (k := (ss, ndv s ss)).
  assert (GC: forall E, get_ce E (app_dv ss d s) = get_ce E s) by (intros; apply get_ce_app_dv).
  assert (GD: forall D, get_dv D (app_dv ss d s) = if key_eqb D k then d else get_dv D s) by (intros; apply get_dv_app_dv; auto).
  constructor; intros; rewrite ?GC, ?GD; try (apply W).
  - destruct (key_eqb dk k) eqn:E1; [|apply W]. apply key_eqb_eq in E1. subst dk. rewrite HD. split; [intros []|].
    intros X. exfalso. apply (WF_fresh_dv s k W (new_dv_dD s ss) E X).
  - dest_if; auto. apply W.
  - destruct (sub_app_dv ss d s i) as (_ & _ & -> & -> & ->). apply W. Qed.

Fact WF_app_ce s ss c : WF s -> ss < nsubs s -> c_deps c = [] -> c_q c = false -> c_u c = false -> c_z c = false -> c_dvs c = [] -> c_ces c = [] ->
  c_alloc c <= 3 -> c_dep c <= 9 -> WF (app_ce ss c s).
Proof. intros W H HD Hq Hu Hz Hdv Hce HA HP. set (k := (ss, nce s ss)).
  assert (GD: forall D, get_dv D (app_ce ss c s) = get_dv D s) by (intros; apply get_dv_app_ce).
  assert (GC: forall E, get_ce E (app_ce ss c s) = if key_eqb E k then c else get_ce E s) by (intros; apply get_ce_app_ce; auto).
  destruct (WF_fresh_ce s k W (new_ce_dC s ss)) as (F1 & F2 & F3 & F4 & F5 & F6).
  constructor; intros; rewrite ?GC, ?GD.
  - change (qd (app_ce ss c s)) with (qd s). destruct (key_eqb E k) eqn:E1; [|apply W]. apply key_eqb_eq in E1; subst. rewrite Hq. split; [intros X; contradiction|discriminate].
  - change (ud (app_ce ss c s)) with (ud s). destruct (key_eqb E k) eqn:E1; [|apply W]. apply key_eqb_eq in E1; subst. rewrite Hu. split; [intros X; contradiction|discriminate].
  - change (zd (app_ce ss c s)) with (zd s). destruct (key_eqb E k) eqn:E1; [|apply W]. apply key_eqb_eq in E1; subst. rewrite Hz. split; [intros X; contradiction|discriminate].
  - destruct (key_eqb E k) eqn:E1; [|apply W]. apply key_eqb_eq in E1; subst. rewrite Hdv. split; [intros X; exfalso; apply (F6 dk X)|intros []].
  - destruct (key_eqb P k) eqn:E1, (key_eqb E k) eqn:E2; try (apply key_eqb_eq in E1); try (apply key_eqb_eq in E2); subst.
    + rewrite HD, Hce. tauto.
    + rewrite HD. split; [intros []|]. intros X. exfalso. apply (F5 E X).
    + rewrite Hce. split; [|intros []]. intros X. exfalso. apply (F4 P X).
    + apply W.
  - dest_if; auto. apply W.
  - apply W.
  - destruct (sub_app_ce ss c s i) as (_ & _ & -> & -> & ->). apply W.
  - dest_if; auto. apply W. Qed.

Fact Dyn_app_dv s ss d : Dyn s -> Dyn (app_dv ss d s).
Proof. intros D. constructor.
  - intros i j Hj. destruct (sub_app_dv ss d s i) as (_ & -> & _). apply D; auto.
  - intros k. rewrite get_ce_app_dv. destruct (sub_app_dv ss d s (fst k)) as (_ & -> & _). apply D.
  - intros k. rewrite get_ce_app_dv. destruct (sub_app_dv ss d s (fst k)) as (-> & -> & _). apply D. Qed.
Fact Dyn_app_ce s ss c : Dyn s -> ss < nsubs s -> c_verWhen c = 0 -> c_dep c <= 10 -> Dyn (app_ce ss c s).
Proof. intros D H HV HP. constructor.
  - intros i j Hj. destruct (sub_app_ce ss c s i) as (_ & -> & _). apply D; auto.
  - intros k. rewrite get_ce_app_ce by auto. destruct (sub_app_ce ss c s (fst k)) as (_ & -> & _). dest_if; [lia|apply D].
  - intros k. rewrite get_ce_app_ce by auto. destruct (sub_app_ce ss c s (fst k)) as (-> & -> & _). dest_if; [|apply D].
    intros _ X. pose proof (dy_pos s D (fst k) (c_dep c) HP). lia. Qed.

(* ================================================================= abstraction after appending *)
Fact abs_app_dv s ss d : abs (app_dv ss d s) = gupd_sub ss (fun b => mkGS (gs_stage b) (gs_dvs b ++ [abs_dv d]) (gs_ces b)) (abs s).
Proof. unfold app_dv. apply abs_upd_sub. unfold abs_sub; simpl. rewrite map_app. reflexivity. Qed.
Fact abs_app_ce s ss c : abs (app_ce ss c s) = gupd_sub ss (fun b => mkGS (gs_stage b) (gs_dvs b) (gs_ces b ++ [abs_ce (s_ver (get_sub ss s)) c])) (abs s).
Proof. unfold app_ce. apply abs_upd_sub. unfold abs_sub; simpl. rewrite map_app. reflexivity. Qed.

(* ================================================================= AllocQ / AllocU / AllocZ *)
Fact quz_step s ss f : WF s -> Dyn s -> ss < nsubs s ->
  (forall b, s_stage (f b) = s_stage b /\ s_ver (f b) = s_ver b /\ s_dvs (f b) = s_dvs b /\ s_ces (f b) = s_ces b) ->
  (Forall (fun x => fst x <= 3) (s_qs (f (get_sub ss s))) /\ Forall (fun x => fst x <= 3) (s_us (f (get_sub ss s))) /\ Forall (fun x => fst x <= 3) (s_zs (f (get_sub ss s)))) ->
  abs (upd_sub ss f s) = abs s /\ WF (upd_sub ss f s) /\ Dyn (upd_sub ss f s).
Proof. intros W D H F Q.
  assert (GS: forall i, get_sub i (upd_sub ss f s) = if i =? ss then f (get_sub i s) else get_sub i s).
  { intros i. rewrite get_sub_upd_sub. replace (ss <? nsubs s) with true by (symmetry; apply Nat.ltb_lt; auto). rewrite andb_true_r. reflexivity. }
  assert (GC: forall k, get_ce k (upd_sub ss f s) = get_ce k s).
  { intros k. unfold get_ce. rewrite GS. dest_if; auto. destruct (F (get_sub (fst k) s)) as (_ & _ & _ & ->). reflexivity. }
  assert (GD: forall k, get_dv k (upd_sub ss f s) = get_dv k s).
  { intros k. unfold get_dv. rewrite GS. dest_if; auto. destruct (F (get_sub (fst k) s)) as (_ & _ & -> & _). reflexivity. }
  assert (ST: forall i, s_stage (get_sub i (upd_sub ss f s)) = s_stage (get_sub i s) /\ s_ver (get_sub i (upd_sub ss f s)) = s_ver (get_sub i s)).
  { intros i. rewrite GS. dest_if; auto. destruct (F (get_sub i s)) as (-> & -> & _). auto. }
  split; [|split].
  - apply abs_upd_sub_id. intros b. unfold abs_sub. destruct (F b) as (-> & -> & -> & ->). reflexivity.
  - destruct W. constructor; intros; rewrite ?GC, ?GD; auto.
    rewrite GS. destruct (i =? ss) eqn:E; auto. b2p; subst. exact Q.
  - destruct D. constructor.
    + intros i j Hj. destruct (ST i) as [_ ->]. auto.
    + intros k. rewrite GC. destruct (ST (fst k)) as [_ ->]. auto.
    + intros k. rewrite GC. destruct (ST (fst k)) as [-> ->]. auto. Qed.

Ltac quz_tac W D :=
  unfold refines; cbn [step gstep]; guard_eq;
  match goal with |- context [negb (has_sub ?s ?ss)] => destruct (has_sub s ss) eqn:HS; cbn [negb]; red2; [|rsplit; auto] end;
  rewrite gget_sub_abs; cbn [abs_sub gs_stage];
  match goal with |- context [negb (?a <? 2)] => destruct (a <? 2) eqn:E; cbn [negb]; red2; [|rsplit; auto] end.

Fact Forall_snoc {A} (P:A->Prop) l x : Forall P l -> P x -> Forall P (l ++ [x]).
Proof. intros. apply Forall_app. split; auto. Qed.

Fact ref_AllocQ cf s ss n : WF s -> Dyn s -> refines cf s (AllocQ ss n).
Proof. intros W D. quz_tac W D. unfold has_sub in HS. b2p. destruct (wf_alloc_q s W ss) as (Q1 & Q2 & Q3).
  destruct (quz_step s ss (fun b' => s_set_quz b' (s_qs b' ++ [(S (s_stage (get_sub ss s)), n)]) (s_us b') (s_zs b')) W D HS) as (A & W1 & D1).
  { intros b; repeat split. } { simpl. repeat split; auto. apply Forall_snoc; auto; simpl; lia. }
  rsplit; auto. Qed.
Fact ref_AllocU cf s ss n : WF s -> Dyn s -> refines cf s (AllocU ss n).
Proof. intros W D. quz_tac W D. unfold has_sub in HS. b2p. destruct (wf_alloc_q s W ss) as (Q1 & Q2 & Q3).
  destruct (quz_step s ss (fun b' => s_set_quz b' (s_qs b') (s_us b' ++ [(S (s_stage (get_sub ss s)), n)]) (s_zs b')) W D HS) as (A & W1 & D1).
  { intros b; repeat split. } { simpl. repeat split; auto. apply Forall_snoc; auto; simpl; lia. }
  rsplit; auto. Qed.
Fact ref_AllocZ cf s ss n : WF s -> Dyn s -> refines cf s (AllocZ ss n).
Proof. intros W D. quz_tac W D. unfold has_sub in HS. b2p. destruct (wf_alloc_q s W ss) as (Q1 & Q2 & Q3).
  destruct (quz_step s ss (fun b' => s_set_quz b' (s_qs b') (s_us b') (s_zs b' ++ [(S (s_stage (get_sub ss s)), n)])) W D HS) as (A & W1 & D1).
  { intros b; repeat split. } { simpl. repeat split; auto. apply Forall_snoc; auto; simpl; lia. }
  rsplit; auto. Qed.

(* ================================================================= AllocDV / AllocCE *)
Fact alloc_dv_step s ss inval v : WF s -> Dyn s -> ss < nsubs s ->
  match alloc_dv ss inval v s, g_alloc_dv ss inval (abs s) with
  | Some s1, Some G1 => abs s1 = G1 /\ WF s1 /\ Dyn s1 /\ s1 = app_dv ss (mkD (S (s_stage (get_sub ss s))) inval None 1 [] v) s
  | None, None => True
  | _, _ => False
  end.
Proof. intros W D H. unfold alloc_dv, g_alloc_dv. rewrite gget_sub_abs. cbn [abs_sub gs_stage].
  destruct (negb ((1 <=? inval) && (inval <=? 9))); auto.
  destruct (negb (s_stage (get_sub ss s) <=? (if inval <=? 2 then 0 else 1))) eqn:E; auto. b2p.
  fold (app_dv ss (mkD (S (s_stage (get_sub ss s))) inval None 1 [] v) s).
  split; [|split; [|split]]; auto.
  - apply abs_app_dv.
  - apply WF_app_dv; auto. simpl. destruct (inval <=? 2); lia.
  - apply Dyn_app_dv; auto. Qed.

Fact ref_AllocDV cf s ss inval v : WF s -> Dyn s -> refines cf s (AllocDV ss inval v).
Proof. intros W D. unfold refines; cbn [step gstep]. guard_eq.
  destruct (has_sub s ss) eqn:HS; cbn [negb]; red2; [|rsplit; auto]. unfold has_sub in HS. b2p.
  rewrite gget_sub_abs. cbn [abs_sub gs_stage].
  destruct ((1 <=? inval) && (inval <=? 9) && (inval <=? S (s_stage (get_sub ss s))) && (s_stage (get_sub ss s) <=? (if inval <=? 2 then 0 else 1))); red2; [rsplit; auto|].
  pose proof (alloc_dv_step s ss inval v W D HS) as X.
  destruct (alloc_dv ss inval v s), (g_alloc_dv ss inval (abs s)); try contradiction; red2.
  - destruct X as (A & W1 & D1 & _). rsplit; auto.
  - rsplit; auto. Qed.

Fact getv_pos_neq0 s i dep : Dyn s -> dep <= 10 -> (getv (s_ver (get_sub i s)) dep =? 0) = false.
Proof. intros D H. apply Nat.eqb_neq. pose proof (dy_pos s D i dep H). lia. Qed.

(* allocateCacheEntry with the entry the specification appends *)
Fact alloc_ce_step s ss dep by_ gc : WF s -> Dyn s -> ss < nsubs s -> g_dep gc = dep -> g_by gc = by_ ->
  let c := mkC (S (s_stage (get_sub ss s))) dep by_ false false false [] [] 0 true 1 [] None 0 in
  match alloc_ce ss dep by_ s, g_alloc_ce ss gc (abs s) with
  | Some s1, Some G1 => s1 = app_ce ss c s /\ WF s1 /\ Dyn s1 /\ dep <= 9 /\ s_stage (get_sub ss s) < 3 /\
                        G1 = gupd_sub ss (fun b => mkGS (gs_stage b) (gs_dvs b) (gs_ces b ++ [gc])) (abs s)
  | None, None => True
  | _, _ => False
  end.
Proof. intros W D H G1 G2 c. unfold alloc_ce, g_alloc_ce. rewrite gget_sub_abs. cbn [abs_sub gs_stage]. rewrite G1, G2.
  destruct (negb ((1 <=? dep) && (dep <=? 9))) eqn:E1; auto.
  destruct (negb ((dep <=? by_) && (by_ <=? 10))); auto.
  destruct (negb (s_stage (get_sub ss s) <? 3)) eqn:E3; auto. b2p.
  fold (app_ce ss c s). split; [reflexivity|]. split; [apply WF_app_ce; auto; simpl; lia|]. split; [apply Dyn_app_ce; auto; simpl; lia|].
  repeat split; auto. Qed.

Fact ref_AllocCE cf s ss dep by_ : WF s -> Dyn s -> refines cf s (AllocCE ss dep by_).
Proof. intros W D. unfold refines; cbn [step gstep]. guard_eq.
  destruct (has_sub s ss) eqn:HS; cbn [negb]; red2; [|rsplit; auto]. unfold has_sub in HS. b2p.
  rewrite gget_sub_abs. cbn [abs_sub gs_stage].
  pose proof (alloc_ce_step s ss dep by_ (mkGC (S (s_stage (get_sub ss s))) dep by_ false false false [] [] false None) W D HS eq_refl eq_refl) as X. cbv zeta in X.
  destruct (alloc_ce ss dep by_ s), (g_alloc_ce ss _ (abs s)); try contradiction; red2; [|rsplit; auto].
  destruct X as (-> & W1 & D1 & Hd & _ & ->). rsplit; auto.
  rewrite abs_app_ce. unfold abs_ce; simpl. rewrite (getv_pos_neq0 s ss dep D) by lia. reflexivity. Qed.

(* ================================================================= AllocAutoDV *)
Fact upd_nth_comp {A} i (f g:A->A) l : upd_nth i f (upd_nth i g l) = upd_nth i (fun x => f (g x)) l.
Proof. revert i; induction l; intros [|i]; simpl; auto. rewrite IHl; auto. Qed.
Fact upd_nth_at {A} i (f f':A->A) l d : f (nth i l d) = f' (nth i l d) -> upd_nth i f l = upd_nth i f' l.
Proof. revert i; induction l; intros [|i] H; simpl in *; auto; f_equal; auto. Qed.
Fact upd_nth_snoc {A} (f:A->A) l x : upd_nth (length l) f (l ++ [x]) = l ++ [f x].
Proof. induction l; simpl; auto. rewrite IHl; auto. Qed.
Fact upd_sub_comp i f g s : upd_sub i f (upd_sub i g s) = upd_sub i (fun b => f (g b)) s.
Proof. unfold upd_sub; simpl. rewrite upd_nth_comp. reflexivity. Qed.
Fact upd_sub_at i f f' s : f (get_sub i s) = f' (get_sub i s) -> upd_sub i f s = upd_sub i f' s.
Proof. intros H. unfold upd_sub. f_equal. apply (upd_nth_at i f f' (subs s) dS). exact H. Qed.
Fact gupd_sub_comp i f g G : gupd_sub i f (gupd_sub i g G) = gupd_sub i (fun b => f (g b)) G.
Proof. unfold gupd_sub; simpl. rewrite upd_nth_comp. reflexivity. Qed.
Fact gupd_sub_at i f f' G : f (gget_sub i G) = f' (gget_sub i G) -> gupd_sub i f G = gupd_sub i f' G.
Proof. intros H. unfold gupd_sub. f_equal. apply (upd_nth_at i f f' (g_subs G) gS0). exact H. Qed.

Fact link_model s ss d c fD fC : ss < nsubs s ->
  upd_ce (ss, nce s ss) fC (upd_dv (ss, ndv s ss) fD (app_ce ss c (app_dv ss d s))) = app_ce ss (fC c) (app_dv ss (fD d) s).
Proof. intros H. unfold upd_ce, upd_dv, app_ce, app_dv. cbn [fst snd]. rewrite !upd_sub_comp. apply upd_sub_at.
  unfold nce, ndv. destruct (get_sub ss s); simpl. rewrite !upd_nth_snoc. reflexivity. Qed.

Fact ref_AllocAutoDV cf s ss inval v updDep : WF s -> Dyn s -> refines cf s (AllocAutoDV ss inval v updDep).
Proof. intros W D. unfold refines; cbn [step gstep]. guard_eq.
  destruct (has_sub s ss) eqn:HS; cbn [negb]; red2; [|rsplit; auto]. unfold has_sub in HS. b2p. fold (nsubs s) in HS.
  rewrite !gget_sub_abs. cbn [abs_sub gs_stage gs_dvs gs_ces]. rewrite !map_length.
  destruct ((1 <=? inval) && (inval <=? 9) && (inval <=? S (s_stage (get_sub ss s))) && (s_stage (get_sub ss s) <=? (if inval <=? 2 then 0 else 1))); red2; [rsplit; auto|].
  pose proof (alloc_dv_step s ss inval v W D HS) as X.
  destruct (alloc_dv ss inval v s) as [s1|], (g_alloc_dv ss inval (abs s)) as [G1|]; try contradiction; red2; [|rsplit; auto].
  destruct X as (A1 & W1 & D1 & E1).
  assert (HS1: ss < nsubs s1) by (rewrite E1; unfold app_dv; rewrite nsubs_upd_sub; auto).
  assert (ST1: s_stage (get_sub ss s1) = s_stage (get_sub ss s)) by (rewrite E1; apply sub_app_dv).
  pose proof (alloc_ce_step s1 ss updDep 10 (mkGC (S (s_stage (get_sub ss s))) updDep 10 false false false [] [] false (Some (length (s_dvs (get_sub ss s))))) W1 D1 HS1 eq_refl eq_refl) as Y. cbv zeta in Y. rewrite ST1, A1 in Y.
  destruct (alloc_ce ss updDep 10 s1) as [s2|], (g_alloc_ce ss _ G1) as [G2|]; try contradiction; red2; [|rsplit; auto].
  destruct Y as (E2 & W2 & D2 & Hd & Hst & EG).
  set (d0 := mkD (S (s_stage (get_sub ss s))) inval None 1 [] v) in *.
  set (c0 := mkC (S (s_stage (get_sub ss s))) updDep 10 false false false [] [] 0 true 1 [] None 0) in *.
  set (dx := length (s_dvs (get_sub ss s))). set (cx := length (s_ces (get_sub ss s))).
  set (fD := fun d => d_set_auto d (Some cx)). set (fC := fun c => c_set_val (c_set_assoc c (Some dx)) v).
  assert (FIN: upd_ce (ss, cx) fC (upd_dv (ss, dx) fD s2) = app_ce ss (fC c0) (app_dv ss (fD d0) s)).
  { rewrite E2, E1. apply (link_model s ss d0 c0 fD fC HS). }
  rewrite FIN.
  assert (HS': ss < nsubs (app_dv ss (fD d0) s)) by (unfold app_dv; rewrite nsubs_upd_sub; auto).
  rsplit; auto.
  - rewrite abs_app_ce, abs_app_dv. rewrite EG, <- A1, E1, abs_app_dv. rewrite !gupd_sub_comp. apply gupd_sub_at.
    rewrite gget_sub_abs. unfold abs_sub. cbn [gs_stage gs_dvs gs_ces].
    destruct (sub_app_dv ss (fD d0) s ss) as (_ & -> & _).
    f_equal.
    + unfold dx. rewrite <- (map_length abs_dv (s_dvs (get_sub ss s))). rewrite upd_nth_snoc. reflexivity.
    + f_equal. unfold abs_ce; simpl. rewrite (getv_pos_neq0 s ss updDep D) by lia. reflexivity.
  - apply WF_app_ce; auto; simpl; try lia. apply WF_app_dv; auto; simpl; lia.
  - apply Dyn_app_ce; auto; simpl; try lia. apply Dyn_app_dv; auto. Qed.

(* ================================================================= AllocCEPre: registration with the prerequisites *)
Definition quz_same (s s':st) : Prop :=
  forall i, s_qs (get_sub i s') = s_qs (get_sub i s) /\ s_us (get_sub i s') = s_us (get_sub i s) /\ s_zs (get_sub i s') = s_zs (get_sub i s) /\
            s_stage (get_sub i s') = s_stage (get_sub i s) /\ s_ver (get_sub i s') = s_ver (get_sub i s).
Fact quz_same_upd_dv k f s : quz_same s (upd_dv k f s).
Proof. intros i. unfold upd_dv. rewrite get_sub_upd_sub. dest_if; simpl; auto. Qed.
Fact quz_same_upd_ce k f s : quz_same s (upd_ce k f s).
Proof. intros i. unfold upd_ce. rewrite get_sub_upd_sub. dest_if; simpl; auto. Qed.
Fact quz_same_trans s1 s2 s3 : quz_same s1 s2 -> quz_same s2 s3 -> quz_same s1 s3.
Proof. intros A B i. destruct (A i) as (a1&a2&a3&a4&a5), (B i) as (b1&b2&b3&b4&b5). repeat split; congruence. Qed.

Fact has_dv_upd_dv k f s D : has_dv (upd_dv k f s) D = has_dv s D.
Proof. unfold has_dv. rewrite len_dvs_upd_dv. reflexivity. Qed.
Fact has_ce_upd_ce k f s E : has_ce (upd_ce k f s) E = has_ce s E.
Proof. unfold has_ce. rewrite len_ces_upd_ce. reflexivity. Qed.

Fact fold_upd_dv_char g L : forall t, nodup_keys L = true -> (forall dk, In dk L -> has_dv t dk = true) ->
  let t' := fold_left (fun s' dk => upd_dv dk g s') L t in
  (forall D, get_dv D t' = if mem_key D L then g (get_dv D t) else get_dv D t) /\ (forall E, get_ce E t' = get_ce E t) /\
  qd t' = qd t /\ ud t' = ud t /\ zd t' = zd t /\ quz_same t t' /\ nsubs t' = nsubs t /\
  ((forall d, abs_dv (g d) = abs_dv d) -> abs t' = abs t).
Proof. induction L as [|a L IH]; intros t ND HH; simpl.
  - repeat split; auto.
  - simpl in ND. b2p. destruct (IH (upd_dv a g t) H0) as (A & B & Q1 & Q2 & Q3 & QZ & N & AB).
    { intros dk Hd. rewrite has_dv_upd_dv. apply HH; right; auto. }
    split; [|split; [|split; [|split; [|split; [|split; [|split]]]]]]; auto.
    + intros D. rewrite A, get_dv_upd_dv. destruct (key_eqb D a) eqn:E.
      * apply key_eqb_eq in E; subst. rewrite (HH a) by (left; auto). simpl.
        replace (mem_key a L) with false; auto.
      * simpl. reflexivity.
    + intros E. rewrite B. apply get_ce_upd_dv.
    + eapply quz_same_trans; [apply quz_same_upd_dv|exact QZ].
    + rewrite N. unfold upd_dv. apply nsubs_upd_sub.
    + intros X. rewrite (AB X). apply abs_upd_dv_id; auto. Qed.

Fact fold_upd_ce_char g L : forall t, nodup_keys L = true -> (forall ck, In ck L -> has_ce t ck = true) ->
  let t' := fold_left (fun s' ck => upd_ce ck g s') L t in
  (forall E, get_ce E t' = if mem_key E L then g (get_ce E t) else get_ce E t) /\ (forall D, get_dv D t' = get_dv D t) /\
  qd t' = qd t /\ ud t' = ud t /\ zd t' = zd t /\ quz_same t t' /\ nsubs t' = nsubs t /\
  ((forall v c, abs_ce v (g c) = abs_ce v c) -> abs t' = abs t).
Proof. induction L as [|a L IH]; intros t ND HH; simpl.
  - repeat split; auto.
  - simpl in ND. b2p. destruct (IH (upd_ce a g t) H0) as (A & B & Q1 & Q2 & Q3 & QZ & N & AB).
    { intros ck Hc. rewrite has_ce_upd_ce. apply HH; right; auto. }
    split; [|split; [|split; [|split; [|split; [|split; [|split]]]]]]; auto.
    + intros E. rewrite A, get_ce_upd_ce. destruct (key_eqb E a) eqn:E1.
      * apply key_eqb_eq in E1; subst. rewrite (HH a) by (left; auto). simpl.
        replace (mem_key a L) with false; auto.
      * simpl. reflexivity.
    + intros D. rewrite B. apply get_dv_upd_ce.
    + eapply quz_same_trans; [apply quz_same_upd_ce|exact QZ].
    + rewrite N. unfold upd_ce. apply nsubs_upd_sub.
    + intros X. rewrite (AB X). apply abs_upd_ce_id; auto. Qed.

Fact upd_app_ce s ss c f : ss < nsubs s -> upd_ce (ss, nce s ss) f (app_ce ss c s) = app_ce ss (f c) s.
Proof. intros H. unfold upd_ce, app_ce. cbn [fst snd]. rewrite upd_sub_comp. apply upd_sub_at.
  unfold nce. destruct (get_sub ss s); simpl. rewrite upd_nth_snoc. reflexivity. Qed.
Fact has_ce_app_ce s ss c E : has_ce s E = true -> has_ce (app_ce ss c s) E = true.
Proof. unfold has_ce, app_ce. rewrite get_sub_upd_sub. intros H. dest_if; auto. simpl. rewrite app_length. b2p. apply Nat.ltb_lt. subst. lia. Qed.
Fact has_dv_app_ce s ss c D : has_dv (app_ce ss c s) D = has_dv s D.
Proof. unfold has_dv, app_ce. rewrite get_sub_upd_sub. dest_if; auto. Qed.
Fact has_ce_fold_upd_dv g L t E : has_ce (fold_left (fun s' dk => upd_dv dk g s') L t) E = has_ce t E.
Proof. revert t. induction L; simpl; intros; auto. rewrite IHL. unfold has_ce. rewrite ces_upd_dv. reflexivity. Qed.
Fact In_snoc {A} (x y:A) l : In x (l ++ [y]) <-> In x l \/ x = y.
Proof. rewrite in_app_iff. simpl. split; intros [H|H]; auto. - destruct H; auto. contradiction. Qed.
Fact mem_key_false k l : mem_key k l = false <-> ~ In k l.
Proof. rewrite <- mem_key_In. destruct (mem_key k l); split; intros; try discriminate; auto. exfalso; auto. Qed.

(** allocateCacheEntryWithPrerequisites after the argument checks: append the entry, register it with its prerequisites *)
Fact register_new s ss cP : WF s -> Dyn s -> ss < nsubs s ->
  c_deps cP = [] -> c_verWhen cP = 0 -> c_alloc cP <= 3 -> c_dep cP <= 9 ->
  nodup_keys (c_dvs cP) = true -> nodup_keys (c_ces cP) = true ->
  (forall dk, In dk (c_dvs cP) -> has_dv s dk = true) -> (forall ck, In ck (c_ces cP) -> has_ce s ck = true) ->
  let s' := register (app_ce ss cP s) (ss, nce s ss) in
  abs s' = gupd_sub ss (fun b => mkGS (gs_stage b) (gs_dvs b)
                                  (gs_ces b ++ [mkGC (c_alloc cP) (c_dep cP) (c_by cP) (c_q cP) (c_u cP) (c_z cP) (c_dvs cP) (c_ces cP) false (c_assoc cP)])) (abs s)
  /\ WF s' /\ Dyn s'.
Proof. intros W D H HD HV HA HP ND1 ND2 HDV HCE. set (k := (ss, nce s ss)). cbv zeta.
  destruct (WF_fresh_ce s k W (new_ce_dC s ss)) as (F1 & F2 & F3 & F4 & F5 & F6).
  assert (KC: ~ In k (c_ces cP)). { intros X. specialize (HCE k X). unfold has_ce, k, nce in HCE. simpl in HCE. b2p. lia. }
  assert (G0: get_ce k (app_ce ss cP s) = cP). { rewrite (get_ce_app_ce ss cP s k H). unfold k. rewrite key_eqb_refl. reflexivity. }
  unfold register. cbv zeta. rewrite !G0.
  set (none := negb (c_q cP) && negb (c_u cP) && negb (c_z cP) && match c_dvs cP with [] => true | _ :: _ => false end && match c_ces cP with [] => true | _ :: _ => false end).
  unfold k at 1. rewrite (upd_app_ce s ss cP _ H). fold k. rewrite HV.
  set (cP' := c_set_flags cP 0 none). set (sA := app_ce ss cP' s).
  set (sB := (if c_z cP then set_zd _ _ else _)).
  assert (GA: forall E, get_ce E sA = if key_eqb E k then cP' else get_ce E s) by (intros; apply get_ce_app_ce; auto).
  assert (SUB: subs sB = subs sA) by (unfold sB; destruct (c_q cP), (c_u cP), (c_z cP); reflexivity).
  assert (GSB: forall i, get_sub i sB = get_sub i sA) by (intros; unfold get_sub; rewrite SUB; auto).
  assert (GB: forall E, get_ce E sB = get_ce E sA) by (intros; unfold get_ce; rewrite GSB; auto).
  assert (DB: forall E, get_dv E sB = get_dv E s) by (intros; unfold get_dv; rewrite GSB; apply get_dv_app_ce).
  assert (QB: qd sB = (if c_q cP then qd s ++ [k] else qd s) /\ ud sB = (if c_u cP then ud s ++ [k] else ud s) /\ zd sB = (if c_z cP then zd s ++ [k] else zd s))
    by (unfold sB; destruct (c_q cP), (c_u cP), (c_z cP); repeat split).
  destruct QB as (QB1 & QB2 & QB3).
  assert (AB: abs sB = abs sA) by (unfold abs; rewrite SUB; unfold sB; destruct (c_q cP), (c_u cP), (c_z cP); reflexivity).
  set (gd := fun d => d_set_deps d (d_deps d ++ [k])). set (gc := fun c' => c_set_deps c' (c_deps c' ++ [k])).
  destruct (fold_upd_dv_char gd (c_dvs cP) sB ND1) as (C1 & C2 & C3 & C4 & C5 & C6 & C7 & C8).
  { intros dk Hd. unfold has_dv. rewrite GSB. fold (has_dv sA dk). unfold sA. rewrite has_dv_app_ce. auto. }
  set (sC := fold_left (fun s' dk => upd_dv dk gd s') (c_dvs cP) sB) in *.
  destruct (fold_upd_ce_char gc (c_ces cP) sC ND2) as (E1 & E2 & E3 & E4 & E5 & E6 & E7 & E8).
  { intros ck Hc. unfold sC. rewrite has_ce_fold_upd_dv. unfold has_ce. rewrite GSB. fold (has_ce sA ck). apply has_ce_app_ce; auto. }
  set (sD := fold_left (fun s' ck => upd_ce ck gc s') (c_ces cP) sC) in *.
  assert (GCE: forall E, get_ce E sD = if key_eqb E k then cP' else if mem_key E (c_ces cP) then gc (get_ce E s) else get_ce E s).
  { intros E. rewrite E1, C2, GB, GA. destruct (key_eqb E k) eqn:X; auto. apply key_eqb_eq in X; subst.
    replace (mem_key k (c_ces cP)) with false; auto. symmetry. apply mem_key_false; auto. }
  assert (GDV: forall Dk, get_dv Dk sD = if mem_key Dk (c_dvs cP) then gd (get_dv Dk s) else get_dv Dk s).
  { intros Dk. rewrite E2, C1, DB. reflexivity. }
  assert (QZ: quz_same sA sD).
  { eapply quz_same_trans; [|exact E6]. eapply quz_same_trans; [|exact C6]. intros i. rewrite GSB. auto. }
  assert (QS: quz_same s sD).
  { eapply quz_same_trans; [|exact QZ]. intros i. destruct (sub_app_ce ss cP' s i) as (a1&a2&a3&a4&a5). auto. }
  match goal with |- _ /\ WF ?x /\ _ => change x with sD end.
  split; [|split].
  - match goal with |- _ = ?R => change (abs sD = R) end. rewrite E8 by reflexivity. rewrite C8 by reflexivity. rewrite AB. unfold sA. rewrite abs_app_ce. apply gupd_sub_at.
    f_equal. f_equal. f_equal. unfold abs_ce, cP'; simpl. rewrite (getv_pos_neq0 s ss (c_dep cP) D) by lia. rewrite andb_false_r. reflexivity.
  - constructor.
    + intros E. rewrite E3, C3, QB1, GCE. destruct (key_eqb E k) eqn:X.
      * apply key_eqb_eq in X; subst. simpl. destruct (c_q cP); [rewrite In_snoc; tauto|]. split; [intros Y; contradiction|discriminate].
      * assert (c_q (if mem_key E (c_ces cP) then gc (get_ce E s) else get_ce E s) = c_q (get_ce E s)) as -> by (dest_if; auto).
        apply key_eqb_neq in X. destruct (c_q cP); [rewrite In_snoc|]; rewrite (wf_q s W E); [|tauto]. split; [intros [Y|Y]; auto; contradiction|auto].
    + intros E. rewrite E4, C4, QB2, GCE. destruct (key_eqb E k) eqn:X.
      * apply key_eqb_eq in X; subst. simpl. destruct (c_u cP); [rewrite In_snoc; tauto|]. split; [intros Y; contradiction|discriminate].
      * assert (c_u (if mem_key E (c_ces cP) then gc (get_ce E s) else get_ce E s) = c_u (get_ce E s)) as -> by (dest_if; auto).
        apply key_eqb_neq in X. destruct (c_u cP); [rewrite In_snoc|]; rewrite (wf_u s W E); [|tauto]. split; [intros [Y|Y]; auto; contradiction|auto].
    + intros E. rewrite E5, C5, QB3, GCE. destruct (key_eqb E k) eqn:X.
      * apply key_eqb_eq in X; subst. simpl. destruct (c_z cP); [rewrite In_snoc; tauto|]. split; [intros Y; contradiction|discriminate].
      * assert (c_z (if mem_key E (c_ces cP) then gc (get_ce E s) else get_ce E s) = c_z (get_ce E s)) as -> by (dest_if; auto).
        apply key_eqb_neq in X. destruct (c_z cP); [rewrite In_snoc|]; rewrite (wf_z s W E); [|tauto]. split; [intros [Y|Y]; auto; contradiction|auto].
    + intros E dk. rewrite GDV, GCE.
      assert (LHS: In E (d_deps (if mem_key dk (c_dvs cP) then gd (get_dv dk s) else get_dv dk s)) <-> In E (d_deps (get_dv dk s)) \/ (In dk (c_dvs cP) /\ E = k)).
      { destruct (mem_key dk (c_dvs cP)) eqn:M. - apply mem_key_In in M. simpl. rewrite In_snoc. tauto. - apply mem_key_false in M. tauto. }
      rewrite LHS. destruct (key_eqb E k) eqn:X.
      * apply key_eqb_eq in X; subst. simpl. split; [intros [Y|[Y _]]; auto; exfalso; apply (F6 dk Y)|auto].
      * apply key_eqb_neq in X. assert (c_dvs (if mem_key E (c_ces cP) then gc (get_ce E s) else get_ce E s) = c_dvs (get_ce E s)) as -> by (dest_if; auto).
        rewrite (wf_dv s W E dk). split; [intros [Y|[_ Y]]; auto; contradiction|auto].
    + intros E P. rewrite !GCE.
      assert (DEPS: forall P, In E (c_deps (if key_eqb P k then cP' else if mem_key P (c_ces cP) then gc (get_ce P s) else get_ce P s)) <->
                              (P <> k /\ (In E (c_deps (get_ce P s)) \/ (In P (c_ces cP) /\ E = k)))).
      { intros P0. destruct (key_eqb P0 k) eqn:X.
        - apply key_eqb_eq in X; subst. simpl. rewrite HD. split; [intros []|intros [Y _]; contradiction].
        - apply key_eqb_neq in X. destruct (mem_key P0 (c_ces cP)) eqn:M.
          + apply mem_key_In in M. simpl. rewrite In_snoc. tauto.
          + apply mem_key_false in M. tauto. }
      rewrite DEPS. destruct (key_eqb E k) eqn:X.
      * apply key_eqb_eq in X; subst. simpl. split.
        -- intros (Y1 & [Y2|[Y2 _]]); auto. exfalso. apply (F4 P Y2).
        -- intros Y. split; [intros ->; contradiction|auto].
      * apply key_eqb_neq in X. assert (c_ces (if mem_key E (c_ces cP) then gc (get_ce E s) else get_ce E s) = c_ces (get_ce E s)) as -> by (dest_if; auto).
        rewrite (wf_ce s W E P). split.
        -- intros (Y1 & [Y2|[_ Y2]]); auto; contradiction.
        -- intros Y. split; auto. intros ->. apply (F5 E Y).
    + intros E. rewrite GCE. destruct (key_eqb E k); [simpl; auto|]. dest_if; [simpl|]; apply (wf_alloc_ce s W).
    + intros Dk. rewrite GDV. dest_if; [simpl|]; apply (wf_alloc_dv s W).
    + intros i. destruct (QS i) as (-> & -> & -> & _). apply (wf_alloc_q s W).
    + intros E. rewrite GCE. destruct (key_eqb E k); [simpl; auto|]. dest_if; [simpl|]; apply (wf_dep s W).
  - constructor.
    + intros i j Hj. destruct (QS i) as (_ & _ & _ & _ & ->). apply (dy_pos s D); auto.
    + intros E. destruct (QS (fst E)) as (_ & _ & _ & _ & ->). rewrite GCE. destruct (key_eqb E k); [simpl; lia|]. dest_if; [simpl|]; apply (dy_le s D).
    + intros E. destruct (QS (fst E)) as (_ & _ & _ & -> & ->). rewrite GCE. destruct (key_eqb E k).
      * simpl. intros _ X. pose proof (dy_pos s D (fst E) (c_dep cP)). lia.
      * dest_if; [simpl|]; apply (dy_fresh s D). Qed.

Fact forallb_ext' {A} (f g:A->bool) l : (forall x, f x = g x) -> forallb f l = forallb g l.
Proof. intros H. induction l; simpl; auto. rewrite H, IHl; auto. Qed.

Fact ref_AllocCEPre cf s ss dep by_ q u z dvs ces : WF s -> Dyn s -> refines cf s (AllocCEPre ss dep by_ q u z dvs ces).
Proof. intros W D. unfold refines; cbn [step gstep]. guard_eq.
  destruct (has_sub s ss) eqn:HS; cbn [negb]; red2; [|rsplit; auto]. unfold has_sub in HS. b2p. fold (nsubs s) in HS.
  rewrite (forallb_ext' (ghas_dv (abs s)) (has_dv s)) by (intros; apply ghas_dv_abs).
  rewrite (forallb_ext' (ghas_ce (abs s)) (has_ce s)) by (intros; apply ghas_ce_abs).
  rewrite (forallb_ext' (fun k => ghas_sub (abs s) (fst k)) (fun k => has_sub s (fst k))) by (intros; apply ghas_sub_abs).
  destruct (negb (forallb (has_dv s) dvs && forallb (has_ce s) ces && forallb (fun k => has_sub s (fst k)) (dvs ++ ces) && nodup_keys dvs && nodup_keys ces)) eqn:G1; red2; [rsplit; auto|].
  rewrite (forallb_ext' (fun k => g_outlives (abs s) ss (fst k) (gd_alloc (gget_dv k (abs s)))) (fun k => outlives s ss (fst k) (d_alloc (get_dv k s))))
    by (intros; unfold g_outlives, outlives; rewrite !gget_sub_abs, gget_dv_abs; reflexivity).
  rewrite (forallb_ext' (fun k => g_outlives (abs s) ss (fst k) (g_alloc (gget_ce k (abs s)))) (fun k => outlives s ss (fst k) (c_alloc (get_ce k s))))
    by (intros; unfold g_outlives, outlives; rewrite !gget_sub_abs, gget_ce_abs; reflexivity).
  destruct (negb (forallb (fun k => outlives s ss (fst k) (d_alloc (get_dv k s))) dvs && forallb (fun k => outlives s ss (fst k) (c_alloc (get_ce k s))) ces)); red2; [rsplit; auto|].
  rewrite (forallb_ext' (fun k => g_dep (gget_ce k (abs s)) <=? dep) (fun k => c_dep (get_ce k s) <=? dep)) by (intros; rewrite gget_ce_abs; reflexivity).
  destruct (negb (forallb (fun k => c_dep (get_ce k s) <=? dep) ces)); red2; [rsplit; auto|].
  rewrite gget_sub_abs. cbn [abs_sub gs_stage].
  pose proof (alloc_ce_step s ss dep by_ (mkGC (S (s_stage (get_sub ss s))) dep by_ q u z dvs ces false None) W D HS eq_refl eq_refl) as X. cbv zeta in X.
  destruct (alloc_ce ss dep by_ s) as [s1|], (g_alloc_ce ss _ (abs s)) as [G1'|]; try contradiction; red2; [|rsplit; auto].
  destruct X as (-> & W1 & D1 & Hd & Hst & ->).
  apply negb_false_iff in G1. repeat rewrite andb_true_iff in G1. destruct G1 as ((((A1 & A2) & A3) & A4) & A5).
  fold (nce s ss). rewrite (upd_app_ce s ss _ _ HS). cbn [c_alloc c_dep c_by c_verWhen c_ok c_valver c_deps c_assoc c_val].
  set (cP := mkC (S (s_stage (get_sub ss s))) dep by_ q u z dvs ces 0 true 1 [] None 0).
  destruct (register_new s ss cP W D HS) as (AB & W2 & D2); auto; try (simpl; lia).
  - intros dk Hd'. apply (forallb_In _ _ dk A1 Hd').
  - intros ck Hc. apply (forallb_In _ _ ck A2 Hc). Qed.

(* ================================================================= all covered operations, sequences, the empty State *)
Fact step_refines_all cf s o : WF s -> Dyn s -> covered s o = true -> legal cf s o = true -> refines cf s o.
Proof. intros W D C L. unfold covered in C. destruct (is_alloc o) eqn:A.
  - destruct o; try discriminate A.
    + apply ref_AllocQ; auto. + apply ref_AllocU; auto. + apply ref_AllocZ; auto. + apply ref_AllocDV; auto.
    + apply ref_AllocAutoDV; auto. + apply ref_AllocCE; auto. + apply ref_AllocCEPre; auto.
  - apply step_refines; auto. Qed.

Fact run_refines cf l : forall s, WF s -> Dyn s -> legal_run cf s l = true ->
  trace cf s l = gtrace (abs s) l /\ abs (run cf s l) = grun (abs s) l /\ WF (run cf s l) /\ Dyn (run cf s l).
Proof. induction l as [|o l IH]; intros s W D L; simpl; auto.
  simpl in L. repeat rewrite andb_true_iff in L. destruct L as ((R & LG) & L).
  destruct (step_refines_all cf s o W D R LG) as (A & T & W1 & D1).
  destruct (IH (fst (step cf s o)) W1 D1 L) as (TR & AB & W2 & D2).
  rewrite <- A. split; [|split; [|split]]; auto.
  rewrite TR, T, obs_abs. reflexivity. Qed.

Fact nth_repeat' {A} (a:A) n i : nth i (repeat a n) a = a.
Proof. revert i; induction n; intros [|i]; simpl; auto. Qed.
Fact st0_inv n : WF (st0 n) /\ Dyn (st0 n).
Proof. assert (G: forall i, get_sub i (st0 n) = dS) by (intros; unfold get_sub, st0; simpl; apply nth_repeat').
  assert (C: forall k, get_ce k (st0 n) = dC) by (intros; unfold get_ce; rewrite G; destruct (snd k); reflexivity).
  assert (V: forall k, get_dv k (st0 n) = dD) by (intros; unfold get_dv; rewrite G; destruct (snd k); reflexivity).
  split.
  - constructor; intros; rewrite ?C, ?V, ?G; simpl; try tauto; try lia; try (split; [intros []|discriminate]); auto.
  - constructor; intros; rewrite ?C, ?G; simpl; try lia; try discriminate.
    unfold getv. do 11 (destruct j; [simpl; lia|]). lia. Qed.
