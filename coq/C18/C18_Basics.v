(** C18: get/update algebra of the model's nested lists and the "shape" (stages and stage versions) frame lemmas. *)
From Coq Require Import List Arith Bool PeanoNat Lia.
Require Import C18_Model.
Import ListNotations.

Ltac dest_if := match goal with |- context [if ?c then _ else _] => destruct c eqn:? end.
Ltac b2p := repeat match goal with
  | H : (_ && _)%bool = true |- _ => apply andb_true_iff in H; destruct H
  | H : (_ && _)%bool = false |- _ => apply andb_false_iff in H
  | H : (_ || _)%bool = false |- _ => apply orb_false_iff in H; destruct H
  | H : negb _ = true |- _ => apply negb_true_iff in H
  | H : negb _ = false |- _ => apply negb_false_iff in H
  | H : (_ <=? _) = true |- _ => apply Nat.leb_le in H
  | H : (_ <=? _) = false |- _ => apply Nat.leb_gt in H
  | H : (_ <? _) = true |- _ => apply Nat.ltb_lt in H
  | H : (_ <? _) = false |- _ => apply Nat.ltb_ge in H
  | H : (_ =? _) = true |- _ => apply Nat.eqb_eq in H
  | H : (_ =? _) = false |- _ => apply Nat.eqb_neq in H
  end.

(* ------------------------------------------------------------ keys *)
Fact key_eqb_eq a b : key_eqb a b = true <-> a = b.
Proof. destruct a, b; unfold key_eqb; simpl. rewrite andb_true_iff, !Nat.eqb_eq. split; [intros [-> ->]; auto | intros H; inversion H; auto]. Qed.
Fact key_eqb_refl a : key_eqb a a = true. Proof. apply key_eqb_eq; auto. Qed.
Fact key_eqb_neq a b : key_eqb a b = false <-> a <> b.
Proof. split; intros H. - intros E; apply key_eqb_eq in E; congruence. - destruct (key_eqb a b) eqn:E; auto. apply key_eqb_eq in E; contradiction. Qed.
Fact key_eqb_sym a b : key_eqb a b = key_eqb b a.
Proof. destruct (key_eqb a b) eqn:E. - apply key_eqb_eq in E; subst; symmetry; apply key_eqb_refl.
  - symmetry; apply key_eqb_neq; apply key_eqb_neq in E; congruence. Qed.
Fact mem_key_In k l : mem_key k l = true <-> In k l.
Proof. induction l; simpl. - split; [discriminate|tauto]. - rewrite orb_true_iff, IHl, key_eqb_eq. split; intros [H|H]; auto. Qed.

(* ------------------------------------------------------------ upd_nth / mapi_from *)
Fact upd_nth_length {A} i (f:A->A) l : length (upd_nth i f l) = length l.
Proof. revert i; induction l; intros [|i]; simpl; auto. Qed.
Fact nth_upd_nth {A} i j (f:A->A) l d : nth i (upd_nth j f l) d = if (i =? j) && (j <? length l) then f (nth i l d) else nth i l d.
Proof. revert i j; induction l; intros i j; simpl.
  - destruct i, j; simpl; rewrite ?andb_false_r; auto.
  - destruct i, j; simpl; auto. rewrite IHl. replace (S j <? S (length l)) with (j <? length l); auto. Qed.
Fact upd_nth_id {A} i (f:A->A) l : (forall x, f x = x) -> upd_nth i f l = l.
Proof. intros H; revert i; induction l; intros [|i]; simpl; auto; [rewrite H|rewrite IHl]; auto. Qed.
Fact map_upd_nth {A B} (g:A->B) i (f:A->A) l : (forall x, g (f x) = g x) -> map g (upd_nth i f l) = map g l.
Proof. intros H; revert i; induction l; intros [|i]; simpl; auto; [rewrite H|rewrite IHl]; auto. Qed.
Fact mapi_from_length {A B} (f:nat->A->B) i l : length (mapi_from f i l) = length l.
Proof. revert i; induction l; simpl; auto. Qed.
Fact nth_mapi_from {A B} (f:nat->A->B) i l j d d' : j < length l -> nth j (mapi_from f i l) d' = f (i+j) (nth j l d).
Proof. revert i j; induction l; simpl; intros i j H; [lia|]. destruct j. - f_equal; lia. - rewrite IHl by lia. f_equal; lia. Qed.
Fact getv_bump lo hi l j : getv (bump_range lo hi l) j = if (lo <=? j) && (j <=? hi) && (j <? length l) then S (getv l j) else getv l j.
Proof. unfold getv, bump_range. destruct (j <? length l) eqn:E; b2p.
  - rewrite (nth_mapi_from _ 0 l j 0 0) by auto. simpl. rewrite andb_true_r. auto.
  - rewrite andb_false_r. rewrite !nth_overflow; auto. rewrite mapi_from_length; auto. Qed.
Fact bump_length lo hi l : length (bump_range lo hi l) = length l. Proof. apply mapi_from_length. Qed.

(* ------------------------------------------------------------ shape = everything about stages and stage versions *)
Definition shape (s:st) := (sys_stage s, sys_ver s, map (fun b => (s_stage b, s_ver b)) (subs s)).
Definition nsubs (s:st) := length (subs s).

Fact shape_upd_sub i f s : (forall b, (s_stage (f b), s_ver (f b)) = (s_stage b, s_ver b)) -> shape (upd_sub i f s) = shape s.
Proof. intros H; unfold shape, upd_sub; simpl. f_equal. apply map_upd_nth; auto. Qed.
Fact shape_upd_ce k f s : shape (upd_ce k f s) = shape s. Proof. apply shape_upd_sub; auto. Qed.
Fact shape_upd_dv k f s : shape (upd_dv k f s) = shape s. Proof. apply shape_upd_sub; auto. Qed.
Fact shape_fold {A} (F:st->A->st) l s : (forall s a, shape (F s a) = shape s) -> shape (fold_left F l s) = shape s.
Proof. intros H; revert s; induction l; simpl; auto. intros; rewrite IHl; auto. Qed.
Fact shape_inval_ce n k s : shape (inval_ce n k s) = shape s.
Proof. revert k s; induction n; simpl; auto. intros. rewrite shape_fold; auto using shape_upd_ce. Qed.
Fact shape_notify l s : shape (notify l s) = shape s.
Proof. unfold notify. apply shape_fold. intros; apply shape_inval_ce. Qed.
Fact shape_unregister s k : shape (unregister s k) = shape s.
Proof. unfold unregister.
  rewrite shape_fold by (intros; dest_if; auto using shape_upd_ce).
  rewrite shape_fold by (intros; dest_if; auto using shape_upd_dv).
  destruct (c_q _), (c_u _), (c_z _); reflexivity. Qed.
Fact shape_register s k : shape (register s k) = shape s.
Proof. unfold register.
  rewrite shape_fold by (intros; apply shape_upd_ce).
  rewrite shape_fold by (intros; apply shape_upd_dv).
  destruct (c_q _), (c_u _), (c_z _); cbn; apply shape_upd_ce. Qed.
Fact shape_pop_sub i gp s : shape (pop_sub i gp s) = shape s.
Proof. unfold pop_sub. rewrite shape_upd_sub; auto. apply shape_fold. apply shape_unregister. Qed.

Fact shape_stage s s' : shape s = shape s' -> sys_stage s = sys_stage s'. Proof. unfold shape; congruence. Qed.
Fact shape_sysver s s' : shape s = shape s' -> sys_ver s = sys_ver s'. Proof. unfold shape; congruence. Qed.
Fact shape_nsubs s s' : shape s = shape s' -> nsubs s = nsubs s'.
Proof. unfold shape, nsubs; intros H. inversion H. rewrite <- (map_length (fun b => (s_stage b, s_ver b)) (subs s)), H3, map_length; auto. Qed.
Fact shape_sub s s' i : shape s = shape s' -> s_stage (get_sub i s) = s_stage (get_sub i s') /\ s_ver (get_sub i s) = s_ver (get_sub i s').
Proof. unfold shape, get_sub; intros H. inversion H as [[H1 H2 H3]].
  assert (E: nth i (map (fun b => (s_stage b, s_ver b)) (subs s)) (s_stage dS, s_ver dS) = nth i (map (fun b => (s_stage b, s_ver b)) (subs s')) (s_stage dS, s_ver dS)) by (rewrite H3; auto).
  rewrite !(map_nth (fun b => (s_stage b, s_ver b))) in E. inversion E; auto. Qed.

(* stage and versions of subsystem j after an update of subsystem i *)
Fact get_sub_upd_sub i j f s : get_sub j (upd_sub i f s) = if (j =? i) && (i <? nsubs s) then f (get_sub j s) else get_sub j s.
Proof. unfold get_sub, upd_sub, nsubs; simpl. apply nth_upd_nth. Qed.
Fact nsubs_upd_sub i f s : nsubs (upd_sub i f s) = nsubs s. Proof. unfold nsubs, upd_sub; simpl. apply upd_nth_length. Qed.

(* ------------------------------------------------------------ restore_sub on the shape *)
Fact nsubs_restore_sub i gp s : nsubs (restore_sub i gp s) = nsubs s.
Proof. unfold restore_sub. repeat dest_if; auto; rewrite nsubs_upd_sub; apply shape_nsubs; apply shape_pop_sub. Qed.
Fact sys_restore_sub i gp s : sys_stage (restore_sub i gp s) = sys_stage s /\ sys_ver (restore_sub i gp s) = sys_ver s.
Proof. unfold restore_sub. repeat dest_if; auto; unfold upd_sub, set_subs; cbn [sys_stage sys_ver];
  (split; [apply shape_stage|apply shape_sysver]); apply shape_pop_sub. Qed.

Definition restored_ver (gp cur:stage) (v:list nat) : list nat :=
  if cur <=? gp then v else if gp =? 0 then ver0 else bump_range (S gp) cur v.

Fact stage_restore_sub i j gp s : i < nsubs s ->
  s_stage (get_sub j (restore_sub i gp s)) = (if j =? i then Nat.min (s_stage (get_sub j s)) gp else s_stage (get_sub j s)) /\
  s_ver (get_sub j (restore_sub i gp s)) = (if j =? i then restored_ver gp (s_stage (get_sub j s)) (s_ver (get_sub j s)) else s_ver (get_sub j s)).
Proof. intros Hi. unfold restore_sub, restored_ver.
  destruct (j =? i) eqn:E; b2p.
  - subst j. destruct (s_stage (get_sub i s) <=? gp) eqn:E1; b2p. { split; auto; lia. }
    assert (P: nsubs (pop_sub i gp s) = nsubs s) by (apply shape_nsubs, shape_pop_sub).
    assert (P0: nsubs (pop_sub i 0 s) = nsubs s) by (apply shape_nsubs, shape_pop_sub).
    destruct (gp =? 0) eqn:E2; b2p; rewrite get_sub_upd_sub, Nat.eqb_refl; simpl.
    + rewrite P0. replace (i <? nsubs s) with true by (symmetry; apply Nat.ltb_lt; auto). simpl. split; auto; lia.
    + rewrite P. replace (i <? nsubs s) with true by (symmetry; apply Nat.ltb_lt; auto). simpl.
      destruct (shape_sub _ _ i (shape_pop_sub i gp s)) as [_ ->]. split; auto; lia.
  - destruct (s_stage (get_sub i s) <=? gp); auto.
    destruct (gp =? 0); rewrite get_sub_upd_sub; replace (j =? i) with false by (symmetry; apply Nat.eqb_neq; auto); simpl;
      apply shape_sub, shape_pop_sub. Qed.

(* invalidateAll on the shape *)
Fact fold_restore_char l gp s : NoDup l -> (forall i, In i l -> i < nsubs s) ->
  let s' := fold_left (fun s' i => restore_sub i gp s') l s in
  nsubs s' = nsubs s /\ sys_stage s' = sys_stage s /\ sys_ver s' = sys_ver s /\
  forall j, s_stage (get_sub j s') = (if existsb (Nat.eqb j) l then Nat.min (s_stage (get_sub j s)) gp else s_stage (get_sub j s)) /\
            s_ver (get_sub j s') = (if existsb (Nat.eqb j) l then restored_ver gp (s_stage (get_sub j s)) (s_ver (get_sub j s)) else s_ver (get_sub j s)).
Proof. revert s; induction l; simpl; intros s ND Hl. { auto. }
  inversion ND; subst.
  assert (Ha: a < nsubs s) by (apply Hl; auto).
  destruct (IHl (restore_sub a gp s) H2) as (N & S1 & S2 & J).
  { intros i Hi. rewrite nsubs_restore_sub. apply Hl; auto. }
  destruct (sys_restore_sub a gp s) as [T1 T2].
  repeat split; try congruence. { rewrite N; apply nsubs_restore_sub. }
  - destruct (J j) as [J1 _]. rewrite J1. destruct (stage_restore_sub a j gp s Ha) as [R1 _]. rewrite R1.
    destruct (j =? a) eqn:E; simpl; auto. b2p; subst j.
    replace (existsb (Nat.eqb a) l) with false; auto. symmetry. apply not_true_iff_false. intros X. apply existsb_exists in X. destruct X as (x & X1 & X2). b2p; subst; contradiction.
  - destruct (J j) as [_ J2]. rewrite J2. destruct (stage_restore_sub a j gp s Ha) as [R1 R2]. rewrite R1, R2.
    destruct (j =? a) eqn:E; simpl; auto. b2p; subst j.
    replace (existsb (Nat.eqb a) l) with false; auto. symmetry. apply not_true_iff_false. intros X. apply existsb_exists in X. destruct X as (x & X1 & X2). b2p; subst; contradiction. Qed.

Fact shape_noteY s : shape (noteY s) = shape s.
Proof. unfold noteY, noteZ, noteU, noteQ.
  rewrite shape_notify. change (shape (set_zv ?x ?v)) with (shape x).
  rewrite shape_notify. change (shape (set_uv ?x ?v)) with (shape x).
  rewrite shape_notify. reflexivity. Qed.

Fact existsb_seq j n : existsb (Nat.eqb j) (seq 0 n) = (j <? n).
Proof. destruct (j <? n) eqn:E; b2p.
  - apply existsb_exists. exists j; split; [apply in_seq; lia|apply Nat.eqb_refl].
  - apply not_true_iff_false. intros X; apply existsb_exists in X. destruct X as (x & X1 & X2). b2p; subst. apply in_seq in X1; lia. Qed.

(* the complete effect of invalidateAll on stages and stage versions *)
Fact invalidateAll_shape g s :
  let s' := invalidateAll g s in
  nsubs s' = nsubs s /\
  sys_stage s' = Nat.min (sys_stage s) (g-1) /\
  sys_ver s' = (if sys_stage s <? g then sys_ver s else bump_range g (sys_stage s) (sys_ver s)) /\
  forall j, j < nsubs s -> s_stage (get_sub j s') = Nat.min (s_stage (get_sub j s)) (g-1) /\
                            s_ver (get_sub j s') = restored_ver (g-1) (s_stage (get_sub j s)) (s_ver (get_sub j s)).
Proof. unfold invalidateAll.
  assert (SH: nsubs (inval_sys g s) = nsubs s /\ forall j, s_stage (get_sub j (inval_sys g s)) = s_stage (get_sub j s) /\ s_ver (get_sub j (inval_sys g s)) = s_ver (get_sub j s)).
  { unfold inval_sys. destruct (sys_stage s <? g); auto. destruct ((2 <=? sys_stage s) && (g <=? 2)); simpl; auto.
    split. - apply (shape_nsubs (noteY s) s), shape_noteY. - intros j. apply (shape_sub (noteY s) s j), shape_noteY. }
  destruct SH as [SN SJ].
  destruct (fold_restore_char (seq 0 (length (subs s))) (g-1) (inval_sys g s)) as (N & S1 & S2 & J).
  { apply seq_NoDup. } { intros i Hi. apply in_seq in Hi. rewrite SN. unfold nsubs. lia. }
  cbv zeta. repeat split.
  - rewrite N; auto.
  - rewrite S1. unfold inval_sys. destruct (sys_stage s <? g) eqn:E; b2p; simpl; lia.
  - rewrite S2. unfold inval_sys. destruct (sys_stage s <? g) eqn:E; auto.
    destruct ((2 <=? sys_stage s) && (g <=? 2)); cbn [sys_ver set_sys set_nquz]; auto. f_equal. apply shape_sysver, shape_noteY.
  - destruct (J j) as [J1 _]. rewrite J1, existsb_seq. destruct (SJ j) as [-> _].
    replace (j <? length (subs s)) with true; auto. symmetry; apply Nat.ltb_lt; auto.
  - destruct (J j) as [_ J2]. rewrite J2, existsb_seq. destruct (SJ j) as [-> ->].
    replace (j <? length (subs s)) with true; auto. symmetry; apply Nat.ltb_lt; auto. Qed.
