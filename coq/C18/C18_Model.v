(** C18: executable model of the stage / version / cache bookkeeping of SimTK::State
    (SimTKcommon/Simulation: StateImpl.h, State.cpp), hand-written from the source, Release (NDEBUG)
    semantics: only the _ALWAYS checks throw.  Tied to the code by the correspondence run of checks/C18.py
    (extracted to OCaml, compared after every operation with the real State driven through its public API).

    What is in the model: system stage and system stage versions, q/u/z value versions and dependents
    lists, sizes of the shared q/u/z pools; per subsystem the current stage, the stage versions, the
    allocation stacks of q/u/z blocks, discrete variables (allocation stage, invalidated stage, auto-update
    link, value version, dependents, an integer value) and cache entries (allocation / depends-on /
    computed-by stage, q/u/z/dv/ce prerequisites, depends-on version when last computed, up-to-date-with-
    prerequisites flag, value version, dependents, associated variable, an integer value).
    Not in the model: the numeric contents of y, time, weights, constraint-error and event-trigger pools.

    [cfg] selects between the code as it is now (both flags false) and the two proposed repairs
    (patches/C18_*.diff); the check decides which one the tree under test implements by replaying the
    two witnesses, so the same theorems serve before and after the repairs. *)
From Coq Require Import List Arith Bool PeanoNat.
Import ListNotations.

Definition stage := nat.   (* Empty=0 Topology=1 Model=2 Instance=3 Time=4 Position=5 Velocity=6 Dynamics=7 Acceleration=8 Report=9 Infinity=10 *)
Definition key := (nat * nat)%type.   (* subsystem, index *)

Record cfg := mkCfg { fix_auto : bool;      (* autoUpdateDiscreteVariables bumps the value version and notifies dependents *)
                      fix_copyver : bool }. (* PerSubsystemInfo::copyFrom invalidates every stage version above the copied stage *)

Definition key_eqb (a b:key) : bool := (fst a =? fst b) && (snd a =? snd b).
Fixpoint mem_key (k:key) (l:list key) : bool := match l with [] => false | x::t => key_eqb k x || mem_key k t end.
Fixpoint remove_key (k:key) (l:list key) : list key :=
  match l with [] => [] | x::t => if key_eqb k x then t else x :: remove_key k t end.
Fixpoint nodup_keys (l:list key) : bool := match l with [] => true | x::t => negb (mem_key x t) && nodup_keys t end.

Record cent := mkC { c_alloc : stage; c_dep : stage; c_by : stage; c_q : bool; c_u : bool; c_z : bool;
                     c_dvs : list key; c_ces : list key;
                     c_verWhen : nat; c_ok : bool; c_valver : nat; c_deps : list key; c_assoc : option nat; c_val : nat }.
Record dvar := mkD { d_alloc : stage; d_inval : stage; d_auto : option nat; d_valver : nat; d_deps : list key; d_val : nat }.
Record subsys := mkS { s_stage : stage; s_ver : list nat; s_qs : list (stage*nat); s_us : list (stage*nat); s_zs : list (stage*nat);
                       s_dvs : list dvar; s_ces : list cent }.
Record st := mkSt { sys_stage : stage; sys_ver : list nat; qv : nat; uv : nat; zv : nat;
                    qd : list key; ud : list key; zd : list key; nq : nat; nu : nat; nz : nat; subs : list subsys }.

Definition NV := 11.
Definition ver0 : list nat := repeat 1 NV.
Definition dC : cent := mkC 0 0 0 false false false [] [] 0 false 0 [] None 0.
Definition dD : dvar := mkD 0 0 None 0 [] 0.
Definition dS : subsys := mkS 0 ver0 [] [] [] [] [].

(* ---------------------------------------------------------------- field setters *)
Definition c_set_flags (c:cent) (vw:nat) (ok:bool) : cent :=
  mkC (c_alloc c) (c_dep c) (c_by c) (c_q c) (c_u c) (c_z c) (c_dvs c) (c_ces c) vw ok (c_valver c) (c_deps c) (c_assoc c) (c_val c).
Definition c_set_valver (c:cent) (v:nat) : cent :=
  mkC (c_alloc c) (c_dep c) (c_by c) (c_q c) (c_u c) (c_z c) (c_dvs c) (c_ces c) (c_verWhen c) (c_ok c) v (c_deps c) (c_assoc c) (c_val c).
Definition c_set_deps (c:cent) (l:list key) : cent :=
  mkC (c_alloc c) (c_dep c) (c_by c) (c_q c) (c_u c) (c_z c) (c_dvs c) (c_ces c) (c_verWhen c) (c_ok c) (c_valver c) l (c_assoc c) (c_val c).
Definition c_set_val (c:cent) (v:nat) : cent :=
  mkC (c_alloc c) (c_dep c) (c_by c) (c_q c) (c_u c) (c_z c) (c_dvs c) (c_ces c) (c_verWhen c) (c_ok c) (c_valver c) (c_deps c) (c_assoc c) v.
Definition c_set_assoc (c:cent) (a:option nat) : cent :=
  mkC (c_alloc c) (c_dep c) (c_by c) (c_q c) (c_u c) (c_z c) (c_dvs c) (c_ces c) (c_verWhen c) (c_ok c) (c_valver c) (c_deps c) a (c_val c).
(* CacheEntryInfo::invalidate, the part local to the entry *)
Definition c_invalidate (c:cent) : cent := c_set_valver (c_set_flags c 0 false) (S (c_valver c)).

Definition d_set_deps (d:dvar) (l:list key) : dvar := mkD (d_alloc d) (d_inval d) (d_auto d) (d_valver d) l (d_val d).
Definition d_set_valver (d:dvar) (v:nat) : dvar := mkD (d_alloc d) (d_inval d) (d_auto d) v (d_deps d) (d_val d).
Definition d_set_val (d:dvar) (v:nat) : dvar := mkD (d_alloc d) (d_inval d) (d_auto d) (d_valver d) (d_deps d) v.
Definition d_set_auto (d:dvar) (a:option nat) : dvar := mkD (d_alloc d) (d_inval d) a (d_valver d) (d_deps d) (d_val d).

Definition s_set_stage_ver (b:subsys) (g:stage) (v:list nat) : subsys := mkS g v (s_qs b) (s_us b) (s_zs b) (s_dvs b) (s_ces b).
Definition s_set_ces (b:subsys) (l:list cent) : subsys := mkS (s_stage b) (s_ver b) (s_qs b) (s_us b) (s_zs b) (s_dvs b) l.
Definition s_set_dvs (b:subsys) (l:list dvar) : subsys := mkS (s_stage b) (s_ver b) (s_qs b) (s_us b) (s_zs b) l (s_ces b).
Definition s_set_quz (b:subsys) (q u z:list (stage*nat)) : subsys := mkS (s_stage b) (s_ver b) q u z (s_dvs b) (s_ces b).

Definition set_subs (s:st) (l:list subsys) : st :=
  mkSt (sys_stage s) (sys_ver s) (qv s) (uv s) (zv s) (qd s) (ud s) (zd s) (nq s) (nu s) (nz s) l.
Definition set_qd (s:st) (l:list key) : st :=
  mkSt (sys_stage s) (sys_ver s) (qv s) (uv s) (zv s) l (ud s) (zd s) (nq s) (nu s) (nz s) (subs s).
Definition set_ud (s:st) (l:list key) : st :=
  mkSt (sys_stage s) (sys_ver s) (qv s) (uv s) (zv s) (qd s) l (zd s) (nq s) (nu s) (nz s) (subs s).
Definition set_zd (s:st) (l:list key) : st :=
  mkSt (sys_stage s) (sys_ver s) (qv s) (uv s) (zv s) (qd s) (ud s) l (nq s) (nu s) (nz s) (subs s).
Definition set_qv (s:st) (v:nat) : st :=
  mkSt (sys_stage s) (sys_ver s) v (uv s) (zv s) (qd s) (ud s) (zd s) (nq s) (nu s) (nz s) (subs s).
Definition set_uv (s:st) (v:nat) : st :=
  mkSt (sys_stage s) (sys_ver s) (qv s) v (zv s) (qd s) (ud s) (zd s) (nq s) (nu s) (nz s) (subs s).
Definition set_zv (s:st) (v:nat) : st :=
  mkSt (sys_stage s) (sys_ver s) (qv s) (uv s) v (qd s) (ud s) (zd s) (nq s) (nu s) (nz s) (subs s).
Definition set_sys (s:st) (g:stage) (v:list nat) : st :=
  mkSt g v (qv s) (uv s) (zv s) (qd s) (ud s) (zd s) (nq s) (nu s) (nz s) (subs s).
Definition set_nquz (s:st) (a b c:nat) : st :=
  mkSt (sys_stage s) (sys_ver s) (qv s) (uv s) (zv s) (qd s) (ud s) (zd s) a b c (subs s).

(* ---------------------------------------------------------------- list helpers *)
Fixpoint upd_nth {A} (i:nat) (f:A->A) (l:list A) : list A :=
  match l, i with
  | [], _ => []
  | x::t, 0 => f x :: t
  | x::t, S j => x :: upd_nth j f t
  end.
Fixpoint mapi_from {A B} (f:nat->A->B) (i:nat) (l:list A) : list B :=
  match l with [] => [] | x::t => f i x :: mapi_from f (S i) t end.
Definition getv (l:list nat) (i:nat) : nat := nth i l 0.
(* ++ every version with index in [lo,hi] *)
Definition bump_range (lo hi:nat) (l:list nat) : list nat :=
  mapi_from (fun i v => if (lo <=? i) && (i <=? hi) then S v else v) 0 l.
(* allocation stack: drop the maximal suffix whose allocation stage is > gp *)
Fixpoint keep_to {A} (al:A->stage) (gp:stage) (l:list A) : list A :=
  match l with
  | [] => []
  | x::t => match keep_to al gp t with
            | [] => if gp <? al x then [] else [x]
            | r => x :: r
            end
  end.

Definition get_sub (i:nat) (s:st) : subsys := nth i (subs s) dS.
Definition get_ce (k:key) (s:st) : cent := nth (snd k) (s_ces (get_sub (fst k) s)) dC.
Definition get_dv (k:key) (s:st) : dvar := nth (snd k) (s_dvs (get_sub (fst k) s)) dD.
Definition upd_sub (i:nat) (f:subsys->subsys) (s:st) : st := set_subs s (upd_nth i f (subs s)).
Definition upd_ce (k:key) (f:cent->cent) (s:st) : st := upd_sub (fst k) (fun b => s_set_ces b (upd_nth (snd k) f (s_ces b))) s.
Definition upd_dv (k:key) (f:dvar->dvar) (s:st) : st := upd_sub (fst k) (fun b => s_set_dvs b (upd_nth (snd k) f (s_dvs b))) s.
Definition has_sub (s:st) (i:nat) : bool := i <? length (subs s).
Definition has_ce (s:st) (k:key) : bool := snd k <? length (s_ces (get_sub (fst k) s)).
Definition has_dv (s:st) (k:key) : bool := snd k <? length (s_dvs (get_sub (fst k) s)).
Definition num_ces (s:st) : nat := fold_right (fun b n => length (s_ces b) + n) 0 (subs s).

(* ---------------------------------------------------------------- CacheEntryInfo::isUpToDate (three-way test) *)
Definition isUpToDate (s:st) (k:key) : bool :=
  let b := get_sub (fst k) s in let c := get_ce k s in
  if c_by c <=? s_stage b then true
  else if s_stage b <? c_dep c then false
  else (getv (s_ver b) (c_dep c) =? c_verWhen c) && c_ok c.

(* ---------------------------------------------------------------- CacheEntryInfo::invalidate + ListOfDependents::notePrerequisiteChange
   depth-first through the dependents lists exactly as the code recurses; [n] is fuel (number of cache entries + 1
   suffices because a dependent is always allocated after its prerequisites) *)
Fixpoint inval_ce (n:nat) (k:key) (s:st) : st :=
  match n with
  | 0 => s
  | S m => let ds := c_deps (get_ce k s) in
           fold_left (fun s' d => inval_ce m d s') ds (upd_ce k c_invalidate s)
  end.
Definition fuel (s:st) : nat := S (num_ces s).
Definition notify (l:list key) (s:st) : st := let n := fuel s in fold_left (fun s' d => inval_ce n d s') l s.

(* ---------------------------------------------------------------- CacheEntryInfo::unregisterWithPrerequisites *)
Definition unregister (s:st) (k:key) : st :=
  let c := get_ce k s in
  let s := if c_q c then set_qd s (remove_key k (qd s)) else s in
  let s := if c_u c then set_ud s (remove_key k (ud s)) else s in
  let s := if c_z c then set_zd s (remove_key k (zd s)) else s in
  let s := fold_left (fun s' dk => if has_dv s' dk then upd_dv dk (fun d => d_set_deps d (remove_key k (d_deps d))) s' else s') (c_dvs c) s in
  fold_left (fun s' ck => if has_ce s' ck then upd_ce ck (fun c' => c_set_deps c' (remove_key k (c_deps c'))) s' else s') (c_ces c) s.

(* CacheEntryInfo::registerWithPrerequisites *)
Definition register (s:st) (k:key) : st :=
  let c := get_ce k s in
  let none := negb (c_q c) && negb (c_u c) && negb (c_z c) && (match c_dvs c with [] => true | _ => false end)
              && (match c_ces c with [] => true | _ => false end) in
  let s := upd_ce k (fun c' => c_set_flags c' (c_verWhen c') none) s in
  let s := if c_q c then set_qd s (qd s ++ [k]) else s in
  let s := if c_u c then set_ud s (ud s ++ [k]) else s in
  let s := if c_z c then set_zd s (zd s ++ [k]) else s in
  let s := fold_left (fun s' dk => upd_dv dk (fun d => d_set_deps d (d_deps d ++ [k])) s') (c_dvs c) s in
  fold_left (fun s' ck => upd_ce ck (fun c' => c_set_deps c' (c_deps c' ++ [k])) s') (c_ces c) s.

(* ---------------------------------------------------------------- PerSubsystemInfo::restoreToStage *)
(* popAllStacksBackToStage: every popped cache entry unregisters (last first, stack not yet resized), then all stacks shrink *)
Definition pop_sub (i:nat) (gp:stage) (s:st) : st :=
  let b := get_sub i s in
  let n := length (s_ces b) in
  let m := length (keep_to c_alloc gp (s_ces b)) in
  let s1 := fold_left unregister (map (fun j => (i,j)) (rev (seq m (n-m)))) s in
  upd_sub i (fun b' => s_set_dvs (s_set_ces (s_set_quz b' (keep_to fst gp (s_qs b')) (keep_to fst gp (s_us b')) (keep_to fst gp (s_zs b')))
                                            (keep_to c_alloc gp (s_ces b')))
                                 (keep_to d_alloc gp (s_dvs b'))) s1.

Definition restore_sub (i:nat) (gp:stage) (s:st) : st :=
  let b := get_sub i s in
  if s_stage b <=? gp then s
  else if gp =? 0 then upd_sub i (fun b' => s_set_stage_ver b' 0 ver0) (pop_sub i 0 s)     (* initialize() *)
  else upd_sub i (fun b' => s_set_stage_ver b' gp (bump_range (S gp) (s_stage b) (s_ver b'))) (pop_sub i gp s).

(* noteQChange / noteUChange / noteZChange *)
Definition noteQ (s:st) : st := notify (qd s) (set_qv s (S (qv s))).
Definition noteU (s:st) : st := notify (ud s) (set_uv s (S (uv s))).
Definition noteZ (s:st) : st := notify (zd s) (set_zv s (S (zv s))).
Definition noteY (s:st) : st := noteZ (noteU (noteQ s)).

(* StateImpl::invalidateJustSystemStage (g >= 1) *)
Definition inval_sys (g:stage) (s:st) : st :=
  if sys_stage s <? g then s
  else let s1 := if (2 <=? sys_stage s) && (g <=? 2) then set_nquz (noteY s) 0 0 0 else s in
       set_sys s1 (g-1) (bump_range g (sys_stage s) (sys_ver s1)).

(* StateImpl::invalidateAll (g >= 1) *)
Definition invalidateAll (g:stage) (s:st) : st :=
  fold_left (fun s' i => restore_sub i (g-1) s') (seq 0 (length (subs s))) (inval_sys g s).

Definition sum_stack (l:list (stage*nat)) : nat := fold_right (fun x n => snd x + n) 0 l.
(* StateImpl::advanceSystemToStage; the asserted preconditions are checked by the caller *)
Definition adv_sys (g:stage) (s:st) : st :=
  let s1 := if g =? 2 then
              let s' := set_nquz s (fold_right (fun b n => sum_stack (s_qs b) + n) 0 (subs s))
                                   (fold_right (fun b n => sum_stack (s_us b) + n) 0 (subs s))
                                   (fold_right (fun b n => sum_stack (s_zs b) + n) 0 (subs s)) in
              notify (zd s') (notify (ud s') (notify (qd s') s'))
            else s in
  set_sys s1 g (sys_ver s1).

(* ---------------------------------------------------------------- operations *)
Inductive wvar := WQ | WU | WZ | WY | WT | WUW | WZW | WQEW | WUEW.
Definition w_stage (w:wvar) : stage :=
  match w with WQ => 5 | WU => 6 | WZ => 7 | WY => 5 | WT => 4 | WUW => 9 | WZW => 7 | WQEW => 5 | WUEW => 6 end.

(* stage invalidated by the per-subsystem accessor (updZWeights(subsys) invalidates Report, the whole-state form Dynamics) *)
Definition ws_stage (w:wvar) : stage := match w with WZW => 9 | _ => w_stage w end.
Definition sub_ok (w:wvar) : bool := match w with WY | WT => false | _ => true end.   (* there is no per-subsystem updY / updTime *)

Inductive op :=
| AllocQ (ss n:nat) | AllocU (ss n:nat) | AllocZ (ss n:nat)
| AllocDV (ss:nat) (inval:stage) (v:nat)
| AllocAutoDV (ss:nat) (inval:stage) (v:nat) (updDep:stage)
| AllocCE (ss:nat) (dep by_:stage)
| AllocCEPre (ss:nat) (dep by_:stage) (q u z:bool) (dvs ces:list key)
| AdvSub (ss:nat) (g:stage) | AdvSys (g:stage)
| InvalidateAll (g:stage) | InvalidateCache (g:stage)
| Upd (w:wvar)
| SetDV (k:key) (v:nat) | SetCE (k:key) (v:nat)
| Mark (k:key) | Unmark (k:key) | MarkDVUpd (k:key) | SetDVUpd (k:key) (v:nat)
| AutoUpdate | GetCE (k:key) | Query
| UpdSub (w:wvar) (ss:nat).   (* the per-subsystem write accessors updQ(subsys) ... updUErrWeights(subsys) *)

(* result: new state, and whether the call threw.  [guard] = the call is outside the domain the harness ever
   executes (an assert()/index precondition of the code that is undefined behaviour or abort when violated);
   model and harness both answer "threw, state unchanged" without calling the implementation. *)
Definition guard (s:st) : st * bool := (s, true).
Definition ok (s:st) : st * bool := (s, false).

(* allocateDiscreteVariable: Some new state, or None if it throws *)
Definition alloc_dv (ss:nat) (inval:stage) (v:nat) (s:st) : option st :=
  let b := get_sub ss s in
  if negb ((1 <=? inval) && (inval <=? 9)) then None
  else if negb (s_stage b <=? (if inval <=? 2 then 0 else 1)) then None
  else Some (upd_sub ss (fun b' => s_set_dvs b' (s_dvs b' ++ [mkD (S (s_stage b)) inval None 1 [] v])) s).
(* allocateCacheEntry *)
Definition alloc_ce (ss:nat) (dep by_:stage) (s:st) : option st :=
  let b := get_sub ss s in
  if negb ((1 <=? dep) && (dep <=? 9)) then None
  else if negb ((dep <=? by_) && (by_ <=? 10)) then None
  else if negb (s_stage b <? 3) then None
  else Some (upd_sub ss (fun b' => s_set_ces b' (s_ces b' ++ [mkC (S (s_stage b)) dep by_ false false false [] [] 0 true 1 [] None 0])) s).

(* "the prerequisite outlives the dependent": same subsystem, or already realized in its own subsystem and allocated
   at a strictly earlier stage than the new entry (documented assumption of the model, see checks/C18.py) *)
Definition outlives (s:st) (ss:nat) (pss:nat) (palloc:stage) : bool :=
  (pss =? ss) || ((palloc <=? s_stage (get_sub pss s)) && (palloc <=? s_stage (get_sub ss s))).

Definition auto_one (cf:cfg) (s:st) (dk:key) : st :=
  match d_auto (get_dv dk s) with
  | None => s
  | Some cx =>
      let ck := (fst dk, cx) in
      if isUpToDate s ck then
        let dval := d_val (get_dv dk s) in let cval := c_val (get_ce ck s) in
        let s1 := upd_ce ck (fun c => c_set_val c dval) (upd_dv dk (fun d => d_set_val d cval) s) in
        let s2 := if fix_auto cf then
                    notify (d_deps (get_dv dk s1)) (upd_dv dk (fun d => d_set_valver d (S (d_valver d))) s1)
                  else s1 in
        inval_ce (fuel s2) ck s2
      else s
  end.
Definition all_dv_keys (s:st) : list key :=
  concat (mapi_from (fun i b => map (fun j => (i,j)) (seq 0 (length (s_dvs b)))) 0 (subs s)).
Definition all_ce_keys (s:st) : list key :=
  concat (mapi_from (fun i b => map (fun j => (i,j)) (seq 0 (length (s_ces b)))) 0 (subs s)).

Definition step (cf:cfg) (s:st) (o:op) : st * bool :=
  match o with
  | AllocQ ss n => if negb (has_sub s ss) then guard s else
      let b := get_sub ss s in if negb (s_stage b <? 2) then (s,true)
      else ok (upd_sub ss (fun b' => s_set_quz b' (s_qs b' ++ [(S (s_stage b), n)]) (s_us b') (s_zs b')) s)
  | AllocU ss n => if negb (has_sub s ss) then guard s else
      let b := get_sub ss s in if negb (s_stage b <? 2) then (s,true)
      else ok (upd_sub ss (fun b' => s_set_quz b' (s_qs b') (s_us b' ++ [(S (s_stage b), n)]) (s_zs b')) s)
  | AllocZ ss n => if negb (has_sub s ss) then guard s else
      let b := get_sub ss s in if negb (s_stage b <? 2) then (s,true)
      else ok (upd_sub ss (fun b' => s_set_quz b' (s_qs b') (s_us b') (s_zs b' ++ [(S (s_stage b), n)])) s)
  | AllocDV ss inval v =>
      if negb (has_sub s ss) then guard s
      else if (1 <=? inval) && (inval <=? 9) && (inval <=? S (s_stage (get_sub ss s))) && (s_stage (get_sub ss s) <=? (if inval <=? 2 then 0 else 1))
           then guard s   (* would be accepted with invalidated stage <= allocation stage: assert(isReasonable()) *)
      else match alloc_dv ss inval v s with None => (s,true) | Some s1 => ok s1 end
  | AllocAutoDV ss inval v updDep =>
      if negb (has_sub s ss) then guard s
      else if (1 <=? inval) && (inval <=? 9) && (inval <=? S (s_stage (get_sub ss s))) && (s_stage (get_sub ss s) <=? (if inval <=? 2 then 0 else 1))
           then guard s
      else match alloc_dv ss inval v s with
           | None => (s,true)
           | Some s1 =>
               match alloc_ce ss updDep 10 s1 with
               | None => (s1,true)    (* the variable stays allocated: the exception leaves a side effect *)
               | Some s2 =>
                   let dx := length (s_dvs (get_sub ss s)) in let cx := length (s_ces (get_sub ss s)) in
                   ok (upd_ce (ss,cx) (fun c => c_set_val (c_set_assoc c (Some dx)) v) (upd_dv (ss,dx) (fun d => d_set_auto d (Some cx)) s2))
               end
           end
  | AllocCE ss dep by_ =>
      if negb (has_sub s ss) then guard s
      else match alloc_ce ss dep by_ s with None => (s,true) | Some s1 => ok s1 end
  | AllocCEPre ss dep by_ q u z dvs ces =>
      if negb (has_sub s ss) then guard s
      else if negb (forallb (has_dv s) dvs && forallb (has_ce s) ces && forallb (fun k => has_sub s (fst k)) (dvs ++ ces)
                    && nodup_keys dvs && nodup_keys ces) then guard s
      else if negb (forallb (fun k => outlives s ss (fst k) (d_alloc (get_dv k s))) dvs
                    && forallb (fun k => outlives s ss (fst k) (c_alloc (get_ce k s))) ces) then guard s
      else if negb (forallb (fun k => c_dep (get_ce k s) <=? dep) ces) then (s,true)
      else match alloc_ce ss dep by_ s with
           | None => (s,true)
           | Some s1 =>
               let k := (ss, length (s_ces (get_sub ss s))) in
               let s2 := upd_ce k (fun c => mkC (c_alloc c) (c_dep c) (c_by c) q u z dvs ces (c_verWhen c) (c_ok c) (c_valver c) (c_deps c) (c_assoc c) (c_val c)) s1 in
               ok (register s2 k)
           end
  | AdvSub ss g =>
      if negb (has_sub s ss) then guard s
      else if negb ((1 <=? g) && (g <=? 9) && (S (s_stage (get_sub ss s)) =? g)) then guard s
      else ok (upd_sub ss (fun b => s_set_stage_ver b g (s_ver b)) s)
  | AdvSys g =>
      if negb ((1 <=? g) && (g <=? 9) && (S (sys_stage s) =? g) && forallb (fun b => g <=? s_stage b) (subs s)) then guard s
      else ok (adv_sys g s)
  | InvalidateAll g => if negb ((1 <=? g) && (g <=? 10)) then guard s else ok (invalidateAll g s)
  | InvalidateCache g => if negb ((1 <=? g) && (g <=? 10)) then guard s
                         else if g <? 3 then (s,true) else ok (invalidateAll g s)
  | Upd w =>
      let s1 := invalidateAll (w_stage w) s in
      ok (match w with WQ => noteQ s1 | WU => noteU s1 | WZ => noteZ s1 | WY => noteY s1 | _ => s1 end)
  | SetDV k v =>
      if negb (has_sub s (fst k) && has_dv s k) then guard s else
      let d := get_dv k s in
      let s1 := invalidateAll (d_inval d) s in
      let s2 := match d_auto d with Some cx => inval_ce (fuel s1) (fst k, cx) s1 | None => s1 end in
      let s3 := upd_dv k (fun d' => d_set_val (d_set_valver d' (S (d_valver d'))) v) s2 in
      ok (notify (d_deps (get_dv k s3)) s3)
  | SetCE k v => if negb (has_sub s (fst k) && has_ce s k) then guard s else ok (upd_ce k (fun c => c_set_val c v) s)
  | Mark k => if negb (has_sub s (fst k) && has_ce s k) then guard s else
      ok (upd_ce k (fun c => c_set_flags c (getv (s_ver (get_sub (fst k) s)) (c_dep c)) true) s)
  | Unmark k => if negb (has_sub s (fst k) && has_ce s k) then guard s else ok (inval_ce (fuel s) k s)
  | MarkDVUpd k => if negb (has_sub s (fst k) && has_dv s k) then guard s else
      match d_auto (get_dv k s) with
      | None => guard s
      | Some cx => ok (upd_ce (fst k,cx) (fun c => c_set_flags c (getv (s_ver (get_sub (fst k) s)) (c_dep c)) true) s)
      end
  | SetDVUpd k v => if negb (has_sub s (fst k) && has_dv s k) then guard s else
      match d_auto (get_dv k s) with
      | None => guard s
      | Some cx => ok (upd_ce (fst k,cx) (fun c => c_set_val c v) s)
      end
  | AutoUpdate => ok (fold_left (auto_one cf) (all_dv_keys s) s)
  | GetCE k => if negb (has_sub s (fst k) && has_ce s k) then guard s else (s, negb (isUpToDate s k))
  | Query => ok s
  | UpdSub w ss =>
      if negb (has_sub s ss && sub_ok w) then guard s else
      let s1 := invalidateAll (ws_stage w) s in
      ok (match w with WQ => noteQ s1 | WU => noteU s1 | WZ => noteZ s1 | _ => s1 end)
  end.

(* ---------------------------------------------------------------- copy construction / assignment *)
Definition st0 (nsub:nat) : st := mkSt 0 ver0 1 1 1 [] [] [] 0 0 0 (repeat dS nsub).

(* PerSubsystemInfo copy constructor: initialize(); copyFrom(src, Stage::Instance) *)
Definition copy_sub (cf:cfg) (b:subsys) : subsys :=
  let tg := Nat.min (s_stage b) 3 in
  let hi := if fix_copyver cf then 10 else s_stage b in
  mkS tg
      (mapi_from (fun i v => if i <=? tg then v else if i <=? hi then S v else 1) 0 (s_ver b))
      (keep_to fst tg (s_qs b)) (keep_to fst tg (s_us b)) (keep_to fst tg (s_zs b))
      (map (fun d => d_set_deps d []) (keep_to d_alloc tg (s_dvs b)))
      (map (fun c => c_set_deps c []) (keep_to c_alloc tg (s_ces b))).

(* StateImpl::copyFrom into a state whose system stage versions are [base] and whose stages are all Empty *)
Definition copy_from (cf:cfg) (base:list nat) (src:st) : st :=
  let g := sys_stage src in
  let sv := mapi_from (fun i v => if (1 <=? i) && (i <=? g) then if i <=? 3 then getv (sys_ver src) i else S (getv (sys_ver src) i) else v) 0 base in
  let sb := map (copy_sub cf) (subs src) in
  let m := 2 <=? g in
  let s1 := mkSt (Nat.min g 3) sv
                 (if m then qv src else S (qv src)) (if m then uv src else S (uv src)) (if m then zv src else S (zv src))
                 [] [] []
                 (if m then fold_right (fun b n => sum_stack (s_qs b) + n) 0 sb else 0)
                 (if m then fold_right (fun b n => sum_stack (s_us b) + n) 0 sb else 0)
                 (if m then fold_right (fun b n => sum_stack (s_zs b) + n) 0 sb else 0)
                 sb in
  fold_left register (all_ce_keys s1) s1.

Definition copy_st (cf:cfg) (src:st) : st := copy_from cf ver0 src.
Definition assign_st (cf:cfg) (dst src:st) : st := copy_from cf (sys_ver (invalidateAll 1 dst)) src.

Inductive wop := On (slot:nat) (o:op) | CopyC (dst src:nat) | Assign (dst src:nat) | Move (dst src:nat).
Definition world := list st.
Definition set_slot (w:world) (i:nat) (s:st) : world := upd_nth i (fun _ => s) w.
Definition wstep (cf:cfg) (w:world) (o:wop) : world * bool :=
  match o with
  | On i o' => if i <? length w then let '(s',t) := step cf (nth i w (st0 0)) o' in (set_slot w i s', t) else (w,true)
  | CopyC d s_ => if (d <? length w) && (s_ <? length w) then (set_slot w d (copy_st cf (nth s_ w (st0 0))), false) else (w,true)
  | Assign d s_ => if (d <? length w) && (s_ <? length w) then
                     if d =? s_ then (w,false) else (set_slot w d (assign_st cf (nth d w (st0 0)) (nth s_ w (st0 0))), false)
                   else (w,true)
  | Move d s_ => if (d <? length w) && (s_ <? length w) then
                   (set_slot (set_slot w d (nth s_ w (st0 0))) s_ (nth d w (st0 0)), false) else (w,true)
  end.
Fixpoint wrun (cf:cfg) (w:world) (l:list wop) : world :=
  match l with [] => w | o::t => wrun cf (fst (wstep cf w o)) t end.
Fixpoint run (cf:cfg) (s:st) (l:list op) : st :=
  match l with [] => s | o::t => run cf (fst (step cf s o)) t end.
