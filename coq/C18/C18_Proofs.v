(** C18: theorems about the model C18_Model.v.  [Theorem]/[Example] = property statements (listed in
    Props/Properties_C18.v), [Fact] = helpers. *)
From Coq Require Import List Arith Bool PeanoNat Lia.
Require Import C18_Model C18_Basics C18_Spec C18_Refine C18_Refine2 C18_Refine3 C18_Values C18_Alloc.
Import ListNotations.

(** the stage an operation invalidates, if it is a "variable change" *)
Definition inval_of (s:st) (o:op) : option stage :=
  match o with
  | Upd w => Some (w_stage w)
  | SetDV k _ => if has_sub s (fst k) && has_dv s k then Some (d_inval (get_dv k s)) else None
  | InvalidateAll g => if (1 <=? g) && (g <=? 10) then Some g else None
  | InvalidateCache g => if (3 <=? g) && (g <=? 10) then Some g else None
  | UpdSub w ss => if has_sub s ss && sub_ok w then Some (ws_stage w) else None
  | _ => None
  end.

Fact shape_set_qv s v : shape (set_qv s v) = shape s. Proof. reflexivity. Qed.
Fact shape_noteQ s : shape (noteQ s) = shape s. Proof. unfold noteQ. rewrite shape_notify; reflexivity. Qed.
Fact shape_noteU s : shape (noteU s) = shape s. Proof. unfold noteU. rewrite shape_notify; reflexivity. Qed.
Fact shape_noteZ s : shape (noteZ s) = shape s. Proof. unfold noteZ. rewrite shape_notify; reflexivity. Qed.

Fact step_inval_shape cf s o g : inval_of s o = Some g ->
  snd (step cf s o) = false /\ shape (fst (step cf s o)) = shape (invalidateAll g s).
Proof. destruct o; cbn [inval_of]; try discriminate; unfold step.
  - destruct ((1 <=? g0) && (g0 <=? 10)) eqn:E; try discriminate. intros H; inversion H; subst. cbn [negb snd fst ok]; auto.
  - destruct ((3 <=? g0) && (g0 <=? 10)) eqn:E; try discriminate. intros H; inversion H; subst. b2p.
    replace ((1 <=? g) && (g <=? 10)) with true by (symmetry; apply andb_true_iff; split; [apply Nat.leb_le|apply Nat.leb_le]; lia).
    replace (g <? 3) with false by (symmetry; apply Nat.ltb_ge; lia). cbn [negb snd fst ok]; auto.
  - intros H; inversion H; subst. split; auto. cbn [fst ok].
    destruct w; auto using shape_noteQ, shape_noteU, shape_noteZ, shape_noteY.
  - destruct (has_sub s (fst k) && has_dv s k) eqn:E; try discriminate. intros H; inversion H; subst. cbn [negb snd fst ok]. split; auto.
    rewrite shape_notify, shape_upd_dv. destruct (d_auto (get_dv k s)); auto using shape_inval_ce.
  - destruct (has_sub s ss && sub_ok w) eqn:E; try discriminate. intros H; inversion H; subst. cbn [negb snd fst ok]. split; auto.
    destruct w; auto using shape_noteQ, shape_noteU, shape_noteZ. Qed.

(** Changing a variable lowers the realized stage of the system and of every subsystem to
    min(current, invalidated stage - 1); the call does not throw and the number of subsystems is unchanged.
    Holds in every state, hence after every operation sequence. *)
Theorem upd_lowers_all_stages cf s o g : inval_of s o = Some g ->
  let s' := fst (step cf s o) in
  snd (step cf s o) = false /\ nsubs s' = nsubs s /\
  sys_stage s' = Nat.min (sys_stage s) (g-1) /\
  forall i, i < nsubs s -> s_stage (get_sub i s') = Nat.min (s_stage (get_sub i s)) (g-1).
Proof. intros H. destruct (step_inval_shape cf s o g H) as [T SH]. cbv zeta.
  destruct (invalidateAll_shape g s) as (N & S1 & S2 & J).
  repeat split; auto.
  - rewrite (shape_nsubs _ _ SH); auto.
  - rewrite (shape_stage _ _ SH); auto.
  - intros i Hi. destruct (shape_sub _ _ i SH) as [-> _]. apply J; auto. Qed.

(** Stage versions are bumped exactly for the invalidated stages: system version j changes (by +1) iff
    g <= j <= old system stage; subsystem version j changes (by +1) iff g <= j <= old subsystem stage, for g > Topology.
    Invalidating Topology re-initializes a realized subsystem: all its versions return to 1 (all its allocations are dropped). *)
Theorem versions_bump_exactly_invalidated_stages cf s o g : inval_of s o = Some g ->
  let s' := fst (step cf s o) in
  (forall j, getv (sys_ver s') j = if (g <=? j) && (j <=? sys_stage s) && (j <? length (sys_ver s)) then S (getv (sys_ver s) j) else getv (sys_ver s) j) /\
  (forall i, i < nsubs s -> 2 <= g -> forall j,
      getv (s_ver (get_sub i s')) j =
      if (g <=? j) && (j <=? s_stage (get_sub i s)) && (j <? length (s_ver (get_sub i s))) then S (getv (s_ver (get_sub i s)) j) else getv (s_ver (get_sub i s)) j) /\
  (forall i, i < nsubs s -> g <= 1 -> s_ver (get_sub i s') = if s_stage (get_sub i s) =? 0 then s_ver (get_sub i s) else ver0).
Proof. intros H. destruct (step_inval_shape cf s o g H) as [T SH]. cbv zeta.
  destruct (invalidateAll_shape g s) as (N & S1 & S2 & J).
  repeat split.
  - intros j. rewrite (shape_sysver _ _ SH), S2. destruct (sys_stage s <? g) eqn:E; b2p.
    + replace ((g <=? j) && (j <=? sys_stage s)) with false; auto. symmetry. apply andb_false_iff.
      destruct (g <=? j) eqn:E1; auto. b2p. right. apply Nat.leb_gt. lia.
    + apply getv_bump.
  - intros i Hi Hg j. destruct (shape_sub _ _ i SH) as [_ ->]. destruct (J i Hi) as [_ ->].
    unfold restored_ver. replace (g - 1 =? 0) with false by (symmetry; apply Nat.eqb_neq; lia).
    destruct (s_stage (get_sub i s) <=? g - 1) eqn:E; b2p.
    + replace ((g <=? j) && (j <=? s_stage (get_sub i s))) with false; auto. symmetry. apply andb_false_iff.
      destruct (g <=? j) eqn:E1; auto. b2p. right. apply Nat.leb_gt. lia.
    + replace (S (g-1)) with g by lia. apply getv_bump.
  - intros i Hi Hg. destruct (shape_sub _ _ i SH) as [_ ->]. destruct (J i Hi) as [_ ->].
    unfold restored_ver. replace (g-1) with 0 by lia. simpl.
    destruct (s_stage (get_sub i s)); auto. Qed.

(* ================================================================= refinement of the specification *)
(** For every state satisfying the (executable) invariants and every sequence of covered operations none of which is a
    deviation event ([legal_run]: every op is an allocation or a run-time op -- advance, upd*, setDiscreteVariable of a
    variable invalidating Time or later, mark / unmark, auto-update, getCacheEntry, invalidateAll(>= Time) -- marks happen
    at or above the depends-on stage, and, unless the repair is in, auto-update swaps no variable that has explicit
    dependents): thrown-or-not, all stages and the validity of every cache entry after every operation are exactly those
    of the specification, i.e. an entry reads valid iff stage >= computedBy, or stage >= dependsOn and it was marked after
    the last change of its depends-on stage and of every transitive prerequisite.
    Partial: operations backing the state up below Instance (allocation stacks are popped) and copies are not covered by
    this theorem (they are covered by the correspondence run and by the invariant check of every reached state). *)
Theorem valid_iff_spec_partial cf s l : wf_check s = true -> dyn_check s = true -> legal_run cf s l = true ->
  trace cf s l = gtrace (abs s) l /\ obs (run cf s l) = gobs (grun (abs s) l) /\
  forall k, isUpToDate (run cf s l) k = gvalid (grun (abs s) l) k.
Proof. intros W D L. destruct (run_refines cf l s (wf_check_sound s W) (dyn_check_sound s D) L) as (T & A & _ & _).
  split; [|split]; auto.
  - rewrite obs_abs, A; reflexivity.
  - intros k. rewrite <- A. symmetry. apply gvalid_abs. Qed.

(** the same for complete histories: from a freshly constructed State with any number of subsystems, through allocation
    and realization, for every covered operation sequence without deviation event *)
Theorem valid_iff_spec_from_empty_partial cf n l : legal_run cf (st0 n) l = true ->
  trace cf (st0 n) l = gtrace (abs (st0 n)) l /\ forall k, isUpToDate (run cf (st0 n) l) k = gvalid (grun (abs (st0 n)) l) k.
Proof. intros L. destruct (st0_inv n) as [W D]. destruct (run_refines cf l (st0 n) W D L) as (T & A & _ & _).
  split; auto. intros k. rewrite <- A. symmetry. apply gvalid_abs. Qed.

(** the single-step form, with the invariants as propositions: they are preserved, so the theorem iterates *)
Theorem step_refines_spec cf s o : WF s -> Dyn s -> covered s o = true -> legal cf s o = true ->
  abs (fst (step cf s o)) = fst (gstep (abs s) o) /\ snd (step cf s o) = snd (gstep (abs s) o) /\ WF (fst (step cf s o)) /\ Dyn (fst (step cf s o)).
Proof. exact (step_refines_all cf s o). Qed.

Definition cfg_now := mkCfg false false.
Definition cfg_fixed := mkCfg true true.
Definition adv (ss a b:nat) : list op := flat_map (fun g => [AdvSub ss g; AdvSys g]) (seq a (S b - a)).

(* non-vacuity: two subsystems, q/u/z, a chain q <- A <- B across subsystems, a discrete variable with a dependent, an
   auto-update variable without dependents, lazy and non-lazy entries; then 24 run-time operations *)
Definition ex_setup : list op :=
  [AllocQ 0 2; AllocU 0 1; AllocZ 1 1; AllocDV 0 7 5; AllocAutoDV 1 9 3 4; AllocCE 0 5 5; AllocCE 1 6 10;
   AllocCEPre 0 5 10 true false false [(0,0)] []; AdvSub 0 1; AdvSub 1 1; AdvSys 1;
   AllocCEPre 1 6 10 false true false [] [(0,1)]; AllocCEPre 1 8 9 false false true [(0,0)] [(1,2);(0,1)];
   AdvSub 0 2; AdvSub 1 2; AdvSys 2; AdvSub 0 3; AdvSub 1 3; AdvSys 3].
Definition ex_run : list op :=
  [AdvSub 0 4; AdvSub 1 4; AdvSys 4; AdvSub 0 5; AdvSub 1 5; AdvSys 5; Mark (0,1); SetCE (0,1) 7; AdvSub 0 6; AdvSub 1 6; AdvSys 6; Mark (1,2);
   Upd WU; GetCE (1,2); GetCE (0,1); SetDV (0,0) 9; AdvSub 1 6; Mark (1,2); Upd WQ; SetDVUpd (1,0) 8; MarkDVUpd (1,0); AutoUpdate; Unmark (0,1); Query].
Example valid_iff_spec_nonvacuous :
  let s := run cfg_now (st0 2) ex_setup in
  wf_check s = true /\ dyn_check s = true /\ legal_run cfg_now s ex_run = true /\ legal_run cfg_fixed s ex_run = true /\
  legal_run cfg_now (st0 2) (ex_setup ++ ex_run) = true /\ length (ex_setup ++ ex_run) = 43 /\
  map fst (trace cfg_now (st0 2) ex_setup) = repeat false 19 /\
  isUpToDate (run cfg_now s [AdvSub 0 4; AdvSub 1 4; AdvSys 4; AdvSub 0 5; AdvSub 1 5; AdvSys 5; Mark (0,1)]) (0,1) = true /\
  isUpToDate (run cfg_now s [AdvSub 0 4; AdvSub 1 4; AdvSys 4; AdvSub 0 5; AdvSub 1 5; AdvSys 5; Mark (0,1); Upd WQ; AdvSub 0 5; AdvSub 1 5; AdvSys 5]) (0,1) = false.
Proof. vm_compute. repeat split. Qed.

(* ================================================================= the three deviations of the code as it is *)
Definition w_auto : list op :=
  [AllocAutoDV 0 9 5 4] ++ adv 0 1 1 ++ [AllocCEPre 0 4 10 false false false [(0,0)] []] ++ adv 0 2 4 ++
  [SetCE (0,1) 10; Mark (0,1); SetDVUpd (0,0) 7; MarkDVUpd (0,0); AutoUpdate].
(** DESIGN 7.8: after the auto-update the variable is 7 (was 5) with an unchanged value version, and the cache entry that
    lists it as explicit prerequisite (computed from 5) still reads valid; the specification says invalid. *)
Theorem valid_iff_spec_refuted_autoupdate :
  exists l k dk, let s0 := run cfg_now (st0 1) (removelast l) in let s := run cfg_now (st0 1) l in
    last l Query = AutoUpdate /\
    isUpToDate s k = true /\ gvalid (grun (abs (st0 1)) l) k = false /\
    d_val (get_dv dk s0) <> d_val (get_dv dk s) /\ d_valver (get_dv dk s0) = d_valver (get_dv dk s) /\ In dk (c_dvs (get_ce k s)).
Proof. exists w_auto, (0,1), (0,0). vm_compute. repeat split; auto. discriminate. Qed.
(** with the repair (patches/C18_autoupdate_notify.diff) the same sequence follows the specification *)
Example autoupdate_fixed_agrees :
  let s0 := run cfg_fixed (st0 1) (removelast w_auto) in let s := run cfg_fixed (st0 1) w_auto in
  isUpToDate s (0,1) = false /\ trace cfg_fixed (st0 1) w_auto = gtrace (abs (st0 1)) w_auto /\ d_valver (get_dv (0,0) s) = S (d_valver (get_dv (0,0) s0)).
Proof. vm_compute. repeat split. Qed.

Definition w_markahead : list op := [AllocZ 0 1; AllocCE 0 7 10] ++ adv 0 1 6 ++ [Mark (0,0); Upd WZ] ++ adv 0 7 7.
(** a lazy Dynamics entry marked at stage Velocity (accepted by markCacheValueRealized), then z changes, then Dynamics is
    realized: the entry reads valid although it was marked before the last change of its depends-on stage *)
Theorem valid_iff_spec_refuted_markahead :
  exists l k, isUpToDate (run cfg_now (st0 1) l) k = true /\ gvalid (grun (abs (st0 1)) l) k = false /\
              isUpToDate (run cfg_fixed (st0 1) l) k = true.
Proof. exists w_markahead, (0,0). vm_compute. repeat split. Qed.

Definition w_copy : list wop :=
  map (On 0) ([AllocQ 0 1; AllocCE 0 5 10] ++ adv 0 1 5 ++ [SetCE (0,0) 10; Mark (0,0); Upd WQ]) ++ [CopyC 1 0] ++ map (On 1) (adv 0 4 5).
(** mark at Position, updQ (entry invalid in the source), copy, realize the copy to Position: the copied entry reads valid
    without having been recomputed, because the copy's Position stage version restarted at 1 *)
Theorem valid_iff_spec_refuted_copy :
  exists l k, isUpToDate (nth 1 (wrun cfg_now [st0 1; st0 1] l) (st0 0)) k = true /\
              isUpToDate (nth 0 (wrun cfg_now [st0 1; st0 1] (l ++ map (On 0) (adv 0 5 5))) (st0 0)) k = false /\
              gvalid (nth 1 (gwrun [abs (st0 1); abs (st0 1)] l) (mkG 0 [])) k = false.
Proof. exists w_copy, (0,0). vm_compute. repeat split. Qed.
(** with the repair (patches/C18_copy_stage_versions.diff) the copy follows the specification on this sequence *)
Example copy_fixed_agrees :
  isUpToDate (nth 1 (wrun cfg_fixed [st0 1; st0 1] w_copy) (st0 0)) (0,0) = false /\
  map abs (wrun cfg_fixed [st0 1; st0 1] w_copy) = gwrun [abs (st0 1); abs (st0 1)] w_copy.
Proof. vm_compute. repeat split. Qed.

(* ================================================================= value versions, values *)
(** Value versions (q, u, z, every discrete variable, every cache entry) never decrease under a run-time operation;
    setDiscreteVariable writes the value and bumps the variable's value version by exactly one; updQ/updU/updZ/updY bump
    exactly the versions of what they hand out (updTime none), and so do the per-subsystem accessors updQ/updU/updZ(subsys)
    (the per-subsystem weight accessors none). *)
Theorem value_versions_monotone_and_change_on_upd cf s : WF s ->
  (forall o, runtime s o = true -> le_vals s (fst (step cf s o))) /\
  (forall k v, runtime s (SetDV k v) = true -> has_sub s (fst k) && has_dv s k = true ->
      d_val (get_dv k (fst (step cf s (SetDV k v)))) = v /\ d_valver (get_dv k (fst (step cf s (SetDV k v)))) = S (d_valver (get_dv k s))) /\
  qvs (fst (step cf s (Upd WQ))) = (S (qv s), uv s, zv s) /\ qvs (fst (step cf s (Upd WU))) = (qv s, S (uv s), zv s) /\
  qvs (fst (step cf s (Upd WZ))) = (qv s, uv s, S (zv s)) /\ qvs (fst (step cf s (Upd WY))) = (S (qv s), S (uv s), S (zv s)) /\
  qvs (fst (step cf s (Upd WT))) = qvs s /\
  (forall ss, has_sub s ss = true ->
      qvs (fst (step cf s (UpdSub WQ ss))) = (S (qv s), uv s, zv s) /\ qvs (fst (step cf s (UpdSub WU ss))) = (qv s, S (uv s), zv s) /\
      qvs (fst (step cf s (UpdSub WZ ss))) = (qv s, uv s, S (zv s)) /\
      (forall w, w = WUW \/ w = WZW \/ w = WQEW \/ w = WUEW -> qvs (fst (step cf s (UpdSub w ss))) = qvs s)).
Proof. intros W. split; [|split].
  - intros o R. apply step_le_vals; auto.
  - intros k v R H. apply step_setdv; auto.
  - destruct (step_upd_versions cf s W) as (A & B & C & D & E). repeat (split; auto).
    all: destruct (step_updsub_versions cf s ss W H) as (A' & B' & C' & D'); auto. Qed.

(** Auto-update variables swap only on request: no run-time operation other than autoUpdateDiscreteVariables and
    setDiscreteVariable of that very variable changes a discrete variable (value or value version); one auto-update turn
    swaps variable and update value exactly when the update value is up to date, and does nothing otherwise. *)
Theorem autoupdate_swaps_only_on_request cf s : WF s ->
  (forall o dk, runtime s o = true -> o <> AutoUpdate -> (forall v, o <> SetDV dk v) -> get_dv dk (fst (step cf s o)) = get_dv dk s) /\
  (forall dk cx, d_auto (get_dv dk s) = Some cx -> has_dv s dk = true -> has_ce s (fst dk, cx) = true ->
      let s' := auto_one cf s dk in
      (isUpToDate s (fst dk,cx) = true -> d_val (get_dv dk s') = c_val (get_ce (fst dk,cx) s) /\ c_val (get_ce (fst dk,cx) s') = d_val (get_dv dk s)) /\
      (isUpToDate s (fst dk,cx) = false -> s' = s)).
Proof. intros W. split.
  - intros o dk R NA NS. apply step_dv_frame; auto.
  - intros dk cx. apply auto_one_swap. Qed.

(** Copies are independent: an operation on one State object leaves every other State object of the world unchanged
    (the model is a value; that the implementation shares nothing is what the correspondence run compares, including
    the untouched objects at the end of every sequence). *)
Theorem copy_deep_independent cf w i o j : j <> i -> nth j (fst (wstep cf w (On i o))) (st0 0) = nth j w (st0 0).
Proof. intros H. cbn [wstep]. destruct (i <? length w); auto. destruct (step cf (nth i w (st0 0)) o). cbn [fst]. unfold set_slot.
  rewrite nth_upd_nth. replace (j =? i) with false by (symmetry; apply Nat.eqb_neq; auto). reflexivity. Qed.
Fact copy_st_shape cf src :
  sys_stage (copy_st cf src) = Nat.min (sys_stage src) 3 /\ nsubs (copy_st cf src) = nsubs src /\
  forall i, i < nsubs src -> s_stage (get_sub i (copy_st cf src)) = Nat.min (s_stage (get_sub i src)) 3.
Proof. unfold copy_st, copy_from. cbv zeta.
  match goal with |- context [fold_left register ?l ?t] => pose proof (shape_fold register l t shape_register) as SH; set (T := t) in * end.
  split; [|split].
  - rewrite (shape_stage _ _ SH). reflexivity.
  - rewrite (shape_nsubs _ _ SH). unfold nsubs, T; simpl. apply map_length.
  - intros i Hi. destruct (shape_sub _ _ i SH) as [-> _]. unfold T, get_sub; simpl.
    rewrite (nth_indep _ dS (copy_sub cf dS)) by (rewrite map_length; exact Hi). rewrite map_nth. reflexivity. Qed.

(** a copy-constructed State leaves its source unchanged and is realized through min(stage, Instance), system and subsystems *)
Theorem copy_stage_rule cf w d s_ : d < length w -> s_ < length w -> d <> s_ ->
  let w' := fst (wstep cf w (CopyC d s_)) in let src := nth s_ w (st0 0) in let c := nth d w' (st0 0) in
  nth s_ w' (st0 0) = src /\ sys_stage c = Nat.min (sys_stage src) 3 /\ nsubs c = nsubs src /\
  forall i, i < nsubs src -> s_stage (get_sub i c) = Nat.min (s_stage (get_sub i src)) 3.
Proof. intros Hd Hs Hn. cbn [wstep]. replace (d <? length w) with true by (symmetry; apply Nat.ltb_lt; auto).
  replace (s_ <? length w) with true by (symmetry; apply Nat.ltb_lt; auto). cbn [andb fst]. unfold set_slot. cbv zeta.
  rewrite !nth_upd_nth. replace (s_ =? d) with false by (symmetry; apply Nat.eqb_neq; auto). rewrite Nat.eqb_refl.
  replace (d <? length w) with true by (symmetry; apply Nat.ltb_lt; auto). cbn [andb].
  destruct (copy_st_shape cf (nth s_ w (st0 0))) as (A & B & C). auto. Qed.
