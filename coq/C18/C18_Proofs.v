(** C18: theorems about the model C18_Model.v.  [Theorem]/[Example] = property statements (listed in
    Props/Properties_C18.v), [Fact] = helpers. *)
From Coq Require Import List Arith Bool PeanoNat Lia.
Require Import C18_Model C18_Basics.
Import ListNotations.

(** the stage an operation invalidates, if it is a "variable change" *)
Definition inval_of (s:st) (o:op) : option stage :=
  match o with
  | Upd w => Some (w_stage w)
  | SetDV k _ => if has_sub s (fst k) && has_dv s k then Some (d_inval (get_dv k s)) else None
  | InvalidateAll g => if (1 <=? g) && (g <=? 10) then Some g else None
  | InvalidateCache g => if (3 <=? g) && (g <=? 10) then Some g else None
  | _ => None
  end.

Fact shape_set_qv s v : shape (set_qv s v) = shape s. Proof. reflexivity. Qed.
Fact shape_noteQ s : shape (noteQ s) = shape s. Proof. unfold noteQ. rewrite shape_notify; reflexivity. Qed.
Fact shape_noteU s : shape (noteU s) = shape s. Proof. unfold noteU. rewrite shape_notify; reflexivity. Qed.
Fact shape_noteZ s : shape (noteZ s) = shape s. Proof. unfold noteZ. rewrite shape_notify; reflexivity. Qed.

Fact step_inval_shape cf s o g : inval_of s o = Some g ->
  snd (step cf s o) = false /\ shape (fst (step cf s o)) = shape (invalidateAll g s).
Proof. destruct o; cbn [inval_of]; try discriminate; unfold step.
  - destruct ((1 <=? g0) && (g0 <=? 10)) eqn:E; try discriminate. intros H; inversion H; subst. cbn [negb snd fst ok]; auto.
  - destruct ((3 <=? g0) && (g0 <=? 10)) eqn:E; try discriminate. intros H; inversion H; subst. b2p.
    replace ((1 <=? g) && (g <=? 10)) with true by (symmetry; apply andb_true_iff; split; [apply Nat.leb_le|apply Nat.leb_le]; lia).
    replace (g <? 3) with false by (symmetry; apply Nat.ltb_ge; lia). cbn [negb snd fst ok]; auto.
  - intros H; inversion H; subst. split; auto. cbn [fst ok].
    destruct w; auto using shape_noteQ, shape_noteU, shape_noteZ, shape_noteY.
  - destruct (has_sub s (fst k) && has_dv s k) eqn:E; try discriminate. intros H; inversion H; subst. cbn [negb snd fst ok]. split; auto.
    rewrite shape_notify, shape_upd_dv. destruct (d_auto (get_dv k s)); auto using shape_inval_ce. Qed.

(** Changing a variable lowers the realized stage of the system and of every subsystem to
    min(current, invalidated stage - 1); the call does not throw and the number of subsystems is unchanged.
    Holds in every state, hence after every operation sequence. *)
Theorem upd_lowers_all_stages cf s o g : inval_of s o = Some g ->
  let s' := fst (step cf s o) in
  snd (step cf s o) = false /\ nsubs s' = nsubs s /\
  sys_stage s' = Nat.min (sys_stage s) (g-1) /\
  forall i, i < nsubs s -> s_stage (get_sub i s') = Nat.min (s_stage (get_sub i s)) (g-1).
Proof. intros H. destruct (step_inval_shape cf s o g H) as [T SH]. cbv zeta.
  destruct (invalidateAll_shape g s) as (N & S1 & S2 & J).
  repeat split; auto.
  - rewrite (shape_nsubs _ _ SH); auto.
  - rewrite (shape_stage _ _ SH); auto.
  - intros i Hi. destruct (shape_sub _ _ i SH) as [-> _]. apply J; auto. Qed.

(** Stage versions are bumped exactly for the invalidated stages: system version j changes (by +1) iff
    g <= j <= old system stage; subsystem version j changes (by +1) iff g <= j <= old subsystem stage, for g > Topology.
    Invalidating Topology re-initializes a realized subsystem: all its versions return to 1 (all its allocations are dropped). *)
Theorem versions_bump_exactly_invalidated_stages cf s o g : inval_of s o = Some g ->
  let s' := fst (step cf s o) in
  (forall j, getv (sys_ver s') j = if (g <=? j) && (j <=? sys_stage s) && (j <? length (sys_ver s)) then S (getv (sys_ver s) j) else getv (sys_ver s) j) /\
  (forall i, i < nsubs s -> 2 <= g -> forall j,
      getv (s_ver (get_sub i s')) j =
      if (g <=? j) && (j <=? s_stage (get_sub i s)) && (j <? length (s_ver (get_sub i s))) then S (getv (s_ver (get_sub i s)) j) else getv (s_ver (get_sub i s)) j) /\
  (forall i, i < nsubs s -> g <= 1 -> s_ver (get_sub i s') = if s_stage (get_sub i s) =? 0 then s_ver (get_sub i s) else ver0).
Proof. intros H. destruct (step_inval_shape cf s o g H) as [T SH]. cbv zeta.
  destruct (invalidateAll_shape g s) as (N & S1 & S2 & J).
  repeat split.
  - intros j. rewrite (shape_sysver _ _ SH), S2. destruct (sys_stage s <? g) eqn:E; b2p.
    + replace ((g <=? j) && (j <=? sys_stage s)) with false; auto. symmetry. apply andb_false_iff.
      destruct (g <=? j) eqn:E1; auto. b2p. right. apply Nat.leb_gt. lia.
    + apply getv_bump.
  - intros i Hi Hg j. destruct (shape_sub _ _ i SH) as [_ ->]. destruct (J i Hi) as [_ ->].
    unfold restored_ver. replace (g - 1 =? 0) with false by (symmetry; apply Nat.eqb_neq; lia).
    destruct (s_stage (get_sub i s) <=? g - 1) eqn:E; b2p.
    + replace ((g <=? j) && (j <=? s_stage (get_sub i s))) with false; auto. symmetry. apply andb_false_iff.
      destruct (g <=? j) eqn:E1; auto. b2p. right. apply Nat.leb_gt. lia.
    + replace (S (g-1)) with g by lia. apply getv_bump.
  - intros i Hi Hg. destruct (shape_sub _ _ i SH) as [_ ->]. destruct (J i Hi) as [_ ->].
    unfold restored_ver. replace (g-1) with 0 by lia. simpl.
    destruct (s_stage (get_sub i s)); auto. Qed.
