(** C18: refinement of the specification C18_Spec.v by the model C18_Model.v (helpers; the property
    statements that use them are in C18_Proofs2.v). *)
From Coq Require Import List Arith Bool PeanoNat Lia.
Require Import C18_Model C18_Basics C18_Spec.
Import ListNotations.

(* ================================================================= generic list facts *)
Fact nth_map_d {A B} (f:A->B) l i d : nth i (map f l) (f d) = f (nth i l d).
Proof. apply map_nth. Qed.
Fact upd_nth_same {A} i (f:A->A) l d : f (nth i l d) = nth i l d -> upd_nth i f l = l.
Proof. revert i; induction l; intros [|i] H; simpl in *; auto; f_equal; auto. Qed.
Fact map_upd_nth_comm {A B} (g:A->B) i (f:A->A) (f':B->B) l : (forall x, g (f x) = f' (g x)) -> map g (upd_nth i f l) = upd_nth i f' (map g l).
Proof. intros H; revert i; induction l; intros [|i]; simpl; auto; f_equal; auto. Qed.
Fact nth_mapi_from0 {A B} (f:nat->A->B) l j d d' : j < length l -> nth j (mapi_from f 0 l) d' = f j (nth j l d).
Proof. intros H. rewrite (nth_mapi_from f 0 l j d d') by auto. reflexivity. Qed.
Fact list_ext {A} (l l':list A) d : length l = length l' -> (forall i, i < length l -> nth i l d = nth i l' d) -> l = l'.
Proof. intros H1 H2. apply (nth_ext l l' d d); auto. Qed.
Fact keep_to_all {A} (al:A->stage) gp l : (forall x, In x l -> al x <= gp) -> keep_to al gp l = l.
Proof. induction l; simpl; auto. intros H. rewrite IHl by auto. destruct l.
  - replace (gp <? al a) with false; auto. symmetry; apply Nat.ltb_ge; auto.
  - reflexivity. Qed.
Fact existsb_ext_in {A} (f g:A->bool) l : (forall x, In x l -> f x = g x) -> existsb f l = existsb g l.
Proof. induction l; simpl; auto. intros H. rewrite H, IHl; auto. Qed.

(* ================================================================= "rest": everything that is not stage / stage version *)
Definition rest_sub (b:subsys) := (s_qs b, s_us b, s_zs b, s_dvs b, s_ces b).
Definition rest (s:st) := (qv s, uv s, zv s, qd s, ud s, zd s, (nq s, nu s, nz s), map rest_sub (subs s)).

Fact rest_sub_eq s s' i : rest s = rest s' -> rest_sub (get_sub i s) = rest_sub (get_sub i s').
Proof. unfold rest, get_sub. intros H. assert (H1: map rest_sub (subs s) = map rest_sub (subs s')) by congruence.
  assert (E: nth i (map rest_sub (subs s)) (rest_sub dS) = nth i (map rest_sub (subs s')) (rest_sub dS)) by (rewrite H1; auto).
  rewrite !nth_map_d in E. auto. Qed.
Fact rest_get_ce s s' k : rest s = rest s' -> get_ce k s = get_ce k s'.
Proof. intros H. unfold get_ce. pose proof (rest_sub_eq s s' (fst k) H) as E. unfold rest_sub in E. inversion E. congruence. Qed.
Fact rest_get_dv s s' k : rest s = rest s' -> get_dv k s = get_dv k s'.
Proof. intros H. unfold get_dv. pose proof (rest_sub_eq s s' (fst k) H) as E. unfold rest_sub in E. inversion E. congruence. Qed.
Fact rest_ces s s' i : rest s = rest s' -> s_ces (get_sub i s) = s_ces (get_sub i s').
Proof. intros H. pose proof (rest_sub_eq s s' i H) as E. unfold rest_sub in E. inversion E. congruence. Qed.
Fact rest_dvs s s' i : rest s = rest s' -> s_dvs (get_sub i s) = s_dvs (get_sub i s').
Proof. intros H. pose proof (rest_sub_eq s s' i H) as E. unfold rest_sub in E. inversion E. congruence. Qed.

(* a state is determined by its shape and its rest *)
Fact sub_eta b : mkS (s_stage b) (s_ver b) (s_qs b) (s_us b) (s_zs b) (s_dvs b) (s_ces b) = b. Proof. destruct b; auto. Qed.
Fact shape_rest_eq s s' : shape s = shape s' -> rest s = rest s' -> s = s'.
Proof. destruct s as [a1 a2 a3 a4 a5 a6 a7 a8 a9 a10 a11 l], s' as [b1 b2 b3 b4 b5 b6 b7 b8 b9 b10 b11 l']. unfold shape, rest; simpl. intros H1 H2.
  assert (E1: map (fun b => (s_stage b, s_ver b)) l = map (fun b => (s_stage b, s_ver b)) l') by congruence.
  assert (E2: map rest_sub l = map rest_sub l') by congruence.
  assert (l = l'). { clear H1 H2. revert l' E1 E2. induction l; destruct l'; simpl; intros; try discriminate; auto.
     inversion E1; inversion E2. f_equal; auto. destruct a, s; unfold rest_sub in *; simpl in *; congruence. }
  subst. f_equal; congruence. Qed.

(* ================================================================= get / upd on cache entries and variables *)
Fact get_sub_out i s : nsubs s <= i -> get_sub i s = dS.
Proof. intros; unfold get_sub; apply nth_overflow; auto. Qed.
Fact has_ce_sub s k : has_ce s k = true -> fst k < nsubs s.
Proof. unfold has_ce. intros H. b2p. destruct (Nat.lt_ge_cases (fst k) (nsubs s)); auto. rewrite get_sub_out in H by auto. simpl in H; lia. Qed.
Fact has_dv_sub s k : has_dv s k = true -> fst k < nsubs s.
Proof. unfold has_dv. intros H. b2p. destruct (Nat.lt_ge_cases (fst k) (nsubs s)); auto. rewrite get_sub_out in H by auto. simpl in H; lia. Qed.

Fact get_ce_upd_ce k k' f s : get_ce k (upd_ce k' f s) = if key_eqb k k' && has_ce s k then f (get_ce k s) else get_ce k s.
Proof. unfold get_ce, upd_ce. rewrite get_sub_upd_sub. unfold key_eqb, has_ce.
  destruct (fst k =? fst k') eqn:E1; simpl; auto. b2p. rewrite <- E1.
  destruct (fst k <? nsubs s) eqn:E2; simpl.
  - rewrite nth_upd_nth. destruct (snd k =? snd k') eqn:E3; simpl; auto. b2p. rewrite <- E3. auto.
  - b2p. rewrite get_sub_out by auto. simpl. destruct (snd k); rewrite andb_false_r; auto. Qed.
Fact get_dv_upd_ce k k' f s : get_dv k (upd_ce k' f s) = get_dv k s.
Proof. unfold get_dv, upd_ce. rewrite get_sub_upd_sub. dest_if; auto. Qed.
Fact get_ce_upd_dv k k' f s : get_ce k (upd_dv k' f s) = get_ce k s.
Proof. unfold get_ce, upd_dv. rewrite get_sub_upd_sub. dest_if; auto. Qed.
Fact get_dv_upd_dv k k' f s : get_dv k (upd_dv k' f s) = if key_eqb k k' && has_dv s k then f (get_dv k s) else get_dv k s.
Proof. unfold get_dv, upd_dv. rewrite get_sub_upd_sub. unfold key_eqb, has_dv.
  destruct (fst k =? fst k') eqn:E1; simpl; auto. b2p. rewrite <- E1.
  destruct (fst k <? nsubs s) eqn:E2; simpl.
  - rewrite nth_upd_nth. destruct (snd k =? snd k') eqn:E3; simpl; auto. b2p. rewrite <- E3. auto.
  - b2p. rewrite get_sub_out by auto. simpl. destruct (snd k); rewrite andb_false_r; auto. Qed.
Fact len_ces_upd_ce i k f s : length (s_ces (get_sub i (upd_ce k f s))) = length (s_ces (get_sub i s)).
Proof. unfold upd_ce. rewrite get_sub_upd_sub. dest_if; auto. simpl. apply upd_nth_length. Qed.
Fact len_dvs_upd_dv i k f s : length (s_dvs (get_sub i (upd_dv k f s))) = length (s_dvs (get_sub i s)).
Proof. unfold upd_dv. rewrite get_sub_upd_sub. dest_if; auto. simpl. apply upd_nth_length. Qed.
Fact dvs_upd_ce i k f s : s_dvs (get_sub i (upd_ce k f s)) = s_dvs (get_sub i s).
Proof. unfold upd_ce. rewrite get_sub_upd_sub. dest_if; auto. Qed.
Fact ces_upd_dv i k f s : s_ces (get_sub i (upd_dv k f s)) = s_ces (get_sub i s).
Proof. unfold upd_dv. rewrite get_sub_upd_sub. dest_if; auto. Qed.

(* ================================================================= abs commutes with access *)
Fact abs_dC v : abs_ce v dC = gC0. Proof. reflexivity. Qed.
Fact gget_sub_abs i s : gget_sub i (abs s) = abs_sub (get_sub i s).
Proof. unfold gget_sub, get_sub, abs; simpl. change gS0 with (abs_sub dS). apply nth_map_d. Qed.
Fact gget_ce_abs k s : gget_ce k (abs s) = abs_ce (s_ver (get_sub (fst k) s)) (get_ce k s).
Proof. unfold gget_ce, get_ce. rewrite gget_sub_abs. simpl. rewrite <- (abs_dC (s_ver (get_sub (fst k) s))). apply nth_map_d. Qed.
Fact gget_dv_abs k s : gget_dv k (abs s) = abs_dv (get_dv k s).
Proof. unfold gget_dv, get_dv. rewrite gget_sub_abs. simpl. change gD0 with (abs_dv dD). apply nth_map_d. Qed.
Fact ghas_sub_abs s i : ghas_sub (abs s) i = has_sub s i. Proof. unfold ghas_sub, has_sub, abs; simpl. rewrite map_length; auto. Qed.
Fact ghas_ce_abs s k : ghas_ce (abs s) k = has_ce s k. Proof. unfold ghas_ce, has_ce. rewrite gget_sub_abs; simpl. rewrite map_length; auto. Qed.
Fact ghas_dv_abs s k : ghas_dv (abs s) k = has_dv s k. Proof. unfold ghas_dv, has_dv. rewrite gget_sub_abs; simpl. rewrite map_length; auto. Qed.
Fact gnum_ces_abs s : gnum_ces (abs s) = num_ces s.
Proof. unfold gnum_ces, num_ces, abs; simpl. induction (subs s); simpl; auto. rewrite map_length, IHl; auto. Qed.
Fact gvalid_abs s k : gvalid (abs s) k = isUpToDate s k.
Proof. unfold gvalid, isUpToDate. rewrite gget_sub_abs, gget_ce_abs. simpl.
  destruct (c_by (get_ce k s) <=? s_stage (get_sub (fst k) s)) eqn:E1; simpl; auto.
  rewrite Nat.ltb_antisym. destruct (c_dep (get_ce k s) <=? s_stage (get_sub (fst k) s)); simpl; auto. apply andb_comm. Qed.

(** observations of the model = observations of its abstraction *)
Fact obs_abs s : obs s = gobs (abs s).
Proof. unfold obs, gobs. f_equal. unfold abs; simpl.
  assert (G: forall l n, mapi_from (fun i b => (s_stage b, map (fun j => isUpToDate s (i,j)) (seq 0 (length (s_ces b))))) n l =
                         mapi_from (fun i b => (gs_stage b, map (fun j => gvalid (abs s) (i,j)) (seq 0 (length (gs_ces b))))) n (map abs_sub l)).
  { induction l; simpl; auto. intros n. rewrite IHl. f_equal. rewrite map_length. f_equal. apply map_ext. intros; symmetry; apply gvalid_abs. }
  apply G. Qed.

(* extensionality for specification states *)
Fact gsub_eta b : mkGS (gs_stage b) (gs_dvs b) (gs_ces b) = b. Proof. destruct b; auto. Qed.
Fact gst_ext G G' : g_sys G = g_sys G' -> length (g_subs G) = length (g_subs G') ->
  (forall i, i < length (g_subs G) -> gs_stage (gget_sub i G) = gs_stage (gget_sub i G') /\ gs_dvs (gget_sub i G) = gs_dvs (gget_sub i G') /\
                                      length (gs_ces (gget_sub i G)) = length (gs_ces (gget_sub i G')) /\
                                      forall j, j < length (gs_ces (gget_sub i G)) -> gget_ce (i,j) G = gget_ce (i,j) G') -> G = G'.
Proof. destruct G as [y l], G' as [y' l']; simpl. intros -> HL H. f_equal. apply (list_ext _ _ gS0); auto.
  intros i Hi. destruct (H i Hi) as (A & B & C & D). unfold gget_ce, gget_sub in *; simpl in *.
  destruct (nth i l gS0) as [a1 a2 a3], (nth i l' gS0) as [b1 b2 b3]; simpl in *. subst. f_equal.
  apply (list_ext _ _ gC0); auto. Qed.

(* ================================================================= skeleton: what no run-time operation changes *)
Definition sk_ce (c:cent) := (c_alloc c, c_dep c, c_by c, (c_q c, c_u c, c_z c), c_dvs c, c_ces c, c_deps c, c_assoc c).
Definition sk_dv (d:dvar) := (d_alloc d, d_inval d, d_auto d, d_deps d).
Definition sk_sub (b:subsys) := (s_qs b, s_us b, s_zs b, map sk_dv (s_dvs b), map sk_ce (s_ces b)).
Definition sk (s:st) := (qd s, ud s, zd s, map sk_sub (subs s)).
Definition flags (k:key) (s:st) := (c_verWhen (get_ce k s), c_ok (get_ce k s)).

Fact sk_sub_eq s s' i : sk s = sk s' -> sk_sub (get_sub i s) = sk_sub (get_sub i s').
Proof. unfold sk, get_sub. intros H. assert (H1: map sk_sub (subs s) = map sk_sub (subs s')) by congruence.
  assert (E: nth i (map sk_sub (subs s)) (sk_sub dS) = nth i (map sk_sub (subs s')) (sk_sub dS)) by (rewrite H1; auto).
  rewrite !nth_map_d in E. auto. Qed.
Fact sk_get_ce s s' k : sk s = sk s' -> sk_ce (get_ce k s) = sk_ce (get_ce k s').
Proof. intros H. pose proof (sk_sub_eq s s' (fst k) H) as E. unfold sk_sub in E.
  assert (E1: map sk_ce (s_ces (get_sub (fst k) s)) = map sk_ce (s_ces (get_sub (fst k) s'))) by congruence.
  unfold get_ce. rewrite <- !(nth_map_d sk_ce). rewrite E1; auto. Qed.
Fact sk_get_dv s s' k : sk s = sk s' -> sk_dv (get_dv k s) = sk_dv (get_dv k s').
Proof. intros H. pose proof (sk_sub_eq s s' (fst k) H) as E. unfold sk_sub in E.
  assert (E1: map sk_dv (s_dvs (get_sub (fst k) s)) = map sk_dv (s_dvs (get_sub (fst k) s'))) by congruence.
  unfold get_dv. rewrite <- !(nth_map_d sk_dv). rewrite E1; auto. Qed.
Fact sk_len_ces s s' i : sk s = sk s' -> length (s_ces (get_sub i s)) = length (s_ces (get_sub i s')).
Proof. intros H. pose proof (sk_sub_eq s s' i H) as E. unfold sk_sub in E.
  assert (E1: map sk_ce (s_ces (get_sub i s)) = map sk_ce (s_ces (get_sub i s'))) by congruence.
  rewrite <- (map_length sk_ce), E1, map_length; auto. Qed.
Fact sk_len_dvs s s' i : sk s = sk s' -> length (s_dvs (get_sub i s)) = length (s_dvs (get_sub i s')).
Proof. intros H. pose proof (sk_sub_eq s s' i H) as E. unfold sk_sub in E.
  assert (E1: map sk_dv (s_dvs (get_sub i s)) = map sk_dv (s_dvs (get_sub i s'))) by congruence.
  rewrite <- (map_length sk_dv), E1, map_length; auto. Qed.
Fact sk_nsubs s s' : sk s = sk s' -> nsubs s = nsubs s'.
Proof. unfold sk, nsubs. intros H. assert (H1: map sk_sub (subs s) = map sk_sub (subs s')) by congruence.
  rewrite <- (map_length sk_sub), H1, map_length; auto. Qed.
Fact sk_has_ce s s' k : sk s = sk s' -> has_ce s k = has_ce s' k.
Proof. intros H. unfold has_ce. rewrite (sk_len_ces s s' _ H); auto. Qed.
Fact sk_has_dv s s' k : sk s = sk s' -> has_dv s k = has_dv s' k.
Proof. intros H. unfold has_dv. rewrite (sk_len_dvs s s' _ H); auto. Qed.
Fact sk_deps s s' k : sk s = sk s' -> c_deps (get_ce k s) = c_deps (get_ce k s').
Proof. intros H. pose proof (sk_get_ce s s' k H) as E. unfold sk_ce in E. congruence. Qed.
Fact sk_num_ces s s' : sk s = sk s' -> num_ces s = num_ces s'.
Proof. unfold sk, num_ces. intros H. assert (H1: map sk_sub (subs s) = map sk_sub (subs s')) by congruence. clear H.
  revert H1. generalize (subs s') as l2. generalize (subs s) as l1. induction l1 as [|a l1 IH]; destruct l2 as [|b l2]; simpl; intros; try discriminate; auto.
  assert (E: map sk_ce (s_ces a) = map sk_ce (s_ces b)) by (unfold sk_sub in H1; congruence).
  rewrite (IH l2) by congruence. f_equal. rewrite <- (map_length sk_ce (s_ces a)), E, map_length; auto. Qed.

Fact sk_upd_sub i f s : (forall b, sk_sub (f b) = sk_sub b) -> sk (upd_sub i f s) = sk s.
Proof. intros H. unfold sk, upd_sub; simpl. f_equal. apply map_upd_nth; auto. Qed.
Fact sk_upd_ce k f s : (forall c, sk_ce (f c) = sk_ce c) -> sk (upd_ce k f s) = sk s.
Proof. intros H. apply sk_upd_sub. intros b. unfold sk_sub; simpl. f_equal. apply map_upd_nth; auto. Qed.
Fact sk_upd_dv k f s : (forall d, sk_dv (f d) = sk_dv d) -> sk (upd_dv k f s) = sk s.
Proof. intros H. apply sk_upd_sub. intros b. unfold sk_sub; simpl. f_equal. f_equal. apply map_upd_nth; auto. Qed.
Fact sk_fold {A} (F:st->A->st) l s : (forall s a, sk (F s a) = sk s) -> sk (fold_left F l s) = sk s.
Proof. intros H; revert s; induction l; simpl; auto. intros; rewrite IHl; auto. Qed.
Fact sk_inval_ce n k s : sk (inval_ce n k s) = sk s.
Proof. revert k s; induction n; simpl; auto. intros. rewrite sk_fold; auto. apply sk_upd_ce. reflexivity. Qed.
Fact sk_notify l s : sk (notify l s) = sk s.
Proof. unfold notify. apply sk_fold. intros; apply sk_inval_ce. Qed.

Fact get_ce_nohas s k : has_ce s k = false -> get_ce k s = dC.
Proof. unfold has_ce, get_ce. intros H. b2p. apply nth_overflow; auto. Qed.
Fact get_dv_nohas s k : has_dv s k = false -> get_dv k s = dD.
Proof. unfold has_dv, get_dv. intros H. b2p. apply nth_overflow; auto. Qed.

(* forward reachability through the dependents lists, bounded depth *)
Fixpoint reachF (n:nat) (s:st) (k E:key) : bool :=
  match n with 0 => false | S m => key_eqb E k || existsb (fun d => reachF m s d E) (c_deps (get_ce k s)) end.
Fact reachF_sk n s s' k E : sk s = sk s' -> reachF n s k E = reachF n s' k E.
Proof. intros H. revert k. induction n; simpl; auto. intros k. rewrite (sk_deps s s' k H). f_equal. apply existsb_ext_in. auto. Qed.

Fact flags_invalidate s k E : flags E (upd_ce k c_invalidate s) = if key_eqb E k then (0,false) else flags E s.
Proof. unfold flags. rewrite get_ce_upd_ce. destruct (key_eqb E k) eqn:E1; simpl; auto.
  destruct (has_ce s E) eqn:E2; auto. rewrite (get_ce_nohas s E E2). reflexivity. Qed.

Fact inval_ce_flags n s k E : flags E (inval_ce n k s) = if reachF n s k E then (0,false) else flags E s.
Proof. revert s k. induction n; intros s k; simpl; auto.
  assert (AUX: forall ds t, sk t = sk s ->
     flags E (fold_left (fun s' d => inval_ce n d s') ds t) = if existsb (fun d => reachF n s d E) ds then (0,false) else flags E t).
  { induction ds; simpl; intros t Ht; auto.
    rewrite IHds by (rewrite sk_inval_ce; auto). rewrite IHn. rewrite (reachF_sk n t s a E Ht).
    destruct (reachF n s a E); simpl; auto. destruct (existsb _ ds); auto. }
  rewrite AUX by (apply sk_upd_ce; reflexivity). rewrite flags_invalidate.
  destruct (key_eqb E k); simpl; auto. destruct (existsb _ _); auto. Qed.

Fact notify_flags l s E : flags E (notify l s) = if existsb (fun d => reachF (fuel s) s d E) l then (0,false) else flags E s.
Proof. unfold notify. generalize (fuel s) as n. intros n.
  assert (AUX: forall ds t, sk t = sk s ->
     flags E (fold_left (fun s' d => inval_ce n d s') ds t) = if existsb (fun d => reachF n s d E) ds then (0,false) else flags E t).
  { induction ds; simpl; intros t Ht; auto.
    rewrite IHds by (rewrite sk_inval_ce; auto). rewrite inval_ce_flags. rewrite (reachF_sk n t s a E Ht).
    destruct (reachF n s a E); simpl; auto. destruct (existsb _ ds); auto. }
  apply AUX; auto. Qed.

(* ================================================================= invariants *)
(** static well-formedness (a function of the skeleton): dependents lists are exactly the inverse of the prerequisite
    lists; allocation stages are at most Instance; depends-on stages are at most Report *)
Record WF (s:st) : Prop := mkWF {
  wf_q : forall E, In E (qd s) <-> c_q (get_ce E s) = true;
  wf_u : forall E, In E (ud s) <-> c_u (get_ce E s) = true;
  wf_z : forall E, In E (zd s) <-> c_z (get_ce E s) = true;
  wf_dv : forall E dk, In E (d_deps (get_dv dk s)) <-> In dk (c_dvs (get_ce E s));
  wf_ce : forall E P, In E (c_deps (get_ce P s)) <-> In P (c_ces (get_ce E s));
  wf_alloc_ce : forall k, c_alloc (get_ce k s) <= 3;
  wf_alloc_dv : forall k, d_alloc (get_dv k s) <= 3;
  wf_alloc_q : forall i, Forall (fun x => fst x <= 3) (s_qs (get_sub i s)) /\ Forall (fun x => fst x <= 3) (s_us (get_sub i s)) /\ Forall (fun x => fst x <= 3) (s_zs (get_sub i s));
  wf_dep : forall k, c_dep (get_ce k s) <= 9 }.
(** dynamic invariants: stage versions are >= 1; a recorded depends-on version never exceeds the current one;
    an entry whose recorded version is current and whose flag is set belongs to a realized depends-on stage *)
Record Dyn (s:st) : Prop := mkDyn {
  dy_pos : forall i j, j <= 10 -> 1 <= getv (s_ver (get_sub i s)) j;
  dy_le : forall k, c_verWhen (get_ce k s) <= getv (s_ver (get_sub (fst k) s)) (c_dep (get_ce k s));
  dy_fresh : forall k, c_ok (get_ce k s) = true -> getv (s_ver (get_sub (fst k) s)) (c_dep (get_ce k s)) = c_verWhen (get_ce k s) ->
                       c_dep (get_ce k s) <= s_stage (get_sub (fst k) s) }.

Fact WF_sk s s' : sk s = sk s' -> WF s -> WF s'.
Proof. intros H W.
  assert (Q: qd s = qd s' /\ ud s = ud s' /\ zd s = zd s') by (unfold sk in H; repeat split; congruence).
  destruct Q as (Q1 & Q2 & Q3).
  assert (C: forall k, sk_ce (get_ce k s) = sk_ce (get_ce k s')) by (intros; apply sk_get_ce; auto).
  assert (D: forall k, sk_dv (get_dv k s) = sk_dv (get_dv k s')) by (intros; apply sk_get_dv; auto).
  assert (S: forall i, sk_sub (get_sub i s) = sk_sub (get_sub i s')) by (intros; apply sk_sub_eq; auto).
  unfold sk_ce in C. unfold sk_dv in D. unfold sk_sub in S.
  constructor.
  - intros E. rewrite <- Q1. replace (c_q (get_ce E s')) with (c_q (get_ce E s)) by (specialize (C E); congruence). apply W.
  - intros E. rewrite <- Q2. replace (c_u (get_ce E s')) with (c_u (get_ce E s)) by (specialize (C E); congruence). apply W.
  - intros E. rewrite <- Q3. replace (c_z (get_ce E s')) with (c_z (get_ce E s)) by (specialize (C E); congruence). apply W.
  - intros E dk. replace (d_deps (get_dv dk s')) with (d_deps (get_dv dk s)) by (specialize (D dk); congruence).
    replace (c_dvs (get_ce E s')) with (c_dvs (get_ce E s)) by (specialize (C E); congruence). apply W.
  - intros E P. replace (c_deps (get_ce P s')) with (c_deps (get_ce P s)) by (specialize (C P); congruence).
    replace (c_ces (get_ce E s')) with (c_ces (get_ce E s)) by (specialize (C E); congruence). apply W.
  - intros k. replace (c_alloc (get_ce k s')) with (c_alloc (get_ce k s)) by (specialize (C k); congruence). apply W.
  - intros k. replace (d_alloc (get_dv k s')) with (d_alloc (get_dv k s)) by (specialize (D k); congruence). apply W.
  - intros i. replace (s_qs (get_sub i s')) with (s_qs (get_sub i s)) by (specialize (S i); congruence).
    replace (s_us (get_sub i s')) with (s_us (get_sub i s)) by (specialize (S i); congruence).
    replace (s_zs (get_sub i s')) with (s_zs (get_sub i s)) by (specialize (S i); congruence). apply W.
  - intros k. replace (c_dep (get_ce k s')) with (c_dep (get_ce k s)) by (specialize (C k); congruence). apply W. Qed.

(* ================================================================= paths through the dependents lists *)
Inductive path (s:st) : nat -> key -> key -> Prop :=
| p0 n k : path s n k k
| pS n k d E : In d (c_deps (get_ce k s)) -> path s n d E -> path s (S n) k E.

Fact existsb_false {A} (l:list A) : existsb (fun _ => false) l = false. Proof. induction l; auto. Qed.
Fact reachF_path s n k E : reachF (S n) s k E = true <-> path s n k E.
Proof. revert k. induction n; intros k.
  - simpl. rewrite existsb_false, orb_false_r, key_eqb_eq. split; [intros ->; constructor | intros H; inversion H; auto].
  - change (reachF (S (S n)) s k E) with (key_eqb E k || existsb (fun d => reachF (S n) s d E) (c_deps (get_ce k s))).
    rewrite orb_true_iff, key_eqb_eq, existsb_exists. split.
    + intros [->|(d & D1 & D2)]; [constructor|]. apply IHn in D2. econstructor; eauto.
    + intros H. inversion H; subst; auto. right. exists d. split; auto. apply IHn; auto. Qed.
Fact path_snoc s n k p E : path s n k p -> In E (c_deps (get_ce p s)) -> path s (S n) k E.
Proof. induction 1; intros HE.
  - econstructor; eauto. constructor.
  - econstructor; eauto. Qed.
Fact path_inv_r s n k E : path s (S n) k E -> k = E \/ exists p, path s n k p /\ In E (c_deps (get_ce p s)).
Proof. revert k. induction n; intros k H; inversion H; subst; auto.
  - inversion H2; subst. right. exists k. split; auto. constructor.
  - destruct (IHn d H2) as [->|(p & P1 & P2)].
    + right. exists k. split; auto. constructor.
    + right. exists p. split; auto. econstructor; eauto. Qed.

Fact aff_path s r : WF s -> forall n E, aff n (abs s) r E = true <-> exists d, direct (abs s) r d = true /\ path s n d E.
Proof. intros W. induction n; intros E.
  - simpl. rewrite orb_false_r. split.
    + intros H; exists E; split; auto; constructor.
    + intros (d & D1 & D2). inversion D2; subst; auto.
  - simpl. rewrite gget_ce_abs. simpl. rewrite orb_true_iff, existsb_exists. split.
    + intros [H|(p & P1 & P2)].
      * exists E; split; auto; constructor.
      * apply IHn in P2. destruct P2 as (d & D1 & D2). exists d; split; auto. eapply path_snoc; eauto. apply (wf_ce s W); auto.
    + intros (d & D1 & D2). apply path_inv_r in D2. destruct D2 as [->|(p & P1 & P2)]; auto.
      right. exists p. split. * apply (wf_ce s W); auto. * apply IHn. exists d; auto. Qed.

(* ================================================================= gmap_ces *)
Fact gmap_ces_sys f G : g_sys (gmap_ces f G) = g_sys G. Proof. reflexivity. Qed.
Fact gmap_ces_len f G : length (g_subs (gmap_ces f G)) = length (g_subs G). Proof. unfold gmap_ces; simpl. apply mapi_from_length. Qed.
Fact gget_sub_gmap f G i : i < length (g_subs G) ->
  gget_sub i (gmap_ces f G) = mkGS (gs_stage (gget_sub i G)) (gs_dvs (gget_sub i G)) (mapi_from (fun j c => f (i,j) c) 0 (gs_ces (gget_sub i G))).
Proof. intros H. unfold gget_sub, gmap_ces; simpl. rewrite (nth_mapi_from0 _ _ i gS0 gS0) by auto. reflexivity. Qed.
Fact gget_ce_gmap f G i j : i < length (g_subs G) -> j < length (gs_ces (gget_sub i G)) -> gget_ce (i,j) (gmap_ces f G) = f (i,j) (gget_ce (i,j) G).
Proof. intros Hi Hj. unfold gget_ce. simpl. rewrite gget_sub_gmap by auto. simpl. rewrite (nth_mapi_from0 _ _ j gC0 gC0) by auto. reflexivity. Qed.

Fact abs_dvs_sk s s' i : sk s = sk s' -> map abs_dv (s_dvs (get_sub i s)) = map abs_dv (s_dvs (get_sub i s')).
Proof. intros H. pose proof (sk_sub_eq s s' i H) as E. unfold sk_sub in E.
  assert (E1: map sk_dv (s_dvs (get_sub i s)) = map sk_dv (s_dvs (get_sub i s'))) by congruence.
  assert (F: forall l, map abs_dv l = map (fun x => match x with (a,b,c,_) => mkGD a b c end) (map sk_dv l)).
  { intros l. rewrite map_map. apply map_ext. intros; reflexivity. }
  rewrite !F, E1; auto. Qed.

(** the abstraction of a state that differs from s only by cleared flags *)
Fact abs_eq_clear s s' (P:key->bool) : sk s' = sk s -> shape s' = shape s ->
  (forall E, flags E s' = if P E then (0,false) else flags E s) ->
  abs s' = gmap_ces (fun k c => g_set_fresh c (g_fresh c && negb (P k))) (abs s).
Proof. intros K SH F. pose proof (shape_nsubs _ _ SH) as N. unfold nsubs in N. apply gst_ext.
  - simpl. apply shape_stage; auto.
  - rewrite gmap_ces_len. simpl. rewrite !map_length. auto.
  - intros i Hi. simpl in Hi. rewrite map_length in Hi. assert (Hi': i < length (g_subs (abs s))) by (simpl; rewrite map_length; lia).
    rewrite gget_sub_gmap by auto. rewrite !gget_sub_abs. simpl.
    destruct (shape_sub _ _ i SH) as [S1 S2]. repeat split; auto.
    + apply abs_dvs_sk; auto.
    + rewrite mapi_from_length, !map_length. apply sk_len_ces; auto.
    + intros j Hj. rewrite map_length in Hj.
      rewrite gget_ce_gmap; auto.
      2:{ rewrite gget_sub_abs. simpl. rewrite map_length. rewrite <- (sk_len_ces s' s i K); auto. }
      rewrite !gget_ce_abs. simpl fst. rewrite S2.
      pose proof (sk_get_ce s' s (i,j) K) as C. unfold sk_ce in C.
      pose proof (F (i,j)) as FF. unfold flags in FF.
      unfold abs_ce, g_set_fresh; simpl.
      assert (c_ok (get_ce (i, j) s') && (getv (s_ver (get_sub i s)) (c_dep (get_ce (i, j) s')) =? c_verWhen (get_ce (i, j) s')) =
              c_ok (get_ce (i, j) s) && (getv (s_ver (get_sub i s)) (c_dep (get_ce (i, j) s)) =? c_verWhen (get_ce (i, j) s)) && negb (P (i,j))).
      { replace (c_dep (get_ce (i,j) s')) with (c_dep (get_ce (i,j) s)) by congruence.
        destruct (P (i,j)); inversion FF as [[A B]]; rewrite A, B; simpl; [rewrite andb_false_r|rewrite andb_true_r]; auto. }
      rewrite H. f_equal; congruence. Qed.

Fact gmap_ces_ext f f' G : (forall i j, i < length (g_subs G) -> j < length (gs_ces (gget_sub i G)) -> f (i,j) (gget_ce (i,j) G) = f' (i,j) (gget_ce (i,j) G)) ->
  gmap_ces f G = gmap_ces f' G.
Proof. intros H. apply gst_ext; auto.
  - rewrite !gmap_ces_len; auto.
  - intros i Hi. rewrite gmap_ces_len in Hi. rewrite !gget_sub_gmap by auto. simpl. repeat split; auto.
    + rewrite !mapi_from_length; auto.
    + intros j Hj. rewrite mapi_from_length in Hj. rewrite !gget_ce_gmap by auto. auto. Qed.

(** notifying the dependents list of a root = clearing everything that (transitively) lists the root *)
Fact notify_abs s l r : WF s -> (forall d, In d l <-> direct (abs s) r d = true) -> abs (notify l s) = g_clear r (abs s).
Proof. intros W HL.
  rewrite (abs_eq_clear s (notify l s) (fun E => existsb (fun d => reachF (fuel s) s d E) l)).
  - unfold g_clear. apply gmap_ces_ext. intros i j Hi Hj. f_equal. f_equal. f_equal.
    apply eq_true_iff_eq. rewrite existsb_exists. rewrite gnum_ces_abs. unfold fuel.
    rewrite (aff_path s r W). split.
    + intros (d & D1 & D2). exists d. split. * apply HL; auto. * apply reachF_path; auto.
    + intros (d & D1 & D2). exists d. split. * apply HL; auto. * apply reachF_path; auto.
  - apply sk_notify.
  - apply shape_notify.
  - intros E. apply notify_flags. Qed.

(* ================================================================= invalidation of a run-time stage (g >= Time): nothing is popped *)
Fact st_eta s : set_subs s (subs s) = s. Proof. destruct s; reflexivity. Qed.
Fact In_ces_key s i c : In c (s_ces (get_sub i s)) -> exists j, c = get_ce (i,j) s.
Proof. intros H. destruct (In_nth _ _ dC H) as (j & J1 & J2). exists j. unfold get_ce; simpl; auto. Qed.
Fact In_dvs_key s i d : In d (s_dvs (get_sub i s)) -> exists j, d = get_dv (i,j) s.
Proof. intros H. destruct (In_nth _ _ dD H) as (j & J1 & J2). exists j. unfold get_dv; simpl; auto. Qed.

Fact pop_sub_id s i gp : WF s -> 3 <= gp -> pop_sub i gp s = s.
Proof. intros W Hg. unfold pop_sub.
  assert (KC: keep_to c_alloc gp (s_ces (get_sub i s)) = s_ces (get_sub i s)).
  { apply keep_to_all. intros c Hc. destruct (In_ces_key s i c Hc) as (j & ->). pose proof (wf_alloc_ce s W (i,j)). lia. }
  assert (KD: keep_to d_alloc gp (s_dvs (get_sub i s)) = s_dvs (get_sub i s)).
  { apply keep_to_all. intros c Hc. destruct (In_dvs_key s i c Hc) as (j & ->). pose proof (wf_alloc_dv s W (i,j)). lia. }
  destruct (wf_alloc_q s W i) as (Q1 & Q2 & Q3). rewrite Forall_forall in Q1, Q2, Q3.
  assert (KQ: keep_to fst gp (s_qs (get_sub i s)) = s_qs (get_sub i s)) by (apply keep_to_all; intros x Hx; specialize (Q1 x Hx); unfold stage in *; lia).
  assert (KU: keep_to fst gp (s_us (get_sub i s)) = s_us (get_sub i s)) by (apply keep_to_all; intros x Hx; specialize (Q2 x Hx); unfold stage in *; lia).
  assert (KZ: keep_to fst gp (s_zs (get_sub i s)) = s_zs (get_sub i s)) by (apply keep_to_all; intros x Hx; specialize (Q3 x Hx); unfold stage in *; lia).
  rewrite KC, Nat.sub_diag. simpl. unfold upd_sub. rewrite (upd_nth_same i _ (subs s) dS). { apply st_eta. }
  fold (get_sub i s). rewrite KC, KD, KQ, KU, KZ. destruct (get_sub i s); reflexivity. Qed.

Fact rest_upd_sub i f s : (forall b, rest_sub (f b) = rest_sub b) -> rest (upd_sub i f s) = rest s.
Proof. intros H. unfold rest, upd_sub; simpl. f_equal. apply map_upd_nth; auto. Qed.
Fact rest_sk s s' : rest s = rest s' -> sk s = sk s'.
Proof. unfold rest, sk. intros H.
  assert (H1: map rest_sub (subs s) = map rest_sub (subs s')) by congruence.
  assert (H2: map sk_sub (subs s) = map sk_sub (subs s')).
  { assert (F: forall l, map sk_sub l = map (fun x => match x with (a,b,c,d,e) => (a,b,c,map sk_dv d, map sk_ce e) end) (map rest_sub l)).
    { intros l. rewrite map_map. apply map_ext. intros; reflexivity. }
    rewrite !F, H1; auto. }
  rewrite H2. f_equal. congruence. Qed.

Fact restore_sub_rest s i gp : WF s -> 3 <= gp -> rest (restore_sub i gp s) = rest s.
Proof. intros W Hg. unfold restore_sub. destruct (s_stage (get_sub i s) <=? gp); auto.
  replace (gp =? 0) with false by (symmetry; apply Nat.eqb_neq; lia).
  rewrite pop_sub_id by auto. apply rest_upd_sub. reflexivity. Qed.

Fact invalidateAll_rest s g : WF s -> 4 <= g -> rest (invalidateAll g s) = rest s.
Proof. intros W Hg. unfold invalidateAll.
  assert (R0: rest (inval_sys g s) = rest s).
  { unfold inval_sys. destruct (sys_stage s <? g); auto.
    replace ((2 <=? sys_stage s) && (g <=? 2)) with false; auto. symmetry. apply andb_false_iff. right. apply Nat.leb_gt. lia. }
  assert (AUX: forall l t, rest t = rest s -> rest (fold_left (fun s' i => restore_sub i (g-1) s') l t) = rest s).
  { induction l; simpl; intros t Ht; auto. apply IHl. rewrite restore_sub_rest; auto; [|lia]. apply (WF_sk s t); auto. symmetry. apply rest_sk; auto. }
  apply AUX; auto. Qed.

(* the abstraction of one cache entry under the restored versions *)
Fact abs_ce_restored s g k : Dyn s -> WF s -> 4 <= g ->
  let b := get_sub (fst k) s in let c := get_ce k s in
  abs_ce (restored_ver (g-1) (s_stage b) (s_ver b)) c = (if g <=? c_dep c then g_set_fresh (abs_ce (s_ver b) c) false else abs_ce (s_ver b) c).
Proof. intros D W Hg b c. unfold abs_ce, g_set_fresh; simpl.
  pose proof (dy_le s D k) as LE. pose proof (dy_fresh s D k) as FR. pose proof (dy_pos s D (fst k) (c_dep c)) as POS. pose proof (wf_dep s W k) as DP.
  fold b in LE, FR, POS. fold c in LE, FR, POS, DP.
  assert (LEN: c_dep c < length (s_ver b)).
  { destruct (Nat.lt_ge_cases (c_dep c) (length (s_ver b))); auto. unfold getv in POS. rewrite nth_overflow in POS by auto. lia. }
  unfold restored_ver. replace (g-1 =? 0) with false by (symmetry; apply Nat.eqb_neq; lia). replace (S (g-1)) with g by lia.
  destruct (g <=? c_dep c) eqn:E; b2p.
  - f_equal. destruct (c_ok c) eqn:OK; simpl; auto.
    destruct (s_stage b <=? g-1) eqn:E1; b2p.
    + apply Nat.eqb_neq. intros X. specialize (FR eq_refl X). lia.
    + rewrite getv_bump. destruct (c_dep c <=? s_stage b) eqn:E2; b2p.
      * replace (g <=? c_dep c) with true by (symmetry; apply Nat.leb_le; auto).
        replace (c_dep c <? length (s_ver b)) with true by (symmetry; apply Nat.ltb_lt; auto). cbn [andb].
        apply Nat.eqb_neq. lia.
      * rewrite andb_false_r. cbn [andb]. apply Nat.eqb_neq. intros X. specialize (FR eq_refl X). lia.
  - f_equal. f_equal. destruct (s_stage b <=? g-1); auto. rewrite getv_bump.
    replace (g <=? c_dep c) with false by (symmetry; apply Nat.leb_gt; auto). reflexivity. Qed.

Fact get_sub_char s s' i : rest s' = rest s ->
  get_sub i s' = mkS (s_stage (get_sub i s')) (s_ver (get_sub i s')) (s_qs (get_sub i s)) (s_us (get_sub i s)) (s_zs (get_sub i s)) (s_dvs (get_sub i s)) (s_ces (get_sub i s)).
Proof. intros R. pose proof (rest_sub_eq s' s i R) as E. unfold rest_sub in E. rewrite <- (sub_eta (get_sub i s')) at 1. f_equal; congruence. Qed.

Fact nth_map_gS0 (F:subsys->gsub) l i : F dS = gS0 -> nth i (map F l) gS0 = F (nth i l dS).
Proof. intros <-. apply map_nth. Qed.

Fact inval_abs s g : WF s -> Dyn s -> 4 <= g -> abs (invalidateAll g s) = g_inval g (abs s).
Proof. intros W D Hg.
  destruct (invalidateAll_shape g s) as (N & S1 & S2 & J). pose proof (invalidateAll_rest s g W Hg) as R.
  unfold g_inval. replace ((2 <=? g_sys (abs s)) && (g <=? 2)) with false by (symmetry; apply andb_false_iff; right; apply Nat.leb_gt; lia).
  unfold abs at 1. f_equal; auto. cbn [g_subs abs].
  rewrite map_map. apply (list_ext _ _ gS0).
  { rewrite !map_length. apply N. }
  intros i Hi. rewrite map_length in Hi. fold (nsubs (invalidateAll g s)) in Hi. rewrite N in Hi.
  rewrite !nth_map_gS0 by reflexivity. fold (get_sub i (invalidateAll g s)). fold (get_sub i s).
  destruct (J i Hi) as [J1 J2].
  rewrite (get_sub_char s (invalidateAll g s) i R). rewrite J1, J2. unfold abs_sub; cbn [s_stage s_ver s_dvs s_ces gs_stage gs_dvs gs_ces].
  assert (KD: keep_to gd_alloc (g-1) (map abs_dv (s_dvs (get_sub i s))) = map abs_dv (s_dvs (get_sub i s))).
  { apply keep_to_all. intros x Hx. apply in_map_iff in Hx. destruct Hx as (d & <- & Hd). destruct (In_dvs_key s i d Hd) as (j & ->).
    simpl. pose proof (wf_alloc_dv s W (i,j)). lia. }
  assert (CE: map (abs_ce (restored_ver (g-1) (s_stage (get_sub i s)) (s_ver (get_sub i s)))) (s_ces (get_sub i s)) =
              map (fun c => if g <=? g_dep c then g_set_fresh c false else c) (map (abs_ce (s_ver (get_sub i s))) (s_ces (get_sub i s)))).
  { rewrite map_map. apply map_ext_in. intros c Hc. destruct (In_ces_key s i c Hc) as (j & ->).
    apply (abs_ce_restored s g (i,j) D W Hg). }
  rewrite CE.
  assert (KC: forall l, (forall c, In c l -> g_alloc c <= 3) -> keep_to g_alloc (g-1) l = l).
  { intros l Hl. apply keep_to_all. intros c Hc. specialize (Hl c Hc). lia. }
  rewrite KC, KD.
  - destruct (s_stage (get_sub i s) <=? g-1) eqn:E; b2p; f_equal; lia.
  - intros c Hc. apply in_map_iff in Hc. destruct Hc as (c1 & <- & Hc1). apply in_map_iff in Hc1. destruct Hc1 as (c2 & <- & Hc2).
    destruct (In_ces_key s i c2 Hc2) as (j & ->). pose proof (wf_alloc_ce s W (i,j)).
    destruct (g <=? _); simpl; auto. Qed.

(** dynamic invariants survive anything that keeps the skeleton and the shape and only clears or keeps flags *)
Fact Dyn_clear s s' : sk s' = sk s -> shape s' = shape s -> (forall E, flags E s' = (0,false) \/ flags E s' = flags E s) -> Dyn s -> Dyn s'.
Proof. intros K SH F D. constructor.
  - intros i j Hj. destruct (shape_sub _ _ i SH) as [_ ->]. apply (dy_pos s D); auto.
  - intros k. destruct (shape_sub _ _ (fst k) SH) as [_ ->]. pose proof (sk_get_ce s' s k K) as C. unfold sk_ce in C.
    replace (c_dep (get_ce k s')) with (c_dep (get_ce k s)) by congruence.
    destruct (F k) as [X|X]; unfold flags in X; inversion X as [[A B]]. + lia. + rewrite A. apply (dy_le s D).
  - intros k. destruct (shape_sub _ _ (fst k) SH) as [-> ->]. pose proof (sk_get_ce s' s k K) as C. unfold sk_ce in C.
    replace (c_dep (get_ce k s')) with (c_dep (get_ce k s)) by congruence.
    destruct (F k) as [X|X]; unfold flags in X; inversion X as [[A B]]. + rewrite B; discriminate. + rewrite A, B. apply (dy_fresh s D). Qed.

Fact Dyn_invalidateAll s g : WF s -> Dyn s -> 4 <= g -> Dyn (invalidateAll g s).
Proof. intros W D Hg.
  destruct (invalidateAll_shape g s) as (N & S1 & S2 & J). pose proof (invalidateAll_rest s g W Hg) as R.
  assert (OUT: forall i, nsubs s <= i -> get_sub i (invalidateAll g s) = get_sub i s).
  { intros i Hi. rewrite !get_sub_out; auto. rewrite N; auto. }
  assert (VER: forall i j, getv (s_ver (get_sub i s)) j <= getv (s_ver (get_sub i (invalidateAll g s))) j).
  { intros i j. destruct (Nat.lt_ge_cases i (nsubs s)) as [Hi|Hi]; [|rewrite OUT; auto].
    destruct (J i Hi) as [_ ->]. unfold restored_ver. replace (g-1 =? 0) with false by (symmetry; apply Nat.eqb_neq; lia).
    destruct (s_stage (get_sub i s) <=? g-1); auto. rewrite getv_bump. dest_if; auto. }
  constructor.
  - intros i j Hj. pose proof (dy_pos s D i j Hj). pose proof (VER i j). lia.
  - intros k. rewrite (rest_get_ce _ _ k R). pose proof (dy_le s D k). pose proof (VER (fst k) (c_dep (get_ce k s))). lia.
  - intros k. rewrite (rest_get_ce _ _ k R). intros OK. pose proof (dy_le s D k) as LE. pose proof (dy_fresh s D k OK) as FR.
    destruct (Nat.lt_ge_cases (fst k) (nsubs s)) as [Hi|Hi]; [|rewrite OUT; auto].
    destruct (J (fst k) Hi) as [-> ->]. unfold restored_ver.
    replace (g-1 =? 0) with false by (symmetry; apply Nat.eqb_neq; lia). replace (S (g-1)) with g by lia.
    destruct (s_stage (get_sub (fst k) s) <=? g-1) eqn:E; b2p.
    + intros X. specialize (FR X). lia.
    + rewrite getv_bump. destruct ((g <=? c_dep (get_ce k s)) && (c_dep (get_ce k s) <=? s_stage (get_sub (fst k) s)) && (c_dep (get_ce k s) <? length (s_ver (get_sub (fst k) s)))) eqn:E1.
      * intros X. lia.
      * intros X. specialize (FR X). apply andb_false_iff in E1. destruct E1 as [E1|E1].
        { apply andb_false_iff in E1. destruct E1 as [E1|E1]; b2p; lia. }
        b2p. pose proof (dy_pos s D (fst k) (c_dep (get_ce k s))) as P. pose proof (wf_dep s W k).
        unfold getv in P. rewrite nth_overflow in P by auto. lia. Qed.
