(** C18: every run-time operation of the model commutes with the abstraction to the specification. *)
From Coq Require Import List Arith Bool PeanoNat Lia.
Require Import C18_Model C18_Basics C18_Spec C18_Refine.
Import ListNotations.

Definition refines (cf:cfg) (s:st) (o:op) : Prop :=
  abs (fst (step cf s o)) = fst (gstep (abs s) o) /\ snd (step cf s o) = snd (gstep (abs s) o) /\ WF (fst (step cf s o)) /\ Dyn (fst (step cf s o)).

Fact abs_upd_sub_id i F s : (forall b, abs_sub (F b) = abs_sub b) -> abs (upd_sub i F s) = abs s.
Proof. intros H. unfold abs, upd_sub; simpl. f_equal. apply map_upd_nth; auto. Qed.
Fact abs_upd_ce_id k f s : (forall v c, abs_ce v (f c) = abs_ce v c) -> abs (upd_ce k f s) = abs s.
Proof. intros H. apply abs_upd_sub_id. intros b. unfold abs_sub; simpl. f_equal. apply map_upd_nth; auto. Qed.
Fact abs_upd_dv_id k f s : (forall d, abs_dv (f d) = abs_dv d) -> abs (upd_dv k f s) = abs s.
Proof. intros H. apply abs_upd_sub_id. intros b. unfold abs_sub; simpl. f_equal. apply map_upd_nth; auto. Qed.
Fact abs_upd_sub i F F' s : abs_sub (F (get_sub i s)) = F' (abs_sub (get_sub i s)) -> abs (upd_sub i F s) = gupd_sub i F' (abs s).
Proof. intros H. unfold abs, upd_sub, gupd_sub; simpl. f_equal. unfold get_sub in H. revert i H. induction (subs s); intros [|i] H; simpl in *; auto; f_equal; auto. Qed.

Fact flags_upd_ce_val k f s E : (forall c, c_verWhen (f c) = c_verWhen c /\ c_ok (f c) = c_ok c) -> flags E (upd_ce k f s) = flags E s.
Proof. intros H. unfold flags. rewrite get_ce_upd_ce. dest_if; auto. destruct (H (get_ce E s)) as [-> ->]; auto. Qed.
Fact flags_upd_dv k f s E : flags E (upd_dv k f s) = flags E s.
Proof. unfold flags. rewrite get_ce_upd_dv; auto. Qed.

(* states with the same skeleton, shape and flags have the same invariants *)
Fact keep s s' : sk s' = sk s -> shape s' = shape s -> (forall E, flags E s' = flags E s) -> WF s -> Dyn s -> WF s' /\ Dyn s'.
Proof. intros K SH F W D. split. - apply (WF_sk s s'); auto. - apply (Dyn_clear s s'); auto. Qed.

Ltac guard_eq := rewrite ?ghas_sub_abs, ?ghas_ce_abs, ?ghas_dv_abs.
Ltac rsplit := split; [|split; [|split]].
Ltac red2 := cbn [fst snd guard ok].

Fact ref_Query cf s : WF s -> Dyn s -> refines cf s Query.
Proof. intros; unfold refines; red2; rsplit; auto. Qed.
Fact ref_GetCE cf s k : WF s -> Dyn s -> refines cf s (GetCE k).
Proof. intros W D; unfold refines; cbn [step gstep]. guard_eq. destruct (negb (has_sub s (fst k) && has_ce s k)); red2; [rsplit; auto|].
  rsplit; auto. rewrite gvalid_abs; auto. Qed.
Fact ref_SetCE cf s k v : WF s -> Dyn s -> refines cf s (SetCE k v).
Proof. intros W D; unfold refines; cbn [step gstep]. guard_eq. destruct (negb (has_sub s (fst k) && has_ce s k)); red2; [rsplit; auto|].
  destruct (keep s (upd_ce k (fun c => c_set_val c v) s)) as [W' D']; auto.
  { apply sk_upd_ce; reflexivity. } { apply shape_upd_ce. } { intros; apply flags_upd_ce_val; auto. }
  rsplit; auto. apply abs_upd_ce_id. reflexivity. Qed.
Fact ref_SetDVUpd cf s k v : WF s -> Dyn s -> refines cf s (SetDVUpd k v).
Proof. intros W D; unfold refines; cbn [step gstep]. guard_eq. destruct (negb (has_sub s (fst k) && has_dv s k)); red2; [rsplit; auto|].
  rewrite gget_dv_abs. cbn [abs_dv gd_auto]. destruct (d_auto (get_dv k s)); red2; [|rsplit; auto].
  destruct (keep s (upd_ce (fst k, n) (fun c => c_set_val c v) s)) as [W' D']; auto.
  { apply sk_upd_ce; reflexivity. } { apply shape_upd_ce. } { intros; apply flags_upd_ce_val; auto. }
  rsplit; auto. apply abs_upd_ce_id. reflexivity. Qed.

(* markCacheValueRealized *)
Fact mark_refines s k : WF s -> Dyn s -> mark_ok s k = true ->
  let s' := upd_ce k (fun c => c_set_flags c (getv (s_ver (get_sub (fst k) s)) (c_dep c)) true) s in
  abs s' = gupd_ce k (fun c => g_set_fresh c true) (abs s) /\ WF s' /\ Dyn s'.
Proof. intros W D M s'.
  assert (K: sk s' = sk s) by (apply sk_upd_ce; reflexivity).
  assert (SH: shape s' = shape s) by apply shape_upd_ce.
  split; [|split].
  - unfold s', upd_ce, gupd_ce. apply abs_upd_sub. unfold abs_sub; simpl. f_equal.
    apply map_upd_nth_comm. intros c. unfold abs_ce, g_set_fresh; simpl. rewrite Nat.eqb_refl. reflexivity.
  - apply (WF_sk s s'); auto.
  - assert (G: forall E, get_ce E s' = if key_eqb E k && has_ce s E then c_set_flags (get_ce E s) (getv (s_ver (get_sub (fst k) s)) (c_dep (get_ce E s))) true else get_ce E s)
      by (intros; unfold s'; apply get_ce_upd_ce).
    constructor.
    + intros i j Hj. destruct (shape_sub _ _ i SH) as [_ ->]. apply (dy_pos s D); auto.
    + intros E. destruct (shape_sub _ _ (fst E) SH) as [_ ->]. rewrite G. destruct (key_eqb E k && has_ce s E) eqn:X; [|apply (dy_le s D)].
      b2p. apply key_eqb_eq in H. subst E. simpl. auto.
    + intros E. destruct (shape_sub _ _ (fst E) SH) as [-> ->]. rewrite G. destruct (key_eqb E k && has_ce s E) eqn:X; [|apply (dy_fresh s D)].
      b2p. apply key_eqb_eq in H. subst E. simpl. intros _ _. unfold mark_ok in M. b2p; auto. Qed.

Fact ref_Mark cf s k : WF s -> Dyn s -> legal cf s (Mark k) = true -> refines cf s (Mark k).
Proof. intros W D L; unfold refines; cbn [step gstep]. guard_eq. destruct (negb (has_sub s (fst k) && has_ce s k)); red2; [rsplit; auto|].
  destruct (mark_refines s k W D L) as (A & B & C). auto. Qed.
Fact ref_MarkDVUpd cf s k : WF s -> Dyn s -> legal cf s (MarkDVUpd k) = true -> refines cf s (MarkDVUpd k).
Proof. intros W D L; unfold refines; cbn [step gstep]. guard_eq. destruct (negb (has_sub s (fst k) && has_dv s k)); red2; [rsplit; auto|].
  rewrite gget_dv_abs. cbn [abs_dv gd_auto]. simpl in L. destruct (d_auto (get_dv k s)); red2; [|rsplit; auto].
  destruct (mark_refines s (fst k, n) W D L) as (A & B & C). auto. Qed.

Fact ref_AdvSub cf s ss g : WF s -> Dyn s -> refines cf s (AdvSub ss g).
Proof. intros W D; unfold refines; cbn [step gstep]. guard_eq. destruct (negb (has_sub s ss)) eqn:HS; red2; [rsplit; auto|].
  rewrite gget_sub_abs. cbn [abs_sub gs_stage].
  destruct (negb ((1 <=? g) && (g <=? 9) && (S (s_stage (get_sub ss s)) =? g))) eqn:G; red2; [rsplit; auto|].
  b2p. set (s' := upd_sub ss (fun b => s_set_stage_ver b g (s_ver b)) s).
  assert (K: sk s' = sk s) by (apply sk_upd_sub; reflexivity).
  assert (R: rest s' = rest s) by (apply rest_upd_sub; reflexivity).
  assert (ST: forall i, s_ver (get_sub i s') = s_ver (get_sub i s) /\ s_stage (get_sub i s) <= s_stage (get_sub i s')).
  { intros i. unfold s'. rewrite get_sub_upd_sub. dest_if; simpl; auto. b2p. subst. lia. }
  rsplit; auto.
  - apply abs_upd_sub. reflexivity.
  - apply (WF_sk s s'); auto.
  - constructor.
    + intros i j Hj. destruct (ST i) as [-> _]. apply (dy_pos s D); auto.
    + intros k. destruct (ST (fst k)) as [-> _]. rewrite (rest_get_ce _ _ k R). apply (dy_le s D).
    + intros k. destruct (ST (fst k)) as [-> LE]. rewrite (rest_get_ce _ _ k R). intros A B. pose proof (dy_fresh s D k A B). lia. Qed.
