(** C18: every run-time operation of the model commutes with the abstraction to the specification. *)
From Coq Require Import List Arith Bool PeanoNat Lia.
Require Import C18_Model C18_Basics C18_Spec C18_Refine.
Import ListNotations.

Definition refines (cf:cfg) (s:st) (o:op) : Prop :=
  abs (fst (step cf s o)) = fst (gstep (abs s) o) /\ snd (step cf s o) = snd (gstep (abs s) o) /\ WF (fst (step cf s o)) /\ Dyn (fst (step cf s o)).

Fact abs_upd_sub_id i F s : (forall b, abs_sub (F b) = abs_sub b) -> abs (upd_sub i F s) = abs s.
Proof. intros H. unfold abs, upd_sub; simpl. f_equal. apply map_upd_nth; auto. Qed.
Fact abs_upd_ce_id k f s : (forall v c, abs_ce v (f c) = abs_ce v c) -> abs (upd_ce k f s) = abs s.
Proof. intros H. apply abs_upd_sub_id. intros b. unfold abs_sub; simpl. f_equal. apply map_upd_nth; auto. Qed.
Fact abs_upd_dv_id k f s : (forall d, abs_dv (f d) = abs_dv d) -> abs (upd_dv k f s) = abs s.
Proof. intros H. apply abs_upd_sub_id. intros b. unfold abs_sub; simpl. f_equal. apply map_upd_nth; auto. Qed.
Fact abs_upd_sub i F F' s : abs_sub (F (get_sub i s)) = F' (abs_sub (get_sub i s)) -> abs (upd_sub i F s) = gupd_sub i F' (abs s).
Proof. intros H. unfold abs, upd_sub, gupd_sub; simpl. f_equal. unfold get_sub in H. revert i H. induction (subs s); intros [|i] H; simpl in *; auto; f_equal; auto. Qed.

Fact flags_upd_ce_val k f s E : (forall c, c_verWhen (f c) = c_verWhen c /\ c_ok (f c) = c_ok c) -> flags E (upd_ce k f s) = flags E s.
Proof. intros H. unfold flags. rewrite get_ce_upd_ce. dest_if; auto. destruct (H (get_ce E s)) as [-> ->]; auto. Qed.
Fact flags_upd_dv k f s E : flags E (upd_dv k f s) = flags E s.
Proof. unfold flags. rewrite get_ce_upd_dv; auto. Qed.

(* states with the same skeleton, shape and flags have the same invariants *)
Fact keep s s' : sk s' = sk s -> shape s' = shape s -> (forall E, flags E s' = flags E s) -> WF s -> Dyn s -> WF s' /\ Dyn s'.
Proof. intros K SH F W D. split. - apply (WF_sk s s'); auto. - apply (Dyn_clear s s'); auto. Qed.

Ltac guard_eq := rewrite ?ghas_sub_abs, ?ghas_ce_abs, ?ghas_dv_abs.
Ltac rsplit := split; [|split; [|split]].
Ltac red2 := cbn [fst snd guard ok].

Fact ref_Query cf s : WF s -> Dyn s -> refines cf s Query.
Proof. intros; unfold refines; red2; rsplit; auto. Qed.
Fact ref_GetCE cf s k : WF s -> Dyn s -> refines cf s (GetCE k).
Proof. intros W D; unfold refines; cbn [step gstep]. guard_eq. destruct (negb (has_sub s (fst k) && has_ce s k)); red2; [rsplit; auto|].
  rsplit; auto. rewrite gvalid_abs; auto. Qed.
Fact ref_SetCE cf s k v : WF s -> Dyn s -> refines cf s (SetCE k v).
Proof. intros W D; unfold refines; cbn [step gstep]. guard_eq. destruct (negb (has_sub s (fst k) && has_ce s k)); red2; [rsplit; auto|].
  destruct (keep s (upd_ce k (fun c => c_set_val c v) s)) as [W' D']; auto.
  { apply sk_upd_ce; reflexivity. } { apply shape_upd_ce. } { intros; apply flags_upd_ce_val; auto. }
  rsplit; auto. apply abs_upd_ce_id. reflexivity. Qed.
Fact ref_SetDVUpd cf s k v : WF s -> Dyn s -> refines cf s (SetDVUpd k v).
Proof. intros W D; unfold refines; cbn [step gstep]. guard_eq. destruct (negb (has_sub s (fst k) && has_dv s k)); red2; [rsplit; auto|].
  rewrite gget_dv_abs. cbn [abs_dv gd_auto]. destruct (d_auto (get_dv k s)); red2; [|rsplit; auto].
  destruct (keep s (upd_ce (fst k, n) (fun c => c_set_val c v) s)) as [W' D']; auto.
  { apply sk_upd_ce; reflexivity. } { apply shape_upd_ce. } { intros; apply flags_upd_ce_val; auto. }
  rsplit; auto. apply abs_upd_ce_id. reflexivity. Qed.

(* markCacheValueRealized *)
Fact mark_refines s k : WF s -> Dyn s -> mark_ok s k = true ->
  let s' := upd_ce k (fun c => c_set_flags c (getv (s_ver (get_sub (fst k) s)) (c_dep c)) true) s in
  abs s' = gupd_ce k (fun c => g_set_fresh c true) (abs s) /\ WF s' /\ Dyn s'.
Proof. intros W D M s'.
  assert (K: sk s' = sk s) by (apply sk_upd_ce; reflexivity).
  assert (SH: shape s' = shape s) by apply shape_upd_ce.
  split; [|split].
  - unfold s', upd_ce, gupd_ce. apply abs_upd_sub. unfold abs_sub; simpl. f_equal.
    apply map_upd_nth_comm. intros c. unfold abs_ce, g_set_fresh; simpl. rewrite Nat.eqb_refl. reflexivity.
  - apply (WF_sk s s'); auto.
  - assert (G: forall E, get_ce E s' = if key_eqb E k && has_ce s E then c_set_flags (get_ce E s) (getv (s_ver (get_sub (fst k) s)) (c_dep (get_ce E s))) true else get_ce E s)
      by (intros; unfold s'; apply get_ce_upd_ce).
    constructor.
    + intros i j Hj. destruct (shape_sub _ _ i SH) as [_ ->]. apply (dy_pos s D); auto.
    + intros E. destruct (shape_sub _ _ (fst E) SH) as [_ ->]. rewrite G. destruct (key_eqb E k && has_ce s E) eqn:X; [|apply (dy_le s D)].
      b2p. apply key_eqb_eq in H. subst E. simpl. auto.
    + intros E. destruct (shape_sub _ _ (fst E) SH) as [-> ->]. rewrite G. destruct (key_eqb E k && has_ce s E) eqn:X; [|apply (dy_fresh s D)].
      b2p. apply key_eqb_eq in H. subst E. simpl. intros _ _. unfold mark_ok in M. b2p; auto. Qed.

Fact ref_Mark cf s k : WF s -> Dyn s -> legal cf s (Mark k) = true -> refines cf s (Mark k).
Proof. intros W D L; unfold refines; cbn [step gstep]. guard_eq. destruct (negb (has_sub s (fst k) && has_ce s k)); red2; [rsplit; auto|].
  destruct (mark_refines s k W D L) as (A & B & C). auto. Qed.
Fact ref_MarkDVUpd cf s k : WF s -> Dyn s -> legal cf s (MarkDVUpd k) = true -> refines cf s (MarkDVUpd k).
Proof. intros W D L; unfold refines; cbn [step gstep]. guard_eq. destruct (negb (has_sub s (fst k) && has_dv s k)); red2; [rsplit; auto|].
  rewrite gget_dv_abs. cbn [abs_dv gd_auto]. simpl in L. destruct (d_auto (get_dv k s)); red2; [|rsplit; auto].
  destruct (mark_refines s (fst k, n) W D L) as (A & B & C). auto. Qed.

Fact ref_AdvSub cf s ss g : WF s -> Dyn s -> refines cf s (AdvSub ss g).
Proof. intros W D; unfold refines; cbn [step gstep]. guard_eq. destruct (negb (has_sub s ss)) eqn:HS; red2; [rsplit; auto|].
  rewrite gget_sub_abs. cbn [abs_sub gs_stage].
  destruct (negb ((1 <=? g) && (g <=? 9) && (S (s_stage (get_sub ss s)) =? g))) eqn:G; red2; [rsplit; auto|].
  b2p. set (s' := upd_sub ss (fun b => s_set_stage_ver b g (s_ver b)) s).
  assert (K: sk s' = sk s) by (apply sk_upd_sub; reflexivity).
  assert (R: rest s' = rest s) by (apply rest_upd_sub; reflexivity).
  assert (ST: forall i, s_ver (get_sub i s') = s_ver (get_sub i s) /\ s_stage (get_sub i s) <= s_stage (get_sub i s')).
  { intros i. unfold s'. rewrite get_sub_upd_sub. dest_if; simpl; auto. b2p. subst. split; auto; lia. }
  rsplit; auto.
  - apply abs_upd_sub. reflexivity.
  - apply (WF_sk s s'); auto.
  - constructor.
    + intros i j Hj. destruct (ST i) as [-> _]. apply (dy_pos s D); auto.
    + intros k. destruct (ST (fst k)) as [-> _]. rewrite (rest_get_ce _ _ k R). apply (dy_le s D).
    + intros k. destruct (ST (fst k)) as [-> LE]. rewrite (rest_get_ce _ _ k R). intros A B. pose proof (dy_fresh s D k A B). lia. Qed.

(* ================================================================= notifications *)
Fact clear_step s l r : WF s -> Dyn s -> (forall d, In d l <-> direct (abs s) r d = true) ->
  abs (notify l s) = g_clear r (abs s) /\ WF (notify l s) /\ Dyn (notify l s).
Proof. intros W D H. split; [|split].
  - apply notify_abs; auto.
  - apply (WF_sk s); auto. symmetry; apply sk_notify.
  - apply (Dyn_clear s); auto using sk_notify, shape_notify.
    intros E. rewrite notify_flags. destruct (existsb _ l); auto. Qed.

Fact direct_RCE s k d : direct (abs s) (RCE k) d = key_eqb k d. Proof. reflexivity. Qed.
Fact direct_RQ s d : direct (abs s) RQ d = c_q (get_ce d s). Proof. unfold direct. rewrite gget_ce_abs. reflexivity. Qed.
Fact direct_RU s d : direct (abs s) RU d = c_u (get_ce d s). Proof. unfold direct. rewrite gget_ce_abs. reflexivity. Qed.
Fact direct_RZ s d : direct (abs s) RZ d = c_z (get_ce d s). Proof. unfold direct. rewrite gget_ce_abs. reflexivity. Qed.
Fact direct_RDV s dk d : direct (abs s) (RDV dk) d = mem_key dk (c_dvs (get_ce d s)). Proof. unfold direct. rewrite gget_ce_abs. reflexivity. Qed.

Fact clear_ce s k : WF s -> Dyn s ->
  abs (inval_ce (fuel s) k s) = g_clear (RCE k) (abs s) /\ WF (inval_ce (fuel s) k s) /\ Dyn (inval_ce (fuel s) k s).
Proof. intros W D. change (inval_ce (fuel s) k s) with (notify [k] s). apply clear_step; auto.
  intros d. rewrite direct_RCE, key_eqb_eq. simpl. split; [intros [->|[]]; auto | intros ->; auto]. Qed.
Fact clear_q s : WF s -> Dyn s -> abs (notify (qd s) s) = g_clear RQ (abs s) /\ WF (notify (qd s) s) /\ Dyn (notify (qd s) s).
Proof. intros W D. apply clear_step; auto. intros d. rewrite direct_RQ. apply (wf_q s W). Qed.
Fact clear_u s : WF s -> Dyn s -> abs (notify (ud s) s) = g_clear RU (abs s) /\ WF (notify (ud s) s) /\ Dyn (notify (ud s) s).
Proof. intros W D. apply clear_step; auto. intros d. rewrite direct_RU. apply (wf_u s W). Qed.
Fact clear_z s : WF s -> Dyn s -> abs (notify (zd s) s) = g_clear RZ (abs s) /\ WF (notify (zd s) s) /\ Dyn (notify (zd s) s).
Proof. intros W D. apply clear_step; auto. intros d. rewrite direct_RZ. apply (wf_z s W). Qed.
Fact clear_dv s dk : WF s -> Dyn s ->
  abs (notify (d_deps (get_dv dk s)) s) = g_clear (RDV dk) (abs s) /\ WF (notify (d_deps (get_dv dk s)) s) /\ Dyn (notify (d_deps (get_dv dk s)) s).
Proof. intros W D. apply clear_step; auto. intros d. rewrite direct_RDV, mem_key_In. apply (wf_dv s W). Qed.

(* value-version bumps and size fields are invisible to the abstraction and the invariants *)
Fact inv_ext s s' : subs s' = subs s -> qd s' = qd s -> ud s' = ud s -> zd s' = zd s -> WF s -> Dyn s -> abs s' = mkG (sys_stage s') (g_subs (abs s)) /\ WF s' /\ Dyn s'.
Proof. intros E1 E2 E3 E4 W D.
  assert (G: forall i, get_sub i s' = get_sub i s) by (intros; unfold get_sub; rewrite E1; auto).
  assert (C: forall k, get_ce k s' = get_ce k s) by (intros; unfold get_ce; rewrite G; auto).
  assert (V: forall k, get_dv k s' = get_dv k s) by (intros; unfold get_dv; rewrite G; auto).
  split; [|split].
  - unfold abs. rewrite E1. reflexivity.
  - destruct W. constructor; intros; rewrite ?E2, ?E3, ?E4, ?C, ?V, ?G; auto.
  - destruct D. constructor; intros *; rewrite ?C, ?G; auto. Qed.

Fact noteQ_step s : WF s -> Dyn s -> abs (noteQ s) = g_clear RQ (abs s) /\ WF (noteQ s) /\ Dyn (noteQ s).
Proof. intros W D. unfold noteQ. destruct (inv_ext s (set_qv s (S (qv s)))) as (A & W1 & D1); auto. apply (clear_q _ W1 D1). Qed.
Fact noteU_step s : WF s -> Dyn s -> abs (noteU s) = g_clear RU (abs s) /\ WF (noteU s) /\ Dyn (noteU s).
Proof. intros W D. unfold noteU. destruct (inv_ext s (set_uv s (S (uv s)))) as (A & W1 & D1); auto. apply (clear_u _ W1 D1). Qed.
Fact noteZ_step s : WF s -> Dyn s -> abs (noteZ s) = g_clear RZ (abs s) /\ WF (noteZ s) /\ Dyn (noteZ s).
Proof. intros W D. unfold noteZ. destruct (inv_ext s (set_zv s (S (zv s)))) as (A & W1 & D1); auto. apply (clear_z _ W1 D1). Qed.
Fact noteY_step s : WF s -> Dyn s -> abs (noteY s) = g_clear_roots [RQ;RU;RZ] (abs s) /\ WF (noteY s) /\ Dyn (noteY s).
Proof. intros W D. unfold noteY, g_clear_roots; simpl.
  destruct (noteQ_step s W D) as (A1 & W1 & D1). destruct (noteU_step _ W1 D1) as (A2 & W2 & D2). destruct (noteZ_step _ W2 D2) as (A3 & W3 & D3).
  split; [|split]; auto. rewrite A3, A2, A1. reflexivity. Qed.

Fact ref_Unmark cf s k : WF s -> Dyn s -> refines cf s (Unmark k).
Proof. intros W D; unfold refines; cbn [step gstep]. guard_eq. destruct (negb (has_sub s (fst k) && has_ce s k)); red2; [rsplit; auto|].
  destruct (clear_ce s k W D) as (A & B & C). rsplit; auto. Qed.

Fact inval_step s g : WF s -> Dyn s -> 4 <= g -> abs (invalidateAll g s) = g_inval g (abs s) /\ WF (invalidateAll g s) /\ Dyn (invalidateAll g s).
Proof. intros W D Hg. split; [|split].
  - apply inval_abs; auto.
  - apply (WF_sk s); auto. apply rest_sk. symmetry. apply invalidateAll_rest; auto.
  - apply Dyn_invalidateAll; auto. Qed.

Fact ref_InvalidateAll cf s g : WF s -> Dyn s -> runtime s (InvalidateAll g) = true -> refines cf s (InvalidateAll g).
Proof. intros W D R; unfold refines; cbn [step gstep]. destruct (negb ((1 <=? g) && (g <=? 10))); red2; [rsplit; auto|].
  cbn [runtime] in R. b2p. destruct (inval_step s g W D R) as (A & B & C). rsplit; auto. Qed.
Fact ref_InvalidateCache cf s g : WF s -> Dyn s -> runtime s (InvalidateCache g) = true -> refines cf s (InvalidateCache g).
Proof. intros W D R; unfold refines; cbn [step gstep]. destruct (negb ((1 <=? g) && (g <=? 10))); red2; [rsplit; auto|].
  destruct (g <? 3) eqn:E; red2; [rsplit; auto|]. cbn [runtime] in R. rewrite E in R. cbn [orb] in R. b2p.
  destruct (inval_step s g W D R) as (A & B & C). rsplit; auto. Qed.

Fact w_stage_ge w : 4 <= w_stage w. Proof. destruct w; simpl; lia. Qed.
Fact ref_Upd cf s w : WF s -> Dyn s -> refines cf s (Upd w).
Proof. intros W D; unfold refines; cbn [step gstep]. red2.
  destruct (inval_step s (w_stage w) W D (w_stage_ge w)) as (A & W1 & D1).
  destruct w; cbn [g_clear_roots fold_left]; try (rsplit; auto; fail).
  - destruct (noteQ_step _ W1 D1) as (A2 & W2 & D2). rsplit; auto. rewrite A2, A; reflexivity.
  - destruct (noteU_step _ W1 D1) as (A2 & W2 & D2). rsplit; auto. rewrite A2, A; reflexivity.
  - destruct (noteZ_step _ W1 D1) as (A2 & W2 & D2). rsplit; auto. rewrite A2, A; reflexivity.
  - destruct (noteY_step _ W1 D1) as (A2 & W2 & D2). rsplit; auto. rewrite A2, A; reflexivity. Qed.

Fact ws_stage_ge w : 4 <= ws_stage w. Proof. destruct w; simpl; lia. Qed.
Fact ref_UpdSub cf s w ss : WF s -> Dyn s -> refines cf s (UpdSub w ss).
Proof. intros W D; unfold refines; cbn [step gstep]. guard_eq. destruct (negb (has_sub s ss && sub_ok w)); red2; [rsplit; auto|].
  destruct (inval_step s (ws_stage w) W D (ws_stage_ge w)) as (A & W1 & D1).
  destruct w; cbn [g_clear_roots fold_left]; try (rsplit; auto; fail).
  - destruct (noteQ_step _ W1 D1) as (A2 & W2 & D2). rsplit; auto. rewrite A2, A; reflexivity.
  - destruct (noteU_step _ W1 D1) as (A2 & W2 & D2). rsplit; auto. rewrite A2, A; reflexivity.
  - destruct (noteZ_step _ W1 D1) as (A2 & W2 & D2). rsplit; auto. rewrite A2, A; reflexivity. Qed.

Fact ref_SetDV cf s k v : WF s -> Dyn s -> runtime s (SetDV k v) = true -> refines cf s (SetDV k v).
Proof. intros W D R; unfold refines; cbn [step gstep]. guard_eq. destruct (negb (has_sub s (fst k) && has_dv s k)); red2; [rsplit; auto|].
  cbn [runtime] in R. b2p. rewrite gget_dv_abs. cbn [abs_dv gd_auto gd_inval].
  destruct (inval_step s (d_inval (get_dv k s)) W D R) as (A1 & W1 & D1).
  set (s1 := invalidateAll (d_inval (get_dv k s)) s) in *.
  set (s2 := match d_auto (get_dv k s) with Some cx => inval_ce (fuel s1) (fst k, cx) s1 | None => s1 end).
  assert (H2: abs s2 = g_clear_roots (match d_auto (get_dv k s) with Some cx => [RCE (fst k, cx)] | None => [] end) (abs s1) /\ WF s2 /\ Dyn s2).
  { unfold s2. destruct (d_auto (get_dv k s)); simpl; auto. apply clear_ce; auto. }
  destruct H2 as (A2 & W2 & D2).
  set (s3 := upd_dv k (fun d' => d_set_val (d_set_valver d' (S (d_valver d'))) v) s2).
  assert (K3: sk s3 = sk s2) by (apply sk_upd_dv; reflexivity).
  destruct (keep s2 s3) as [W3 D3]; auto. { apply shape_upd_dv. } { intros; apply flags_upd_dv. }
  assert (A3: abs s3 = abs s2) by (apply abs_upd_dv_id; reflexivity).
  destruct (clear_dv s3 k W3 D3) as (A4 & W4 & D4).
  rsplit; auto. rewrite A4, A3, A2, A1. unfold g_clear_roots. rewrite fold_left_app. reflexivity. Qed.

Fact forallb_map {A B} (f:A->B) (p:B->bool) l : forallb p (map f l) = forallb (fun x => p (f x)) l.
Proof. induction l; simpl; auto. rewrite IHl; auto. Qed.

Fact ref_AdvSys cf s g : WF s -> Dyn s -> refines cf s (AdvSys g).
Proof. intros W D; unfold refines; cbn [step gstep].
  replace (forallb (fun b => g <=? gs_stage b) (g_subs (abs s))) with (forallb (fun b => g <=? s_stage b) (subs s))
    by (unfold abs; simpl; rewrite forallb_map; reflexivity).
  change (g_sys (abs s)) with (sys_stage s).
  destruct (negb ((1 <=? g) && (g <=? 9) && (S (sys_stage s) =? g) && forallb (fun b => g <=? s_stage b) (subs s))); red2; [rsplit; auto|].
  unfold adv_sys. destruct (g =? 2).
  - set (s0 := set_nquz s _ _ _).
    destruct (inv_ext s s0 eq_refl eq_refl eq_refl eq_refl W D) as (A0 & W0 & D0).
    destruct (clear_q _ W0 D0) as (A1 & W1 & D1).
    assert (Q1: ud s0 = ud (notify (qd s0) s0)) by (pose proof (sk_notify (qd s0) s0) as K; unfold sk in K; congruence).
    rewrite Q1. destruct (clear_u _ W1 D1) as (A2 & W2 & D2).
    assert (Q2: zd s0 = zd (notify (ud (notify (qd s0) s0)) (notify (qd s0) s0))).
    { pose proof (sk_notify (qd s0) s0) as K1. pose proof (sk_notify (ud (notify (qd s0) s0)) (notify (qd s0) s0)) as K2. unfold sk in K1, K2. congruence. }
    rewrite Q2. destruct (clear_z _ W2 D2) as (A3 & W3 & D3).
    match goal with |- context [set_sys ?t g _] => destruct (inv_ext t (set_sys t g (sys_ver t)) eq_refl eq_refl eq_refl eq_refl W3 D3) as (A4 & W4 & D4) end.
    rsplit; auto. rewrite A4, A3, A2, A1. reflexivity.
  - destruct (inv_ext s (set_sys s g (sys_ver s)) eq_refl eq_refl eq_refl eq_refl W D) as (A4 & W4 & D4). rsplit; auto. Qed.

(* ================================================================= autoUpdateDiscreteVariables *)
Fact auto_one_step cf s dk : WF s -> Dyn s -> (fix_auto cf = true \/ auto_ok1 s dk = true) ->
  abs (auto_one cf s dk) = g_auto_one (abs s) dk /\ WF (auto_one cf s dk) /\ Dyn (auto_one cf s dk).
Proof. intros W D L. unfold auto_one, g_auto_one. rewrite gget_dv_abs. cbn [abs_dv gd_auto].
  destruct (d_auto (get_dv dk s)) as [cx|] eqn:AU; [|auto].
  rewrite gvalid_abs. destruct (isUpToDate s (fst dk, cx)) eqn:UP; [|auto].
  set (ck := (fst dk, cx)).
  set (s1 := upd_ce ck (fun c => c_set_val c (d_val (get_dv dk s))) (upd_dv dk (fun d => d_set_val d (c_val (get_ce ck s))) s)).
  assert (K1: sk s1 = sk s). { unfold s1. rewrite sk_upd_ce by reflexivity. apply sk_upd_dv; reflexivity. }
  destruct (keep s s1) as [W1 D1]; auto.
  { unfold s1. rewrite shape_upd_ce. apply shape_upd_dv. }
  { intros E. unfold s1. rewrite flags_upd_ce_val by auto. apply flags_upd_dv. }
  assert (A1: abs s1 = abs s). { unfold s1. rewrite abs_upd_ce_id by reflexivity. apply abs_upd_dv_id; reflexivity. }
  assert (DP: d_deps (get_dv dk s1) = d_deps (get_dv dk s)). { pose proof (sk_get_dv s1 s dk K1) as X. unfold sk_dv in X. congruence. }
  assert (H2: let s2 := if fix_auto cf then notify (d_deps (get_dv dk s1)) (upd_dv dk (fun d => d_set_valver d (S (d_valver d))) s1) else s1 in
              abs s2 = g_clear (RDV dk) (abs s) /\ WF s2 /\ Dyn s2).
  { destruct (fix_auto cf) eqn:FX; cbv zeta.
    - set (s1' := upd_dv dk (fun d => d_set_valver d (S (d_valver d))) s1).
      assert (K: sk s1' = sk s1) by (apply sk_upd_dv; reflexivity).
      destruct (keep s1 s1') as [W1' D1']; auto. { apply shape_upd_dv. } { intros; apply flags_upd_dv. }
      assert (A: abs s1' = abs s1) by (apply abs_upd_dv_id; reflexivity).
      replace (d_deps (get_dv dk s1)) with (d_deps (get_dv dk s1')).
      2:{ pose proof (sk_get_dv s1' s1 dk K) as X. unfold sk_dv in X. congruence. }
      destruct (clear_dv s1' dk W1' D1') as (B & W2 & D2). rewrite B, A, A1. auto.
    - destruct L as [L|L]; [discriminate|]. unfold auto_ok1 in L. rewrite AU, UP in L. simpl in L.
      destruct (clear_dv s1 dk W1 D1) as (B & W2 & D2). rewrite DP in B, W2, D2.
      destruct (d_deps (get_dv dk s)); [|discriminate]. change (notify [] s1) with s1 in *. rewrite <- A1. auto. }
  cbv zeta in H2. destruct H2 as (A2 & W2 & D2).
  match goal with |- context [inval_ce (fuel ?t) ck ?t] => destruct (clear_ce t ck W2 D2) as (A3 & W3 & D3) end.
  split; [|split]; auto. rewrite A3, A2. reflexivity. Qed.

Fact auto_fold cf l s : WF s -> Dyn s -> (fix_auto cf = true \/ auto_legal cf s l = true) ->
  abs (fold_left (auto_one cf) l s) = fold_left g_auto_one l (abs s) /\ WF (fold_left (auto_one cf) l s) /\ Dyn (fold_left (auto_one cf) l s).
Proof. revert s. induction l as [|dk l IH]; intros s W D L; simpl; auto.
  assert (L1: fix_auto cf = true \/ auto_ok1 s dk = true).
  { destruct L as [L|L]; auto. simpl in L. b2p. auto. }
  destruct (auto_one_step cf s dk W D L1) as (A & W1 & D1).
  destruct (IH (auto_one cf s dk) W1 D1) as (A2 & W2 & D2).
  { destruct L as [L|L]; auto. simpl in L. b2p. auto. }
  rewrite A2, A. auto. Qed.

Fact mapi_from_map {A B C} (f:nat->B->C) (g:A->B) n l : mapi_from f n (map g l) = mapi_from (fun i x => f i (g x)) n l.
Proof. revert n; induction l; simpl; intros; auto. rewrite IHl; auto. Qed.
Fact mapi_from_ext {A B} (f f':nat->A->B) n l : (forall i x, f i x = f' i x) -> mapi_from f n l = mapi_from f' n l.
Proof. intros H. revert n; induction l; simpl; intros; auto. rewrite H, IHl; auto. Qed.
Fact all_dv_keys_abs s : gall_dv_keys (abs s) = all_dv_keys s.
Proof. unfold gall_dv_keys, all_dv_keys, abs; simpl. rewrite mapi_from_map. f_equal.
  apply mapi_from_ext. intros i x. simpl. rewrite map_length. reflexivity. Qed.

Fact ref_AutoUpdate cf s : WF s -> Dyn s -> legal cf s AutoUpdate = true -> refines cf s AutoUpdate.
Proof. intros W D L; unfold refines; cbn [step gstep]. red2. rewrite all_dv_keys_abs.
  destruct (auto_fold cf (all_dv_keys s) s W D) as (A & W1 & D1).
  { simpl in L. apply orb_true_iff in L. auto. }
  rsplit; auto. Qed.

(** every run-time operation that is not a deviation event commutes with the abstraction and keeps the invariants *)
Fact step_refines cf s o : WF s -> Dyn s -> runtime s o = true -> legal cf s o = true -> refines cf s o.
Proof. intros W D R L. destruct o; try discriminate R.
  - apply ref_AdvSub; auto.
  - apply ref_AdvSys; auto.
  - apply ref_InvalidateAll; auto.
  - apply ref_InvalidateCache; auto.
  - apply ref_Upd; auto.
  - apply ref_SetDV; auto.
  - apply ref_SetCE; auto.
  - apply ref_Mark; auto.
  - apply ref_Unmark; auto.
  - apply ref_MarkDVUpd; auto.
  - apply ref_SetDVUpd; auto.
  - apply ref_AutoUpdate; auto.
  - apply ref_GetCE; auto.
  - apply ref_Query; auto.
  - apply ref_UpdSub; auto. Qed.
