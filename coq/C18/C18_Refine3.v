(** C18: soundness of the executable invariant checkers, and the refinement lifted to operation sequences. *)
From Coq Require Import List Arith Bool PeanoNat Lia.
Require Import C18_Model C18_Basics C18_Spec C18_Refine C18_Refine2.
Import ListNotations.

Fact In_mapi_from {A B} (f:nat->A->B) n l x d : In x (mapi_from f n l) <-> exists i, i < length l /\ x = f (n+i) (nth i l d).
Proof. revert n. induction l; simpl; intros n.
  - split; [tauto|intros (i & H & _); lia].
  - rewrite IHl. split.
    + intros [<-|(i & H1 & H2)]. * exists 0. split; [lia|]. f_equal; lia. * exists (S i). split; [lia|]. rewrite H2. f_equal; lia.
    + intros ([|i] & H1 & H2). * left. rewrite H2. f_equal; lia. * right. exists i. split; [lia|]. rewrite H2. f_equal; lia. Qed.

Fact In_all_ce_keys s k : In k (all_ce_keys s) <-> has_ce s k = true.
Proof. unfold all_ce_keys. rewrite in_concat. split.
  - intros (l & L1 & L2). apply (In_mapi_from _ 0 _ _ dS) in L1. destruct L1 as (i & I1 & ->). simpl in L2.
    apply in_map_iff in L2. destruct L2 as (j & <- & J). apply in_seq in J. unfold has_ce, get_sub. simpl. apply Nat.ltb_lt. lia.
  - intros H. pose proof (has_ce_sub s k H) as HS. unfold has_ce in H. b2p. destruct k as [i j]. simpl in *.
    exists (map (fun j => (i,j)) (seq 0 (length (s_ces (get_sub i s))))). split.
    + apply (In_mapi_from _ 0 _ _ dS). exists i. split; auto.
    + apply in_map_iff. exists j. split; auto. apply in_seq. lia. Qed.
Fact In_all_dv_keys s k : In k (all_dv_keys s) <-> has_dv s k = true.
Proof. unfold all_dv_keys. rewrite in_concat. split.
  - intros (l & L1 & L2). apply (In_mapi_from _ 0 _ _ dS) in L1. destruct L1 as (i & I1 & ->). simpl in L2.
    apply in_map_iff in L2. destruct L2 as (j & <- & J). apply in_seq in J. unfold has_dv, get_sub. simpl. apply Nat.ltb_lt. lia.
  - intros H. pose proof (has_dv_sub s k H) as HS. unfold has_dv in H. b2p. destruct k as [i j]. simpl in *.
    exists (map (fun j => (i,j)) (seq 0 (length (s_dvs (get_sub i s))))). split.
    + apply (In_mapi_from _ 0 _ _ dS). exists i. split; auto.
    + apply in_map_iff. exists j. split; auto. apply in_seq. lia. Qed.

Fact forallb_In {A} (f:A->bool) l x : forallb f l = true -> In x l -> f x = true.
Proof. intros H. rewrite forallb_forall in H. auto. Qed.

Fact wf_check_sound s : wf_check s = true -> WF s.
Proof. unfold wf_check. intros H. repeat rewrite andb_true_iff in H. destruct H as (((((HQ & HU) & HZ) & HC) & HD) & HS).
  assert (CE: forall E, has_ce s E = true ->
     let c := get_ce E s in
        implb (c_q c) (mem_key E (qd s)) && implb (c_u c) (mem_key E (ud s)) && implb (c_z c) (mem_key E (zd s))
        && forallb (fun P => mem_key E (c_deps (get_ce P s))) (c_ces c)
        && forallb (fun D => mem_key E (c_ces (get_ce D s))) (c_deps c)
        && forallb (fun dk => mem_key E (d_deps (get_dv dk s))) (c_dvs c)
        && (c_alloc c <=? 3) && (c_dep c <=? 9) = true).
  { intros E HE. apply (forallb_In _ _ E HC). apply In_all_ce_keys; auto. }
  assert (DV: forall dk, has_dv s dk = true -> let d := get_dv dk s in forallb (fun E => mem_key dk (c_dvs (get_ce E s))) (d_deps d) && (d_alloc d <=? 3) = true).
  { intros dk Hd. apply (forallb_In _ _ dk HD). apply In_all_dv_keys; auto. }
  assert (NC: forall E, has_ce s E = false -> get_ce E s = dC) by (intros; apply get_ce_nohas; auto).
  assert (ND: forall E, has_dv s E = false -> get_dv E s = dD) by (intros; apply get_dv_nohas; auto).
  constructor.
  - intros E. split. + intros X. apply (forallb_In _ _ E HQ X).
    + intros X. destruct (has_ce s E) eqn:HE; [|rewrite NC in X by auto; discriminate]. specialize (CE E HE). cbv zeta in CE. repeat rewrite andb_true_iff in CE. destruct CE as (((((((Cq & Cu) & Cz) & Cces) & Cdeps) & Cdvs) & Calloc) & Cdep).
      rewrite X in Cq. simpl in Cq. apply mem_key_In; auto.
  - intros E. split. + intros X. apply (forallb_In _ _ E HU X).
    + intros X. destruct (has_ce s E) eqn:HE; [|rewrite NC in X by auto; discriminate]. specialize (CE E HE). cbv zeta in CE. repeat rewrite andb_true_iff in CE. destruct CE as (((((((Cq & Cu) & Cz) & Cces) & Cdeps) & Cdvs) & Calloc) & Cdep).
      rewrite X in Cu. simpl in Cu. apply mem_key_In; auto.
  - intros E. split. + intros X. apply (forallb_In _ _ E HZ X).
    + intros X. destruct (has_ce s E) eqn:HE; [|rewrite NC in X by auto; discriminate]. specialize (CE E HE). cbv zeta in CE. repeat rewrite andb_true_iff in CE. destruct CE as (((((((Cq & Cu) & Cz) & Cces) & Cdeps) & Cdvs) & Calloc) & Cdep).
      rewrite X in Cz. simpl in Cz. apply mem_key_In; auto.
  - intros E dk. split.
    + intros X. destruct (has_dv s dk) eqn:Hd; [|rewrite ND in X by auto; destruct X]. specialize (DV dk Hd). cbv zeta in DV. repeat rewrite andb_true_iff in DV. destruct DV as (Ddeps & Dalloc).
      apply mem_key_In. apply (forallb_In _ _ E Ddeps X).
    + intros X. destruct (has_ce s E) eqn:HE; [|rewrite NC in X by auto; destruct X]. specialize (CE E HE). cbv zeta in CE. repeat rewrite andb_true_iff in CE. destruct CE as (((((((Cq & Cu) & Cz) & Cces) & Cdeps) & Cdvs) & Calloc) & Cdep).
      apply mem_key_In. apply (forallb_In _ _ dk Cdvs X).
  - intros E P. split.
    + intros X. destruct (has_ce s P) eqn:HP; [|rewrite NC in X by auto; destruct X]. specialize (CE P HP). cbv zeta in CE. repeat rewrite andb_true_iff in CE. destruct CE as (((((((Cq & Cu) & Cz) & Cces) & Cdeps) & Cdvs) & Calloc) & Cdep).
      apply mem_key_In. apply (forallb_In _ _ E Cdeps X).
    + intros X. destruct (has_ce s E) eqn:HE; [|rewrite NC in X by auto; destruct X]. specialize (CE E HE). cbv zeta in CE. repeat rewrite andb_true_iff in CE. destruct CE as (((((((Cq & Cu) & Cz) & Cces) & Cdeps) & Cdvs) & Calloc) & Cdep).
      apply mem_key_In. apply (forallb_In _ _ P Cces X).
  - intros k. destruct (has_ce s k) eqn:HE; [|rewrite NC by auto; simpl; lia]. specialize (CE k HE). cbv zeta in CE. repeat rewrite andb_true_iff in CE. destruct CE as (((((((Cq & Cu) & Cz) & Cces) & Cdeps) & Cdvs) & Calloc) & Cdep). b2p. auto.
  - intros k. destruct (has_dv s k) eqn:Hd; [|rewrite ND by auto; simpl; lia]. specialize (DV k Hd). cbv zeta in DV. repeat rewrite andb_true_iff in DV. destruct DV as (Ddeps & Dalloc). b2p. auto.
  - intros i. destruct (Nat.lt_ge_cases i (nsubs s)) as [Hi|Hi].
    + assert (X: In (get_sub i s) (subs s)) by (apply nth_In; auto). pose proof (forallb_In _ _ _ HS X) as Y. cbv beta in Y. repeat rewrite andb_true_iff in Y. destruct Y as ((Y1 & Y2) & Y3).
      repeat split; apply Forall_forall; intros x Hx.
      * pose proof (forallb_In _ _ x Y1 Hx) as Z. cbv beta in Z. b2p; auto. * pose proof (forallb_In _ _ x Y2 Hx) as Z. cbv beta in Z. b2p; auto. * pose proof (forallb_In _ _ x Y3 Hx) as Z. cbv beta in Z. b2p; auto.
    + rewrite get_sub_out by auto. simpl. auto.
  - intros k. destruct (has_ce s k) eqn:HE; [|rewrite NC by auto; simpl; lia]. specialize (CE k HE). cbv zeta in CE. repeat rewrite andb_true_iff in CE. destruct CE as (((((((Cq & Cu) & Cz) & Cces) & Cdeps) & Cdvs) & Calloc) & Cdep). b2p. auto. Qed.

Fact dyn_check_sound s : dyn_check s = true -> Dyn s.
Proof. unfold dyn_check. intros H. apply andb_true_iff in H. destruct H as [HV HC].
  assert (CE: forall k, has_ce s k = true ->
     let c := get_ce k s in let b := get_sub (fst k) s in
        (c_verWhen c <=? getv (s_ver b) (c_dep c)) && implb (c_ok c && (getv (s_ver b) (c_dep c) =? c_verWhen c)) (c_dep c <=? s_stage b) = true).
  { intros E HE. apply (forallb_In _ _ E HC). apply In_all_ce_keys; auto. }
  constructor.
  - intros i j Hj. destruct (Nat.lt_ge_cases i (nsubs s)) as [Hi|Hi].
    + assert (X: In (get_sub i s) (subs s)) by (apply nth_In; auto). pose proof (forallb_In _ _ _ HV X) as Y. cbv beta in Y.
      assert (J: In j (seq 0 11)) by (apply in_seq; lia). pose proof (forallb_In _ _ j Y J) as Z. cbv beta in Z. b2p; auto.
    + rewrite get_sub_out by auto. simpl. unfold getv. do 11 (destruct j; [simpl; lia|]). lia.
  - intros k. destruct (has_ce s k) eqn:HE; [|rewrite (get_ce_nohas s k HE); simpl; lia].
    specialize (CE k HE). cbv zeta in CE. apply andb_true_iff in CE. destruct CE as [C1 _]. b2p; auto.
  - intros k. destruct (has_ce s k) eqn:HE; [|rewrite (get_ce_nohas s k HE); simpl; discriminate].
    specialize (CE k HE). cbv zeta in CE. apply andb_true_iff in CE. destruct CE as [_ C2].
    intros A B. rewrite A, B, Nat.eqb_refl in C2. simpl in C2. b2p; auto. Qed.

