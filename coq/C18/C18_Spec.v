(** C18: the property's wording made executable (ghost specification).  No version numbers, no
    up-to-date flags, no dependents lists: every cache entry carries one boolean [g_fresh] =
    "marked valid after the last change of its depends-on stage and of every (transitive) prerequisite".
      - a variable change invalidating stage g lowers the system and every subsystem to min(cur, g-1), forgets the
        allocations made at the stages lost, and clears [g_fresh] of every entry whose depends-on stage is >= g;
      - a change of q/u/z, of a discrete variable, or of a cache entry clears [g_fresh] of every entry that lists it,
        directly or through upstream cache entries, as a prerequisite;
      - markCacheValueRealized sets [g_fresh];
      - a cache entry reads valid iff stage >= computedBy, or stage >= dependsOn and [g_fresh];
      - an auto-update swap is a change of the swapped variable and of its update entry;
      - a copy keeps variables and allocations through min(stage, Instance); copied entries are fresh only if they were
        fresh, have no explicit prerequisites and depend on a copied stage.
    [abs] erases a model state to a specification state; C18_Refine.v proves that the model's steps commute with it. *)
From Coq Require Import List Arith Bool PeanoNat.
Require Import C18_Model.
Import ListNotations.

Record gcent := mkGC { g_alloc : stage; g_dep : stage; g_by : stage; g_q : bool; g_u : bool; g_z : bool;
                       g_dvs : list key; g_ces : list key; g_fresh : bool; g_assoc : option nat }.
Record gdvar := mkGD { gd_alloc : stage; gd_inval : stage; gd_auto : option nat }.
Record gsub := mkGS { gs_stage : stage; gs_dvs : list gdvar; gs_ces : list gcent }.
Record gst := mkG { g_sys : stage; g_subs : list gsub }.

Definition gC0 : gcent := mkGC 0 0 0 false false false [] [] false None.
Definition gD0 : gdvar := mkGD 0 0 None.
Definition gS0 : gsub := mkGS 0 [] [].
Definition g_set_fresh (c:gcent) (f:bool) : gcent :=
  mkGC (g_alloc c) (g_dep c) (g_by c) (g_q c) (g_u c) (g_z c) (g_dvs c) (g_ces c) f (g_assoc c).

(* ---------------------------------------------------------------- erasure *)
Definition abs_ce (ver:list nat) (c:cent) : gcent :=
  mkGC (c_alloc c) (c_dep c) (c_by c) (c_q c) (c_u c) (c_z c) (c_dvs c) (c_ces c)
       (c_ok c && (getv ver (c_dep c) =? c_verWhen c)) (c_assoc c).
Definition abs_dv (d:dvar) : gdvar := mkGD (d_alloc d) (d_inval d) (d_auto d).
Definition abs_sub (b:subsys) : gsub := mkGS (s_stage b) (map abs_dv (s_dvs b)) (map (abs_ce (s_ver b)) (s_ces b)).
Definition abs (s:st) : gst := mkG (sys_stage s) (map abs_sub (subs s)).

(* ---------------------------------------------------------------- access *)
Definition gget_sub (i:nat) (G:gst) : gsub := nth i (g_subs G) gS0.
Definition gget_ce (k:key) (G:gst) : gcent := nth (snd k) (gs_ces (gget_sub (fst k) G)) gC0.
Definition gget_dv (k:key) (G:gst) : gdvar := nth (snd k) (gs_dvs (gget_sub (fst k) G)) gD0.
Definition gupd_sub (i:nat) (f:gsub->gsub) (G:gst) : gst := mkG (g_sys G) (upd_nth i f (g_subs G)).
Definition gupd_ce (k:key) (f:gcent->gcent) (G:gst) : gst :=
  gupd_sub (fst k) (fun b => mkGS (gs_stage b) (gs_dvs b) (upd_nth (snd k) f (gs_ces b))) G.
Definition ghas_sub (G:gst) (i:nat) : bool := i <? length (g_subs G).
Definition ghas_ce (G:gst) (k:key) : bool := snd k <? length (gs_ces (gget_sub (fst k) G)).
Definition ghas_dv (G:gst) (k:key) : bool := snd k <? length (gs_dvs (gget_sub (fst k) G)).
Definition gnum_ces (G:gst) : nat := fold_right (fun b n => length (gs_ces b) + n) 0 (g_subs G).
(* apply f to every cache entry, with its key *)
Definition gmap_ces (f:key->gcent->gcent) (G:gst) : gst :=
  mkG (g_sys G) (mapi_from (fun i b => mkGS (gs_stage b) (gs_dvs b) (mapi_from (fun j c => f (i,j) c) 0 (gs_ces b))) 0 (g_subs G)).

(** a cache entry reads valid *)
Definition gvalid (G:gst) (k:key) : bool :=
  let b := gget_sub (fst k) G in let c := gget_ce k G in
  (g_by c <=? gs_stage b) || ((g_dep c <=? gs_stage b) && g_fresh c).

(* ---------------------------------------------------------------- "lists it, directly or transitively, as a prerequisite" *)
Inductive root := RQ | RU | RZ | RDV (k:key) | RCE (k:key).
Definition direct (G:gst) (r:root) (k:key) : bool :=
  let c := gget_ce k G in
  match r with RQ => g_q c | RU => g_u c | RZ => g_z c | RDV d => mem_key d (g_dvs c) | RCE e => key_eqb e k end.
(* through at most n upstream cache entries; n = number of cache entries covers every simple path *)
Fixpoint aff (n:nat) (G:gst) (r:root) (k:key) : bool :=
  direct G r k || match n with 0 => false | S m => existsb (aff m G r) (g_ces (gget_ce k G)) end.
Definition g_clear (r:root) (G:gst) : gst :=
  let n := gnum_ces G in gmap_ces (fun k c => g_set_fresh c (g_fresh c && negb (aff n G r k))) G.
Definition g_clear_roots (rs:list root) (G:gst) : gst := fold_left (fun G' r => g_clear r G') rs G.

(* ---------------------------------------------------------------- invalidation of stage g (g >= 1) *)
Definition g_inval (g:stage) (G:gst) : gst :=
  let G1 := if (2 <=? g_sys G) && (g <=? 2) then g_clear_roots [RQ;RU;RZ] G else G in   (* the shared q,u,z pool is released *)
  mkG (Nat.min (g_sys G) (g-1))
      (map (fun b => let ces := map (fun c => if g <=? g_dep c then g_set_fresh c false else c) (gs_ces b) in
                     if gs_stage b <=? g-1 then mkGS (gs_stage b) (gs_dvs b) ces
                     else mkGS (g-1) (keep_to gd_alloc (g-1) (gs_dvs b)) (keep_to g_alloc (g-1) ces))
           (g_subs G1)).

Definition gall_dv_keys (G:gst) : list key :=
  concat (mapi_from (fun i b => map (fun j => (i,j)) (seq 0 (length (gs_dvs b)))) 0 (g_subs G)).
Definition g_auto_one (G:gst) (dk:key) : gst :=
  match gd_auto (gget_dv dk G) with
  | None => G
  | Some cx => let ck := (fst dk, cx) in if gvalid G ck then g_clear_roots [RDV dk; RCE ck] G else G
  end.

Definition g_outlives (G:gst) (ss pss:nat) (palloc:stage) : bool :=
  (pss =? ss) || ((palloc <=? gs_stage (gget_sub pss G)) && (palloc <=? gs_stage (gget_sub ss G))).
Definition g_alloc_dv (ss:nat) (inval:stage) (G:gst) : option gst :=
  let b := gget_sub ss G in
  if negb ((1 <=? inval) && (inval <=? 9)) then None
  else if negb (gs_stage b <=? (if inval <=? 2 then 0 else 1)) then None
  else Some (gupd_sub ss (fun b' => mkGS (gs_stage b') (gs_dvs b' ++ [mkGD (S (gs_stage b)) inval None]) (gs_ces b')) G).
Definition g_alloc_ce (ss:nat) (c:gcent) (G:gst) : option gst :=
  let b := gget_sub ss G in
  if negb ((1 <=? g_dep c) && (g_dep c <=? 9)) then None
  else if negb ((g_dep c <=? g_by c) && (g_by c <=? 10)) then None
  else if negb (gs_stage b <? 3) then None
  else Some (gupd_sub ss (fun b' => mkGS (gs_stage b') (gs_dvs b') (gs_ces b' ++ [c])) G).

(** the specification step: new state and "throws" *)
Definition gstep (G:gst) (o:op) : gst * bool :=
  match o with
  | AllocQ ss _ | AllocU ss _ | AllocZ ss _ =>
      if negb (ghas_sub G ss) then (G,true) else (G, negb (gs_stage (gget_sub ss G) <? 2))
  | AllocDV ss inval _ =>
      if negb (ghas_sub G ss) then (G,true)
      else if (1 <=? inval) && (inval <=? 9) && (inval <=? S (gs_stage (gget_sub ss G))) && (gs_stage (gget_sub ss G) <=? (if inval <=? 2 then 0 else 1)) then (G,true)
      else match g_alloc_dv ss inval G with None => (G,true) | Some G1 => (G1,false) end
  | AllocAutoDV ss inval _ updDep =>
      if negb (ghas_sub G ss) then (G,true)
      else if (1 <=? inval) && (inval <=? 9) && (inval <=? S (gs_stage (gget_sub ss G))) && (gs_stage (gget_sub ss G) <=? (if inval <=? 2 then 0 else 1)) then (G,true)
      else match g_alloc_dv ss inval G with
           | None => (G,true)
           | Some G1 =>
               let dx := length (gs_dvs (gget_sub ss G)) in let cx := length (gs_ces (gget_sub ss G)) in
               match g_alloc_ce ss (mkGC (S (gs_stage (gget_sub ss G))) updDep 10 false false false [] [] false (Some dx)) G1 with
               | None => (G1,true)
               | Some G2 => (gupd_sub ss (fun b => mkGS (gs_stage b) (upd_nth dx (fun d => mkGD (gd_alloc d) (gd_inval d) (Some cx)) (gs_dvs b)) (gs_ces b)) G2, false)
               end
           end
  | AllocCE ss dep by_ =>
      if negb (ghas_sub G ss) then (G,true)
      else match g_alloc_ce ss (mkGC (S (gs_stage (gget_sub ss G))) dep by_ false false false [] [] false None) G with None => (G,true) | Some G1 => (G1,false) end
  | AllocCEPre ss dep by_ q u z dvs ces =>
      if negb (ghas_sub G ss) then (G,true)
      else if negb (forallb (ghas_dv G) dvs && forallb (ghas_ce G) ces && forallb (fun k => ghas_sub G (fst k)) (dvs ++ ces)
                    && nodup_keys dvs && nodup_keys ces) then (G,true)
      else if negb (forallb (fun k => g_outlives G ss (fst k) (gd_alloc (gget_dv k G))) dvs
                    && forallb (fun k => g_outlives G ss (fst k) (g_alloc (gget_ce k G))) ces) then (G,true)
      else if negb (forallb (fun k => g_dep (gget_ce k G) <=? dep) ces) then (G,true)
      else match g_alloc_ce ss (mkGC (S (gs_stage (gget_sub ss G))) dep by_ q u z dvs ces false None) G with None => (G,true) | Some G1 => (G1,false) end
  | AdvSub ss g =>
      if negb (ghas_sub G ss) then (G,true)
      else if negb ((1 <=? g) && (g <=? 9) && (S (gs_stage (gget_sub ss G)) =? g)) then (G,true)
      else (gupd_sub ss (fun b => mkGS g (gs_dvs b) (gs_ces b)) G, false)
  | AdvSys g =>
      if negb ((1 <=? g) && (g <=? 9) && (S (g_sys G) =? g) && forallb (fun b => g <=? gs_stage b) (g_subs G)) then (G,true)
      else let G1 := if g =? 2 then g_clear_roots [RQ;RU;RZ] G else G in   (* the shared q,u,z pool is (re)allocated *)
           (mkG g (g_subs G1), false)
  | InvalidateAll g => if negb ((1 <=? g) && (g <=? 10)) then (G,true) else (g_inval g G, false)
  | InvalidateCache g => if negb ((1 <=? g) && (g <=? 10)) then (G,true) else if g <? 3 then (G,true) else (g_inval g G, false)
  | Upd w =>
      (g_clear_roots (match w with WQ => [RQ] | WU => [RU] | WZ => [RZ] | WY => [RQ;RU;RZ] | _ => [] end) (g_inval (w_stage w) G), false)
  | SetDV k _ =>
      if negb (ghas_sub G (fst k) && ghas_dv G k) then (G,true) else
      let d := gget_dv k G in
      (g_clear_roots ((match gd_auto d with Some cx => [RCE (fst k,cx)] | None => [] end) ++ [RDV k]) (g_inval (gd_inval d) G), false)
  | SetCE k _ => if negb (ghas_sub G (fst k) && ghas_ce G k) then (G,true) else (G,false)
  | Mark k => if negb (ghas_sub G (fst k) && ghas_ce G k) then (G,true) else (gupd_ce k (fun c => g_set_fresh c true) G, false)
  | Unmark k => if negb (ghas_sub G (fst k) && ghas_ce G k) then (G,true) else (g_clear (RCE k) G, false)
  | MarkDVUpd k => if negb (ghas_sub G (fst k) && ghas_dv G k) then (G,true) else
      match gd_auto (gget_dv k G) with None => (G,true) | Some cx => (gupd_ce (fst k,cx) (fun c => g_set_fresh c true) G, false) end
  | SetDVUpd k _ => if negb (ghas_sub G (fst k) && ghas_dv G k) then (G,true) else
      match gd_auto (gget_dv k G) with None => (G,true) | Some cx => (G,false) end
  | AutoUpdate => (fold_left g_auto_one (gall_dv_keys G) G, false)
  | GetCE k => if negb (ghas_sub G (fst k) && ghas_ce G k) then (G,true) else (G, negb (gvalid G k))
  | Query => (G,false)
  | UpdSub w ss =>
      if negb (ghas_sub G ss && sub_ok w) then (G,true) else
      (g_clear_roots (match w with WQ => [RQ] | WU => [RU] | WZ => [RZ] | _ => [] end) (g_inval (ws_stage w) G), false)
  end.

(** copy construction / assignment in the specification *)
Definition g_copy (G:gst) : gst :=
  mkG (Nat.min (g_sys G) 3)
      (map (fun b => let tg := Nat.min (gs_stage b) 3 in
                     mkGS tg (keep_to gd_alloc tg (gs_dvs b))
                          (map (fun c => g_set_fresh c (g_fresh c && (g_dep c <=? tg) && negb (g_q c) && negb (g_u c) && negb (g_z c)
                                                        && (match g_dvs c with [] => true | _ => false end)
                                                        && (match g_ces c with [] => true | _ => false end)))
                               (keep_to g_alloc tg (gs_ces b))))
           (g_subs G)).

Fixpoint grun (G:gst) (l:list op) : gst := match l with [] => G | o::t => grun (fst (gstep G o)) t end.

(** what an observer of stages and validity sees *)
Definition gobs (G:gst) : stage * list (stage * list bool) :=
  (g_sys G, mapi_from (fun i b => (gs_stage b, map (fun j => gvalid G (i,j)) (seq 0 (length (gs_ces b))))) 0 (g_subs G)).
Definition obs (s:st) : stage * list (stage * list bool) :=
  (sys_stage s, mapi_from (fun i b => (s_stage b, map (fun j => isUpToDate s (i,j)) (seq 0 (length (s_ces b))))) 0 (subs s)).

(** deviation events: the three places where the code as it is departs from the wording above (DESIGN 7.8 and two
    more found while modelling).  [legal cf s o] = operation o applied in state s is none of them. *)
Definition noprereq (c:cent) : bool :=
  negb (c_q c) && negb (c_u c) && negb (c_z c) && (match c_dvs c with [] => true | _ => false end) && (match c_ces c with [] => true | _ => false end).
(* markCacheValueRealized below the depends-on stage (documented precondition: stage >= earliest) *)
Definition mark_ok (s:st) (k:key) : bool := c_dep (get_ce k s) <=? s_stage (get_sub (fst k) s).
(* auto-update would swap a variable that some cache entry lists as explicit prerequisite (checked for every variable
   in the state in which its turn comes) *)
Definition auto_ok1 (s:st) (dk:key) : bool :=
  match d_auto (get_dv dk s) with
  | Some cx => negb (isUpToDate s (fst dk,cx)) || (match d_deps (get_dv dk s) with [] => true | _ => false end)
  | None => true
  end.
Fixpoint auto_legal (cf:cfg) (s:st) (l:list key) : bool :=
  match l with [] => true | dk::t => auto_ok1 s dk && auto_legal cf (auto_one cf s dk) t end.
Definition legal (cf:cfg) (s:st) (o:op) : bool :=
  match o with
  | Mark k => mark_ok s k
  | MarkDVUpd k => match d_auto (get_dv k s) with Some cx => mark_ok s (fst k,cx) | None => true end
  | AutoUpdate => fix_auto cf || auto_legal cf s (all_dv_keys s)
  | _ => true
  end.
(* a copy source some of whose entries carry a recorded version for a stage above the subsystem's current stage *)
Definition copy_ok (cf:cfg) (s:st) : bool :=
  fix_copyver cf || forallb (fun k => (c_dep (get_ce k s) <=? s_stage (get_sub (fst k) s)) || (c_verWhen (get_ce k s) =? 0)) (all_ce_keys s).

(** run-time operations: everything that happens after allocation is finished and that does not back the state up
    below Instance (no allocation stack changes) *)
Definition runtime (s:st) (o:op) : bool :=
  match o with
  | AdvSub _ _ | AdvSys _ | Upd _ | UpdSub _ _ | SetCE _ _ | Mark _ | Unmark _ | MarkDVUpd _ | SetDVUpd _ _ | AutoUpdate | GetCE _ | Query => true
  | InvalidateAll g => 4 <=? g
  | InvalidateCache g => (g <? 3) || (4 <=? g)
  | SetDV k _ => 4 <=? d_inval (get_dv k s)
  | _ => false
  end.

(** several State objects: the specification of copy construction, copy assignment and move assignment *)
Definition gworld := list gst.
Definition gwstep (W:gworld) (o:wop) : gworld * bool :=
  match o with
  | On i o' => if i <? length W then let '(G',t) := gstep (nth i W (mkG 0 [])) o' in (upd_nth i (fun _ => G') W, t) else (W,true)
  | CopyC d s_ => if (d <? length W) && (s_ <? length W) then (upd_nth d (fun _ => g_copy (nth s_ W (mkG 0 []))) W, false) else (W,true)
  | Assign d s_ => if (d <? length W) && (s_ <? length W) then
                     if d =? s_ then (W,false) else (upd_nth d (fun _ => g_copy (nth s_ W (mkG 0 []))) W, false)
                   else (W,true)
  | Move d s_ => if (d <? length W) && (s_ <? length W) then
                   (upd_nth s_ (fun _ => nth d W (mkG 0 [])) (upd_nth d (fun _ => nth s_ W (mkG 0 [])) W), false) else (W,true)
  end.
Fixpoint gwrun (W:gworld) (l:list wop) : gworld := match l with [] => W | o::t => gwrun (fst (gwstep W o)) t end.

(** traces: thrown-or-not and the observation after every operation *)
Fixpoint trace (cf:cfg) (s:st) (l:list op) : list (bool * (stage * list (stage * list bool))) :=
  match l with [] => [] | o::t => let r := step cf s o in (snd r, obs (fst r)) :: trace cf (fst r) t end.
Fixpoint gtrace (G:gst) (l:list op) : list (bool * (stage * list (stage * list bool))) :=
  match l with [] => [] | o::t => let r := gstep G o in (snd r, gobs (fst r)) :: gtrace (fst r) t end.

(** executable form of the invariants of the refinement proof (C18_Refine.v [WF], [Dyn]); sound by C18_Refine3.v;
    also evaluated by the correspondence driver on every state it reaches *)
Definition wf_check (s:st) : bool :=
  forallb (fun E => c_q (get_ce E s)) (qd s) && forallb (fun E => c_u (get_ce E s)) (ud s) && forallb (fun E => c_z (get_ce E s)) (zd s)
  && forallb (fun E => let c := get_ce E s in
        implb (c_q c) (mem_key E (qd s)) && implb (c_u c) (mem_key E (ud s)) && implb (c_z c) (mem_key E (zd s))
        && forallb (fun P => mem_key E (c_deps (get_ce P s))) (c_ces c)
        && forallb (fun D => mem_key E (c_ces (get_ce D s))) (c_deps c)
        && forallb (fun dk => mem_key E (d_deps (get_dv dk s))) (c_dvs c)
        && (c_alloc c <=? 3) && (c_dep c <=? 9)) (all_ce_keys s)
  && forallb (fun dk => let d := get_dv dk s in forallb (fun E => mem_key dk (c_dvs (get_ce E s))) (d_deps d) && (d_alloc d <=? 3)) (all_dv_keys s)
  && forallb (fun b => forallb (fun x => fst x <=? 3) (s_qs b) && forallb (fun x => fst x <=? 3) (s_us b) && forallb (fun x => fst x <=? 3) (s_zs b)) (subs s).
Definition dyn_check (s:st) : bool :=
  forallb (fun b => forallb (fun j => 1 <=? getv (s_ver b) j) (seq 0 11)) (subs s)
  && forallb (fun k => let c := get_ce k s in let b := get_sub (fst k) s in
        (c_verWhen c <=? getv (s_ver b) (c_dep c))
        && implb (c_ok c && (getv (s_ver b) (c_dep c) =? c_verWhen c)) (c_dep c <=? s_stage b)) (all_ce_keys s).

(** operations covered by the refinement theorem: allocations and run-time operations (everything except backing the
    state up below Instance; copies are world-level operations) *)
Definition is_alloc (o:op) : bool :=
  match o with AllocQ _ _ | AllocU _ _ | AllocZ _ _ | AllocDV _ _ _ | AllocAutoDV _ _ _ _ | AllocCE _ _ _ | AllocCEPre _ _ _ _ _ _ _ _ => true | _ => false end.
Definition covered (s:st) (o:op) : bool := is_alloc o || runtime s o.
(** every operation of the sequence is covered and none is a deviation event *)
Fixpoint legal_run (cf:cfg) (s:st) (l:list op) : bool :=
  match l with [] => true | o::t => covered s o && legal cf s o && legal_run cf (fst (step cf s o)) t end.
