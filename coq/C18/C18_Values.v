(** C18: value versions and values under run-time operations. *)
From Coq Require Import List Arith Bool PeanoNat Lia.
Require Import C18_Model C18_Basics C18_Spec C18_Refine C18_Refine2.
Import ListNotations.

(** all value versions of s' are >= those of s *)
Definition le_vals (s s':st) : Prop :=
  qv s <= qv s' /\ uv s <= uv s' /\ zv s <= zv s' /\
  (forall dk, d_valver (get_dv dk s) <= d_valver (get_dv dk s')) /\ (forall k, c_valver (get_ce k s) <= c_valver (get_ce k s')).
Fact le_refl s : le_vals s s. Proof. unfold le_vals; repeat split; auto. Qed.
Fact le_trans s1 s2 s3 : le_vals s1 s2 -> le_vals s2 s3 -> le_vals s1 s3.
Proof. unfold le_vals. intros (A1 & A2 & A3 & A4 & A5) (B1 & B2 & B3 & B4 & B5). repeat split; try lia.
  - intros dk. specialize (A4 dk). specialize (B4 dk). lia.
  - intros k. specialize (A5 k). specialize (B5 k). lia. Qed.

Fact qv_upd_sub i f s : qv (upd_sub i f s) = qv s /\ uv (upd_sub i f s) = uv s /\ zv (upd_sub i f s) = zv s. Proof. auto. Qed.
Fact le_upd_ce k f s : (forall c, c_valver c <= c_valver (f c)) -> le_vals s (upd_ce k f s).
Proof. intros H. unfold le_vals. repeat split; auto.
  - intros dk. rewrite get_dv_upd_ce. auto.
  - intros k'. rewrite get_ce_upd_ce. dest_if; auto. Qed.
Fact le_upd_dv k f s : (forall d, d_valver d <= d_valver (f d)) -> le_vals s (upd_dv k f s).
Proof. intros H. unfold le_vals. repeat split; auto.
  - intros dk. rewrite get_dv_upd_dv. dest_if; auto.
  - intros k'. rewrite get_ce_upd_dv. auto. Qed.
Fact le_fold {A} (F:st->A->st) l s : (forall t a, le_vals t (F t a)) -> le_vals s (fold_left F l s).
Proof. intros H. revert s. induction l; simpl; intros; [apply le_refl|]. eapply le_trans; [apply H|apply IHl]. Qed.
Fact le_inval_ce n k s : le_vals s (inval_ce n k s).
Proof. revert k s. induction n; intros; simpl; [apply le_refl|].
  eapply le_trans; [apply (le_upd_ce k c_invalidate s)|apply le_fold; auto]. intros c. simpl. lia. Qed.
Fact le_notify l s : le_vals s (notify l s).
Proof. unfold notify. apply le_fold. intros; apply le_inval_ce. Qed.
Fact le_rest s s' : rest s = rest s' -> le_vals s s'.
Proof. intros R. unfold le_vals. unfold rest in R.
  assert (qv s = qv s' /\ uv s = uv s' /\ zv s = zv s') as (-> & -> & ->) by (repeat split; congruence).
  repeat split; auto.
  - intros dk. rewrite (rest_get_dv s s' dk); auto.
  - intros k. rewrite (rest_get_ce s s' k); auto. Qed.
Fact le_same_subs s s' : subs s' = subs s -> qv s <= qv s' -> uv s <= uv s' -> zv s <= zv s' -> le_vals s s'.
Proof. intros E A B C. unfold le_vals. repeat split; auto.
  - intros dk. unfold get_dv, get_sub. rewrite E. auto.
  - intros k. unfold get_ce, get_sub. rewrite E. auto. Qed.
Fact le_noteQ s : le_vals s (noteQ s).
Proof. unfold noteQ. eapply le_trans; [|apply le_notify]. apply le_same_subs; simpl; auto. Qed.
Fact le_noteU s : le_vals s (noteU s).
Proof. unfold noteU. eapply le_trans; [|apply le_notify]. apply le_same_subs; simpl; auto. Qed.
Fact le_noteZ s : le_vals s (noteZ s).
Proof. unfold noteZ. eapply le_trans; [|apply le_notify]. apply le_same_subs; simpl; auto. Qed.
Fact le_auto_one cf s dk : le_vals s (auto_one cf s dk).
Proof. unfold auto_one. destruct (d_auto (get_dv dk s)); [|apply le_refl]. destruct (isUpToDate _ _); [|apply le_refl]. cbv zeta.
  set (fA := fun d => d_set_val d (c_val (get_ce (fst dk,n) s))).
  set (fB := fun c => c_set_val c (d_val (get_dv dk s))).
  eapply le_trans; [apply (le_upd_dv dk fA s); intros d; simpl; lia|].
  eapply le_trans; [apply (le_upd_ce (fst dk,n) fB); intros c; simpl; lia|].
  destruct (fix_auto cf); [|apply le_inval_ce].
  eapply le_trans; [apply (le_upd_dv dk (fun d => d_set_valver d (S (d_valver d)))); intros d; simpl; lia|].
  eapply le_trans; [apply le_notify|apply le_inval_ce]. Qed.

(** value versions never decrease under a run-time operation *)
Fact step_le_vals cf s o : WF s -> runtime s o = true -> le_vals s (fst (step cf s o)).
Proof. intros W R. destruct o; try discriminate R; cbn [step].
  - destruct (negb (has_sub s ss)); [apply le_refl|]. destruct (negb _); [apply le_refl|]. cbn [fst ok]. apply le_rest. symmetry. apply rest_upd_sub. reflexivity.
  - destruct (negb _); [apply le_refl|]. cbn [fst ok]. unfold adv_sys. destruct (g =? 2).
    + eapply le_trans; [|apply le_same_subs; simpl; auto]. eapply le_trans; [|apply le_notify]. eapply le_trans; [|apply le_notify]. eapply le_trans; [|apply le_notify].
      apply le_same_subs; simpl; auto.
    + apply le_same_subs; simpl; auto.
  - destruct (negb _); [apply le_refl|]. cbn [fst ok]. cbn [runtime] in R. b2p. apply le_rest. symmetry. apply invalidateAll_rest; auto.
  - destruct (negb _); [apply le_refl|]. destruct (g <? 3) eqn:E; [apply le_refl|]. cbn [fst ok]. cbn [runtime] in R. rewrite E in R. cbn [orb] in R. b2p.
    apply le_rest. symmetry. apply invalidateAll_rest; auto.
  - cbn [fst ok]. eapply le_trans. { apply le_rest. symmetry. apply (invalidateAll_rest s (w_stage w) W (w_stage_ge w)). }
    destruct w; try apply le_refl; auto using le_noteQ, le_noteU, le_noteZ.
    unfold noteY. eapply le_trans; [apply le_noteQ|]. eapply le_trans; [apply le_noteU|]. apply le_noteZ.
  - destruct (negb _); [apply le_refl|]. cbn [fst ok]. cbn [runtime] in R. b2p.
    eapply le_trans. { apply le_rest. symmetry. apply (invalidateAll_rest s _ W R). }
    eapply le_trans; [|apply le_notify]. eapply le_trans; [|apply le_upd_dv; intros d; simpl; lia].
    destruct (d_auto (get_dv k s)); [apply le_inval_ce|apply le_refl].
  - destruct (negb _); [apply le_refl|]. cbn [fst ok]. apply le_upd_ce. intros c; simpl; lia.
  - destruct (negb _); [apply le_refl|]. cbn [fst ok]. apply le_upd_ce. intros c; simpl; lia.
  - destruct (negb _); [apply le_refl|]. cbn [fst ok]. apply le_inval_ce.
  - destruct (negb _); [apply le_refl|]. destruct (d_auto (get_dv k s)); [|apply le_refl]. cbn [fst ok]. apply le_upd_ce. intros c; simpl; lia.
  - destruct (negb _); [apply le_refl|]. destruct (d_auto (get_dv k s)); [|apply le_refl]. cbn [fst ok]. apply le_upd_ce. intros c; simpl; lia.
  - cbn [fst ok]. apply le_fold. intros; apply le_auto_one.
  - destruct (negb _); apply le_refl.
  - apply le_refl.
  - destruct (negb _); [apply le_refl|]. cbn [fst ok].
    eapply le_trans. { apply le_rest. symmetry. apply (invalidateAll_rest s (ws_stage w) W (ws_stage_ge w)). }
    destruct w; try apply le_refl; auto using le_noteQ, le_noteU, le_noteZ. Qed.

(* discrete variables are untouched by notifications *)
Fact get_dv_inval_ce n k s dk : get_dv dk (inval_ce n k s) = get_dv dk s.
Proof. revert k s. induction n; intros; simpl; auto.
  assert (F: forall l t, get_dv dk (fold_left (fun s' d => inval_ce n d s') l t) = get_dv dk t).
  { induction l; simpl; intros; auto. rewrite IHl. apply IHn. }
  rewrite F. apply get_dv_upd_ce. Qed.
Fact get_dv_notify l s dk : get_dv dk (notify l s) = get_dv dk s.
Proof. unfold notify. generalize (fuel s). intros n. revert s. induction l; simpl; intros; auto. rewrite IHl. apply get_dv_inval_ce. Qed.
Fact get_dv_same_subs s s' dk : subs s' = subs s -> get_dv dk s' = get_dv dk s.
Proof. intros E. unfold get_dv, get_sub. rewrite E. auto. Qed.
Fact get_dv_noteY s dk : get_dv dk (noteY s) = get_dv dk s.
Proof. unfold noteY, noteZ, noteU, noteQ.
  rewrite get_dv_notify. change (get_dv dk (set_zv ?x ?v)) with (get_dv dk x).
  rewrite get_dv_notify. change (get_dv dk (set_uv ?x ?v)) with (get_dv dk x).
  rewrite get_dv_notify. reflexivity. Qed.

(** a discrete variable (value and value version) is changed only by setDiscreteVariable of that variable and by
    autoUpdateDiscreteVariables: every other run-time operation leaves it as it is *)
Fact step_dv_frame cf s o dk : WF s -> runtime s o = true -> o <> AutoUpdate -> (forall v, o <> SetDV dk v) ->
  get_dv dk (fst (step cf s o)) = get_dv dk s.
Proof. intros W R NA NS. destruct o; try discriminate R; cbn [step].
  - destruct (negb (has_sub s ss)); auto. destruct (negb _); auto. cbn [fst ok]. apply rest_get_dv. apply rest_upd_sub. reflexivity.
  - destruct (negb _); auto. cbn [fst ok]. unfold adv_sys. destruct (g =? 2); [|apply get_dv_same_subs; auto].
    change (get_dv dk (set_sys ?t ?a ?b)) with (get_dv dk t). rewrite !get_dv_notify. reflexivity.
  - destruct (negb _); auto. cbn [fst ok]. cbn [runtime] in R. b2p. apply rest_get_dv. apply invalidateAll_rest; auto.
  - destruct (negb _); auto. destruct (g <? 3) eqn:E; auto. cbn [fst ok]. cbn [runtime] in R. rewrite E in R. cbn [orb] in R. b2p.
    apply rest_get_dv. apply invalidateAll_rest; auto.
  - cbn [fst ok]. pose proof (rest_get_dv _ _ dk (invalidateAll_rest s (w_stage w) W (w_stage_ge w))) as X.
    destruct w; auto; unfold noteQ, noteU, noteZ; rewrite ?get_dv_noteY, ?get_dv_notify; auto.
  - destruct (negb _); auto. cbn [fst ok]. cbn [runtime] in R. b2p.
    rewrite get_dv_notify, get_dv_upd_dv.
    replace (key_eqb dk k) with false. 2:{ symmetry. apply key_eqb_neq. intros ->. apply (NS v); auto. }
    cbn [andb]. destruct (d_auto (get_dv k s)); rewrite ?get_dv_inval_ce; apply rest_get_dv; apply invalidateAll_rest; auto.
  - destruct (negb _); auto. cbn [fst ok]. apply get_dv_upd_ce.
  - destruct (negb _); auto. cbn [fst ok]. apply get_dv_upd_ce.
  - destruct (negb _); auto. cbn [fst ok]. apply get_dv_inval_ce.
  - destruct (negb _); auto. destruct (d_auto (get_dv k s)); auto. cbn [fst ok]. apply get_dv_upd_ce.
  - destruct (negb _); auto. destruct (d_auto (get_dv k s)); auto. cbn [fst ok]. apply get_dv_upd_ce.
  - contradiction.
  - destruct (negb _); auto.
  - auto.
  - destruct (negb _); auto. cbn [fst ok]. pose proof (rest_get_dv _ _ dk (invalidateAll_rest s (ws_stage w) W (ws_stage_ge w))) as X.
    destruct w; auto; unfold noteQ, noteU, noteZ; rewrite ?get_dv_notify; auto. Qed.

(** setDiscreteVariable: the value is the one written, the value version is bumped by exactly one *)
Fact step_setdv cf s k v : WF s -> runtime s (SetDV k v) = true -> has_sub s (fst k) && has_dv s k = true ->
  d_val (get_dv k (fst (step cf s (SetDV k v)))) = v /\ d_valver (get_dv k (fst (step cf s (SetDV k v)))) = S (d_valver (get_dv k s)).
Proof. intros W R H. cbn [step]. rewrite H. cbn [negb fst ok]. cbn [runtime] in R. b2p.
  set (s1 := invalidateAll (d_inval (get_dv k s)) s).
  assert (RS: rest s1 = rest s) by (apply invalidateAll_rest; auto).
  set (s2 := match d_auto (get_dv k s) with Some cx => inval_ce (fuel s1) (fst k, cx) s1 | None => s1 end).
  assert (G: get_dv k s2 = get_dv k s). { unfold s2. destruct (d_auto (get_dv k s)); rewrite ?get_dv_inval_ce; apply rest_get_dv; auto. }
  assert (HD: has_dv s2 k = true).
  { unfold s2. replace (has_dv _ k) with (has_dv s1 k).
    - unfold has_dv. rewrite (rest_dvs s1 s (fst k) RS). auto.
    - destruct (d_auto (get_dv k s)); auto. apply sk_has_dv. symmetry. apply sk_inval_ce. }
  rewrite get_dv_notify, get_dv_upd_dv, key_eqb_refl, HD. cbn [andb d_set_val d_set_valver d_val d_valver]. rewrite G. auto. Qed.

(** one auto-update turn: the variable takes the update value exactly when that value is up to date (the swap), and
    the update entry takes the old value of the variable; otherwise nothing changes *)
Fact auto_one_swap cf s dk cx : d_auto (get_dv dk s) = Some cx -> has_dv s dk = true -> has_ce s (fst dk, cx) = true ->
  let s' := auto_one cf s dk in
  (isUpToDate s (fst dk,cx) = true -> d_val (get_dv dk s') = c_val (get_ce (fst dk,cx) s) /\ c_val (get_ce (fst dk,cx) s') = d_val (get_dv dk s)) /\
  (isUpToDate s (fst dk,cx) = false -> s' = s).
Proof. intros AU HD HC. unfold auto_one. rewrite AU. cbv zeta. split; intros UP; rewrite UP; auto.
  set (ck := (fst dk, cx)).
  set (s1 := upd_ce ck (fun c => c_set_val c (d_val (get_dv dk s))) (upd_dv dk (fun d => d_set_val d (c_val (get_ce ck s))) s)).
  assert (V1: d_val (get_dv dk s1) = c_val (get_ce ck s)).
  { unfold s1. rewrite get_dv_upd_ce, get_dv_upd_dv, key_eqb_refl, HD. reflexivity. }
  assert (C1: c_val (get_ce ck s1) = d_val (get_dv dk s)).
  { unfold s1. rewrite get_ce_upd_ce, key_eqb_refl. replace (has_ce _ ck) with true. reflexivity.
    symmetry. unfold has_ce. rewrite ces_upd_dv. exact HC. }
  set (s2 := if fix_auto cf then notify (d_deps (get_dv dk s1)) (upd_dv dk (fun d => d_set_valver d (S (d_valver d))) s1) else s1).
  assert (V2: d_val (get_dv dk s2) = c_val (get_ce ck s) /\ c_val (get_ce ck s2) = d_val (get_dv dk s)).
  { unfold s2. destruct (fix_auto cf); auto. split.
    - rewrite get_dv_notify, get_dv_upd_dv. dest_if; auto.
    - assert (X: forall l t, c_val (get_ce ck (notify l t)) = c_val (get_ce ck t)).
      { assert (Y: forall n k t, c_val (get_ce ck (inval_ce n k t)) = c_val (get_ce ck t)).
        { induction n; intros; simpl; auto.
          assert (F: forall l t, c_val (get_ce ck (fold_left (fun s' d => inval_ce n d s') l t)) = c_val (get_ce ck t)).
          { induction l; simpl; intros; auto. rewrite IHl. apply IHn. }
          rewrite F, get_ce_upd_ce. dest_if; auto. }
        intros l t. unfold notify. generalize (fuel t). intros n. revert t. induction l; simpl; intros; auto. rewrite IHl. apply Y. }
      rewrite X, get_ce_upd_dv. auto. }
  destruct V2 as [V2 C2]. split.
  - rewrite get_dv_inval_ce. auto.
  - assert (Y: forall n k t, c_val (get_ce ck (inval_ce n k t)) = c_val (get_ce ck t)).
    { induction n; intros; simpl; auto.
      assert (F: forall l t, c_val (get_ce ck (fold_left (fun s' d => inval_ce n d s') l t)) = c_val (get_ce ck t)).
      { induction l; simpl; intros; auto. rewrite IHl. apply IHn. }
      rewrite F, get_ce_upd_ce. dest_if; auto. }
    rewrite Y. auto. Qed.

(* q/u/z value versions are untouched by notifications and by run-time stage invalidation *)
Definition qvs (s:st) := (qv s, uv s, zv s).
Fact qvs_fold {A} (F:st->A->st) l s : (forall t a, qvs (F t a) = qvs t) -> qvs (fold_left F l s) = qvs s.
Proof. intros H; revert s; induction l; simpl; auto. intros; rewrite IHl; auto. Qed.
Fact qvs_inval_ce n k s : qvs (inval_ce n k s) = qvs s.
Proof. revert k s. induction n; intros; simpl; auto. rewrite qvs_fold; auto. Qed.
Fact qvs_notify l s : qvs (notify l s) = qvs s.
Proof. unfold notify. apply qvs_fold. intros; apply qvs_inval_ce. Qed.
Fact qvs_rest s s' : rest s = rest s' -> qvs s = qvs s'.
Proof. unfold rest, qvs. intros H. f_equal; [f_equal|]; congruence. Qed.

(** updQ / updU / updZ / updY bump exactly the value versions of what they hand out *)
Fact step_upd_versions cf s : WF s ->
  qvs (fst (step cf s (Upd WQ))) = (S (qv s), uv s, zv s) /\ qvs (fst (step cf s (Upd WU))) = (qv s, S (uv s), zv s) /\
  qvs (fst (step cf s (Upd WZ))) = (qv s, uv s, S (zv s)) /\ qvs (fst (step cf s (Upd WY))) = (S (qv s), S (uv s), S (zv s)) /\
  qvs (fst (step cf s (Upd WT))) = qvs s.
Proof. intros W. cbn [step fst ok].
  assert (R: forall w, qvs (invalidateAll (w_stage w) s) = qvs s) by (intros w; apply qvs_rest, invalidateAll_rest; auto; apply w_stage_ge).
  pose proof (R WQ) as RQ. pose proof (R WU) as RU. pose proof (R WZ) as RZ. pose proof (R WY) as RY. pose proof (R WT) as RT.
  unfold qvs in *. unfold noteY, noteQ, noteU, noteZ.
  repeat split.
  - pose proof (qvs_notify (qd (invalidateAll (w_stage WQ) s)) (set_qv (invalidateAll (w_stage WQ) s) (S (qv (invalidateAll (w_stage WQ) s))))) as X. unfold qvs in X. rewrite X. cbn [qv uv zv set_qv set_uv set_zv]. congruence.
  - pose proof (qvs_notify (ud (invalidateAll (w_stage WU) s)) (set_uv (invalidateAll (w_stage WU) s) (S (uv (invalidateAll (w_stage WU) s))))) as X. unfold qvs in X. rewrite X. cbn [qv uv zv set_qv set_uv set_zv]. congruence.
  - pose proof (qvs_notify (zd (invalidateAll (w_stage WZ) s)) (set_zv (invalidateAll (w_stage WZ) s) (S (zv (invalidateAll (w_stage WZ) s))))) as X. unfold qvs in X. rewrite X. cbn [qv uv zv set_qv set_uv set_zv]. congruence.
  - set (t := invalidateAll (w_stage WY) s) in *.
    match goal with |- (qv (notify ?l ?x), _, _) = _ => pose proof (qvs_notify l x) as X3; unfold qvs in X3; rewrite X3 end. cbn [qv uv zv set_zv].
    match goal with |- (qv (notify ?l ?x), _, _) = _ => pose proof (qvs_notify l x) as X2; unfold qvs in X2 end.
    assert (E2: forall a b c a' b' c' : nat, (a,b,c) = (a',b',c') -> a = a' /\ b = b' /\ c = c') by (intros; repeat split; congruence).
    apply E2 in X2. destruct X2 as (X21 & X22 & X23). rewrite X21, X22, X23. cbn [qv uv zv set_uv].
    match goal with |- (qv (notify ?l ?x), _, _) = _ => pose proof (qvs_notify l x) as X1; unfold qvs in X1 end.
    apply E2 in X1. destruct X1 as (X11 & X12 & X13). rewrite X11, X12, X13. cbn [qv uv zv set_qv]. congruence.
  - auto. Qed.

(** the per-subsystem accessors updQ(subsys) / updU(subsys) / updZ(subsys) bump exactly the value version of what they hand out,
    the per-subsystem weight accessors none *)
Fact step_updsub_versions cf s ss : WF s -> has_sub s ss = true ->
  qvs (fst (step cf s (UpdSub WQ ss))) = (S (qv s), uv s, zv s) /\ qvs (fst (step cf s (UpdSub WU ss))) = (qv s, S (uv s), zv s) /\
  qvs (fst (step cf s (UpdSub WZ ss))) = (qv s, uv s, S (zv s)) /\
  (forall w, w = WUW \/ w = WZW \/ w = WQEW \/ w = WUEW -> qvs (fst (step cf s (UpdSub w ss))) = qvs s).
Proof. intros W HS. cbn [step]. rewrite HS. cbn [andb sub_ok negb fst ok].
  assert (R: forall w, qvs (invalidateAll (ws_stage w) s) = qvs s) by (intros w; apply qvs_rest, invalidateAll_rest; auto; apply ws_stage_ge).
  pose proof (R WQ) as RQ. pose proof (R WU) as RU. pose proof (R WZ) as RZ.
  unfold qvs in *. unfold noteQ, noteU, noteZ.
  split; [|split; [|split]].
  - pose proof (qvs_notify (qd (invalidateAll (ws_stage WQ) s)) (set_qv (invalidateAll (ws_stage WQ) s) (S (qv (invalidateAll (ws_stage WQ) s))))) as X. unfold qvs in X. rewrite X. cbn [qv uv zv set_qv set_uv set_zv]. congruence.
  - pose proof (qvs_notify (ud (invalidateAll (ws_stage WU) s)) (set_uv (invalidateAll (ws_stage WU) s) (S (uv (invalidateAll (ws_stage WU) s))))) as X. unfold qvs in X. rewrite X. cbn [qv uv zv set_qv set_uv set_zv]. congruence.
  - pose proof (qvs_notify (zd (invalidateAll (ws_stage WZ) s)) (set_zv (invalidateAll (ws_stage WZ) s) (S (zv (invalidateAll (ws_stage WZ) s))))) as X. unfold qvs in X. rewrite X. cbn [qv uv zv set_qv set_uv set_zv]. congruence.
  - intros w [ -> | [ -> | [ -> | -> ] ] ]; cbn [sub_ok negb andb fst ok]; apply (R _). Qed.
